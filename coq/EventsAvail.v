(* EventsAvail.v -- C13, last clause: the union of the announced ranges equals the set of blocks that
   became available.  For EVERY core state and input (no invariant) the availability predicate [core_has]
   after append / apply / clear / the read-only calls is given exactly, for successful AND for failing
   calls; a history-level corollary ties the [EvHave] events of a run to the change of [core_has]. *)
From HC Require Import Base NMap Codec CodecFacts Crypto FlatTree Storage Bitfield Oplog Merkle Core.
From HC Require Import BitfieldFacts CoreFacts Refine Replicate.
From Coq Require Import ZifyN ZifyNat ZifyBool.
Ltac Zify.zify_post_hook ::= Z.div_mod_to_equations.
Arguments N.add : simpl never.
Arguments N.sub : simpl never.
Arguments N.mul : simpl never.
Arguments N.div : simpl never.
Arguments N.modulo : simpl never.
Arguments N.pow : simpl never.
Arguments N.eqb : simpl never.
Arguments N.ltb : simpl never.
Arguments N.leb : simpl never.

(* ====================================================================================== *)
(* 0. Symbolic execution of the state monad                                                *)
(* ====================================================================================== *)

Lemma mbind_put_bitfield {B} b (f : unit -> M B) c w :
  mbind (put_bitfield b) f c w =
  f tt (mkCore (c_keypair c) (c_oplog c) (c_tree c) b (c_header c) (c_skip c)) w.
Proof. reflexivity. Qed.
Lemma mbind_put_header {B} h (f : unit -> M B) c w :
  mbind (put_header h) f c w =
  f tt (mkCore (c_keypair c) (c_oplog c) (c_tree c) (c_bitfield c) h (c_skip c)) w.
Proof. reflexivity. Qed.
Lemma mbind_put_oplog {B} o (f : unit -> M B) c w :
  mbind (put_oplog o) f c w =
  f tt (mkCore (c_keypair c) o (c_tree c) (c_bitfield c) (c_header c) (c_skip c)) w.
Proof. reflexivity. Qed.
Lemma mbind_put_tree {B} t (f : unit -> M B) c w :
  mbind (put_tree t) f c w =
  f tt (mkCore (c_keypair c) (c_oplog c) t (c_bitfield c) (c_header c) (c_skip c)) w.
Proof. reflexivity. Qed.
Lemma mbind_put_skip {B} s (f : unit -> M B) c w :
  mbind (put_skip s) f c w =
  f tt (mkCore (c_keypair c) (c_oplog c) (c_tree c) (c_bitfield c) (c_header c) s) w.
Proof. reflexivity. Qed.
Lemma mbind_put_keypair {B} k (f : unit -> M B) c w :
  mbind (put_keypair k) f c w =
  f tt (mkCore k (c_oplog c) (c_tree c) (c_bitfield c) (c_header c) (c_skip c)) w.
Proof. reflexivity. Qed.

Lemma mbind_ok {A B} (m : M A) (f : A -> M B) c w c1 w1 a :
  m c w = (c1, w1, Ok a) -> mbind m f c w = f a c1 w1.
Proof. unfold mbind. intros ->. reflexivity. Qed.

(* a bind on [emit]: either every operation was applied and the continuation runs in the same core,
   or the run stops there with the core unchanged *)
Lemma mbind_emit_inv {B} ops (f : unit -> M B) c w c' w' r :
  mbind (emit ops) f c w = (c', w', r) ->
  (exists w1, emit ops c w = (c, w1, Ok tt) /\ f tt c w1 = (c', w', r)) \/
  (c' = c /\ r = Err InvalidOperation /\ emit ops c w = (c, w', Err InvalidOperation)).
Proof.
  intros H. apply mbind_inv in H. destruct H as (c1 & w1 & r1 & Hm & H).
  pose proof (emit_inv _ _ _ _ _ _ Hm) as (-> & _ & done & _ & _ & Hr).
  destruct r1 as [[]|e|s|].
  - left. exists w1. split; assumption.
  - right. destruct H as (Hc & Hw & Hr'). destruct Hr as (He & _). subst.
    split; [reflexivity|]. split; [reflexivity|]. exact Hm.
  - contradiction.
  - contradiction.
Qed.

(* a single storage operation *)
Lemma emit_single o c w c' w' r :
  emit [o] c w = (c', w', r) ->
  c' = c /\ w_events w' = w_events w /\
  ((r = Ok tt /\ w_journal w' = o :: w_journal w /\ apply_sop (w_disk w) o = Some (w_disk w')) \/
   (r = Err InvalidOperation /\ w' = w /\ apply_sop (w_disk w) o = None)).
Proof.
  cbn [emit]. destruct (apply_sop (w_disk w) o) as [d'|] eqn:E; intros H.
  - unfold ret in H. inversion H; subst. cbn [w_events w_journal w_disk].
    split; [reflexivity|]. split; [reflexivity|]. left. repeat split.
  - inversion H; subst. split; [reflexivity|]. split; [reflexivity|]. right. repeat split.
Qed.

(* a write never fails *)
Lemma emit_single_write s off data c w c' w' r :
  emit [SW s off data] c w = (c', w', r) ->
  c' = c /\ w_events w' = w_events w /\ r = Ok tt /\ w_journal w' = SW s off data :: w_journal w.
Proof.
  intros H. apply emit_single in H. destruct H as (-> & Ev & [(-> & J & _)|(_ & _ & D)]).
  - auto.
  - discriminate D.
Qed.

(* the two facts about a core that availability statements speak about *)
Definition bits (c : core) := bf_bits (c_bitfield c).

Lemma core_has_bits c c' : bits c' = bits c -> forall i, core_has c' i = core_has c i.
Proof. unfold bits, core_has, bf_get. intros -> i. reflexivity. Qed.

Section Avail.
  Variable cr : crypto.

(* ====================================================================================== *)
(* 1. Flushing changes neither the bits nor the tree length                                *)
(* ====================================================================================== *)

  Lemma flush_all_frame ct c w c' w' r :
    flush_all cr ct c w = (c', w', r) ->
    bits c' = bits c /\ t_length (c_tree c') = t_length (c_tree c).
  Proof.
    unfold flush_all. rewrite mbind_get_core. intros H.
    destruct (bf_flush (c_bitfield c)) as [b' pops] eqn:BF.
    unfold bf_flush in BF. inversion BF; subst b' pops; clear BF.
    rewrite mbind_put_bitfield in H.
    apply mbind_emit_inv in H. destruct H as [(w1 & _ & H)|(-> & _ & _)]; [|split; reflexivity].
    rewrite mbind_lift in H. cbn [c_tree] in H.
    destruct (tree_flush (c_tree c)) as [[t' tops]|e|s|] eqn:TF;
      try (inversion H; subst; split; reflexivity).
    assert (TL : t_length t' = t_length (c_tree c)).
    { unfold tree_flush in TF.
      match type of TF with (if ?b then _ else _) = _ => destruct b end; [|discriminate TF].
      inversion TF; subst. reflexivity. }
    rewrite mbind_put_tree in H.
    apply mbind_emit_inv in H. destruct H as [(w2 & _ & H)|(-> & _ & _)]; [|split; [reflexivity|exact TL]].
    rewrite mbind_get_core, mbind_lift in H.
    match type of H with
    | match ?x with _ => _ end = _ => destruct x as [[o' oops]|e|s|]
    end; try (inversion H; subst; split; [reflexivity|exact TL]).
    rewrite mbind_put_oplog in H. apply emit_inv in H. destruct H as (-> & _).
    split; [reflexivity|exact TL].
  Qed.

  Lemma maybe_flush_frame f c w c' w' r :
    maybe_flush cr f c w = (c', w', r) ->
    bits c' = bits c /\ t_length (c_tree c') = t_length (c_tree c).
  Proof.
    unfold maybe_flush. rewrite mbind_get_core. intros H.
    match type of H with (if ?b then _ else _) _ _ = _ => destruct b end.
    - rewrite mbind_put_skip in H. apply flush_all_frame in H. exact H.
    - unfold put_skip in H. inversion H; subst. split; reflexivity.
  Qed.

(* ====================================================================================== *)
(* 2. log_and_commit: the only place where bits are set                                    *)
(* ====================================================================================== *)

  Definition bf_after (b : bitfield) (bu : option bf_update) : bitfield :=
    match bu with Some u => bf_apply b u | None => b end.

  (* Every outcome. On success the bitfield update has been applied, the tree is the committed one and
     the oplog entry has been journalled. A failure either happened before anything was journalled (core
     bitfield and tree untouched) or is the failure of tree_commit AFTER the entry was journalled and the
     bitfield updated. *)
  Lemma log_and_commit_outcome cs bu c w c' w' r :
    log_and_commit cr cs bu c w = (c', w', r) ->
    c_keypair c' = c_keypair c /\ c_skip c' = c_skip c /\
    match r with
    | Ok _ =>
        exists fr,
          c_bitfield c' = bf_after (c_bitfield c) bu /\
          tree_commit (c_tree c) cs = Ok (c_tree c') /\
          w_journal w' = SW Oplog (ENTRIES_OFFSET + ol_entries_bytes (c_oplog c)) fr :: w_journal w
    | _ =>
        (c_bitfield c' = c_bitfield c /\ c_tree c' = c_tree c /\ w_journal w' = w_journal w) \/
        (exists fr,
           c_bitfield c' = bf_after (c_bitfield c) bu /\ c_tree c' = c_tree c /\
           w_journal w' = SW Oplog (ENTRIES_OFFSET + ol_entries_bytes (c_oplog c)) fr :: w_journal w /\
           forall t, tree_commit (c_tree c) cs <> Ok t)
    end.
  Proof.
    unfold log_and_commit. rewrite mbind_get_core, mbind_lift. intros H.
    destruct (entry_of_changeset cs bu (c_header c)) as [[e h']|e|s|];
      try (inversion H; subst; split; [reflexivity|split; [reflexivity|left; repeat split]]).
    rewrite mbind_lift in H.
    destruct (oplog_append cr (c_oplog c) e) as [[o' ops]|e0|s|] eqn:OA;
      try (inversion H; subst; split; [reflexivity|split; [reflexivity|left; repeat split]]).
    apply oplog_append_shape in OA. destruct OA as (fr & ->).
    rewrite mbind_put_oplog in H.
    apply mbind_emit_inv in H. destruct H as [(w1 & E & H)|(_ & _ & E)].
    2:{ apply emit_single_write in E. destruct E as (_ & _ & E & _). discriminate E. }
    apply emit_single_write in E. destruct E as (_ & _ & _ & J1).
    rewrite mbind_put_header in H.
    cbn [c_keypair c_oplog c_tree c_bitfield c_header c_skip] in H.
    set (c1 := mkCore (c_keypair c) o' (c_tree c) (c_bitfield c) h' (c_skip c)) in H.
    assert (Hin : exists hh,
               (match bu with
                | Some u =>
                    c2 <-- get_core ;;;
                    (let b' := bf_apply (c_bitfield c2) u in
                     put_bitfield b' ;;;
                     put_header (set_contig (c_header c2) (update_contig (hd_contig (c_header c2)) b' u)))
                | None => ret tt
                end) c1 w1 =
               (mkCore (c_keypair c) o' (c_tree c) (bf_after (c_bitfield c) bu) hh (c_skip c), w1, Ok tt)).
    { destruct bu as [u|]; eexists.
      - rewrite mbind_get_core. cbv zeta. rewrite mbind_put_bitfield. unfold put_header, c1.
        cbn [c_keypair c_oplog c_tree c_bitfield c_header c_skip bf_after]. reflexivity.
      - unfold ret, c1. cbn [bf_after]. reflexivity. }
    destruct Hin as (hh & Hin).
    rewrite (mbind_ok _ _ _ _ _ _ _ Hin) in H.
    rewrite mbind_get_core, mbind_lift in H. cbn [c_tree] in H.
    destruct (tree_commit (c_tree c) cs) as [t'|e1|s1|] eqn:TC.
    - unfold put_tree in H. inversion H; subst. cbn [c_keypair c_skip c_bitfield c_tree].
      split; [reflexivity|]. split; [reflexivity|]. exists fr. repeat split. exact J1.
    - inversion H; subst. cbn [c_keypair c_skip c_bitfield c_tree].
      split; [reflexivity|]. split; [reflexivity|]. right. exists fr.
      repeat split; [exact J1|discriminate].
    - inversion H; subst. cbn [c_keypair c_skip c_bitfield c_tree].
      split; [reflexivity|]. split; [reflexivity|]. right. exists fr.
      repeat split; [exact J1|discriminate].
    - inversion H; subst. cbn [c_keypair c_skip c_bitfield c_tree].
      split; [reflexivity|]. split; [reflexivity|]. right. exists fr.
      repeat split; [exact J1|discriminate].
  Qed.

(* ====================================================================================== *)
(* 3. append                                                                               *)
(* ====================================================================================== *)

  Lemma cs_append_more c d c' :
    cs_append cr c d = Ok c' ->
    cs_length c' = cs_length c + 1 /\ cs_orig_length c' = cs_orig_length c /\
    cs_orig_fork c' = cs_orig_fork c /\ cs_upgraded c' = true.
  Proof.
    unfold cs_append. intros H.
    apply bind_ok in H. destruct H as ([c1 it1] & H1 & H). inversion H; subst; clear H.
    unfold append_root in H1.
    apply bind_ok in H1. destruct H1 as (bl & _ & H1).
    apply bind_ok in H1. destruct H1 as ([[rr nr] it2] & _ & H1).
    inversion H1; subst; clear H1.
    cbn [cs_length cs_orig_length cs_orig_fork cs_upgraded].
    repeat split. unfold it_new.
    assert (N.odd (cs_length c * 2) = false) as -> by (rewrite N.odd_mul, andb_comm; reflexivity).
    cbn [it_factor]. change (2 / 2) with 1. reflexivity.
  Qed.

  Lemma cs_append_all_more batch : forall cs cs',
    cs_append_all cr cs batch = Ok cs' ->
    cs_length cs' = cs_length cs + N.of_nat (length batch) /\
    cs_orig_length cs' = cs_orig_length cs /\ cs_orig_fork cs' = cs_orig_fork cs /\
    (batch <> [] -> cs_upgraded cs' = true).
  Proof.
    induction batch as [|d batch IH]; intros cs cs' H; cbn [cs_append_all] in H.
    - inversion H; subst. cbn [length]. repeat split; [lia | congruence].
    - apply bind_ok in H. destruct H as (cs1 & H1 & H).
      apply cs_append_more in H1. destruct H1 as (L1 & O1 & F1 & U1).
      destruct (IH _ _ H) as (L2 & O2 & F2 & U2).
      rewrite L2, L1, O2, O1, F2, F1. cbn [length]. repeat split; [lia|]. intros _.
      destruct batch as [|d' batch]; [cbn [cs_append_all] in H; inversion H; subst; exact U1|].
      apply U2. discriminate.
  Qed.

  (* the tree after committing the changeset of a non-empty batch *)
  Lemma append_commit t batch cs sk :
    batch <> [] ->
    cs_append_all cr (tree_changeset t) batch = Ok cs ->
    exists t', tree_commit t (cs_hash_and_sign cr cs sk) = Ok t' /\
               t_length t' = t_length t + N.of_nat (length batch).
  Proof.
    intros Hne CA.
    destruct (cs_append_all_more _ _ _ CA) as (L & O & F & U). specialize (U Hne).
    destruct (cs_append_all_fields cr _ _ _ CA) as (A & _).
    cbn [tree_changeset cs_length cs_orig_length cs_orig_fork cs_ancestors] in L, O, F, A.
    unfold tree_commit, commitable, cs_hash_and_sign, cs_set_hash_sig.
    cbn [cs_orig_fork cs_upgraded cs_orig_length cs_ancestors cs_length].
    rewrite U, O, F, A, !N.eqb_refl, N.ltb_irrefl. cbn [andb negb].
    eexists. split; [reflexivity|]. cbn [t_length]. exact L.
  Qed.

  Definition in_range (s l i : N) : bool := (s <=? i) && (i <? s + l).

  (* EVERY outcome of an append.
     Success: exactly the announced range [old length, old length + batch size) is added.
     Failure: either nothing was journalled beyond (possibly) the data write and availability is
     unchanged, or the failure is the flush's, AFTER the oplog entry recording the bitfield update was
     journalled: then the range has been added in memory although no event is sent. *)
  Theorem append_outcome f batch c w c' w' r :
    core_append cr f batch c w = (c', w', r) ->
    let n := t_length (c_tree c) in
    let k := N.of_nat (length batch) in
    let data := SW Data (t_byte_length (c_tree c)) (concat batch) in
    match r with
    | Ok x =>
        (forall i, core_has c' i = core_has c i || in_range n k i) /\
        t_length (c_tree c') = n + k /\
        x = (t_length (c_tree c'), t_byte_length (c_tree c'))
    | _ =>
        ((forall i, core_has c' i = core_has c i) /\ t_length (c_tree c') = n /\
         (w_journal w' = w_journal w \/ w_journal w' = data :: w_journal w))
        \/
        ((forall i, core_has c' i = core_has c i || in_range n k i) /\ t_length (c_tree c') = n + k /\
         batch <> [] /\
         exists rest fr,
           w_journal w' =
           rest ++ SW Oplog (ENTRIES_OFFSET + ol_entries_bytes (c_oplog c)) fr :: data :: w_journal w)
    end.
  Proof.
    intros H n k data. unfold core_append in H. rewrite mbind_get_core in H.
    destruct (kp_secret (c_keypair c)) as [sk|].
    2:{ unfold lift in H. inversion H; subst. left. repeat split. left. reflexivity. }
    destruct batch as [|d batch].
    { rewrite mbind_ret, mbind_get_core in H. unfold ret in H. inversion H; subst.
      split; [|split; [|reflexivity]].
      - intros i. unfold in_range, k. cbn [length].
        assert ((n <=? i) && (i <? n + N.of_nat 0) = false) as -> by lia.
        now rewrite orb_false_r.
      - unfold k. cbn [length]. lia. }
    set (B := d :: batch) in *.
    assert (HB : B <> []) by discriminate.
    (* the body of the non-empty case *)
    match type of H with
    | mbind ?m _ _ _ = _ =>
        assert (Body : forall c1 w1 r1, m c w = (c1, w1, r1) ->
          match r1 with
          | Ok _ =>
              (forall i, core_has c1 i = core_has c i || in_range n k i) /\
              t_length (c_tree c1) = n + k
          | _ =>
              ((forall i, core_has c1 i = core_has c i) /\ t_length (c_tree c1) = n /\
               (w_journal w1 = w_journal w \/ w_journal w1 = data :: w_journal w))
              \/
              ((forall i, core_has c1 i = core_has c i || in_range n k i) /\
               t_length (c_tree c1) = n + k /\ B <> [] /\
               exists rest fr,
                 w_journal w1 =
                 rest ++ SW Oplog (ENTRIES_OFFSET + ol_entries_bytes (c_oplog c)) fr :: data :: w_journal w)
          end)
    end.
    { clear H. intros c1 w1 r1 H.
      rewrite mbind_lift in H.
      destruct (cs_append_all cr (tree_changeset (c_tree c)) B) as [cs|e|s|] eqn:CA;
        try (inversion H; subst; left; repeat split; left; reflexivity).
      destruct (append_commit (c_tree c) B cs sk HB CA) as (t' & TC & TL).
      destruct (cs_append_all_fields cr _ _ _ CA) as (An & Bl).
      cbn [tree_changeset cs_ancestors cs_batch_length] in An, Bl. rewrite N.add_0_l in Bl.
      apply mbind_emit_inv in H. destruct H as [(w2 & E & H)|(_ & _ & E)].
      2:{ apply emit_single_write in E. destruct E as (_ & _ & E & _). discriminate E. }
      apply emit_single_write in E. destruct E as (_ & _ & _ & J0). fold data in J0.
      set (bu := mkBfUpdate false (cs_ancestors (cs_hash_and_sign cr cs sk))
                   (cs_batch_length (cs_hash_and_sign cr cs sk))) in H.
      assert (Hbu : forall b i, bf_get (bf_apply b bu) i = bf_get b i || in_range n k i).
      { intros b i. rewrite bf_get_apply. unfold bu, in_range.
        cbn [bu_start bu_length bu_drop cs_hash_and_sign cs_set_hash_sig cs_ancestors cs_batch_length negb].
        rewrite An, Bl. fold n k.
        destruct ((n <=? i) && (i <? n + k)); [now rewrite orb_true_r | now rewrite orb_false_r]. }
      apply mbind_inv in H. destruct H as (c2 & w3 & r2 & LC & H).
      apply log_and_commit_outcome in LC. destruct LC as (_ & _ & LC).
      destruct r2 as [[]|e|s|].
      - (* the entry is logged, the tree committed *)
        destruct LC as (fr & Hb & TC' & J1). rewrite TC in TC'. inversion TC' as [Ht]; clear TC'.
        cbn [bf_after] in Hb.
        assert (Has2 : forall i, core_has c2 i = core_has c i || in_range n k i).
        { intros i. unfold core_has. rewrite Hb. apply Hbu. }
        assert (TL2 : t_length (c_tree c2) = n + k) by (rewrite <- Ht; exact TL).
        apply mbind_inv in H. destruct H as (c3 & w4 & r3 & MF & H).
        pose proof (maybe_flush_frame _ _ _ _ _ _ MF) as (Hbits & HTL).
        pose proof (maybe_flush_journal_grows cr _ _ _ _ _ _ MF) as (rest & J2).
        assert (Has3 : forall i, core_has c3 i = core_has c i || in_range n k i).
        { intros i. rewrite (core_has_bits _ _ Hbits). apply Has2. }
        assert (TL3 : t_length (c_tree c3) = n + k) by congruence.
        assert (J3 : w_journal w4 =
                     rest ++ SW Oplog (ENTRIES_OFFSET + ol_entries_bytes (c_oplog c)) fr :: data :: w_journal w).
        { rewrite J2, J1, J0. reflexivity. }
        destruct r3 as [[]|e|s|].
        + rewrite !mbind_send in H. unfold send in H. inversion H; subst. split; assumption.
        + destruct H as (-> & -> & ->). right. repeat split; try assumption. exists rest, fr. exact J3.
        + destruct H as (-> & -> & ->). right. repeat split; try assumption. exists rest, fr. exact J3.
        + destruct H as (-> & -> & ->). right. repeat split; try assumption. exists rest, fr. exact J3.
      - destruct H as (-> & -> & ->).
        destruct LC as [(Hb & Ht & J1)|(fr & _ & _ & _ & Hno)]; [|exfalso; exact (Hno _ TC)].
        left. split; [|split].
        + intros i. unfold core_has. now rewrite Hb.
        + now rewrite Ht.
        + right. now rewrite J1.
      - destruct H as (-> & -> & ->).
        destruct LC as [(Hb & Ht & J1)|(fr & _ & _ & _ & Hno)]; [|exfalso; exact (Hno _ TC)].
        left. split; [|split].
        + intros i. unfold core_has. now rewrite Hb.
        + now rewrite Ht.
        + right. now rewrite J1.
      - destruct H as (-> & -> & ->).
        destruct LC as [(Hb & Ht & J1)|(fr & _ & _ & _ & Hno)]; [|exfalso; exact (Hno _ TC)].
        left. split; [|split].
        + intros i. unfold core_has. now rewrite Hb.
        + now rewrite Ht.
        + right. now rewrite J1. }
    apply mbind_inv in H. destruct H as (c1 & w1 & r1 & Hm & H).
    apply Body in Hm. clear Body.
    destruct r1 as [[]|e|s|].
    - rewrite mbind_get_core in H. unfold ret in H. inversion H; subst.
      destruct Hm as (Hm1 & Hm2). repeat split; assumption.
    - destruct H as (-> & -> & ->). exact Hm.
    - destruct H as (-> & -> & ->). exact Hm.
    - destruct H as (-> & -> & ->). exact Hm.
  Qed.

(* ====================================================================================== *)
(* 3b. The changeset of an accepted proof: fields that verification never changes          *)
(* ====================================================================================== *)

  Definition keepf (c c' : changeset) : Prop :=
    cs_ancestors c' = cs_ancestors c /\ cs_orig_length c' = cs_orig_length c /\
    cs_orig_fork c' = cs_orig_fork c /\ cs_length c <= cs_length c'.

  Lemma keepf_refl c : keepf c c.
  Proof. unfold keepf. repeat split. lia. Qed.

  Lemma keepf_trans a b c : keepf a b -> keepf b c -> keepf a c.
  Proof.
    unfold keepf. intros (A1 & A2 & A3 & A4) (B1 & B2 & B3 & B4).
    repeat split; try congruence. lia.
  Qed.

  Lemma append_root_keepf c n it c' it' : append_root cr c n it = Ok (c', it') -> keepf c c'.
  Proof.
    unfold append_root. intros H.
    apply bind_ok in H. destruct H as (bl & _ & H).
    apply bind_ok in H. destruct H as ([[rr nr] it2] & _ & H).
    inversion H; subst. unfold keepf. cbn [cs_ancestors cs_orig_length cs_orig_fork cs_length].
    repeat split. lia.
  Qed.

  Lemma grow_loop_keepf fuel : forall c q it ri c' q' it',
    grow_loop cr fuel c q it ri = Ok (c', q', it') -> keepf c c'.
  Proof.
    induction fuel as [|fuel IH]; intros c q it ri c' q' it' H; [discriminate H|].
    cbn [grow_loop] in H. destruct (it_index it =? ri).
    - inversion H; subst. apply keepf_refl.
    - apply bind_ok in H. destruct H as ([n q1] & _ & H).
      apply bind_ok in H. destruct H as ([c1 it1] & AR & H).
      apply append_root_keepf in AR. apply IH in H. exact (keepf_trans _ _ _ AR H).
  Qed.

  Lemma upgrade_roots_loop_keepf fuel : forall c q it to i grow c' q' it',
    upgrade_roots_loop cr fuel c q it to i grow = Ok (c', q', it') -> keepf c c'.
  Proof.
    induction fuel as [|fuel IH]; intros c q it to i grow c' q' it' H; [discriminate H|].
    cbn [upgrade_roots_loop] in H.
    destruct (it_full_root it to) as [found it0].
    destruct (negb found).
    { inversion H; subst. apply keepf_refl. }
    assert (Shift : forall c0, (' (n, q1) <- q_shift q (it_index it0) ;;
                                ' (c1, it1) <- append_root cr c0 n it0 ;;
                                upgrade_roots_loop cr fuel c1 q1 (it_next_tree it1) to i false)
                               = Ok (c', q', it') -> keepf c0 c').
    { intros c0 H0. apply bind_ok in H0. destruct H0 as ([n q1] & _ & H0).
      apply bind_ok in H0. destruct H0 as ([c1 it1] & AR & H0).
      apply append_root_keepf in AR. apply IH in H0. exact (keepf_trans _ _ _ AR H0). }
    destruct (nth_error (cs_roots c) i) as [r|]; [|exact (Shift _ H)].
    destruct (n_index r =? it_index it0).
    { apply IH in H. exact H. }
    destruct grow; [|exact (Shift _ H)].
    apply bind_ok in H. destruct H as (li & _ & H).
    apply bind_ok in H. destruct H as ([[c1 q1] it1] & GL & H).
    apply grow_loop_keepf in GL. apply IH in H. exact (keepf_trans _ _ _ GL H).
  Qed.

  Lemma extra_siblings_keepf extra : forall c it c' it' rest,
    extra_siblings cr c it extra = Ok (c', it', rest) -> keepf c c'.
  Proof.
    induction extra as [|n extra IH]; intros c it c' it' rest H; cbn [extra_siblings] in H.
    - inversion H; subst. apply keepf_refl.
    - destruct (n_index n =? it_index (it_sibling it)).
      + apply bind_ok in H. destruct H as ([c1 it1] & AR & H).
        apply append_root_keepf in AR. apply IH in H. exact (keepf_trans _ _ _ AR H).
      + inversion H; subst. apply keepf_refl.
  Qed.

  Lemma extra_rest_keepf extra : forall c it c' it',
    extra_rest cr c it extra = Ok (c', it') -> keepf c c'.
  Proof.
    induction extra as [|n extra IH]; intros c it c' it' H; cbn [extra_rest] in H.
    - inversion H; subst. apply keepf_refl.
    - apply bind_ok in H. destruct H as (it1 & _ & H).
      apply bind_ok in H. destruct H as ([c1 it2] & AR & H).
      apply append_root_keepf in AR. apply IH in H. exact (keepf_trans _ _ _ AR H).
  Qed.

  Lemma verify_upgrade_keepf fork u root pk c b c' :
    verify_upgrade cr fork u root pk c = Ok (b, c') -> keepf c c'.
  Proof.
    unfold verify_upgrade. intros H.
    apply bind_ok in H. destruct H as (sl & _ & H).
    apply bind_ok in H. destruct H as (to & _ & H).
    apply bind_ok in H. destruct H as ([[c1 q1] it1] & UR & H).
    apply bind_ok in H. destruct H as (li & _ & H).
    apply bind_ok in H. destruct H as ([[c2 it2] rest] & ES & H).
    apply bind_ok in H. destruct H as ([c3 it3] & ER & H).
    apply bind_ok in H. destruct H as (c4 & VS & H).
    inversion H; subst; clear H.
    apply upgrade_roots_loop_keepf in UR. apply extra_siblings_keepf in ES.
    apply extra_rest_keepf in ER.
    apply (keepf_trans _ _ _ UR). apply (keepf_trans _ _ _ ES). apply (keepf_trans _ _ _ ER).
    unfold cs_verify_and_set_signature in VS.
    apply bind_ok in VS. destruct VS as (sg & _ & VS).
    match type of VS with (if ?x then _ else _) = _ => destruct x end; [|discriminate VS].
    inversion VS; subst. unfold keepf, cs_set_hash_sig, cs_set_fork.
    cbn [cs_ancestors cs_orig_length cs_orig_fork cs_length]. repeat split. lia.
  Qed.

  Theorem verify_proof_fields t tf pf pk cs :
    verify_proof cr t tf pf pk = Ok cs ->
    cs_ancestors cs = t_length t /\ cs_orig_length cs = t_length t /\ cs_orig_fork cs = t_fork t /\
    t_length t <= cs_length cs.
  Proof.
    unfold verify_proof. intros H.
    apply bind_ok in H. destruct H as ([root c1] & VT & H).
    apply Replicate.verify_tree_frame in VT.
    destruct VT as (F1 & F2 & _ & _ & _ & _ & _ & _ & _ & F10 & F11).
    cbn [tree_changeset cs_length cs_ancestors cs_orig_length cs_orig_fork] in F1, F2, F10, F11.
    apply bind_ok in H. destruct H as ([root2 c2] & VU & H).
    assert (K : keepf c1 c2).
    { destruct (p_upgrade pf) as [u|].
      - apply bind_ok in VU. destruct VU as ([consumed c3] & VU & E).
        inversion E; subst. exact (verify_upgrade_keepf _ _ _ _ _ _ _ VU).
      - inversion VU; subst. apply keepf_refl. }
    assert (cs = c2) as ->.
    { destruct root2 as [r|]; [|now inversion H].
      apply bind_ok in H. destruct H as (n & _ & H).
      destruct (bytes_eqb (n_hash n) (n_hash r)); [now inversion H|discriminate H]. }
    destruct K as (K1 & K2 & K3 & K4). repeat split; try congruence; try lia.
  Qed.

  (* committing the changeset of an accepted, commitable proof cannot fail *)
  Lemma apply_commit t tf pf pk cs :
    verify_proof cr t tf pf pk = Ok cs -> commitable t cs = true ->
    exists t', tree_commit t cs = Ok t' /\
               t_length t' = (if cs_upgraded cs then cs_length cs else t_length t) /\
               t_length t <= t_length t'.
  Proof.
    intros V C. destruct (verify_proof_fields _ _ _ _ _ V) as (A & O & _ & L).
    unfold tree_commit. rewrite C. cbn [negb].
    destruct (cs_upgraded cs).
    - rewrite A, O, N.ltb_irrefl. eexists. split; [reflexivity|]. cbn [t_length]. split; [reflexivity|exact L].
    - eexists. split; [reflexivity|]. cbn [t_length]. split; [reflexivity|lia].
  Qed.

(* ====================================================================================== *)
(* 4. apply                                                                               *)
(* ====================================================================================== *)

  (* the block carried by a proof *)
  Definition carried (pf : proof) (i : N) : bool :=
    match p_block pf with Some b => i =? db_index b | None => false end.

  (* the data write of an apply, oldest first (empty when the proof carries no block) *)
  Definition block_write (pf : proof) (off : N) : list sop :=
    match p_block pf with Some b => [SW Data off (db_value b)] | None => [] end.

  Lemma carried_update pf b i :
    bf_get (bf_after b (option_map (fun blk => mkBfUpdate false (db_index blk) 1) (p_block pf))) i =
    bf_get b i || carried pf i.
  Proof.
    unfold carried. destruct (p_block pf) as [blk|]; cbn [option_map bf_after].
    - rewrite bf_get_apply. cbn [bu_start bu_length bu_drop negb].
      destruct (N.eqb_spec i (db_index blk)) as [->|Hne].
      + assert ((db_index blk <=? db_index blk) && (db_index blk <? db_index blk + 1) = true) as -> by lia.
        now rewrite orb_true_r.
      + assert ((db_index blk <=? i) && (i <? db_index blk + 1) = false) as -> by lia.
        now rewrite orb_false_r.
    - now rewrite orb_false_r.
  Qed.

  (* the tree length after an accepted proof: the length of the verified changeset if the proof carried
     an upgrade, the old length otherwise; it never decreases *)
  Definition apply_newlen (pf : proof) (c : core) (w : world) (c' : core) : Prop :=
    exists cs,
      verify_proof cr (c_tree c) (d_tree (w_disk w)) pf (kp_public (c_keypair c)) = Ok cs /\
      t_length (c_tree c') = (if cs_upgraded cs then cs_length cs else t_length (c_tree c)) /\
      t_length (c_tree c) <= t_length (c_tree c').

  (* EVERY outcome of verify_and_apply_proof.
     Ok true: exactly the carried block (if any) is added.  Ok false: nothing at all changed.
     Failure: either before the oplog entry was journalled (availability and tree unchanged, at most the
     data write was journalled), or it is the failure of the flush, after the entry was journalled and
     the tree committed: then the carried block has been added in memory although no event is sent. *)
  Theorem apply_outcome f pf c w c' w' r :
    core_apply_proof cr f pf c w = (c', w', r) ->
    match r with
    | Ok true => (forall i, core_has c' i = core_has c i || carried pf i) /\ apply_newlen pf c w c'
    | Ok false => c' = c /\ w' = w
    | _ =>
        ((forall i, core_has c' i = core_has c i) /\ c_tree c' = c_tree c /\
         (w_journal w' = w_journal w \/ exists off, w_journal w' = block_write pf off ++ w_journal w))
        \/
        ((forall i, core_has c' i = core_has c i || carried pf i) /\ apply_newlen pf c w c' /\
         exists rest fr off,
           w_journal w' =
           rest ++ SW Oplog (ENTRIES_OFFSET + ol_entries_bytes (c_oplog c)) fr
                :: block_write pf off ++ w_journal w)
    end.
  Proof.
    unfold core_apply_proof. rewrite mbind_get_core. intros H.
    destruct (negb (p_fork pf =? t_fork (c_tree c))).
    { unfold ret in H. inversion H; subst. split; reflexivity. }
    rewrite mbind_get_disk, mbind_lift in H.
    destruct (verify_proof cr (c_tree c) (d_tree (w_disk w)) pf (kp_public (c_keypair c))) as [cs|e|s|] eqn:V;
      try (inversion H; subst; left; repeat split; left; reflexivity).
    destruct (commitable (c_tree c) cs) eqn:Cm; cbn [negb] in H.
    2:{ unfold ret in H. inversion H; subst. split; reflexivity. }
    destruct (apply_commit _ _ _ _ _ V Cm) as (t' & TC & TL & Mono).
    apply mbind_inv in H. destruct H as (c1 & w1 & r1 & BU & H).
    assert (HBU : c1 = c /\
                  match r1 with
                  | Ok bu => bu = option_map (fun blk => mkBfUpdate false (db_index blk) 1) (p_block pf) /\
                             exists off, w_journal w1 = block_write pf off ++ w_journal w
                  | _ => w_journal w1 = w_journal w
                  end).
    { unfold block_write. destruct (p_block pf) as [blk|].
      - rewrite mbind_lift in BU.
        destruct (byte_offset_in_changeset (c_tree c) (d_tree (w_disk w)) (db_index blk) cs) as [off|e|s|];
          try (inversion BU; subst; split; reflexivity).
        apply mbind_emit_inv in BU. destruct BU as [(w2 & E & BU)|(_ & _ & E)].
        2:{ apply emit_single_write in E. destruct E as (_ & _ & E & _). discriminate E. }
        apply emit_single_write in E. destruct E as (_ & _ & _ & J0).
        unfold ret in BU. inversion BU; subst. split; [reflexivity|]. split; [reflexivity|].
        exists off. exact J0.
      - unfold ret in BU. inversion BU; subst. split; [reflexivity|]. split; [reflexivity|].
        exists 0. reflexivity. }
    clear BU. destruct HBU as (-> & HBU).
    destruct r1 as [bu|e|s|];
      try (destruct H as (-> & -> & ->); left; repeat split; left; exact HBU).
    destruct HBU as (-> & off & J0).
    set (bu := option_map (fun blk => mkBfUpdate false (db_index blk) 1) (p_block pf)) in *.
    apply mbind_inv in H. destruct H as (c2 & w2 & r2 & LC & H).
    apply log_and_commit_outcome in LC. destruct LC as (_ & _ & LC).
    assert (Early : forall (c0 : core) (w0 : world),
               c_bitfield c0 = c_bitfield c /\ c_tree c0 = c_tree c /\ w_journal w0 = w_journal w1 ->
               (forall i, core_has c0 i = core_has c i) /\ c_tree c0 = c_tree c /\
               (w_journal w0 = w_journal w \/ exists off, w_journal w0 = block_write pf off ++ w_journal w)).
    { intros c0 w0 (Hb & Ht & J1). split; [|split].
      - intros i. unfold core_has. now rewrite Hb.
      - exact Ht.
      - right. exists off. now rewrite J1. }
    destruct r2 as [[]|e|s|].
    - destruct LC as (fr & Hb & TC' & J1). rewrite TC in TC'. inversion TC' as [Ht]; clear TC'.
      assert (Has2 : forall i, core_has c2 i = core_has c i || carried pf i).
      { intros i. unfold core_has. rewrite Hb. apply carried_update. }
      apply mbind_inv in H. destruct H as (c3 & w3 & r3 & MF & H).
      pose proof (maybe_flush_frame _ _ _ _ _ _ MF) as (Hbits & HTL).
      pose proof (maybe_flush_journal_grows cr _ _ _ _ _ _ MF) as (rest & J2).
      assert (Has3 : forall i, core_has c3 i = core_has c i || carried pf i).
      { intros i. rewrite (core_has_bits _ _ Hbits). apply Has2. }
      assert (NL : apply_newlen pf c w c3).
      { exists cs. split; [exact V|]. rewrite HTL, <- Ht. split; [exact TL|exact Mono]. }
      assert (J3 : w_journal w3 =
                   rest ++ SW Oplog (ENTRIES_OFFSET + ol_entries_bytes (c_oplog c)) fr
                        :: block_write pf off ++ w_journal w).
      { rewrite J2, J1, J0. reflexivity. }
      destruct r3 as [[]|e|s|];
        try (destruct H as (-> & -> & ->); right; split; [exact Has3|]; split; [exact NL|];
             exists rest, fr, off; exact J3).
      assert (Tail : exists w4,
                 ((match p_upgrade pf with Some _ => send EvUpgrade | None => ret tt end) ;;;
                  (match bu with Some u => send (EvHave (bu_start u) (bu_length u) false) | None => ret tt end) ;;;
                  ret true) c3 w3 = (c3, w4, Ok true)).
      { destruct (p_upgrade pf), bu; eexists; reflexivity. }
      destruct Tail as (w4 & Tail). rewrite Tail in H. inversion H; subst. split; [exact Has3|exact NL].
    - destruct H as (-> & -> & ->).
      destruct LC as [LC|(fr & _ & _ & _ & Hno)]; [|exfalso; exact (Hno _ TC)].
      left. apply Early, LC.
    - destruct H as (-> & -> & ->).
      destruct LC as [LC|(fr & _ & _ & _ & Hno)]; [|exfalso; exact (Hno _ TC)].
      left. apply Early, LC.
    - destruct H as (-> & -> & ->).
      destruct LC as [LC|(fr & _ & _ & _ & Hno)]; [|exfalso; exact (Hno _ TC)].
      left. apply Early, LC.
  Qed.

(* ====================================================================================== *)
(* 5. clear only removes; the read-only calls change nothing                               *)
(* ====================================================================================== *)

  Definition tlen (c : core) : N := t_length (c_tree c).

  Lemma maybe_flush_keeps_bits f : keeps bits (maybe_flush cr f).
  Proof. intros c w c' w' r H. apply maybe_flush_frame in H. apply H. Qed.
  Lemma maybe_flush_keeps_tlen f : keeps tlen (maybe_flush cr f).
  Proof. intros c w c' w' r H. apply maybe_flush_frame in H. apply H. Qed.
  Lemma flush_all_keeps_bits ct : keeps bits (flush_all cr ct).
  Proof. intros c w c' w' r H. apply flush_all_frame in H. apply H. Qed.
  Lemma flush_all_keeps_tlen ct : keeps tlen (flush_all cr ct).
  Proof. intros c w c' w' r H. apply flush_all_frame in H. apply H. Qed.

  (* EVERY outcome of clear (which announces nothing).  Success: exactly [s, e) is removed (nothing when
     e <= s).  Failure: before the oplog entry was journalled nothing changed; after it the range has
     been removed in memory. The tree length never changes. *)
  Theorem clear_outcome f s e c w c' w' r :
    core_clear cr f s e c w = (c', w', r) ->
    t_length (c_tree c') = t_length (c_tree c) /\
    match r with
    | Ok _ => forall i, core_has c' i = core_has c i && negb ((s <=? i) && (i <? e))
    | _ =>
        ((forall i, core_has c' i = core_has c i) /\ w_journal w' = w_journal w)
        \/
        ((forall i, core_has c' i = core_has c i && negb ((s <=? i) && (i <? e))) /\
         exists rest fr,
           w_journal w' = rest ++ SW Oplog (ENTRIES_OFFSET + ol_entries_bytes (c_oplog c)) fr :: w_journal w)
    end.
  Proof.
    unfold core_clear. intros H.
    destruct (N.leb_spec e s) as [Hes|Hes].
    { unfold ret in H. inversion H; subst. split; [reflexivity|]. intros i.
      assert ((s <=? i) && (i <? e) = false) as -> by lia. cbn [negb]. now rewrite andb_true_r. }
    rewrite mbind_get_core, mbind_lift in H.
    destruct (oplog_append cr (c_oplog c) (mkEntry [] None (Some (mkBfUpdate true s (e - s)))))
      as [[o' ops]|e0|s0|] eqn:OA;
      try (inversion H; subst; split; [reflexivity|]; left; split; reflexivity).
    apply oplog_append_shape in OA. destruct OA as (fr & ->).
    rewrite mbind_put_oplog in H.
    apply mbind_emit_inv in H. destruct H as [(w1 & E & H)|(_ & _ & E)].
    2:{ apply emit_single_write in E. destruct E as (_ & _ & E & _). discriminate E. }
    apply emit_single_write in E. destruct E as (_ & _ & _ & J1).
    rewrite mbind_put_bitfield in H. cbn [c_keypair c_oplog c_tree c_bitfield c_header c_skip] in H.
    set (b' := bf_set_range (c_bitfield c) s (e - s) false) in H.
    set (c1 := mkCore (c_keypair c) o' (c_tree c) b' (c_header c) (c_skip c)) in H.
    assert (Hb' : forall i, bf_get b' i = bf_get (c_bitfield c) i && negb ((s <=? i) && (i <? e))).
    { intros i. unfold b'. rewrite bf_get_set_range.
      replace (s + (e - s)) with e by lia.
      destruct ((s <=? i) && (i <? e)); cbn [negb]; [now rewrite andb_false_r | now rewrite andb_true_r]. }
    pose proof (maybe_flush_keeps_bits) as K1. pose proof (maybe_flush_keeps_tlen) as K2.
    pose proof (maybe_flush_journal_grows cr) as K3.
    match type of H with
    | ?m c1 w1 = _ =>
        assert (KB : keeps bits m) by keeps_tac;
        assert (KT : keeps tlen m) by keeps_tac;
        assert (KJ : journal_grows m)
    end.
    { assert (G1 : forall {A} (x : res A), journal_grows (lift x))
        by (intros; apply journaled_grows, journaled_lift).
      assert (G2 : forall ops, journal_grows (emit ops))
        by (intros; apply journaled_grows, journaled_emit).
      pose proof (maybe_flush_journaled cr) as G3.
      apply journaled_grows. journaled_tac. }
    pose proof (KB _ _ _ _ _ H) as HB. pose proof (KT _ _ _ _ _ H) as HT.
    pose proof (KJ _ _ _ _ _ H) as (rest & HJ).
    unfold tlen in HT. cbn [c1 c_tree] in HT. split; [exact HT|].
    assert (Has : forall i, core_has c' i = core_has c i && negb ((s <=? i) && (i <? e))).
    { intros i. rewrite (core_has_bits _ _ HB). unfold core_has. cbn [c1 c_bitfield]. apply Hb'. }
    assert (J : w_journal w' =
                rest ++ SW Oplog (ENTRIES_OFFSET + ol_entries_bytes (c_oplog c)) fr :: w_journal w)
      by (rewrite HJ, J1; reflexivity).
    destruct r as [u|e1|s1|]; [exact Has| | |]; right; (split; [exact Has|]); exists rest, fr; exact J.
  Qed.

  (* get, create_proof, missing_nodes do not touch the core at all; make_read_only keeps the bits and
     the tree length, whatever its outcome *)
  Theorem read_only_calls_keep_availability :
    (forall i c w c' w' r, core_get i c w = (c', w', r) -> c' = c) /\
    (forall b h s u c w c' w' r, core_create_proof b h s u c w = (c', w', r) -> c' = c) /\
    (forall i c w c' w' r, core_missing_nodes i c w = (c', w', r) -> c' = c) /\
    (forall i c w c' w' r, core_missing_nodes_tree i c w = (c', w', r) -> c' = c) /\
    (forall c w c' w' r, core_make_read_only cr c w = (c', w', r) ->
       (forall i, core_has c' i = core_has c i) /\ t_length (c_tree c') = t_length (c_tree c)).
  Proof.
    split; [|split; [|split; [|split]]].
    - intros i c w c' w' r H. apply core_get_quiet in H. apply H.
    - intros b h s u c w c' w' r H. apply core_create_proof_quiet in H. apply H.
    - intros i c w c' w' r H. apply (proj1 (core_missing_nodes_quiet i)) in H. apply H.
    - intros i c w c' w' r H. apply (proj2 (core_missing_nodes_quiet i)) in H. apply H.
    - pose proof (flush_all_keeps_bits) as K1. pose proof (flush_all_keeps_tlen) as K2.
      assert (KB : keeps bits (core_make_read_only cr)) by (unfold core_make_read_only; keeps_tac).
      assert (KT : keeps tlen (core_make_read_only cr)) by (unfold core_make_read_only; keeps_tac).
      intros c w c' w' r H. split.
      + apply core_has_bits. exact (KB _ _ _ _ _ H).
      + exact (KT _ _ _ _ _ H).
  Qed.

(* ====================================================================================== *)
(* 6. Histories: the union of the announced ranges is what became available                *)
(* ====================================================================================== *)

  (* index i lies in a range announced as available by one of the events *)
  Definition covers (i : N) (e : event) : bool :=
    match e with EvHave s l false => in_range s l i | _ => false end.
  Definition announced (evs : list event) (i : N) : bool := existsb (covers i) evs.

  Lemma announced_app a b i : announced (a ++ b) i = announced a i || announced b i.
  Proof. apply existsb_app. Qed.

  (* the calls that never remove availability: the two that can add some, and the read-only ones *)
  Inductive op :=
  | OAppend (f : option bool) (batch : list bytes)
  | OApply (f : option bool) (pf : proof)
  | OGet (i : N)
  | OCreateProof (b h : option req_block) (s : option req_seek) (u : option req_upgrade)
  | OMissingNodes (i : N)
  | OMakeReadOnly.

  Definition forget {A} (x : core * world * res A) : core * world * bool :=
    let '(c, w, r) := x in (c, w, is_ok r).

  (* run one call; the boolean says whether it returned Ok *)
  Definition run_op (o : op) (c : core) (w : world) : core * world * bool :=
    match o with
    | OAppend f batch => forget (core_append cr f batch c w)
    | OApply f pf => forget (core_apply_proof cr f pf c w)
    | OGet i => forget (core_get i c w)
    | OCreateProof b h s u => forget (core_create_proof b h s u c w)
    | OMissingNodes i => forget (core_missing_nodes i c w)
    | OMakeReadOnly => forget (core_make_read_only cr c w)
    end.

  (* run a list of calls one after the other, going on after a failed call as a user would *)
  Fixpoint run_ops (ops : list op) (c : core) (w : world) : core * world * list bool :=
    match ops with
    | [] => (c, w, [])
    | o :: rest =>
        let '(c1, w1, ok) := run_op o c w in
        let '(c2, w2, oks) := run_ops rest c1 w1 in
        (c2, w2, ok :: oks)
    end.

  Lemma forget_inv {A} (x : core * world * res A) c' w' ok :
    forget x = (c', w', ok) -> exists r, x = (c', w', r) /\ ok = is_ok r.
  Proof. destruct x as [[c1 w1] r]. cbn [forget]. intros H. inversion H; subst. now exists r. Qed.

  Lemma in_range_zero s i : in_range s 0 i = false.
  Proof. unfold in_range. lia. Qed.

  Lemma in_range_one s i : in_range s 1 i = (i =? s).
  Proof. unfold in_range. lia. Qed.

  (* one call: the events it sent, and availability after it *)
  Lemma step_avail o c w c' w' ok :
    run_op o c w = (c', w', ok) ->
    exists evs,
      w_events w' = evs ++ w_events w /\
      (ok = false -> evs = []) /\
      (forall i, core_has c i = true -> core_has c' i = true) /\
      (ok = true -> forall i, core_has c' i = core_has c i || announced evs i).
  Proof.
    destruct o as [f batch|f pf|j|b h s u|j|]; cbn [run_op]; intros H;
      apply forget_inv in H; destruct H as (r & H & ->).
    - pose proof (append_events cr _ _ _ _ _ _ _ H) as Ev.
      pose proof (append_outcome _ _ _ _ _ _ _ H) as Out. cbv zeta in Out.
      eexists. split; [exact Ev|].
      destruct r as [x|e|s|]; cbn [is_ok].
      + destruct Out as (Has & _ & _). split; [discriminate|]. split.
        * intros i Hi. rewrite Has, Hi. reflexivity.
        * intros _ i. rewrite Has. destruct batch as [|d batch].
          -- cbn [length announced existsb]. change (N.of_nat 0) with 0. now rewrite in_range_zero.
          -- cbn [announced existsb covers]. now rewrite !orb_false_r.
      + split; [reflexivity|]. split; [|discriminate].
        intros i Hi. destruct Out as [(Has & _)|(Has & _)]; rewrite Has, Hi; reflexivity.
      + split; [reflexivity|]. split; [|discriminate].
        intros i Hi. destruct Out as [(Has & _)|(Has & _)]; rewrite Has, Hi; reflexivity.
      + split; [reflexivity|]. split; [|discriminate].
        intros i Hi. destruct Out as [(Has & _)|(Has & _)]; rewrite Has, Hi; reflexivity.
    - pose proof (apply_events cr _ _ _ _ _ _ _ H) as Ev.
      pose proof (apply_outcome _ _ _ _ _ _ _ H) as Out.
      eexists. split; [exact Ev|].
      destruct r as [[|]|e|s|]; cbn [is_ok].
      + destruct Out as (Out & _). split; [discriminate|]. split.
        * intros i Hi. rewrite Out, Hi. reflexivity.
        * intros _ i. rewrite Out. unfold carried.
          destruct (p_block pf) as [blk|], (p_upgrade pf) as [up|];
            cbn [app announced existsb covers]; rewrite ?in_range_one, ?orb_false_r; reflexivity.
      + destruct Out as (-> & ->). split; [discriminate|]. split; [auto|].
        intros _ i. cbn [announced existsb]. now rewrite orb_false_r.
      + split; [reflexivity|]. split; [|discriminate].
        intros i Hi. destruct Out as [(Has & _)|(Has & _)]; rewrite Has, Hi; reflexivity.
      + split; [reflexivity|]. split; [|discriminate].
        intros i Hi. destruct Out as [(Has & _)|(Has & _)]; rewrite Has, Hi; reflexivity.
      + split; [reflexivity|]. split; [|discriminate].
        intros i Hi. destruct Out as [(Has & _)|(Has & _)]; rewrite Has, Hi; reflexivity.
    - pose proof (get_events _ _ _ _ _ _ H) as (Ev & Hmiss).
      apply core_get_quiet in H. destruct H as (-> & _).
      eexists. split; [exact Ev|]. split.
      + intros Hok. destruct (bf_get (c_bitfield c) j); [reflexivity|].
        destruct (Hmiss eq_refl) as (-> & _). discriminate Hok.
      + split; [auto|]. intros _ i.
        destruct (bf_get (c_bitfield c) j); cbn [announced existsb covers]; now rewrite orb_false_r.
    - pose proof (create_proof_events _ _ _ _ _ _ _ _ _ H) as (Ev & Hmiss & -> & _).
      eexists. split; [exact Ev|]. split.
      + intros Hok. destruct (proof_missing_block b h s u c w) as [k|]; [|reflexivity].
        rewrite (Hmiss k eq_refl) in Hok. discriminate Hok.
      + split; [auto|]. intros _ i.
        destruct (proof_missing_block b h s u c w); cbn [announced existsb covers]; now rewrite orb_false_r.
    - pose proof (proj1 (missing_nodes_silent j) _ _ _ _ _ H) as Ev.
      apply (proj1 (core_missing_nodes_quiet j)) in H. destruct H as (-> & _).
      exists []. split; [exact Ev|]. split; [reflexivity|]. split; [auto|].
      intros _ i. cbn [announced existsb]. now rewrite orb_false_r.
    - pose proof (make_read_only_silent cr _ _ _ _ _ H) as Ev.
      destruct read_only_calls_keep_availability as (_ & _ & _ & _ & RO).
      apply RO in H. destruct H as (Has & _).
      exists []. split; [exact Ev|]. split; [reflexivity|]. split.
      + intros i Hi. now rewrite Has.
      + intros _ i. cbn [announced existsb]. now rewrite Has, orb_false_r.
  Qed.

  (* A history of calls, from ANY state.  [evs] are the events sent during the run (newest first).
     (1) whatever the outcomes, nothing is lost and everything announced is available at the end;
     (2) if every call returned Ok, the blocks available at the end are exactly those available at the
         start plus the union of the announced ranges. *)
  Theorem history_avail ops : forall c w c' w' oks,
    run_ops ops c w = (c', w', oks) ->
    exists evs,
      w_events w' = evs ++ w_events w /\
      (forall i, core_has c i || announced evs i = true -> core_has c' i = true) /\
      (forallb (fun b => b) oks = true ->
       forall i, core_has c' i = core_has c i || announced evs i).
  Proof.
    induction ops as [|o rest IH]; intros c w c' w' oks H.
    - cbn [run_ops] in H. inversion H; subst. exists []. split; [reflexivity|]. split.
      + intros i. cbn [announced existsb]. now rewrite orb_false_r.
      + intros _ i. cbn [announced existsb]. now rewrite orb_false_r.
    - cbn [run_ops] in H.
      destruct (run_op o c w) as [[c1 w1] ok] eqn:S1.
      destruct (run_ops rest c1 w1) as [[c2 w2] oks2] eqn:S2.
      inversion H; subst; clear H.
      apply step_avail in S1. destruct S1 as (e1 & Ev1 & Hfail & Mono1 & Eq1).
      apply IH in S2. destruct S2 as (e2 & Ev2 & Sound2 & Eq2).
      exists (e2 ++ e1). split; [rewrite Ev2, Ev1, app_assoc; reflexivity|]. split.
      + intros i Hi. rewrite announced_app in Hi. apply Sound2.
        destruct (announced e2 i); [now rewrite orb_true_r|]. rewrite orb_false_r.
        cbn [orb] in Hi.
        destruct ok.
        * rewrite (Eq1 eq_refl). exact Hi.
        * rewrite (Hfail eq_refl) in Hi. cbn [announced existsb] in Hi. rewrite orb_false_r in Hi.
          apply Mono1, Hi.
      + cbn [forallb]. intros Hall. apply andb_true_iff in Hall. destruct Hall as (-> & Hall).
        intros i. rewrite (Eq2 Hall), (Eq1 eq_refl), announced_app.
        destruct (core_has c i), (announced e1 i), (announced e2 i); reflexivity.
  Qed.

(* ====================================================================================== *)
(* 7. The statements of the assignment, read off the outcome theorems                      *)
(* ====================================================================================== *)

  (* 1. a successful append makes exactly the announced range available *)
  Theorem append_has f batch c w c' w' x :
    core_append cr f batch c w = (c', w', Ok x) ->
    forall i, core_has c' i =
              core_has c i ||
              ((t_length (c_tree c) <=? i) && (i <? t_length (c_tree c) + N.of_nat (length batch))).
  Proof. intros H. apply append_outcome in H. cbv zeta in H. apply H. Qed.

  Theorem append_empty f c w c' w' x :
    core_append cr f [] c w = (c', w', Ok x) -> c' = c /\ w' = w.
  Proof.
    unfold core_append. rewrite mbind_get_core.
    destruct (kp_secret (c_keypair c)); [|discriminate].
    rewrite mbind_ret, mbind_get_core. unfold ret. intros H. inversion H; subst. split; reflexivity.
  Qed.

  (* 2. an accepted proof makes exactly the carried block available *)
  Theorem apply_has f pf c w c' w' :
    core_apply_proof cr f pf c w = (c', w', Ok true) ->
    forall i, core_has c' i =
              core_has c i || match p_block pf with Some b => i =? db_index b | None => false end.
  Proof. intros H. apply apply_outcome in H. apply H. Qed.

  (* 3. calls that do not succeed.  A refused proof changes nothing at all. *)
  Theorem apply_refused f pf c w c' w' :
    core_apply_proof cr f pf c w = (c', w', Ok false) -> c' = c /\ w' = w.
  Proof. intros H. apply apply_outcome in H. exact H. Qed.

  (* A failed append sends no event.  Either availability is unchanged (and at most the data write
     reached the journal), or the failure is the flush's: the oplog entry is journalled, the tree is
     committed and the batch IS available in memory, unannounced. *)
  Theorem append_failure f batch c w c' w' r :
    core_append cr f batch c w = (c', w', r) -> is_ok r = false ->
    let n := t_length (c_tree c) in
    let k := N.of_nat (length batch) in
    let data := SW Data (t_byte_length (c_tree c)) (concat batch) in
    w_events w' = w_events w /\
    (((forall i, core_has c' i = core_has c i) /\ t_length (c_tree c') = n /\
      (w_journal w' = w_journal w \/ w_journal w' = data :: w_journal w))
     \/
     ((forall i, core_has c' i = core_has c i || in_range n k i) /\ t_length (c_tree c') = n + k /\
      batch <> [] /\
      exists rest fr,
        w_journal w' =
        rest ++ SW Oplog (ENTRIES_OFFSET + ol_entries_bytes (c_oplog c)) fr :: data :: w_journal w)).
  Proof.
    intros H Hr. pose proof (append_events cr _ _ _ _ _ _ _ H) as Ev.
    apply append_outcome in H. cbv zeta in *.
    destruct r as [x|e|s|]; [discriminate Hr| | |]; (split; [exact Ev|exact H]).
  Qed.

  (* the same for a proof that is neither accepted nor refused *)
  Theorem apply_failure f pf c w c' w' r :
    core_apply_proof cr f pf c w = (c', w', r) -> is_ok r = false ->
    w_events w' = w_events w /\
    (((forall i, core_has c' i = core_has c i) /\ c_tree c' = c_tree c /\
      (w_journal w' = w_journal w \/ exists off, w_journal w' = block_write pf off ++ w_journal w))
     \/
     ((forall i, core_has c' i = core_has c i || carried pf i) /\ apply_newlen pf c w c' /\
      exists rest fr off,
        w_journal w' =
        rest ++ SW Oplog (ENTRIES_OFFSET + ol_entries_bytes (c_oplog c)) fr
             :: block_write pf off ++ w_journal w)).
  Proof.
    intros H Hr. pose proof (apply_events cr _ _ _ _ _ _ _ H) as Ev.
    apply apply_outcome in H.
    destruct r as [x|e|s|]; [discriminate Hr| | |]; (split; [exact Ev|exact H]).
  Qed.

  (* 4. clear only removes *)
  Theorem clear_has f s e c w c' w' u :
    core_clear cr f s e c w = (c', w', Ok u) ->
    forall i, core_has c' i = core_has c i && negb ((s <=? i) && (i <? e)).
  Proof. intros H. apply clear_outcome in H. apply H. Qed.

  (* What a call that did NOT return Ok may have made available silently: nothing but the range it
     would have announced. *)
  Definition op_range (o : op) (c : core) (i : N) : bool :=
    match o with
    | OAppend _ batch => in_range (t_length (c_tree c)) (N.of_nat (length batch)) i
    | OApply _ pf => carried pf i
    | _ => false
    end.

  (* the union of these ranges over the failed calls of a run *)
  Fixpoint failed_ranges (ops : list op) (c : core) (w : world) (i : N) : bool :=
    match ops with
    | [] => false
    | o :: rest =>
        let '(c1, w1, ok) := run_op o c w in
        (negb ok && op_range o c i) || failed_ranges rest c1 w1 i
    end.

  Lemma step_failed o c w c' w' :
    run_op o c w = (c', w', false) ->
    forall i, core_has c' i = true -> core_has c i = true \/ op_range o c i = true.
  Proof.
    destruct o as [f batch|f pf|j|b h s u|j|]; cbn [run_op op_range]; intros H;
      apply forget_inv in H; destruct H as (r & H & Hr); symmetry in Hr.
    - destruct (append_failure _ _ _ _ _ _ _ H Hr) as (_ & [(Has & _)|(Has & _)]); intros i Hi;
        rewrite Has in Hi; [left; exact Hi|apply orb_true_iff in Hi; exact Hi].
    - destruct (apply_failure _ _ _ _ _ _ _ H Hr) as (_ & [(Has & _)|(Has & _)]); intros i Hi;
        rewrite Has in Hi; [left; exact Hi|apply orb_true_iff in Hi; exact Hi].
    - apply core_get_quiet in H. destruct H as (-> & _). auto.
    - apply core_create_proof_quiet in H. destruct H as (-> & _). auto.
    - apply (proj1 (core_missing_nodes_quiet j)) in H. destruct H as (-> & _). auto.
    - destruct read_only_calls_keep_availability as (_ & _ & _ & _ & RO).
      apply RO in H. destruct H as (Has & _). intros i Hi. rewrite Has in Hi. auto.
  Qed.

  (* (3) the upper bound for ANY run: a block available at the end was available at the start, or was
     announced, or lies in the would-be range of a call that failed *)
  Theorem history_avail_upper ops : forall c w c' w' oks,
    run_ops ops c w = (c', w', oks) ->
    exists evs,
      w_events w' = evs ++ w_events w /\
      forall i, core_has c' i = true ->
                core_has c i || announced evs i || failed_ranges ops c w i = true.
  Proof.
    induction ops as [|o rest IH]; intros c w c' w' oks H.
    - cbn [run_ops] in H. inversion H; subst. exists []. split; [reflexivity|].
      intros i Hi. rewrite Hi. reflexivity.
    - cbn [run_ops] in H. cbn [failed_ranges].
      destruct (run_op o c w) as [[c1 w1] ok] eqn:S1.
      destruct (run_ops rest c1 w1) as [[c2 w2] oks2] eqn:S2.
      inversion H; subst; clear H.
      destruct (step_avail _ _ _ _ _ _ S1) as (e1 & Ev1 & Hfail & _ & Eq1).
      apply IH in S2. destruct S2 as (e2 & Ev2 & Up2).
      exists (e2 ++ e1). split; [rewrite Ev2, Ev1, app_assoc; reflexivity|].
      intros i Hi. specialize (Up2 i Hi). rewrite announced_app.
      destruct (announced e2 i); [now rewrite !orb_true_r|].
      destruct (failed_ranges rest c1 w1 i); [now rewrite !orb_true_r|].
      rewrite !orb_false_r in Up2. cbn [orb]. rewrite !orb_false_r.
      destruct ok; cbn [negb andb].
      + rewrite (Eq1 eq_refl) in Up2. now rewrite orb_false_r.
      + destruct (step_failed _ _ _ _ _ S1 i Up2) as [Hc|Hr].
        * now rewrite Hc.
        * rewrite Hr. now rewrite !orb_true_r.
  Qed.

(* ====================================================================================== *)
(* 8. The invariant "no bit at or above the tree length"                                   *)
(* ====================================================================================== *)

  Definition bounded (c : core) : Prop :=
    forall i, t_length (c_tree c) <= i -> core_has c i = false.

  (* with the invariant, none of the blocks an append announces was available before *)
  Theorem append_range_fresh (batch : list bytes) c i :
    bounded c ->
    in_range (t_length (c_tree c)) (N.of_nat (length batch)) i = true -> core_has c i = false.
  Proof. intros B Hi. apply B. unfold in_range in Hi. lia. Qed.

  (* append keeps it, whatever the outcome *)
  Theorem append_keeps_bounded f batch c w c' w' r :
    bounded c -> core_append cr f batch c w = (c', w', r) ->
    bounded c' /\ t_length (c_tree c) <= t_length (c_tree c').
  Proof.
    intros B H. apply append_outcome in H. cbv zeta in H.
    assert (Late : (forall i, core_has c' i =
                      core_has c i || in_range (t_length (c_tree c)) (N.of_nat (length batch)) i) ->
                   t_length (c_tree c') = t_length (c_tree c) + N.of_nat (length batch) ->
                   bounded c' /\ t_length (c_tree c) <= t_length (c_tree c')).
    { intros Has TL. split; [|lia]. intros i Hi. rewrite Has, B by lia. unfold in_range. lia. }
    assert (Early : (forall i, core_has c' i = core_has c i) ->
                    t_length (c_tree c') = t_length (c_tree c) ->
                    bounded c' /\ t_length (c_tree c) <= t_length (c_tree c')).
    { intros Has TL. split; [|lia]. intros i Hi. rewrite Has. apply B. lia. }
    destruct r as [x|e|s|].
    - destruct H as (Has & TL & _). exact (Late Has TL).
    - destruct H as [(Has & TL & _)|(Has & TL & _)]; [exact (Early Has TL)|exact (Late Has TL)].
    - destruct H as [(Has & TL & _)|(Has & TL & _)]; [exact (Early Has TL)|exact (Late Has TL)].
    - destruct H as [(Has & TL & _)|(Has & TL & _)]; [exact (Early Has TL)|exact (Late Has TL)].
  Qed.

  (* clear keeps it, whatever the outcome *)
  Theorem clear_keeps_bounded f s e c w c' w' r :
    bounded c -> core_clear cr f s e c w = (c', w', r) ->
    bounded c' /\ t_length (c_tree c') = t_length (c_tree c).
  Proof.
    intros B H. apply clear_outcome in H. destruct H as (TL & H). split; [|exact TL].
    intros i Hi. rewrite TL in Hi.
    assert (Cl : (forall j, core_has c' j = core_has c j && negb ((s <=? j) && (j <? e))) ->
                 core_has c' i = false).
    { intros Has. rewrite Has, (B i Hi). reflexivity. }
    destruct r as [u|e1|s1|]; [exact (Cl H)| | |];
      (destruct H as [(Has & _)|(Has & _)]; [rewrite Has; exact (B i Hi)|exact (Cl Has)]).
  Qed.

  (* make_read_only keeps it (get, create_proof, missing_nodes return the very same core) *)
  Theorem make_read_only_keeps_bounded c w c' w' r :
    bounded c -> core_make_read_only cr c w = (c', w', r) ->
    bounded c' /\ t_length (c_tree c') = t_length (c_tree c).
  Proof.
    intros B H. destruct read_only_calls_keep_availability as (_ & _ & _ & _ & RO).
    apply RO in H. destruct H as (Has & TL). split; [|exact TL].
    intros i Hi. rewrite Has. apply B. lia.
  Qed.

  (* apply: PARTIAL.  The tree length never decreases and exactly the carried block is added, so the
     invariant is kept as soon as the carried block lies below the new tree length.  That an accepted
     proof always satisfies this needs the full tree/store invariant (every stored node lies under a
     root), which is not available here; see [apply_bounded_needs_store_invariant] below for a corrupt
     state in which it fails. *)
  Theorem apply_keeps_bounded_partial f pf c w c' w' r :
    bounded c -> core_apply_proof cr f pf c w = (c', w', r) ->
    (forall b, p_block pf = Some b -> db_index b < t_length (c_tree c')) ->
    bounded c' /\ t_length (c_tree c) <= t_length (c_tree c').
  Proof.
    intros B H Hblk. apply apply_outcome in H.
    assert (Late : (forall i, core_has c' i = core_has c i || carried pf i) ->
                   apply_newlen pf c w c' ->
                   bounded c' /\ t_length (c_tree c) <= t_length (c_tree c')).
    { intros Has (cs & _ & _ & Mono). split; [|exact Mono]. intros i Hi.
      rewrite Has, B by lia. unfold carried.
      destruct (p_block pf) as [b|]; [|reflexivity].
      specialize (Hblk b eq_refl). cbn [orb]. lia. }
    assert (Early : (forall i, core_has c' i = core_has c i) -> c_tree c' = c_tree c ->
                    bounded c' /\ t_length (c_tree c) <= t_length (c_tree c')).
    { intros Has TL. rewrite TL. split; [|lia]. intros i Hi. rewrite Has. apply B. rewrite <- TL. exact Hi. }
    destruct r as [[|]|e|s|].
    - destruct H as (Has & NL). exact (Late Has NL).
    - destruct H as (-> & _). split; [exact B|lia].
    - destruct H as [(Has & TL & _)|(Has & NL & _)]; [exact (Early Has TL)|exact (Late Has NL)].
    - destruct H as [(Has & TL & _)|(Has & NL & _)]; [exact (Early Has TL)|exact (Late Has NL)].
    - destruct H as [(Has & TL & _)|(Has & NL & _)]; [exact (Early Has TL)|exact (Late Has NL)].
  Qed.

  (* histories without apply (the writer's side): from a bounded state every announced block was
     unavailable at the start, so the final availability is the DISJOINT union of the initial one and
     the announced ranges *)
  Definition is_apply (o : op) : bool := match o with OApply _ _ => true | _ => false end.

  Lemma step_writer o c w c' w' ok :
    is_apply o = false -> run_op o c w = (c', w', ok) -> bounded c ->
    exists evs,
      w_events w' = evs ++ w_events w /\ bounded c' /\
      t_length (c_tree c) <= t_length (c_tree c') /\
      forall i, announced evs i = true -> t_length (c_tree c) <= i.
  Proof.
    intros Hna H B.
    destruct o as [f batch|f pf|j|b h s u|j|]; [|discriminate Hna| | | |]; cbn [run_op] in H;
      apply forget_inv in H; destruct H as (r & H & ->).
    - pose proof (append_events cr _ _ _ _ _ _ _ H) as Ev.
      destruct (append_keeps_bounded _ _ _ _ _ _ _ B H) as (B' & Mono).
      eexists. split; [exact Ev|]. split; [exact B'|]. split; [exact Mono|].
      intros i Hi. destruct r as [x|e|s|]; try discriminate Hi.
      destruct batch as [|d batch]; [discriminate Hi|].
      cbn [announced existsb covers] in Hi. unfold in_range in Hi. lia.
    - pose proof (get_events _ _ _ _ _ _ H) as (Ev & _).
      apply core_get_quiet in H. destruct H as (-> & _).
      eexists. split; [exact Ev|]. split; [exact B|]. split; [lia|].
      intros i Hi. destruct (bf_get (c_bitfield c) j); discriminate Hi.
    - pose proof (create_proof_events _ _ _ _ _ _ _ _ _ H) as (Ev & _ & -> & _).
      eexists. split; [exact Ev|]. split; [exact B|]. split; [lia|].
      intros i Hi. destruct (proof_missing_block b h s u c w); discriminate Hi.
    - pose proof (proj1 (missing_nodes_silent j) _ _ _ _ _ H) as Ev.
      apply (proj1 (core_missing_nodes_quiet j)) in H. destruct H as (-> & _).
      exists []. split; [exact Ev|]. split; [exact B|]. split; [lia|]. intros i Hi. discriminate Hi.
    - pose proof (make_read_only_silent cr _ _ _ _ _ H) as Ev.
      destruct (make_read_only_keeps_bounded _ _ _ _ _ B H) as (B' & TL).
      exists []. split; [exact Ev|]. split; [exact B'|]. split; [lia|]. intros i Hi. discriminate Hi.
  Qed.

  Theorem writer_history_fresh ops : forall c w c' w' oks,
    forallb (fun o => negb (is_apply o)) ops = true ->
    run_ops ops c w = (c', w', oks) -> bounded c ->
    exists evs,
      w_events w' = evs ++ w_events w /\ bounded c' /\
      t_length (c_tree c) <= t_length (c_tree c') /\
      forall i, announced evs i = true -> t_length (c_tree c) <= i /\ core_has c i = false.
  Proof.
    induction ops as [|o rest IH]; intros c w c' w' oks Hna H B.
    - cbn [run_ops] in H. inversion H; subst. exists []. split; [reflexivity|]. split; [exact B|].
      split; [lia|]. intros i Hi. discriminate Hi.
    - cbn [run_ops] in H. cbn [forallb] in Hna. apply andb_true_iff in Hna. destruct Hna as (Hna1 & Hna2).
      destruct (run_op o c w) as [[c1 w1] ok] eqn:S1.
      destruct (run_ops rest c1 w1) as [[c2 w2] oks2] eqn:S2.
      inversion H; subst; clear H.
      apply negb_true_iff in Hna1.
      destruct (step_writer _ _ _ _ _ _ Hna1 S1 B) as (e1 & Ev1 & B1 & M1 & A1).
      destruct (IH _ _ _ _ _ Hna2 S2 B1) as (e2 & Ev2 & B2 & M2 & A2).
      exists (e2 ++ e1). split; [rewrite Ev2, Ev1, app_assoc; reflexivity|]. split; [exact B2|].
      split; [lia|]. intros i Hi. rewrite announced_app in Hi.
      assert (L : t_length (c_tree c) <= i).
      { apply orb_true_iff in Hi. destruct Hi as [Hi|Hi].
        - destruct (A2 i Hi) as (L & _). lia.
        - exact (A1 i Hi). }
      split; [exact L|exact (B i L)].
  Qed.

End Avail.

(* ====================================================================================== *)
(* 9. The invariant holds at creation                                                      *)
(* ====================================================================================== *)

Theorem bounded_at_creation cr kp :
  OplogFacts.keypair_ok kp = true ->
  exists d' ops c,
    core_open cr (Some kp) false disk_empty = (d', ops, Ok c) /\ bounded c /\ c_keypair c = kp.
Proof.
  intros Hk. destruct (WInv_init_keypair_ok cr kp Hk) as (d' & ops & c & Ho & W & K).
  exists d', ops, c. split; [exact Ho|]. split; [|exact K].
  destruct W as (HL & _ & _ & _ & _ & _ & Hbf & _).
  intros i _. unfold core_has. rewrite Hbf. cbn [length]. change (N.of_nat 0) with 0. lia.
Qed.

(* ====================================================================================== *)
(* 10. Non-vacuity on the toy instance of CoreFacts.v                                      *)
(* ====================================================================================== *)

Definition tc : crypto := CoreFacts.toy_crypto.

(* a fresh core for the key pair, in a world with empty journal and no events *)
Definition fresh (kp : keypair) : option (core * world) :=
  match core_open tc (Some kp) false disk_empty with
  | (d, _, Ok c0) => Some (c0, mkWorld d [] [])
  | _ => None
  end.

(* what the examples look at: the Ok flags, the events, availability of blocks 0..4 at the end, what
   the events announce for 0..4, availability at the start *)
Definition summary (cr : crypto) (ops : list op) (s : option (core * world)) :=
  match s with
  | Some (c0, w0) =>
      let '(c', w', oks) := run_ops cr ops c0 w0 in
      Some (oks, w_events w', map (core_has c') [0; 1; 2; 3; 4],
            map (announced (w_events w')) [0; 1; 2; 3; 4], map (core_has c0) [0; 1; 2; 3; 4])
  | None => None
  end.

(* a writer: two non-empty appends (the second one flushing), an empty append, reads; the hypotheses of
   [history_avail] (all calls Ok) and of [writer_history_fresh] (no apply, bounded start by
   [bounded_at_creation]) are met *)
Example toy_writer_history :
  summary tc
    [OAppend (Some false) [[1; 2; 3]; [4]]; OGet 7; OAppend (Some true) [[5; 6]];
     OCreateProof (Some (mkReqBlock 1 0)) None None None; OAppend None []; OMissingNodes 0; OMakeReadOnly]
    (fresh CoreFacts.toy_kp) =
  Some ([true; true; true; true; true; true; true],
        [EvHave 2 1 false; EvUpgrade; EvGet 7; EvHave 0 2 false; EvUpgrade],
        [true; true; true; false; false], [true; true; true; false; false],
        [false; false; false; false; false]).
Proof. vm_compute. reflexivity. Qed.

(* a block-only proof for block i made by a writer holding two blocks *)
Definition toy_block_proof (i : N) : option proof :=
  match toy_run (core_append tc (Some true) [[1; 2; 3]; [4]] ;;;
                 core_create_proof (Some (mkReqBlock i 0)) None None None) with
  | Some (_, _, Ok p) => p
  | _ => None
  end.

(* a replica: block 1 with an upgrade, then block 0 TWICE (the second Have re-announces a block that is
   already available: "announced" is not "newly available" for apply), a read, a refused proof *)
Example toy_replica_history :
  match CoreFacts.toy_proof, toy_block_proof 0 with
  | Some pf, Some pf0 =>
      summary tc
        [OApply (Some false) pf; OApply None pf0; OApply None pf0; OGet 0;
         OApply None (mkProof 1 (p_block pf) (p_hash pf) (p_seek pf) (p_upgrade pf))]
        (fresh (mkKeypair (repeat 1 32) None)) =
      Some ([true; true; true; true; true],
            [EvHave 0 1 false; EvHave 0 1 false; EvHave 1 1 false; EvUpgrade],
            [true; true; false; false; false], [true; true; false; false; false],
            [false; false; false; false; false])
  | _, _ => False
  end.
Proof. vm_compute. reflexivity. Qed.

(* The second disjunct of [append_failure] is not vacuous in the model: from a HAND-BUILT (not reachable)
   state whose tree has an unflushed node with a 1-byte hash, a flushing append panics in the flush AFTER
   the oplog entry was journalled: no event is sent, the result is a failure, yet blocks 0 and 1 are
   available and the tree length is 2.  (In the crate the same window is an I/O error returned by
   flush_bitfield_and_tree_and_oplog at the end of append_batch / verify_and_apply_proof.) *)
Definition late_state : option (core * world) :=
  match fresh CoreFacts.toy_kp with
  | Some (c0, w0) =>
      Some (mkCore (c_keypair c0) (c_oplog c0)
              (mkTree [] 0 0 0 None (nm_set 100 (mkNode 100 0 [1]) nm_empty))
              (c_bitfield c0) (c_header c0) (c_skip c0), w0)
  | None => None
  end.

Example append_late_failure_example :
  match late_state with
  | Some (c0, w0) =>
      let '(c', w', r) := core_append tc (Some true) [[1; 2; 3]; [4]] c0 w0 in
      (is_ok r, w_events w', map (core_has c0) [0; 1; 2], map (core_has c') [0; 1; 2],
       t_length (c_tree c'), length (w_journal w')) =
      (false, [], [false; false; false], [true; true; false], 2, 3%nat)
  | None => False
  end.
Proof. vm_compute. reflexivity. Qed.

(* and the history equation fails for that run: block 0 is available, nothing announced it *)
Example late_failure_breaks_equation :
  summary tc [OAppend (Some true) [[1; 2; 3]; [4]]] late_state =
  Some ([false], [], [true; true; false; false; false], [false; false; false; false; false],
        [false; false; false; false; false]).
Proof. vm_compute. reflexivity. Qed.

(* [bounded] alone is not preserved by apply: in a HAND-BUILT (not reachable) replica state of length 1
   whose store also holds the writer's node 2, the block-only proof for block 1 is accepted and sets
   bit 1 although the tree length stays 1.  Preservation by apply needs the store invariant. *)
Definition corrupt_replica : option (core * world) :=
  match fresh (mkKeypair (repeat 1 32) None),
        toy_run (core_append tc (Some false) [[1; 2; 3]; [4]]) with
  | Some (c0, w0), Some (cw, _, Ok _) =>
      match nm_get 0 (t_unflushed (c_tree cw)) with
      | Some n0 =>
          Some (mkCore (c_keypair c0) (c_oplog c0)
                  (mkTree [n0] 1 3 0 None (t_unflushed (c_tree cw)))
                  (c_bitfield c0) (c_header c0) (c_skip c0), w0)
      | None => None
      end
  | _, _ => None
  end.

Example apply_bounded_needs_store_invariant :
  match corrupt_replica, toy_block_proof 1 with
  | Some (c0, w0), Some pf =>
      let '(c', w', r) := core_apply_proof tc (Some false) pf c0 w0 in
      (r, w_events w', map (core_has c0) [0; 1; 2], map (core_has c') [0; 1; 2],
       t_length (c_tree c0), t_length (c_tree c')) =
      (Ok true, [EvHave 1 1 false], [false; false; false], [false; true; false], 1, 1)
  | _, _ => False
  end.
Proof. vm_compute. reflexivity. Qed.

(* ====================================================================================== *)
Print Assumptions append_outcome.
Print Assumptions apply_outcome.
Print Assumptions clear_outcome.
Print Assumptions read_only_calls_keep_availability.
Print Assumptions history_avail.
Print Assumptions history_avail_upper.
Print Assumptions append_has.
Print Assumptions append_empty.
Print Assumptions apply_has.
Print Assumptions apply_refused.
Print Assumptions append_failure.
Print Assumptions apply_failure.
Print Assumptions clear_has.
Print Assumptions verify_proof_fields.
Print Assumptions append_range_fresh.
Print Assumptions append_keeps_bounded.
Print Assumptions clear_keeps_bounded.
Print Assumptions make_read_only_keeps_bounded.
Print Assumptions apply_keeps_bounded_partial.
Print Assumptions writer_history_fresh.
Print Assumptions bounded_at_creation.
Print Assumptions toy_writer_history.
Print Assumptions toy_replica_history.
Print Assumptions append_late_failure_example.
Print Assumptions late_failure_breaks_equation.
Print Assumptions apply_bounded_needs_store_invariant.

(* FaultReplicaEx.v -- the theorems of FaultReplica.v on the toy instances: for a concrete replica apply, a concrete
   make_read_only (writer with clears; replica), an append, a creation and a repairing open, EVERY fault position is
   computed by vm_compute and agrees with the statements; and the hypotheses of the theorems are met. *)
From HC Require Import Base NMap Codec CodecFacts Crypto FlatTree Storage Bitfield Oplog Merkle Core.
From HC Require Import FlatTreeFacts StorageFacts BitfieldFacts OplogFacts TreeRef OffsetFacts CoreFacts Crash Refine.
From HC Require Import ClearRefine Reopen ContigBridge Unified1 Unified2 CrashCore1 CrashCore2 CrashCore3 Fault.
From HC Require Import CrashClear1 CrashClear2 CrashClear4.
From HC Require Import Sound NoPanic Replicate SoundCoreLib SoundCore SoundCoreUp SoundCoreBU.
From HC Require Import ReplicaDisk1 ReplicaDisk2 ReplicaDisk3 ReplicaDisk4 ReplicaDisk5 ReplicaDisk6 ReplicaDisk7.
From HC Require Import ReadOnly ReadOnlyClear ReplicaMiscB.
From HC Require Import CrashClear3 FaultReplica.
From Coq Require Import FMapPositive ZifyN ZifyNat ZifyBool.
Ltac Zify.zify_post_hook ::= Z.div_mod_to_equations.
Arguments N.add : simpl never.
Arguments N.sub : simpl never.
Arguments N.mul : simpl never.
Arguments N.div : simpl never.
Arguments N.modulo : simpl never.
Arguments N.pow : simpl never.
Arguments N.eqb : simpl never.
Arguments N.ltb : simpl never.
Arguments N.leb : simpl never.
Arguments N.max : simpl never.
Arguments N.min : simpl never.
Arguments N.of_nat : simpl never.
Arguments N.to_nat : simpl never.

(* comparing what the faulty call leaves with the cut of the fault-free journal, inside vm_compute: stores by length
   and content, journals operation by operation *)
Definition file_eqb (a b : file) : bool := (f_len a =? f_len b) && beq_bytes (f_content a) (f_content b).
Definition disk_eqb (a b : disk) : bool :=
  file_eqb (d_tree a) (d_tree b) && file_eqb (d_data a) (d_data b) &&
  file_eqb (d_bitfield a) (d_bitfield b) && file_eqb (d_oplog a) (d_oplog b).
Definition store_eqb (a b : store) : bool :=
  match a, b with Tree, Tree | Data, Data | Bitfield, Bitfield | Oplog, Oplog => true | _, _ => false end.
Definition sop_eqb (a b : sop) : bool :=
  match a, b with
  | SW s o x, SW s' o' x' => store_eqb s s' && (o =? o') && beq_bytes x x'
  | SD s o n, SD s' o' n' => store_eqb s s' && (o =? o') && (n =? n')
  | ST s n, ST s' n' => store_eqb s s' && (n =? n')
  | _, _ => false
  end.
Fixpoint sops_eqb (a b : list sop) : bool :=
  match a, b with
  | [], [] => true
  | x :: a', y :: b' => sop_eqb x y && sops_eqb a' b'
  | _, _ => false
  end.

(* ====================================================================================== *)
(* 1. A replica's proof application with a fault at every storage operation                *)
(* ====================================================================================== *)

(* first contact (block 4 with the upgrade 0..6) on the fresh replica of SoundCore.v, with a flush: nine storage
   operations.  For the fault position k: what the faulty call answers, the events it sent, the disk and the journal
   delta it leaves, and what a reopen of that disk observes *)
Definition sc_fault_probe (k : nat) :=
  match sc_R0, sc_first_contact_proof with
  | Some (c, w), Some pf =>
      let '(c', w', r) := core_apply_proof sc_cr (Some true) pf c w in
      let delta := journal_delta (w_journal w) (w_journal w') in
      let '(ck, wk, rk) :=
        core_apply_proof_E sc_cr (emit_lim (length (w_journal w) + k)) (Some true) pf c w in
      match apply_sops (w_disk w) (firstn k delta), core_open sc_cr None true (w_disk wk) with
      | Some dk, (d2, _, Ok c2) =>
          Some (rk, w_events wk,
                (* the disk is the cut at k, the journal the first k operations *)
                disk_eqb (w_disk wk) dk, sops_eqb (journal_delta (w_journal w) (w_journal wk)) (firstn k delta),
                (* what the reopen observes *)
                core_has c2 4, i_length (core_info c2), snd (core_get 4 c2 (mkWorld d2 [] [])))
      | _, _ => None
      end
  | _, _ => None
  end.

(* Err IOErr and no event while k is inside the journal (nine operations); the observations of before the call
   (k <= 1 = commit_point) or after it; from k = 9 on the fault-free outcome with both events *)
Definition sc_fault_expected (k : nat) :=
  Some (if (k <? 9)%nat then Err IOErr else Ok true,
        if (k <? 9)%nat then [] else [EvHave 4 1 false; EvUpgrade],
        true, true,
        negb (k <=? 1)%nat, if (k <=? 1)%nat then 0 else 6,
        if (k <=? 1)%nat then Ok None else Ok (Some [9; 10])).

Example sc_fault_at_every_operation_of_apply :
  map sc_fault_probe (seq 0 12) = map sc_fault_expected (seq 0 12) /\
  match sc_R0, sc_first_contact_proof with
  | Some (c, w), Some pf =>
      let '(c', w', r) := core_apply_proof sc_cr (Some true) pf c w in
      r = Ok true /\ length (journal_delta (w_journal w) (w_journal w')) = 9%nat /\
      w_events w' = [EvHave 4 1 false; EvUpgrade] /\ commit_point pf = 1%nat /\
      (* beyond the end the faulty call IS the fault-free call *)
      core_apply_proof_E sc_cr (emit_lim (length (w_journal w) + 9)) (Some true) pf c w = (c', w', r)
  | _, _ => False
  end.
Proof. vm_compute. repeat split; reflexivity. Qed.

(* all hypotheses of failed_apply_recovers hold on the instance, for each of the nine fault positions *)
Example sc_failed_apply_theorem_applies :
  match sc_R0, sc_first_contact_proof with
  | Some (c, w), Some pf =>
      exists c' w' delta,
        core_apply_proof sc_cr (Some true) pf c w = (c', w', Ok true) /\
        w_journal w' = rev delta ++ w_journal w /\ length delta = 9%nat /\
        forall k, (k < 9)%nat ->
          exists ck wk,
            core_apply_proof_E sc_cr (emit_lim (length (w_journal w) + k)) (Some true) pf c w = (ck, wk, Err IOErr) /\
            w_journal wk = rev (firstn k delta) ++ w_journal w /\
            apply_sops (w_disk w) (firstn k delta) = Some (w_disk wk) /\ w_events wk = w_events w /\
            ((exists c2 d2 rops, core_open sc_cr None true (w_disk wk) = (d2, rops, Ok c2) /\
                if (k <=? 1)%nat
                then obs_replica sc_blocks c2 d2 (fun _ => false) 0
                else obs_replica sc_blocks c2 d2 (hold (fun _ => false) (p_block pf)) (t_length (c_tree c'))) \/
             some_collision sc_cr \/ forged_signature sc_cr sc_blocks (kp_public (c_keypair c)))
  | _, _ => False
  end.
Proof.
  destruct (RDInv_fresh sc_cr sc_crc_ok sc_hash32 sc_nonblank sc_blocks (mkKeypair sc_key None) eq_refl eq_refl)
    as (d0 & ops & c & Hopen & X & K & L).
  assert (ER0 : sc_R0 = Some (c, mkWorld d0 [] [])) by (unfold sc_R0, sc_open; rewrite Hopen; reflexivity).
  rewrite ER0.
  destruct sc_first_contact_proof as [pf|] eqn:Ep.
  2:{ pose proof sc_block_upgrade_theorem_applies as HB. rewrite ER0, Ep in HB. exact HB. }
  destruct (sc_fc_ok d0 ops c pf Hopen Ep) as (b & u & c1 & w1 & Epf & Hi & Hok & Happ1).
  destruct (sc_fc_facts d0 ops c pf c1 w1 (Ok true) Hopen Ep Happ1) as [_ Hsb].
  assert (Hrd : rd_proof_ok pf) by (split; [exact Hok|destruct (p_upgrade pf); [exact Hsb|exact I]]).
  destruct (core_apply_proof sc_cr (Some true) pf c (mkWorld d0 [] [])) as [[c' w'] r] eqn:Happ.
  destruct (sc_fc_flush_run d0 ops c pf c' w' r Hopen Ep Happ) as [-> Hlen].
  exists c', w', (rev (w_journal w')). cbn [w_journal w_disk w_events].
  rewrite rev_involutive, app_nil_r, rev_length. split; [reflexivity|]. split; [reflexivity|]. split; [exact Hlen|].
  intros k Hk.
  destruct (failed_apply_recovers sc_cr sc_crc_ok sc_hash32 sc_nonblank sc_hashbytes sc_blocks sc_writer_fits
              (Some true) pf c d0 [] [] _ c' w' (rev (w_journal w')) k X Hrd Happ)
    as (ck & wk & Ef & Jk & Dk & Evk & Hrec);
    [rewrite rev_involutive, app_nil_r; reflexivity|rewrite rev_length, Hlen; exact Hk|].
  exists ck, wk. split; [exact Ef|]. split; [exact Jk|]. split; [exact Dk|]. split; [exact Evk|].
  destruct Hrec as [(c2 & d2 & rops & Eo & _ & Hcase)|[C|F]]; [left|right; left; exact C|right; right; exact F].
  exists c2, d2, rops. split; [exact Eo|].
  assert (Ecp : commit_point pf = 1%nat) by (rewrite Epf; reflexivity). rewrite Ecp in Hcase.
  destruct (k <=? 1)%nat.
  - destruct Hcase as (_ & O & _). rewrite L in O. exact O.
  - destruct Hcase as (_ & O & _). exact O.
Qed.

(* ====================================================================================== *)
(* 2. make_read_only on a writer with clears, with a fault at every storage operation       *)
(* ====================================================================================== *)

(* the states of ReadOnlyClear.toy_cstate (a writer with a cleared range, pending entries, junk in the data store;
   both slot parities); the call starts with one event already sent, so "no event" is visible.  For the fault
   position k: the answer, the events, whether the disk is the cut at k, and what a reopen observes: the reads of
   (toy_cbs, toy_ccl), writable exactly when no header slot had been written (k <= ro_np c) *)
Definition toy_ro_fault_ok (c : core) (d : disk) (k : nat) : bool :=
  let '(ck, wk, rk) := core_make_read_only_E toy_cr (emit_lim (0 + k)) c (mkWorld d [] [EvUpgrade]) in
  match rk, w_events wk, apply_sops d (firstn k (ro_ops toy_cr c)), core_open toy_cr None true (w_disk wk) with
  | Err IOErr, [EvUpgrade], Some dk, (d2, _, Ok c2) =>
      disk_eqb (w_disk wk) dk && sops_eqb (rev (w_journal wk)) (firstn k (ro_ops toy_cr c)) &&
      reads_cleared c2 d2 toy_cbs toy_ccl &&
      Bool.eqb (i_writeable (core_info c2)) (Nat.leb k (ro_np c))
  | _, _, _, _ => false
  end.

Example toy_fault_at_every_operation_of_make_read_only f1 :
  match toy_cstate f1 with
  | Some (c, d) =>
      let n := length (ro_ops toy_cr c) in
      forallb (toy_ro_fault_ok c d) (seq 0 n) = true /\ (ro_np c + 4 = n)%nat /\ Nat.ltb 1 (ro_np c) = true /\
      (* beyond the end: the fault-free call *)
      core_make_read_only_E toy_cr (emit_lim (0 + n)) c (mkWorld d [] [EvUpgrade]) =
      core_make_read_only toy_cr c (mkWorld d [] [EvUpgrade]) /\
      snd (core_make_read_only toy_cr c (mkWorld d [] [EvUpgrade])) = Ok true
  | None => False
  end.
Proof. destruct f1; vm_compute; repeat split; reflexivity. Qed.

(* the hypotheses of failed_make_read_only_recovers hold of these states: its conclusion for every k *)
Example toy_failed_make_read_only_theorem_applies f1 k :
  match toy_cstate f1 with
  | Some (c, d) =>
      (k < length (ro_ops toy_cr c))%nat ->
      exists ck wk,
        core_make_read_only_E toy_cr (emit_lim (0 + k)) c (mkWorld d [] [EvUpgrade]) = (ck, wk, Err IOErr) /\
        apply_sops d (firstn k (ro_ops toy_cr c)) = Some (w_disk wk) /\ w_events wk = [EvUpgrade] /\
        exists d2 rops c2,
          core_open toy_cr None true (w_disk wk) = (d2, rops, Ok c2) /\
          obs_cleared c2 d2 toy_cbs toy_ccl /\
          ((k <= ro_np c)%nat -> i_writeable (core_info c2) = true) /\
          ((ro_np c < k)%nat -> i_writeable (core_info c2) = false)
  | None => False
  end.
Proof.
  pose proof (toy_cstate_YInv f1) as H. destruct (toy_cstate f1) as [[c d]|]; [|exact H].
  destruct H as (X & Hsk & _). intros Hk.
  assert (Hw0 : i_writeable (core_info c) = true) by (unfold core_info; cbn [i_writeable]; rewrite Hsk; reflexivity).
  destruct (failed_make_read_only_recovers toy_cr Reopen.toy_crc_ok' Refine.toy_hash32 Refine.toy_nonblank Reopen.toy_hashbytes
              c d [] [EvUpgrade] _ _ k X Hk)
    as (ck & wk & Ef & _ & Dk & Evk & d2 & rops & c2 & Eo & _ & _ & O2 & _ & _ & K1 & K2 & _).
  exists ck, wk. split; [exact Ef|]. split; [exact Dk|]. split; [exact Evk|].
  exists d2, rops, c2. split; [exact Eo|]. split; [exact O2|].
  split; intros Hc; [rewrite <- Hw0; apply (K1 Hc)|apply (K2 Hc)].
Qed.

(* ====================================================================================== *)
(* 3. make_read_only on a replica, with a fault at every storage operation                  *)
(* ====================================================================================== *)

(* the synced replica of SoundCore.v (length 6, the upgrade entry pending, two unflushed roots): six operations *)
Definition sc_ro_fault_ok (c : core) (w : world) (k : nat) : bool :=
  let '(ck, wk, rk) := core_make_read_only_E sc_cr (emit_lim (length (w_journal w) + k)) c w in
  match rk, apply_sops (w_disk w) (firstn k (ro_ops sc_cr c)), core_open sc_cr None true (w_disk wk) with
  | Err IOErr, Some dk, (d2, _, Ok c2) =>
      disk_eqb (w_disk wk) dk &&
      sops_eqb (journal_delta (w_journal w) (w_journal wk)) (firstn k (ro_ops sc_cr c)) &&
      (length (w_events wk) =? length (w_events w))%nat &&
      (i_length (core_info c2) =? 6) && negb (i_writeable (core_info c2)) && negb (core_has c2 4)
  | _, _, _ => false
  end.

Example sc_fault_at_every_operation_of_replica_make_read_only :
  match fst sc_R1 with
  | Some (c, w) =>
      length (ro_ops sc_cr c) = 6%nat /\ forallb (sc_ro_fault_ok c w) (seq 0 6) = true /\
      core_make_read_only_E sc_cr (emit_lim (length (w_journal w) + 6)) c w = core_make_read_only sc_cr c w
  | None => False
  end.
Proof. vm_compute. repeat split; reflexivity. Qed.

Example sc_failed_replica_make_read_only_theorem_applies k :
  match fst sc_R1 with
  | Some (c, w) =>
      (k < 6)%nat ->
      exists ck wk,
        core_make_read_only_E sc_cr (emit_lim (length (w_journal w) + k)) c w = (ck, wk, Err IOErr) /\
        apply_sops (w_disk w) (firstn k (ro_ops sc_cr c)) = Some (w_disk wk) /\ w_events wk = w_events w /\
        exists c2 d2 rops,
          core_open sc_cr None true (w_disk wk) = (d2, rops, Ok c2) /\
          RDInv sc_cr sc_blocks c2 d2 (fun _ => false) /\ obs_replica sc_blocks c2 d2 (fun _ => false) 6
  | None => False
  end.
Proof.
  pose proof sc_synced_RDInv as HX.
  destruct (fst sc_R1) as [[c w]|] eqn:E1; [|exact HX]. destruct HX as [X L6].
  destruct w as [d j ev]. cbn [w_disk w_journal w_events] in *. intros Hk.
  destruct (core_make_read_only sc_cr c (mkWorld d j ev)) as [[c' w'] r] eqn:Hro.
  destruct (sc_ro_run c _ c' w' r E1 Hro) as (_ & _ & _ & _ & _ & C5 & _).
  destruct (failed_replica_make_read_only_recovers sc_cr sc_crc_ok sc_hash32 sc_nonblank sc_hashbytes sc_blocks
              sc_writer_fits c d j ev _ k X ltac:(rewrite C5; exact Hk))
    as (ck & wk & Ef & _ & Dk & Evk & c2 & d2 & rops & Eo & X2 & O2 & _).
  exists ck, wk. split; [exact Ef|]. split; [exact Dk|]. split; [exact Evk|].
  exists c2, d2, rops. split; [exact Eo|]. split; [exact X2|]. rewrite <- L6. exact O2.
Qed.

(* ====================================================================================== *)
(* 4. C13 on the instances: an append / a clear with a fault at every operation             *)
(* ====================================================================================== *)

(* a flushing append of two blocks after five, started with one event already sent: for every fault position inside
   the journal the answer is Err IOErr and the events are untouched; beyond the end both events are sent *)
Example toy_append_fault_events :
  match core_open toy_cr (Some toy_keypair) false disk_empty with
  | (d0, _, Ok c0) =>
      match core_append toy_cr (Some false) [[1; 2; 3]; []; [4]; [5; 6]; [7]] c0 (mkWorld d0 [] []) with
      | (c1, w1, Ok _) =>
          let w := mkWorld (w_disk w1) [] [EvGet 9] in
          let '(_, w2, r2) := core_append toy_cr (Some true) [[8]; [9; 9]] c1 w in
          let n := length (w_journal w2) in
          r2 = Ok (7, 10) /\ w_events w2 = [EvHave 5 2 false; EvUpgrade; EvGet 9] /\ Nat.ltb 2 n = true /\
          map (fun k => let '(_, wk, rk) := core_append_E toy_cr (emit_lim (0 + k)) (Some true) [[8]; [9; 9]] c1 w in
                        (rk, w_events wk, length (w_journal wk))) (seq 0 (S n)) =
          map (fun k => (if (k <? n)%nat then Err IOErr else r2,
                         if (k <? n)%nat then [EvGet 9] else w_events w2, k)) (seq 0 (S n))
      | _ => False
      end
  | _ => False
  end.
Proof. vm_compute. repeat split; reflexivity. Qed.

(* ====================================================================================== *)
(* 5. A fault during the open itself                                                       *)
(* ====================================================================================== *)

(* creation on empty storage with a fault at its operation 0 (the header slot write) or 1 (the extending truncate):
   Err IOErr; a later open without key pair reports empty storage; a later creation succeeds with the empty core;
   with the fault beyond the end (k = 2) the creation is the fault-free one *)
Example toy_fault_in_creation :
  match core_open toy_cr (Some toy_keypair) false disk_empty with
  | (d', J, Ok c) =>
      length J = 2%nat /\
      map (fun k => match core_open_F toy_cr k (Some toy_keypair) false disk_empty with
                    | (dk, done, r) =>
                        (r, sops_eqb done (firstn k J),
                         match apply_sops disk_empty (firstn k J) with Some dk' => disk_eqb dk dk' | None => false end,
                         snd (core_open toy_cr None true dk),
                         match core_open toy_cr (Some toy_keypair) false dk with
                         | (_, _, Ok c2) => Some (core_info c2)
                         | _ => None
                         end)
                    end) [0; 1]%nat =
      map (fun k => (Err IOErr, true, true, Err EmptyStorage, Some (mkInfo 0 0 0 0 true))) [0; 1]%nat /\
      core_open_F toy_cr 2 (Some toy_keypair) false disk_empty = (d', J, Ok c)
  | _ => False
  end.
Proof. vm_compute. repeat split; reflexivity. Qed.

(* a writer's disk cut after the header slot write of a flushing clear: the open has one repair operation (the
   truncate of the stale entries).  With the fault at that operation the open answers Err IOErr and leaves the
   disk as it was; the next open repairs and observes the cleared state *)
Example toy_fault_in_repairing_open :
  match core_open toy_cr (Some toy_keypair) false disk_empty with
  | (d0, _, Ok c0) =>
      match core_append toy_cr (Some true) toy_bs5 c0 (mkWorld d0 [] []) with
      | (c1, w1, Ok _) =>
          let '(_, w2, _) := core_clear toy_cr (Some true) 1 3 c1 (mkWorld (w_disk w1) [] []) in
          match apply_sops (w_disk w1) (firstn 4 (journal_delta [] (w_journal w2))) with
          | Some dk =>
              core_open_F toy_cr 0 None true dk = (dk, [], Err IOErr) /\
              core_open_F toy_cr 1 None true dk = core_open toy_cr None true dk /\
              match core_open toy_cr None true dk with
              | (_, rops, Ok c2) =>
                  rops = [ST Oplog ENTRIES_OFFSET] /\ map (core_has c2) [0; 1; 2; 3; 4; 5] = [true; false; false; true; true; false]
              | _ => False
              end
          | None => False
          end
      | _ => False
      end
  | _ => False
  end.
Proof. vm_compute. repeat split; reflexivity. Qed.

(* the hypotheses of failed_open_recovers_Y are met by a disk on which the open has an operation to fail *)
Example toy_failed_open_theorem_applies :
  exists kp cl d c' d',
    YDisk toy_cr kp d toy_bs5 cl /\
    core_open toy_cr None true d = (d', [ST Oplog ENTRIES_OFFSET], Ok c') /\ YInv toy_cr c' d' toy_bs5 cl /\
    core_open_F toy_cr 0 None true d = (d, [], Err IOErr) /\
    core_open_F toy_cr 1 None true d = (d', [ST Oplog ENTRIES_OFFSET], Ok c').
Proof.
  destruct toy_YDisk_states_met as (kp & cl & _ & d12 & d12' & c12 & _ & _ & _ & XD & Eo).
  exists kp, cl, d12, c12, d12'. split; [exact XD|]. split; [exact Eo|].
  destruct (failed_open_recovers_Y toy_cr Reopen.toy_crc_ok' Refine.toy_hash32 Refine.toy_nonblank Reopen.toy_hashbytes kp d12 toy_bs5 cl 0 XD)
    as (c' & d' & ops & Eo' & X & _ & Hcase).
  rewrite Eo in Eo'. injection Eo' as <- <- <-.
  split; [exact X|]. split.
  - destruct Hcase as [[L _]|[_ Ef]]; [cbn [length] in L; lia|exact Ef].
  - apply (core_open_F_beyond toy_cr 1 _ _ _ _ _ _ Eo); [cbn [length]; lia|right; exists c12; reflexivity].
Qed.

Print Assumptions sc_fault_at_every_operation_of_apply.
Print Assumptions sc_failed_apply_theorem_applies.
Print Assumptions toy_fault_at_every_operation_of_make_read_only.
Print Assumptions toy_failed_make_read_only_theorem_applies.
Print Assumptions sc_fault_at_every_operation_of_replica_make_read_only.
Print Assumptions sc_failed_replica_make_read_only_theorem_applies.
Print Assumptions toy_append_fault_events.
Print Assumptions toy_fault_in_creation.
Print Assumptions toy_fault_in_repairing_open.
Print Assumptions toy_failed_open_theorem_applies.

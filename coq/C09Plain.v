(* C09Plain.v -- C09 (no request or proof from a peer can panic the node) as ONE closed-form statement whose premises
   are only the property's own bounds.  The technical side conditions of AnyProofCor.apply_any_returns /
   FrameGuard.apply_any_returns_no_panic are discharged:
     announced_sizes_fit_of_lims   ReplicaCorA.announced_sizes_fit_any (byte length + announced sizes + 87 * 2^40 <=
                                   u64_max) follows from: node sizes below 2^40 (upgrade_nodes_lim), at most
                                   ANNOUNCED_MAX_NODES = 12582825 upgrade + additional nodes (MAX_PROOF_NODES = 10737381
                                   is smaller), byte length of the replica below 2^62
     HInv_byte_length              the byte length of an HInv replica is the writer's prefix size: at most the
                                   writer's total size -- hostile node sizes never reach t_byte_length
     fresh_open_header             the header of a freshly opened replica is header_new kp: hdr_small, header_room
     writer_fits_of_bounds         writer_fits bs from "fewer than 2^40 blocks, total size below 2^62"
     apply_returns_plain           one state: HInv + header_room + the bounds
     C09_plain_apply, C09_plain_create, C09_plain
                                   from a FRESH replica (core_open on empty storage, 32-byte public key, no secret),
                                   after ANY history of calls with any outcomes: apply returns for every wire proof
                                   with fields below 2^40 carrying at most MAX_PROOF_NODES (> 2^23) nodes; create_proof
                                   returns (state unchanged) for every request with fields below 2^40.
   Premises that survive (all listed in C09_plain): the crypto record has 32-byte non-blank hashes; the writer's log
   bs has fewer than 2^40 blocks and fewer than 2^62 bytes; the public key has 32 bytes and the replica holds no
   secret; every proof applied during the history and the proof at hand are wire proofs (32-byte hashes, u64
   fields: what the decoder guarantees); the bounds on the proof / request at hand.  Conclusions are modulo an
   explicit hash collision / a signature on a message the writer never signed. *)
From HC Require Import Base NMap Codec CodecFacts Crypto FlatTree Storage Bitfield Oplog Merkle Core.
From HC Require Import FlatTreeFacts StorageFacts BitfieldFacts OplogFacts Sound NoPanic NoPanic2 TreeRef OffsetFacts CoreFacts Refine.
From HC Require Import ClearRefine Replicate Reopen EventsAvail SoundCoreLib SoundCore ReplicaCor ReplicaCorA.
From HC Require Import AnyProof AnyProofCor.
From HC Require Import FrameGuardLib FrameGuard FrameGuardHist.
From Coq Require Import ZifyN ZifyNat ZifyBool.
Ltac Zify.zify_post_hook ::= Z.div_mod_to_equations.
Arguments N.add : simpl never.
Arguments N.sub : simpl never.
Arguments N.mul : simpl never.
Arguments N.div : simpl never.
Arguments N.modulo : simpl never.
Arguments N.pow : simpl never.
Arguments N.eqb : simpl never.
Arguments N.ltb : simpl never.
Arguments N.leb : simpl never.
Arguments N.of_nat : simpl never.
Arguments N.to_nat : simpl never.

(* 2^62 *)
Definition SIZE_LIMIT : N := 4611686018427387904.
Lemma SIZE_LIMIT_pow : SIZE_LIMIT = 2 ^ 62.
Proof. reflexivity. Qed.

(* "every numeric field of the proof below 2^40" (indices, node sizes, value length, start, length) *)
Definition proof_lim (pf : proof) : Prop :=
  block_lim (p_block pf) = true /\ hash_lim (p_hash pf) = true /\ seek_lim (p_seek pf) = true /\
  upgrade_nodes_lim pf.

(* "every numeric field of the request below 2^40" (the seek request is unconstrained) *)
Definition request_lim (block hash : option req_block) (upgrade : option req_upgrade) : Prop :=
  rblock_lim block = true /\ rblock_lim hash = true /\ rupgrade_lim upgrade = true.

(* ====================================================================================== *)
(* 1. The u64 sum side condition                                                           *)
(* ====================================================================================== *)

Lemma lens_nodes_lim l : nodes_lim l = true -> lens l <= N.of_nat (length l) * (LIM - 1).
Proof.
  induction l as [|n l IH]; intros H.
  - cbn. lia.
  - cbn [nodes_lim forallb] in H. apply andb_prop in H as [Hn Hl]. specialize (IH Hl).
    rewrite lens_cons. unfold node_lim in Hn. apply andb_prop in Hn as [_ Hn]. cbn [length]. unfold LIM in *. lia.
Qed.

(* the largest number of upgrade + additional nodes for which the sum fits next to a byte length below 2^62:
   (2^62 - 1) + K * (2^40 - 1) + 87 * 2^40 <= 2^64 - 1 *)
Definition ANNOUNCED_MAX_NODES : N := 12582825.

Lemma ANNOUNCED_MAX_NODES_fits : (SIZE_LIMIT - 1) + ANNOUNCED_MAX_NODES * (LIM - 1) + 87 * LIM <= u64_max.
Proof. vm_compute. discriminate. Qed.
Lemma ANNOUNCED_MAX_NODES_largest : u64_max < (SIZE_LIMIT - 1) + (ANNOUNCED_MAX_NODES + 1) * (LIM - 1) + 87 * LIM.
Proof. vm_compute. reflexivity. Qed.
Lemma MAX_PROOF_NODES_announced : MAX_PROOF_NODES <= ANNOUNCED_MAX_NODES.
Proof. vm_compute. discriminate. Qed.

Theorem announced_sizes_fit_of_lims c pf :
  upgrade_nodes_lim pf ->
  (forall u, p_upgrade pf = Some u ->
             N.of_nat (length (du_nodes u) + length (du_additional u)) <= ANNOUNCED_MAX_NODES) ->
  t_byte_length (c_tree c) < SIZE_LIMIT ->
  announced_sizes_fit_any c pf.
Proof.
  intros Hlim Hcnt Hbl u Eu. destruct (Hlim u Eu) as (_ & L1 & L2). specialize (Hcnt u Eu).
  pose proof (lens_nodes_lim _ L1) as A. pose proof (lens_nodes_lim _ L2) as B.
  unfold ANNOUNCED_MAX_NODES, SIZE_LIMIT, LIM, u64_max in *. nia.
Qed.

Corollary announced_sizes_fit_of_carried c pf :
  upgrade_nodes_lim pf -> N.of_nat (proof_carried pf) <= MAX_PROOF_NODES ->
  t_byte_length (c_tree c) < SIZE_LIMIT -> announced_sizes_fit_any c pf.
Proof.
  intros Hlim Hcar Hbl. apply announced_sizes_fit_of_lims; [exact Hlim| |exact Hbl].
  intros u Eu. unfold proof_carried in Hcar. rewrite Eu in Hcar.
  pose proof MAX_PROOF_NODES_announced. lia.
Qed.

(* ====================================================================================== *)
(* 2. The byte length of a replica                                                         *)
(* ====================================================================================== *)

(* HInv pins the in-memory byte length to the WRITER's prefix size at the replica's length: the sizes a hostile
   proof announces are checked against the signed root hash before anything is committed (a wrong size in an
   accepted node would be a collision), so they never reach t_byte_length *)
Lemma HInv_byte_length cr bs c d :
  HInv cr bs c d -> t_byte_length (c_tree c) <= sumN (map len bs).
Proof.
  intros (H1 & _ & _ & H4 & _). rewrite H4, <- prefix_size_all. apply ClearRefine.prefix_size_mono, H1.
Qed.

Lemma writer_fits_of_bounds bs :
  N.of_nat (length bs) < LIM -> sumN (map len bs) < SIZE_LIMIT -> writer_fits bs.
Proof. intros A B. unfold writer_fits, NODE_SIZE, u64_max, LIM, SIZE_LIMIT in *. lia. Qed.

(* ====================================================================================== *)
(* 3. The fresh replica                                                                    *)
(* ====================================================================================== *)

Lemma hdr_small_new_public kp :
  length (kp_public kp) = 32%nat -> kp_secret kp = None -> hdr_small (header_new kp).
Proof.
  intros Hp Hs. assert (Lp : len (kp_public kp) = 32) by (unfold len; rewrite Hp; reflexivity).
  unfold hdr_small, hdr_fixed, header_new. cbn [hd_key hd_ns hd_mpk hd_keypair hd_tree ht_root_hash ht_signature].
  split; [|split; rewrite len_nil; lia].
  assert (Ln : len DEFAULT_NAMESPACE = 32) by reflexivity. rewrite Ln, Lp.
  unfold enc_keypair, enc_buffer. rewrite Hs, !len_app, Lp, len_cons, len_nil.
  pose proof (len_enc_uint_bounds 32). unfold FRAME_LIMIT. lia.
Qed.

Lemma header_new_small kp :
  length (kp_public kp) = 32%nat -> kp_secret kp = None -> len (enc_header (header_new kp)) < 1073741824.
Proof.
  intros Hp Hs. pose proof (hdr_small_new_public kp Hp Hs) as S.
  pose proof (hdr_small_room (mkCore kp (mkOplog (false, false) 0 0) (mkTree [] 0 0 0 None nm_empty) (mkBf nm_empty [])
                                     (header_new kp) 0) S) as R.
  unfold header_room, HEADER_GROWTH, FRAME_LIMIT in R. cbn [c_header] in R. lia.
Qed.

Lemma fresh_open_header cr kp d0 ops0 c0 :
  len (enc_header (header_new kp)) < 1073741824 ->
  core_open cr (Some kp) false disk_empty = (d0, ops0, Ok c0) -> c_header c0 = header_new kp.
Proof.
  intros Hsmall H. destruct (oplog_fresh_ok cr kp Hsmall) as [buf Hf].
  unfold core_open in H. cbv iota in H.
  change (f_content (d_oplog disk_empty)) with (@nil N) in H.
  rewrite (oplog_open_empty cr kp _ _ _ Hf) in H. cbn [oo_ops oo_header oo_entries oo_oplog] in H.
  cbn [apply_sops apply_sop] in H. cbn [d_set d_get d_tree d_data d_bitfield d_oplog disk_empty] in H.
  cbn [header_new hd_tree] in H.
  assert (Tr : tree_open (mkHeaderTree 0 0 [] []) file_empty = Ok (mkTree [] 0 0 0 None nm_empty))
    by reflexivity.
  rewrite Tr in H. cbn [bind] in H.
  cbn [replay_entries bind hd_keypair] in H.
  injection H as _ _ <-. reflexivity.
Qed.

(* ====================================================================================== *)
(* 4. C09 in plain form                                                                    *)
(* ====================================================================================== *)

Section Plain.
  Variable cr : crypto.
  Hypothesis Hhash32 : forall x, length (cr_hash cr x) = 32%nat.
  Hypothesis Hnonblank : forall x, all_zero (cr_hash cr x) = false.
  Variable bs : list bytes.                       (* the writer's log *)
  Hypothesis Hblocks : N.of_nat (length bs) < LIM.          (* fewer than 2^40 blocks *)
  Hypothesis Hbytes : sumN (map len bs) < SIZE_LIMIT.       (* fewer than 2^62 bytes *)

  Let Hw : writer_fits bs := writer_fits_of_bounds bs Hblocks Hbytes.

  (* one state *)
  Theorem apply_returns_plain f pf c w c' w' r :
    HInv cr bs c (w_disk w) -> header_room c ->
    proof_wire pf -> proof_lim pf -> N.of_nat (proof_carried pf) <= MAX_PROOF_NODES ->
    core_apply_proof cr f pf c w = (c', w', r) ->
    returns r = true \/ some_collision cr \/ forged_signature cr bs (kp_public (c_keypair c)).
  Proof.
    intros W Hroom Hwire (Hb & Hh & Hs & Hlim) Hcar H.
    apply (apply_any_returns_no_panic cr Hhash32 Hnonblank bs Hw f pf c w c' w' r W Hblocks Hwire Hb Hh Hs Hlim);
      [|exact Hcar|exact Hroom|exact H].
    apply (announced_sizes_fit_of_carried c pf Hlim Hcar).
    pose proof (HInv_byte_length cr bs c _ W). lia.
  Qed.

  (* the byte length after any history *)
  Theorem any_history_byte_length ops c w c1 w1 oks :
    HInv cr bs c (w_disk w) -> kp_secret (c_keypair c) = None -> Forall (any_op cr) ops ->
    run_ops cr ops c w = (c1, w1, oks) ->
    t_byte_length (c_tree c1) < SIZE_LIMIT \/
    some_collision cr \/ forged_signature cr bs (kp_public (c_keypair c)).
  Proof.
    intros W Hsec Hops Hrun.
    destruct (any_history_HInv cr Hhash32 bs Hw ops c w c1 w1 oks W Hsec Hops Hrun) as [(W1 & _)|E]; [left|right; exact E].
    pose proof (HInv_byte_length cr bs c1 _ W1). lia.
  Qed.

  Variable kp : keypair.
  Hypothesis Hkey : length (kp_public kp) = 32%nat.         (* a 32-byte public key *)
  Hypothesis Hsec : kp_secret kp = None.                    (* a replica: no secret key *)

  (* verification side *)
  Theorem C09_plain_apply ops :
    Forall (any_op cr) ops ->
    exists d0 ops0 c0,
      core_open cr (Some kp) false disk_empty = (d0, ops0, Ok c0) /\
      forall j ev c1 w1 oks f pf c' w' r,
        run_ops cr ops c0 (mkWorld d0 j ev) = (c1, w1, oks) ->
        proof_wire pf -> proof_lim pf -> N.of_nat (proof_carried pf) <= MAX_PROOF_NODES ->
        core_apply_proof cr f pf c1 w1 = (c', w', r) ->
        returns r = true \/ some_collision cr \/ forged_signature cr bs (kp_public kp).
  Proof.
    intros Hops. pose proof (header_new_small kp Hkey Hsec) as Hsmall.
    destruct (fresh_replica cr Hhash32 Hnonblank bs kp Hsmall) as (d0 & ops0 & c0 & Ho & W & K & _).
    exists d0, ops0, c0. split; [exact Ho|].
    intros j ev c1 w1 oks f pf c' w' r Hrun Hwire Hlim Hcar H.
    assert (W0 : HInv cr bs c0 (w_disk (mkWorld d0 j ev))) by (cbn [w_disk]; apply (RInv_HInv cr bs Hw c0 d0 W)).
    assert (Hsec0 : kp_secret (c_keypair c0) = None) by (rewrite K; exact Hsec).
    assert (S0 : hdr_small (c_header c0)).
    { rewrite (fresh_open_header cr kp d0 ops0 c0 Hsmall Ho). apply hdr_small_new_public; assumption. }
    destruct (any_history_hdr_small cr Hhash32 ops c0 _ c1 w1 oks S0 Hsec0 Hrun) as [S1 _].
    destruct (any_history_HInv cr Hhash32 bs Hw ops c0 _ c1 w1 oks W0 Hsec0 Hops Hrun) as [(W1 & K1)|E];
      [|right; rewrite <- K; exact E].
    rewrite <- K, <- K1.
    apply (apply_returns_plain f pf c1 w1 c' w' r W1 (hdr_small_room c1 S1) Hwire Hlim Hcar H).
  Qed.

  (* creation side *)
  Theorem C09_plain_create ops :
    Forall (any_op cr) ops ->
    exists d0 ops0 c0,
      core_open cr (Some kp) false disk_empty = (d0, ops0, Ok c0) /\
      forall j ev c1 w1 oks block hash seek upgrade c2 w2 r,
        run_ops cr ops c0 (mkWorld d0 j ev) = (c1, w1, oks) ->
        request_lim block hash upgrade ->
        core_create_proof block hash seek upgrade c1 w1 = (c2, w2, r) ->
        (returns r = true /\ c2 = c1 /\ w_disk w2 = w_disk w1 /\ w_journal w2 = w_journal w1) \/
        some_collision cr \/ forged_signature cr bs (kp_public kp).
  Proof.
    intros Hops. pose proof (header_new_small kp Hkey Hsec) as Hsmall.
    destruct (fresh_replica cr Hhash32 Hnonblank bs kp Hsmall) as (d0 & ops0 & c0 & Ho & W & K & Hs).
    exists d0, ops0, c0. split; [exact Ho|].
    intros j ev c1 w1 oks block hash seek upgrade c2 w2 r Hrun (Hb & Hh & Hu) Hc.
    rewrite <- K.
    apply (any_history_create_proof_returns cr Hhash32 bs Hw ops c0 (mkWorld d0 j ev) c1 w1 oks
             block hash seek upgrade c2 w2 r); try assumption.
    - cbn [w_disk]. apply (RInv_HInv cr bs Hw c0 d0 W).
    - rewrite K. exact Hsec.
  Qed.

  (* C09: a replica opened from a 32-byte public key on empty storage, after ANY history of calls (append attempts,
     applied proofs with any outcome, reads, proof requests, missing_nodes, make_read_only): no proof and no request
     from a peer whose numeric fields are below 2^40 -- the proof carrying at most MAX_PROOF_NODES = 10737381 nodes --
     makes the node panic or run out of fuel *)
  Theorem C09_plain ops :
    Forall (any_op cr) ops ->
    exists d0 ops0 c0,
      core_open cr (Some kp) false disk_empty = (d0, ops0, Ok c0) /\
      forall j ev c1 w1 oks,
        run_ops cr ops c0 (mkWorld d0 j ev) = (c1, w1, oks) ->
        (forall f pf c' w' r,
           proof_wire pf -> proof_lim pf -> N.of_nat (proof_carried pf) <= MAX_PROOF_NODES ->
           core_apply_proof cr f pf c1 w1 = (c', w', r) ->
           returns r = true \/ some_collision cr \/ forged_signature cr bs (kp_public kp)) /\
        (forall block hash seek upgrade c2 w2 r,
           request_lim block hash upgrade ->
           core_create_proof block hash seek upgrade c1 w1 = (c2, w2, r) ->
           (returns r = true /\ c2 = c1 /\ w_disk w2 = w_disk w1 /\ w_journal w2 = w_journal w1) \/
           some_collision cr \/ forged_signature cr bs (kp_public kp)).
  Proof.
    intros Hops.
    destruct (C09_plain_apply ops Hops) as (d0 & ops0 & c0 & Ho & HA).
    destruct (C09_plain_create ops Hops) as (d0' & ops0' & c0' & Ho' & HC).
    rewrite Ho in Ho'. injection Ho' as <- <- <-.
    exists d0, ops0, c0. split; [exact Ho|]. intros j ev c1 w1 oks Hrun. split.
    - intros f pf c' w' r Hwire Hlim Hcar H. exact (HA j ev c1 w1 oks f pf c' w' r Hrun Hwire Hlim Hcar H).
    - intros block hash seek upgrade c2 w2 r Hl Hc. exact (HC j ev c1 w1 oks block hash seek upgrade c2 w2 r Hrun Hl Hc).
  Qed.

  (* the same with the round bound 2^23 on the number of carried nodes *)
  Corollary C09_plain_2_23 ops :
    Forall (any_op cr) ops ->
    exists d0 ops0 c0,
      core_open cr (Some kp) false disk_empty = (d0, ops0, Ok c0) /\
      forall j ev c1 w1 oks f pf c' w' r,
        run_ops cr ops c0 (mkWorld d0 j ev) = (c1, w1, oks) ->
        proof_wire pf -> proof_lim pf -> N.of_nat (proof_carried pf) <= 2 ^ 23 ->
        core_apply_proof cr f pf c1 w1 = (c', w', r) ->
        returns r = true \/ some_collision cr \/ forged_signature cr bs (kp_public kp).
  Proof.
    intros Hops. destruct (C09_plain_apply ops Hops) as (d0 & ops0 & c0 & Ho & HA).
    exists d0, ops0, c0. split; [exact Ho|]. intros j ev c1 w1 oks f pf c' w' r Hrun Hwire Hlim Hcar H.
    apply (HA j ev c1 w1 oks f pf c' w' r Hrun Hwire Hlim); [|exact H].
    pose proof MAX_PROOF_NODES_pow. lia.
  Qed.
End Plain.

Print Assumptions announced_sizes_fit_of_lims.
Print Assumptions announced_sizes_fit_of_carried.
Print Assumptions HInv_byte_length.
Print Assumptions fresh_open_header.
Print Assumptions apply_returns_plain.
Print Assumptions any_history_byte_length.
Print Assumptions C09_plain_apply.
Print Assumptions C09_plain_create.
Print Assumptions C09_plain.
Print Assumptions C09_plain_2_23.

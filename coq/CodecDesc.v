(* CodecDesc.v — the vocabulary in which tools/srccodec.py describes the wire codecs of /repo/src/encoding.rs
   (SrcCodec.v, regenerated on every run). Declarations only; CodecTie.v gives them their meaning. *)
From Coq Require Export String List.
Export ListNotations.

(* how a field is written: u64 -> compact uint; Vec<u8> -> length-prefixed buffer; Vec<Node> -> length-prefixed node
   list; the node hash -> exactly 32 raw bytes (as_array::<32> / [u8; 32]). [FOther]: the source has a field of the
   recognised syntactic form whose Rust type the model has no codec for (the Rust type is kept for the error message);
   nothing can be tied to such a description. *)
Inductive fty := FU64 | FBytes | FNodes | FHash32 | FOther (rust : string).

Record codec_desc := {
  cd_size : list (string * fty);      (* fields summed by encoded_size, in source order *)
  cd_enc : list (string * fty);       (* fields written by encode, in source order *)
  cd_dec_types : list fty;            (* types read by decode, in source order *)
  cd_ctor : list string               (* for each value read, the field of the result it initialises *)
}.

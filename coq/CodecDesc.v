(* CodecDesc.v — the vocabulary in which tools/srccodec.py describes the wire codecs of /repo/src/encoding.rs
   (SrcCodec.v, regenerated on every run). Declarations only; CodecTie.v gives them their meaning. *)
From Coq Require Export String List NArith.
Export ListNotations.

(* how a field is written: u64 -> compact uint; Vec<u8> -> length-prefixed buffer; Vec<Node> -> length-prefixed node
   list; the node hash -> exactly 32 raw bytes (as_array::<32> / [u8; 32]). [FOther]: the source has a field of the
   recognised syntactic form whose Rust type the model has no codec for (the Rust type is kept for the error message);
   nothing can be tied to such a description. Oplog codecs (OplogTie.v) only: [FStrings] = Vec<String> (length-prefixed list
   of strings); [FRec name] = a nested struct with a CompactEncoding impl of its own that the model has a codec for. *)
Inductive fty := FU64 | FBytes | FNodes | FHash32 | FOther (rust : string) | FStrings | FRec (name : string).

Record codec_desc := {
  cd_size : list (string * fty);      (* fields summed by encoded_size, in source order *)
  cd_enc : list (string * fty);       (* fields written by encode, in source order *)
  cd_dec_types : list fty;            (* types read by decode, in source order *)
  cd_ctor : list string               (* for each value read, the field of the result it initialises *)
}.

(* ---------- the imperative but regular oplog codecs (src/oplog/entry.rs, src/oplog/header.rs) ---------- *)

(* impl CompactEncoding for Entry: one flag byte, then the sections that are present. For each of the three functions
   separately, the sections in source order; encode: `flags |= bit` next to the section it writes; decode:
   `flags & bit != 0` next to the section it reads and the field the result is stored in. *)
Record flagged_desc := {
  fd_size_lead : N;                          (* `let mut out = 1`: the flag byte *)
  fd_size : list (string * fty);             (* sections added by encoded_size *)
  fd_enc : list (string * N * fty);          (* encode: (field, bit or-ed into the flags, type written) *)
  fd_dec : list (string * N * fty)           (* decode: (field, bit tested, type read) *)
}.

(* a leading byte made of boolean fields (BitfieldUpdate: `drop`) *)
Record flagbyte_desc := {
  fb_size : N;                               (* the constant encoded_size adds for it *)
  fb_enc : list (string * N);                (* encode: the byte is this value when the field is true, 0 otherwise *)
  fb_dec : list (string * N)                 (* decode: field := (flags & mask) is set *)
}.

(* constant leading bytes (Header: version and flags) *)
Record lead_desc := {
  hl_bytes : list N;                         (* encode: write_array(&[..]) *)
  hl_dec_skip : N;                           (* decode: take_array::<n>, values ignored *)
  hl_size : N                                (* the constants encoded_size adds for them *)
}.

(* ReplicaMiscC.v -- property C15 for REPLICA calls: the shared core applied to replication.

   Shared.v proves, for ANY shared state, ANY method bodies (lists of micro-steps run between acquiring and
   releasing one mutex) and EVERY schedule, that a concurrent run equals the atomic execution of the calls in
   completion order.  SharedInst.v composes this with the writer theory (append / clear / get / has / info).
   ReplicaDisk1-5.v prove that a replica (a core created from the public key alone) observes the replica spec
   [rd_ok] along sequential histories of proof applications and reads.  Here the two are composed:

     shared state := core * world (Core.v)
     calls        := apply a proof (any flush decision) / get / has / info   (ReplicaDisk5.rdop without
                     reopen and crash: a shared core is neither reopened nor killed)
     result       := the observation rdobs

   and every concurrent run from a state with RDInv returns, call by call, observations related by the replica
   spec [rd_ok] to the serialization (completion) order -- modulo the crate's 2^30 oplog-frame guard, a hash
   collision, or a signature on a message the writer never signed.  In particular a reader never observes a
   partially applied proof: every get returns None or the writer's block. *)
From HC Require Import Base NMap Codec CodecFacts Crypto FlatTree Storage Bitfield Oplog Merkle Core.
From HC Require Import FlatTreeFacts StorageFacts BitfieldFacts OplogFacts TreeRef OffsetFacts CoreFacts Crash Refine.
From HC Require Import ClearRefine Reopen ContigBridge Unified1 Unified2 CrashCore1 CrashCore2 CrashCore3 CrashClear1.
From HC Require Import Sound NoPanic Replicate SoundCoreLib SoundCore SoundCoreUp SoundCoreBU ReplicaCorA.
From HC Require Import ReplicaDisk1 ReplicaDisk2 ReplicaDisk3 ReplicaDisk4 ReplicaDisk5 ReplicaDisk6 ReplicaDisk7.
From HC Require Shared.
From HC Require Import SharedInst.
From Coq Require Import FMapPositive ZifyN ZifyNat ZifyBool.
Ltac Zify.zify_post_hook ::= Z.div_mod_to_equations.
Arguments N.add : simpl never.
Arguments N.sub : simpl never.
Arguments N.mul : simpl never.
Arguments N.div : simpl never.
Arguments N.modulo : simpl never.
Arguments N.pow : simpl never.
Arguments N.eqb : simpl never.
Arguments N.ltb : simpl never.
Arguments N.leb : simpl never.
Arguments N.max : simpl never.
Arguments N.min : simpl never.
Arguments N.of_nat : simpl never.
Arguments N.to_nat : simpl never.

(* ====================================================================================== *)
(* A. The calls of a shared replica core and their atomic meaning                          *)
(* ====================================================================================== *)

(* ReplicaDisk5.rdop without RReopen and RCrashApply *)
Inductive rcall :=
| QApply (f : option bool) (pf : proof)   (* verify_and_apply_proof; f: the forced flush decision *)
| QGet (i : N)
| QHas (i : N)
| QInfo.

Definition to_rdop (c : rcall) : rdop :=
  match c with
  | QApply f pf => RApply f pf
  | QGet i => RGet i
  | QHas i => RHas i
  | QInfo => RInfo
  end.

(* the proofs covered are those of ReplicaDisk3.apply_keeps_RDInv *)
Definition rcall_ok (c : rcall) : Prop := rdop_ok (to_rdop c).

Definition rstate : Type := (core * world)%type.

(* the Core.v operation behind each call, and what the caller observes *)
Definition rstep (cr : crypto) (c : rcall) (s : rstate) : rstate * rdobs :=
  match c with
  | QApply f pf => let '(c', w', r) := core_apply_proof cr f pf (fst s) (snd s) in ((c', w'), ROApply r)
  | QGet i => let '(c', w', r) := core_get i (fst s) (snd s) in ((c', w'), ROGet r)
  | QHas i => (s, ROHas (core_has (fst s) i))
  | QInfo => (s, ROInfo (core_info (fst s)))
  end.

(* ====================================================================================== *)
(* B. The held set along a serialization                                                   *)
(* ====================================================================================== *)

(* the held set after one call: an ACCEPTED proof adds the index of its block section *)
Definition hold1 (H : N -> bool) (c : rcall) (o : rdobs) : N -> bool :=
  match c, o with
  | QApply _ pf, ROApply (Ok true) => hold H (p_block pf)
  | _, _ => H
  end.

(* ... after a list of calls with their results *)
Fixpoint held_by (H : N -> bool) (cs : list rcall) (rs : list rdobs) : N -> bool :=
  match cs, rs with
  | c :: cs', o :: rs' => held_by (hold1 H c o) cs' rs'
  | _, _ => H
  end.

(* does the call (with its result) add index i to the held set? *)
Definition adds (i : N) (co : rcall * rdobs) : bool :=
  match co with
  | (QApply _ pf, ROApply (Ok true)) => match p_block pf with Some b => i =? db_index b | None => false end
  | _ => false
  end.

(* held_by, index by index: H extended by the blocks of the accepted proofs *)
Lemma held_by_spec cs : forall H rs i, held_by H cs rs i = H i || existsb (adds i) (combine cs rs).
Proof.
  induction cs as [|c cs IH]; intros H rs i; [cbn [held_by combine existsb]; now rewrite orb_false_r|].
  destruct rs as [|o rs]; [cbn [held_by combine existsb]; now rewrite orb_false_r|].
  cbn [held_by combine existsb]. rewrite IH.
  destruct c as [f pf|k|k| ]; cbn [hold1 adds]; try reflexivity.
  destruct o as [[[|]|e|s|]|r|b|x|r|r]; cbn [orb]; try reflexivity.
  unfold hold. destruct (p_block pf) as [b|]; cbn [orb]; [|reflexivity].
  rewrite orb_assoc. f_equal. apply orb_comm.
Qed.

Lemma held_by_mono cs : forall H rs i, H i = true -> held_by H cs rs i = true.
Proof. intros H rs i Hi. rewrite held_by_spec, Hi. reflexivity. Qed.

Lemma held_by_firstn_firstn cs : forall H rs k n, (k <= n)%nat ->
  held_by H (firstn k cs) (firstn k (firstn n rs)) = held_by H (firstn k cs) (firstn k rs).
Proof. intros H rs k n L. rewrite firstn_firstn, Nat.min_l by exact L. reflexivity. Qed.

Lemma combine_map_same {A B C} (f : A -> B) (g : A -> C) (l : list A) :
  combine (map f l) (map g l) = map (fun x => (f x, g x)) l.
Proof. induction l as [|a l IH]; cbn [map combine]; [reflexivity|]. now rewrite IH. Qed.

(* the held set seen by the i-th completed call of a completion log: H extended by the blocks of the proofs
   ACCEPTED (result Ok true) by the calls completed before it *)
Definition held_at (H : N -> bool) (lg : list (nat * rcall * rdobs)) (i : nat) : N -> bool :=
  held_by H (firstn i (Shared.calls lg)) (firstn i (Shared.results lg)).

Lemma held_at_spec H lg i idx :
  held_at H lg i idx =
  H idx || existsb (adds idx) (combine (firstn i (Shared.calls lg)) (firstn i (Shared.results lg))).
Proof. apply held_by_spec. Qed.

(* the result of an application that hit the 2^30 frame guard of the oplog *)
Definition rframe_panic : rdobs := ROApply (Panic Refine.frame_msg).

(* ====================================================================================== *)
(* C. One call, then a sequence of calls, against the replica spec                          *)
(* ====================================================================================== *)

(* The two possible outcomes of a serialization [cs] with results [rs] from a replica holding H.
   rmodel_run: the results are related to the calls by the replica spec rd_ok, the state [s1] reached satisfies
   the replica invariant for the held set H extended by the blocks of the accepted proofs, the key pair is the
   initial one (c0 = the initial core) and the length did not shrink. *)
Definition rmodel_run (cr : crypto) (bs : list bytes) (c0 : core) (s1 : rstate) (cs : list rcall) (rs : list rdobs)
           (H : N -> bool) : Prop :=
  rd_ok bs H (t_length (c_tree c0)) (map to_rdop cs) rs /\
  RDInv cr bs (fst s1) (w_disk (snd s1)) (held_by H cs rs) /\
  c_keypair (fst s1) = c_keypair c0 /\
  t_length (c_tree c0) <= t_length (c_tree (fst s1)).

(* rframe_stop: the k-th call is a proof application that returned Panic frame_msg (the crate's 2^30
   oplog-frame guard, behind the gates: log_and_commit or the flush); the results up to and including it are
   related to the calls by rd_ok (the spec ends such a history there: constructor ok_apply_failed).  NOTHING is
   claimed about later calls: the real task has panicked inside the critical section, and the model state after
   the failed application is not covered by the replica invariant.  Every OTHER unsuccessful application -- refused at a gate (Ok false, or the
   verifier's error), or the byte offset of the carried block not computable -- leaves core and world unchanged
   (ReplicaCorA.apply_replica_outcome), so the run goes on and is covered: constructor ok_apply_refused. *)
Definition rframe_stop (bs : list bytes) (cs : list rcall) (rs : list rdobs) (H : N -> bool) (r : N) : Prop :=
  exists k f pf, nth_error cs k = Some (QApply f pf) /\ nth_error rs k = Some rframe_panic /\
    rd_ok bs H r (map to_rdop cs) (firstn (Datatypes.S k) rs).

(* what the spec prescribes for ONE call in spec state (H = held set, r = length) *)
Definition robs_ok (bs : list bytes) (H : N -> bool) (r : N) (c : rcall) (o : rdobs) : Prop :=
  match c with
  | QApply _ _ => exists res, o = ROApply res
  | QGet i => o = ROGet (Ok (if H i then Some (blk bs i) else None))
  | QHas i => o = ROHas (H i)
  | QInfo => exists cg, o = ROInfo (mkInfo r (prefix_size bs r) cg 0 false) /\ fexact H cg
  end.

(* reading rd_ok index by index (for histories without reopen and crash): the i-th observation is the
   single-call observation for the held set reached by the i calls before it and some length between the
   initial one and the writer's *)
Lemma rd_ok_at bs cs : forall H r rs,
  r <= N.of_nat (length bs) ->
  rd_ok bs H r (map to_rdop cs) rs ->
  forall i c o, nth_error cs i = Some c -> nth_error rs i = Some o ->
  exists ri, r <= ri /\ ri <= N.of_nat (length bs) /\
    robs_ok bs (held_by H (firstn i cs) (firstn i rs)) ri c o.
Proof.
  induction cs as [|a cs IH]; intros H r rs Hr Hok i c o Hc Ho; [destruct i; discriminate Hc|].
  destruct i as [|i].
  - cbn [nth_error] in Hc. injection Hc as ->. cbn [firstn held_by]. exists r.
    split; [lia|]. split; [exact Hr|].
    destruct c as [f pf|k|k| ]; cbn [map to_rdop] in Hok; inversion Hok; subst;
      cbn [nth_error] in Ho; injection Ho as <-; cbn [robs_ok].
    + eexists; reflexivity.
    + eexists; reflexivity.
    + eexists; reflexivity.
    + reflexivity.
    + reflexivity.
    + eexists. split; [reflexivity|]. split; assumption.
  - cbn [nth_error] in Hc. cbn [firstn].
    destruct a as [f pf|k|k| ]; cbn [map to_rdop] in Hok; inversion Hok; subst;
      cbn [nth_error] in Ho; cbn [firstn held_by hold1].
    + (* accepted *)
      match goal with X : rd_ok _ (hold H (p_block pf)) ?r' _ _ |- _ =>
        destruct (IH _ r' _ ltac:(assumption) X i c o Hc Ho) as (ri & A & B & C) end.
      exists ri. split; [lia|]. split; [exact B|exact C].
    + (* refused *)
      match goal with X : rd_ok _ H r _ _ |- _ =>
        destruct (IH _ r _ Hr X i c o Hc Ho) as (ri & A & B & C) end.
      exists ri. split; [exact A|]. split; [exact B|].
      destruct res as [[|]|e|s|]; try exact C. exfalso. auto.
    + destruct i; discriminate Ho.
    + match goal with X : rd_ok _ H r _ _ |- _ =>
        destruct (IH _ r _ Hr X i c o Hc Ho) as (ri & A & B & C) end.
      exists ri. split; [exact A|]. split; [exact B|exact C].
    + match goal with X : rd_ok _ H r _ _ |- _ =>
        destruct (IH _ r _ Hr X i c o Hc Ho) as (ri & A & B & C) end.
      exists ri. split; [exact A|]. split; [exact B|exact C].
    + match goal with X : rd_ok _ H r _ _ |- _ =>
        destruct (IH _ r _ Hr X i c o Hc Ho) as (ri & A & B & C) end.
      exists ri. split; [exact A|]. split; [exact B|exact C].
Qed.

Section Seq.
  Variable cr : crypto.
  Variable bs : list bytes.               (* the writer's blocks *)
  Hypothesis Hcrc : crc_ok cr.
  Hypothesis Hhash32 : forall x, length (cr_hash cr x) = 32%nat.
  Hypothesis Hnonblank : forall x, all_zero (cr_hash cr x) = false.
  Hypothesis Hhashbytes : forall x, bytes_ok (cr_hash cr x) = true.
  Hypothesis Hw : writer_fits bs.

  (* one call on a state satisfying the replica invariant: the application hits the 2^30 frame guard, or the
     invariant holds afterwards for the held set the spec prescribes, the key pair is unchanged, the length did
     not shrink, and the observation extends every spec-conforming continuation to a spec-conforming history *)
  Lemma rstep_RDInv call c d j ev H s' o :
    RDInv cr bs c d H -> rcall_ok call ->
    rstep cr call (c, mkWorld d j ev) = (s', o) ->
    (o = rframe_panic /\ exists f pf, call = QApply f pf) \/
    (RDInv cr bs (fst s') (w_disk (snd s')) (hold1 H call o) /\
     c_keypair (fst s') = c_keypair c /\
     t_length (c_tree c) <= t_length (c_tree (fst s')) /\
     forall rest obs, rd_ok bs (hold1 H call o) (t_length (c_tree (fst s'))) rest obs ->
                      rd_ok bs H (t_length (c_tree c)) (to_rdop call :: rest) (o :: obs)) \/
    some_collision cr \/ forged_signature cr bs (kp_public (c_keypair c)).
  Proof.
    intros X Hop E.
    destruct call as [f pf|i|i| ]; cbn [rstep fst snd to_rdop rcall_ok rdop_ok] in *.
    - (* apply *)
      destruct (core_apply_proof cr f pf c (mkWorld d j ev)) as [[c' w'] res] eqn:Happ.
      injection E as <- <-. cbn [fst snd].
      assert (Hacc : res = Ok true \/ res <> Ok true).
      { destruct res as [[|]|e|s|]; [left; reflexivity|right; discriminate..]. }
      destruct Hacc as [->|Hne].
      + destruct (apply_keeps_RDInv cr Hcrc Hhash32 Hnonblank Hhashbytes bs Hw f pf c d j ev H c' w' X Hop Happ)
          as [(X' & K' & Hle & Hno & _)|[C|F]]; [|right; right; left; exact C|right; right; right; exact F].
        right. left. cbn [hold1]. split; [exact X'|]. split; [exact K'|]. split; [exact Hle|].
        intros rest obs Hr.
        apply (ok_apply_accepted bs H _ f pf (t_length (c_tree c'))); try assumption.
        apply (RD_info cr bs c' (w_disk w') _ X').
      + destruct (apply_replica_outcome cr Hhash32 Hnonblank bs Hw f pf c (mkWorld d j ev) c' w' res
                    (RDInv_RInv cr bs c d H X) (proj1 Hop) Happ)
          as [[-> _]|[(-> & -> & _)|[->|[C|F]]]];
          [exfalso; apply Hne; reflexivity| |left|right; right; left; exact C|right; right; right; exact F].
        * right. left. cbn [w_disk].
          assert (Eh : hold1 H (QApply f pf) (ROApply res) = H).
          { cbn [hold1]. destruct res as [[|]|e|s|]; try reflexivity. exfalso. apply Hne. reflexivity. }
          rewrite Eh. split; [exact X|]. split; [reflexivity|]. split; [lia|].
          intros rest obs Hr. apply ok_apply_refused; assumption.
        * split; [reflexivity|]. exists f, pf. reflexivity.
    - (* get *)
      rewrite (RD_get cr bs Hw c d H j ev i X) in E. right. left. cbn [hold1].
      destruct (H i) eqn:Hi; injection E as <- <-; cbn [fst snd w_disk];
        (split; [exact X|]); (split; [reflexivity|]); (split; [lia|]);
        intros rest obs Hr; pose proof (ok_get bs H _ i rest obs Hr) as G; rewrite Hi in G; exact G.
    - (* has *)
      injection E as <- <-. right. left. cbn [hold1 fst snd w_disk].
      split; [exact X|]. split; [reflexivity|]. split; [lia|].
      intros rest obs Hr. rewrite (RD_has cr bs c d H i X). apply ok_has, Hr.
    - (* info *)
      injection E as <- <-. right. left. cbn [hold1 fst snd w_disk].
      split; [exact X|]. split; [reflexivity|]. split; [lia|].
      intros rest obs Hr. destruct (RD_info cr bs c d H X) as (I & _ & [E1 E2]). rewrite I.
      apply ok_info; assumption.
  Qed.

  (* ---------- any method bodies whose atomic meaning is the Core.v operation ---------- *)
  Variable L : Type.
  Variable l0 : rcall -> L.
  Variable body : rcall -> list (rstate * L -> rstate * L).
  Variable res : rcall -> L -> rdobs.
  Hypothesis Hatomic : forall c s, Shared.atomic l0 body res c s = rstep cr c s.

  (* a sequence of atomic calls: the observations conform to the replica spec and the final state satisfies the
     invariant for the spec's final held set; or some application hit the frame guard and the observations up to
     it conform to the spec; or a collision / a signature the writer never made is exhibited *)
  Theorem rseq_replica cs : forall c d j ev H s' rs,
    RDInv cr bs c d H -> Forall rcall_ok cs ->
    Shared.seq_run l0 body res (c, mkWorld d j ev) cs = (s', rs) ->
    rmodel_run cr bs c s' cs rs H \/ rframe_stop bs cs rs H (t_length (c_tree c)) \/
    some_collision cr \/ forged_signature cr bs (kp_public (c_keypair c)).
  Proof.
    unfold rmodel_run, rframe_stop.
    induction cs as [|a cs IH]; intros c d j ev H s' rs X Hops E.
    - cbn [Shared.seq_run] in E. injection E as <- <-. left. cbn [map held_by fst snd w_disk].
      split; [constructor|]. split; [exact X|]. split; [reflexivity|lia].
    - inversion Hops as [|? ? Hop Hops']; subst.
      cbn [Shared.seq_run] in E. rewrite Hatomic in E.
      destruct (rstep cr a (c, mkWorld d j ev)) as [s1 o] eqn:E1.
      destruct (Shared.seq_run l0 body res s1 cs) as [s2 rs'] eqn:E2.
      injection E as <- <-.
      destruct (rstep_RDInv a c d j ev H s1 o X Hop E1)
        as [(-> & f & pf & ->)|[(X1 & K1 & L1 & Hext)|[C|F]]];
        [|clear E1|right; right; left; exact C|right; right; right; exact F].
      + right. left. exists 0%nat, f, pf. cbn [nth_error firstn map to_rdop].
        split; [reflexivity|]. split; [reflexivity|]. apply ok_apply_failed. intros b. discriminate.
      + destruct s1 as [c1 [d1 j1 ev1]]. cbn [fst snd w_disk] in X1, K1, L1, Hext.
        destruct (IH c1 d1 j1 ev1 _ s2 rs' X1 Hops' E2)
          as [(Hr & X2 & K2 & L2)|[(k & f & pf & Hk & Hp & Hr)|[C|F]]];
          [left|right; left|right; right; left; exact C|right; right; right; rewrite <- K1; exact F].
        * cbn [map held_by]. split; [apply Hext, Hr|]. split; [exact X2|]. split; [congruence|lia].
        * exists (Datatypes.S k), f, pf. cbn [nth_error map].
          split; [exact Hk|]. split; [exact Hp|].
          change (firstn (Datatypes.S (Datatypes.S k)) (o :: rs')) with (o :: firstn (Datatypes.S k) rs').
          apply Hext, Hr.
  Qed.
  (* the link to the executable sequential run ReplicaDisk5.rd_run (no invariant needed): rd_run of the
     serialization is the list of results itself, or -- rd_run ends a history at the first application that
     did not return Ok true although it passed the three gates -- the results up to and including that one *)
  Lemma rseq_rd_run cs : forall s s' rs,
    Shared.seq_run l0 body res s cs = (s', rs) ->
    rd_run cr (map to_rdop cs) (fst s) (snd s) = rs \/
    exists k f pf r, nth_error cs k = Some (QApply f pf) /\ nth_error rs k = Some (ROApply r) /\
      r <> Ok true /\ rd_run cr (map to_rdop cs) (fst s) (snd s) = firstn (Datatypes.S k) rs.
  Proof.
    induction cs as [|a cs IH]; intros [c w] s' rs E.
    - cbn [Shared.seq_run] in E. injection E as <- <-. left. reflexivity.
    - cbn [Shared.seq_run] in E. rewrite Hatomic in E.
      destruct (rstep cr a (c, w)) as [s1 o] eqn:E1.
      destruct (Shared.seq_run l0 body res s1 cs) as [s2 rs'] eqn:E2.
      injection E as <- <-.
      assert (Hgo : rd_run cr (map to_rdop (a :: cs)) c w = o :: rd_run cr (map to_rdop cs) (fst s1) (snd s1) ->
                    rd_run cr (map to_rdop (a :: cs)) c w = o :: rs' \/
                    exists k f pf r, nth_error (a :: cs) k = Some (QApply f pf) /\
                      nth_error (o :: rs') k = Some (ROApply r) /\ r <> Ok true /\
                      rd_run cr (map to_rdop (a :: cs)) c w = firstn (Datatypes.S k) (o :: rs')).
      { intros Hcons. destruct (IH s1 s2 rs' E2) as [Eq|(k & f & pf & r & Hk & Hr & Hne & Eq)].
        - left. rewrite Hcons, Eq. reflexivity.
        - right. exists (Datatypes.S k), f, pf, r. cbn [nth_error].
          split; [exact Hk|]. split; [exact Hr|]. split; [exact Hne|].
          rewrite Hcons, Eq. reflexivity. }
      cbn [fst snd].
      destruct a as [f pf|i|i| ]; cbn [rstep map to_rdop fst snd] in E1.
      + destruct (core_apply_proof cr f pf c w) as [[c' w'] r] eqn:Happ. injection E1 as <- <-.
        destruct (gates_pass cr c w pf) eqn:G.
        * assert (Hacc : r = Ok true \/ r <> Ok true).
          { destruct r as [[|]|e|m|]; [left; reflexivity|right; discriminate..]. }
          destruct Hacc as [->|Hne].
          -- apply Hgo. cbn [map to_rdop rd_run fst snd]. rewrite Happ, G. reflexivity.
          -- right. exists 0%nat, f, pf, r. cbn [nth_error firstn].
             split; [reflexivity|]. split; [reflexivity|]. split; [exact Hne|].
             cbn [map to_rdop rd_run]. rewrite Happ, G.
             destruct r as [[|]|e|m|]; try reflexivity. exfalso. apply Hne. reflexivity.
        * apply Hgo. cbn [map to_rdop rd_run fst snd]. rewrite Happ, G. reflexivity.
      + destruct (core_get i c w) as [[c' w'] r] eqn:Hg. injection E1 as <- <-.
        apply Hgo. cbn [map to_rdop rd_run fst snd]. rewrite Hg. reflexivity.
      + injection E1 as <- <-. apply Hgo. reflexivity.
      + injection E1 as <- <-. apply Hgo. reflexivity.
  Qed.

  (* ====================================================================================== *)
  (* D. Every concurrent run of a shared replica core                                        *)
  (* ====================================================================================== *)

  (* what the lock discipline gives (Shared.v), specialised: the completed calls, in completion order, ran
     atomically from the initial state; s1 = the state the last completed call left (= the shared state
     whenever the lock is free) *)
  Lemma rshared_log_serial progs cfg s0 :
    Shared.steps l0 body res (Shared.init s0 progs) cfg ->
    exists s1, Shared.seq_run l0 body res s0 (Shared.calls (Shared.log cfg)) = (s1, Shared.results (Shared.log cfg)) /\
               (Shared.holder cfg = None -> s1 = Shared.shared cfg).
  Proof.
    intros Hst. destruct (Shared.log_serial _ _ _ _ _ _ _ _ _ _ Hst) as [s1 H1].
    exists s1. split; [exact H1|]. intros Hh.
    pose proof (Shared.serializable _ _ _ _ _ _ _ _ _ _ Hst Hh) as H2.
    rewrite H1 in H2. injection H2 as ->. reflexivity.
  Qed.

  (* every concurrent run against the executable sequential run: rd_run of the completion order, started in the
     initial state, yields the results the tasks received -- all of them, or those up to the first application
     that passed the gates without returning Ok true, where rd_run ends (no invariant needed) *)
  Theorem rshared_rd_run progs cfg s0 :
    Shared.steps l0 body res (Shared.init s0 progs) cfg ->
    let cs := Shared.calls (Shared.log cfg) in
    let rs := Shared.results (Shared.log cfg) in
    rd_run cr (map to_rdop cs) (fst s0) (snd s0) = rs \/
    exists k f pf r, nth_error cs k = Some (QApply f pf) /\ nth_error rs k = Some (ROApply r) /\
      r <> Ok true /\ rd_run cr (map to_rdop cs) (fst s0) (snd s0) = firstn (Datatypes.S k) rs.
  Proof.
    intros Hst cs rs. destruct (rshared_log_serial _ _ _ Hst) as (s1 & Hrun & _).
    exact (rseq_rd_run cs s0 s1 rs Hrun).
  Qed.

  (* Hypothesis about the serialization order itself (the weakest one): the proofs applied by the completed
     calls are of the covered shape. *)
  Theorem rshared_replica_log progs cfg c d j ev H :
    RDInv cr bs c d H ->
    Shared.steps l0 body res (Shared.init (c, mkWorld d j ev) progs) cfg ->
    let cs := Shared.calls (Shared.log cfg) in
    let rs := Shared.results (Shared.log cfg) in
    Forall rcall_ok cs ->
    exists s1, (Shared.holder cfg = None -> s1 = Shared.shared cfg) /\
      (rmodel_run cr bs c s1 cs rs H \/ rframe_stop bs cs rs H (t_length (c_tree c)) \/
       some_collision cr \/ forged_signature cr bs (kp_public (c_keypair c))).
  Proof.
    intros X Hst cs rs Hops.
    destruct (rshared_log_serial _ _ _ Hst) as (s1 & Hrun & Hfree).
    exists s1. split; [exact Hfree|].
    exact (rseq_replica cs c d j ev H s1 _ X Hops Hrun).
  Qed.

  (* Schedule-independent hypothesis: every proof applied by some program is of the covered shape.  It implies
     the hypothesis on every serialization order. *)
  Lemma rprogs_ok_log progs cfg s0 :
    Shared.steps l0 body res (Shared.init s0 progs) cfg ->
    Forall (Forall rcall_ok) progs ->
    Forall rcall_ok (Shared.calls (Shared.log cfg)).
  Proof.
    intros Hst Hall. apply Forall_forall. intros c0 Hin.
    apply In_nth_error in Hin. destruct Hin as [k Hk].
    unfold Shared.calls in Hk. rewrite nth_error_map in Hk.
    destruct (nth_error (Shared.log cfg) k) as [[[t c1] r]|] eqn:E; cbn [option_map] in Hk; [|discriminate].
    injection Hk as Hc. unfold Shared.call_of in Hc. cbn [fst snd] in Hc. subst c1.
    destruct (log_entry_prefix _ _ _ _ _ _ _ _ _ _ Hst k t c0 r E) as [tl Ht].
    assert (Hin : In (nth t progs []) progs).
    { destruct (Nat.lt_ge_cases t (length progs)) as [Hlt|Hge]; [apply nth_In; exact Hlt|].
      rewrite nth_overflow in Ht by exact Hge. destruct (task_calls t (firstn k (Shared.log cfg))); discriminate. }
    pose proof (proj1 (Forall_forall _ _) Hall _ Hin) as Hp.
    apply (proj1 (Forall_forall _ _) Hp). rewrite Ht. apply in_or_app. right. left. reflexivity.
  Qed.

  (* MAIN THEOREM.  Any number of tasks, any programs over {apply, get, has, info}, EVERY schedule, any reachable
     configuration (also one in which a call is in progress): the results of the completed calls are related by
     the replica spec rd_ok to the completion order, and the state left by the last completed call -- the shared
     state itself whenever the lock is free -- satisfies the replica invariant for H extended by the blocks of
     the accepted proofs; or an application hit the frame guard (the spec holds up to it); or a hash collision /
     a signature on a message the writer never signed is exhibited. *)
  Theorem rshared_replica progs cfg c d j ev H :
    RDInv cr bs c d H ->
    Forall (Forall rcall_ok) progs ->
    Shared.steps l0 body res (Shared.init (c, mkWorld d j ev) progs) cfg ->
    let cs := Shared.calls (Shared.log cfg) in
    let rs := Shared.results (Shared.log cfg) in
    exists s1, (Shared.holder cfg = None -> s1 = Shared.shared cfg) /\
      (rmodel_run cr bs c s1 cs rs H \/ rframe_stop bs cs rs H (t_length (c_tree c)) \/
       some_collision cr \/ forged_signature cr bs (kp_public (c_keypair c))).
  Proof.
    intros X Hall Hst cs rs.
    exact (rshared_replica_log progs cfg c d j ev H X Hst (rprogs_ok_log progs cfg _ Hst Hall)).
  Qed.

  (* all tasks have finished: every call of every program has completed exactly once, each task's completed
     calls are its program in program order, each task's outputs are its entries of the log, the lock is free
     and the shared state is the one described by the theorem above *)
  Theorem rshared_replica_finished progs cfg c d j ev H :
    RDInv cr bs c d H ->
    Forall (Forall rcall_ok) progs ->
    Shared.steps l0 body res (Shared.init (c, mkWorld d j ev) progs) cfg ->
    (forall tk, In tk (Shared.tasks cfg) -> Shared.st tk = Shared.Idle /\ Shared.prog tk = []) ->
    let cs := Shared.calls (Shared.log cfg) in
    let rs := Shared.results (Shared.log cfg) in
    length (Shared.log cfg) = list_sum (map (@length rcall) progs) /\
    (forall t, task_calls t (Shared.log cfg) = nth t progs []) /\
    (forall t tk, nth_error (Shared.tasks cfg) t = Some tk ->
       Shared.out tk = map snd (filter (fun e => Nat.eqb (fst (fst e)) t) (Shared.log cfg))) /\
    Shared.holder cfg = None /\
    (rmodel_run cr bs c (Shared.shared cfg) cs rs H \/ rframe_stop bs cs rs H (t_length (c_tree c)) \/
     some_collision cr \/ forged_signature cr bs (kp_public (c_keypair c))).
  Proof.
    intros X Hall Hst Hdone cs rs.
    destruct (Shared.finished_all_serial _ _ _ _ _ _ _ _ _ _ Hst Hdone) as (F1 & F2 & F3 & _).
    split; [exact F1|]. split; [exact F2|].
    split; [exact (Shared.results_match_log _ _ _ _ _ _ _ _ _ _ Hst)|]. split; [exact F3|].
    destruct (rshared_replica progs cfg c d j ev H X Hall Hst) as (s1 & Hs1 & Hout).
    rewrite (Hs1 F3) in Hout. exact Hout.
  Qed.

  (* ====================================================================================== *)
  (* E. What each call of a concurrent run returns: no partially applied proof is observed    *)
  (* ====================================================================================== *)
  Section Run.
    Variables (progs : list (list rcall)) (cfg : Shared.config rstate L rdobs rcall).
    Variables (c : core) (d : disk) (j : list sop) (ev : list event) (H : N -> bool).
    Hypothesis HX : RDInv cr bs c d H.
    Hypothesis Hall : Forall (Forall rcall_ok) progs.
    Hypothesis Hst : Shared.steps l0 body res (Shared.init (c, mkWorld d j ev) progs) cfg.

    (* the i-th completed call returns what the replica spec prescribes for the held set reached by the i calls
       completed before it and some length between the initial one and the writer's (unless an earlier call
       hit the frame guard) *)
    Theorem rshared_obs_at i t call o :
      nth_error (Shared.log cfg) i = Some (t, call, o) ->
      (forall k, (k < i)%nat -> nth_error (Shared.results (Shared.log cfg)) k <> Some rframe_panic) ->
      (exists ri, t_length (c_tree c) <= ri /\ ri <= N.of_nat (length bs) /\ robs_ok bs (held_at H (Shared.log cfg) i) ri call o) \/
      some_collision cr \/ forged_signature cr bs (kp_public (c_keypair c)).
    Proof.
      intros Hi Hno.
      destruct (rshared_replica progs cfg c d j ev H HX Hall Hst) as (s1 & _ & Hout).
      assert (Hc : nth_error (Shared.calls (Shared.log cfg)) i = Some call).
      { unfold Shared.calls. rewrite (map_nth_error _ _ _ Hi). reflexivity. }
      assert (Hr : nth_error (Shared.results (Shared.log cfg)) i = Some o).
      { unfold Shared.results. rewrite (map_nth_error _ _ _ Hi). reflexivity. }
      pose proof (proj1 (proj2 (RD_info cr bs c d H HX))) as Hlen.
      destruct Hout as [(Hok & _)|[(k & f & pf & Hk & Hp & Hok)|[C|F]]];
        [left|left|right; left; exact C|right; right; exact F].
      - exact (rd_ok_at bs _ H _ _ Hlen Hok i call o Hc Hr).
      - destruct (Nat.lt_ge_cases k i) as [Hlt|Hge]; [exfalso; exact (Hno k Hlt Hp)|].
        assert (Hr' : nth_error (firstn (Datatypes.S k) (Shared.results (Shared.log cfg))) i = Some o)
          by (rewrite nth_error_firstn_lt by lia; exact Hr).
        destruct (rd_ok_at bs _ H _ _ Hlen Hok i call o Hc Hr') as (ri & A & B & C).
        exists ri. split; [exact A|]. split; [exact B|].
        rewrite held_by_firstn_firstn in C by lia. exact C.
    Qed.

    (* (a) reads: the i-th completed call, if it is get idx, returns the WRITER's block idx if idx is held at
       this point of the serialization, None otherwise *)
    Theorem rshared_get_outcome i t idx o :
      nth_error (Shared.log cfg) i = Some (t, QGet idx, o) ->
      (forall k, (k < i)%nat -> nth_error (Shared.results (Shared.log cfg)) k <> Some rframe_panic) ->
      o = ROGet (Ok (if held_at H (Shared.log cfg) i idx then Some (blk bs idx) else None)) \/
      some_collision cr \/ forged_signature cr bs (kp_public (c_keypair c)).
    Proof.
      intros Hi Hno.
      destruct (rshared_obs_at i t _ o Hi Hno) as [(ri & _ & _ & Ho)|R]; [left; exact Ho|right; exact R].
    Qed.

    (* (a') in particular no reader ever observes a partially applied proof: a get returns nothing or the
       writer's block -- never other bytes, never an error *)
    Theorem rshared_no_partial_read i t idx o :
      nth_error (Shared.log cfg) i = Some (t, QGet idx, o) ->
      (forall k, (k < i)%nat -> nth_error (Shared.results (Shared.log cfg)) k <> Some rframe_panic) ->
      o = ROGet (Ok None) \/ o = ROGet (Ok (Some (blk bs idx))) \/
      some_collision cr \/ forged_signature cr bs (kp_public (c_keypair c)).
    Proof.
      intros Hi Hno.
      destruct (rshared_get_outcome i t idx o Hi Hno) as [->|R]; [|right; right; exact R].
      destruct (held_at H (Shared.log cfg) i idx); [right; left; reflexivity|left; reflexivity].
    Qed.

    (* (b) has follows the same held set *)
    Theorem rshared_has_outcome i t idx o :
      nth_error (Shared.log cfg) i = Some (t, QHas idx, o) ->
      (forall k, (k < i)%nat -> nth_error (Shared.results (Shared.log cfg)) k <> Some rframe_panic) ->
      o = ROHas (held_at H (Shared.log cfg) i idx) \/
      some_collision cr \/ forged_signature cr bs (kp_public (c_keypair c)).
    Proof.
      intros Hi Hno.
      destruct (rshared_obs_at i t _ o Hi Hno) as [(ri & _ & _ & Ho)|R]; [left; exact Ho|right; exact R].
    Qed.

    (* (c) info: a length between the initial one and the writer's, the byte length of that prefix of the
       writer's log, and the contiguous length = the smallest index not in the same held set *)
    Theorem rshared_info_outcome i t o :
      nth_error (Shared.log cfg) i = Some (t, QInfo, o) ->
      (forall k, (k < i)%nat -> nth_error (Shared.results (Shared.log cfg)) k <> Some rframe_panic) ->
      (exists ri cg, t_length (c_tree c) <= ri /\ ri <= N.of_nat (length bs) /\
         o = ROInfo (mkInfo ri (prefix_size bs ri) cg 0 false) /\
         (forall x, x < cg -> held_at H (Shared.log cfg) i x = true) /\ held_at H (Shared.log cfg) i cg = false) \/
      some_collision cr \/ forged_signature cr bs (kp_public (c_keypair c)).
    Proof.
      intros Hi Hno.
      destruct (rshared_obs_at i t _ o Hi Hno) as [(ri & A & B & cg & Ho & E1 & E2)|R]; [left|right; exact R].
      exists ri, cg. repeat split; assumption.
    Qed.

    (* (d) afterwards: when the lock is free and no call hit the frame guard, the block of every ACCEPTED proof
       is in the shared core: has says true and get returns the writer's block *)
    Theorem rshared_block_readable i t f pf b :
      Shared.holder cfg = None ->
      ~ In rframe_panic (Shared.results (Shared.log cfg)) ->
      nth_error (Shared.log cfg) i = Some (t, QApply f pf, ROApply (Ok true)) ->
      p_block pf = Some b ->
      let cF := fst (Shared.shared cfg) in
      let dF := w_disk (snd (Shared.shared cfg)) in
      (core_has cF (db_index b) = true /\
       forall j' ev', core_get (db_index b) cF (mkWorld dF j' ev') =
                      (cF, mkWorld dF j' ev', Ok (Some (blk bs (db_index b))))) \/
      some_collision cr \/ forged_signature cr bs (kp_public (c_keypair c)).
    Proof.
      intros Hfree Hnp Hi Hb cF dF.
      destruct (rshared_replica progs cfg c d j ev H HX Hall Hst) as (s1 & Hs1 & Hout).
      rewrite (Hs1 Hfree) in Hout.
      destruct Hout as [(_ & XF & _)|[(k & f0 & pf0 & _ & Hp & _)|[C|F]]];
        [left|exfalso; apply Hnp; exact (nth_error_In _ _ Hp)|right; left; exact C|right; right; exact F].
      fold cF dF in XF.
      assert (Hh : held_by H (Shared.calls (Shared.log cfg)) (Shared.results (Shared.log cfg)) (db_index b) = true).
      { rewrite held_by_spec. apply orb_true_iff. right. apply existsb_exists.
        exists (QApply f pf, ROApply (Ok true)). split.
        - unfold Shared.calls, Shared.results. rewrite combine_map_same.
          apply in_map_iff. exists (t, QApply f pf, ROApply (Ok true)).
          split; [reflexivity|]. apply (nth_error_In _ _ Hi).
        - cbn [adds]. rewrite Hb. apply N.eqb_refl. }
      split.
      - rewrite (RD_has cr bs cF dF _ _ XF). exact Hh.
      - intros j' ev'. rewrite (RD_get cr bs Hw cF dF _ j' ev' _ XF), Hh. reflexivity.
    Qed.
  End Run.

  (* the same with the ghost clock of Shared.v: the serialization order used above respects real time -- a call
     that finished before another one started precedes it in the completion log *)
  Theorem rshared_replica_realtime progs cfg k c d j ev H :
    RDInv cr bs c d H ->
    Forall (Forall rcall_ok) progs ->
    Shared.stepsT l0 body res (Shared.initT (c, mkWorld d j ev) progs) (cfg, k) ->
    let cs := Shared.calls (Shared.log cfg) in
    let rs := Shared.results (Shared.log cfg) in
    map fst (Shared.tlog k) = Shared.log cfg /\
    (forall i1 i2 a b, nth_error (Shared.tlog k) i1 = Some a -> nth_error (Shared.tlog k) i2 = Some b ->
       (Shared.fin a < Shared.sta b)%nat -> (i1 < i2)%nat) /\
    exists s1, (Shared.holder cfg = None -> s1 = Shared.shared cfg) /\
      (rmodel_run cr bs c s1 cs rs H \/ rframe_stop bs cs rs H (t_length (c_tree c)) \/
       some_collision cr \/ forged_signature cr bs (kp_public (c_keypair c))).
  Proof.
    intros X Hall HstT cs rs.
    destruct (Shared.realtime_respected _ _ _ _ _ _ _ _ _ _ _ HstT) as [R1 R2].
    split; [exact R1|]. split; [exact R2|].
    exact (rshared_replica progs cfg c d j ev H X Hall
             (Shared.timed_reachable_erase _ _ _ _ _ _ _ _ _ _ _ HstT)).
  Qed.
End Seq.

(* ====================================================================================== *)
(* F. Instance 1: one micro-step per call                                                  *)
(* ====================================================================================== *)

(* the local state of a method body is the observation to return; the placeholder it starts with is
   overwritten by the single micro-step, which runs the whole Core.v operation under the lock *)
Definition rone_l0 (c : rcall) : rdobs := ROHas false.
Definition rone_body (cr : crypto) (c : rcall) : list (rstate * rdobs -> rstate * rdobs) :=
  [fun x => rstep cr c (fst x)].
Definition rone_res (c : rcall) (l : rdobs) : rdobs := l.

Lemma rone_atomic cr c s : Shared.atomic rone_l0 (rone_body cr) rone_res c s = rstep cr c s.
Proof.
  unfold Shared.atomic, rone_body, rone_res. cbn [fold_left fst]. destruct (rstep cr c s) as [s' o]. reflexivity.
Qed.

(* ====================================================================================== *)
(* G. Instance 2: a proof application split at its storage operations                      *)
(* ====================================================================================== *)

(* An application is six micro-steps, between any two of which the scheduler may run other tasks:
     1 gates     fork test, verifier, commitability                    (no write)
     2 block     compute the byte offset, write the block to the data store
     3 log       append the oplog entry, update bitfield and header, commit the tree
     4 flush     the flush cadence (bitfield pages, tree nodes, oplog header)
     5 events    send Upgrade and Have
     6 finish    the result Ok true
   The local state carries the verified changeset (and the bitfield update) between the steps; a step that
   fails or refuses ends the call with that result and the remaining steps do nothing.  The reads stay one
   micro-step. *)
Inductive rlocal :=
| RLStart
| RLGate (cs : changeset)
| RLPend (cs : changeset) (bu : option bf_update)
| RLDone (o : rdobs).

Definition ra_gates (cr : crypto) (pf : proof) (x : rstate * rlocal) : rstate * rlocal :=
  let c := fst (fst x) in
  let w := snd (fst x) in
  match snd x with
  | RLStart =>
      if negb (p_fork pf =? t_fork (c_tree c)) then (fst x, RLDone (ROApply (Ok false)))
      else match verify_proof cr (c_tree c) (d_tree (w_disk w)) pf (kp_public (c_keypair c)) with
           | Ok cs => if negb (commitable (c_tree c) cs) then (fst x, RLDone (ROApply (Ok false)))
                      else (fst x, RLGate cs)
           | Err e => (fst x, RLDone (ROApply (Err e)))
           | Panic s => (fst x, RLDone (ROApply (Panic s)))
           | OutOfFuel => (fst x, RLDone (ROApply OutOfFuel))
           end
  | _ => x
  end.

(* the block section of the proof: offset from the tree and the tree store as they are now (the gates step
   wrote nothing), then the data write *)
Definition ra_block_m (pf : proof) (cs : changeset) : M (option bf_update) :=
  c <-- get_core ;;;
  d <-- get_disk ;;;
  match p_block pf with
  | Some b =>
      off <-- lift (byte_offset_in_changeset (c_tree c) (d_tree d) (db_index b) cs) ;;;
      emit [SW Data off (db_value b)] ;;;
      ret (Some (mkBfUpdate false (db_index b) 1))
  | None => ret None
  end.

Definition ra_block (pf : proof) (x : rstate * rlocal) : rstate * rlocal :=
  match snd x with
  | RLGate cs =>
      match ra_block_m pf cs (fst (fst x)) (snd (fst x)) with
      | (c', w', Ok bu) => ((c', w'), RLPend cs bu)
      | (c', w', Err e) => ((c', w'), RLDone (ROApply (Err e)))
      | (c', w', Panic s) => ((c', w'), RLDone (ROApply (Panic s)))
      | (c', w', OutOfFuel) => ((c', w'), RLDone (ROApply OutOfFuel))
      end
  | _ => x
  end.

Definition rstage (m : changeset -> option bf_update -> M unit) (x : rstate * rlocal) : rstate * rlocal :=
  match snd x with
  | RLPend cs bu =>
      match m cs bu (fst (fst x)) (snd (fst x)) with
      | (c', w', Ok _) => ((c', w'), RLPend cs bu)
      | (c', w', Err e) => ((c', w'), RLDone (ROApply (Err e)))
      | (c', w', Panic s) => ((c', w'), RLDone (ROApply (Panic s)))
      | (c', w', OutOfFuel) => ((c', w'), RLDone (ROApply OutOfFuel))
      end
  | _ => x
  end.

Definition ra_finish (x : rstate * rlocal) : rstate * rlocal :=
  match snd x with
  | RLPend _ _ => (fst x, RLDone (ROApply (Ok true)))
  | _ => x
  end.

Definition rsplit_l0 (c : rcall) : rlocal := RLStart.
Definition rsplit_body (cr : crypto) (c : rcall) : list (rstate * rlocal -> rstate * rlocal) :=
  match c with
  | QApply f pf =>
      [ ra_gates cr pf;
        ra_block pf;
        rstage (fun cs bu => log_and_commit cr cs bu);
        rstage (fun _ _ => maybe_flush cr f);
        rstage (fun _ bu =>
                  (match p_upgrade pf with Some _ => send EvUpgrade | None => ret tt end) ;;;
                  (match bu with Some u => send (EvHave (bu_start u) (bu_length u) false) | None => ret tt end));
        ra_finish ]
  | _ => [fun x => (fst (rstep cr c (fst x)), RLDone (snd (rstep cr c (fst x))))]
  end.
Definition rsplit_res (c : rcall) (l : rlocal) : rdobs :=
  match l with RLDone o => o | _ => ROHas false end.

Lemma ra_block_gate pf c w cs :
  ra_block pf ((c, w), RLGate cs) =
  match ra_block_m pf cs c w with
  | (c', w', Ok bu) => ((c', w'), RLPend cs bu)
  | (c', w', Err e) => ((c', w'), RLDone (ROApply (Err e)))
  | (c', w', Panic s) => ((c', w'), RLDone (ROApply (Panic s)))
  | (c', w', OutOfFuel) => ((c', w'), RLDone (ROApply OutOfFuel))
  end.
Proof. reflexivity. Qed.

Lemma ra_block_done pf s o : ra_block pf (s, RLDone o) = (s, RLDone o).
Proof. reflexivity. Qed.

Lemma rstage_pend m c w cs bu :
  rstage m ((c, w), RLPend cs bu) =
  match m cs bu c w with
  | (c', w', Ok _) => ((c', w'), RLPend cs bu)
  | (c', w', Err e) => ((c', w'), RLDone (ROApply (Err e)))
  | (c', w', Panic s) => ((c', w'), RLDone (ROApply (Panic s)))
  | (c', w', OutOfFuel) => ((c', w'), RLDone (ROApply OutOfFuel))
  end.
Proof. reflexivity. Qed.

Lemma rstage_done m s o : rstage m (s, RLDone o) = (s, RLDone o).
Proof. reflexivity. Qed.

Lemma ra_finish_done s o : ra_finish (s, RLDone o) = (s, RLDone o).
Proof. reflexivity. Qed.

(* the six micro-steps, run without interruption, are core_apply_proof *)
Lemma rsplit_atomic cr c s : Shared.atomic rsplit_l0 (rsplit_body cr) rsplit_res c s = rstep cr c s.
Proof.
  destruct c as [f pf|i|i| ];
    try (unfold Shared.atomic, rsplit_body, rsplit_res, rsplit_l0; cbn [fold_left fst snd];
         destruct (rstep cr _ s) as [s' o]; reflexivity).
  destruct s as [c w].
  unfold Shared.atomic, rsplit_body, rsplit_l0, rstep, core_apply_proof. cbn [fst snd].
  rewrite mbind_get_core. cbn [fold_left]. unfold ra_gates at 1. cbn [fst snd].
  destruct (negb (p_fork pf =? t_fork (c_tree c))).
  { rewrite ra_block_done, !rstage_done, ra_finish_done. reflexivity. }
  rewrite mbind_get_disk, mbind_lift.
  destruct (verify_proof cr (c_tree c) (d_tree (w_disk w)) pf (kp_public (c_keypair c))) as [cs|e|msg|];
    try (rewrite ra_block_done, !rstage_done, ra_finish_done; reflexivity).
  destruct (negb (commitable (c_tree c) cs)).
  { rewrite ra_block_done, !rstage_done, ra_finish_done. reflexivity. }
  (* block *)
  rewrite ra_block_gate. unfold ra_block_m. rewrite mbind_get_core, mbind_get_disk.
  rewrite (mbind_case (match p_block pf with Some _ => _ | None => _ end)).
  destruct ((match p_block pf with
             | Some b =>
                 off <-- lift (byte_offset_in_changeset (c_tree c) (d_tree (w_disk w)) (db_index b) cs) ;;;
                 emit [SW Data off (db_value b)] ;;; ret (Some (mkBfUpdate false (db_index b) 1))
             | None => ret None
             end) c w) as [[c1 w1] [bu|e|msg|]];
    try (rewrite !rstage_done, ra_finish_done; reflexivity).
  (* log *)
  rewrite rstage_pend, mbind_case.
  destruct (log_and_commit cr cs bu c1 w1) as [[c2 w2] [u2|e|msg|]];
    try (rewrite !rstage_done, ra_finish_done; reflexivity).
  (* flush *)
  rewrite rstage_pend, mbind_case.
  destruct (maybe_flush cr f c2 w2) as [[c3 w3] [u3|e|msg|]];
    try (rewrite !rstage_done, ra_finish_done; reflexivity).
  (* events, finish *)
  rewrite rstage_pend.
  destruct (p_upgrade pf), bu; reflexivity.
Qed.

(* ====================================================================================== *)
(* H. The theorems for the two instances                                                   *)
(* ====================================================================================== *)

Section Instances.
  Variable cr : crypto.
  Variable bs : list bytes.
  Hypothesis Hcrc : crc_ok cr.
  Hypothesis Hhash32 : forall x, length (cr_hash cr x) = 32%nat.
  Hypothesis Hnonblank : forall x, all_zero (cr_hash cr x) = false.
  Hypothesis Hhashbytes : forall x, bytes_ok (cr_hash cr x) = true.
  Hypothesis Hw : writer_fits bs.

  Variables (progs : list (list rcall)).
  Variables (c : core) (d : disk) (j : list sop) (ev : list event) (H : N -> bool).
  Hypothesis HX : RDInv cr bs c d H.
  Hypothesis Hall : Forall (Forall rcall_ok) progs.

  (* one micro-step per call *)
  Theorem rshared_core_one cfg :
    Shared.steps rone_l0 (rone_body cr) rone_res (Shared.init (c, mkWorld d j ev) progs) cfg ->
    let cs := Shared.calls (Shared.log cfg) in
    let rs := Shared.results (Shared.log cfg) in
    exists s1, (Shared.holder cfg = None -> s1 = Shared.shared cfg) /\
      (rmodel_run cr bs c s1 cs rs H \/ rframe_stop bs cs rs H (t_length (c_tree c)) \/
       some_collision cr \/ forged_signature cr bs (kp_public (c_keypair c))).
  Proof.
    exact (rshared_replica cr bs Hcrc Hhash32 Hnonblank Hhashbytes Hw _ _ _ _ (rone_atomic cr)
             progs cfg c d j ev H HX Hall).
  Qed.

  (* applications split at their storage operations *)
  Theorem rshared_core_split cfg :
    Shared.steps rsplit_l0 (rsplit_body cr) rsplit_res (Shared.init (c, mkWorld d j ev) progs) cfg ->
    let cs := Shared.calls (Shared.log cfg) in
    let rs := Shared.results (Shared.log cfg) in
    exists s1, (Shared.holder cfg = None -> s1 = Shared.shared cfg) /\
      (rmodel_run cr bs c s1 cs rs H \/ rframe_stop bs cs rs H (t_length (c_tree c)) \/
       some_collision cr \/ forged_signature cr bs (kp_public (c_keypair c))).
  Proof.
    exact (rshared_replica cr bs Hcrc Hhash32 Hnonblank Hhashbytes Hw _ _ _ _ (rsplit_atomic cr)
             progs cfg c d j ev H HX Hall).
  Qed.

  Theorem rshared_core_split_finished cfg :
    Shared.steps rsplit_l0 (rsplit_body cr) rsplit_res (Shared.init (c, mkWorld d j ev) progs) cfg ->
    (forall tk, In tk (Shared.tasks cfg) -> Shared.st tk = Shared.Idle /\ Shared.prog tk = []) ->
    let cs := Shared.calls (Shared.log cfg) in
    let rs := Shared.results (Shared.log cfg) in
    length (Shared.log cfg) = list_sum (map (@length rcall) progs) /\
    (forall t, task_calls t (Shared.log cfg) = nth t progs []) /\
    (forall t tk, nth_error (Shared.tasks cfg) t = Some tk ->
       Shared.out tk = map snd (filter (fun e => Nat.eqb (fst (fst e)) t) (Shared.log cfg))) /\
    Shared.holder cfg = None /\
    (rmodel_run cr bs c (Shared.shared cfg) cs rs H \/ rframe_stop bs cs rs H (t_length (c_tree c)) \/
     some_collision cr \/ forged_signature cr bs (kp_public (c_keypair c))).
  Proof.
    exact (rshared_replica_finished cr bs Hcrc Hhash32 Hnonblank Hhashbytes Hw _ _ _ _ (rsplit_atomic cr)
             progs cfg c d j ev H HX Hall).
  Qed.

  Theorem rshared_core_split_get_outcome cfg i t idx o :
    Shared.steps rsplit_l0 (rsplit_body cr) rsplit_res (Shared.init (c, mkWorld d j ev) progs) cfg ->
    nth_error (Shared.log cfg) i = Some (t, QGet idx, o) ->
    (forall k, (k < i)%nat -> nth_error (Shared.results (Shared.log cfg)) k <> Some rframe_panic) ->
    o = ROGet (Ok (if held_at H (Shared.log cfg) i idx then Some (blk bs idx) else None)) \/
    some_collision cr \/ forged_signature cr bs (kp_public (c_keypair c)).
  Proof.
    intros Hst.
    exact (rshared_get_outcome cr bs Hcrc Hhash32 Hnonblank Hhashbytes Hw _ _ _ _ (rsplit_atomic cr)
             progs cfg c d j ev H HX Hall Hst i t idx o).
  Qed.

  (* THE COROLLARY asked for: while one task applies proofs (each application being six separately scheduled
     micro-steps) the reads of the other tasks never see a partially applied proof *)
  Theorem rshared_core_split_no_partial_read cfg i t idx o :
    Shared.steps rsplit_l0 (rsplit_body cr) rsplit_res (Shared.init (c, mkWorld d j ev) progs) cfg ->
    nth_error (Shared.log cfg) i = Some (t, QGet idx, o) ->
    (forall k, (k < i)%nat -> nth_error (Shared.results (Shared.log cfg)) k <> Some rframe_panic) ->
    o = ROGet (Ok None) \/ o = ROGet (Ok (Some (blk bs idx))) \/
    some_collision cr \/ forged_signature cr bs (kp_public (c_keypair c)).
  Proof.
    intros Hst.
    exact (rshared_no_partial_read cr bs Hcrc Hhash32 Hnonblank Hhashbytes Hw _ _ _ _ (rsplit_atomic cr)
             progs cfg c d j ev H HX Hall Hst i t idx o).
  Qed.

  Theorem rshared_core_split_has_outcome cfg i t idx o :
    Shared.steps rsplit_l0 (rsplit_body cr) rsplit_res (Shared.init (c, mkWorld d j ev) progs) cfg ->
    nth_error (Shared.log cfg) i = Some (t, QHas idx, o) ->
    (forall k, (k < i)%nat -> nth_error (Shared.results (Shared.log cfg)) k <> Some rframe_panic) ->
    o = ROHas (held_at H (Shared.log cfg) i idx) \/
    some_collision cr \/ forged_signature cr bs (kp_public (c_keypair c)).
  Proof.
    intros Hst.
    exact (rshared_has_outcome cr bs Hcrc Hhash32 Hnonblank Hhashbytes Hw _ _ _ _ (rsplit_atomic cr)
             progs cfg c d j ev H HX Hall Hst i t idx o).
  Qed.

  Theorem rshared_core_split_info_outcome cfg i t o :
    Shared.steps rsplit_l0 (rsplit_body cr) rsplit_res (Shared.init (c, mkWorld d j ev) progs) cfg ->
    nth_error (Shared.log cfg) i = Some (t, QInfo, o) ->
    (forall k, (k < i)%nat -> nth_error (Shared.results (Shared.log cfg)) k <> Some rframe_panic) ->
    (exists ri cg, t_length (c_tree c) <= ri /\ ri <= N.of_nat (length bs) /\
       o = ROInfo (mkInfo ri (prefix_size bs ri) cg 0 false) /\
       (forall x, x < cg -> held_at H (Shared.log cfg) i x = true) /\ held_at H (Shared.log cfg) i cg = false) \/
    some_collision cr \/ forged_signature cr bs (kp_public (c_keypair c)).
  Proof.
    intros Hst.
    exact (rshared_info_outcome cr bs Hcrc Hhash32 Hnonblank Hhashbytes Hw _ _ _ _ (rsplit_atomic cr)
             progs cfg c d j ev H HX Hall Hst i t o).
  Qed.

  Theorem rshared_core_split_block_readable cfg i t f pf b :
    Shared.steps rsplit_l0 (rsplit_body cr) rsplit_res (Shared.init (c, mkWorld d j ev) progs) cfg ->
    Shared.holder cfg = None ->
    ~ In rframe_panic (Shared.results (Shared.log cfg)) ->
    nth_error (Shared.log cfg) i = Some (t, QApply f pf, ROApply (Ok true)) ->
    p_block pf = Some b ->
    let cF := fst (Shared.shared cfg) in
    let dF := w_disk (snd (Shared.shared cfg)) in
    (core_has cF (db_index b) = true /\
     forall j' ev', core_get (db_index b) cF (mkWorld dF j' ev') =
                    (cF, mkWorld dF j' ev', Ok (Some (blk bs (db_index b))))) \/
    some_collision cr \/ forged_signature cr bs (kp_public (c_keypair c)).
  Proof.
    intros Hst.
    exact (rshared_block_readable cr bs Hcrc Hhash32 Hnonblank Hhashbytes Hw _ _ _ _ (rsplit_atomic cr)
             progs cfg c d j ev H HX Hall Hst i t f pf b).
  Qed.
End Instances.

(* ====================================================================================== *)
(* I. Non-vacuity: two tasks on the toy replica of SoundCore.v, interleaved                *)
(* ====================================================================================== *)

(* The state: sc_R1, the replica created from the public key alone and synced to length 6 by the writer's
   upgrade proof (nothing held, the upgrade entry pending in the oplog; RDInv: ReplicaDisk7.sc_synced_RDInv).
   Task 0 applies the writer's proof for block 4 (with a flush) and asks for info; task 1 reads block 4, asks
   has 4 and reads block 4 again. *)
Definition sc_rprogs (pf : proof) : list (list rcall) :=
  [[QApply (Some true) pf; QInfo]; [QGet 4; QHas 4; QGet 4]].

(* one micro-step per call; every call is start, acquire, micro, finish of its task.  Task 1's first read
   completes before task 0 takes the lock; task 1 then starts has 4 and waits while task 0 applies. *)
Definition sc_rsched1 : list nat :=
  [1; 1; 1; 1; 0; 0; 1; 0; 0; 1; 1; 1; 0; 1; 0; 0; 0; 1; 1; 1]%nat.

(* applications split into six micro-steps: the same, task 0 running gates, block, log, flush, events, finish *)
Definition sc_rsched2 : list nat :=
  [1; 1; 1; 1; 0; 0; 1; 0; 0; 0; 0; 0; 0; 0; 1; 1; 1; 0; 1; 0; 0; 0; 1; 1; 1]%nat.

(* what both runs must produce *)
Definition sc_rexpected_log (pf : proof) : list (nat * rcall * rdobs) :=
  [(1%nat, QGet 4, ROGet (Ok None));
   (0%nat, QApply (Some true) pf, ROApply (Ok true));
   (1%nat, QHas 4, ROHas true);
   (0%nat, QInfo, ROInfo (mkInfo 6 11 0 0 false));
   (1%nat, QGet 4, ROGet (Ok (Some [9; 10])))].

Example sc_shared_replica_one_run :
  match fst sc_R1, sc_block_proof (fst sc_R1) 4 with
  | Some (c, w), Some pf =>
      match Shared.run_sched rone_l0 (rone_body sc_cr) rone_res sc_rsched1 (Shared.init (c, w) (sc_rprogs pf)) with
      | Some cfg =>
          Shared.holder cfg = None /\ all_done cfg = true /\ Shared.log cfg = sc_rexpected_log pf /\
          blk sc_blocks 4 = [9; 10] /\
          map (@Shared.out _ _ _ _) (Shared.tasks cfg) =
            [[ROApply (Ok true); ROInfo (mkInfo 6 11 0 0 false)];
             [ROGet (Ok None); ROHas true; ROGet (Ok (Some [9; 10]))]]
      | None => False
      end
  | _, _ => False
  end.
Proof. vm_compute. repeat split. Qed.

Example sc_shared_replica_split_run :
  match fst sc_R1, sc_block_proof (fst sc_R1) 4 with
  | Some (c, w), Some pf =>
      match Shared.run_sched rsplit_l0 (rsplit_body sc_cr) rsplit_res sc_rsched2
                             (Shared.init (c, w) (sc_rprogs pf)) with
      | Some cfg =>
          Shared.holder cfg = None /\ all_done cfg = true /\ Shared.log cfg = sc_rexpected_log pf
      | None => False
      end
  | _, _ => False
  end.
Proof. vm_compute. repeat split. Qed.

(* A partially applied proof exists but nobody can look at it: after task 0's second micro-step the data store
   holds block 4 (bytes 8..10) while the bitfield does not (has 4 = false, a read would return None); task 0
   holds the lock, and task 1 (which has started has 4) cannot move. *)
Example sc_shared_replica_partial_unobservable :
  match fst sc_R1, sc_block_proof (fst sc_R1) 4 with
  | Some (c, w), Some pf =>
      match Shared.run_sched rsplit_l0 (rsplit_body sc_cr) rsplit_res [1; 1; 1; 1; 0; 0; 1; 0; 0]%nat
                             (Shared.init (c, w) (sc_rprogs pf)) with
      | Some cfg =>
          Shared.holder cfg = Some 0%nat /\
          f_len (d_data (w_disk w)) = 0 /\
          f_len (d_data (w_disk (snd (Shared.shared cfg)))) = 10 /\
          core_has (fst (Shared.shared cfg)) 4 = false /\
          Shared.fire rsplit_l0 (rsplit_body sc_cr) rsplit_res 1 cfg = None
      | None => False
      end
  | _, _ => False
  end.
Proof. vm_compute. repeat split. Qed.

(* computed facts about the split run, in the form needed below *)
Lemma sc_rrun_computed :
  match fst sc_R1, sc_block_proof (fst sc_R1) 4 with
  | Some (c, w), Some pf =>
      p_hash pf = None /\ p_seek pf = None /\ p_upgrade pf = None /\
      match p_block pf with Some b => db_index b = 4 | None => False end /\
      match Shared.run_sched rsplit_l0 (rsplit_body sc_cr) rsplit_res sc_rsched2
                             (Shared.init (c, w) (sc_rprogs pf)) with
      | Some cfg => Shared.holder cfg = None /\ all_done cfg = true /\ Shared.log cfg = sc_rexpected_log pf
      | None => False
      end
  | _, _ => False
  end.
Proof. vm_compute. repeat split. Qed.

Lemma sc_rrun_facts c w pf :
  fst sc_R1 = Some (c, w) -> sc_block_proof (fst sc_R1) 4 = Some pf ->
  p_hash pf = None /\ p_seek pf = None /\ p_upgrade pf = None /\
  (exists b, p_block pf = Some b /\ db_index b = 4) /\
  exists cfg,
    Shared.run_sched rsplit_l0 (rsplit_body sc_cr) rsplit_res sc_rsched2 (Shared.init (c, w) (sc_rprogs pf)) = Some cfg /\
    Shared.holder cfg = None /\ all_done cfg = true /\ Shared.log cfg = sc_rexpected_log pf.
Proof.
  intros H1 H2. pose proof sc_rrun_computed as M. rewrite H2 in M. rewrite H1 in M.
  destruct M as (A1 & A2 & A3 & A4 & M).
  split; [exact A1|]. split; [exact A2|]. split; [exact A3|]. split.
  - clear M H1 H2. destruct (p_block pf) as [b|]; [|contradiction]. exists b. split; [reflexivity|exact A4].
  - clear A4. destruct (Shared.run_sched rsplit_l0 (rsplit_body sc_cr) rsplit_res sc_rsched2
                (Shared.init (c, w) (sc_rprogs pf))) as [cfg|]; [|contradiction].
    exists cfg. split; [reflexivity|exact M].
Qed.

(* the hypotheses of the theorems are met, and the theorems (not a computation) yield the conclusions for the
   concrete interleaved run: the results conform to the replica spec, the final shared state satisfies RDInv
   for the held set {4}, the reader saw None (before the application) and the writer's block 4 (after it), and
   block 4 is readable in the final shared core *)
Example sc_shared_replica_end_to_end :
  match fst sc_R1, sc_block_proof (fst sc_R1) 4 with
  | Some (c, w), Some pf =>
      RDInv sc_cr sc_blocks c (w_disk w) (fun _ => false) /\
      Forall (Forall rcall_ok) (sc_rprogs pf) /\
      exists cfg,
        Shared.run_sched rsplit_l0 (rsplit_body sc_cr) rsplit_res sc_rsched2
                         (Shared.init (c, w) (sc_rprogs pf)) = Some cfg /\
        Shared.holder cfg = None /\
        nth_error (Shared.log cfg) 0 = Some (1%nat, QGet 4, ROGet (Ok None)) /\
        nth_error (Shared.log cfg) 4 = Some (1%nat, QGet 4, ROGet (Ok (Some (blk sc_blocks 4)))) /\
        ((rmodel_run sc_cr sc_blocks c (Shared.shared cfg) (Shared.calls (Shared.log cfg))
                     (Shared.results (Shared.log cfg)) (fun _ => false) /\
          (forall i, held_by (fun _ => false) (Shared.calls (Shared.log cfg)) (Shared.results (Shared.log cfg)) i
                     = (i =? 4)) /\
          core_has (fst (Shared.shared cfg)) 4 = true) \/
         some_collision sc_cr \/ forged_signature sc_cr sc_blocks (kp_public (c_keypair c)))
  | _, _ => False
  end.
Proof.
  pose proof sc_synced_RDInv as HX.
  destruct (fst sc_R1) as [[c w]|] eqn:E1; [|exact HX]. destruct HX as [X L6].
  destruct (sc_block_proof (Some (c, w)) 4) as [pf|] eqn:Ep.
  2:{ clear X L6. vm_compute in E1. injection E1 as <- <-. vm_compute in Ep. discriminate Ep. }
  rewrite <- E1 in Ep.
  destruct (sc_rrun_facts c w pf E1 Ep) as (A1 & A2 & A3 & (b & Hb & Hbi) & cfg & Erun & Hfree & _ & Hlog).
  assert (Hrd : rd_proof_ok pf)
    by (split; [split; [exact A1|split; [exact A2|rewrite A3; exact I]]|rewrite A3; exact I]).
  assert (Hall : Forall (Forall rcall_ok) (sc_rprogs pf)).
  { unfold sc_rprogs. repeat (constructor; try exact I; try exact Hrd). }
  split; [exact X|]. split; [exact Hall|].
  exists cfg. split; [exact Erun|]. split; [exact Hfree|].
  split; [rewrite Hlog; reflexivity|]. split; [rewrite Hlog; reflexivity|].
  pose proof (Shared.run_sched_sound _ _ _ _ _ _ _ _ _ _ Erun) as Hst.
  destruct w as [d j ev]. cbn [w_disk] in X.
  assert (Hnp : ~ In rframe_panic (Shared.results (Shared.log cfg))).
  { rewrite Hlog. cbn. intros Hin. repeat (destruct Hin as [Hin|Hin]; [discriminate Hin|]). exact Hin. }
  destruct (rshared_core_split sc_cr sc_blocks sc_crc_ok sc_hash32 sc_nonblank sc_hashbytes sc_writer_fits
              (sc_rprogs pf) c d j ev _ X Hall cfg Hst)
    as (s1 & Hs1 & [Hm|[(k & f0 & pf0 & _ & Hp & _)|[C|F]]]);
    [|exfalso; apply Hnp; exact (nth_error_In _ _ Hp)|right; left; exact C|right; right; exact F].
  rewrite (Hs1 Hfree) in Hm.
  assert (Hh : forall i, held_by (fun _ => false) (Shared.calls (Shared.log cfg))
                                 (Shared.results (Shared.log cfg)) i = (i =? 4)).
  { intros i. rewrite Hlog. unfold sc_rexpected_log. cbn [Shared.calls Shared.results map Shared.call_of fst snd held_by hold1].
    unfold hold. rewrite Hb, Hbi. apply orb_false_r. }
  left. split; [exact Hm|]. split; [exact Hh|].
  destruct Hm as (_ & XF & _).
  rewrite (RD_has sc_cr sc_blocks _ _ _ 4 XF), Hh. reflexivity.
Qed.

Print Assumptions held_by_spec.
Print Assumptions rd_ok_at.
Print Assumptions rstep_RDInv.
Print Assumptions rseq_replica.
Print Assumptions rseq_rd_run.
Print Assumptions rshared_rd_run.
Print Assumptions rshared_replica_log.
Print Assumptions rshared_replica.
Print Assumptions rshared_replica_finished.
Print Assumptions rshared_obs_at.
Print Assumptions rshared_get_outcome.
Print Assumptions rshared_no_partial_read.
Print Assumptions rshared_has_outcome.
Print Assumptions rshared_info_outcome.
Print Assumptions rshared_block_readable.
Print Assumptions rshared_replica_realtime.
Print Assumptions rone_atomic.
Print Assumptions rsplit_atomic.
Print Assumptions rshared_core_one.
Print Assumptions rshared_core_split.
Print Assumptions rshared_core_split_finished.
Print Assumptions rshared_core_split_get_outcome.
Print Assumptions rshared_core_split_no_partial_read.
Print Assumptions rshared_core_split_has_outcome.
Print Assumptions rshared_core_split_info_outcome.
Print Assumptions rshared_core_split_block_readable.
Print Assumptions sc_shared_replica_one_run.
Print Assumptions sc_shared_replica_split_run.
Print Assumptions sc_shared_replica_partial_unobservable.
Print Assumptions sc_shared_replica_end_to_end.

(* HonestTornHistC.v -- C07 history level, part 3: the application succeeds from a closed torn-tolerant state; one replication round of any request class from such a state *)
From HC Require Import Base NMap Codec CodecFacts Crypto FlatTree Storage Bitfield Oplog Merkle Core.
From HC Require Import FlatTreeFacts StorageFacts BitfieldFacts OplogFacts Sound NoPanic TreeRef OffsetFacts CoreFacts Crash Refine Replicate Replicate2 Replicate2Z Replicate2D Replicate2E.
From HC Require Import ClearRefine Reopen ContigBridge Unified1 Unified2 CrashCore1 CrashCore2 CrashCore3 CrashClear1.
From HC Require Import SoundCoreLib SoundCore SoundCoreUp SoundCoreBU ReplicaDisk1 ReplicaDisk2 ReplicaDisk3 ReplicaDisk4 ReplicaDisk5 ReplicaDisk6.
From HC Require Import TornCoreA TornCoreB TornClear TornReplicaA TornReplicaB TornReplica.
From HC Require Import AcceptAll1 AcceptAll2 AcceptAll3 AcceptAll AcceptAllCore1 AcceptAllClo AcceptAllClo2 AcceptAllFlush AcceptAllCore2 AcceptAllCore3 AcceptAllHist.
From HC Require Import HonestApply1 HonestApply2 HonestApply3 HonestCrash1 HonestTorn HonestTornHistA HonestTornHistB.
From Coq Require Import FMapPositive ZifyN ZifyNat ZifyBool.
Ltac Zify.zify_post_hook ::= Z.div_mod_to_equations.
Arguments N.add : simpl never.
Arguments N.sub : simpl never.
Arguments N.mul : simpl never.
Arguments N.div : simpl never.
Arguments N.modulo : simpl never.
Arguments N.pow : simpl never.
Arguments N.eqb : simpl never.
Arguments N.ltb : simpl never.
Arguments N.leb : simpl never.
Arguments N.max : simpl never.
Arguments N.min : simpl never.
Arguments N.of_nat : simpl never.
Arguments N.to_nat : simpl never.
Arguments N.log2 : simpl never.
Arguments N.testbit : simpl never.

(* ====================================================================================== *)
(* B. The premises of a round and the success of the application on a torn-tolerant state   *)
(* ====================================================================================== *)

Lemma missing_loop_ext t tf tf' (Hs : same_lookups t tf tf') fuel : forall it head count,
  missing_loop fuel t tf it head count = missing_loop fuel t tf' it head count.
Proof.
  induction fuel as [|f IH]; intros it head count; cbn [missing_loop]; [reflexivity|].
  destruct (it_contains it head); [reflexivity|]. unfold optional_node. rewrite (Hs (it_index it) true).
  destruct (node_get t tf' (it_index it) true) as [[n|]| | |]; cbn [bind]; try reflexivity. apply IH.
Qed.

Lemma missing_nodes_ext t tf tf' (Hs : same_lookups t tf tf') i : missing_nodes t tf i = missing_nodes t tf' i.
Proof. unfold missing_nodes. destruct (2 * t_length t <=? it_right_span_index (it_new i)); [reflexivity|]. apply missing_loop_ext, Hs. Qed.

Lemma wf_node_ext bs t tf tf' d a k seek u :
  same_lookups t tf tf' -> wf_node bs t tf d a k seek u -> wf_node bs t tf' d a k seek u.
Proof.
  intros Hs [A [(B1 & B2 & B3 & B4)|B]]; (split; [exact A|]).
  - left. split; [exact B1|]. split; [|split; [exact B3|exact B4]].
    rewrite <- (missing_nodes_ext t tf tf' Hs). exact B2.
  - right. exact B.
Qed.

Lemma wf_request_ext bs t tf tf' w rq :
  same_lookups t tf tf' -> wf_request bs t tf w rq -> wf_request bs t tf' w rq.
Proof.
  intros Hs [Hu Hn]. split; [exact Hu|].
  destruct (rq_block rq) as [b|], (rq_hash rq) as [h|].
  - destruct Hn.
  - apply (wf_node_ext bs t tf tf' _ _ _ _ _ Hs Hn).
  - apply (wf_node_ext bs t tf tf' _ _ _ _ _ Hs Hn).
  - exact Hn.
Qed.

Lemma frame_guard_ext cr c d d' pf :
  same_lookups (c_tree c) (d_tree d) (d_tree d') -> frame_guard cr c d pf -> frame_guard cr c d' pf.
Proof.
  intros Hs Hf cs V. apply Hf. rewrite (verify_proof_ext _ _ _ Hs). exact V.
Qed.

Section SucceedsZ.
  Variable cr : crypto.
  Hypothesis Hcrc : crc_ok cr.
  Hypothesis Hhash32 : forall x, length (cr_hash cr x) = 32%nat.
  Hypothesis Hnonblank : forall x, all_zero (cr_hash cr x) = false.
  Hypothesis Hhashbytes : forall x, bytes_ok (cr_hash cr x) = true.
  Variable bs : list bytes.
  Hypothesis Hw : writer_fits bs.

  (* the flush decision cannot fail on a core whose unflushed nodes and header are well formed, whatever the disk *)
  Lemma maybe_flush_total f c w :
    unflushed_ok (c_tree c) -> hdr_fits false (c_header c) ->
    exists c' w', maybe_flush cr f c w = (c', w', Ok tt).
  Proof.
    intros Hun Hfits. unfold maybe_flush. rewrite mbind_get_core.
    match goal with |- context [if ?b then _ else _] => destruct b end.
    2:{ eexists _, _. reflexivity. }
    rewrite mbind_put_skip.
    destruct (flush_all_run cr Hhash32 Hnonblank
                (mkCore (c_keypair c) (c_oplog c) (c_tree c) (c_bitfield c) (c_header c) 3) w Hun Hfits)
      as (o' & oops & d3 & _ & _ & E).
    eexists _, _. exact E.
  Qed.

  (* an honest changeset that passes the gates is applied: the call is accepted also from a torn-tolerant state *)
  Lemma honest_apply_succeeds_Z f pf c d j ev H cs :
    RCInvZ cr bs c d H ->
    p_fork pf = t_fork (c_tree c) ->
    verifier_says cr c (mkWorld d j ev) pf = Ok cs ->
    commitable (c_tree c) cs = true ->
    honest_changeset cr bs c pf cs ->
    frame_guard cr c d pf ->
    exists c' w', core_apply_proof cr f pf c (mkWorld d j ev) = (c', w', Ok true).
  Proof.
    intros [X Hclo] Ef Hv Cm Hhon Hframe.
    pose proof Hhon as (Href & Hblk & Hup & Hnoup & Hsb).
    destruct (RDInvZ_completed cr Hhash32 Hnonblank bs Hw c d H X) as (dv & Xv & Edv & Eov & Etv & Hveq & Hmv & Hfiv).
    pose proof (RDInv_RInv cr bs c dv H Xv) as Wv.
    pose proof Wv as (Wr & Wf & Wroots & Wbl & Wu & Wfs & Wrl & Wheld).
    pose proof (veq_same_lookups (c_tree c) _ _ Hveq) as Hsl.
    pose proof Hw as [Hw1 Hw2].
    pose proof Hv as V0. unfold verifier_says in V0. cbn [w_disk] in V0.
    assert (V0v : verify_proof cr (c_tree c) (d_tree dv) pf (kp_public (c_keypair c)) = Ok cs)
      by (rewrite <- (verify_proof_ext _ _ _ Hsl); exact V0).
    assert (Hclo_v : ClosedR (c_tree c) (d_tree dv)) by (apply (ClosedR_lookups _ (d_tree d)); [exact Hsl|exact Hclo]).
    set (r := t_length (c_tree c)) in *.
    set (m := if cs_upgraded cs then cs_length cs else r).
    assert (H64r : 2 * r <= u64_max) by (unfold NODE_SIZE in Hw2; lia).
    assert (Hrm : r <= m) by (unfold m; destruct (cs_upgraded cs); [apply (Hup eq_refl)|lia]).
    assert (Hmn : m <= N.of_nat (length bs)) by (unfold m; destruct (cs_upgraded cs); [apply (Hup eq_refl)|exact Wr]).
    assert (HRt : forall x, In x (t_roots (c_tree c)) -> navail (c_tree c) (d_tree dv) (n_index x)).
    { intros x Hx. exists x. apply Wrl, Hx. }
    assert (Ecr : cs_roots cs = ref_roots cr bs m).
    { unfold m. destruct (cs_upgraded cs) eqn:Up; [apply (Hup eq_refl)|].
      destruct (verify_proof_good cr _ _ pf _ cs Hclo_v HRt V0v) as (_ & _ & Hsame). rewrite (Hsame Up). exact Wroots. }
    assert (Hoffv : forall b, p_block pf = Some b ->
              byte_offset_in_changeset (c_tree c) (d_tree dv) (db_index b) cs = Ok (prefix_size bs (db_index b))).
    { intros b Eb. destruct (Hblk b Eb) as (Hleaf & Hb64 & Hval).
      apply (offset_value cr bs (c_tree c) (d_tree dv) r Hclo_v Wroots Wbl eq_refl
               (replica_sound cr bs c dv H Xv) H64r Hw1 (db_index b) cs m Hb64 Href Hleaf Ecr
               (verify_proof_parent_later cr _ _ pf _ cs V0v)). }
    assert (Hoffd : forall b, p_block pf = Some b ->
              byte_offset_in_changeset (c_tree c) (d_tree d) (db_index b) cs = Ok (prefix_size bs (db_index b))).
    { intros b Eb. rewrite (byte_offset_in_changeset_ext (c_tree c) _ _ Hsl). apply Hoffv, Eb. }
    pose proof (block_part_at pf c d cs j ev (fun b => prefix_size bs (db_index b)) Hoffd) as Hbp.
    pose proof (block_part_at pf c dv cs j ev (fun b => prefix_size bs (db_index b)) Hoffv) as Hbu_v.
    cbv beta in Hbp, Hbu_v.
    set (bu0 := match p_block pf with Some b => Some (mkBfUpdate false (db_index b) 1) | None => None end) in *.
    set (pre := match p_block pf with Some b => [SW Data (prefix_size bs (db_index b)) (db_value b)] | None => [] end) in *.
    set (d1 := match p_block pf with
               | Some b => d_set d Data (f_write (d_data d) (prefix_size bs (db_index b)) (db_value b)) | None => d end) in *.
    set (dv1 := match p_block pf with
                | Some b => d_set dv Data (f_write (d_data dv) (prefix_size bs (db_index b)) (db_value b)) | None => dv end) in *.
    assert (Et1v : d_tree dv1 = d_tree dv) by (unfold dv1; destruct (p_block pf); destruct dv; reflexivity).
    assert (Eo1v : d_oplog dv1 = d_oplog dv) by (unfold dv1; destruct (p_block pf); destruct dv; reflexivity).
    assert (Eb1v : d_bitfield dv1 = d_bitfield dv) by (unfold dv1; destruct (p_block pf); destruct dv; reflexivity).
    assert (Edv1 : d_data dv1 = match p_block pf with
                                | Some b => f_write (d_data dv) (prefix_size bs (db_index b)) (blk bs (db_index b))
                                | None => d_data dv
                                end).
    { unfold dv1. destruct (p_block pf) as [b|] eqn:Eb; [|reflexivity].
      destruct (Hblk b eq_refl) as (_ & _ & Hval). rewrite Hval. destruct dv; reflexivity. }
    (* the signature of an upgraded changeset *)
    assert (Hsig : cs_upgraded cs = true ->
                   exists sg, cs_signature cs = Some sg /\ length sg = 64%nat /\ bytes_ok sg = true /\
                     cs_hash cs = Some (tree_hash cr (cs_roots cs)) /\
                     cr_verify cr (kp_public (c_keypair c))
                       (signable (tree_hash cr (cs_roots cs)) (cs_length cs) (cs_fork cs)) sg = true).
    { intros Up. destruct (p_upgrade pf) as [u|] eqn:Eu.
      - destruct (verify_proof_upgrade_sig cr _ _ pf _ cs u Eu V0) as (L & S & Hh' & Hvv & _).
        exists (du_signature u). repeat split; assumption.
      - rewrite (Hnoup eq_refl) in Up. discriminate Up. }
    assert (H32 : forall x, In x (cs_nodes cs) -> length (n_hash x) = 32%nat).
    { intros x Hx. rewrite Forall_forall in Href. rewrite (Href x Hx). apply (T_hash32 cr Hhash32 bs). }
    assert (Hanc : cs_upgraded cs = true -> cs_ancestors cs = r) by (intros Up; apply (Hup Up)).
    assert (Hol : cs_upgraded cs = true -> cs_orig_length cs <= cs_ancestors cs).
    { intros Up. rewrite (Hanc Up). unfold commitable in Cm. rewrite Up in Cm.
      apply andb_true_iff in Cm. destruct Cm as [_ Cm]. fold r in Cm. lia. }
    (* the commit on the completed disk: the state after it satisfies RDInv, so the flush decision cannot fail *)
    destruct (log_and_commit_total cr Hhash32 Hnonblank cs bu0 c (mkWorld dv1 (rev pre ++ j) ev)) as (c2 & w2 & Hlc_v);
      [intros Up; destruct (Hsig Up) as (sg & S1 & _ & _ & S2 & _); eauto|exact H32|exact Cm|exact Hol| |].
    { intros e h b He Hb. apply (Hframe cs V0 e h b He Hb). }
    destruct (commit_reference_changeset_keeps_RDInv cr Hcrc Hhash32 Hnonblank Hhashbytes bs Hw pf c dv dv1 H cs bu0
                (rev pre ++ j) ev c2 w2 (conj Xv Hclo_v) V0v Hhon eq_refl Et1v Eo1v Eb1v Edv1 Hlc_v) as ([X2v _] & _).
    pose proof (RDInv_RInv cr bs c2 _ _ X2v) as W2v.
    assert (Hun2 : unflushed_ok (c_tree c2)).
    { apply (unfl_sound_ok cr Hhash32 bs (c_tree c2) (t_length (c_tree c2)) Hw1). apply W2v. }
    destruct (RDInv_header cr Hhash32 Hnonblank Hhashbytes bs Hw c2 _ _ X2v) as (_ & Hfits2).
    (* the same commit on the real disk *)
    destruct (log_and_commit_other_disk cr cs bu0 c dv1 (rev pre ++ j) ev c2 w2 tt d1 Hlc_v) as (fr & _ & Hlc).
    match type of Hlc with _ = (_, ?ww, _) => set (wd2 := ww) in * end.
    destruct (maybe_flush_total f c2 wd2 Hun2 Hfits2) as (c3 & w3 & Hmf).
    destruct (sends_tail pf bu0 c3 w3) as (w' & Hsend & _).
    exists c3, w'.
    rewrite (apply_gates_pass cr f pf c _ cs Ef Hv Cm). unfold apply_tail.
    fold (block_part pf c (w_disk (mkWorld d j ev)) cs). cbn [w_disk].
    rewrite (mbind_eq _ _ _ _ _ _ _ Hbp), (mbind_eq _ _ _ _ _ _ _ Hlc), (mbind_eq _ _ _ _ _ _ _ Hmf).
    exact Hsend.
  Qed.
End SucceedsZ.

(* ====================================================================================== *)
(* C. One replication round of ANY request class from a closed torn-tolerant state           *)
(* ====================================================================================== *)

Section RoundCZ.
  Variable cr : crypto.
  Hypothesis Hcrc : crc_ok cr.
  Hypothesis Hhash32 : forall x, length (cr_hash cr x) = 32%nat.
  Hypothesis Hnonblank : forall x, all_zero (cr_hash cr x) = false.
  Hypothesis Hhashbytes : forall x, bytes_ok (cr_hash cr x) = true.
  Variable bs : list bytes.
  Hypothesis Hw : writer_fits bs.

  Lemma recoversRC_ext pk d H H' r : (forall i, H' i = H i) -> recoversRC cr bs pk d H r -> recoversRC cr bs pk d H' r.
  Proof.
    intros E (c' & d' & ops & Eo & RC & R). exists c', d', ops. split; [exact Eo|].
    split; [apply (RCInvZ_ext cr bs c' d' H H' E RC)|exact R].
  Qed.

  (* premises of HonestApply3.honest_round, the replica in a state reached after any number of torn crashes:
     the writer serves the request, the application is accepted, the state after it is again closed and
     torn-tolerant, every clean cut leaves a closed torn-tolerant disk of the state before / after, every write torn
     at every byte reopens to the state before / after (closed again) -- the header slot write: or a CRC collision,
     under tear_safe *)
  Theorem honest_round_ZC f cw dw bw sg jw evw c d j ev H rq :
    let w := N.of_nat (length bw) in
    let pk := kp_public (c_keypair c) in
    writer_at cr bs cw dw bw pk sg ->
    RCInvZ cr bs c d H ->
    t_length (c_tree c) <= w ->
    wf_request bs (c_tree c) (d_tree d) w rq ->
    (forall vp, create_valueless_proof (c_tree cw) (d_tree dw) (rq_block rq) (rq_hash rq) (rq_seek rq) (rq_upgrade rq) = Ok vp ->
                frame_guard cr c d (vp_to_proof vp (rq_value bs rq))) ->
    let H' := held_rq H rq in
    let r' := match rq_upgrade rq with Some _ => w | None => t_length (c_tree c) end in
    exists pf c' w' delta,
      core_create_proof (rq_block rq) (rq_hash rq) (rq_seek rq) (rq_upgrade rq) cw (mkWorld dw jw evw)
        = (cw, mkWorld dw jw evw, Ok (Some pf)) /\
      core_apply_proof cr f pf c (mkWorld d j ev) = (c', w', Ok true) /\
      w_journal w' = rev delta ++ j /\ apply_sops d delta = Some (w_disk w') /\
      RCInvZ cr bs c' (w_disk w') H' /\ t_length (c_tree c') = r' /\ c_keypair c' = c_keypair c /\
      (f = Some true -> hyg cr (f_content (d_oplog (w_disk w')))) /\
      (forall k, exists dk,
         apply_sops d (firstn k delta) = Some dk /\
         (if (k <=? rq_commit_point rq)%nat then RCDiskZ cr bs pk dk H (t_length (c_tree c)) else RCDiskZ cr bs pk dk H' r') /\
         (hyg cr (f_content (d_oplog d)) -> hyg cr (f_content (d_oplog dk)))) /\
      (forall k o t, nth_error delta k = Some o -> (t < wlen o)%nat ->
         exists dk dkt,
           apply_sops d (firstn k delta) = Some dk /\ apply_sop dk (tear o t) = Some dkt /\
           (tear_safe cr dk o t ->
            (if (k <=? rq_commit_point rq)%nat then recoversRC cr bs pk dkt H (t_length (c_tree c))
             else recoversRC cr bs pk dkt H' r') \/
            (is_slot_write o = true /\ Crash.collision cr t))).
  Proof.
    intros w pk Hwa RC Hrw Hwf Hfr H' r'. pose proof RC as [X Hclo].
    destruct (RDInvZ_completed cr Hhash32 Hnonblank bs Hw c d H X) as (dv & Xv & _ & _ & _ & Hveq & _ & _).
    pose proof (veq_same_lookups (c_tree c) _ _ Hveq) as Hsl.
    assert (Hsl' : same_lookups (c_tree c) (d_tree dv) (d_tree d)) by (intros q am; symmetry; apply Hsl).
    assert (RCv : RCInv cr bs c dv H) by (split; [exact Xv|apply (ClosedR_lookups _ (d_tree d)); [exact Hsl|exact Hclo]]).
    pose proof (wf_request_ext bs _ _ _ w rq Hsl Hwf) as Hwfv.
    assert (Hfrv : forall vp, create_valueless_proof (c_tree cw) (d_tree dw) (rq_block rq) (rq_hash rq) (rq_seek rq) (rq_upgrade rq) = Ok vp ->
                              frame_guard cr c dv (vp_to_proof vp (rq_value bs rq))).
    { intros vp E. apply (frame_guard_ext cr c d dv _ Hsl), Hfr, E. }
    destruct (honest_round_changeset cr Hhash32 Hnonblank Hhashbytes bs Hw cw dw bw sg jw evw c dv j ev H rq Hwa RCv Hrw Hwfv Hfrv)
      as (pf & cs & Hcreate & Ef & Vv & Cm & Hhon & Hframev & Hheld & Hcp & Hlen).
    assert (V : verifier_says cr c (mkWorld d j ev) pf = Ok cs).
    { unfold verifier_says in *. cbn [w_disk] in *. rewrite (verify_proof_ext _ _ _ Hsl). exact Vv. }
    pose proof (frame_guard_ext cr c dv d pf Hsl' Hframev) as Hframe.
    destruct (honest_apply_succeeds_Z cr Hcrc Hhash32 Hnonblank Hhashbytes bs Hw f pf c d j ev H cs RC Ef V Cm Hhon Hframe)
      as (c' & w' & Hrun).
    destruct (honest_apply_ZC cr Hcrc Hhash32 Hnonblank Hhashbytes bs Hw f pf c d j ev H cs c' w' RC V Hhon Hrun)
      as (delta & Hj & Ha & RC' & Ek & El & _ & Hf & _ & Cc & Tc).
    assert (EH : forall i, held_rq H rq i = hold H (p_block pf) i) by (intros i; symmetry; apply Hheld).
    assert (El' : t_length (c_tree c') = r') by (rewrite El; exact Hlen).
    exists pf, c', w', delta.
    split; [exact Hcreate|]. split; [exact Hrun|]. split; [exact Hj|]. split; [exact Ha|].
    split; [apply (RCInvZ_ext cr bs c' (w_disk w') _ _ EH RC')|]. split; [exact El'|]. split; [exact Ek|].
    split; [exact Hf|]. unfold rq_commit_point. rewrite <- Hcp. split.
    - intros k. destruct (Cc k) as (dk & Ak & Pk & Hk). exists dk. split; [exact Ak|]. split; [|exact Hk].
      destruct (k <=? commit_point pf)%nat; [exact Pk|].
      rewrite <- El'. apply (RCDiskZ_ext cr bs _ dk _ _ _ EH Pk).
    - intros k o t Hk Ht. destruct (Tc k o t Hk Ht) as (dk & dkt & Ak & At & Q).
      exists dk, dkt. split; [exact Ak|]. split; [exact At|]. intros Hs.
      destruct (Q Hs) as [R|Cl]; [left|right; exact Cl].
      destruct (k <=? commit_point pf)%nat; [exact R|].
      rewrite <- El'. apply (recoversRC_ext _ dkt _ _ _ EH R).
  Qed.
End RoundCZ.

Print Assumptions honest_apply_succeeds_Z.
Print Assumptions honest_round_ZC.

(* AcceptAll.v -- C03, ONE statement over all well-formed requests.
   wf_request bs rt rtf w rq : the request rq, as a replica with tree rt / store rtf that follows a writer of
   length w over the blocks bs would send it:
     - optional upgrade {start = replica length r, length l > 0, r + l <= w};
     - at most one of block / hash; the node requested (block i = tree node (0, i); hash index = any tree
       node) lies inside the target length (r, or r + l with an upgrade) and either
         * entirely below r, with the node count of the replica's own missing_nodes query, not the head case,
           and an optional seek whose byte offset lies inside the sub-tree the proof will climb to, or
         * entirely at / above r (needs the upgrade; no seek: the writer refuses that combination);
     - without block / hash: an optional seek with any byte offset.
   wellformed_request_accepted : the writer creates the proof, the replica's verifier accepts it, the
   changeset is commitable, all its nodes are the writer's, with an upgrade it carries the writer's roots,
   length, byte length and signature. *)
From HC Require Import Base NMap Codec CodecFacts Crypto FlatTree Storage Oplog Merkle Core.
From HC Require Import FlatTreeFacts Sound NoPanic TreeRef OffsetFacts CoreFacts Refine Replicate Replicate2 Replicate2Z Replicate2D Replicate2E.
From HC Require Import AcceptAll1 AcceptAll2 AcceptAll3.
From Coq Require Import FMapPositive ZifyN ZifyNat ZifyBool.
Ltac Zify.zify_post_hook ::= Z.div_mod_to_equations.
Arguments N.add : simpl never.
Arguments N.sub : simpl never.
Arguments N.mul : simpl never.
Arguments N.div : simpl never.
Arguments N.modulo : simpl never.
Arguments N.pow : simpl never.
Arguments N.eqb : simpl never.
Arguments N.ltb : simpl never.
Arguments N.leb : simpl never.
Arguments N.of_nat : simpl never.
Arguments N.to_nat : simpl never.
Arguments N.log2 : simpl never.

Record request := mkRequest {
  rq_block : option req_block; rq_hash : option req_block;
  rq_seek : option req_seek; rq_upgrade : option req_upgrade }.

Definition nd_depth (idx : N) : nat := N.to_nat (ft_depth idx).

Lemma nd_coord idx : idx = ft_index (N.of_nat (nd_depth idx)) (ft_offset idx).
Proof. unfold nd_depth. rewrite N2Nat.id. symmetry. apply ft_index_depth_offset. Qed.

(* ---------- the well-formed requests ---------- *)

Definition seek_ok (bs : list bytes) (seek : option req_seek) (d : nat) (o : N) : Prop :=
  match seek with
  | Some s => seek_in_range (prefix_size bs (o * p2 d)) (prefix_size bs ((o + 1) * p2 d)) (rs_bytes s)
  | None => True
  end.

(* the tree node (d, a) with node count k, for the target length u *)
Definition wf_node (bs : list bytes) (rt : mtree) (rtf : file) (d : nat) (a k : N)
           (seek : option req_seek) (u : N) : Prop :=
  let kk := N.to_nat k in let o := a / p2 kk in
  (a + 1) * p2 d <= u /\
  (((a + 1) * p2 d <= t_length rt /\
    missing_nodes rt rtf (ft_index (N.of_nat d) a) = Ok k /\
    (o + 1) * p2 (d + kk) <= t_length rt /\
    seek_ok bs seek (d + kk) o)
   \/ (t_length rt <= a * p2 d /\ seek = None)).

Definition wf_upgrade (rt : mtree) (w : N) (up : option req_upgrade) : Prop :=
  match up with
  | Some u => ru_start u = t_length rt /\ 0 < ru_length u /\ t_length rt + ru_length u <= w
  | None => True
  end.

Definition rq_target (rt : mtree) (up : option req_upgrade) : N :=
  match up with Some u => ru_start u + ru_length u | None => t_length rt end.

Definition wf_request (bs : list bytes) (rt : mtree) (rtf : file) (w : N) (rq : request) : Prop :=
  wf_upgrade rt w (rq_upgrade rq) /\
  match rq_block rq, rq_hash rq with
  | Some b, None => wf_node bs rt rtf 0 (rb_index b) (rb_nodes b) (rq_seek rq) (rq_target rt (rq_upgrade rq))
  | None, Some h => wf_node bs rt rtf (nd_depth (rb_index h)) (ft_offset (rb_index h)) (rb_nodes h)
                            (rq_seek rq) (rq_target rt (rq_upgrade rq))
  | None, None => 0 < w
  | Some _, Some _ => False
  end.

(* ---------- what "accepted" means ---------- *)

Definition rq_value (bs : list bytes) (rq : request) : option bytes :=
  match rq_block rq with Some b => Some (blk bs (rb_index b)) | None => None end.

Definition block_shape (rq : request) (vp : vproof) : Prop :=
  match rq_block rq with
  | Some b => exists ns, vp_block vp = Some (mkDataHash (rb_index b) ns)
  | None => vp_block vp = None
  end.

(* the changeset: without an upgrade only nodes are added; with one it is the writer's signed tree *)
Definition outcome (cr : crypto) (bs : list bytes) (t rt : mtree) (w : N) (sg : bytes) (rq : request)
           (cs : changeset) : Prop :=
  match rq_upgrade rq with
  | Some _ =>
      cs_upgraded cs = true /\ cs_roots cs = ref_roots cr bs w /\ cs_length cs = w /\
      cs_byte_length cs = prefix_size bs w /\ cs_fork cs = t_fork t /\ cs_signature cs = Some sg /\
      cs_ancestors cs = t_length rt
  | None => cs_upgraded cs = false /\ cs_roots cs = t_roots rt
  end.

(* the node asked for is among the nodes of the changeset *)
Definition delivered (cr : crypto) (bs : list bytes) (rq : request) (cs : changeset) : Prop :=
  match rq_block rq, rq_hash rq with
  | Some b, _ => In (ref_node cr bs 0 (rb_index b)) (cs_nodes cs)
  | None, Some h => In (ref_at cr bs (rb_index h)) (cs_nodes cs)
  | None, None => True
  end.

Definition accepted (cr : crypto) (bs : list bytes) (t : mtree) (tf : file) (rt : mtree) (rtf : file)
           (w : N) (sg pk : bytes) (rq : request) : Prop :=
  exists vp cs,
    create_valueless_proof t tf (rq_block rq) (rq_hash rq) (rq_seek rq) (rq_upgrade rq) = Ok vp /\
    vp_fork vp = t_fork t /\ block_shape rq vp /\
    verify_proof cr rt rtf (vp_to_proof vp (rq_value bs rq)) pk = Ok cs /\
    commitable rt cs = true /\
    Forall (is_ref cr bs) (cs_nodes cs) /\
    outcome cr bs t rt w sg rq cs /\
    delivered cr bs rq cs.

Lemma ref_roots_0 cr bs : ref_roots cr bs 0 = [].
Proof. reflexivity. Qed.

Lemma head_form rt i k :
  (i / p2 (N.to_nat k) + 1) * p2 (N.to_nat k) <= t_length rt ->
  it_contains (it_up_n (N.to_nat k) (it_new (2 * i))) (2 * t_length rt) = false.
Proof.
  intros H. rewrite it_new_leaf2. change (it_at 0 i) with (it_at (N.of_nat 0) i).
  rewrite it_up_n_coord. cbn [Nat.add]. apply covers_head_false. exact H.
Qed.

Section Unified.
  Variable cr : crypto.
  Variable bs : list bytes.
  Hypothesis total_fits : sumN (map len bs) <= u64_max.
  (* the writer *)
  Variable t : mtree.
  Variable tf : file.
  Variable w : N.
  Variable sg : bytes.
  Hypothesis Hlook : lookups cr t tf bs w.
  Hypothesis Hl : t_length t = w.
  Hypothesis Hroots : t_roots t = ref_roots cr bs w.
  Hypothesis Hsg : t_signature t = Some sg.
  Hypothesis H64 : 2 * w <= u64_max.
  (* the replica *)
  Variable rt : mtree.
  Variable rtf : file.
  Variable r : N.
  Hypothesis Hrroots : t_roots rt = ref_roots cr bs r.
  Hypothesis Hrl : t_length rt = r.
  Hypothesis Hrb : t_byte_length rt = prefix_size bs r.
  Hypothesis Hrw : r <= w.
  Hypothesis Hrep : forall j n, optional_node rt rtf j = Ok (Some n) -> n_hash n = n_hash (ref_at cr bs j).
  (* the writer's signature verifies under the replica's key *)
  Variable pk : bytes.
  Hypothesis Hs64 : length sg = 64%nat.
  Hypothesis Hver : cr_verify cr pk (signable (tree_hash cr (ref_roots cr bs w)) w (t_fork t)) sg = true.

  Let acc := accepted cr bs t tf rt rtf w sg pk.

  Lemma empty_roots : r = 0 -> t_roots rt = [] /\ t_length rt = 0 /\ t_byte_length rt = 0.
  Proof. intros E. rewrite Hrroots, Hrl, Hrb, E, prefix_size_0. auto. Qed.

  (* ---------- no block, no hash ---------- *)

  Lemma acc_empty : 0 < w -> acc (mkRequest None None None None).
  Proof.
    intros Hw. exists (mkVproof (t_fork t) None None None None), (tree_changeset rt).
    cbn [rq_block rq_hash rq_seek rq_upgrade].
    split.
    { unfold create_valueless_proof, normalize_indexed. cbn [bind]. rewrite Hl.
      destruct (N.leb_spec (2 * w) 0) as [L1|_]; [lia|].
      destruct (N.ltb_spec (2 * w) (2 * w)) as [L2|_]; [lia|]. reflexivity. }
    split; [reflexivity|]. split; [reflexivity|]. split; [reflexivity|].
    split.
    { unfold commitable, tree_changeset. cbn [cs_orig_fork cs_orig_length cs_upgraded].
      rewrite N.eqb_refl. cbn [andb]. apply N.leb_le. lia. }
    split; [constructor|]. split; [split; reflexivity|exact I].
  Qed.

  Lemma acc_seek_only bytes : 0 < w -> acc (mkRequest None None (Some (mkReqSeek bytes)) None).
  Proof.
    intros Hw.
    destruct (seek_from_head_ok cr bs total_fits t tf w Hlook w bytes (N.le_refl w) H64) as (S & HS).
    rewrite <- Hl in HS at 1.
    destruct (seek_only_trivial cr bs total_fits t tf rt rtf bytes pk S ltac:(lia) HS) as [Hc Hv].
    exists (mkVproof (t_fork t) None None None None), (tree_changeset rt).
    cbn [rq_block rq_hash rq_seek rq_upgrade].
    split; [exact Hc|]. split; [reflexivity|]. split; [reflexivity|]. split; [exact Hv|].
    split.
    { unfold commitable, tree_changeset. cbn [cs_orig_fork cs_orig_length cs_upgraded].
      rewrite N.eqb_refl. cbn [andb]. apply N.leb_le. lia. }
    split; [constructor|]. split; [split; reflexivity|exact I].
  Qed.

  Lemma acc_upgrade_only u : r < u -> u <= w -> acc (mkRequest None None None (Some (mkReqUpgrade r (u - r)))).
  Proof.
    intros Hru Huw. destruct (N.eq_dec r 0) as [E0|Ne].
    - destruct (empty_roots E0) as (R0 & L0 & B0). rewrite E0 in Hru |- *. replace (u - 0) with u by lia.
      destruct (empty_upgrade_accepted cr bs total_fits t tf rt rtf w u sg pk Hlook Hl Hsg R0 L0 B0 Hru Huw H64 Hs64 Hver)
        as (cs & Hc & Hv & R & L & B & F & U & Sg & _ & A & Hn & Hcm & _).
      eexists _, cs. cbn [rq_block rq_hash rq_seek rq_upgrade].
      split; [exact Hc|]. split; [reflexivity|]. split; [reflexivity|]. split; [exact Hv|].
      split; [exact Hcm|]. split; [exact Hn|]. split; [|exact I].
      unfold outcome. cbn [rq_upgrade]. rewrite L0. auto 10.
    - destruct (partial_upgrade_accepted cr bs total_fits t tf rt rtf w r u sg pk Hlook Hl Hsg Hrroots Hrl Hrb
                  ltac:(lia) Hru Huw H64 Hs64 Hver) as (cs & Hc & Hv & R & L & B & F & U & Sg & _ & A & Hn & Hcm & _).
      eexists _, cs. cbn [rq_block rq_hash rq_seek rq_upgrade].
      split; [exact Hc|]. split; [reflexivity|]. split; [reflexivity|]. split; [exact Hv|].
      split; [exact Hcm|]. split; [exact Hn|]. split; [|exact I].
      unfold outcome. cbn [rq_upgrade]. rewrite Hrl. auto 10.
  Qed.

  Lemma acc_seek_upgrade u bytes :
    r < u -> u <= w -> acc (mkRequest None None (Some (mkReqSeek bytes)) (Some (mkReqUpgrade r (u - r)))).
  Proof.
    intros Hru Huw. destruct (N.eq_dec r 0) as [E0|Ne].
    - destruct (empty_roots E0) as (R0 & L0 & B0). rewrite E0 in Hru |- *. replace (u - 0) with u by lia.
      destruct (seek_upgrade_empty_accepted cr bs total_fits t tf rt rtf w u bytes sg pk Hlook Hl Hsg R0 L0 B0 Hru Huw
                  H64 Hs64 Hver) as (vp & cs & Hc & Vb & Vh & Vf & Hv & R & L & B & F & U & Sg & _ & A & Hn & Hcm).
      exists vp, cs. cbn [rq_block rq_hash rq_seek rq_upgrade].
      split; [exact Hc|]. split; [exact Vf|]. split; [exact Vb|]. split; [exact Hv|].
      split; [exact Hcm|]. split; [exact Hn|]. split; [|exact I].
      unfold outcome. cbn [rq_upgrade]. rewrite L0. auto 10.
    - destruct (seek_upgrade_accepted cr bs total_fits t tf rt rtf w r u bytes sg pk Hlook Hl Hsg Hrroots Hrl Hrb
                  ltac:(lia) Hru Huw H64 Hs64 Hver) as (vp & cs & Hc & Vb & Vh & Vf & Hv & R & L & B & F & U & Sg & A & Hn & Hcm).
      exists vp, cs. cbn [rq_block rq_hash rq_seek rq_upgrade].
      split; [exact Hc|]. split; [exact Vf|]. split; [exact Vb|]. split; [exact Hv|].
      split; [exact Hcm|]. split; [exact Hn|]. split; [|exact I].
      unfold outcome. cbn [rq_upgrade]. rewrite Hrl. auto 10.
  Qed.

  (* ---------- block requests ---------- *)

  (* the explicit results of the class theorems, repackaged *)
  Lemma acc_block_intro i k os ou ns sk up cs :
    create_valueless_proof t tf (Some (mkReqBlock i k)) None os ou
      = Ok (mkVproof (t_fork t) (Some (mkDataHash i ns)) None sk up) ->
    verify_proof cr rt rtf (mkProof (t_fork t) (Some (mkDataBlock i (blk bs i) ns)) None sk up) pk = Ok cs ->
    commitable rt cs = true -> Forall (is_ref cr bs) (cs_nodes cs) ->
    outcome cr bs t rt w sg (mkRequest (Some (mkReqBlock i k)) None os ou) cs ->
    In (ref_node cr bs 0 i) (cs_nodes cs) ->
    acc (mkRequest (Some (mkReqBlock i k)) None os ou).
  Proof.
    intros Hc Hv Hcm Hn Ho Hin. eexists _, cs. cbn [rq_block rq_hash rq_seek rq_upgrade].
    split; [exact Hc|]. split; [reflexivity|]. split; [eexists; reflexivity|]. split; [exact Hv|].
    split; [exact Hcm|]. split; [exact Hn|]. split; [exact Ho|exact Hin].
  Qed.

  Lemma acc_hash_intro idx k os ou ns sk up cs :
    create_valueless_proof t tf None (Some (mkReqBlock idx k)) os ou
      = Ok (mkVproof (t_fork t) None (Some (mkDataHash idx ns)) sk up) ->
    verify_proof cr rt rtf (mkProof (t_fork t) None (Some (mkDataHash idx ns)) sk up) pk = Ok cs ->
    commitable rt cs = true -> Forall (is_ref cr bs) (cs_nodes cs) ->
    outcome cr bs t rt w sg (mkRequest None (Some (mkReqBlock idx k)) os ou) cs ->
    In (ref_at cr bs idx) (cs_nodes cs) ->
    acc (mkRequest None (Some (mkReqBlock idx k)) os ou).
  Proof.
    intros Hc Hv Hcm Hn Ho Hin. eexists _, cs. cbn [rq_block rq_hash rq_seek rq_upgrade].
    split; [exact Hc|]. split; [reflexivity|]. split; [reflexivity|]. split; [exact Hv|].
    split; [exact Hcm|]. split; [exact Hn|]. split; [exact Ho|exact Hin].
  Qed.

  Lemma outcome_up rq cs u :
    rq_upgrade rq = Some u ->
    cs_upgraded cs = true -> cs_roots cs = ref_roots cr bs w -> cs_length cs = w ->
    cs_byte_length cs = prefix_size bs w -> cs_fork cs = t_fork t -> cs_signature cs = Some sg ->
    cs_ancestors cs = r -> outcome cr bs t rt w sg rq cs.
  Proof. intros E. unfold outcome. rewrite E, Hrl. auto 10. Qed.

  Lemma outcome_noup rq cs :
    rq_upgrade rq = None -> cs_upgraded cs = false -> cs_roots cs = t_roots rt -> outcome cr bs t rt w sg rq cs.
  Proof. intros E. unfold outcome. rewrite E. auto. Qed.

  Section BlockBelow.
    Variable i k : N.
    Let kk := N.to_nat k.
    Let o := i / p2 kk.
    Hypothesis Hir : i < r.
    Hypothesis Hm : missing_nodes rt rtf (2 * i) = Ok k.
    Hypothesis Htop : (o + 1) * p2 kk <= r.

    Lemma acc_block_below : acc (mkRequest (Some (mkReqBlock i k)) None None None).
    Proof.
      destruct (block_request_served_ref cr bs total_fits t tf rt rtf w i k pk Hlook Hl ltac:(lia) H64 Hrep ltac:(lia) Hm
                  ltac:(rewrite Hrl; exact Htop)) as (cs & Hc & Hv & U & Hcm & R & Hn & Hin).
      apply (acc_block_intro i k None None _ None None cs Hc Hv Hcm Hn); [|exact Hin].
      apply outcome_noup; [reflexivity|exact U|exact R].
    Qed.

    Lemma acc_block_below_seek bytes :
      seek_in_range (prefix_size bs (o * p2 kk)) (prefix_size bs ((o + 1) * p2 kk)) bytes ->
      acc (mkRequest (Some (mkReqBlock i k)) None (Some (mkReqSeek bytes)) None).
    Proof.
      intros Hrange.
      destruct (seek_block_served cr bs total_fits t tf rt rtf w i k bytes pk Hlook Hl Hroots ltac:(lia) H64 Hrep
                  ltac:(lia) Hm ltac:(rewrite Hrl; exact Htop) Hrange) as (sk & ns & cs & Hc & Hv & U & Hcm & R & Hn & Hin).
      apply (acc_block_intro i k _ None ns _ None cs Hc Hv Hcm Hn); [|exact Hin].
      apply outcome_noup; [reflexivity|exact U|exact R].
    Qed.

    Lemma acc_block_below_up u :
      r < u -> u <= w -> acc (mkRequest (Some (mkReqBlock i k)) None None (Some (mkReqUpgrade r (u - r)))).
    Proof.
      intros Hru Huw.
      destruct (block_partial_upgrade_below_accepted cr bs total_fits t tf rt rtf w r u i k sg pk Hlook Hl Hsg Hrroots Hrl Hrb
                  Hrep ltac:(lia) Hru Huw H64 Hir Hm ltac:(apply head_form; rewrite Hrl; exact Htop) Hs64 Hver)
        as (cs & Hc & Hv & R & L & B & F & U & Sg & A & Hn & Hin & _ & Hcm).
      apply (acc_block_intro i k None _ _ None _ cs Hc Hv Hcm Hn); [|exact Hin].
      eapply outcome_up; [reflexivity|assumption..].
    Qed.

    Lemma acc_block_below_seek_up u bytes :
      r < u -> u <= w ->
      seek_in_range (prefix_size bs (o * p2 kk)) (prefix_size bs ((o + 1) * p2 kk)) bytes ->
      acc (mkRequest (Some (mkReqBlock i k)) None (Some (mkReqSeek bytes)) (Some (mkReqUpgrade r (u - r)))).
    Proof.
      intros Hru Huw Hrange.
      destruct (seek_block_upgrade_accepted cr bs total_fits t tf rt rtf w r u i k bytes sg pk Hlook Hl Hroots Hsg
                  Hrroots Hrl Hrb Hrep ltac:(lia) Hru Huw H64 Hir Hm Htop Hrange Hs64 Hver)
        as (sk & ns & cs & Hc & Hv & R & L & B & F & U & Sg & _ & A & Hn & Hin & Hcm).
      apply (acc_block_intro i k _ _ ns _ _ cs Hc Hv Hcm Hn); [|exact Hin].
      eapply outcome_up; [reflexivity|assumption..].
    Qed.
  End BlockBelow.

  (* the block lies in the upgraded range *)
  Lemma acc_block_above_up i k u :
    r <= i -> i < u -> u <= w -> acc (mkRequest (Some (mkReqBlock i k)) None None (Some (mkReqUpgrade r (u - r)))).
  Proof.
    intros Hri Hiu Huw. destruct (N.eq_dec r 0) as [E0|Ne].
    - destruct (empty_roots E0) as (R0 & L0 & B0). rewrite E0. replace (u - 0) with u by lia.
      destruct (block_upgrade_empty_accepted cr bs total_fits t tf rt rtf w u i k sg pk Hlook Hl Hsg R0 L0 B0
                  ltac:(lia) Huw H64 Hiu Hs64 Hver)
        as (l1 & y & l2 & cs & _ & _ & Hc & Hv & R & L & B & F & U & Sg & _ & A & Hn & Hin & _ & Hcm).
      apply (acc_block_intro i k None _ _ None _ cs Hc Hv Hcm Hn); [|exact Hin].
      eapply outcome_up; [reflexivity|try assumption..]. lia.
    - destruct (block_partial_upgrade_inside_accepted cr bs total_fits t tf rt rtf w r u i k sg pk Hlook Hl Hsg
                  Hrroots Hrl Hrb ltac:(lia) ltac:(lia) Huw H64 Hri Hiu Hs64 Hver)
        as (l1 & y & l2 & cs & _ & _ & Hc & Hv & R & L & B & F & U & Sg & A & Hn & Hin & _ & Hcm).
      apply (acc_block_intro i k None _ _ None _ cs Hc Hv Hcm Hn); [|exact Hin].
      eapply outcome_up; [reflexivity|assumption..].
  Qed.

  (* ---------- hash requests ---------- *)

  Section HashBelow.
    Variable d0 : nat.
    Variable a0 k : N.
    Let idx := ft_index (N.of_nat d0) a0.
    Let kk := N.to_nat k.
    Let o := a0 / p2 kk.
    Hypothesis Hin : (a0 + 1) * p2 d0 <= r.
    Hypothesis Hm : missing_nodes rt rtf idx = Ok k.
    Hypothesis Htop : (o + 1) * p2 (d0 + kk) <= r.

    Lemma ref_at_idx : ref_at cr bs idx = ref_node cr bs d0 a0.
    Proof. apply ref_at_index. Qed.

    Lemma w_pos : 0 < w.
    Proof. pose proof (p2_pos d0). nia. Qed.

    Lemma acc_hash_below : acc (mkRequest None (Some (mkReqBlock idx k)) None None).
    Proof.
      destruct (hash_request_served cr bs total_fits t tf rt rtf w d0 a0 k pk Hlook Hl w_pos ltac:(lia) H64 Hrep
                  ltac:(rewrite Hrl; exact Hin) Hm ltac:(rewrite Hrl; exact Htop))
        as (cs & Hc & Hv & U & Hcm & R & Hn & Hsub).
      apply (acc_hash_intro idx k None None _ None None cs Hc Hv Hcm Hn).
      - apply outcome_noup; [reflexivity|exact U|exact R].
      - rewrite ref_at_idx. apply Hsub. left. reflexivity.
    Qed.

    Lemma acc_hash_below_seek bytes :
      seek_in_range (prefix_size bs (o * p2 (d0 + kk))) (prefix_size bs ((o + 1) * p2 (d0 + kk))) bytes ->
      acc (mkRequest None (Some (mkReqBlock idx k)) (Some (mkReqSeek bytes)) None).
    Proof.
      intros Hrange.
      destruct (seek_hash_served cr bs total_fits t tf rt rtf w d0 a0 k bytes pk Hlook Hl Hroots ltac:(lia) H64 Hrep
                  ltac:(rewrite Hrl; exact Hin) Hm ltac:(rewrite Hrl; exact Htop) Hrange)
        as (sk & ns & cs & Hc & Hv & U & Hcm & R & Hn & Hleaf).
      apply (acc_hash_intro idx k _ None ns _ None cs Hc Hv Hcm Hn).
      - apply outcome_noup; [reflexivity|exact U|exact R].
      - rewrite ref_at_idx. exact Hleaf.
    Qed.

    Lemma r_pos : 0 < r.
    Proof. pose proof (p2_pos d0). nia. Qed.

    Lemma acc_hash_below_up u :
      r < u -> u <= w -> acc (mkRequest None (Some (mkReqBlock idx k)) None (Some (mkReqUpgrade r (u - r)))).
    Proof.
      intros Hru Huw.
      destruct (hash_upgrade_below_accepted cr bs total_fits t tf rt rtf w r u d0 a0 k sg pk Hlook Hl Hsg Hrroots Hrl Hrb
                  Hrep r_pos Hru Huw H64 Hin Hm Htop Hs64 Hver)
        as (cs & Hc & Hv & R & L & B & F & U & Sg & A & Hn & Hleaf & Hcm).
      apply (acc_hash_intro idx k None _ _ None _ cs Hc Hv Hcm Hn).
      - eapply outcome_up; [reflexivity|assumption..].
      - rewrite ref_at_idx. exact Hleaf.
    Qed.

    Lemma acc_hash_below_seek_up u bytes :
      r < u -> u <= w ->
      seek_in_range (prefix_size bs (o * p2 (d0 + kk))) (prefix_size bs ((o + 1) * p2 (d0 + kk))) bytes ->
      acc (mkRequest None (Some (mkReqBlock idx k)) (Some (mkReqSeek bytes)) (Some (mkReqUpgrade r (u - r)))).
    Proof.
      intros Hru Huw Hrange.
      destruct (seek_hash_upgrade_accepted cr bs total_fits t tf rt rtf w r u d0 a0 k bytes sg pk Hlook Hl Hroots Hsg
                  Hrroots Hrl Hrb Hrep r_pos Hru Huw H64 Hin Hm Htop Hrange Hs64 Hver)
        as (sk & ns & cs & Hc & Hv & R & L & B & F & U & Sg & _ & A & Hn & Hleaf & Hcm).
      apply (acc_hash_intro idx k _ _ ns _ _ cs Hc Hv Hcm Hn).
      - eapply outcome_up; [reflexivity|assumption..].
      - rewrite ref_at_idx. exact Hleaf.
    Qed.
  End HashBelow.

  Lemma acc_hash_above_up d0 a0 k u :
    r <= a0 * p2 d0 -> (a0 + 1) * p2 d0 <= u -> u <= w ->
    acc (mkRequest None (Some (mkReqBlock (ft_index (N.of_nat d0) a0) k)) None (Some (mkReqUpgrade r (u - r)))).
  Proof.
    intros Hlo Hhi Huw. pose proof (p2_pos d0) as Hp0.
    assert (Hru : r < u) by nia.
    destruct (N.eq_dec r 0) as [E0|Ne].
    - destruct (empty_roots E0) as (R0 & L0 & B0). rewrite E0. replace (u - 0) with u by lia.
      destruct (node_in_roots bs total_fits u d0 a0 ltac:(lia) Hhi) as (l1 & d & o & l2 & El & Hdd & I1 & I2).
      destruct (hash_upgrade_empty_accepted cr bs total_fits t tf rt rtf w u d0 a0 k sg pk l1 d o l2 Hlook Hl Hsg R0 L0 B0
                  ltac:(lia) Huw H64 El Hdd I1 I2 Hs64 Hver)
        as (cs & Hc & Hv & R & L & B & F & U & Sg & _ & A & Hn & Hleaf & Hcm).
      apply (acc_hash_intro _ k None _ _ None _ cs Hc Hv Hcm Hn).
      + eapply outcome_up; [reflexivity|try assumption..]. lia.
      + rewrite ref_at_index. exact Hleaf.
    - destruct (node_in_upgrade bs total_fits r u d0 a0 ltac:(lia) Hru ltac:(lia) Hlo Hhi)
        as (l1 & d & o & l2 & El & Hdd & I1 & I2).
      destruct (hash_upgrade_inside_accepted cr bs total_fits t tf rt rtf w r u d0 a0 k sg pk l1 d o l2 Hlook Hl Hsg
                  Hrroots Hrl Hrb ltac:(lia) Hru Huw H64 El Hdd I1 I2 Hs64 Hver)
        as (cs & Hc & Hv & R & L & B & F & U & Sg & A & Hn & Hleaf & Hcm).
      apply (acc_hash_intro _ k None _ _ None _ cs Hc Hv Hcm Hn).
      + eapply outcome_up; [reflexivity|assumption..].
      + rewrite ref_at_index. exact Hleaf.
  Qed.

  (* ---------- the statement over all well-formed requests ---------- *)

  Theorem wellformed_request_accepted rq :
    wf_request bs rt rtf w rq -> accepted cr bs t tf rt rtf w sg pk rq.
  Proof.
    destruct rq as [ob oh os ou]. unfold wf_request. cbn [rq_block rq_hash rq_seek rq_upgrade].
    intros [Hup Hnode]. fold acc.
    (* the upgrade part: {start = r, length = u - r} *)
    assert (Hu : ou = None \/ exists u, r < u /\ u <= w /\ ou = Some (mkReqUpgrade r (u - r))).
    { destruct ou as [[s l]|]; [right|left; reflexivity]. cbn [wf_upgrade ru_start ru_length] in Hup.
      destruct Hup as (E1 & E2 & E3). rewrite Hrl in E1, E3. subst s.
      exists (r + l). split; [lia|]. split; [exact E3|]. do 2 f_equal. lia. }
    assert (Ht : rq_target rt ou = match ou with Some _ => rq_target rt ou | None => r end)
      by (destruct ou; [reflexivity|exact Hrl]).
    destruct ob as [[i k]|]; [destruct oh as [[idx' k']|]; [destruct Hnode|]|destruct oh as [[idx k]|]].
    - (* block *)
      cbn [rb_index rb_nodes] in Hnode. unfold wf_node in Hnode. cbv zeta in Hnode. rewrite p2_0, Hrl in Hnode.
      destruct Hnode as (Hhi & [(Hin & Hm & Htop & Hseek)|(Hlo & Es)]).
      + change (N.of_nat 0) with 0 in Hm. rewrite ft_index_leaf in Hm. cbn [Nat.add] in Htop, Hseek.
        destruct Hu as [->|(u & Hru & Huw & ->)]; destruct os as [[bytes]|]; cbn [seek_ok rs_bytes] in Hseek.
        * apply (acc_block_below_seek i k ltac:(lia) Hm Htop bytes Hseek).
        * apply (acc_block_below i k ltac:(lia) Hm Htop).
        * apply (acc_block_below_seek_up i k ltac:(lia) Hm Htop u bytes Hru Huw Hseek).
        * apply (acc_block_below_up i k ltac:(lia) Hm Htop u Hru Huw).
      + subst os. destruct Hu as [->|(u & Hru & Huw & ->)].
        * cbn [rq_target] in Hhi. lia.
        * cbn [rq_target ru_start ru_length] in Hhi. apply (acc_block_above_up i k u ltac:(lia) ltac:(lia) Huw).
    - (* hash *)
      cbn [rb_index rb_nodes] in Hnode. unfold wf_node in Hnode. cbv zeta in Hnode. rewrite Hrl in Hnode.
      rewrite <- (nd_coord idx) in Hnode. rewrite (nd_coord idx).
      set (d0 := nd_depth idx) in *. set (a0 := ft_offset idx) in *.
      destruct Hnode as (Hhi & [(Hin & Hm & Htop & Hseek)|(Hlo & Es)]).
      + rewrite (nd_coord idx) in Hm. fold d0 a0 in Hm.
        destruct Hu as [->|(u & Hru & Huw & ->)]; destruct os as [[bytes]|]; cbn [seek_ok rs_bytes] in Hseek.
        * apply (acc_hash_below_seek d0 a0 k Hin Hm Htop bytes Hseek).
        * apply (acc_hash_below d0 a0 k Hin Hm Htop).
        * apply (acc_hash_below_seek_up d0 a0 k Hin Hm Htop u bytes Hru Huw Hseek).
        * apply (acc_hash_below_up d0 a0 k Hin Hm Htop u Hru Huw).
      + subst os. destruct Hu as [->|(u & Hru & Huw & ->)].
        * cbn [rq_target] in Hhi. pose proof (p2_pos d0). nia.
        * cbn [rq_target ru_start ru_length] in Hhi.
          apply (acc_hash_above_up d0 a0 k u Hlo ltac:(replace u with (r + (u - r)) by lia; exact Hhi) Huw).
    - (* neither *)
      destruct Hu as [->|(u & Hru & Huw & ->)]; destruct os as [[bytes]|].
      + apply (acc_seek_only bytes Hnode).
      + apply (acc_empty Hnode).
      + apply (acc_seek_upgrade u bytes Hru Huw).
      + apply (acc_upgrade_only u Hru Huw).
  Qed.
End Unified.

Print Assumptions wellformed_request_accepted.

(* ====================================================================================== *)
(* Non-vacuity on the toy instance of Replicate.v / Replicate2.v: writer ex_wt with five   *)
(* blocks; the empty replica (first contact) and the replica ex_r3 of length 3              *)
(* ====================================================================================== *)

Lemma ex_empty_stored j n :
  optional_node empty_tree file_empty j = Ok (Some n) -> n_hash n = n_hash (ref_at ex_cr ex_blocks j).
Proof. intros H. apply optional_node_empty_file in H. cbn in H. rewrite nm_get_empty in H. discriminate H. Qed.

(* first contact: "block 4 + upgrade 0..5" *)
Definition ex_rq_first : request := mkRequest (Some (mkReqBlock 4 0)) None None (Some (mkReqUpgrade 0 5)).

Example ex_rq_first_wf : wf_request ex_blocks empty_tree file_empty 5 ex_rq_first.
Proof.
  split; [cbn; lia|]. cbn [ex_rq_first rq_block rq_hash rq_seek rq_upgrade rb_index rb_nodes rq_target ru_start ru_length].
  unfold wf_node. cbv zeta. rewrite p2_0. split; [lia|]. right. split; [cbn; lia|reflexivity].
Qed.

Example ex_first_contact_accepted :
  accepted ex_cr ex_blocks ex_wt file_empty empty_tree file_empty 5 ex_sg ex_key ex_rq_first.
Proof.
  apply (wellformed_request_accepted ex_cr ex_blocks ltac:(vm_compute; discriminate) ex_wt file_empty 5 ex_sg
           ex_lookups5 ltac:(vm_compute; reflexivity) ltac:(vm_compute; reflexivity) ltac:(vm_compute; reflexivity)
           ltac:(vm_compute; discriminate) empty_tree file_empty 0 eq_refl eq_refl eq_refl ltac:(lia) ex_empty_stored
           ex_key ltac:(vm_compute; reflexivity) ltac:(vm_compute; reflexivity) ex_rq_first ex_rq_first_wf).
Qed.

(* the replica of length 3 asks for block 0 with its own count 1, a seek to byte 1 (inside blocks 0..1) and the
   partial upgrade 3..4 *)
Definition ex_rq_seek : request :=
  mkRequest (Some (mkReqBlock 0 1)) None (Some (mkReqSeek 1)) (Some (mkReqUpgrade 3 1)).

Example ex_rq_seek_wf : wf_request ex_blocks ex_r3 file_empty 5 ex_rq_seek.
Proof.
  split; [cbn; split; [vm_compute; reflexivity|split; [lia|vm_compute; discriminate]]|].
  cbn [ex_rq_seek rq_block rq_hash rq_seek rq_upgrade rb_index rb_nodes rq_target ru_start ru_length].
  unfold wf_node. cbv zeta. split; [vm_compute; discriminate|]. left.
  split; [vm_compute; discriminate|]. split; [vm_compute; reflexivity|]. split; [vm_compute; discriminate|].
  unfold seek_ok, seek_in_range. cbn [rs_bytes]. split; [vm_compute; discriminate|]. left. vm_compute. reflexivity.
Qed.

Example ex_seek_block_upgrade_accepted :
  accepted ex_cr ex_blocks ex_wt file_empty ex_r3 file_empty 5 ex_sg ex_key ex_rq_seek.
Proof.
  apply (wellformed_request_accepted ex_cr ex_blocks ltac:(vm_compute; discriminate) ex_wt file_empty 5 ex_sg
           ex_lookups5 ltac:(vm_compute; reflexivity) ltac:(vm_compute; reflexivity) ltac:(vm_compute; reflexivity)
           ltac:(vm_compute; discriminate) ex_r3 file_empty 3 ltac:(vm_compute; reflexivity) ltac:(vm_compute; reflexivity)
           ltac:(vm_compute; reflexivity) ltac:(lia) ex_r3_stored
           ex_key ltac:(vm_compute; reflexivity) ltac:(vm_compute; reflexivity) ex_rq_seek ex_rq_seek_wf).
Qed.

(* the proofs on the instance, computed: the first contact carries the leaf's sibling path and the other root;
   the seek request carries a seek section *)
Example ex_first_contact_computed :
  match create_valueless_proof ex_wt file_empty (rq_block ex_rq_first) (rq_hash ex_rq_first) (rq_seek ex_rq_first)
          (rq_upgrade ex_rq_first) with
  | Ok vp => option_map (fun b => map n_index (dh_nodes b)) (vp_block vp) = Some [] /\
             option_map (fun u => map n_index (du_nodes u)) (vp_upgrade vp) = Some [3]
  | _ => False
  end.
Proof. vm_compute. split; reflexivity. Qed.

Example ex_seek_computed :
  match create_valueless_proof ex_wt file_empty (rq_block ex_rq_seek) (rq_hash ex_rq_seek) (rq_seek ex_rq_seek)
          (rq_upgrade ex_rq_seek) with
  | Ok vp => option_map (fun b => map n_index (dh_nodes b)) (vp_block vp) = Some [2] /\
             option_map (fun s => map n_index (ds_nodes s)) (vp_seek vp) = None /\
             option_map (fun u => (map n_index (du_nodes u), map n_index (du_additional u))) (vp_upgrade vp) = Some ([6], [8])
  | _ => False
  end.
Proof. vm_compute. repeat split; reflexivity. Qed.

Print Assumptions ex_first_contact_accepted.
Print Assumptions ex_seek_block_upgrade_accepted.

(* a request whose proof carries a seek section: the synced replica ex_rt (length 5, only the roots stored) asks
   for block 0 with its own count 2 and a seek to byte 5, which lies in block 3 under the sibling 5 *)
Lemma ex_rt_stored j n :
  optional_node ex_rt file_empty j = Ok (Some n) -> n_hash n = n_hash (ref_at ex_cr ex_blocks j).
Proof.
  intros H. apply optional_node_empty_file, nm_get_elements in H.
  assert (C : forallb (fun kv => bytes_eqb (n_hash (snd kv)) (n_hash (ref_at ex_cr ex_blocks (fst kv))))
                      (nm_elements (t_unflushed ex_rt)) = true) by (vm_compute; reflexivity).
  rewrite forallb_forall in C. apply C in H. cbn [fst snd] in H. now apply bytes_eqb_eq.
Qed.

Definition ex_rq_seek2 : request := mkRequest (Some (mkReqBlock 0 2)) None (Some (mkReqSeek 5)) None.

Example ex_rq_seek2_wf : wf_request ex_blocks ex_rt file_empty 5 ex_rq_seek2.
Proof.
  split; [exact I|].
  cbn [ex_rq_seek2 rq_block rq_hash rq_seek rq_upgrade rb_index rb_nodes rq_target].
  unfold wf_node. cbv zeta. split; [vm_compute; discriminate|]. left.
  split; [vm_compute; discriminate|]. split; [vm_compute; reflexivity|]. split; [vm_compute; discriminate|].
  unfold seek_ok, seek_in_range. cbn [rs_bytes]. split; [vm_compute; discriminate|]. left. vm_compute. reflexivity.
Qed.

Example ex_seek_section_accepted :
  accepted ex_cr ex_blocks ex_wt file_empty ex_rt file_empty 5 ex_sg ex_key ex_rq_seek2 /\
  match create_valueless_proof ex_wt file_empty (rq_block ex_rq_seek2) (rq_hash ex_rq_seek2) (rq_seek ex_rq_seek2)
          (rq_upgrade ex_rq_seek2) with
  | Ok vp => option_map (fun b => map n_index (dh_nodes b)) (vp_block vp) = Some [2] /\
             option_map (fun s => map n_index (ds_nodes s)) (vp_seek vp) = Some [6; 4]
  | _ => False
  end.
Proof.
  split; [|vm_compute; split; reflexivity].
  apply (wellformed_request_accepted ex_cr ex_blocks ltac:(vm_compute; discriminate) ex_wt file_empty 5 ex_sg
           ex_lookups5 ltac:(vm_compute; reflexivity) ltac:(vm_compute; reflexivity) ltac:(vm_compute; reflexivity)
           ltac:(vm_compute; discriminate) ex_rt file_empty 5 ltac:(vm_compute; reflexivity) ltac:(vm_compute; reflexivity)
           ltac:(vm_compute; reflexivity) ltac:(lia) ex_rt_stored
           ex_key ltac:(vm_compute; reflexivity) ltac:(vm_compute; reflexivity) ex_rq_seek2 ex_rq_seek2_wf).
Qed.

Print Assumptions ex_seek_section_accepted.

(* ---------- further classes on the instance ---------- *)

Ltac wf_arith := first [exact I | reflexivity | (vm_compute; reflexivity) | (vm_compute; discriminate)].

(* hash of the node 5 = (depth 1, offset 1) + upgrade 0..5, sent by the empty replica *)
Definition ex_rq_hash_first : request := mkRequest None (Some (mkReqBlock 5 0)) None (Some (mkReqUpgrade 0 5)).
Example ex_rq_hash_first_wf : wf_request ex_blocks empty_tree file_empty 5 ex_rq_hash_first.
Proof.
  split; [cbn; repeat split; wf_arith|].
  cbn [ex_rq_hash_first rq_block rq_hash rq_seek rq_upgrade rb_index rb_nodes rq_target ru_start ru_length].
  unfold wf_node. cbv zeta. split; [wf_arith|]. right. split; wf_arith.
Qed.

(* seek to byte 4 + upgrade 0..3, sent by the empty replica *)
Definition ex_rq_seek_first : request := mkRequest None None (Some (mkReqSeek 4)) (Some (mkReqUpgrade 0 3)).
Example ex_rq_seek_first_wf : wf_request ex_blocks empty_tree file_empty 5 ex_rq_seek_first.
Proof. split; [cbn; repeat split; wf_arith|]. cbn. lia. Qed.

(* hash of the node 1 = (depth 1, offset 0) with the synced replica's own count 1 and a seek to byte 5 *)
Definition ex_rq_seek_hash : request := mkRequest None (Some (mkReqBlock 1 1)) (Some (mkReqSeek 5)) None.
Example ex_rq_seek_hash_wf : wf_request ex_blocks ex_rt file_empty 5 ex_rq_seek_hash.
Proof.
  split; [exact I|].
  cbn [ex_rq_seek_hash rq_block rq_hash rq_seek rq_upgrade rb_index rb_nodes rq_target].
  unfold wf_node. cbv zeta. split; [wf_arith|]. left.
  split; [wf_arith|]. split; [wf_arith|]. split; [wf_arith|].
  unfold seek_ok, seek_in_range. cbn [rs_bytes]. split; [wf_arith|]. left. wf_arith.
Qed.

(* hash of the leaf 0 with the count 1 of the replica of length 3, a seek to byte 2 and the upgrade 3..5 *)
Definition ex_rq_seek_hash_up : request :=
  mkRequest None (Some (mkReqBlock 0 1)) (Some (mkReqSeek 2)) (Some (mkReqUpgrade 3 2)).
Example ex_rq_seek_hash_up_wf : wf_request ex_blocks ex_r3 file_empty 5 ex_rq_seek_hash_up.
Proof.
  split; [cbn; repeat split; wf_arith|].
  cbn [ex_rq_seek_hash_up rq_block rq_hash rq_seek rq_upgrade rb_index rb_nodes rq_target ru_start ru_length].
  unfold wf_node. cbv zeta. split; [wf_arith|]. left.
  split; [wf_arith|]. split; [wf_arith|]. split; [wf_arith|].
  unfold seek_ok, seek_in_range. cbn [rs_bytes]. split; [wf_arith|]. left. wf_arith.
Qed.

Example ex_more_classes_accepted :
  accepted ex_cr ex_blocks ex_wt file_empty empty_tree file_empty 5 ex_sg ex_key ex_rq_hash_first /\
  accepted ex_cr ex_blocks ex_wt file_empty empty_tree file_empty 5 ex_sg ex_key ex_rq_seek_first /\
  accepted ex_cr ex_blocks ex_wt file_empty ex_rt file_empty 5 ex_sg ex_key ex_rq_seek_hash /\
  accepted ex_cr ex_blocks ex_wt file_empty ex_r3 file_empty 5 ex_sg ex_key ex_rq_seek_hash_up.
Proof.
  pose proof (wellformed_request_accepted ex_cr ex_blocks ltac:(vm_compute; discriminate) ex_wt file_empty 5 ex_sg
           ex_lookups5 ltac:(vm_compute; reflexivity) ltac:(vm_compute; reflexivity) ltac:(vm_compute; reflexivity)
           ltac:(vm_compute; discriminate)) as Hacc.
  split; [|split; [|split]].
  - apply (Hacc empty_tree file_empty 0 eq_refl eq_refl eq_refl ltac:(lia) ex_empty_stored
             ex_key ltac:(vm_compute; reflexivity) ltac:(vm_compute; reflexivity) _ ex_rq_hash_first_wf).
  - apply (Hacc empty_tree file_empty 0 eq_refl eq_refl eq_refl ltac:(lia) ex_empty_stored
             ex_key ltac:(vm_compute; reflexivity) ltac:(vm_compute; reflexivity) _ ex_rq_seek_first_wf).
  - apply (Hacc ex_rt file_empty 5 ltac:(vm_compute; reflexivity) ltac:(vm_compute; reflexivity)
             ltac:(vm_compute; reflexivity) ltac:(lia) ex_rt_stored
             ex_key ltac:(vm_compute; reflexivity) ltac:(vm_compute; reflexivity) _ ex_rq_seek_hash_wf).
  - apply (Hacc ex_r3 file_empty 3 ltac:(vm_compute; reflexivity) ltac:(vm_compute; reflexivity)
             ltac:(vm_compute; reflexivity) ltac:(lia) ex_r3_stored
             ex_key ltac:(vm_compute; reflexivity) ltac:(vm_compute; reflexivity) _ ex_rq_seek_hash_up_wf).
Qed.

(* what these proofs carry, computed *)
Example ex_more_classes_computed :
  (match create_valueless_proof ex_wt file_empty None (Some (mkReqBlock 5 0)) None (Some (mkReqUpgrade 0 5)) with
   | Ok vp => option_map (fun h => map n_index (dh_nodes h)) (vp_hash vp) = Some [5; 1] /\
              option_map (fun u => map n_index (du_nodes u)) (vp_upgrade vp) = Some [8]
   | _ => False end) /\
  (match create_valueless_proof ex_wt file_empty None None (Some (mkReqSeek 4)) (Some (mkReqUpgrade 0 3)) with
   | Ok vp => option_map (fun s => map n_index (ds_nodes s)) (vp_seek vp) = Some [4] /\
              option_map (fun u => (map n_index (du_nodes u), map n_index (du_additional u))) (vp_upgrade vp) = Some ([1], [6; 8])
   | _ => False end) /\
  (match create_valueless_proof ex_wt file_empty None (Some (mkReqBlock 1 1)) (Some (mkReqSeek 5)) None with
   | Ok vp => option_map (fun h => map n_index (dh_nodes h)) (vp_hash vp) = Some [1] /\
              option_map (fun s => map n_index (ds_nodes s)) (vp_seek vp) = Some [6; 4]
   | _ => False end).
Proof. vm_compute. repeat split; reflexivity. Qed.

Print Assumptions ex_more_classes_accepted.

(* DiskFile.v — executable model of the disk backend: random-access-disk 3.0.1 (src/lib.rs, src/unix.rs, src/default.rs)
   over an abstract OS file.
   Mirrors, statement by statement: Builder::build (the tracked length is read from the file's metadata),
   RandomAccessDisk::{write, read, del, truncate, len} and the two `trim` functions (unix.rs, linux branch: fallocate with
   FALLOC_FL_PUNCH_HOLE | FALLOC_FL_KEEP_SIZE; default.rs: a write of zeros).

   The OS file.  A byte list plus the cursor of the open file description, with POSIX semantics:
   * lseek never fails and never changes the file; a write beyond the end zero-fills the gap; `write_all(&[])` issues no
     write at all (and a write(2) of zero bytes to a regular file changes nothing), so it does NOT extend the file;
   * one read(2) returns the bytes between the cursor and the end of the file, at most as many as asked for (a short count at
     the end of the file, 0 behind it) — and at most `cap` bytes when the runtime caps a single read (tokio's File reads at
     most `max_buf_size` = 2 MiB per call; async-std's does not cap): `dc_read_cap`;
   * ftruncate (`set_len`) cuts or zero-extends and leaves the cursor alone;
   * a punched hole reads as zeros and never changes the size (FALLOC_FL_KEEP_SIZE); a hole (partly) beyond the end of
     the file is legal and changes nothing there.
   `sync_all` (after every mutating call when `auto_sync`, and in `sync_all()`) has no effect on the content: not modelled.
   Not modelled: I/O errors of the OS (ENOSPC, EOPNOTSUPP of fallocate on file systems without hole punching, ...),
   the macOS `trim` (zeroes the unaligned ends by writes and punches the aligned middle with F_PUNCHHOLE: the same logical
   effect as the two variants here), windows.rs.

   Conventions.
   * `u64` arithmetic is unbounded N here: the model agrees with the Rust code as long as no intermediate value overflows;
     the largest intermediate values are `offset + data.len()` / `offset + length`, and offsets are passed to the OS as
     `off_t` (i64): every offset + length must stay < 2^63.
   * The observations and the operation type are those of PagedMem.v (`op`, `obs`), so that the three backends run on the
     same histories; `dop` adds `Reopen` (drop the struct, build it again on the same file).
   No proofs in this file. *)
From HC Require Export Base NMap Storage PagedMem.

(* ---------- the OS file ---------- *)

Record osfile := mkOs { os_data : list N; os_pos : N }.

Definition os_empty : osfile := mkOs [] 0.

(* metadata().len() *)
Definition os_size (f : osfile) : N := len (os_data f).

(* file.seek(SeekFrom::Start(off)) *)
Definition os_seek (f : osfile) (off : N) : osfile := mkOs (os_data f) off.

(* the bytes of a file after writing `d` at position `a` *)
Definition b_pwrite (l : list N) (a : N) (d : list N) : list N :=
  match d with
  | [] => l
  | _ :: _ => l_take a l ++ zeros_n (a - len l) ++ d ++ l_drop (a + len d) l
  end.

(* file.write_all(d) at the cursor *)
Definition os_write_all (f : osfile) (d : bytes) : osfile :=
  mkOs (b_pwrite (os_data f) (os_pos f) d) (os_pos f + len d).

(* one file.read(&mut buf) with buf.len() = n: the bytes it delivered (its return value is their number) *)
Definition os_read (cap : option N) (f : osfile) (n : N) : osfile * bytes :=
  let k := match cap with Some c => N.min n c | None => n end in
  let got := l_slice (os_data f) (os_pos f) k in
  (mkOs (os_data f) (os_pos f + len got), got).

(* file.set_len(n) *)
Definition os_set_len (f : osfile) (n : N) : osfile :=
  mkOs (l_take n (os_data f) ++ zeros_n (n - len (os_data f))) (os_pos f).

(* fallocate(fd, FALLOC_FL_PUNCH_HOLE | FALLOC_FL_KEEP_SIZE, off, n) *)
Definition os_punch (f : osfile) (off n : N) : osfile :=
  mkOs (l_zero (os_data f) off (off + n)) (os_pos f).

(* ---------- the struct ---------- *)

(* compile-time / runtime configuration: feature "sparse" on linux (true: unix.rs trim) or not (false: default.rs trim);
   the cap on a single read of the async runtime's File (None: no cap) *)
Record dcfg := mkDcfg { dc_sparse : bool; dc_read_cap : option N }.

(* the fields `file` and `length` (filename, block_size — unused on linux —, auto_sync have no influence) *)
Record rad := mkRad { rad_file : osfile; rad_length : N }.

(* Builder::build on an existing (or just created, empty) file: OpenOptions .. open, cursor at 0;
   get_length_and_block_size: length = metadata.len() *)
Definition rad_open (data : list N) : rad := mkRad (mkOs data 0) (len data).

Definition rad_new : rad := rad_open [].

(* async fn write(&mut self, offset, data) -> Ok(()) *)
Definition rad_write (d : rad) (offset : N) (data : bytes) : rad :=
  let file := os_write_all (os_seek (rad_file d) offset) data in
  (* We've changed the length of our file. *)
  let new_len := offset + len data in
  mkRad file (if rad_length d <? new_len then new_len else rad_length d).

(* async fn read(&mut self, offset, length); None = Err(OutOfBounds).
   `let mut buffer = vec![0; length]; seek; let _bytes_read = file.read(&mut buffer[..])?; Ok(buffer)`:
   ONE read call whose count is ignored; what it did not deliver stays zero *)
Definition rad_read (cfg : dcfg) (d : rad) (offset length : N) : rad * option bytes :=
  if rad_length d <? offset + length then (d, None)
  else
    let rg := os_read (dc_read_cap cfg) (os_seek (rad_file d) offset) length in
    (mkRad (fst rg) (rad_length d), Some (snd rg ++ zeros_n (length - len (snd rg)))).

(* trim(file, offset, length, block_size) *)
Definition rad_trim (cfg : dcfg) (file : osfile) (offset length : N) : osfile :=
  if dc_sparse cfg then os_punch file offset length
  else os_write_all (os_seek file offset) (zeros_n length).

(* async fn truncate(&mut self, length) -> Ok(()) *)
Definition rad_truncate (d : rad) (length : N) : rad :=
  mkRad (os_set_len (rad_file d) length) length.

(* async fn del(&mut self, offset, length); None = Err(OutOfBounds) *)
Definition rad_del (cfg : dcfg) (d : rad) (offset length : N) : option rad :=
  if rad_length d <? offset then None
  else if length =? 0 then Some d                                          (* No-op *)
  (* Delete is truncate if up to the current length or more is deleted *)
  else if rad_length d <=? offset + length then Some (rad_truncate d offset)
  else Some (mkRad (rad_trim cfg (rad_file d) offset length) (rad_length d)).

(* async fn len(&mut self) *)
Definition rad_len (d : rad) : N := rad_length d.

(* drop (closes the file; its bytes stay) followed by Builder::build on the same path *)
Definition rad_reopen (d : rad) : rad := rad_open (os_data (rad_file d)).

(* ---------- operation histories ---------- *)

Inductive dop :=
| Dop (o : op)
| Reopen.

Definition rad_step (cfg : dcfg) (d : rad) (o : op) : rad * obs :=
  match o with
  | W off data => (rad_write d off data, ODone)
  | R off n => let dr := rad_read cfg d off n in
               (fst dr, match snd dr with Some bs => OBytes bs | None => OOutOfBounds end)
  | D off n => match rad_del cfg d off n with Some d' => (d', ODone) | None => (d, OOutOfBounds) end
  | T n => (rad_truncate d n, ODone)
  | L => (d, OLen (rad_len d))
  end.

Definition rad_dstep (cfg : dcfg) (d : rad) (o : dop) : rad * obs :=
  match o with
  | Dop o => rad_step cfg d o
  | Reopen => (rad_reopen d, ODone)
  end.

(* the flat file of Storage.v stays what it is when the store is closed and opened again *)
Definition file_dstep (f : file) (o : dop) : file * obs :=
  match o with
  | Dop o => file_step f o
  | Reopen => (f, ODone)
  end.

Fixpoint rad_steps (cfg : dcfg) (d : rad) (ops : list op) : list obs * rad :=
  match ops with
  | [] => ([], d)
  | o :: rest => let ro := rad_step cfg d o in
                 let k := rad_steps cfg (fst ro) rest in
                 (snd ro :: fst k, snd k)
  end.

Fixpoint rad_dsteps (cfg : dcfg) (d : rad) (ops : list dop) : list obs * rad :=
  match ops with
  | [] => ([], d)
  | o :: rest => let ro := rad_dstep cfg d o in
                 let k := rad_dsteps cfg (fst ro) rest in
                 (snd ro :: fst k, snd k)
  end.

Fixpoint file_dsteps (f : file) (ops : list dop) : list obs * file :=
  match ops with
  | [] => ([], f)
  | o :: rest => let fo := file_dstep f o in
                 let k := file_dsteps (fst fo) rest in
                 (snd fo :: fst k, snd k)
  end.

(* the whole content, as read back through the public interface (by reads that each fit one read call) *)
Definition rad_content (d : rad) : bytes :=
  match snd (rad_read (mkDcfg true None) d 0 (rad_length d)) with Some bs => bs | None => [] end.

(* the bytes of the file as the OS has them (what another process, or the next `open`, sees) *)
Definition rad_raw (d : rad) : bytes := os_data (rad_file d).

(* observations of a history from a fresh empty file, the final content through the interface, the final file *)
Definition run_rad (cfg : dcfg) (ops : list dop) : list obs * bytes * bytes :=
  let k := rad_dsteps cfg rad_new ops in (fst k, rad_content (snd k), rad_raw (snd k)).

Definition run_dfile (ops : list dop) : list obs * bytes :=
  let k := file_dsteps file_empty ops in (fst k, f_content (snd k)).

(* ---------- where disk and flat file part: a zero-length write beyond the end ---------- *)

(* `write(off, &[])` with off > length: `length` becomes off, the file keeps its size (no write reaches the OS).
   The flat file (and random-access-memory) grow with zeros. *)
Definition op_tight (cur_len : N) (o : op) : bool :=
  match o with
  | W off [] => off <=? cur_len
  | _ => true
  end.

(* no operation of the history is such a write (lengths followed along the flat file) *)
Fixpoint ops_tight (f : file) (ops : list dop) : bool :=
  match ops with
  | [] => true
  | Dop o :: rest => op_tight (f_len f) o && ops_tight (fst (file_step f o)) rest
  | Reopen :: rest => ops_tight f rest
  end.

(* every read fits one read call of the runtime *)
Definition op_read_fits (cfg : dcfg) (o : op) : bool :=
  match o, dc_read_cap cfg with
  | R _ n, Some c => n <=? c
  | _, _ => true
  end.

Definition dop_read_fits (cfg : dcfg) (o : dop) : bool :=
  match o with Dop o => op_read_fits cfg o | Reopen => true end.

(* AnyReopen2.v -- replica histories WITH REOPEN after proofs of any shape (C04, C09).
   Libraries: AnyReopenA-D.v, AnyReopen1.v.  Examples and observations about the crate: AnyReopen2Ex.v.

   1. (C04) any_history_with_reopen_sound: histories over {apply a proof of ANY shape with any flush decision and
      ANY outcome, get, has, info, close-and-reopen}, from any state satisfying AnyReopen1's invariant HDInvR (in
      particular from a fresh replica: fresh_any_history_with_reopen_sound): at EVERY point of the history the
      invariant holds again -- hence the C04 content of AnyReopen1.HInvR_content / HDInvR_content
      (c04_content, any_history_with_reopen_content): hashes, roots' hashes and indices, length, fork, signature,
      availability; every reopen succeeds without touching the storage -- or a hash collision / a forged signature
      is exhibited.  The length never decreases and nothing held is lost.
   2. (C09) after such histories (hostile sizes in the stored roots included):
      history_create_proof_returns   core_create_proof returns a value or an error for every request with fields
                                     below 2^40, and changes nothing;
      history_apply_returns          core_apply_proof returns a value or an error for every wire proof under the
                                     bounds of C09_apply_any_returns; the only panic left is the 2^30 guard of the
                                     ENTRY frame.
      New compared with AnyProofCor.v: accepted_path_sizesR (the checked subtraction "node.length - parent.length"
      of byte_offset_in_changeset never underflows although the roots in memory may carry sizes the writer never
      signed: no root the replica held lies ON the path above the carried block), HDInvR_tree_wf.
      announced_sizes_fit_any is a hypothesis about the byte length IN MEMORY, which after a reopen is the sum of
      stored sizes a peer chose: see AnyReopen2Ex.v for what that sum can be. *)
From HC Require Import Base NMap Codec CodecFacts Crypto FlatTree Storage Bitfield Oplog Merkle Core.
From HC Require Import FlatTreeFacts StorageFacts BitfieldFacts OplogFacts TreeRef OffsetFacts CoreFacts Crash Refine.
From HC Require Import ClearRefine Reopen ContigBridge Unified1 Unified2 CrashCore1 CrashCore2 CrashClear1.
From HC Require Import Sound NoPanic Replicate SoundCoreLib SoundCore SoundCoreUp SoundCoreBU NoPanic2
                       EventsAvail CacheModel CacheOps ReplicaCor ReplicaCorA.
From HC Require Import ReplicaDisk1 ReplicaDisk2 ReplicaDisk3 AnyProofLib AnyProofUp AnyProof AnyProofCorLib
                       AnyReopenA AnyReopenB AnyReopenC AnyReopenD AnyReopen1.
From Coq Require Import FMapPositive ZifyN ZifyNat ZifyBool.
Ltac Zify.zify_post_hook ::= Z.div_mod_to_equations.
Arguments N.add : simpl never.
Arguments N.sub : simpl never.
Arguments N.mul : simpl never.
Arguments N.div : simpl never.
Arguments N.modulo : simpl never.
Arguments N.pow : simpl never.
Arguments N.eqb : simpl never.
Arguments N.ltb : simpl never.
Arguments N.leb : simpl never.
Arguments N.max : simpl never.
Arguments N.min : simpl never.
Arguments N.of_nat : simpl never.
Arguments N.to_nat : simpl never.

(* ====================================================================================== *)
(* 1. Histories with reopen                                                                *)
(* ====================================================================================== *)

Inductive hop :=
| HApply (f : option bool) (pf : proof)     (* verify_and_apply_proof, any flush decision, any outcome *)
| HGet (i : N)
| HHas (i : N)
| HInfo
| HReopen.                                   (* close and open again (builder.open(true), no key pair given) *)

(* the proofs are what the wire decoder can produce *)
Definition hop_ok (o : hop) : Prop := match o with HApply _ pf => proof_wireS pf | _ => True end.

Section Run.
  Variable cr : crypto.

  (* the state after one call; a reopen that fails keeps the old instance (it never fails under the invariant) *)
  Definition run_hop (o : hop) (c : core) (w : world) : core * world :=
    match o with
    | HApply f pf => fst (core_apply_proof cr f pf c w)
    | HGet i => fst (core_get i c w)
    | HHas _ | HInfo => (c, w)
    | HReopen =>
        match core_open cr None true (w_disk w) with
        | (d', ops, Ok c') => (c', mkWorld d' (rev ops ++ w_journal w) (w_events w))
        | (d', ops, _) => (c, mkWorld d' (rev ops ++ w_journal w) (w_events w))
        end
    end.

  Fixpoint run_hops (l : list hop) (c : core) (w : world) : core * world :=
    match l with
    | [] => (c, w)
    | o :: r => let '(c1, w1) := run_hop o c w in run_hops r c1 w1
    end.

  Lemma run_hops_app l1 : forall l2 c w,
    run_hops (l1 ++ l2) c w = let '(c1, w1) := run_hops l1 c w in run_hops l2 c1 w1.
  Proof.
    induction l1 as [|o l1 IH]; intros l2 c w; cbn [app run_hops]; [reflexivity|].
    destruct (run_hop o c w) as [c1 w1]. apply IH.
  Qed.
End Run.

Section Hist.
  Variable cr : crypto.
  Hypothesis Hcrc : crc_ok cr.
  Hypothesis Hhash32 : forall x, length (cr_hash cr x) = 32%nat.
  Hypothesis Hnonblank : forall x, all_zero (cr_hash cr x) = false.
  Hypothesis Hhashbytes : forall x, bytes_ok (cr_hash cr x) = true.
  Variable bs : list bytes.               (* the writer's blocks *)
  Hypothesis Hw : writer_fits bs.

  (* what a later state keeps of an earlier one *)
  Definition hist_rel (c : core) (H : N -> bool) (c' : core) (H' : N -> bool) : Prop :=
    c_keypair c' = c_keypair c /\ t_length (c_tree c) <= t_length (c_tree c') /\
    (forall i, H i = true -> H' i = true).

  Lemma hold_mono H ob i : H i = true -> hold H ob i = true.
  Proof. unfold hold. intros E. destruct ob as [b|]; [rewrite E; apply orb_true_r|exact E]. Qed.

  (* one call, whatever its outcome *)
  Lemma hop_step o c w H c' w' :
    HDInvR cr bs c (w_disk w) H -> hop_ok o -> run_hop cr o c w = (c', w') ->
    (exists H', HDInvR cr bs c' (w_disk w') H' /\ hist_rel c H c' H') \/
    some_collision cr \/ forged_signature cr bs (kp_public (c_keypair c)).
  Proof.
    intros X Hop Hrun.
    assert (Same : c' = c -> w_disk w' = w_disk w ->
                   (exists H', HDInvR cr bs c' (w_disk w') H' /\ hist_rel c H c' H') \/
                   some_collision cr \/ forged_signature cr bs (kp_public (c_keypair c))).
    { intros -> Ed. left. exists H. rewrite Ed. split; [exact X|]. split; [reflexivity|]. split; [lia|auto]. }
    destruct o as [f pf|i|i| |]; cbn [hop_ok run_hop] in *.
    - destruct (core_apply_proof cr f pf c w) as [[c1 w1] r] eqn:Ea. cbn [fst] in Hrun. injection Hrun as <- <-.
      destruct (apply_any_outcome_keeps_HDInvR cr Hcrc Hhash32 Hnonblank Hhashbytes bs Hw f pf c w H c1 w1 r X Hop Ea)
        as [(_ & X' & K & Mono & _)|[(-> & -> & _)|[(_ & -> & X')|[C|F]]]].
      + left. exists (hold H (p_block pf)). split; [exact X'|]. split; [exact K|]. split; [exact Mono|].
        intros i Hi. apply hold_mono, Hi.
      + apply Same; reflexivity.
      + left. exists H. split; [exact X'|]. split; [reflexivity|]. split; [lia|auto].
      + right. left. exact C.
      + right. right. exact F.
    - destruct (core_get i c w) as [[c1 w1] r] eqn:Eg. cbn [fst] in Hrun. injection Hrun as <- <-.
      destruct (core_get_quiet i _ _ _ _ _ Eg) as (E1 & E2 & _). apply Same; assumption.
    - injection Hrun as <- <-. apply Same; reflexivity.
    - injection Hrun as <- <-. apply Same; reflexivity.
    - destruct (reopen_reestablishes_invariant cr Hcrc Hhash32 Hnonblank Hhashbytes bs Hw c (w_disk w) H X)
        as (c2 & E & X' & El & Ek & _). rewrite E in Hrun. injection Hrun as <- <-. cbn [w_disk].
      left. exists H. split; [exact X'|]. split; [exact Ek|]. split; [lia|auto].
  Qed.

  (* the invariant along histories; applied to every prefix of a history it speaks about EVERY point *)
  Theorem any_history_with_reopen_sound ops : forall c w H c' w',
    HDInvR cr bs c (w_disk w) H -> Forall hop_ok ops -> run_hops cr ops c w = (c', w') ->
    (exists H', HDInvR cr bs c' (w_disk w') H' /\ hist_rel c H c' H') \/
    some_collision cr \/ forged_signature cr bs (kp_public (c_keypair c)).
  Proof.
    induction ops as [|o rest IH]; intros c w H c' w' X Hops Hrun; cbn [run_hops] in Hrun.
    - injection Hrun as <- <-. left. exists H. split; [exact X|]. split; [reflexivity|]. split; [lia|auto].
    - destruct (run_hop cr o c w) as [c1 w1] eqn:S1. inversion Hops as [|o' rest' Ho Hrest]; subst.
      destruct (hop_step o c w H c1 w1 X Ho S1) as [(H1 & X1 & K1 & M1 & Sub1)|[C|F]];
        [|right; left; exact C|right; right; exact F].
      destruct (IH c1 w1 H1 c' w' X1 Hrest Hrun) as [(H2 & X2 & K2 & M2 & Sub2)|[C|F]];
        [left|right; left; exact C|right; right; rewrite <- K1; exact F].
      exists H2. split; [exact X2|]. split; [congruence|]. split; [lia|]. intros i Hi. apply Sub2, Sub1, Hi.
  Qed.

  Corollary any_history_with_reopen_every_point ops pre post c w H c' w' :
    HDInvR cr bs c (w_disk w) H -> Forall hop_ok ops -> ops = pre ++ post -> run_hops cr pre c w = (c', w') ->
    (exists H', HDInvR cr bs c' (w_disk w') H' /\ hist_rel c H c' H') \/
    some_collision cr \/ forged_signature cr bs (kp_public (c_keypair c)).
  Proof.
    intros X Hops -> Hrun. apply Forall_app in Hops as [Hpre _].
    apply (any_history_with_reopen_sound pre c w H c' w' X Hpre Hrun).
  Qed.

  (* the C04 content of a state: what AnyReopen1.HInvR_content and HDInvR_content say *)
  Definition c04_content (c : core) (d : disk) (H : N -> bool) : Prop :=
    let t := c_tree c in let r := t_length t in
    (* length, fork: a length at which the writer signed *)
    i_length (core_info c) = r /\ r <= N.of_nat (length bs) /\ i_fork (core_info c) = 0 /\
    signed_by_writer cr bs (signable (tree_hash cr (ref_roots cr bs r)) r 0) /\
    (* the roots in memory: the writer's indices and hashes; the byte length is the sum of their sizes *)
    map n_index (t_roots t) = map n_index (ref_roots cr bs r) /\
    map n_hash (t_roots t) = map n_hash (ref_roots cr bs r) /\
    i_byte_length (core_info c) = lens (t_roots t) /\
    (* every node that can be looked up carries the writer's hash at its index, inside the tree *)
    (forall j nd, required_node t (d_tree d) j = Ok nd ->
       n_index nd = j /\ n_hash nd = n_hash (ref_at cr bs j) /\ in_len r j) /\
    (* the signature the tree carries is the writer's for this length *)
    (r = 0 \/ exists sg, t_signature t = Some sg /\ length sg = 64%nat /\
                         cr_verify cr (kp_public (c_keypair c))
                           (signable (tree_hash cr (ref_roots cr bs r)) r 0) sg = true) /\
    (* availability *)
    (forall i, core_has c i = H i) /\ (forall i, H i = true -> i < r) /\
    fexact H (i_contiguous (core_info c)) /\ i_writeable (core_info c) = false.

  Lemma HDInvR_c04_content c d H : HDInvR cr bs c d H -> c04_content c d H.
  Proof.
    intros X.
    destruct (HDInvR_content cr bs c d H X) as (W & Sg & Hb & Hbd & Hex & Hwr & _).
    destruct (HInvR_content cr bs c d W) as (A1 & A2 & A3 & A4 & A5 & A6 & A7 & _ & A9).
    unfold c04_content. cbv zeta. repeat (split; [assumption|]). exact Hwr.
  Qed.

  (* PIN-ABLE: at every point of a history with reopens the C04 content holds, and every reopen in it
     succeeded -- or a collision / a forged signature is exhibited *)
  Theorem any_history_with_reopen_content ops pre post c w H c' w' :
    HDInvR cr bs c (w_disk w) H -> Forall hop_ok ops -> ops = pre ++ post -> run_hops cr pre c w = (c', w') ->
    (exists H', c04_content c' (w_disk w') H' /\ hist_rel c H c' H' /\
                exists c2, core_open cr None true (w_disk w') = (w_disk w', [], Ok c2) /\
                           t_length (c_tree c2) = t_length (c_tree c') /\
                           (forall i, core_has c2 i = core_has c' i)) \/
    some_collision cr \/ forged_signature cr bs (kp_public (c_keypair c)).
  Proof.
    intros X Hops E Hrun.
    destruct (any_history_with_reopen_every_point ops pre post c w H c' w' X Hops E Hrun)
      as [(H' & X' & R)|[C|F]]; [left|right; left; exact C|right; right; exact F].
    exists H'. split; [apply HDInvR_c04_content, X'|]. split; [exact R|].
    destruct (reopen_reestablishes_invariant cr Hcrc Hhash32 Hnonblank Hhashbytes bs Hw c' (w_disk w') H' X')
      as (c2 & E2 & _ & El & _ & _ & Eh & _).
    exists c2. split; [exact E2|]. split; [exact El|exact Eh].
  Qed.

  (* ... in particular from a FRESH replica (core_open on an empty disk with a public key only) *)
  Corollary fresh_any_history_with_reopen_sound kp ops pre post :
    keypair_ok kp = true -> kp_secret kp = None -> Forall hop_ok ops -> ops = pre ++ post ->
    exists d0 ops0 c0,
      core_open cr (Some kp) false disk_empty = (d0, ops0, Ok c0) /\
      forall j ev c' w',
        run_hops cr pre c0 (mkWorld d0 j ev) = (c', w') ->
        (exists H', HDInvR cr bs c' (w_disk w') H' /\ c04_content c' (w_disk w') H' /\ c_keypair c' = kp) \/
        some_collision cr \/ forged_signature cr bs (kp_public kp).
  Proof.
    intros Hk Hs Hops E.
    destruct (fresh_replica_HDInvR cr Hcrc Hhash32 Hnonblank Hhashbytes bs Hw kp Hk Hs) as (d0 & ops0 & c0 & Eo & X & K & _).
    exists d0, ops0, c0. split; [exact Eo|]. intros j ev c' w' Hrun. rewrite <- K.
    destruct (any_history_with_reopen_every_point ops pre post c0 (mkWorld d0 j ev) _ c' w' X Hops E Hrun)
      as [(H' & X' & K' & _)|[C|F]]; [left|right; left; exact C|right; right; exact F].
    exists H'. split; [exact X'|]. split; [apply HDInvR_c04_content, X'|exact K'].
  Qed.
End Hist.

(* ====================================================================================== *)
(* 2. C09 after histories with reopen                                                      *)
(* ====================================================================================== *)

Section PathSizesR.
  Variable cr : crypto.
  Hypothesis Hhash32 : forall x, length (cr_hash cr x) = 32%nat.
  Variable bs : list bytes.
  Hypothesis Hw : writer_fits bs.

  Lemma pdisj_indices : forall l l', map n_index l = map n_index l' -> pdisj l -> pdisj l'.
  Proof.
    induction l as [|x l IH]; intros [|y l'] E H; cbn [map] in E; try discriminate; [exact I|].
    injection E as Ex El. cbn [pdisj] in *. destruct H as [H1 H2]. split; [|apply (IH l' El H2)].
    intros z i Hz Cy Cz.
    assert (Hzi : In (n_index z) (map n_index l)) by (rewrite El; apply in_map, Hz).
    apply in_map_iff in Hzi as (z0 & Ez & Hz0).
    apply (H1 z0 i Hz0); unfold covers in *; [rewrite Ex; exact Cy|rewrite Ez; exact Cz].
  Qed.

  Lemma hroots_cover rs r i : hroots cr bs rs r -> i < r -> exists G, In G rs /\ covers G i.
  Proof.
    intros [E _] Hi. destruct (ref_roots_cover cr bs r i Hi) as (G & HG & Hc).
    assert (Hin : In (n_index G) (map n_index rs)) by (rewrite E, <- (ref_roots_indices cr bs r); apply in_map, HG).
    apply in_map_iff in Hin as (G' & EG & HG'). exists G'. split; [exact HG'|].
    unfold covers in *. rewrite EG. exact Hc.
  Qed.

  (* AnyProofCorLib.accepted_path_sizes for a tree whose roots are known at the hash level only *)
  Theorem accepted_path_sizesR t tf pf pk cs m b :
    t_length t <= N.of_nat (length bs) -> hroots cr bs (t_roots t) (t_length t) ->
    hunfl_sound cr bs t (t_length t) -> hfile_sound cr bs tf (t_length t) ->
    proof_wire pf -> tree_root_fits cr pf t ->
    verify_proof cr t tf pf pk = Ok cs -> acceptedR cr bs t tf pf pk cs m ->
    p_block pf = Some b ->
    (path_sizes cr bs (cs_nodes cs) (db_index b) /\ 2 * db_index b <= u64_max) \/ some_collision cr.
  Proof.
    intros Hr HR Hu Hf [Wvt Wup] Hfits V Acc Eb. destruct Hw as [Hw1 Hw2].
    apply verify_proof_accept_inv in V. destruct V as (root & c1 & Hv & H).
    pose proof (verify_tree_frame cr _ _ _ _ _ _ Hv) as (_ & _ & _ & _ & _ & F6 & _).
    cbn [tree_changeset cs_roots] in F6.
    destruct (verify_tree_block cr Hhash32 _ _ _ _ _ _ b Hv Wvt Eb) as (vs & steps & r & Eroot & Rv & Hch & Hfit & Hvs).
    cbn [tree_changeset cs_rnodes] in Rv. rewrite app_nil_r in Rv.
    set (i := db_index b) in *. set (cur := block_node cr (2 * i) (db_value b)) in *.
    assert (Hcur : n_index cur = ft_index (N.of_nat 0) i).
    { unfold cur. cbn [block_node n_index]. change (N.of_nat 0) with 0. symmetry. apply ft_index_leaf. }
    (* the two kinds of sizes the hash chain determines *)
    assert (Hleaf : wsize cr bs cur).
    { destruct (acr_block _ _ _ _ _ _ _ _ Acc b Eb) as (Ev & _ & _).
      unfold wsize, cur. cbn [block_node n_index n_length].
      replace (2 * i) with (ft_index (N.of_nat 0) i) by (change (N.of_nat 0) with 0; apply ft_index_leaf).
      rewrite ref_at_index. cbn [ref_node block_node n_length]. unfold i. rewrite Ev. reflexivity. }
    assert (Hcomp : forall a b' x, merged_of cr a b' x -> In x (cs_nodes cs) -> wsize cr bs x \/ some_collision cr).
    { intros a b' x M Hx. pose proof (acr_nodes _ _ _ _ _ _ _ _ Acc) as A. rewrite Forall_forall in A.
      destruct (A x Hx) as [AP _].
      destruct (merge_one_h cr Hhash32 bs Hw1 a b' x m M AP) as [(_ & _ & S1 & _)|C]; [left; exact S1|right; exact C]. }
    (* what remains once the list of pushed nodes is known *)
    assert (Hfinish : forall extra,
      cs_nodes cs = (vs ++ cur :: flat steps) ++ extra ->
      (forall x, In x extra -> covers x i -> wsize cr bs x \/ some_collision cr \/
                                             (x = r) \/ exists a b', merged_of cr a b' x) ->
      (path_sizes cr bs (cs_nodes cs) i /\ 2 * i <= u64_max) \/ some_collision cr).
    { intros extra En Hextra.
      assert (Hchain : forall x, In x (cur :: flat steps) -> covers x i -> wsize cr bs x \/ some_collision cr).
      { intros x Hx Hc.
        assert (Hxn : In x (cs_nodes cs)).
        { rewrite En. apply in_or_app. left. apply in_or_app. right. exact Hx. }
        destruct Hx as [<-|Hx]; [left; exact Hleaf|].
        pose proof (chain_made cr _ _ _ Hch) as Hm. rewrite Forall_forall in Hm.
        destruct (Hm x Hx) as [Hs|(a & b' & M & _)].
        + exfalso. destruct (chain_sibs cr _ _ _ _ _ Hch Hcur x Hs) as (k & Hk). cbn [Nat.add] in Hk.
          apply (covers_at x k _ i Hk) in Hc. apply (sib_neq (i / p2 k)). symmetry. exact Hc.
        + apply (Hcomp a b' x M Hxn). }
      assert (Hall : Forall (fun x => covers x i -> wsize cr bs x) (cs_nodes cs) \/ some_collision cr).
      { apply Forall_or_ext. intros x Hx. pose proof Hx as Hxn. rewrite En in Hx.
        apply in_app_or in Hx. destruct Hx as [Hx|Hx].
        - apply in_app_or in Hx. destruct Hx as [Hx|Hx].
          + left. intros Hc. exfalso. apply (Hvs x Hx Hc).
          + destruct (classic_covers x i) as [Hc|Hn]; [|left; intros Hc; contradiction].
            destruct (Hchain x Hx Hc) as [A|C]; [left; intros _; exact A|right; exact C].
        - destruct (classic_covers x i) as [Hc|Hn]; [|left; intros Hc; contradiction].
          destruct (Hextra x Hx Hc) as [A|[C|[->|(a & b' & M)]]].
          + left. intros _. exact A.
          + right. exact C.
          + destruct (Hchain r (chain_root_in cr _ _ _ Hch) Hc) as [A|C]; [left; intros _; exact A|right; exact C].
          + destruct (Hcomp a b' x M Hxn) as [A|C]; [left; intros _; exact A|right; exact C]. }
      destruct Hall as [Hall|C]; [left|right; exact C].
      split; [|exact Hfit]. intros x Hx. rewrite Forall_forall in Hall. apply (Hall x Hx). }
    destruct (p_upgrade pf) as [u|] eqn:Eu.
    - (* with an upgrade section *)
      destruct H as (consumed & c3 & Hvu & _ & _ & _ & _ & _ & Hst).
      destruct (Wup u eq_refl) as [Wn Wa].
      assert (Hri : n_index r = ft_index (N.of_nat (length steps)) (i / p2 (length steps))).
      { apply (chain_index cr _ _ _ 0%nat i Hch Hcur). }
      assert (Hrc : covers r i) by (apply (covers_at r _ _ i Hri); reflexivity).
      assert (Hroot : forall r0, root = Some r0 -> hash32 r0 /\ n_index r0 < 2 ^ 64).
      { intros r0 E. rewrite Eroot in E. injection E as <-. split.
        - apply (chain_root_hash32 cr Hhash32 _ _ _ Hch). unfold hash32, cur. cbn [block_node n_hash]. apply Hhash32.
        - apply u64_lt. apply (Hfits u r c1 Eu). rewrite <- Eroot. exact Hv. }
      assert (HW1 : Forall root_wf (cs_roots c1)).
      { rewrite F6. apply (hroots_wf cr Hhash32 bs (conj Hw1 Hw2) _ _ Hr HR). }
      destruct (verify_upgrade_forest cr Hhash32 c1 (p_fork pf) u root pk consumed cs HW1 Wn Wa Hroot Hvu)
        as (atoms & new & lss & Rn & T & C & Hnew & Hcons).
      assert (Hpd : pdisj (atoms ++ rev (cs_roots c1))).
      { rewrite <- C. apply (forest_pdisj cr _ _ T). apply pdisj_rev.
        destruct (acr_up _ _ _ _ _ _ _ _ Acc u Eu) as (_ & Er & _). rewrite Er. apply ref_roots_pdisj. }
      apply (Hfinish (rev new)).
      + rewrite cs_nodes_rnodes, Rn, Rv, rev_app_distr, rev_involutive. reflexivity.
      + intros x Hx Hc. apply in_rev in Hx. rewrite Forall_forall in Hnew.
        destruct (Hnew x Hx) as [Hat|M]; [|right; right; right; exact M].
        destruct consumed.
        * right. right. left.
          pose proof (Hcons r Eroot eq_refl) as Hra.
          apply (pdisj_same _ x r i Hpd); try assumption; apply in_or_app; left; assumption.
        * exfalso.
          pose proof (stored_hauth cr bs t tf _ r Hu Hf (Hst eq_refl r Eroot)) as [_ Hil].
          rewrite Hri in Hil. apply in_len_index in Hil.
          pose proof (div_p2_bounds i (length steps)) as Bd.
          destruct (hroots_cover _ (t_length t) i HR ltac:(lia)) as (G & HG & HGc).
          apply pdisj_app in Hpd. destruct Hpd as (_ & _ & Hcross).
          apply (Hcross x G i Hat); [|exact Hc|exact HGc].
          apply -> in_rev. rewrite F6. exact HG.
    - (* no upgrade section *)
      destruct H as [-> _].
      apply (Hfinish []).
      + rewrite cs_nodes_rnodes, Rv, rev_involutive, app_nil_r. reflexivity.
      + intros x [].
  Qed.
End PathSizesR.

Section NoPanicR.
  Variable cr : crypto.
  Hypothesis Hcrc : crc_ok cr.
  Hypothesis Hhash32 : forall x, length (cr_hash cr x) = 32%nat.
  Hypothesis Hnonblank : forall x, all_zero (cr_hash cr x) = false.
  Hypothesis Hhashbytes : forall x, bytes_ok (cr_hash cr x) = true.
  Variable bs : list bytes.
  Hypothesis Hw : writer_fits bs.

  Lemma HInvR_tree_shape c d :
    HInvR cr bs c d -> N.of_nat (length bs) < LIM -> t_length (c_tree c) < LIM /\ roots_ok (c_tree c).
  Proof. intros (H1 & _ & [E _] & _) Hn. split; [lia|exact E]. Qed.

  (* the tree of a replica, whatever it went through (hostile sizes, reopens), is well formed *)
  Theorem HDInvR_tree_wf c d H :
    HDInvR cr bs c d H -> N.of_nat (length bs) < LIM -> tree_wf (c_tree c).
  Proof.
    intros (W & _ & _ & Hsg & _) Hn. destruct (HInvR_tree_shape c d W Hn) as [HL HR].
    split; [exact HL|]. split; [exact HR|apply (tsigH_sig_ok cr bs _ _ Hsg)].
  Qed.

  Theorem hdinvR_create_proof_returns c w H block hash seek upgrade c' w' r :
    HDInvR cr bs c (w_disk w) H -> N.of_nat (length bs) < LIM ->
    rblock_lim block = true -> rblock_lim hash = true -> rupgrade_lim upgrade = true ->
    core_create_proof block hash seek upgrade c w = (c', w', r) ->
    returns r = true /\ c' = c /\ w_disk w' = w_disk w /\ w_journal w' = w_journal w.
  Proof.
    intros X Hn Hb Hh Hu Hc.
    exact (core_create_proof_returns block hash seek upgrade c w c' w' r (HDInvR_tree_wf c _ H X Hn) Hb Hh Hu Hc).
  Qed.

  (* the verifier returns on an HInvR tree: "lens roots <= byte length" holds with equality *)
  Lemma hinvR_verifier_returns pf c w :
    HInvR cr bs c (w_disk w) -> N.of_nat (length bs) < LIM ->
    block_lim (p_block pf) = true -> hash_lim (p_hash pf) = true -> seek_lim (p_seek pf) = true ->
    upgrade_nodes_lim pf -> announced_sizes_fit_any c pf ->
    returns (verifier_says cr c w pf) = true.
  Proof.
    intros W Hn Hb Hh Hs Hlim Hsum.
    destruct (HInvR_tree_shape c _ W Hn) as [HL HR].
    unfold verifier_says. apply verify_proof_returns_any_length; try assumption.
    - unfold proof_upgrade_ok. destruct (p_upgrade pf) as [u|] eqn:Eu; [|exact I].
      destruct (Hlim u Eu) as (L1 & _ & _). split; [exact L1|]. split.
      + destruct W as (_ & _ & _ & H4 & _). rewrite H4. lia.
      + exact (Hsum u Eu).
    - apply own_roots_lim_of_shape; assumption.
  Qed.

  Theorem hinvR_block_offset_returns pf c w b cs :
    HInvR cr bs c (w_disk w) -> N.of_nat (length bs) < LIM -> proof_wire pf ->
    p_block pf = Some b -> verifier_says cr c w pf = Ok cs ->
    returns (byte_offset_in_changeset (c_tree c) (d_tree (w_disk w)) (db_index b) cs) = true \/
    some_collision cr \/ forged_signature cr bs (kp_public (c_keypair c)).
  Proof.
    intros W Hn Hwire Eb V. pose proof W as (H1 & H2 & H3 & H4 & H5 & H6).
    pose proof (proof_wire_root_fits cr Hhash32 pf (c_tree c) Hwire) as Hfits.
    destruct (HInvR_tree_shape c _ W Hn) as [HL HR].
    unfold verifier_says in V.
    destruct (verify_proof_acceptedR cr Hhash32 bs Hw _ _ _ _ _ H1 H3 H4 H5 H6 Hwire Hfits V)
      as [(m & Acc)|[C|F]]; [|right; left; exact C|right; right; exact F].
    destruct (accepted_path_sizesR cr Hhash32 bs Hw _ _ _ _ _ m b H1 H3 H5 H6 Hwire Hfits V Acc Eb)
      as [[HP Hfit]|C]; [left|right; left; exact C].
    apply (byte_offset_in_changeset_returns cr bs); try assumption.
    unfold B57, LIM in *. lia.
  Qed.

  (* apply on an HDInvR replica returns a value or an error -- never out of fuel, never a panic other than the
     2^30 guard of the entry frame -- for every wire proof under the bounds of C09_apply_any_returns *)
  Theorem hdinvR_apply_returns f pf c w H c' w' r :
    HDInvR cr bs c (w_disk w) H -> N.of_nat (length bs) < LIM -> proof_wireS pf ->
    block_lim (p_block pf) = true -> hash_lim (p_hash pf) = true -> seek_lim (p_seek pf) = true ->
    upgrade_nodes_lim pf -> announced_sizes_fit_any c pf ->
    core_apply_proof cr f pf c w = (c', w', r) ->
    returns r = true \/ r = Panic frame_msg \/
    some_collision cr \/ forged_signature cr bs (kp_public (c_keypair c)).
  Proof.
    intros X Hn Hws Hb Hh Hs Hlim Hsum Ha. pose proof X as (W & _). pose proof Hws as [Hwire _].
    pose proof (hinvR_verifier_returns pf c w W Hn Hb Hh Hs Hlim Hsum) as Vret.
    destruct (apply_any_outcome_keeps_HDInvR cr Hcrc Hhash32 Hnonblank Hhashbytes bs Hw f pf c w H c' w' r X Hws Ha)
      as [(-> & _)|[(_ & _ & [->|[Hf|(b & cs & Eb & V & Hf)]])|[(-> & _)|[C|F]]]];
      [left; reflexivity|left; reflexivity|left; exact (fails_as_returns _ _ Hf Vret)| |
       right; left; reflexivity|right; right; left; exact C|right; right; right; exact F].
    destruct (hinvR_block_offset_returns pf c w b cs W Hn Hwire Eb V) as [Hoff|[C|F]];
      [left|right; right; left; exact C|right; right; right; exact F].
    apply (fails_as_returns _ _ Hf Hoff).
  Qed.

  (* C09 for every state a replica reaches by a history with reopens *)
  Theorem history_create_proof_returns ops c w H c1 w1 block hash seek upgrade c' w' r :
    HDInvR cr bs c (w_disk w) H -> N.of_nat (length bs) < LIM -> Forall hop_ok ops ->
    run_hops cr ops c w = (c1, w1) ->
    rblock_lim block = true -> rblock_lim hash = true -> rupgrade_lim upgrade = true ->
    core_create_proof block hash seek upgrade c1 w1 = (c', w', r) ->
    (returns r = true /\ c' = c1 /\ w_disk w' = w_disk w1 /\ w_journal w' = w_journal w1) \/
    some_collision cr \/ forged_signature cr bs (kp_public (c_keypair c)).
  Proof.
    intros X Hn Hops Hrun Hb Hh Hu Hc.
    destruct (any_history_with_reopen_sound cr Hcrc Hhash32 Hnonblank Hhashbytes bs Hw ops c w H c1 w1 X Hops Hrun)
      as [(H1 & X1 & _)|[C|F]]; [left|right; left; exact C|right; right; exact F].
    exact (hdinvR_create_proof_returns c1 w1 H1 block hash seek upgrade c' w' r X1 Hn Hb Hh Hu Hc).
  Qed.

  Theorem history_apply_returns ops c w H c1 w1 f pf c' w' r :
    HDInvR cr bs c (w_disk w) H -> N.of_nat (length bs) < LIM -> Forall hop_ok ops ->
    run_hops cr ops c w = (c1, w1) ->
    proof_wireS pf ->
    block_lim (p_block pf) = true -> hash_lim (p_hash pf) = true -> seek_lim (p_seek pf) = true ->
    upgrade_nodes_lim pf -> announced_sizes_fit_any c1 pf ->
    core_apply_proof cr f pf c1 w1 = (c', w', r) ->
    returns r = true \/ r = Panic frame_msg \/
    some_collision cr \/ forged_signature cr bs (kp_public (c_keypair c)).
  Proof.
    intros X Hn Hops Hrun Hws Hb Hh Hs Hlim Hsum Ha.
    destruct (any_history_with_reopen_sound cr Hcrc Hhash32 Hnonblank Hhashbytes bs Hw ops c w H c1 w1 X Hops Hrun)
      as [(H1 & X1 & K1 & _)|[C|F]]; [|right; right; left; exact C|right; right; right; exact F].
    rewrite <- K1. exact (hdinvR_apply_returns f pf c1 w1 H1 c' w' r X1 Hn Hws Hb Hh Hs Hlim Hsum Ha).
  Qed.
End NoPanicR.

Print Assumptions any_history_with_reopen_sound.
Print Assumptions any_history_with_reopen_content.
Print Assumptions fresh_any_history_with_reopen_sound.
Print Assumptions accepted_path_sizesR.
Print Assumptions HDInvR_tree_wf.
Print Assumptions hdinvR_create_proof_returns.
Print Assumptions hdinvR_apply_returns.
Print Assumptions history_create_proof_returns.
Print Assumptions history_apply_returns.

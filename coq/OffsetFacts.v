(* OffsetFacts.v — the byte-offset computation (offset_descend / offset_roots) equals its
   specification over an abstract tree of sizes.  Self-contained: the iterator facts that are
   needed are proved here on the invariant [shaped d it] (depth d, index+1 = 2^d (2 offset + 1)). *)
From HC Require Import Base NMap Codec Crypto FlatTree Storage Oplog Merkle.
From Coq Require Import ZifyN ZifyNat ZifyBool.
Ltac Zify.zify_post_hook ::= Z.div_mod_to_equations.
Arguments N.add : simpl never.
Arguments N.sub : simpl never.
Arguments N.mul : simpl never.
Arguments N.div : simpl never.
Arguments N.modulo : simpl never.
Arguments N.pow : simpl never.
Arguments N.eqb : simpl never.
Arguments N.ltb : simpl never.
Arguments N.leb : simpl never.
Arguments N.of_nat : simpl never.
Arguments N.to_nat : simpl never.

(* ---------- powers of two ---------- *)

Definition p2 (d : nat) : N := 2 ^ N.of_nat d.

Lemma p2_0 : p2 0 = 1.
Proof. reflexivity. Qed.

Lemma p2_S d : p2 (S d) = 2 * p2 d.
Proof. unfold p2. rewrite Nat2N.inj_succ. apply N.pow_succ_r'. Qed.

Lemma p2_pos d : 0 < p2 d.
Proof. unfold p2. apply N.neq_0_lt_0. apply N.pow_nonzero. discriminate. Qed.

Lemma p2_to_nat d : p2 d = 2 ^ N.of_nat d.
Proof. reflexivity. Qed.

(* ---------- the iterator invariant ---------- *)

(* an iterator standing on the node of depth d and offset (it_offset it) *)
Definition shaped (d : nat) (it : fiter) : Prop :=
  it_factor it = 2 * p2 d /\ it_index it + 1 = p2 d * (2 * it_offset it + 1).

(* i lies in the span of the depth-d node it stands on (subtraction-free) *)
Definition in_span (d : nat) (it : fiter) (i : N) : Prop :=
  it_index it + 1 <= i + p2 d /\ i + 1 <= it_index it + p2 d.

(* leftmost index of the span *)
Definition span_lo (d : nat) (it : fiter) : N := it_index it + 1 - p2 d.

Lemma shaped_left d it :
  shaped (S d) it ->
  shaped d (it_left_child it) /\ it_index (it_left_child it) + p2 d = it_index it.
Proof.
  destruct it as [i o f]. unfold shaped. cbn [it_index it_offset it_factor].
  rewrite p2_S. pose proof (p2_pos d) as Hp. set (h := p2 d) in *. intros [Hf Hi]. subst f.
  unfold it_left_child. cbn [it_index it_offset it_factor].
  destruct (N.eqb_spec (2 * (2 * h)) 2) as [E|E]; [lia|].
  cbn [it_index it_offset it_factor].
  assert (Q1 : 2 * (2 * h) / 2 = 2 * h) by lia. rewrite Q1.
  assert (Q2 : 2 * h / 2 = h) by lia. rewrite Q2.
  assert (M : h * (2 * o + 1) = 2 * (h * o) + h) by lia.
  assert (M' : h * (2 * (o * 2) + 1) = 4 * (h * o) + h) by lia.
  assert (M2 : 2 * h * (2 * o + 1) = 4 * (h * o) + 2 * h) by lia.
  repeat split; lia.
Qed.

Lemma shaped_right d it :
  shaped (S d) it ->
  shaped d (it_right_child it) /\ it_index (it_right_child it) = it_index it + p2 d.
Proof.
  destruct it as [i o f]. unfold shaped. cbn [it_index it_offset it_factor].
  rewrite p2_S. pose proof (p2_pos d) as Hp. set (h := p2 d) in *. intros [Hf Hi]. subst f.
  unfold it_right_child. cbn [it_index it_offset it_factor].
  destruct (N.eqb_spec (2 * (2 * h)) 2) as [E|E]; [lia|].
  cbn [it_index it_offset it_factor].
  assert (Q1 : 2 * (2 * h) / 2 = 2 * h) by lia. rewrite Q1.
  assert (Q2 : 2 * h / 2 = h) by lia. rewrite Q2.
  assert (M' : h * (2 * (2 * o + 1) + 1) = 4 * (h * o) + 3 * h) by lia.
  assert (M2 : 2 * h * (2 * o + 1) = 4 * (h * o) + 2 * h) by lia.
  repeat split; lia.
Qed.

Lemma sibling_left d it :
  shaped (S d) it -> it_sibling (it_left_child it) = it_right_child it.
Proof.
  destruct it as [i o f]. unfold shaped. cbn [it_index it_offset it_factor].
  rewrite p2_S. pose proof (p2_pos d) as Hp. set (h := p2 d) in *. intros [Hf Hi]. subst f.
  unfold it_left_child, it_right_child. cbn [it_index it_offset it_factor].
  destruct (N.eqb_spec (2 * (2 * h)) 2) as [E|E]; [lia|].
  unfold it_sibling. cbn [it_index it_offset it_factor].
  rewrite N.even_mul. cbn [N.even]. rewrite orb_true_r.
  unfold it_next. cbn [it_index it_offset it_factor].
  assert (Q1 : 2 * (2 * h) / 2 = 2 * h) by lia. rewrite Q1.
  assert (Q2 : 2 * h / 2 = h) by lia. rewrite Q2.
  assert (M2 : 2 * h * (2 * o + 1) = 4 * (h * o) + 2 * h) by lia.
  f_equal; lia.
Qed.

Lemma shaped_index_odd d it : shaped (S d) it -> it_index it mod 2 = 1.
Proof.
  unfold shaped. rewrite p2_S. set (h := p2 d). intros [_ Hi].
  assert (M2 : 2 * h * (2 * it_offset it + 1) = 2 * (h * (2 * it_offset it + 1))) by lia.
  lia.
Qed.

Lemma shaped_0_span it i : shaped 0 it -> in_span 0 it i -> it_index it = i.
Proof. unfold in_span. rewrite p2_0. lia. Qed.

Lemma in_span_left d it i :
  shaped (S d) it -> in_span (S d) it i -> i < it_index it -> in_span d (it_left_child it) i.
Proof.
  intros Hs. destruct (shaped_left d it Hs) as [_ E]. unfold in_span. rewrite p2_S. lia.
Qed.

Lemma in_span_right d it i :
  shaped (S d) it -> in_span (S d) it i -> it_index it < i -> in_span d (it_right_child it) i.
Proof.
  intros Hs. destruct (shaped_right d it Hs) as [_ E]. unfold in_span. rewrite p2_S. lia.
Qed.

Lemma span_left_sub d it i :
  shaped (S d) it -> in_span d (it_left_child it) i -> in_span (S d) it i.
Proof.
  intros Hs. destruct (shaped_left d it Hs) as [_ E]. unfold in_span. rewrite p2_S. lia.
Qed.

Lemma span_right_sub d it i :
  shaped (S d) it -> in_span d (it_right_child it) i -> in_span (S d) it i.
Proof.
  intros Hs. destruct (shaped_right d it Hs) as [_ E]. unfold in_span. rewrite p2_S. lia.
Qed.

Lemma in_span_self d it : in_span d it (it_index it).
Proof. unfold in_span. pose proof (p2_pos d). lia. Qed.

(* ---------- it_new is shaped (depth / offset decomposition) ---------- *)

Lemma tz_pow (p : positive) : exists k, N.pos p = 2 ^ tz p * (2 * k + 1).
Proof.
  induction p as [p _|p [k IH]|].
  - exists (N.pos p). cbn [tz]. rewrite N.pow_0_r. lia.
  - exists k. cbn [tz]. replace (1 + tz p) with (N.succ (tz p)) by lia. rewrite N.pow_succ_r'. lia.
  - exists 0. cbn [tz]. rewrite N.pow_0_r. reflexivity.
Qed.

Lemma depth_even (i : N) : N.even i = true -> ft_depth i = 0.
Proof. destruct i as [|[q|q|]]; intros H; try discriminate H; reflexivity. Qed.

Lemma depth_offset_decomp (i : N) : i + 1 = 2 ^ ft_depth i * (2 * ft_offset i + 1).
Proof.
  unfold ft_offset. destruct (N.even i) eqn:E.
  - rewrite (depth_even i E), N.pow_0_r. apply N.even_spec in E. destruct E as [q ->]. lia.
  - unfold ft_depth. destruct (tz_pow (N.succ_pos i)) as [k Hk].
    rewrite N.succ_pos_spec in Hk.
    replace (tz (N.succ_pos i) + 1) with (N.succ (tz (N.succ_pos i))) by lia.
    rewrite N.pow_succ_r'.
    assert (Hp : 0 < 2 ^ tz (N.succ_pos i)) by (apply N.neq_0_lt_0, N.pow_nonzero; discriminate).
    set (P := 2 ^ tz (N.succ_pos i)) in *.
    assert (M : P * (2 * k + 1) = 2 * (P * k) + P) by lia.
    assert (Hd : k = i / (2 * P)).
    { apply (N.div_unique i (2 * P) k (P - 1)); lia. }
    rewrite <- Hd. lia.
Qed.

Lemma shaped_new (i : N) : shaped (N.to_nat (ft_depth i)) (it_new i).
Proof.
  unfold shaped, p2. rewrite N2Nat.id. pose proof (depth_offset_decomp i) as D.
  unfold it_new. destruct (N.odd i) eqn:O; cbn [it_index it_offset it_factor].
  - split; [|exact D]. replace (ft_depth i + 1) with (N.succ (ft_depth i)) by lia. apply N.pow_succ_r'.
  - assert (E : N.even i = true) by (rewrite <- N.negb_odd, O; reflexivity).
    rewrite (depth_even i E), N.pow_0_r in *. apply N.even_spec in E. destruct E as [q ->].
    split; [reflexivity|].
    assert (Q : 2 * q / 2 = q) by lia. rewrite Q. lia.
Qed.

(* ---------- the specification: sizes only ---------- *)

(* mirrors the descent, reads [sz] only *)
Fixpoint left_sum (sz : N -> N) (d : nat) (it : fiter) (index : N) : N :=
  match d with
  | O => 0
  | S d' =>
      if index <? it_index it then left_sum sz d' (it_left_child it) index
      else sz (it_index (it_left_child it)) + left_sum sz d' (it_right_child it) index
  end.

(* sum of the sizes of n consecutive leaves starting at flat index a *)
Fixpoint leaf_sum (sz : N -> N) (a : N) (n : nat) : N :=
  match n with O => 0 | S k => sz a + leaf_sum sz (a + 2) k end.

Lemma leaf_sum_app sz n : forall a m,
  leaf_sum sz a (n + m) = leaf_sum sz a n + leaf_sum sz (a + 2 * N.of_nat n) m.
Proof.
  induction n as [|n IH]; intros a m.
  - cbn [leaf_sum Nat.add]. replace (a + 2 * N.of_nat 0) with a by lia. lia.
  - cbn [leaf_sum Nat.add]. rewrite IH.
    replace (a + 2 + 2 * N.of_nat n) with (a + 2 * N.of_nat (S n)) by lia. lia.
Qed.

Section Offsets.
  Context (t : mtree) (tf : file) (sz : N -> N).

  (* ---------- offset_descend = left_sum ---------- *)

  (* the store answers lookups below this node according to sz *)
  Definition lookups_ok (d : nat) (it : fiter) : Prop :=
    forall i, in_span d it i -> exists n, required_node t tf i = Ok n /\ n_length n = sz i.

  Theorem offset_descend_spec : forall d fuel it index off,
    shaped d it -> (d < fuel)%nat ->
    index mod 2 = 0 -> in_span d it index ->
    lookups_ok d it ->
    offset_descend fuel t tf it index off = Ok (off + left_sum sz d it index).
  Proof.
    induction d as [|d IH]; intros fuel it index off Hs Hfuel Hev Hin Hlook;
      (destruct fuel as [|fuel]; [lia|]); cbn [offset_descend left_sum].
    - rewrite (shaped_0_span it index Hs Hin), N.eqb_refl. f_equal. lia.
    - pose proof (shaped_index_odd d it Hs) as Hodd.
      destruct (N.eqb_spec (it_index it) index) as [E|E]; [lia|].
      destruct (N.ltb_spec index (it_index it)) as [L|L].
      + apply IH.
        * apply shaped_left, Hs.
        * lia.
        * exact Hev.
        * apply in_span_left; assumption.
        * intros i Hi. apply Hlook. apply span_left_sub; assumption.
      + destruct (Hlook (it_index (it_left_child it))) as (n & Hn & Hsz).
        { apply span_left_sub; [exact Hs | apply in_span_self]. }
        rewrite Hn. cbn [bind]. rewrite (sibling_left d it Hs), Hsz.
        rewrite IH.
        * f_equal. lia.
        * apply shaped_right, Hs.
        * lia.
        * exact Hev.
        * apply in_span_right; [assumption | assumption | lia].
        * intros i Hi. apply Hlook. apply span_right_sub; assumption.
  Qed.

  (* at a root: the iterator the algorithm really starts from *)
  Corollary offset_descend_root root fuel index off :
    (N.to_nat (ft_depth root) < fuel)%nat ->
    index mod 2 = 0 ->
    in_span (N.to_nat (ft_depth root)) (it_new root) index ->
    lookups_ok (N.to_nat (ft_depth root)) (it_new root) ->
    offset_descend fuel t tf (it_new root) index off =
    Ok (off + left_sum sz (N.to_nat (ft_depth root)) (it_new root) index).
  Proof. intros. apply offset_descend_spec; try assumption. apply shaped_new. Qed.

  (* ---------- left_sum = the sizes of the leaves strictly left of index ---------- *)

  (* size consistency, asked only of the well-formed positions whose span lies in [A, B] *)
  Definition sizes_consistent (A B : N) : Prop :=
    forall d it, shaped (S d) it -> A + p2 (S d) <= it_index it + 1 -> it_index it + p2 (S d) <= B + 1 ->
      sz (it_index it) = sz (it_index (it_left_child it)) + sz (it_index (it_right_child it)).

  Lemma node_size_leaf_sum A B (Hc : sizes_consistent A B) : forall d it,
    shaped d it -> A + p2 d <= it_index it + 1 -> it_index it + p2 d <= B + 1 ->
    sz (it_index it) = leaf_sum sz (span_lo d it) (N.to_nat (p2 d)).
  Proof.
    induction d as [|d IH]; intros it Hs HA HB.
    - unfold span_lo. rewrite p2_0. change (N.to_nat 1) with 1%nat. cbn [leaf_sum].
      replace (it_index it + 1 - 1) with (it_index it) by lia. lia.
    - rewrite (Hc d it Hs HA HB).
      destruct (shaped_left d it Hs) as [Hl El]. destruct (shaped_right d it Hs) as [Hr Er].
      rewrite p2_S in HA, HB. pose proof (p2_pos d) as Hp.
      rewrite (IH _ Hl) by lia. rewrite (IH _ Hr) by lia.
      replace (N.to_nat (p2 (S d))) with (N.to_nat (p2 d) + N.to_nat (p2 d))%nat
        by (rewrite p2_S; lia).
      rewrite leaf_sum_app. unfold span_lo. rewrite p2_S.
      f_equal; f_equal; lia.
  Qed.

  Theorem left_sum_leaf_sum A B (Hc : sizes_consistent A B) : forall d it index,
    shaped d it -> A + p2 d <= it_index it + 1 -> it_index it + p2 d <= B + 1 ->
    index mod 2 = 0 -> in_span d it index ->
    left_sum sz d it index = leaf_sum sz (span_lo d it) (N.to_nat ((index - span_lo d it) / 2)).
  Proof.
    induction d as [|d IH]; intros it index Hs HA HB Hev Hin; cbn [left_sum].
    - rewrite <- (shaped_0_span it index Hs Hin). unfold span_lo. rewrite p2_0.
      replace (N.to_nat ((it_index it - (it_index it + 1 - 1)) / 2)) with 0%nat by lia.
      reflexivity.
    - pose proof (shaped_index_odd d it Hs) as Hodd.
      destruct (shaped_left d it Hs) as [Hl El]. destruct (shaped_right d it Hs) as [Hr Er].
      pose proof (p2_pos d) as Hp.
      assert (Hin' := Hin). unfold in_span in Hin'. rewrite p2_S in HA, HB, Hin'.
      destruct (N.ltb_spec index (it_index it)) as [L|L].
      + rewrite (IH (it_left_child it) index Hl) by
          (try apply in_span_left; try assumption; lia).
        unfold span_lo. rewrite p2_S.
        replace (it_index (it_left_child it) + 1 - p2 d) with (it_index it + 1 - 2 * p2 d) by lia.
        reflexivity.
      + rewrite (IH (it_right_child it) index Hr) by
          (try (apply in_span_right; try assumption); lia).
        rewrite (node_size_leaf_sum A B Hc d _ Hl) by lia.
        unfold span_lo. rewrite p2_S.
        replace (N.to_nat ((index - (it_index it + 1 - 2 * p2 d)) / 2))
          with (N.to_nat (p2 d) + N.to_nat ((index - (it_index (it_right_child it) + 1 - p2 d)) / 2))%nat
          by lia.
        rewrite leaf_sum_app. f_equal; f_equal; lia.
  Qed.

  (* ---------- offset_roots: skipping whole roots ---------- *)

  Definition next_head (head : N) (r : node) : N := head + 2 * (n_index r - head + 1).

  Fixpoint heads (pre : list node) (head : N) : N :=
    match pre with [] => head | r :: rest => heads rest (next_head head r) end.

  (* every root of pre starts at or after its head and ends at or before index *)
  Fixpoint skipped (pre : list node) (head index : N) : Prop :=
    match pre with
    | [] => True
    | r :: rest => head <= n_index r /\ next_head head r <= index /\ skipped rest (next_head head r) index
    end.

  Theorem offset_roots_skip : forall pre r post index head off,
    skipped pre head index ->
    heads pre head <= n_index r ->
    index < next_head (heads pre head) r ->
    offset_roots t tf (pre ++ r :: post) index head off =
    offset_descend CLIMB t tf (it_new (n_index r)) index (off + sumN (map n_length pre)).
  Proof.
    induction pre as [|a pre IH]; intros r post index head off Hsk Hh Hi.
    - cbn [app offset_roots heads map sumN] in *. unfold sub64.
      destruct (N.leb_spec head (n_index r)) as [H|H]; [|lia]. cbn [bind].
      fold (next_head head r).
      destruct (N.leb_spec (next_head head r) index) as [H2|H2]; [lia|].
      f_equal. lia.
    - cbn [app offset_roots heads map sumN skipped] in *. destruct Hsk as (H1 & H2 & H3).
      unfold sub64. destruct (N.leb_spec head (n_index a)) as [H|H]; [|lia]. cbn [bind].
      fold (next_head head a).
      destruct (N.leb_spec (next_head head a) index) as [H4|H4]; [|lia].
      rewrite IH by assumption. f_equal. lia.
  Qed.

  Theorem offset_roots_all_skipped : forall roots index head off,
    skipped roots head index -> offset_roots t tf roots index head off = Err BadArgument.
  Proof.
    induction roots as [|a roots IH]; intros index head off Hsk; cbn [offset_roots]; [reflexivity|].
    cbn [skipped] in Hsk. destruct Hsk as (H1 & H2 & H3).
    unfold sub64. destruct (N.leb_spec head (n_index a)) as [H|H]; [|lia]. cbn [bind].
    fold (next_head head a).
    destruct (N.leb_spec (next_head head a) index) as [H4|H4]; [|lia].
    apply IH. exact H3.
  Qed.

  (* the two parts together: the root r that contains index starts at its own head *)
  Theorem offset_roots_spec pre r post index head off :
    let d := N.to_nat (ft_depth (n_index r)) in
    skipped pre head index ->
    heads pre head = span_lo d (it_new (n_index r)) ->
    (d < CLIMB)%nat ->
    index mod 2 = 0 ->
    heads pre head <= index -> index < next_head (heads pre head) r ->
    lookups_ok d (it_new (n_index r)) ->
    offset_roots t tf (pre ++ r :: post) index head off =
    Ok (off + sumN (map n_length pre) + left_sum sz d (it_new (n_index r)) index).
  Proof.
    intros d Hsk Hlo Hd Hev Hge Hlt Hlook.
    pose proof (shaped_new (n_index r)) as Hs. fold d in Hs. clearbody d.
    assert (Hidx : it_index (it_new (n_index r)) = n_index r).
    { unfold it_new. destruct (N.odd (n_index r)); reflexivity. }
    pose proof (p2_pos d) as Hp.
    assert (Hmul : p2 d <= n_index r + 1).
    { destruct Hs as [_ Hi]. rewrite Hidx in Hi. rewrite Hi.
      assert (M : p2 d * (2 * it_offset (it_new (n_index r)) + 1) =
                  2 * (p2 d * it_offset (it_new (n_index r))) + p2 d) by lia. lia. }
    unfold span_lo in Hlo. rewrite Hidx in Hlo.
    rewrite offset_roots_skip by (try assumption; lia).
    apply offset_descend_spec; try assumption.
    unfold in_span. rewrite Hidx. unfold next_head in Hlt. rewrite Hlo in *.
    split; [lia|].
    (* index < n_index r + 1 + 2^d, both index and n_index r + 2^d - 1 ... are even *)
    destruct d as [|d'].
    - destruct Hs as [_ Hi]. rewrite Hidx in Hi. rewrite p2_0 in *. lia.
    - rewrite p2_S in *. destruct Hs as [_ Hi]. rewrite Hidx, p2_S in Hi.
      assert (M : 2 * p2 d' * (2 * it_offset (it_new (n_index r)) + 1) =
                  2 * (p2 d' * (2 * it_offset (it_new (n_index r)) + 1))) by lia.
      lia.
  Qed.

  Corollary byte_offset_from_nodes_even index :
    N.odd index = false ->
    byte_offset_from_nodes t tf index = offset_roots t tf (t_roots t) index 0 0.
  Proof. intros H. unfold byte_offset_from_nodes. now rewrite H. Qed.

End Offsets.

Print Assumptions shaped_left.
Print Assumptions shaped_right.
Print Assumptions sibling_left.
Print Assumptions shaped_new.
Print Assumptions offset_descend_spec.
Print Assumptions offset_descend_root.
Print Assumptions node_size_leaf_sum.
Print Assumptions left_sum_leaf_sum.
Print Assumptions offset_roots_skip.
Print Assumptions offset_roots_all_skipped.
Print Assumptions offset_roots_spec.
Print Assumptions byte_offset_from_nodes_even.

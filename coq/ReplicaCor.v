(* ReplicaCor.v -- consequences of the replica invariant SoundCore.RInv, part 1:
   (S) the nodes of a changeset that the verifier accepts on an RInv replica are the writer's nodes
       (verified_nodes_authentic), for the proofs covered by SoundCoreBU.block_upgrade_ok, modulo an
       explicit hash collision / forged signature;
   (B, property C13) RInv gives EventsAvail.bounded; an accepted proof keeps it (the side condition of
       EventsAvail.apply_keeps_bounded_partial is discharged); for REPLICA histories (apply accepted or
       refused, get, create_proof, missing_nodes, append attempts on a replica without secret key) the
       final availability is the initial one plus the announced ranges, and every announced block index
       lies below the replica's final length.
   Parts A (C09) and C (C14): ReplicaCorA.v, ReplicaCorC.v. *)
From HC Require Import Base NMap Codec CodecFacts Crypto FlatTree Storage Bitfield Oplog Merkle Core.
From HC Require Import FlatTreeFacts StorageFacts BitfieldFacts OplogFacts TreeRef OffsetFacts CoreFacts
                       Sound NoPanic Refine Replicate SoundCoreLib SoundCore SoundCoreUp SoundCoreBU
                       EventsAvail.
From Coq Require Import FMapPositive ZifyN ZifyNat ZifyBool.
Ltac Zify.zify_post_hook ::= Z.div_mod_to_equations.
Arguments N.add : simpl never.
Arguments N.sub : simpl never.
Arguments N.mul : simpl never.
Arguments N.div : simpl never.
Arguments N.modulo : simpl never.
Arguments N.pow : simpl never.
Arguments N.eqb : simpl never.
Arguments N.ltb : simpl never.
Arguments N.leb : simpl never.
Arguments N.of_nat : simpl never.
Arguments N.to_nat : simpl never.

(* ====================================================================================== *)
(* S. The nodes of a verified changeset are the writer's                                    *)
(* ====================================================================================== *)

Section Shared.
  Variable cr : crypto.
  Hypothesis Hhash32 : forall x, length (cr_hash cr x) = 32%nat.
  Hypothesis Hnonblank : forall x, all_zero (cr_hash cr x) = false.
  Variable bs : list bytes.
  Hypothesis Hw : writer_fits bs.

  (* what the verifier's changeset looks like on an RInv replica: all its nodes are authentic for some
     length m between the replica's length and the writer's, and m is the length the tree takes if the
     changeset is an upgrade *)
  Definition cs_authentic (c : core) (pf : proof) (cs : changeset) : Prop :=
    exists m, t_length (c_tree c) <= m /\ m <= N.of_nat (length bs) /\
              (forall x, In x (cs_nodes cs) -> authentic cr bs m x) /\
              (cs_upgraded cs = true -> cs_length cs = m) /\
              (* with a block section: the block is the writer's, the changeset starts with the
                 writer's leaf and path above it, followed by the nodes made by the upgrade *)
              (forall b, p_block pf = Some b ->
                 exists k new,
                   cs_nodes cs = (ref_node cr bs 0 (db_index b) :: ref_path cr bs k 0 (db_index b)) ++ rev new /\
                   Forall (Tn cr bs) new /\ 2 * db_index b <= u64_max /\
                   db_value b = blk bs (db_index b)).

  Theorem verified_nodes_authentic pf c d cs :
    RInv cr bs c d -> block_upgrade_ok pf ->
    verify_proof cr (c_tree c) (d_tree d) pf (kp_public (c_keypair c)) = Ok cs ->
    cs_authentic c pf cs \/ some_collision cr \/ forged_signature cr bs (kp_public (c_keypair c)).
  Proof.
    intros W (Hh & Hs & Hshape) V. pose proof W as (H1 & H2 & H3 & H4 & H5 & H6 & H7 & H8).
    destruct Hw as [Hw1 Hw2].
    destruct pf as [fork ob oh os ou]. cbn [p_hash p_seek p_block p_upgrade] in *. subst oh os.
    set (t := c_tree c) in *. set (r := t_length t) in *.
    destruct ou as [u|].
    - destruct Hshape as (A1 & A2 & A3 & A4). destruct ob as [b|].
      + (* block and upgrade *)
        destruct A4 as [A4 A5].
        destruct (verify_block_upgrade_inv cr Hhash32 Hnonblank bs (conj Hw1 Hw2) t (d_tree d) r fork b u _ cs
                    H5 H6 H3 eq_refl H4 H1 A1 A2 A3 A5 V)
          as [(m & new & k & Hvb)|[C|F]]; [|right; left; exact C|right; right; exact F].
        cbv zeta in Hvb.
        destruct Hvb as (Hrm & Hmn & Ev & Hi2 & Hspan & Er & El & Eb & Efk & Enodes & Hauth & Hroots & Hmade &
                         Ea & Eol & Eof & Hup).
        left. exists m. split; [exact Hrm|]. split; [exact Hmn|]. split; [|split; [intros _; exact El|]].
        2:{ intros b0 Hb0. cbn [p_block] in Hb0. injection Hb0 as <-. exists k, new. split; [exact Enodes|]. split; [|split; [exact Hi2|exact Ev]].
            eapply Forall_impl; [|exact Hauth]. intros x [Hx _]. exact Hx. }
        set (i := db_index b) in *.
        destruct (div_p2_bounds i k) as [B1 B2]. unfold span_end in Hspan.
        intros x Hx. rewrite Enodes in Hx. apply in_app_or in Hx. destruct Hx as [[<-|Hx]|Hx].
        * unfold authentic. rewrite ref_node_index. split; [symmetry; apply ref_at_index|].
          apply in_len_index. pose proof (span_end_up k 0 i) as U. unfold span_end in U. cbn [Nat.add] in U. lia.
        * pose proof (ref_path_authentic cr bs Hw1 m k 0 i) as A. cbn [Nat.add] in A.
          specialize (A Hspan). rewrite Forall_forall in A. apply A, Hx.
        * rewrite Forall_forall in Hauth. apply Hauth. apply in_rev. exact Hx.
      + (* upgrade only *)
        unfold verify_proof in V. cbn [p_block p_hash p_seek p_upgrade p_fork] in V.
        change (verify_tree cr None None None (tree_changeset t)) with (Ok (@None node, tree_changeset t)) in V.
        cbn [bind] in V.
        apply bind_ok in V. destruct V as ([root2 cx] & Hvu & V).
        apply bind_ok in Hvu. destruct Hvu as ([consumed c4] & Hvu & E).
        assert (root2 = None /\ cx = c4) as [-> ->] by (destruct consumed; injection E as <- <-; auto).
        injection V as <-.
        destruct (verify_upgrade_sound cr Hhash32 bs (conj Hw1 Hw2) (tree_changeset t) r fork u None _ consumed c4
                    H1 H3 eq_refl H4 A1 A2 A3 I Hvu)
          as [(m & new & Hrm & Hmn & Er & El & Eb & Efk & En & Hauth & _)|[C|F]];
          [|right; left; exact C|right; right; exact F].
        cbn [tree_changeset cs_rnodes] in En. rewrite app_nil_r in En.
        left. exists m. split; [exact Hrm|]. split; [exact Hmn|]. split; [|split; [intros _; exact El|intros b0 Hb0; cbn [p_block] in Hb0; discriminate Hb0]].
        intros x Hx. apply in_cs_nodes in Hx. rewrite En in Hx. rewrite Forall_forall in Hauth. apply Hauth, Hx.
    - destruct ob as [b|].
      + (* block only *)
        destruct (verify_block_inv cr Hhash32 Hnonblank bs Hw1 _ _ _ _ _ _ _ H5 H6 V)
          as [(k & Hvb)|C]; [|right; left; exact C].
        cbv zeta in Hvb. destruct Hvb as (Ev & Ecs & Htop & Hspan & Hi2).
        set (i := db_index b) in *.
        left. exists r. split; [apply N.le_refl|]. split; [exact H1|]. split; [|split].
        2:{ rewrite Ecs. cbn [cs_push_nodes cs_upgraded tree_changeset]. discriminate. }
        2:{ intros b0 Hb0. cbn [p_block] in Hb0. injection Hb0 as <-. exists k, []. rewrite Ecs, cs_nodes_push_fresh. cbn [rev]. rewrite app_nil_r.
            split; [reflexivity|]. split; [constructor|]. split; [exact Hi2|exact Ev]. }
        destruct (div_p2_bounds i k) as [B1 B2]. unfold span_end in Hspan.
        intros x Hx. rewrite Ecs, cs_nodes_push_fresh in Hx. destruct Hx as [<-|Hx].
        * unfold authentic. rewrite ref_node_index. split; [symmetry; apply ref_at_index|].
          apply in_len_index. pose proof (span_end_up k 0 i) as U. unfold span_end in U. cbn [Nat.add] in U. lia.
        * pose proof (ref_path_authentic cr bs Hw1 r k 0 i) as A. cbn [Nat.add] in A.
          specialize (A Hspan). rewrite Forall_forall in A. apply A, Hx.
      + (* no section *)
        unfold verify_proof in V. cbn [p_block p_hash p_seek p_upgrade] in V.
        change (verify_tree cr None None None (tree_changeset t)) with (Ok (@None node, tree_changeset t)) in V.
        cbn [bind] in V. injection V as <-.
        left. exists r. split; [apply N.le_refl|]. split; [exact H1|]. split; [|split].
        * intros x Hx. cbn in Hx. destruct Hx.
        * cbn [tree_changeset cs_upgraded]. discriminate.
        * intros b0 Hb0. cbn [p_block] in Hb0. discriminate Hb0.
  Qed.

  (* an authentic node is well formed: 32-byte hash, u64 size, record offset a u64, not blank *)
  Lemma authentic_facts m x :
    m <= N.of_nat (length bs) -> authentic cr bs m x ->
    x = ref_at cr bs (n_index x) /\ length (n_hash x) = 32%nat /\ n_length x <= u64_max /\
    NODE_SIZE * n_index x <= u64_max /\ node_blank x = false.
  Proof.
    intros Hm [E I]. destruct Hw as [Hw1 Hw2].
    split; [exact E|]. rewrite E.
    split; [apply (T_hash32 cr Hhash32 bs)|]. split; [apply (T_fits cr bs), Hw1|].
    split; [|apply (T_nonblank cr Hnonblank bs)].
    rewrite (T_index cr bs). apply in_len_lt in I. unfold NODE_SIZE in *. lia.
  Qed.
End Shared.

(* ====================================================================================== *)
(* B. C13 on replicas                                                                      *)
(* ====================================================================================== *)

(* which calls of EventsAvail.op make up a replica history: proofs of the shape covered by SoundCore's
   main theorem, reads, proof creation, missing_nodes, and append attempts (refused: the replica has
   no secret key).  make_read_only is left out (its flush with clear_traces is not covered by
   SoundCore.RInv_flush). *)
Definition replica_op (o : op) : Prop :=
  match o with
  | OApply _ pf => block_upgrade_ok pf
  | OMakeReadOnly => False
  | _ => True
  end.

(* every apply of the history returned Ok (true: accepted, false: refused); the other calls may fail *)
Fixpoint applies_ok (ops : list op) (oks : list bool) : Prop :=
  match ops, oks with
  | o :: ops', b :: oks' => (is_apply o = true -> b = true) /\ applies_ok ops' oks'
  | _, _ => True
  end.

Section ReplicaAvail.
  Variable cr : crypto.
  Hypothesis Hhash32 : forall x, length (cr_hash cr x) = 32%nat.
  Hypothesis Hnonblank : forall x, all_zero (cr_hash cr x) = false.
  Variable bs : list bytes.
  Hypothesis Hw : writer_fits bs.

  (* a held index is below the replica's length: a clause of RInv *)
  Lemma RInv_has_below c d i : RInv cr bs c d -> core_has c i = true -> i < t_length (c_tree c).
  Proof.
    intros (_ & _ & _ & _ & _ & _ & _ & H8) Hi. destruct (H8 i Hi) as (L & _). exact L.
  Qed.

  Theorem RInv_bounded c d : RInv cr bs c d -> bounded c.
  Proof.
    intros W i Hi. destruct (core_has c i) eqn:E; [|reflexivity].
    pose proof (RInv_has_below c d i W E). lia.
  Qed.

  Lemma apply_keeps_keypair f pf : keeps c_keypair (core_apply_proof cr f pf).
  Proof.
    pose proof (flush_all_keeps_keypair cr) as FK.
    unfold core_apply_proof, log_and_commit, maybe_flush. keeps_tac.
  Qed.

  (* the side condition of EventsAvail.apply_keeps_bounded_partial holds for an accepted proof on a
     replica, and the invariant is kept *)
  Theorem apply_keeps_bounded_replica f pf c d j ev c' w' :
    RInv cr bs c d -> block_upgrade_ok pf ->
    core_apply_proof cr f pf c (mkWorld d j ev) = (c', w', Ok true) ->
    (RInv cr bs c' (w_disk w') /\ bounded c' /\ t_length (c_tree c) <= t_length (c_tree c') /\
     (forall b, p_block pf = Some b -> db_index b < t_length (c_tree c'))) \/
    some_collision cr \/ forged_signature cr bs (kp_public (c_keypair c)).
  Proof.
    intros W Hok H.
    destruct (apply_keeps_replica_consistent_block_upgrade cr Hhash32 Hnonblank bs Hw f pf c d j ev c' w' W Hok H)
      as [W'|[C|F]]; [left|right; left; exact C|right; right; exact F].
    pose proof (apply_outcome cr _ _ _ _ _ _ _ H) as (Has & NL).
    assert (Hblk : forall b, p_block pf = Some b -> db_index b < t_length (c_tree c')).
    { intros b Hb. apply (RInv_has_below c' (w_disk w') _ W').
      rewrite Has. unfold carried. rewrite Hb, N.eqb_refl. apply orb_true_r. }
    split; [exact W'|]. split; [exact (RInv_bounded c' _ W')|]. split; [|exact Hblk].
    destruct NL as (cs & _ & _ & Mono). exact Mono.
  Qed.

  (* the same through the partial theorem of EventsAvail: its side condition is discharged *)
  Corollary apply_keeps_bounded_partial_discharged f pf c d j ev c' w' :
    RInv cr bs c d -> block_upgrade_ok pf ->
    core_apply_proof cr f pf c (mkWorld d j ev) = (c', w', Ok true) ->
    (bounded c' /\ t_length (c_tree c) <= t_length (c_tree c')) \/
    some_collision cr \/ forged_signature cr bs (kp_public (c_keypair c)).
  Proof.
    intros W Hok H.
    destruct (apply_keeps_bounded_replica f pf c d j ev c' w' W Hok H) as [(_ & _ & _ & Hblk)|[C|F]];
      [left|right; left; exact C|right; right; exact F].
    exact (apply_keeps_bounded_partial cr f pf c _ c' w' _ (RInv_bounded c d W) H Hblk).
  Qed.

  (* one call of a replica history *)
  Lemma replica_step o c w c' w' ok :
    RInv cr bs c (w_disk w) -> kp_secret (c_keypair c) = None -> replica_op o ->
    run_op cr o c w = (c', w', ok) -> (is_apply o = true -> ok = true) ->
    (RInv cr bs c' (w_disk w') /\ c_keypair c' = c_keypair c /\
     t_length (c_tree c) <= t_length (c_tree c') /\
     exists evs, w_events w' = evs ++ w_events w /\
                 forall i, core_has c' i = core_has c i || announced evs i) \/
    some_collision cr \/ forged_signature cr bs (kp_public (c_keypair c)).
  Proof.
    intros W Hsec Hop H Hok.
    assert (RO : c' = c -> w_disk w' = w_disk w ->
                 RInv cr bs c' (w_disk w') /\ c_keypair c' = c_keypair c /\
                 t_length (c_tree c) <= t_length (c_tree c') /\
                 exists evs, w_events w' = evs ++ w_events w /\
                             forall i, core_has c' i = core_has c i || announced evs i).
    { intros -> Hd. rewrite Hd. split; [exact W|]. split; [reflexivity|]. split; [lia|].
      destruct (step_avail cr o c w c w' ok H) as (evs & Ev & Hfail & _ & Eq).
      exists evs. split; [exact Ev|]. destruct ok.
      - apply Eq. reflexivity.
      - rewrite (Hfail eq_refl). intros i. cbn [announced existsb]. now rewrite orb_false_r. }
    destruct o as [f batch|f pf|i|b h s u|i|]; cbn [replica_op is_apply] in *.
    - (* append on a replica: refused *)
      left. cbn [run_op] in H. apply forget_inv in H. destruct H as (r & H & _).
      unfold core_append in H. rewrite mbind_get_core, Hsec in H. unfold lift in H.
      injection H as <- <- _. apply RO; reflexivity.
    - (* apply *)
      specialize (Hok eq_refl). subst ok. pose proof H as H0.
      cbn [run_op] in H. apply forget_inv in H. destruct H as (r & H & Hr).
      destruct r as [[|]| | |]; try discriminate Hr.
      + destruct w as [d j ev]. cbn [w_disk] in W.
        destruct (apply_keeps_bounded_replica f pf c d j ev c' w' W Hop H) as [(W' & _ & Mono & _)|[C|F]];
          [left|right; left; exact C|right; right; exact F].
        split; [exact W'|]. split; [exact (apply_keeps_keypair f pf _ _ _ _ _ H)|]. split; [exact Mono|].
        destruct (step_avail cr _ _ _ _ _ _ H0) as (evs & Ev & _ & _ & Eq).
        exists evs. split; [exact Ev|apply Eq; reflexivity].
      + left. pose proof (apply_outcome cr _ _ _ _ _ _ _ H) as (-> & ->). apply RO; reflexivity.
    - left. cbn [run_op] in H. pose proof H as H0. apply forget_inv in H0. destruct H0 as (r & H0 & _).
      destruct (core_get_quiet i _ _ _ _ _ H0) as (E1 & E2 & _). apply RO; assumption.
    - left. cbn [run_op] in H. pose proof H as H0. apply forget_inv in H0. destruct H0 as (r & H0 & _).
      destruct (core_create_proof_quiet b h s u _ _ _ _ _ H0) as (E1 & E2 & _). apply RO; assumption.
    - left. cbn [run_op] in H. pose proof H as H0. apply forget_inv in H0. destruct H0 as (r & H0 & _).
      destruct (proj1 (core_missing_nodes_quiet i) _ _ _ _ _ H0) as (E1 & E2 & _). apply RO; assumption.
    - destruct Hop.
  Qed.

  (* C13 for replica histories: the replica stays consistent with the writer, its availability at the
     end is exactly the initial one plus what the Have events announced, and every announced index lies
     below the final length of the replica's tree -- or a collision / forged signature was exhibited *)
  Theorem replica_history_avail ops : forall c w c' w' oks,
    RInv cr bs c (w_disk w) -> kp_secret (c_keypair c) = None -> Forall replica_op ops ->
    run_ops cr ops c w = (c', w', oks) -> applies_ok ops oks ->
    (RInv cr bs c' (w_disk w') /\ bounded c' /\ c_keypair c' = c_keypair c /\
     t_length (c_tree c) <= t_length (c_tree c') /\
     exists evs, w_events w' = evs ++ w_events w /\
       (forall i, core_has c' i = core_has c i || announced evs i) /\
       (forall i, announced evs i = true -> i < t_length (c_tree c'))) \/
    some_collision cr \/ forged_signature cr bs (kp_public (c_keypair c)).
  Proof.
    induction ops as [|o rest IH]; intros c w c' w' oks W Hsec Hops H Hoks.
    - cbn [run_ops] in H. injection H as <- <- _. left.
      split; [exact W|]. split; [exact (RInv_bounded c _ W)|]. split; [reflexivity|]. split; [lia|].
      exists []. split; [reflexivity|]. split.
      + intros i. cbn [announced existsb]. now rewrite orb_false_r.
      + intros i Hi. discriminate Hi.
    - cbn [run_ops] in H.
      destruct (run_op cr o c w) as [[c1 w1] ok] eqn:S1.
      destruct (run_ops cr rest c1 w1) as [[c2 w2] oks2] eqn:S2.
      injection H as <- <- <-. cbn [applies_ok] in Hoks. destruct Hoks as [Hok1 Hoks].
      inversion Hops as [|o' rest' Ho Hrest]; subst.
      destruct (replica_step o c w c1 w1 ok W Hsec Ho S1 Hok1) as [(W1 & K1 & M1 & e1 & Ev1 & Eq1)|[C|F]];
        [|right; left; exact C|right; right; exact F].
      assert (Hsec1 : kp_secret (c_keypair c1) = None) by (rewrite K1; exact Hsec).
      destruct (IH c1 w1 c2 w2 oks2 W1 Hsec1 Hrest S2 Hoks)
        as [(W2 & B2 & K2 & M2 & e2 & Ev2 & Eq2 & _)|[C|F]];
        [left|right; left; exact C|right; right; rewrite <- K1; exact F].
      split; [exact W2|]. split; [exact B2|]. split; [congruence|]. split; [lia|].
      exists (e2 ++ e1). split; [rewrite Ev2, Ev1, app_assoc; reflexivity|].
      assert (Eq : forall i, core_has c2 i = core_has c i || announced (e2 ++ e1) i).
      { intros i. rewrite Eq2, Eq1, announced_app.
        destruct (core_has c i), (announced e1 i), (announced e2 i); reflexivity. }
      split; [exact Eq|].
      intros i Hi. apply (RInv_has_below c2 (w_disk w2) i W2). rewrite Eq, Hi. apply orb_true_r.
  Qed.
End ReplicaAvail.

(* ====================================================================================== *)
(* Non-vacuity on the toy instance of SoundCore.v                                           *)
(* ====================================================================================== *)

(* the synced replica of SoundCore.v (length 6, nothing held): a read that misses, the writer's proof
   for block 4 (accepted), a read that hits, the same proof with another fork (refused), a proof
   request, missing_nodes, an append attempt (NotWritable) *)
Definition sc_hist (pf : proof) : list op :=
  [OGet 4; OApply (Some false) pf; OGet 4; OApply None (mkProof 1 (p_block pf) None None None);
   OCreateProof (Some (mkReqBlock 4 0)) None None None; OMissingNodes 2; OAppend None [[1]]].

Example sc_replica_history_applies :
  match fst sc_R1, sc_block_proof (fst sc_R1) 4 with
  | Some (c, w), Some pf =>
      exists c' w' oks,
        run_ops sc_cr (sc_hist pf) c w = (c', w', oks) /\
        RInv sc_cr sc_blocks c (w_disk w) /\ kp_secret (c_keypair c) = None /\
        Forall replica_op (sc_hist pf) /\ applies_ok (sc_hist pf) oks /\
        oks = [true; true; true; true; true; true; false] /\
        core_has c 4 = false /\ core_has c' 4 = true /\
        w_events w' = [EvHave 4 1 false; EvGet 4] ++ w_events w /\
        ((RInv sc_cr sc_blocks c' (w_disk w') /\ bounded c' /\ c_keypair c' = c_keypair c /\
          t_length (c_tree c) <= t_length (c_tree c') /\
          exists evs, w_events w' = evs ++ w_events w /\
            (forall i, core_has c' i = core_has c i || announced evs i) /\
            (forall i, announced evs i = true -> i < t_length (c_tree c'))) \/
         some_collision sc_cr \/ forged_signature sc_cr sc_blocks (kp_public (c_keypair c)))
  | _, _ => False
  end.
Proof.
  pose proof sc_RInv_synced as HR.
  destruct (fst sc_R1) as [[c w]|] eqn:E; [|destruct HR]. destruct HR as [HR _].
  destruct (sc_block_proof (Some (c, w)) 4) as [pf|] eqn:Ep.
  2:{ vm_compute in E. injection E as <- <-. vm_compute in Ep. discriminate Ep. }
  destruct (run_ops sc_cr (sc_hist pf) c w) as [[c' w'] oks] eqn:Er.
  assert (Hshape : kp_secret (c_keypair c) = None /\ Forall replica_op (sc_hist pf) /\
                   oks = [true; true; true; true; true; true; false] /\
                   core_has c 4 = false /\ core_has c' 4 = true /\
                   w_events w' = [EvHave 4 1 false; EvGet 4] ++ w_events w).
  { vm_compute in E. injection E as <- <-. vm_compute in Ep. injection Ep as <-.
    vm_compute in Er. injection Er as <- <- <-.
    split; [reflexivity|]. split.
    - repeat constructor.
    - repeat split. }
  destruct Hshape as (Hsec & Hops & -> & Hc4 & Hc4' & Hev).
  assert (Hoks : applies_ok (sc_hist pf) [true; true; true; true; true; true; false]).
  { cbn [sc_hist applies_ok is_apply]. repeat split; intros; try reflexivity; discriminate. }
  exists c', w', [true; true; true; true; true; true; false].
  do 9 (split; [first [reflexivity|assumption]|]).
  apply (replica_history_avail sc_cr sc_hash32 sc_nonblank sc_blocks sc_writer_fits
           (sc_hist pf) c w c' w' _ HR Hsec Hops Er Hoks).
Qed.

Print Assumptions verified_nodes_authentic.
Print Assumptions authentic_facts.
Print Assumptions RInv_bounded.
Print Assumptions apply_keeps_bounded_replica.
Print Assumptions apply_keeps_bounded_partial_discharged.
Print Assumptions replica_history_avail.
Print Assumptions sc_replica_history_applies.

(* JsLayoutEx.v — C06 converse, part 3: the hypotheses of JsLayout.v / JsLayoutOps.v are met by concrete, non-trivial
   disks, and the flag patterns of the assignment, computed.

   JsDisk_reflag: take ANY running state of this crate (CrashClear1.YInv), re-frame the entries pending in its oplog
   with arbitrary partial flags whose last one is clear (completed atomic batches), add an unfinished batch and bytes
   that are no frame, optionally blank header slot 0 when slot 1 is the current one: the result is a JsDisk for the
   same log.  Instances on the toy crypto: a completed batch [p,p,-], a trailing unfinished batch with junk after it,
   the header in slot 1 only. *)
From HC Require Import Base NMap Codec CodecFacts Crypto FlatTree Storage Bitfield Oplog Merkle Core.
From HC Require Import FlatTreeFacts StorageFacts BitfieldFacts OplogFacts TreeRef OffsetFacts CoreFacts Crash Refine.
From HC Require Import ClearRefine Reopen ContigBridge Unified1 Unified2 CrashCore1 CrashCore2 CrashClear1 CrashClear2.
From HC Require Import JsLayout JsLayoutOps.
From Coq Require Import FMapPositive ZifyN ZifyNat ZifyBool.
Ltac Zify.zify_post_hook ::= Z.div_mod_to_equations.
Arguments N.add : simpl never.
Arguments N.sub : simpl never.
Arguments N.mul : simpl never.
Arguments N.div : simpl never.
Arguments N.modulo : simpl never.
Arguments N.pow : simpl never.
Arguments N.eqb : simpl never.
Arguments N.ltb : simpl never.
Arguments N.leb : simpl never.
Arguments N.max : simpl never.
Arguments N.min : simpl never.
Arguments N.of_nat : simpl never.
Arguments N.to_nat : simpl never.

(* ====================================================================================== *)
(* A. Re-framing the pending entries of a running state with partial flags                 *)
(* ====================================================================================== *)

Lemma js_kept_app_partial (a x : list (entry * bool)) :
  forallb (fun y : entry * bool => snd y) x = true -> js_kept (a ++ x) = js_kept a.
Proof.
  intros H. unfold js_kept, kept. rewrite rev_app_distr, drop_tp_app_partial; [reflexivity|].
  rewrite forallb_rev. exact H.
Qed.

Lemma Ok_inj {A} (a b : A) : Ok a = Ok b -> a = b.
Proof. intros H. injection H as H. exact H. Qed.

Lemma choose_blank0 st0 st1 b0 b1 hf :
  choose st0 st1 = Some ((b0, b1), hf) -> xorb b0 b1 = true -> choose SInvalid st1 = Some ((b0, b1), hf).
Proof.
  destruct st0 as [h0 x0|], st1 as [h1 x1|]; cbn [choose]; intros H Hx; try discriminate H.
  - injection H as E0 E1 Eh. subst x0 x1 hf. destruct b0, b1; try discriminate Hx; reflexivity.
  - injection H as E0 E1 Eh. subst x0 b1. destruct b0; discriminate Hx.
  - exact H.
Qed.

Section Reflag.
  Variable cr : crypto.
  Hypothesis Hcrc : crc_ok cr.

  (* the oplog file content with the entries it holds re-framed: entry i gets flags[i]; [extra] (with its own
     flags) and [junk] are appended; with blank0 the first header slot is zero-filled *)
  Definition reflag_content (content : bytes) (blank0 : bool) (flags : list bool) (extra : list (entry * bool))
             (junk : bytes) : res bytes :=
    oo <- oplog_open cr None content ;;
    fb <- frames cr (current_bit (ol_bits (oo_oplog oo))) (combine (oo_entries oo) flags ++ extra) ;;
    Ok ((if blank0 then zeros SLOT else firstn SLOT content) ++ firstn SLOT (skipn SLOT content) ++ fb ++ junk).

  Definition reflag_disk (d : disk) (blank0 : bool) (flags : list bool) (extra : list (entry * bool)) (junk : bytes)
    : res disk :=
    c <- reflag_content (f_content (d_oplog d)) blank0 flags extra junk ;; Ok (d_set d Oplog (norm_file c)).

  Theorem JsDisk_reflag c d bs cl blank0 flags extra junk d' :
    YInv cr c d bs cl ->
    N.of_nat (length flags) = ol_entries_len (c_oplog c) ->      (* one flag per pending entry *)
    hd false (rev flags) = false ->                               (* the last one clear: batches completed *)
    forallb (fun x : entry * bool => snd x) extra = true ->       (* an unfinished batch *)
    forallb (fun x => entry_ok (fst x)) extra = true ->
    no_frame_here cr (current_bit (ol_bits (c_oplog c))) junk ->
    (blank0 = true -> current_bit (ol_bits (c_oplog c)) = true) -> (* slot 1 is the current one *)
    reflag_disk d blank0 flags extra junk = Ok d' ->
    JsDisk cr (c_keypair c) d' bs cl.
  Proof.
    intros (((HL & HB & HF & HR & Hlook & Hun & Hs & Hn) & Hbf & Hcg & Hd) &
            s0 & s1 & body & st0 & st1 & hf & l & kf & Hcont & G & Hlen & Hbytes & Hhf & Hhc & Hch & Hstore & Hby & Hsync)
           Hlenf Hlast Hex Hexok Hjunk Hblank Hr.
    pose proof G as (H0 & H1 & Hc & Hf & Hok).
    pose proof (slot_is_length cr s0 st0 H0) as L0. pose proof (slot_is_length cr s1 st1 H1) as L1.
    unfold reflag_disk in Hr. apply bind_ok in Hr as (content' & Hrc & Hr). apply Ok_inj in Hr. subst d'.
    unfold reflag_content in Hrc. rewrite Hcont, (good_open cr Hcrc _ _ _ _ _ _ _ _ G) in Hrc.
    cbn [bind stable_result oo_oplog oo_entries ol_bits] in Hrc.
    apply bind_ok in Hrc as (fb & Hfb & Hrc). apply Ok_inj in Hrc. subst content'.
    rewrite (firstn_app_exact s0 (s1 ++ body) SLOT L0), (skipn_app_exact s0 (s1 ++ body) SLOT L0),
            (firstn_app_exact s1 body SLOT L1).
    set (bits := ol_bits (c_oplog c)) in *.
    set (s0' := if blank0 then zeros SLOT else s0).
    set (st0' := if blank0 then SInvalid else st0).
    assert (H0' : slot_is cr s0' st0').
    { unfold s0', st0'. destruct blank0; [apply slot_dead_invalid, zeros_dead|exact H0]. }
    assert (Hc' : choose st0' st1 = Some (bits, hf)).
    { unfold st0'. destruct blank0; [|exact Hc]. specialize (Hblank eq_refl). unfold current_bit in Hblank.
      destruct bits as [b0 b1]. cbn [fst snd] in Hblank. apply (choose_blank0 st0 st1 b0 b1 hf Hc Hblank). }
    assert (Ll : length l = length flags) by lia.
    destruct (combine_fst_snd l flags Ll) as [C1 C2].
    assert (Hkept : js_kept (combine l flags ++ extra) = combine l flags).
    { rewrite (js_kept_app_partial _ _ Hex). apply js_kept_fix. rewrite map_rev, C2. exact Hlast. }
    split; [exact Hs|]. split; [exact Hn|].
    split; [destruct d; exact Hd|].
    exists s0', s1, (fb ++ junk), st0', st1, bits, hf, (combine l flags ++ extra), junk, kf.
    split; [destruct d; apply norm_file_content|].
    split; [exact H0'|]. split; [exact H1|]. split; [exact Hc'|].
    split.
    { exists fb. split; [exact Hfb|]. split; [reflexivity|]. split; [exact Hjunk|].
      rewrite forallb_app, Hexok, andb_true_r, <- forallb_map_fst, C1. exact Hok. }
    rewrite Hkept, C1.
    split; [exact Hhf|]. split; [exact Hch|]. split; [destruct d; exact Hstore|destruct d; exact Hby].
  Qed.
End Reflag.

(* ====================================================================================== *)
(* B. The toy writer and three JavaScript-layout disks made from its states                *)
(* ====================================================================================== *)

Definition toy_b1 : list bytes := [[1; 2; 3]].
Definition toy_b2 : list bytes := [[4]; [5; 6]].
Definition toy_bs3 : list bytes := toy_b1 ++ toy_b2.
Definition toy_cl3 : N -> bool := cl_clear (cl_mask (cl_mask (fun _ => false) 0) 1) 0 1.

(* create, append toy_b1 (flushing iff fl1), append toy_b2 and clear [0,1) without flushing: with fl1 = false three
   entries are pending in the oplog and the header is in slot 0 only; with fl1 = true two entries are pending and the
   current header is in slot 1 *)
Definition toy_state (fl1 : bool) : option (core * disk) :=
  match core_open toy_cr (Some toy_keypair) false disk_empty with
  | (d0, _, Ok c0) =>
    match core_append toy_cr (Some fl1) toy_b1 c0 (mkWorld d0 [] []) with
    | (c1, w1, Ok _) =>
      match core_append toy_cr (Some false) toy_b2 c1 (mkWorld (w_disk w1) [] []) with
      | (c2, w2, Ok _) =>
        match core_clear toy_cr (Some false) 0 1 c2 (mkWorld (w_disk w2) [] []) with
        | (c3, w3, Ok _) => Some (c3, w_disk w3)
        | _ => None
        end
      | _ => None
      end
    | _ => None
    end
  | _ => None
  end.

Lemma toy_state_YInv fl1 :
  exists c d, toy_state fl1 = Some (c, d) /\ YInv toy_cr c d toy_bs3 toy_cl3 /\ c_keypair c = toy_keypair.
Proof.
  assert (Hcomp : toy_state fl1 <> None) by (destruct fl1; vm_compute; discriminate).
  unfold toy_state in *.
  destruct (FInv_init toy_cr toy_crc_ok' toy_hash32 toy_nonblank toy_hashbytes toy_keypair eq_refl)
    as (d0 & ops0 & c0 & Ho & D & K).
  rewrite Ho in *. apply FInv_YInv in D.
  assert (Hsk0 : kp_secret (c_keypair c0) = Some (repeat 2 32%nat)) by (rewrite K; reflexivity).
  destruct (core_append toy_cr (Some fl1) toy_b1 c0 (mkWorld d0 [] [])) as [[c1 w1] r1] eqn:E1.
  destruct r1 as [x1| | |]; try (exfalso; apply Hcomp; reflexivity).
  destruct (append_YInv toy_cr toy_crc_ok' toy_hash32 toy_nonblank toy_hashbytes toy_sig64 toy_sigbytes
              (Some fl1) toy_b1 c0 d0 [] [] [] (fun _ => false) (repeat 2 32%nat) c1 w1 (Ok x1) D Hsk0)
    as [Hp|(_ & X1 & K1)]; [vm_compute; discriminate|vm_compute; discriminate|exact E1|discriminate Hp|].
  cbn [app length] in X1. change (N.of_nat 0) with 0 in X1.
  assert (Hsk1 : kp_secret (c_keypair c1) = Some (repeat 2 32%nat)) by (rewrite K1; exact Hsk0).
  destruct (core_append toy_cr (Some false) toy_b2 c1 (mkWorld (w_disk w1) [] [])) as [[c2 w2] r2] eqn:E2.
  destruct r2 as [x2| | |]; try (exfalso; apply Hcomp; reflexivity).
  destruct (append_YInv toy_cr toy_crc_ok' toy_hash32 toy_nonblank toy_hashbytes toy_sig64 toy_sigbytes
              (Some false) toy_b2 c1 (w_disk w1) [] [] toy_b1 _ (repeat 2 32%nat) c2 w2 (Ok x2) X1 Hsk1)
    as [Hp|(_ & X2 & K2)]; [vm_compute; discriminate|vm_compute; discriminate|exact E2|discriminate Hp|].
  change (N.of_nat (length toy_b1)) with 1 in X2. fold toy_bs3 in X2.
  destruct (core_clear toy_cr (Some false) 0 1 c2 (mkWorld (w_disk w2) [] [])) as [[c3 w3] r3] eqn:E3.
  destruct r3 as [x3| | |]; try (exfalso; apply Hcomp; reflexivity).
  destruct (clear_YInv toy_cr toy_crc_ok' toy_hash32 toy_nonblank toy_hashbytes (Some false) c2 (w_disk w2) [] []
              toy_bs3 _ 0 1 c3 w3 (Ok x3) X2 ltac:(vm_compute; reflexivity) ltac:(lia) ltac:(unfold u64_max; lia) E3)
    as (_ & X3 & K3).
  exists c3, (w_disk w3). split; [reflexivity|]. split; [exact X3|]. rewrite K3, K2, K1. exact K.
Qed.

(* an unfinished batch: a clear of block 1, flagged partial, never completed *)
Definition ex_unfinished : list (entry * bool) := [(mkEntry [] None (Some (mkBfUpdate true 1 1)), true)].

(* the partial flags of the frames found in the entries area of a disk *)
Definition scanned_flags (cr : crypto) (bit : bool) (d : disk) : res (list bool) :=
  let buf := skipn (N.to_nat ENTRIES_OFFSET) (f_content (d_oplog d)) in
  l <- scan_entries cr (S (length buf)) bit buf [] ;; Ok (map (fun x => snd (fst x)) l).

(* what the examples compute on a disk made from toy_state fl1: the flags on disk, then the open: the operations it
   issues, the oplog state, info, has 0..3, get 1, and the second open (operations, same core) *)
Definition toy_probe (fl1 blank0 : bool) (flags : list bool) (extra : list (entry * bool)) (junk : bytes) :=
  match toy_state fl1 with
  | Some (c, d) =>
     match reflag_disk toy_cr d blank0 flags extra junk with
     | Ok dj =>
        match core_open toy_cr None true dj with
        | (dj', ops, Ok cj) =>
            Some (scanned_flags toy_cr (current_bit (ol_bits (c_oplog c))) dj, f_len (d_oplog dj), ops, c_oplog cj,
                  core_info cj, map (core_has cj) [0; 1; 2; 3], snd (core_get 1 cj (mkWorld dj' [] [])),
                  match core_open toy_cr None true dj' with
                  | (dj'', ops2, Ok cj2) => Some (ops2, c_skip cj2 =? c_skip cj)
                  | _ => None
                  end)
        | _ => None
        end
     | _ => None
     end
  | None => None
  end.

(* the general shape of the three examples: the reflagged disk is a JsDisk of the toy log, and the theorems of
   JsLayout.v / JsLayoutOps.v apply to it *)
Lemma toy_js_disk fl1 blank0 flags extra junk :
  (exists c d, toy_state fl1 = Some (c, d) /\
     N.of_nat (length flags) = ol_entries_len (c_oplog c) /\
     no_frame_here toy_cr (current_bit (ol_bits (c_oplog c))) junk /\
     (blank0 = true -> current_bit (ol_bits (c_oplog c)) = true) /\
     exists dj, reflag_disk toy_cr d blank0 flags extra junk = Ok dj) ->
  hd false (rev flags) = false ->
  forallb (fun x : entry * bool => snd x) extra = true ->
  forallb (fun x => entry_ok (fst x)) extra = true ->
  exists c d dj,
    toy_state fl1 = Some (c, d) /\ reflag_disk toy_cr d blank0 flags extra junk = Ok dj /\
    JsDisk toy_cr toy_keypair dj toy_bs3 toy_cl3 /\
    exists cj dj' ops,
      core_open toy_cr None true dj = (dj', ops, Ok cj) /\
      JsInv toy_cr cj dj' toy_bs3 toy_cl3 /\ obs_cleared cj dj' toy_bs3 toy_cl3 /\
      core_open toy_cr None true dj' = (dj', [], Ok cj).
Proof.
  intros (c & d & E & Hlen & Hjunk & Hblank & dj & Hr) Hlast Hex Hexok.
  destruct (toy_state_YInv fl1) as (c' & d' & E' & X & K). rewrite E in E'. injection E' as <- <-.
  pose proof (JsDisk_reflag toy_cr toy_crc_ok' c d toy_bs3 toy_cl3 blank0 flags extra junk dj X Hlen Hlast Hex Hexok
                Hjunk Hblank Hr) as JD.
  rewrite K in JD.
  exists c, d, dj. split; [exact E|]. split; [exact Hr|]. split; [exact JD|].
  destruct (open_JsDisk toy_cr toy_crc_ok' toy_hash32 toy_nonblank toy_hashbytes toy_keypair dj _ _ JD)
    as (cj & dj' & ops & Eo & J & O & _ & _ & _ & _ & _ & _ & E2).
  exists cj, dj', ops. split; [exact Eo|]. split; [exact J|]. split; [exact O|exact E2].
Qed.

(* (4a) a log with a completed atomic batch: the three pending entries framed [p,p,-].  Nothing is truncated: the
   oplog state counts all 310 bytes of the three entries (an open that counted only the non-partial one would issue
   ST Oplog and lose the batch); the second open is the identity. *)
Example toy_completed_batch :
  toy_probe false false [true; true; false] [] [] =
  Some (Ok [true; true; false], 8502, [], mkOplog (false, false) 3 310, mkInfo 3 6 0 0 true,
        [false; true; true; false], Ok (Some [4]), Some ([], true)).
Proof. vm_compute. reflexivity. Qed.

Example toy_completed_batch_is_JsDisk :
  exists c d dj,
    toy_state false = Some (c, d) /\ reflag_disk toy_cr d false [true; true; false] [] [] = Ok dj /\
    JsDisk toy_cr toy_keypair dj toy_bs3 toy_cl3 /\
    exists cj dj' ops,
      core_open toy_cr None true dj = (dj', ops, Ok cj) /\
      JsInv toy_cr cj dj' toy_bs3 toy_cl3 /\ obs_cleared cj dj' toy_bs3 toy_cl3 /\
      core_open toy_cr None true dj' = (dj', [], Ok cj).
Proof.
  apply toy_js_disk; try reflexivity.
  assert (Hcomp : match toy_state false with
                  | Some (c, d) =>
                      ol_entries_len (c_oplog c) = 3 /\ ol_bits (c_oplog c) = (false, false) /\
                      match reflag_disk toy_cr d false [true; true; false] [] [] with Ok _ => True | _ => False end
                  | None => False
                  end) by (vm_compute; repeat split).
  destruct (toy_state false) as [[c d]|]; [|contradiction]. destruct Hcomp as (H1 & H2 & H3).
  exists c, d. split; [reflexivity|]. split; [rewrite H1; reflexivity|].
  split; [apply no_frame_nil|]. split; [discriminate|].
  destruct (reflag_disk toy_cr d false [true; true; false] [] []) as [dj| | |]; try contradiction.
  exists dj. reflexivity.
Qed.

(* (4b) the same with a trailing unfinished batch (one partial entry: a clear of block 1) and three junk bytes
   after it: one truncate at the end of the completed batch; block 1 is still there (has 1 = true, get 1 = [4]) *)
Example toy_unfinished_batch :
  toy_probe false false [true; true; false] ex_unfinished [1; 2; 3] =
  Some (Ok [true; true; false; true], 8517, [ST Oplog 8502], mkOplog (false, false) 3 310, mkInfo 3 6 0 0 true,
        [false; true; true; false], Ok (Some [4]), Some ([], true)).
Proof. vm_compute. reflexivity. Qed.

Example toy_unfinished_batch_is_JsDisk :
  exists c d dj,
    toy_state false = Some (c, d) /\ reflag_disk toy_cr d false [true; true; false] ex_unfinished [1; 2; 3] = Ok dj /\
    JsDisk toy_cr toy_keypair dj toy_bs3 toy_cl3 /\
    exists cj dj' ops,
      core_open toy_cr None true dj = (dj', ops, Ok cj) /\
      JsInv toy_cr cj dj' toy_bs3 toy_cl3 /\ obs_cleared cj dj' toy_bs3 toy_cl3 /\
      core_open toy_cr None true dj' = (dj', [], Ok cj).
Proof.
  apply toy_js_disk; try reflexivity.
  assert (Hcomp : match toy_state false with
                  | Some (c, d) =>
                      ol_entries_len (c_oplog c) = 3 /\ ol_bits (c_oplog c) = (false, false) /\
                      match reflag_disk toy_cr d false [true; true; false] ex_unfinished [1; 2; 3] with
                      | Ok _ => True | _ => False end
                  | None => False
                  end) by (vm_compute; repeat split).
  destruct (toy_state false) as [[c d]|]; [|contradiction]. destruct Hcomp as (H1 & H2 & H3).
  exists c, d. split; [reflexivity|]. split; [rewrite H1; reflexivity|].
  split; [left; apply validate_short; cbn; lia|]. split; [discriminate|].
  destruct (reflag_disk toy_cr d false [true; true; false] ex_unfinished [1; 2; 3]) as [dj| | |]; try contradiction.
  exists dj. reflexivity.
Qed.

(* (4c) the header in slot 1 only: the first append flushed (slot 1 is current, two entries pending), slot 0 is
   zero-filled; entries framed [p,-] plus the unfinished batch *)
Example toy_slot1_only :
  toy_probe true true [true; false] ex_unfinished [] =
  Some (Ok [true; false; true], 8399, [ST Oplog 8387], mkOplog (false, true) 2 195, mkInfo 3 6 0 0 true,
        [false; true; true; false], Ok (Some [4]), Some ([], true)).
Proof. vm_compute. reflexivity. Qed.

Example toy_slot1_only_is_JsDisk :
  exists c d dj,
    toy_state true = Some (c, d) /\ reflag_disk toy_cr d true [true; false] ex_unfinished [] = Ok dj /\
    firstn SLOT (f_content (d_oplog dj)) = zeros SLOT /\
    JsDisk toy_cr toy_keypair dj toy_bs3 toy_cl3 /\
    exists cj dj' ops,
      core_open toy_cr None true dj = (dj', ops, Ok cj) /\
      JsInv toy_cr cj dj' toy_bs3 toy_cl3 /\ obs_cleared cj dj' toy_bs3 toy_cl3 /\
      core_open toy_cr None true dj' = (dj', [], Ok cj).
Proof.
  assert (Hcomp : match toy_state true with
                  | Some (c, d) =>
                      ol_entries_len (c_oplog c) = 2 /\ ol_bits (c_oplog c) = (false, true) /\
                      match reflag_disk toy_cr d true [true; false] ex_unfinished [] with
                      | Ok dj => firstn SLOT (f_content (d_oplog dj)) = zeros SLOT | _ => False end
                  | None => False
                  end) by (vm_compute; repeat split).
  destruct (toy_js_disk true true [true; false] ex_unfinished []) as (c & d & dj & E & Hr & R); try reflexivity.
  { destruct (toy_state true) as [[c d]|]; [|contradiction]. destruct Hcomp as (H1 & H2 & H3).
    exists c, d. split; [reflexivity|]. split; [rewrite H1; reflexivity|].
    split; [apply no_frame_nil|]. split; [intros _; rewrite H2; reflexivity|].
    destruct (reflag_disk toy_cr d true [true; false] ex_unfinished []) as [dj| | |]; try contradiction.
    exists dj. reflexivity. }
  rewrite E, Hr in Hcomp. destruct Hcomp as (_ & _ & H3).
  exists c, d, dj. split; [exact E|]. split; [exact Hr|]. split; [exact H3|exact R].
Qed.

(* (3) on the disk of (4b): open, append [[7]], clear [1,2), drop the instance, open again — computed.  The new frames
   go after the flagged ones ([p,p,-,-,-] on disk), the reopen issues nothing and reads the list-with-cleared-set
   model: length 4, blocks 0 and 1 cleared, get 3 = [7]. *)
Example toy_js_chain_run :
  match toy_state false with
  | Some (c, d) =>
      match reflag_disk toy_cr d false [true; true; false] ex_unfinished [1; 2; 3] with
      | Ok dj =>
          match core_open toy_cr None true dj with
          | (d0, _, Ok c0) =>
              match core_append toy_cr (Some false) [[7]] c0 (mkWorld d0 [] []) with
              | (c1, w1, r1) =>
                  match core_clear toy_cr (Some false) 1 2 c1 w1 with
                  | (c2, w2, r2) =>
                      match core_open toy_cr None true (w_disk w2) with
                      | (d3, ops3, Ok c3) =>
                          r1 = Ok (4, 7) /\ r2 = Ok tt /\ ops3 = [] /\
                          scanned_flags toy_cr false d3 = Ok [true; true; false; false; false] /\
                          core_info c3 = mkInfo 4 7 0 0 true /\
                          map (core_has c3) [0; 1; 2; 3; 4] = [false; false; true; true; false] /\
                          snd (core_get 3 c3 (mkWorld d3 [] [])) = Ok (Some [7])
                      | _ => False
                      end
                  end
              end
          | _ => False
          end
      | _ => False
      end
  | None => False
  end.
Proof. vm_compute. repeat split; reflexivity. Qed.

(* ... and the same chain by the theorems: the hypotheses of js_open_append_clear_reopen (hence of open_JsDisk,
   append_JsInv, clear_JsInv, reopen_JsInv) are met by that disk *)
Example toy_js_chain_thm :
  let bs' := toy_bs3 ++ [[7]] in
  let cl' := cl_mask toy_cl3 (N.of_nat (length toy_bs3)) in
  exists c d dj,
    toy_state false = Some (c, d) /\ reflag_disk toy_cr d false [true; true; false] ex_unfinished [1; 2; 3] = Ok dj /\
    exists c0 d0 ops0,
      core_open toy_cr None true dj = (d0, ops0, Ok c0) /\ obs_cleared c0 d0 toy_bs3 toy_cl3 /\
      forall c1 w1 r1, core_append toy_cr (Some false) [[7]] c0 (mkWorld d0 [] []) = (c1, w1, r1) ->
        r1 = Panic frame_msg \/
        (r1 = Ok (N.of_nat (length bs'), sumN (map len bs')) /\
         obs_cleared c1 (w_disk w1) bs' cl' /\
         forall c2 w2 r2, core_clear toy_cr (Some false) 1 2 c1 w1 = (c2, w2, r2) ->
           r2 = Ok tt /\
           obs_cleared c2 (w_disk w2) bs' (cl_clear cl' 1 2) /\
           exists c3, core_open toy_cr None true (w_disk w2) = (w_disk w2, [], Ok c3) /\
             obs_cleared c3 (w_disk w2) bs' (cl_clear cl' 1 2) /\
             c_keypair c3 = toy_keypair).
Proof.
  intros bs' cl'.
  destruct toy_unfinished_batch_is_JsDisk as (c & d & dj & E & Hr & JD & _).
  exists c, d, dj. split; [exact E|]. split; [exact Hr|].
  assert (H1 : sumN (map len (toy_bs3 ++ [[7]])) <= u64_max) by (vm_compute; discriminate).
  assert (H2 : NODE_SIZE * (2 * N.of_nat (length (toy_bs3 ++ [[7]]))) <= u64_max) by (vm_compute; discriminate).
  assert (H3 : 1 < N.of_nat (length (toy_bs3 ++ [[7]]))) by (vm_compute; reflexivity).
  assert (H4 : 1 < 2) by (vm_compute; reflexivity).
  assert (H5 : 2 <= u64_max) by (vm_compute; discriminate).
  exact (js_open_append_clear_reopen toy_cr toy_crc_ok' toy_hash32 toy_nonblank toy_hashbytes toy_sig64 toy_sigbytes
           toy_keypair dj toy_bs3 toy_cl3 (repeat 2 32%nat) (Some false) [[7]] (Some false) 1 2 JD eq_refl
           H1 H2 H3 H4 H5).
Qed.

(* REQUESTED in the assignment: "the result [of core_open on a JsDisk] satisfies YInv/FInv for (bs, cl) on the disk
   after open's own operations".  This is FALSE whenever a completed batch is kept: YInv's clause Crash.good says that
   the entries area is the frames of the pending entries with NO partial flag, but open leaves the flags where they
   are.  Counterexample: the disk of toy_completed_batch ([p,p,-]).  What holds instead is JsLayout.JsInv (the same
   invariant with flags allowed; open_JsDisk), and YInv itself when no kept entry carries the flag (open_js_core, last
   clause).  FInv fails a fortiori (FInv -> YInv). *)
Lemma scanned_tag_flags l :
  map (fun x : entry * bool * N => snd (fst x)) (scanned_of (tag l)) = repeat false (length l).
Proof. induction l as [|e l IH]; [reflexivity|]. cbn [tag map scanned_of fst snd length repeat]. f_equal. exact IH. Qed.

Example open_result_is_YInv_refuted :
  exists c d dj cj dj' ops,
    toy_state false = Some (c, d) /\ reflag_disk toy_cr d false [true; true; false] [] [] = Ok dj /\
    JsDisk toy_cr toy_keypair dj toy_bs3 toy_cl3 /\
    core_open toy_cr None true dj = (dj', ops, Ok cj) /\
    JsInv toy_cr cj dj' toy_bs3 toy_cl3 /\
    forall bs cl, ~ YInv toy_cr cj dj' bs cl.
Proof.
  assert (Hcomp : match toy_state false with
                  | Some (c, d) =>
                      match reflag_disk toy_cr d false [true; true; false] [] [] with
                      | Ok dj =>
                          match core_open toy_cr None true dj with
                          | (dj', _, Ok cj) =>
                              scanned_flags toy_cr false dj' = Ok [true; true; false] /\
                              ol_bits (c_oplog cj) = (false, false)
                          | _ => False
                          end
                      | _ => False
                      end
                  | None => False
                  end) by (vm_compute; split; reflexivity).
  destruct toy_completed_batch_is_JsDisk as (c & d & dj & E & Hr & JD & cj & dj' & ops & Eo & J & _).
  rewrite E, Hr, Eo in Hcomp. destruct Hcomp as [Hfl Hbits].
  exists c, d, dj, cj, dj', ops. split; [exact E|]. split; [exact Hr|]. split; [exact JD|]. split; [exact Eo|].
  split; [exact J|].
  intros bs cl (_ & s0 & s1 & body & st0 & st1 & hf & l & kf & Hcont & (H0 & H1 & _ & Hf & Hok) & _).
  rewrite Hbits in Hf. change (current_bit (false, false)) with false in Hf.
  unfold scanned_flags in Hfl. cbv zeta in Hfl.
  rewrite Hcont, (skipn_two_slots s0 s1 body (slot_is_length _ _ _ H0) (slot_is_length _ _ _ H1)) in Hfl.
  rewrite <- (app_nil_r body) in Hfl.
  rewrite (scan_entries_open_fuel toy_cr false (tag l) body [] toy_crc_ok') in Hfl;
    [|rewrite tag_ok; exact Hok|exact Hf|apply no_frame_nil].
  cbn [bind] in Hfl. rewrite scanned_tag_flags in Hfl. apply Ok_inj in Hfl.
  destruct l as [|e l]; [discriminate Hfl|]. discriminate Hfl.
Qed.

(* ====================================================================================== *)
(* C. The flag patterns of the assignment at the level of Oplog::open (oplog_open)         *)
(* ====================================================================================== *)

(* nine one-byte-update entries framed with the given flags after the two toy header slots of Crash.v; the summary:
   entries kept, bytes counted, operations issued, file length *)
Definition pat_content (fl : list bool) : bytes :=
  ex_s0 ++ ex_s1 ++
  match frames toy true (combine (map ex_entry [1; 2; 3; 4; 5; 6; 7; 8; 9]) fl) with Ok b => b | _ => [] end.

Definition open_summary (c : bytes) : option (N * N * list sop * N) :=
  match oplog_open toy None c with
  | Ok oo => Some (ol_entries_len (oo_oplog oo), ol_entries_bytes (oo_oplog oo), oo_ops oo, len c)
  | _ => None
  end.

Definition after_open (c : bytes) : option bytes :=
  match oplog_open toy None c with Ok oo => c_apply_all c (oo_ops oo) | _ => None end.

(* [p,-,p,p,-,p]: the five entries up to the last non-partial one are kept (5 * 12 = 60 bytes), the sixth is cut;
   after the truncate the file describes the same five entries and nothing more is cut.  This is what the
   JavaScript reader does (pop trailing partial entries only): the model and src/oplog/mod.rs agree with it. *)
Example pattern_p_n_p_p_n_p :
  open_summary (pat_content [true; false; true; true; false; true]) = Some (5, 60, [ST Oplog 8252], 8264) /\
  match after_open (pat_content [true; false; true; true; false; true]) with
  | Some c' => open_summary c' = Some (5, 60, [], 8252)
  | None => False
  end.
Proof. vm_compute. split; reflexivity. Qed.

Example pattern_p_p_n : open_summary (pat_content [true; true; false]) = Some (3, 36, [], 8228).
Proof. vm_compute. reflexivity. Qed.

Example pattern_n_p_p : open_summary (pat_content [false; true; true]) = Some (1, 12, [ST Oplog 8204], 8228).
Proof. vm_compute. reflexivity. Qed.

Example pattern_p_p_p : open_summary (pat_content [true; true; true]) = Some (0, 0, [ST Oplog 8192], 8228).
Proof. vm_compute. reflexivity. Qed.

(* the literal statement "the result of the open satisfies CrashClear1.YInv" is FALSE when a completed batch is kept:
   YInv's clause Crash.good says the entries area is the frames of the pending entries with NO flag set, but open
   leaves the flags where they are.  On the content level: after opening [p,p,-] the file still scans as [p,p,-],
   and no list l has frames (tag l) equal to that entries area (same length, same entries, different flag bits). *)
Example flags_stay_on_disk_refuted :
  let c := pat_content [true; true; false] in
  after_open c = Some c /\
  skipn (N.to_nat ENTRIES_OFFSET) c <>
  match frames toy true (tag (map ex_entry [1; 2; 3])) with Ok b => b | _ => [] end.
Proof. vm_compute. split; [reflexivity|discriminate]. Qed.

Print Assumptions JsDisk_reflag.
Print Assumptions toy_state_YInv.
Print Assumptions toy_completed_batch.
Print Assumptions toy_completed_batch_is_JsDisk.
Print Assumptions toy_unfinished_batch.
Print Assumptions toy_unfinished_batch_is_JsDisk.
Print Assumptions toy_slot1_only.
Print Assumptions toy_slot1_only_is_JsDisk.
Print Assumptions toy_js_chain_run.
Print Assumptions toy_js_chain_thm.
Print Assumptions open_result_is_YInv_refuted.
Print Assumptions pattern_p_n_p_p_n_p.
Print Assumptions flags_stay_on_disk_refuted.

(* Base.v — results with explicit panic/fuel outcomes, bytes, little-endian numbers.
   Mirrors: HypercoreError variants (src/common/error.rs). *)
From Coq Require Export String.
From Coq Require Export List NArith ZArith Lia Bool.
Export ListNotations.
#[global] Open Scope N_scope.

Inductive errkind :=
| BadArgument | NotWritable | InvalidSignature | InvalidChecksum | EmptyStorage
| CorruptStorage | InvalidOperation | IOErr | EncodingErr.

Inductive res (A : Type) : Type :=
| Ok (a : A)
| Err (e : errkind)
| Panic (site : string)
| OutOfFuel.
Arguments Ok {A} a.
Arguments Err {A} e.
Arguments Panic {A} site.
Arguments OutOfFuel {A}.

Definition bind {A B} (r : res A) (f : A -> res B) : res B :=
  match r with
  | Ok a => f a
  | Err e => Err e
  | Panic s => Panic s
  | OutOfFuel => OutOfFuel
  end.

Notation "x <- r ;; k" := (bind r (fun x => k))
  (at level 61, r at next level, right associativity).
Notation "' p <- r ;; k" := (bind r (fun p => k))
  (at level 61, p pattern, r at next level, right associativity).

Definition is_ok {A} (r : res A) : bool := match r with Ok _ => true | _ => false end.
Definition is_err {A} (r : res A) : bool := match r with Err _ => true | _ => false end.
(* "returned a value or an error": neither a panic nor fuel exhaustion *)
Definition returns {A} (r : res A) : bool :=
  match r with Ok _ | Err _ => true | _ => false end.

(* EncodingError converts into HypercoreError::InvalidOperation (From impl in error.rs) *)
Definition lift_enc {A} (r : res A) : res A :=
  match r with Err EncodingErr => Err InvalidOperation | x => x end.

Definition bytes := list N.
Definition byte_ok (b : N) : bool := b <? 256.
Definition bytes_ok (bs : bytes) : bool := forallb byte_ok bs.

Definition len (bs : bytes) : N := N.of_nat (length bs).

(* little-endian, fixed width *)
Fixpoint le_bytes (n : nat) (v : N) : bytes :=
  match n with
  | O => []
  | S k => (v mod 256) :: le_bytes k (v / 256)
  end.

Fixpoint le_val (bs : bytes) : N :=
  match bs with
  | [] => 0
  | b :: r => b + 256 * le_val r
  end.

(* split off the first n bytes, None if too short *)
Fixpoint take (n : nat) (bs : bytes) : option (bytes * bytes) :=
  match n with
  | O => Some ([], bs)
  | S k => match bs with
           | [] => None
           | b :: r => match take k r with
                       | Some (h, t) => Some (b :: h, t)
                       | None => None
                       end
           end
  end.

Definition zeros (n : nat) : bytes := repeat 0 n.

Definition all_zero (bs : bytes) : bool := forallb (N.eqb 0) bs.

Fixpoint bytes_eqb (a b : bytes) : bool :=
  match a, b with
  | [], [] => true
  | x :: a', y :: b' => (x =? y) && bytes_eqb a' b'
  | _, _ => false
  end.

Definition u64_max : N := 18446744073709551615.
Definition fits_u64 (v : N) : bool := v <=? u64_max.

(* checked u64 arithmetic: debug builds panic on overflow *)
Definition add64 (site : string) (a b : N) : res N :=
  if fits_u64 (a + b) then Ok (a + b) else Panic site.
Definition sub64 (site : string) (a b : N) : res N :=
  if b <=? a then Ok (a - b) else Panic site.
Definition mul64 (site : string) (a b : N) : res N :=
  if fits_u64 (a * b) then Ok (a * b) else Panic site.

Fixpoint sumN (l : list N) : N :=
  match l with [] => 0 | x :: r => x + sumN r end.

Definition option_bind {A B} (o : option A) (f : A -> option B) : option B :=
  match o with Some a => f a | None => None end.

(* FnTie.v — tie between small pure EXPRESSIONS of /repo/src (SrcFns.v, regenerated from the source on every run by
   tools/srcfns.py, over the AST of FnDesc.v) and the functions of the model that mirror them by hand.

   Each statement reads: if the crate still has the expression in the recognisable place, then for all arguments in the stated
   range its value ([reval] in the environment built from the arguments) IS the model's function on these arguments. [None]
   (function renamed, statement restructured, a helper extracted ...) makes the statement trivially true; a recognisable but
   different expression (`<< 3`, swapped masks, `c <= end && c > start` in the drop branch, the other slot ...) breaks the proof,
   i.e. the model no longer describes the source.

   - src/oplog/mod.rs build_len_and_info_header: the leader word is [len_field]; its 30-bit guard is the guard of [frame].
   - validate_leader: length / header bit / partial bit are `combined / 4`, `N.odd combined`, `N.odd (combined / 2)`, the two
     "no frame" conditions and the checksum zone are those of [validate_leader]; [validate_leader_is_the_sources]: the model's
     WHOLE function is the one assembled from the seven source expressions.
   - get_current_header_bit is [current_bit]; get_next_header_oplog_slot_and_bit_value is (slot, bit) of [next_slot].
   - src/core.rs update_contiguous_length: [update_contig] on a drop / on a set is the source's condition and value.
   - should_flush_bitfield_and_tree_and_oplog: [maybe_flush] with the native cadence takes the source's decision and sets
     skip_flush_count to the source's values.
   The named constants that occur in the expressions (CRC_SIZE, LEADER_SIZE, HEADER_SIZE, MAX_OPLOG_ENTRIES_BYTE_SIZE) are given
   the model's values; ConstTie.v proves those equal to the source's. *)
From HC Require Import Base Codec CodecFacts Crypto Storage Bitfield Oplog Merkle Core OplogFacts FnDesc SrcFns FnTieLib.
From Coq Require Import FMapPositive.
From Coq Require Import ZifyN ZifyNat ZifyBool Lia.
Ltac Zify.zify_post_hook ::= Z.div_mod_to_equations.
#[local] Arguments N.add : simpl never.
#[local] Arguments N.sub : simpl never.
#[local] Arguments N.mul : simpl never.
#[local] Arguments N.div : simpl never.
#[local] Arguments N.modulo : simpl never.
#[local] Arguments N.pow : simpl never.
#[local] Arguments N.eqb : simpl never.
#[local] Arguments N.ltb : simpl never.
#[local] Arguments N.leb : simpl never.
#[local] Arguments N.shiftl : simpl never.
#[local] Arguments N.shiftr : simpl never.
#[local] Arguments N.land : simpl never.
#[local] Arguments N.lor : simpl never.
#[local] Arguments N.odd : simpl never.
#[local] Arguments N.testbit : simpl never.
Local Open Scope string_scope.
Local Open Scope list_scope.
Local Open Scope N_scope.

(* ================================================================================================================= *)
(* 1. build_len_and_info_header                                                                                       *)
(* ================================================================================================================= *)

Definition env_leader_word (n : N) (hb pb : bool) : string -> N :=
  env_of [("data_length", n); ("header_bit", N.b2n hb); ("partial_bit", N.b2n pb)].

(* the returned word, for a length that passed the 30-bit guard *)
Definition leader_word_tie (e : rexpr) : Prop :=
  forall n hb pb, n < 1073741824 -> reval (env_leader_word n hb pb) e = len_field n hb pb.

(* the guard: for every u32 length (the conversion before it panics on anything larger) it fires exactly when [frame] panics *)
Definition leader_guard_tie (e : rexpr) : Prop :=
  forall n, n < 4294967296 -> truthy (reval (env_leader_word n false false) e) = (1073741824 <=? n).

Lemma tie_leader_word : tied_fn src_leader_word leader_word_tie.
Proof.
  open_tie. first [exact I | intros n hb pb Hn; unfold env_leader_word, len_field; ev; rewrite !truthy_b2n].
  all: rewrite shiftl_2; destruct hb, pb; cbn [N.b2n];
    rewrite <- ?N.lor_assoc; rewrite ?N.lor_0_r; change 4 with (2 ^ 2); rewrite <- ?N.shiftl_mul_pow2;
    rewrite ?lor_shiftl_low by (vm_compute; reflexivity); try rewrite N.shiftl_mul_pow2;
    repeat match goal with |- context [N.lor ?a ?b] => let v := eval vm_compute in (N.lor a b) in change (N.lor a b) with v end;
    lia.
Qed.

Lemma tie_leader_guard : tied_fn src_leader_guard leader_guard_tie.
Proof.
  open_tie. first [exact I | intros n Hn; unfold env_leader_word; ev; rewrite truthy_b2n].
  all: rewrite land_top2 by exact Hn; destruct (N.ltb_spec n 1073741824), (N.leb_spec 1073741824 n); cbn [negb]; try reflexivity; lia.
Qed.

(* ================================================================================================================= *)
(* 2. validate_leader                                                                                                 *)
(* ================================================================================================================= *)

(* buffer.len(), the second little-endian u32 of the buffer, the length of what follows the 8 leader bytes *)
Definition env_leader (buflen combined datalen : N) : string -> N :=
  env_of [("buffer.len()", buflen); ("combined", combined); ("data_buff.len()", datalen); ("CRC_SIZE", 4); ("LEADER_SIZE", 8)].

Definition leader_min_len_tie (e : rexpr) : Prop :=
  forall cr buf, truthy (reval (env_leader (len buf) 0 0) e) = true -> validate_leader cr buf = None.
Definition leader_min_len_value_tie (e : rexpr) : Prop :=
  forall n, truthy (reval (env_leader n 0 0) e) = (n <? 8).
Definition leader_len_tie (e : rexpr) : Prop :=
  forall bl combined dl, reval (env_leader bl combined dl) e = combined / 4.
Definition leader_header_bit_tie (e : rexpr) : Prop :=
  forall bl combined dl, reval (env_leader bl combined dl) e = N.b2n (N.odd combined).
Definition leader_partial_bit_tie (e : rexpr) : Prop :=
  forall bl combined dl, reval (env_leader bl combined dl) e = N.b2n (N.odd (combined / 2)).
Definition leader_no_frame_tie (e : rexpr) : Prop :=
  forall bl combined dl, truthy (reval (env_leader bl combined dl) e) = ((combined / 4 =? 0) || (dl <? combined / 4)).
Definition leader_zone_lo_tie (e : rexpr) : Prop :=
  forall bl combined dl, reval (env_leader bl combined dl) e = 4.
Definition leader_zone_hi_tie (e : rexpr) : Prop :=
  forall bl combined dl, reval (env_leader bl combined dl) e = 8 + combined / 4.

Lemma tie_leader_min_len_value : tied_fn src_leader_min_len leader_min_len_value_tie.
Proof. open_tie. first [exact I | intros n; unfold env_leader; ev; cmp_cases]. Qed.

Lemma tie_leader_len : tied_fn src_leader_len leader_len_tie.
Proof. open_tie. first [exact I | intros bl c dl; unfold env_leader; ev; rewrite ?shiftr_2; reflexivity]. Qed.

Lemma tie_leader_header_bit : tied_fn src_leader_header_bit leader_header_bit_tie.
Proof.
  open_tie. first [exact I | intros bl c dl; unfold env_leader; ev; rewrite ?land_1, ?land_2].
  all: destruct (N.odd c); cbn [N.b2n]; cmp_cases.
Qed.

Lemma tie_leader_partial_bit : tied_fn src_leader_partial_bit leader_partial_bit_tie.
Proof.
  open_tie. first [exact I | intros bl c dl; unfold env_leader; ev; rewrite ?land_1, ?land_2].
  all: destruct (N.odd (c / 2)); cbn [N.b2n]; cmp_cases.
Qed.

Lemma tie_leader_no_frame : tied_fn src_leader_no_frame leader_no_frame_tie.
Proof.
  open_tie. first [exact I | intros bl c dl; unfold env_leader; ev; rewrite ?shiftr_2].
  all: generalize (c / 4); intros l; cmp_cases.
Qed.

Lemma tie_leader_zone_lo : tied_fn src_leader_zone_lo leader_zone_lo_tie.
Proof. open_tie. first [exact I | intros bl c dl; unfold env_leader; ev; rewrite ?shiftr_2; generalize (c / 4); intros l; lia]. Qed.

Lemma tie_leader_zone_hi : tied_fn src_leader_zone_hi leader_zone_hi_tie.
Proof. open_tie. first [exact I | intros bl c dl; unfold env_leader; ev; rewrite ?shiftr_2; generalize (c / 4); intros l; lia]. Qed.

(* ---- the whole function, assembled from the source's expressions ---- *)

(* validate_leader of src/oplog/mod.rs read as a program over its seven expressions: the stored checksum is the first
   little-endian u32, `combined` the second, `data_buff` the rest; the checksum is computed over buffer[lo..hi] *)
Definition leader_of_source (cr : crypto) (emin elen ebit epart enof elo ehi : rexpr) (buf : bytes) : option leader :=
  if truthy (reval (env_leader (len buf) 0 0) emin) then None
  else
    let stored := le_val (firstn 4 buf) in
    let combined := le_val (firstn 4 (skipn 4 buf)) in
    let data := skipn 8 buf in
    let env := env_leader (len buf) combined (len data) in
    if truthy (reval env enof) then None
    else
      let lo := reval env elo in
      let hi := reval env ehi in
      if cr_crc cr (firstn (N.to_nat (hi - lo)) (skipn (N.to_nat lo) buf)) =? stored
      then Some (mkLeader (truthy (reval env ebit)) (truthy (reval env epart)) (reval env elen) data)
      else None.

Lemma split_8 (buf : bytes) : (8 <= length buf)%nat ->
  exists c lf data, buf = c ++ lf ++ data /\ length c = 4%nat /\ length lf = 4%nat.
Proof.
  intros H. exists (firstn 4 buf), (firstn 4 (skipn 4 buf)), (skipn 4 (skipn 4 buf)).
  rewrite !firstn_skipn. repeat split.
  - rewrite firstn_length. lia.
  - rewrite firstn_length, skipn_length. lia.
Qed.

Lemma validate_leader_generic cr emin elen ebit epart enof elo ehi :
  leader_min_len_value_tie emin -> leader_len_tie elen -> leader_header_bit_tie ebit -> leader_partial_bit_tie epart ->
  leader_no_frame_tie enof -> leader_zone_lo_tie elo -> leader_zone_hi_tie ehi ->
  forall buf, validate_leader cr buf = leader_of_source cr emin elen ebit epart enof elo ehi buf.
Proof.
  intros Hmin Hlen Hbit Hpart Hnof Hlo Hhi buf. unfold leader_of_source. rewrite Hmin.
  destruct (N.ltb_spec (len buf) 8) as [Hshort|Hlong].
  - unfold validate_leader. unfold len in Hshort.
    destruct (take 4 buf) as [[c r1]|] eqn:E1; [|reflexivity].
    destruct (take_length _ _ _ _ E1) as [-> Hc].
    rewrite take_short; [reflexivity|]. rewrite app_length in Hshort. lia.
  - destruct (split_8 buf) as (c & lf & data & -> & Hc & Hlf); [unfold len in Hlong; lia|].
    unfold validate_leader. rewrite (take_app_n 4 c (lf ++ data) Hc), (take_app_n 4 lf data Hlf).
    replace (firstn 4 (c ++ lf ++ data)) with c by (rewrite firstn_app, Hc, firstn_all2 by lia; cbn; now rewrite app_nil_r).
    replace (skipn 4 (c ++ lf ++ data)) with (lf ++ data)
      by (rewrite skipn_app, Hc, skipn_all2 by lia; reflexivity).
    replace (firstn 4 (lf ++ data)) with lf by (rewrite firstn_app, Hlf, firstn_all2 by lia; cbn; now rewrite app_nil_r).
    replace (skipn 8 (c ++ lf ++ data)) with data
      by (rewrite skipn_app, Hc, skipn_all2 by lia; cbn [app Nat.sub]; rewrite skipn_app, Hlf, skipn_all2 by lia; reflexivity).
    cbv zeta. rewrite Hnof, Hlo, Hhi, Hbit, Hpart, Hlen, !truthy_b2n.
    set (l := le_val lf / 4).
    destruct ((l =? 0) || (len data <? l)) eqn:Enof; [reflexivity|].
    replace (N.to_nat (8 + l - 4)) with (4 + N.to_nat l)%nat by lia.
    replace (N.to_nat 4) with 4%nat by reflexivity.
    replace (skipn 4 (c ++ lf ++ data)) with (lf ++ data)
      by (rewrite skipn_app, Hc, skipn_all2 by lia; reflexivity).
    replace (firstn (4 + N.to_nat l) (lf ++ data)) with (lf ++ firstn (N.to_nat l) data); [reflexivity|].
    rewrite firstn_app, Hlf, (@firstn_all2 _ _ lf) by lia. f_equal. f_equal. lia.
Qed.

(* the indexing buffer[lo..hi] of the source is within the buffer whenever it is reached (so the Rust slice does not panic) *)
Definition leader_zone_in_bounds (emin enof elo ehi : rexpr) : Prop :=
  forall buf, let combined := le_val (firstn 4 (skipn 4 buf)) in
              let env := env_leader (len buf) combined (len (skipn 8 buf)) in
    truthy (reval (env_leader (len buf) 0 0) emin) = false -> truthy (reval env enof) = false ->
    reval env elo <= reval env ehi <= len buf.

Lemma zone_in_bounds_generic emin enof elo ehi :
  leader_min_len_value_tie emin -> leader_no_frame_tie enof -> leader_zone_lo_tie elo -> leader_zone_hi_tie ehi ->
  leader_zone_in_bounds emin enof elo ehi.
Proof.
  intros Hmin Hnof Hlo Hhi buf. cbv zeta. rewrite Hmin, Hnof, Hlo, Hhi. unfold len. rewrite skipn_length.
  set (l := le_val (firstn 4 (skipn 4 buf)) / 4). intros H8 Hn.
  apply N.ltb_ge in H8. apply orb_false_iff in Hn. destruct Hn as [_ Hn]. apply N.ltb_ge in Hn. lia.
Qed.

Definition validate_leader_tie : Prop :=
  tied_fn src_leader_min_len (fun emin => tied_fn src_leader_len (fun elen => tied_fn src_leader_header_bit (fun ebit =>
  tied_fn src_leader_partial_bit (fun epart => tied_fn src_leader_no_frame (fun enof => tied_fn src_leader_zone_lo (fun elo =>
  tied_fn src_leader_zone_hi (fun ehi =>
    (forall cr buf, validate_leader cr buf = leader_of_source cr emin elen ebit epart enof elo ehi buf) /\
    leader_zone_in_bounds emin enof elo ehi))))))).

Lemma tied_fn_intro {A} (src : option A) (P Q : A -> Prop) :
  tied_fn src P -> (forall e, src = Some e -> P e -> Q e) -> tied_fn src Q.
Proof. destruct src as [e|]; cbn; [intros HP H; now apply (H e) | auto]. Qed.

Theorem validate_leader_is_the_sources : validate_leader_tie.
Proof.
  unfold validate_leader_tie.
  eapply tied_fn_intro; [exact tie_leader_min_len_value|]. intros emin _ Hmin.
  eapply tied_fn_intro; [exact tie_leader_len|]. intros elen _ Hlen.
  eapply tied_fn_intro; [exact tie_leader_header_bit|]. intros ebit _ Hbit.
  eapply tied_fn_intro; [exact tie_leader_partial_bit|]. intros epart _ Hpart.
  eapply tied_fn_intro; [exact tie_leader_no_frame|]. intros enof _ Hnof.
  eapply tied_fn_intro; [exact tie_leader_zone_lo|]. intros elo _ Hlo.
  eapply tied_fn_intro; [exact tie_leader_zone_hi|]. intros ehi _ Hhi.
  split.
  - intros cr buf. now apply validate_leader_generic.
  - now apply zone_in_bounds_generic.
Qed.

(* the minimum-length condition alone, stated on the model's function *)
Lemma tie_leader_min_len : tied_fn src_leader_min_len leader_min_len_tie.
Proof.
  eapply tied_fn_intro; [exact tie_leader_min_len_value|]. intros e _ He cr buf. rewrite He. intros Hshort.
  apply N.ltb_lt in Hshort. unfold validate_leader, len in *.
  destruct (take 4 buf) as [[c r1]|] eqn:E1; [|reflexivity].
  destruct (take_length _ _ _ _ E1) as [-> Hc].
  rewrite take_short; [reflexivity|]. rewrite app_length in Hshort. lia.
Qed.

(* ================================================================================================================= *)
(* 3. header slot automaton                                                                                           *)
(* ================================================================================================================= *)

Definition env_bits (b0 b1 : bool) : string -> N :=
  env_of [("self.header_bits[0]", N.b2n b0); ("self.header_bits[1]", N.b2n b1);
          ("header_bits[0]", N.b2n b0); ("header_bits[1]", N.b2n b1); ("HEADER_SIZE", HEADER_SIZE)].

Definition current_bit_tie (e : rexpr) : Prop :=
  forall b0 b1, reval (env_bits b0 b1) e = N.b2n (current_bit (b0, b1)).

Lemma tie_current_bit : tied_fn src_current_bit current_bit_tie.
Proof. open_tie. first [exact I | intros [|] [|]; vm_compute; reflexivity]. Qed.

(* (slot offset, bit to write): the first two components of [next_slot] *)
Definition next_slot_spec (c ts tb es eb : rexpr) : Prop :=
  forall b0 b1, let env := env_bits b0 b1 in
    fst (next_slot (b0, b1)) = if truthy (reval env c) then (reval env ts, truthy (reval env tb))
                               else (reval env es, truthy (reval env eb)).
Definition next_slot_tie : Prop :=
  tied_fn src_next_slot_cond (fun c => tied_fn src_next_slot_then_slot (fun ts => tied_fn src_next_slot_then_bit (fun tb =>
  tied_fn src_next_slot_else_slot (fun es => tied_fn src_next_slot_else_bit (fun eb => next_slot_spec c ts tb es eb))))).

Theorem next_slot_is_the_sources : next_slot_tie.
Proof. unfold next_slot_tie, next_slot_spec. open_tie. first [exact I | intros [|] [|]; vm_compute; reflexivity]. Qed.

(* ================================================================================================================= *)
(* 5. should_flush_bitfield_and_tree_and_oplog                                                                        *)
(* ================================================================================================================= *)

Definition env_flush (c : core) : string -> N :=
  env_of [("self.skip_flush_count", c_skip c); ("self.oplog.entries_byte_length", ol_entries_bytes (c_oplog c));
          ("MAX_OPLOG_ENTRIES_BYTE_SIZE", MAX_OPLOG_ENTRIES_BYTE_SIZE)].

(* the native decision of the model, as a function (maybe_flush has it inline) *)
Definition native_flush_decision (c : core) : bool :=
  (c_skip c =? 0) || (MAX_OPLOG_ENTRIES_BYTE_SIZE <=? ol_entries_bytes (c_oplog c)).

Lemma maybe_flush_native cr c w :
  maybe_flush cr None c w =
  (if native_flush_decision c then (put_skip 3 ;;; flush_all cr false) else put_skip (c_skip c - 1)) c w.
Proof. reflexivity. Qed.

(* with the native cadence the model flushes exactly when the source's function returns true (it returns true in its `then` branch
   and false in the other), and leaves in skip_flush_count what the source's branch assigns *)
Definition flush_spec (fc st se rt re : rexpr) : Prop :=
  forall cr c w, let env := env_flush c in
    truthy (reval env rt) = true /\ truthy (reval env re) = false /\
    maybe_flush cr None c w =
    (if truthy (reval env fc) then (put_skip (reval env st) ;;; flush_all cr false) else put_skip (reval env se)) c w.
Definition flush_tie : Prop :=
  tied_fn src_flush_cond (fun fc => tied_fn src_flush_skip_then (fun st => tied_fn src_flush_skip_else (fun se =>
  tied_fn src_flush_result_then (fun rt => tied_fn src_flush_result_else (fun re => flush_spec fc st se rt re))))).

Theorem flush_decision_is_the_sources : flush_tie.
Proof.
  unfold flush_tie, flush_spec. open_tie.
  first [exact I | intros cr c w; cbv zeta; rewrite maybe_flush_native; unfold native_flush_decision, env_flush; ev].
  all: split; [reflexivity|]; split; [reflexivity|].
  all: generalize (c_skip c), (ol_entries_bytes (c_oplog c)), MAX_OPLOG_ENTRIES_BYTE_SIZE; intros sk by_ mx.
  all: match goal with |- (if ?a then _ else _) _ _ = (if ?b then _ else _) _ _ => replace b with a by cmp_cases end.
  all: reflexivity.
Qed.

(* ================================================================================================================= *)
(* Examples: the specifications are met by the expressions of today's source (written out, independent of SrcFns.v), on concrete  *)
(* arguments the two sides compute the same non-trivial values, and deliberately wrong expressions are REFUTED                    *)
(* ================================================================================================================= *)

Definition ex_combined := RVar "combined".
Definition ex_c := RVar "c".
Definition ex_start := RVar "bitfield_update.start".
Definition ex_end := RBin OAdd (RVar "bitfield_update.start") (RVar "bitfield_update.length").

(* a checksum that depends on its input, to make the zone visible *)
Definition ex_cr : crypto := mkCrypto (fun _ => []) (fun b => fold_right N.add 0 b) (fun _ _ => []) (fun _ _ _ => true).

(* leader word of a 5-byte payload with the header bit: 5 * 4 + 1 *)
Example leader_word_example :
  reval (env_leader_word 5 true false)
        (RBin OOr (RBin OOr (RBin OShl (RVar "data_length") (RLit 2)) (RIf (RVar "header_bit") (RLit 1) (RLit 0)))
                  (RIf (RVar "partial_bit") (RLit 2) (RLit 0))) = 21 /\ len_field 5 true false = 21.
Proof. split; vm_compute; reflexivity. Qed.

(* `<< 3` is not the model's (nor the JavaScript layout's) leader word *)
Example leader_word_shl3_refuted :
  ~ leader_word_tie (RBin OOr (RBin OOr (RBin OShl (RVar "data_length") (RLit 3)) (RIf (RVar "header_bit") (RLit 1) (RLit 0)))
                              (RIf (RVar "partial_bit") (RLit 2) (RLit 0))).
Proof. intros H. specialize (H 1 false false eq_refl). vm_compute in H. discriminate. Qed.

(* the guard is needed: without the range the word of a 2^30-byte payload is still "computed" but no longer decodes *)
Example leader_guard_example :
  truthy (reval (env_leader_word 1073741824 false false) (RBin ONe (RBin OAnd (RLit 3221225472) (RVar "data_length")) (RLit 0))) = true /\
  truthy (reval (env_leader_word 1073741823 false false) (RBin ONe (RBin OAnd (RLit 3221225472) (RVar "data_length")) (RLit 0))) = false.
Proof. split; vm_compute; reflexivity. Qed.

(* MASK = 3u32.rotate_right(3) would let 2^29 .. 2^30-1 through differently: refuted at 2^29 *)
Example leader_guard_rot3_refuted :
  ~ leader_guard_tie (RBin ONe (RBin OAnd (RLit 1610612736) (RVar "data_length")) (RLit 0)).
Proof. intros H. specialize (H 536870912 eq_refl). vm_compute in H. discriminate. Qed.

(* `combined & 2 == 1` never holds *)
Example leader_partial_bit_eq1_refuted :
  ~ leader_partial_bit_tie (RBin OEq (RBin OAnd ex_combined (RLit 2)) (RLit 1)).
Proof. intros H. specialize (H 0 2 0). vm_compute in H. discriminate. Qed.

(* swapped masks *)
Example leader_bits_swapped_refuted :
  ~ leader_header_bit_tie (RBin OEq (RBin OAnd ex_combined (RLit 2)) (RLit 2)) /\
  ~ leader_partial_bit_tie (RBin OEq (RBin OAnd ex_combined (RLit 1)) (RLit 1)).
Proof. split; intros H; specialize (H 0 1 0); vm_compute in H; discriminate. Qed.

(* `data_buff.len() <= len` would reject a frame that fills the buffer exactly *)
Example leader_no_frame_le_refuted :
  ~ leader_no_frame_tie (RBin OLOr (RBin OEq (RBin OShr ex_combined (RLit 2)) (RLit 0))
                                   (RBin OLe (RVar "data_buff.len()") (RBin OShr ex_combined (RLit 2)))).
Proof. intros H. specialize (H 9 4 1). vm_compute in H. discriminate. Qed.

(* the whole function on a concrete 11-byte buffer: leader of a 2-byte frame with the header bit (combined = 9), one spare byte;
   the stored checksum 23 is that of bytes 4..10 under [ex_cr] (the sum of the bytes) *)
Example validate_leader_example :
  let buf := [23; 0; 0; 0; 9; 0; 0; 0; 7; 7; 5] in
  validate_leader ex_cr buf = Some (mkLeader true false 2 [7; 7; 5]) /\
  leader_of_source ex_cr (RBin OLt (RVar "buffer.len()") (RLit 8)) (RBin OShr ex_combined (RLit 2))
    (RBin OEq (RBin OAnd ex_combined (RLit 1)) (RLit 1)) (RBin OEq (RBin OAnd ex_combined (RLit 2)) (RLit 2))
    (RBin OLOr (RBin OEq (RBin OShr ex_combined (RLit 2)) (RLit 0)) (RBin OLt (RVar "data_buff.len()") (RBin OShr ex_combined (RLit 2))))
    (RVar "CRC_SIZE") (RBin OAdd (RVar "LEADER_SIZE") (RBin OShr ex_combined (RLit 2))) buf
  = Some (mkLeader true false 2 [7; 7; 5]).
Proof. split; vm_compute; reflexivity. Qed.

(* a checksum zone that starts at 0 (includes the stored checksum itself) is not the model's *)
Example leader_zone_lo_0_refuted : ~ leader_zone_lo_tie (RLit 0).
Proof. intros H. specialize (H 0 0 0). vm_compute in H. discriminate. Qed.

(* [true, false] => [false, false] => [false, true] => [true, true] => [true, false]: the source's expressions walk the cycle *)
Example next_slot_example :
  next_slot_spec (RBin ONe (RVar "header_bits[0]") (RVar "header_bits[1]")) (RLit 0) (RNot (RVar "header_bits[0]"))
                 (RVar "HEADER_SIZE") (RNot (RVar "header_bits[1]")) /\
  fst (next_slot (true, false)) = (0, false) /\ fst (next_slot (false, false)) = (4096, true).
Proof. split; [intros [|] [|]; vm_compute; reflexivity | split; vm_compute; reflexivity]. Qed.

(* the flipped slot choice *)
Example next_slot_flipped_refuted :
  ~ next_slot_spec (RBin ONe (RVar "header_bits[0]") (RVar "header_bits[1]")) (RVar "HEADER_SIZE") (RNot (RVar "header_bits[1]"))
                   (RLit 0) (RNot (RVar "header_bits[0]")).
Proof. intros H. specialize (H true false). vm_compute in H. discriminate. Qed.

Example current_bit_eq_refuted : ~ current_bit_tie (RBin OEq (RVar "self.header_bits[0]") (RVar "self.header_bits[1]")).
Proof. intros H. specialize (H true false). vm_compute in H. discriminate. Qed.

(* ================================================================================================================= *)
(* all of them                                                                                                        *)
(* ================================================================================================================= *)

(* what the vocabulary of FnDesc.v means, spelled out (pinned in props/C06.v) *)
Theorem fn_desc_meaning :
  (forall A (P : A -> Prop), tied_fn None P <-> True) /\ (forall A e (P : A -> Prop), tied_fn (Some e) P <-> P e) /\
  (forall env n, reval env (RLit n) = n) /\ (forall env x, reval env (RVar x) = env x) /\
  (forall env a, reval env (RNot a) = N.b2n (reval env a =? 0)) /\
  (forall env c a b, reval env (RIf c a b) = if reval env c =? 0 then reval env b else reval env a) /\
  (forall env a b, reval env (RBin OShl a b) = N.shiftl (reval env a) (reval env b)) /\
  (forall env a b, reval env (RBin OShr a b) = N.shiftr (reval env a) (reval env b)) /\
  (forall env a b, reval env (RBin OAnd a b) = N.land (reval env a) (reval env b)) /\
  (forall env a b, reval env (RBin OOr a b) = N.lor (reval env a) (reval env b)) /\
  (forall env a b, reval env (RBin OXor a b) = N.lxor (reval env a) (reval env b)) /\
  (forall env a b, reval env (RBin OAdd a b) = reval env a + reval env b) /\
  (forall env a b, reval env (RBin OSub a b) = reval env a - reval env b) /\
  (forall env a b, reval env (RBin OMul a b) = reval env a * reval env b) /\
  (forall env a b, reval env (RBin OEq a b) = N.b2n (reval env a =? reval env b)) /\
  (forall env a b, reval env (RBin ONe a b) = N.b2n (negb (reval env a =? reval env b))) /\
  (forall env a b, reval env (RBin OLt a b) = N.b2n (reval env a <? reval env b)) /\
  (forall env a b, reval env (RBin OLe a b) = N.b2n (reval env a <=? reval env b)) /\
  (forall env a b, reval env (RBin OGt a b) = N.b2n (reval env b <? reval env a)) /\
  (forall env a b, reval env (RBin OGe a b) = N.b2n (reval env b <=? reval env a)) /\
  (forall env a b, reval env (RBin OLAnd a b) = N.b2n (negb (reval env a =? 0) && negb (reval env b =? 0))) /\
  (forall env a b, reval env (RBin OLOr a b) = N.b2n (negb (reval env a =? 0) || negb (reval env b =? 0))) /\
  (forall n, truthy n = negb (n =? 0)) /\
  (forall x, env_of [] x = 0) /\
  (forall y v r x, env_of ((y, v) :: r) x = if String.eqb y x then v else env_of r x).
Proof.
  assert (Hnot : forall env a, reval env (RNot a) = N.b2n (reval env a =? 0))
    by (intros env a; cbn [reval]; unfold truthy; now destruct (reval env a =? 0)).
  assert (Hif : forall env c a b, reval env (RIf c a b) = if reval env c =? 0 then reval env b else reval env a)
    by (intros env c a b; cbn [reval]; unfold truthy; now destruct (reval env c =? 0)).
  repeat split; try exact I; try assumption; intros; first [assumption | exact I | reflexivity].
Qed.

(* the functions of src/oplog/mod.rs and the flush cadence of src/core.rs (pinned in props/C06.v) *)
Theorem source_oplog_functions_are_the_models :
  tied_fn src_leader_word leader_word_tie /\ tied_fn src_leader_guard leader_guard_tie /\
  tied_fn src_leader_min_len leader_min_len_tie /\ tied_fn src_leader_len leader_len_tie /\
  tied_fn src_leader_header_bit leader_header_bit_tie /\ tied_fn src_leader_partial_bit leader_partial_bit_tie /\
  tied_fn src_leader_no_frame leader_no_frame_tie /\
  tied_fn src_leader_zone_lo leader_zone_lo_tie /\ tied_fn src_leader_zone_hi leader_zone_hi_tie /\
  validate_leader_tie /\
  tied_fn src_current_bit current_bit_tie /\ next_slot_tie /\ flush_tie.
Proof.
  split; [exact tie_leader_word|]. split; [exact tie_leader_guard|]. split; [exact tie_leader_min_len|].
  split; [exact tie_leader_len|]. split; [exact tie_leader_header_bit|]. split; [exact tie_leader_partial_bit|].
  split; [exact tie_leader_no_frame|]. split; [exact tie_leader_zone_lo|]. split; [exact tie_leader_zone_hi|].
  split; [exact validate_leader_is_the_sources|]. split; [exact tie_current_bit|]. split; [exact next_slot_is_the_sources|].
  exact flush_decision_is_the_sources.
Qed.

Print Assumptions fn_desc_meaning.
Print Assumptions source_oplog_functions_are_the_models.

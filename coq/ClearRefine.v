(* ClearRefine.v — C01, the part about clearing: the model refines the specification
   "list of blocks + set of cleared indices".
   An invariant CInv (core, disk, list of all blocks appended so far, characteristic function of the
   cleared indices) is implied by Refine.WInv, is preserved by core_clear and core_append for every
   flush decision, and implies the results of core_get / core_has / core_info. *)
From HC Require Import Base NMap Codec CodecFacts Crypto FlatTree Storage Bitfield Oplog Merkle Core.
From HC Require Import FlatTreeFacts StorageFacts BitfieldFacts OplogFacts TreeRef OffsetFacts CoreFacts Crash Refine.
From Coq Require Import FMapPositive ZifyN ZifyNat ZifyBool.
Ltac Zify.zify_post_hook ::= Z.div_mod_to_equations.
Arguments N.add : simpl never.
Arguments N.sub : simpl never.
Arguments N.mul : simpl never.
Arguments N.div : simpl never.
Arguments N.modulo : simpl never.
Arguments N.pow : simpl never.
Arguments N.eqb : simpl never.
Arguments N.ltb : simpl never.
Arguments N.leb : simpl never.
Arguments N.max : simpl never.
Arguments N.min : simpl never.
Arguments N.of_nat : simpl never.
Arguments N.to_nat : simpl never.

(* ====================================================================================== *)
(* A. Prefix sums                                                                          *)
(* ====================================================================================== *)

Lemma prefix_size_mono (bs : list bytes) (i j : N) : i <= j -> prefix_size bs i <= prefix_size bs j.
Proof.
  intros H. replace j with (i + (j - i)) by lia. generalize (j - i). intros k.
  induction k as [|k IH] using N.peano_ind.
  - rewrite N.add_0_r. lia.
  - replace (i + N.succ k) with (i + k + 1) by lia. rewrite prefix_size_succ. lia.
Qed.

Lemma prefix_size_block_le (bs : list bytes) (i j : N) :
  i < j -> prefix_size bs i + len (nth (N.to_nat i) bs []) <= prefix_size bs j.
Proof.
  intros H. change (nth (N.to_nat i) bs []) with (blk bs i). rewrite <- prefix_size_succ.
  apply prefix_size_mono. lia.
Qed.

Lemma prefix_size_block_total (bs : list bytes) (i : N) :
  prefix_size bs i + len (nth (N.to_nat i) bs []) <= sumN (map len bs).
Proof.
  change (nth (N.to_nat i) bs []) with (blk bs i). rewrite <- prefix_size_succ. apply prefix_size_le.
Qed.

(* ====================================================================================== *)
(* B. The invariant with a set of cleared indices                                          *)
(* ====================================================================================== *)

(* the specification of "held": appended and not cleared *)
Definition held (n : N) (cl : N -> bool) (i : N) : bool := (i <? n) && negb (cl i).

(* the smallest index that is cleared or not yet appended *)
Fixpoint first_unheld (cl : N -> bool) (i : N) (fuel : nat) : N :=
  match fuel with
  | O => i
  | S f => if cl i then i else first_unheld cl (i + 1) f
  end.

Definition spec_contig (bs : list bytes) (cl : N -> bool) : N := first_unheld cl 0 (length bs).

Lemma first_unheld_spec (cl : N -> bool) (fuel : nat) : forall i,
  let k := first_unheld cl i fuel in
  i <= k /\ k <= i + N.of_nat fuel /\ (forall x, i <= x -> x < k -> cl x = false) /\
  (k < i + N.of_nat fuel -> cl k = true).
Proof.
  induction fuel as [|f IH]; intros i; cbn [first_unheld]; cbv zeta.
  - split; [lia|]. split; [lia|]. split; intros; lia.
  - destruct (cl i) eqn:E.
    + split; [lia|]. split; [lia|]. split; [intros; lia|]. intros _. exact E.
    + destruct (IH (i + 1)) as (H1 & H2 & H3 & H4). split; [lia|]. split; [lia|]. split.
      * intros x Hx1 Hx2. destruct (N.eq_dec x i) as [->|Hne]; [exact E|]. apply H3; lia.
      * intros Hk. apply H4. lia.
Qed.

Lemma spec_contig_held (bs : list bytes) (cl : N -> bool) :
  let n := N.of_nat (length bs) in
  let k := spec_contig bs cl in
  k <= n /\ (forall i, i < k -> held n cl i = true) /\ held n cl k = false.
Proof.
  cbv zeta. unfold spec_contig, held.
  destruct (first_unheld_spec cl (length bs) 0) as (H1 & H2 & H3 & H4).
  set (k := first_unheld cl 0 (length bs)) in *.
  split; [lia|]. split.
  - intros i Hi. rewrite H3 by lia. destruct (N.ltb_spec i (N.of_nat (length bs))); [reflexivity|lia].
  - destruct (N.ltb_spec k (N.of_nat (length bs))) as [L|L]; [|reflexivity].
    rewrite H4 by lia. reflexivity.
Qed.

Lemma exact_contig_ext (b b' : bitfield) (k : N) :
  (forall i, bf_get b' i = bf_get b i) -> exact_contig b k -> exact_contig b' k.
Proof.
  intros E [H1 H2]. split; [intros i Hi; rewrite E; apply H1, Hi|rewrite E; exact H2].
Qed.

Section CInvariant.
  Variable cr : crypto.
  Hypothesis Hhash32 : forall x, length (cr_hash cr x) = 32%nat.
  Hypothesis Hnonblank : forall x, all_zero (cr_hash cr x) = false.

  (* the tree part of Refine.WInv: clearing never touches it *)
  Definition TInv (t : mtree) (tf : file) (bs : list bytes) : Prop :=
    let n := N.of_nat (length bs) in
    t_length t = n /\ t_byte_length t = sumN (map len bs) /\ t_fork t = 0 /\
    t_roots t = ref_roots cr bs n /\
    lookups cr t tf bs n /\
    unflushed_ok t /\
    sumN (map len bs) <= u64_max /\ NODE_SIZE * (2 * n) <= u64_max.

  Definition CInv (c : core) (d : disk) (bs : list bytes) (cl : N -> bool) : Prop :=
    let n := N.of_nat (length bs) in
    TInv (c_tree c) (d_tree d) bs /\
    (* bitfield: exactly the blocks appended and not cleared *)
    (forall i, bf_get (c_bitfield c) i = held n cl i) /\
    (* the contiguous length is the smallest index not held *)
    exact_contig (c_bitfield c) (hd_contig (c_header c)) /\
    (* data store: every held non-empty block is readable at its place *)
    (forall i, held n cl i = true -> 0 < len (nth (N.to_nat i) bs []) ->
       f_read (d_data d) (prefix_size bs i) (len (nth (N.to_nat i) bs [])) = Some (nth (N.to_nat i) bs [])) /\
    f_len (d_data d) <= sumN (map len bs).

  (* ---------- 1. bridge from the append-only invariant ---------- *)

  Theorem WInv_CInv c d bs : WInv cr c d bs -> CInv c d bs (fun _ => false).
  Proof.
    intros W. pose proof (WInv_data_reads cr c d bs W) as [DL DR].
    destruct W as (HL & HB & HF & HR & Hlook & Hun & Hbf & Hc & Hd & Hs & Hn).
    unfold CInv, TInv. cbv zeta.
    split; [tauto|].
    assert (Hh : forall i, bf_get (c_bitfield c) i = held (N.of_nat (length bs)) (fun _ => false) i).
    { intros i. rewrite Hbf. unfold held. cbn [negb]. rewrite andb_true_r. reflexivity. }
    split; [exact Hh|]. split.
    - rewrite Hc. split; [intros i Hi; rewrite Hbf; apply N.ltb_lt, Hi|rewrite Hbf; apply N.ltb_irrefl].
    - split; [|lia]. intros i Hi _. unfold held in Hi. cbn [negb] in Hi. rewrite andb_true_r in Hi.
      apply N.ltb_lt in Hi.
      replace (prefix_size bs i) with (prefix_size bs (N.of_nat (N.to_nat i))) by (f_equal; lia).
      apply DR. lia.
  Qed.

  (* only the values of cl below the length matter *)
  Lemma held_ext n cl cl' : (forall i, i < n -> cl' i = cl i) -> forall i, held n cl' i = held n cl i.
  Proof.
    intros E i. unfold held. destruct (N.ltb_spec i n) as [L|L]; [|reflexivity]. rewrite (E i L). reflexivity.
  Qed.

  Lemma CInv_cl_ext c d bs cl cl' :
    (forall i, i < N.of_nat (length bs) -> cl' i = cl i) -> CInv c d bs cl -> CInv c d bs cl'.
  Proof.
    intros E (T & Hbf & Hc & Hd & Hl). pose proof (held_ext _ cl cl' E) as HE.
    unfold CInv. cbv zeta. split; [exact T|]. split; [intros i; rewrite HE; apply Hbf|].
    split; [exact Hc|]. split; [|exact Hl]. intros i Hi. rewrite HE in Hi. apply Hd, Hi.
  Qed.

  Lemma TInv_ext t tf t' tf' bs :
    t' = t -> tf' = tf -> TInv t tf bs -> TInv t' tf' bs.
  Proof. intros -> ->. exact (fun H => H). Qed.

  Lemma CInv_ext c c' d d' bs cl :
    c_tree c' = c_tree c -> (forall i, bf_get (c_bitfield c') i = bf_get (c_bitfield c) i) ->
    hd_contig (c_header c') = hd_contig (c_header c) ->
    d_tree d' = d_tree d -> d_data d' = d_data d ->
    CInv c d bs cl -> CInv c' d' bs cl.
  Proof.
    intros Ht Hb Hc Hdt Hdd (T & Hbf & Hcg & Hd & Hl).
    unfold CInv. cbv zeta. rewrite Ht, Hc, Hdt, Hdd.
    split; [exact T|]. split; [intros i; rewrite Hb; apply Hbf|].
    split; [apply (exact_contig_ext (c_bitfield c)); assumption|]. split; assumption.
  Qed.

  (* ---------- 2. the reads ---------- *)

  Lemma byte_range_tinv t tf bs i :
    TInv t tf bs -> i < N.of_nat (length bs) ->
    byte_range t tf i = Ok (prefix_size bs i, len (nth (N.to_nat i) bs [])).
  Proof.
    intros (HL & HB & HF & HR & Hlook & Hun & Hs & Hn) Hi.
    unfold byte_range, validate_hypercore_index, mul64.
    unfold NODE_SIZE, u64_max in Hn.
    assert (fits_u64 (2 * i) = true) as -> by (unfold fits_u64, u64_max; lia). cbn [bind].
    rewrite HL. destruct (N.leb_spec (2 * N.of_nat (length bs)) (2 * i)) as [L|L]; [lia|]. cbn [bind].
    pose proof (Hlook 0%nat i) as Hq. rewrite p2_0 in Hq. change (N.of_nat 0) with 0 in Hq.
    rewrite ft_index_leaf in Hq. rewrite Hq by lia. cbn [bind].
    rewrite (byte_offset_ref cr bs t tf (N.of_nat (length bs)) Hlook i HR); [|lia|exact Hi].
    cbn [bind ref_node]. unfold block_node, blk. cbn [n_length]. reflexivity.
  Qed.

  Lemma byte_offset_tinv t tf bs i :
    TInv t tf bs -> i < N.of_nat (length bs) ->
    byte_offset t tf i = Ok (prefix_size bs i).
  Proof.
    intros (HL & HB & HF & HR & Hlook & Hun & Hs & Hn) Hi.
    unfold byte_offset, validate_hypercore_index, mul64.
    unfold NODE_SIZE, u64_max in Hn.
    assert (fits_u64 (2 * i) = true) as -> by (unfold fits_u64, u64_max; lia). cbn [bind].
    rewrite HL. destruct (N.leb_spec (2 * N.of_nat (length bs)) (2 * i)) as [L|L]; [lia|]. cbn [bind].
    apply (byte_offset_ref cr bs t tf (N.of_nat (length bs)) Hlook i HR); [lia|exact Hi].
  Qed.

  Theorem byte_range_correct_c c d bs cl i :
    CInv c d bs cl -> i < N.of_nat (length bs) ->
    byte_range (c_tree c) (d_tree d) i = Ok (prefix_size bs i, len (nth (N.to_nat i) bs [])).
  Proof. intros (T & _). apply byte_range_tinv, T. Qed.

  (* a held block (also an empty one) is returned; a cleared or never-written index gives None and
     only sends the EvGet event; core, disk and journal are untouched in both cases *)
  Theorem get_correct_c c d bs cl j ev i :
    CInv c d bs cl ->
    core_get i c (mkWorld d j ev) =
    if held (N.of_nat (length bs)) cl i
    then (c, mkWorld d j ev, Ok (Some (nth (N.to_nat i) bs [])))
    else (c, mkWorld d j (EvGet i :: ev), Ok None).
  Proof.
    intros W. pose proof W as (T & Hbf & Hcg & Hd & Hl).
    unfold core_get. rewrite mbind_get_core, Hbf.
    destruct (held (N.of_nat (length bs)) cl i) eqn:Eh; cbn [negb].
    - assert (L : i < N.of_nat (length bs)).
      { unfold held in Eh. apply andb_true_iff in Eh as [Eh _]. apply N.ltb_lt, Eh. }
      rewrite mbind_get_disk. cbn [w_disk]. rewrite mbind_lift, (byte_range_tinv _ _ bs i T L).
      destruct (N.eqb_spec (len (nth (N.to_nat i) bs [])) 0) as [E|E].
      + apply len_zero_nil in E. rewrite E. reflexivity.
      + rewrite (Hd i Eh) by lia. reflexivity.
    - reflexivity.
  Qed.

  Theorem has_correct_c c d bs cl i :
    CInv c d bs cl -> core_has c i = held (N.of_nat (length bs)) cl i.
  Proof. intros W. unfold core_has. apply W. Qed.

  Lemma contig_correct_c c d bs cl :
    CInv c d bs cl -> hd_contig (c_header c) = spec_contig bs cl.
  Proof.
    intros (T & Hbf & Hcg & Hd & Hl).
    apply (exact_contig_unique (c_bitfield c)); [exact Hcg|].
    destruct (spec_contig_held bs cl) as (_ & H1 & H2).
    split; [intros i Hi; rewrite Hbf; apply H1, Hi|rewrite Hbf; exact H2].
  Qed.

  (* info: length, byte length, contiguous length = smallest index not held, fork 0, writeable *)
  Theorem info_correct_c c d bs cl :
    CInv c d bs cl ->
    core_info c = mkInfo (N.of_nat (length bs)) (sumN (map len bs)) (spec_contig bs cl) 0
                         (match kp_secret (c_keypair c) with Some _ => true | None => false end) /\
    spec_contig bs cl <= N.of_nat (length bs) /\
    (forall i, i < spec_contig bs cl -> held (N.of_nat (length bs)) cl i = true) /\
    held (N.of_nat (length bs)) cl (spec_contig bs cl) = false.
  Proof.
    intros W. pose proof (contig_correct_c c d bs cl W) as Hc.
    destruct W as ((HL & HB & HF & _) & _).
    split; [|apply spec_contig_held].
    unfold core_info. rewrite HL, HB, HF, Hc. reflexivity.
  Qed.
End CInvariant.

(* ====================================================================================== *)
(* C. The two search functions of the bitfield                                             *)
(* ====================================================================================== *)

Lemma bf_get_elements (b : bitfield) (i : N) :
  bf_get b i = true <-> In (i, tt) (nm_elements (bf_bits b)).
Proof.
  unfold bf_get, nm_mem. rewrite nm_elements_in. split.
  - destruct (nm_get i (bf_bits b)) as [[]|]; [reflexivity|discriminate].
  - intros ->. reflexivity.
Qed.

Lemma fold_last_spec (pos : N) (l : list (N * unit)) : forall acc,
  match fold_left (fun acc kv =>
                     let i := fst kv in
                     if i <=? pos then match acc with
                                       | Some a => Some (N.max a i)
                                       | None => Some i
                                       end
                     else acc) l acc with
  | None => acc = None /\ forall kv, In kv l -> pos < fst kv
  | Some j => (acc = Some j \/ exists kv, In kv l /\ fst kv = j /\ j <= pos) /\
              (forall a, acc = Some a -> a <= j) /\
              (forall kv, In kv l -> fst kv <= pos -> fst kv <= j)
  end.
Proof.
  induction l as [|x l IH]; intros acc; cbn [fold_left].
  - destruct acc as [a|].
    + split; [left; reflexivity|]. split; [intros a' E; injection E as <-; lia|intros kv []].
    + split; [reflexivity|intros kv []].
  - cbv zeta.
    match goal with |- match fold_left ?f l ?a with _ => _ end => specialize (IH a); destruct (fold_left f l a) as [j|] end.
    + destruct IH as (I1 & I2 & I3).
      destruct (N.leb_spec (fst x) pos) as [Lx|Lx].
      * destruct acc as [a|].
        -- split.
           { destruct I1 as [I1|(kv & K1 & K2 & K3)].
             - injection I1 as I1. destruct (N.max_spec a (fst x)) as [[_ M]|[_ M]].
               + right. exists x. split; [left; reflexivity|]. split; [lia|lia].
               + left. f_equal. lia.
             - right. exists kv. split; [right; exact K1|]. split; assumption. }
           split.
           { intros a' E. injection E as <-. specialize (I2 _ eq_refl). lia. }
           { intros kv [<-|Hin] Hk; [specialize (I2 _ eq_refl); lia|apply I3; assumption]. }
        -- split.
           { destruct I1 as [I1|(kv & K1 & K2 & K3)].
             - injection I1 as I1. right. exists x. split; [left; reflexivity|]. split; [exact I1|lia].
             - right. exists kv. split; [right; exact K1|]. split; assumption. }
           split; [intros a' E; discriminate E|].
           intros kv [<-|Hin] Hk; [specialize (I2 _ eq_refl); lia|apply I3; assumption].
      * split.
        { destruct I1 as [I1|(kv & K1 & K2 & K3)]; [left; exact I1|].
          right. exists kv. split; [right; exact K1|]. split; assumption. }
        split; [exact I2|].
        intros kv [<-|Hin] Hk; [lia|apply I3; assumption].
    + destruct IH as (I1 & I2).
      destruct (N.leb_spec (fst x) pos) as [Lx|Lx].
      * destruct acc; discriminate I1.
      * split; [exact I1|]. intros kv [<-|Hin]; [exact Lx|apply I2, Hin].
Qed.

Lemma fold_first_spec (pos : N) (l : list (N * unit)) : forall acc,
  match fold_left (fun acc kv =>
                     let i := fst kv in
                     if pos <=? i then match acc with
                                       | Some a => Some (N.min a i)
                                       | None => Some i
                                       end
                     else acc) l acc with
  | None => acc = None /\ forall kv, In kv l -> fst kv < pos
  | Some j => (acc = Some j \/ exists kv, In kv l /\ fst kv = j /\ pos <= j) /\
              (forall a, acc = Some a -> j <= a) /\
              (forall kv, In kv l -> pos <= fst kv -> j <= fst kv)
  end.
Proof.
  induction l as [|x l IH]; intros acc; cbn [fold_left].
  - destruct acc as [a|].
    + split; [left; reflexivity|]. split; [intros a' E; injection E as <-; lia|intros kv []].
    + split; [reflexivity|intros kv []].
  - cbv zeta.
    match goal with |- match fold_left ?f l ?a with _ => _ end => specialize (IH a); destruct (fold_left f l a) as [j|] end.
    + destruct IH as (I1 & I2 & I3).
      destruct (N.leb_spec pos (fst x)) as [Lx|Lx].
      * destruct acc as [a|].
        -- split.
           { destruct I1 as [I1|(kv & K1 & K2 & K3)].
             - injection I1 as I1. destruct (N.min_spec a (fst x)) as [[_ M]|[_ M]].
               + left. f_equal. lia.
               + right. exists x. split; [left; reflexivity|]. split; [lia|lia].
             - right. exists kv. split; [right; exact K1|]. split; assumption. }
           split.
           { intros a' E. injection E as <-. specialize (I2 _ eq_refl). lia. }
           { intros kv [<-|Hin] Hk; [specialize (I2 _ eq_refl); lia|apply I3; assumption]. }
        -- split.
           { destruct I1 as [I1|(kv & K1 & K2 & K3)].
             - injection I1 as I1. right. exists x. split; [left; reflexivity|]. split; [exact I1|lia].
             - right. exists kv. split; [right; exact K1|]. split; assumption. }
           split; [intros a' E; discriminate E|].
           intros kv [<-|Hin] Hk; [specialize (I2 _ eq_refl); lia|apply I3; assumption].
      * split.
        { destruct I1 as [I1|(kv & K1 & K2 & K3)]; [left; exact I1|].
          right. exists kv. split; [right; exact K1|]. split; assumption. }
        split; [exact I2|].
        intros kv [<-|Hin] Hk; [lia|apply I3; assumption].
    + destruct IH as (I1 & I2).
      destruct (N.leb_spec pos (fst x)) as [Lx|Lx].
      * destruct acc; discriminate I1.
      * split; [exact I1|]. intros kv [<-|Hin]; [exact Lx|apply I2, Hin].
Qed.

(* j is the largest set index <= pos *)
Definition last_true_at (b : bitfield) (pos j : N) : Prop :=
  bf_get b j = true /\ j <= pos /\ forall i, i <= pos -> bf_get b i = true -> i <= j.

(* j is the smallest set index >= pos *)
Definition first_true_at (b : bitfield) (pos j : N) : Prop :=
  bf_get b j = true /\ pos <= j /\ forall i, pos <= i -> bf_get b i = true -> j <= i.

Lemma in_elements_tt (b : bitfield) (kv : N * unit) :
  In kv (nm_elements (bf_bits b)) -> bf_get b (fst kv) = true.
Proof. destruct kv as [k []]. intros H. apply bf_get_elements, H. Qed.

Lemma bf_last_index_of_true_sound (b : bitfield) (pos : N) :
  match bf_last_index_of_true b pos with
  | Some j => last_true_at b pos j
  | None => forall i, i <= pos -> bf_get b i = false
  end.
Proof.
  unfold bf_last_index_of_true. pose proof (fold_last_spec pos (nm_elements (bf_bits b)) None) as H.
  match type of H with match ?e with _ => _ end => destruct e as [j|] end.
  - destruct H as (H1 & _ & H3). destruct H1 as [H1|(kv & K1 & K2 & K3)]; [discriminate H1|].
    split; [rewrite <- K2; apply in_elements_tt, K1|]. split; [exact K3|].
    intros i Hi Hg. apply bf_get_elements in Hg. apply (H3 (i, tt) Hg). exact Hi.
  - destruct H as [_ H]. intros i Hi. destruct (bf_get b i) eqn:E; [|reflexivity].
    apply bf_get_elements in E. apply H in E. cbn [fst] in E. lia.
Qed.

Lemma bf_index_of_true_sound (b : bitfield) (pos : N) :
  match bf_index_of_true b pos with
  | Some j => first_true_at b pos j
  | None => forall i, pos <= i -> bf_get b i = false
  end.
Proof.
  unfold bf_index_of_true. pose proof (fold_first_spec pos (nm_elements (bf_bits b)) None) as H.
  match type of H with match ?e with _ => _ end => destruct e as [j|] end.
  - destruct H as (H1 & _ & H3). destruct H1 as [H1|(kv & K1 & K2 & K3)]; [discriminate H1|].
    split; [rewrite <- K2; apply in_elements_tt, K1|]. split; [exact K3|].
    intros i Hi Hg. apply bf_get_elements in Hg. apply (H3 (i, tt) Hg). exact Hi.
  - destruct H as [_ H]. intros i Hi. destruct (bf_get b i) eqn:E; [|reflexivity].
    apply bf_get_elements in E. apply H in E. cbn [fst] in E. lia.
Qed.

Theorem bf_last_index_of_true_some (b : bitfield) (pos j : N) :
  bf_last_index_of_true b pos = Some j <-> last_true_at b pos j.
Proof.
  pose proof (bf_last_index_of_true_sound b pos) as H. split.
  - intros E. rewrite E in H. exact H.
  - intros (G1 & G2 & G3). destruct (bf_last_index_of_true b pos) as [j'|].
    + destruct H as (H1 & H2 & H3). f_equal. specialize (G3 j' H2 H1). specialize (H3 j G2 G1). lia.
    + rewrite (H j G2) in G1. discriminate G1.
Qed.

Theorem bf_last_index_of_true_none (b : bitfield) (pos : N) :
  bf_last_index_of_true b pos = None <-> forall i, i <= pos -> bf_get b i = false.
Proof.
  pose proof (bf_last_index_of_true_sound b pos) as H. split.
  - intros E. rewrite E in H. exact H.
  - intros G. destruct (bf_last_index_of_true b pos) as [j'|]; [|reflexivity].
    destruct H as (H1 & H2 & _). rewrite (G j' H2) in H1. discriminate H1.
Qed.

Theorem bf_index_of_true_some (b : bitfield) (pos j : N) :
  bf_index_of_true b pos = Some j <-> first_true_at b pos j.
Proof.
  pose proof (bf_index_of_true_sound b pos) as H. split.
  - intros E. rewrite E in H. exact H.
  - intros (G1 & G2 & G3). destruct (bf_index_of_true b pos) as [j'|].
    + destruct H as (H1 & H2 & H3). f_equal. specialize (G3 j' H2 H1). specialize (H3 j G2 G1). lia.
    + rewrite (H j G2) in G1. discriminate G1.
Qed.

Theorem bf_index_of_true_none (b : bitfield) (pos : N) :
  bf_index_of_true b pos = None <-> forall i, pos <= i -> bf_get b i = false.
Proof.
  pose proof (bf_index_of_true_sound b pos) as H. split.
  - intros E. rewrite E in H. exact H.
  - intros G. destruct (bf_index_of_true b pos) as [j'|]; [|reflexivity].
    destruct H as (H1 & H2 & _). rewrite (G j' H2) in H1. discriminate H1.
Qed.

(* ====================================================================================== *)
(* D. Deleting the bytes of a hole in the data store                                       *)
(* ====================================================================================== *)

Lemma f_read_preserved (f f' : file) (p l : N) (x : bytes) :
  f_read f p l = Some x -> p + l <= f_len f' ->
  (forall k, p <= k -> k < p + l -> f_byte f' k = f_byte f k) ->
  f_read f' p l = Some x.
Proof.
  intros H Hl Hb. apply f_read_spec in H as (H1 & H2 & H3). apply f_read_spec.
  split; [exact Hl|]. split; [exact H2|]. intros k Hk. rewrite H3 by exact Hk. symmetry. apply Hb; lia.
Qed.

(* The heart of "clearing a range affects no block outside it": deleting the byte range of the
   blocks [s', e'), none of which is held, leaves every held non-empty block readable, whether the
   delete zero-fills or (reaching the end of the store) truncates. *)
Lemma del_hole_preserves (bs : list bytes) (cl' : N -> bool) (s' e' : N) (f f' : file) :
  let n := N.of_nat (length bs) in
  s' <= e' ->
  (forall i, s' <= i -> i < e' -> held n cl' i = false) ->
  (forall i, held n cl' i = true -> 0 < len (nth (N.to_nat i) bs []) ->
     f_read f (prefix_size bs i) (len (nth (N.to_nat i) bs [])) = Some (nth (N.to_nat i) bs [])) ->
  f_len f <= sumN (map len bs) ->
  f_del f (prefix_size bs s') (prefix_size bs e' - prefix_size bs s') = Some f' ->
  (forall i, held n cl' i = true -> 0 < len (nth (N.to_nat i) bs []) ->
     f_read f' (prefix_size bs i) (len (nth (N.to_nat i) bs [])) = Some (nth (N.to_nat i) bs [])) /\
  f_len f' <= sumN (map len bs).
Proof.
  intros n Hse Hhole Hread Hlen Hdel.
  set (off := prefix_size bs s') in *. set (L := prefix_size bs e' - off) in *.
  assert (Hoe : off + L = prefix_size bs e') by (pose proof (prefix_size_mono bs s' e' Hse); unfold L, off; lia).
  destruct (f_del_cases _ _ _ _ Hdel) as (D0 & D1 & D2 & D3).
  assert (Hout : forall i, held n cl' i = true -> i < s' \/ e' <= i).
  { intros i Hi. destruct (N.lt_ge_cases i s') as [A|A]; [left; exact A|].
    destruct (N.lt_ge_cases i e') as [B|B]; [|right; exact B].
    rewrite (Hhole i A B) in Hi. discriminate Hi. }
  destruct (N.eq_dec L 0) as [Z|NZ].
  - rewrite (D1 Z). split; assumption.
  - destruct (N.le_gt_cases (f_len f) (off + L)) as [T|T].
    + rewrite (D2 NZ T). rewrite f_truncate_len. split; [|lia].
      intros i Hi Hpos. pose proof (Hread i Hi Hpos) as R.
      assert (B : prefix_size bs i + len (nth (N.to_nat i) bs []) <= f_len f)
        by (apply f_read_spec in R; tauto).
      destruct (Hout i Hi) as [A|A].
      * pose proof (prefix_size_block_le bs i s' A) as Q. fold off in Q.
        apply (f_read_preserved f); [exact R|rewrite f_truncate_len; lia|].
        intros k K1 K2. apply f_truncate_at_shrink; lia.
      * pose proof (prefix_size_mono bs e' i A). lia.
    + destruct (D3 NZ T) as [E1 E2]. split; [|lia].
      intros i Hi Hpos. pose proof (Hread i Hi Hpos) as R.
      assert (B : prefix_size bs i + len (nth (N.to_nat i) bs []) <= f_len f)
        by (apply f_read_spec in R; tauto).
      apply (f_read_preserved f); [exact R|rewrite E1; exact B|].
      intros k K1 K2. rewrite E2.
      destruct (Hout i Hi) as [A|A].
      * pose proof (prefix_size_block_le bs i s' A) as Q. fold off in Q.
        assert ((off <=? k) && (k <? off + L) = false) as -> by lia. reflexivity.
      * pose proof (prefix_size_mono bs e' i A) as Q.
        assert ((off <=? k) && (k <? off + L) = false) as -> by lia. reflexivity.
Qed.

(* ====================================================================================== *)
(* E. The hole is widened to the neighbouring blocks that are not held                     *)
(* ====================================================================================== *)

Lemma hole_bounds (b' : bitfield) (n start end_ : N) (cl' : N -> bool) :
  (forall i, bf_get b' i = held n cl' i) -> start < n -> start < end_ ->
  (forall i, start <= i -> i < end_ -> cl' i = true) ->
  let s' := match bf_last_index_of_true b' start with Some i => i + 1 | None => 0 end in
  let e' := match bf_index_of_true b' end_ with Some i => i | None => n end in
  s' <= start /\ start < e' /\ e' <= n /\
  (forall i, s' <= i -> i < e' -> held n cl' i = false) /\
  (s' = 0 \/ (0 < s' /\ held n cl' (s' - 1) = true)).
Proof.
  intros Hb Hsn Hse Hcl. cbv zeta.
  assert (Hmid : forall i, start <= i -> i < end_ -> held n cl' i = false).
  { intros i A B. unfold held. rewrite (Hcl i A B). cbn [negb]. apply andb_false_r. }
  assert (Hn : forall i, held n cl' i = true -> i < n).
  { intros i Hi. unfold held in Hi. apply andb_true_iff in Hi as [Hi _]. apply N.ltb_lt, Hi. }
  pose proof (bf_last_index_of_true_sound b' start) as HS.
  pose proof (bf_index_of_true_sound b' end_) as HE.
  destruct (bf_last_index_of_true b' start) as [k|]; destruct (bf_index_of_true b' end_) as [m|].
  - destruct HS as (S1 & S2 & S3). destruct HE as (E1 & E2 & E3).
    rewrite Hb in S1, E1.
    assert (k <> start) by (intros ->; rewrite (Hmid start) in S1 by lia; discriminate S1).
    pose proof (Hn m E1). split; [lia|]. split; [lia|]. split; [lia|]. split.
    + intros i A B. destruct (held n cl' i) eqn:Hi; [exfalso|reflexivity].
      destruct (N.le_gt_cases i start) as [C|C].
      * specialize (S3 i C). rewrite Hb in S3. specialize (S3 Hi). lia.
      * destruct (N.lt_ge_cases i end_) as [D|D]; [rewrite (Hmid i) in Hi by lia; discriminate Hi|].
        specialize (E3 i D). rewrite Hb in E3. specialize (E3 Hi). lia.
    + right. split; [lia|]. replace (k + 1 - 1) with k by lia. exact S1.
  - destruct HS as (S1 & S2 & S3). rewrite Hb in S1.
    assert (k <> start) by (intros ->; rewrite (Hmid start) in S1 by lia; discriminate S1).
    split; [lia|]. split; [lia|]. split; [lia|]. split.
    + intros i A B. destruct (held n cl' i) eqn:Hi; [exfalso|reflexivity].
      destruct (N.le_gt_cases i start) as [C|C].
      * specialize (S3 i C). rewrite Hb in S3. specialize (S3 Hi). lia.
      * destruct (N.lt_ge_cases i end_) as [D|D]; [rewrite (Hmid i) in Hi by lia; discriminate Hi|].
        specialize (HE i D). rewrite Hb, Hi in HE. discriminate HE.
    + right. split; [lia|]. replace (k + 1 - 1) with k by lia. exact S1.
  - destruct HE as (E1 & E2 & E3). rewrite Hb in E1. pose proof (Hn m E1).
    split; [lia|]. split; [lia|]. split; [lia|]. split.
    + intros i A B. destruct (held n cl' i) eqn:Hi; [exfalso|reflexivity].
      destruct (N.le_gt_cases i start) as [C|C].
      * specialize (HS i C). rewrite Hb, Hi in HS. discriminate HS.
      * destruct (N.lt_ge_cases i end_) as [D|D]; [rewrite (Hmid i) in Hi by lia; discriminate Hi|].
        specialize (E3 i D). rewrite Hb in E3. specialize (E3 Hi). lia.
    + left. reflexivity.
  - split; [lia|]. split; [lia|]. split; [lia|]. split.
    + intros i A B. destruct (held n cl' i) eqn:Hi; [exfalso|reflexivity].
      destruct (N.le_gt_cases i start) as [C|C].
      * specialize (HS i C). rewrite Hb, Hi in HS. discriminate HS.
      * destruct (N.lt_ge_cases i end_) as [D|D]; [rewrite (Hmid i) in Hi by lia; discriminate Hi|].
        specialize (HE i D). rewrite Hb, Hi in HE. discriminate HE.
    + left. reflexivity.
Qed.

(* ====================================================================================== *)
(* F. Flushing preserves the invariant                                                     *)
(* ====================================================================================== *)

Section FlushC.
  Variable cr : crypto.
  Hypothesis Hhash32 : forall x, length (cr_hash cr x) = 32%nat.
  Hypothesis Hnonblank : forall x, all_zero (cr_hash cr x) = false.

  Lemma flush_all_preserves_c c d j ev bs cl c' w' r :
    CInv cr c d bs cl ->
    flush_all cr false c (mkWorld d j ev) = (c', w', r) ->
    r = Panic frame_msg \/ (r = Ok tt /\ CInv cr c' (w_disk w') bs cl /\ c_keypair c' = c_keypair c).
  Proof.
    intros W H. pose proof W as ((HL & HB & HF & HR & Hlook & Hun & Hs & Hn) & Hbf & Hcg & Hd & Hl).
    destruct (flush_all_spec cr Hhash32 Hnonblank c (mkWorld d j ev) Hun)
      as [(c1 & w1 & E)|(o' & d' & jn & t' & tops & d1 & d2 & E & TF & T1 & D1 & A2 & T3 & D3)];
      rewrite E in H; injection H as <- <- <-.
    - left. reflexivity.
    - right. split; [reflexivity|]. split; [|reflexivity].
      cbn [w_disk] in *.
      destruct (tree_flush_other_stores (c_tree c) t' tops d1 d2 TF A2 Hun)
        as (Q1 & _ & _ & R1 & R2 & R3 & R4 & R5).
      unfold CInv, TInv. cbn [c_tree c_bitfield c_header]. cbv zeta.
      rewrite R1, R2, R3, R4, T3, D3, Q1, D1.
      split.
      { split; [exact HL|]. split; [exact HB|]. split; [exact HF|]. split; [exact HR|].
        split; [|split; [exact R5|split; [exact Hs|exact Hn]]].
        intros dd o Hfull.
        apply (tree_flush_preserves_lookups (c_tree c) t' tops d1 d2 _ _ TF A2 Hun).
        + pose proof (ft_index_succ (N.of_nat dd) o) as S. fold (p2 dd) in S. pose proof (p2_pos dd).
          unfold NODE_SIZE in *. nia.
        + rewrite T1. apply Hlook, Hfull. }
      split; [exact Hbf|]. split; [|split; [exact Hd|exact Hl]].
      apply (exact_contig_ext (c_bitfield c)); [reflexivity|exact Hcg].
  Qed.

  Lemma maybe_flush_preserves_c f c d j ev bs cl c' w' r :
    CInv cr c d bs cl ->
    maybe_flush cr f c (mkWorld d j ev) = (c', w', r) ->
    r = Panic frame_msg \/ (r = Ok tt /\ CInv cr c' (w_disk w') bs cl /\ c_keypair c' = c_keypair c).
  Proof.
    intros W. unfold maybe_flush. rewrite mbind_get_core.
    match goal with |- (if ?b then _ else _) _ _ = _ -> _ => destruct b end.
    - rewrite mbind_put_skip. intros H.
      apply (flush_all_preserves_c _ d j ev bs cl) in H; [exact H|].
      apply (CInv_ext cr c _ d d bs cl); try reflexivity. exact W.
    - intros H. unfold put_skip in H. injection H as <- <- <-. right.
      split; [reflexivity|]. split; [|reflexivity]. cbn [w_disk].
      apply (CInv_ext cr c _ d d bs cl); try reflexivity. exact W.
  Qed.
End FlushC.

(* ====================================================================================== *)
(* G. core_clear preserves the invariant                                                   *)
(* ====================================================================================== *)

Lemma mbind_cond_header {B} (b : bool) (h : header) (f : unit -> M B) c w :
  mbind (if b then put_header h else ret tt) f c w =
  f tt (mkCore (c_keypair c) (c_oplog c) (c_tree c) (c_bitfield c) (if b then h else c_header c) (c_skip c)) w.
Proof. destruct b; [reflexivity|]. destruct c; reflexivity. Qed.

Lemma mbind_emit_SD_some {B} s off n f' (g : unit -> M B) c w :
  f_del (d_get (w_disk w) s) off n = Some f' ->
  mbind (emit [SD s off n]) g c w =
  g tt c (mkWorld (d_set (w_disk w) s f') (SD s off n :: w_journal w) (w_events w)).
Proof. intros H. unfold mbind. cbn [emit apply_sop]. rewrite H. reflexivity. Qed.

Definition cl_clear (cl : N -> bool) (start end_ : N) : N -> bool :=
  fun i => cl i || ((start <=? i) && (i <? end_)).

Section Clear.
  Variable cr : crypto.
  Hypothesis Hhash32 : forall x, length (cr_hash cr x) = 32%nat.
  Hypothesis Hnonblank : forall x, all_zero (cr_hash cr x) = false.

  (* A hole that is empty or starts at/after the end of the data store issues no storage operation
     (the guard added to core_clear); otherwise the delete is in bounds. *)
  Theorem clear_preserves f c d j ev bs cl start end_ c' w' r :
    let n := N.of_nat (length bs) in
    CInv cr c d bs cl -> start < n -> start < end_ ->
    core_clear cr f start end_ c (mkWorld d j ev) = (c', w', r) ->
    (r = Ok tt /\ CInv cr c' (w_disk w') bs (cl_clear cl start end_) /\ c_keypair c' = c_keypair c) \/
    r = Panic frame_msg.
  Proof.
    intros n W Hsn Hse H.
    pose proof W as (T & Hbf & Hcg & Hd & Hl).
    pose proof T as (HL & HB & HF & HR & Hlook & Hun & Hs & Hn).
    unfold core_clear in H.
    destruct (N.leb_spec end_ start) as [L|_]; [lia|].
    rewrite mbind_get_core in H. cbv zeta in H. rewrite mbind_lift in H.
    match type of H with context [oplog_append cr ?o ?e] =>
      destruct (oplog_append_cases cr o e) as [OA|(o' & fr & OA)]; [intros x []| |]; rewrite OA in H end.
    { injection H as <- <- <-. right. reflexivity. }
    cbv iota in H.
    rewrite mbind_put_oplog, mbind_emit_SW, mbind_put_bitfield, mbind_cond_header in H.
    cbn [c_keypair c_oplog c_tree c_bitfield c_header c_skip w_disk w_journal w_events d_get] in H.
    rewrite mbind_get_disk in H. cbn [w_disk] in H.
    set (cl' := cl_clear cl start end_).
    set (b' := bf_set_range (c_bitfield c) start (end_ - start) false) in *.
    set (d1 := d_set d Oplog (f_write (d_oplog d) (ENTRIES_OFFSET + ol_entries_bytes (c_oplog c)) fr)) in *.
    assert (Dt : d_tree d1 = d_tree d) by (destruct d; reflexivity).
    assert (Dd : d_data d1 = d_data d) by (destruct d; reflexivity).
    assert (Hb' : forall i, bf_get b' i = held n cl' i).
    { intros i. unfold b'. rewrite bf_get_set_range, Hbf. unfold held, cl', cl_clear.
      replace (start + (end_ - start)) with end_ by lia.
      destruct ((start <=? i) && (i <? end_)); [rewrite orb_true_r; cbn [negb]; rewrite andb_false_r; reflexivity|].
      rewrite orb_false_r. reflexivity. }
    assert (Hcl' : forall i, start <= i -> i < end_ -> cl' i = true).
    { intros i A B. unfold cl', cl_clear. assert ((start <=? i) && (i <? end_) = true) as -> by lia.
      apply orb_true_r. }
    assert (Hsub : forall i, held n cl' i = true -> held n cl i = true).
    { intros i. unfold held, cl', cl_clear. destruct (i <? n); [|intros E; exact E]. cbn [andb].
      destruct (cl i); [intros E; exact E|reflexivity]. }
    pose proof (hole_bounds b' n start end_ cl' Hb' Hsn Hse Hcl') as HB'. cbv zeta in HB'. fold n in HL.
    rewrite HL in H.
    set (s' := match bf_last_index_of_true b' start with Some i => i + 1 | None => 0 end) in *.
    set (e' := match bf_index_of_true b' end_ with Some i => i | None => n end) in *.
    destruct HB' as (B1 & B2 & B3 & B4 & B5).
    rewrite Dt in H.
    rewrite mbind_lift, (byte_offset_tinv cr (c_tree c) (d_tree d) bs s' T) in H by (fold n; lia).
    rewrite mbind_lift in H. unfold sub64 at 1 in H.
    destruct (N.leb_spec 1 e') as [_|L]; [|lia].
    rewrite mbind_lift, (byte_range_tinv cr (c_tree c) (d_tree d) bs (e' - 1) T) in H by (fold n; lia).
    cbv iota in H.
    assert (Pe : prefix_size bs (e' - 1) + len (nth (N.to_nat (e' - 1)) bs []) = prefix_size bs e').
    { change (nth (N.to_nat (e' - 1)) bs []) with (blk bs (e' - 1)). rewrite <- prefix_size_succ. f_equal. lia. }
    rewrite Pe in H. rewrite mbind_lift in H. unfold sub64 in H.
    pose proof (prefix_size_mono bs s' e' ltac:(lia)) as Pm.
    destruct (N.leb_spec (prefix_size bs s') (prefix_size bs e')) as [_|L]; [|lia].
    (* the state before the delete satisfies the invariant for the larger cleared set *)
    match type of H with
    | mbind _ _ ?c2 _ = _ => assert (W2 : CInv cr c2 d1 bs cl'); [|set (c2' := c2) in *]
    end.
    { unfold CInv. cbv zeta. cbn [c_tree c_bitfield c_header]. rewrite Dt, Dd. fold n.
      split; [exact T|]. split; [exact Hb'|]. split.
      - destruct Hcg as [G1 G2]. destruct (N.ltb_spec start (hd_contig (c_header c))) as [A|A].
        + cbn [set_contig hd_contig]. split.
          * intros i Hi. unfold b'. rewrite bf_get_set_range.
            assert ((start <=? i) && (i <? start + (end_ - start)) = false) as -> by lia. apply G1. lia.
          * unfold b'. rewrite bf_get_set_range.
            assert ((start <=? start) && (start <? start + (end_ - start)) = true) as -> by lia. reflexivity.
        + split.
          * intros i Hi. unfold b'. rewrite bf_get_set_range.
            assert ((start <=? i) && (i <? start + (end_ - start)) = false) as -> by lia. apply G1. lia.
          * unfold b'. rewrite bf_get_set_range.
            destruct ((start <=? hd_contig (c_header c)) && (hd_contig (c_header c) <? start + (end_ - start)));
              [reflexivity|exact G2].
      - split; [|exact Hl]. intros i Hi. apply Hd, Hsub, Hi. }
    rewrite Dd in H.
    destruct ((0 <? prefix_size bs e' - prefix_size bs s') && (prefix_size bs s' <? f_len (d_data d))) eqn:G.
    - (* a delete is issued; it starts inside the store *)
      destruct (f_del_some (d_data d) (prefix_size bs s') (prefix_size bs e' - prefix_size bs s') ltac:(lia))
        as [f' Edel].
      rewrite (mbind_emit_SD_some Data _ _ f') in H by (cbn [w_disk d_get]; rewrite Dd; exact Edel).
      cbn [w_disk w_journal w_events] in H.
      destruct W2 as (T2 & Hbf2 & Hcg2 & Hd2 & Hl2). rewrite Dd in Hd2.
      destruct (del_hole_preserves bs cl' s' e' (d_data d) f' ltac:(lia) B4 Hd2 Hl Edel) as [Hd3 Hl3].
      assert (W3 : CInv cr c2' (d_set d1 Data f') bs cl').
      { unfold CInv. cbv zeta.
        assert (d_tree (d_set d1 Data f') = d_tree d1) as -> by (destruct d1; reflexivity).
        assert (d_data (d_set d1 Data f') = f') as -> by (destruct d1; reflexivity).
        split; [exact T2|]. split; [exact Hbf2|]. split; [exact Hcg2|]. split; [exact Hd3|exact Hl3]. }
      apply (maybe_flush_preserves_c cr Hhash32 Hnonblank f c2' _ _ _ bs cl') in H; [|exact W3].
      destruct H as [->|(-> & W4 & K4)]; [right; reflexivity|].
      left. split; [reflexivity|]. split; [exact W4|]. rewrite K4. reflexivity.
    - (* no delete is issued: the data store is unchanged, held blocks stay readable trivially *)
      rewrite mbind_ret in H.
      apply (maybe_flush_preserves_c cr Hhash32 Hnonblank f c2' _ _ _ bs cl') in H; [|exact W2].
      destruct H as [->|(-> & W4 & K4)]; [right; reflexivity|].
      left. split; [reflexivity|]. split; [exact W4|]. rewrite K4. reflexivity.
  Qed.

  (* an empty range is a no-op *)
  Lemma clear_noop f start end_ c w : end_ <= start -> core_clear cr f start end_ c w = (c, w, Ok tt).
  Proof. intros H. unfold core_clear. destruct (N.leb_spec end_ start) as [_|L]; [reflexivity|lia]. Qed.

  (* clearing affects no block outside the range: has and get at an index outside [start, end_)
     answer as before (corollary of the invariant before and after) *)
  Corollary clear_outside f c d j ev bs cl start end_ c' d' j' ev' i :
    let n := N.of_nat (length bs) in
    CInv cr c d bs cl -> start < n -> start < end_ ->
    core_clear cr f start end_ c (mkWorld d j ev) = (c', mkWorld d' j' ev', Ok tt) ->
    (i < start \/ end_ <= i) ->
    core_has c' i = core_has c i /\
    forall j1 ev1 j2 ev2,
      snd (core_get i c' (mkWorld d' j1 ev1)) = snd (core_get i c (mkWorld d j2 ev2)).
  Proof.
    intros n W Hsn Hse H Hi.
    destruct (clear_preserves f c d j ev bs cl start end_ _ _ _ W Hsn Hse H)
      as [(_ & W' & _)|E]; [|discriminate E]. cbn [w_disk] in W'.
    assert (Hh : held n (cl_clear cl start end_) i = held n cl i).
    { unfold held, cl_clear. assert ((start <=? i) && (i <? end_) = false) as -> by lia.
      rewrite orb_false_r. reflexivity. }
    split.
    - rewrite (has_correct_c cr c' d' bs _ i W'), (has_correct_c cr c d bs cl i W). exact Hh.
    - intros j1 ev1 j2 ev2.
      rewrite (get_correct_c cr c' d' bs _ j1 ev1 i W'), (get_correct_c cr c d bs cl j2 ev2 i W).
      fold n. rewrite Hh. destruct (held n cl i); reflexivity.
  Qed.
End Clear.

(* ====================================================================================== *)
(* I. core_append preserves the invariant                                                  *)
(* ====================================================================================== *)

(* freshly appended blocks are not cleared *)
Definition cl_mask (cl : N -> bool) (n : N) : N -> bool := fun i => cl i && (i <? n).

Lemma f_read_write_part (f : file) (off0 : N) (a x z : bytes) :
  f_read (f_write f off0 (a ++ x ++ z)) (off0 + len a) (len x) = Some x.
Proof.
  apply f_read_spec. split; [rewrite f_write_len, !len_app; lia|]. split; [unfold len; lia|].
  intros k Hk. rewrite f_write_byte, !len_app.
  assert ((off0 <=? off0 + len a + k) && (off0 + len a + k <? off0 + (len a + (len x + len z))) = true) as -> by lia.
  replace (N.to_nat (off0 + len a + k - off0)) with (length a + N.to_nat k)%nat by (unfold len; lia).
  rewrite app_nth2_plus. rewrite app_nth1 by (unfold len in Hk; lia). reflexivity.
Qed.

Lemma prefix_size_app_l (bs batch : list bytes) (i : N) :
  i <= N.of_nat (length bs) -> prefix_size (bs ++ batch) i = prefix_size bs i.
Proof.
  intros H. unfold prefix_size. rewrite firstn_app.
  replace (N.to_nat i - length bs)%nat with 0%nat by lia. cbn [firstn]. rewrite app_nil_r. reflexivity.
Qed.

Lemma prefix_size_app_r (bs batch : list bytes) (j : nat) :
  prefix_size (bs ++ batch) (N.of_nat (length bs) + N.of_nat j) =
  sumN (map len bs) + len (concat (firstn j batch)).
Proof.
  unfold prefix_size.
  replace (N.to_nat (N.of_nat (length bs) + N.of_nat j)) with (length bs + j)%nat by lia.
  rewrite firstn_app_2, map_app, TreeRef.sumN_app, len_concat. reflexivity.
Qed.

Section AppendC.
  Variable cr : crypto.
  Hypothesis Hhash32 : forall x, length (cr_hash cr x) = 32%nat.
  Hypothesis Hnonblank : forall x, all_zero (cr_hash cr x) = false.

  Lemma append_body_preserves_c f batch c d j ev bs cl sk c' w' r :
    CInv cr c d bs cl -> batch <> [] ->
    sumN (map len (bs ++ batch)) <= u64_max ->
    NODE_SIZE * (2 * N.of_nat (length (bs ++ batch))) <= u64_max ->
    append_body cr f batch sk c c (mkWorld d j ev) = (c', w', r) ->
    r = Panic frame_msg \/
    (r = Ok tt /\ CInv cr c' (w_disk w') (bs ++ batch) (cl_mask cl (N.of_nat (length bs))) /\
     c_keypair c' = c_keypair c).
  Proof.
    intros W Hne Hfit Hidx H.
    pose proof W as ((HL & HB & HF & HR & Hlook & Hun & Hs & Hn) & Hbf & Hcg & Hd & Hl).
    set (B := bs ++ batch) in *. set (n := N.of_nat (length bs)) in *.
    set (k := N.of_nat (length batch)).
    assert (Hk : 0 < k) by (destruct batch; [congruence|unfold k; cbn [length]; lia]).
    assert (HlenB : N.of_nat (length B) = n + k) by (unfold B, n, k; rewrite app_length; lia).
    assert (HsumB : sumN (map len B) = sumN (map len bs) + sumN (map len batch))
      by (unfold B; rewrite map_app; apply TreeRef.sumN_app).
    set (cs0 := tree_changeset (c_tree c)) in *.
    assert (R0 : cs_roots cs0 = ref_roots cr B n).
    { unfold cs0, B. cbn [tree_changeset cs_roots]. rewrite HR. symmetry. apply ref_roots_app. unfold n. lia. }
    assert (L0 : cs_length cs0 = n) by exact HL.
    assert (Hblk : forall i, (i < length batch)%nat -> nth i batch [] = blk B (n + N.of_nat i))
      by (intros i Hi; apply batch_blk, Hi).
    destruct (cs_append_all_no_panic cr B Hfit batch cs0 n R0 L0 Hblk) as [cs1 Hcs].
    { unfold cs0. cbn [tree_changeset cs_byte_length]. rewrite HB. lia. }
    destruct (cs_append_all_ref cr B batch cs0 cs1 n R0 L0 Hblk Hcs)
      as (R1 & L1 & B1 & BL1 & A1 & F1 & U1 & Sound1).
    destruct (cs_append_all_complete cr B batch cs0 cs1 n R0 L0 Hblk Hcs) as (_ & OL1 & OF1 & Compl1).
    unfold cs0 in B1, BL1, A1, F1, OL1, OF1, Sound1.
    cbn [tree_changeset cs_byte_length cs_batch_length cs_ancestors cs_fork cs_orig_length cs_orig_fork cs_nodes
         cs_rnodes rev_append] in B1, BL1, A1, F1, OL1, OF1, Sound1.
    assert (Sound : forall x, In x (cs_nodes cs1) -> x = ref_at cr B (n_index x)).
    { intros x Hx. destruct (Sound1 x Hx) as [[]|E]. exact E. }
    unfold append_body in H. rewrite mbind_lift in H. fold cs0 in H. rewrite Hcs in H. cbv zeta in H.
    rewrite mbind_emit_SW in H. cbn [w_disk w_journal w_events d_get] in H.
    set (cs := cs_hash_and_sign cr cs1 sk) in *.
    set (bu := mkBfUpdate false (cs_ancestors cs) (cs_batch_length cs)) in *.
    assert (Hbu : bu = mkBfUpdate false n k).
    { unfold bu, cs, cs_hash_and_sign, cs_set_hash_sig. cbn [cs_ancestors cs_batch_length].
      rewrite A1, BL1, HL. f_equal; lia. }
    assert (P1 : cs_upgraded cs = true).
    { unfold cs, cs_hash_and_sign, cs_set_hash_sig. cbn [cs_upgraded]. apply U1, Hne. }
    assert (P4 : forall x, In x (cs_nodes cs) -> length (n_hash x) = 32%nat).
    { intros x Hx. rewrite (Sound x Hx). apply ref_at_hash_length, Hhash32. }
    assert (P5 : cs_orig_fork cs = t_fork (c_tree c)).
    { unfold cs, cs_hash_and_sign, cs_set_hash_sig. cbn [cs_orig_fork]. exact OF1. }
    assert (P6 : cs_orig_length cs = t_length (c_tree c)).
    { unfold cs, cs_hash_and_sign, cs_set_hash_sig. cbn [cs_orig_length]. exact OL1. }
    assert (P7 : cs_ancestors cs = t_length (c_tree c)).
    { unfold cs, cs_hash_and_sign, cs_set_hash_sig. cbn [cs_ancestors]. exact A1. }
    match type of H with
    | mbind (log_and_commit _ _ _) _ ?c0 ?w0 = _ =>
        destruct (log_and_commit_spec cr cs bu c0 w0
                    (cs_tree_hash cr cs1) (cr_sign cr sk (cs_signable cs1 (cs_tree_hash cr cs1)))
                    P1 eq_refl eq_refl P4 P5 P6 P7)
          as [(c1 & w1 & E)|(o' & h' & fr & Hcontig & E)]
    end.
    { rewrite (mbind_panic _ _ _ _ _ _ _ E) in H. injection H as <- <- <-. left. reflexivity. }
    rewrite (mbind_eq _ _ _ _ _ _ _ E) in H. clear E.
    cbn [w_disk w_journal w_events] in H.
    match type of H with
    | mbind (maybe_flush _ _) _ ?c2 (mkWorld ?d2 ?j2 ?ev2) = _ =>
        assert (W2 : CInv cr c2 d2 B (cl_mask cl n)); [|set (c2' := c2) in *; set (d2' := d2) in *]
    end.
    { unfold CInv, TInv. cbv zeta. cbn [c_tree c_bitfield c_header t_length t_byte_length t_fork t_roots].
      unfold cs, cs_hash_and_sign, cs_set_hash_sig.
      cbn [cs_roots cs_length cs_byte_length cs_fork cs_signature cs_nodes cs_rnodes].
      fold (cs_nodes cs1).
      assert (Tsame : d_tree (d_set (d_set d Data (f_write (d_data d) (t_byte_length (c_tree c)) (concat batch)))
                               Oplog (f_write (d_oplog (d_set d Data (f_write (d_data d) (t_byte_length (c_tree c)) (concat batch))))
                                        (ENTRIES_OFFSET + ol_entries_bytes (c_oplog c)) fr)) = d_tree d)
        by (destruct d; reflexivity).
      assert (Dsame : d_data (d_set (d_set d Data (f_write (d_data d) (t_byte_length (c_tree c)) (concat batch)))
                               Oplog (f_write (d_oplog (d_set d Data (f_write (d_data d) (t_byte_length (c_tree c)) (concat batch))))
                                        (ENTRIES_OFFSET + ol_entries_bytes (c_oplog c)) fr))
                      = f_write (d_data d) (t_byte_length (c_tree c)) (concat batch))
        by (destruct d; reflexivity).
      rewrite Tsame, Dsame. rewrite HB.
      split.
      { split; [rewrite L1; symmetry; exact HlenB|].
        split; [rewrite B1, HB; symmetry; exact HsumB|].
        split; [rewrite F1; exact HF|].
        split; [rewrite R1, HlenB; reflexivity|].
        split.
        { apply (commit_lookups cr Hnonblank bs batch (c_tree c) _ (d_tree d) (cs_nodes cs1)).
          - exact Sound.
          - intros jj q Q1 Q2. apply Compl1; [exact Q1|]. fold B in Q2. rewrite HlenB in Q2. exact Q2.
          - reflexivity.
          - exact Hlook. }
        split.
        { apply (commit_unflushed_ok cr Hhash32 B (c_tree c) _ (cs_nodes cs1) Hfit Sound); [reflexivity|exact Hun]. }
        split; [exact Hfit|exact Hidx]. }
      assert (G : forall i, bf_get (bf_apply (c_bitfield c) bu) i = held (N.of_nat (length B)) (cl_mask cl n) i).
      { intros i. rewrite bf_get_apply, Hbu, HlenB. cbn [bu_start bu_length bu_drop negb]. rewrite Hbf.
        unfold held, cl_mask.
        destruct (N.leb_spec n i), (N.ltb_spec i (n + k)), (N.ltb_spec i n); cbn [andb];
          rewrite ?andb_false_r, ?andb_true_r; cbn [negb]; try reflexivity; lia. }
      split; [exact G|].
      split.
      { rewrite Hcontig. apply update_contig_exact; [exact Hcg|]. rewrite Hbu. cbn [bu_length]. exact Hk. }
      split.
      { intros i Hi Hpos. rewrite <- G in Hi. rewrite bf_get_apply, Hbu in Hi.
        cbn [bu_start bu_length bu_drop negb] in Hi.
        destruct (N.lt_ge_cases i n) as [A|A].
        - assert ((n <=? i) && (i <? n + k) = false) as E by lia. rewrite E in Hi. rewrite Hbf in Hi.
          assert (Hnth : nth (N.to_nat i) B [] = nth (N.to_nat i) bs []) by (unfold B; apply app_nth1; lia).
          rewrite Hnth in *. unfold B. rewrite prefix_size_app_l by (fold n; lia).
          pose proof (Hd i Hi Hpos) as R. pose proof R as R'. apply f_read_spec in R' as (R1' & _).
          rewrite f_read_write_other; [exact R|exact R1'|left; lia].
        - destruct (N.lt_ge_cases i (n + k)) as [A2|A2].
          2:{ assert ((n <=? i) && (i <? n + k) = false) as E by lia. rewrite E in Hi. rewrite Hbf in Hi.
              unfold held in Hi. fold n in Hi. lia. }
          set (jn := (N.to_nat i - length bs)%nat).
          assert (Hjn : (jn < length batch)%nat) by (unfold jn, n, k in *; lia).
          assert (Hi' : i = n + N.of_nat jn) by (unfold jn, n in *; lia).
          assert (Hnth : nth (N.to_nat i) B [] = nth jn batch []).
          { unfold B. rewrite app_nth2 by (unfold n in A; lia). reflexivity. }
          rewrite Hnth in *. rewrite Hi'. unfold B, n. rewrite prefix_size_app_r.
          rewrite (concat_split batch jn Hjn) at 1. apply f_read_write_part. }
      rewrite f_write_len, len_concat. lia. }
    mstep H.
    - apply (maybe_flush_preserves_c cr Hhash32 Hnonblank f c2' d2' _ _ B (cl_mask cl n)) in Hm; [|exact W2].
      destruct Hm as [Hm|(_ & W3 & K3)]; [discriminate Hm|].
      rewrite mbind_send in H. unfold send in H. injection H as <- <- <-.
      right. split; [reflexivity|]. cbn [w_disk]. split; [exact W3|]. rewrite K3. reflexivity.
    - apply (maybe_flush_preserves_c cr Hhash32 Hnonblank f c2' d2' _ _ B (cl_mask cl n)) in Hm; [|exact W2].
      destruct Hm as [Hm|(Hm & _)]; discriminate Hm.
    - apply (maybe_flush_preserves_c cr Hhash32 Hnonblank f c2' d2' _ _ B (cl_mask cl n)) in Hm; [|exact W2].
      destruct Hm as [Hm|(Hm & _)]; [|discriminate Hm]. left. exact Hm.
    - apply (maybe_flush_preserves_c cr Hhash32 Hnonblank f c2' d2' _ _ B (cl_mask cl n)) in Hm; [|exact W2].
      destruct Hm as [Hm|(Hm & _)]; discriminate Hm.
  Qed.

  Theorem append_preserves_c f batch c d j ev bs cl sk c' w' r :
    CInv cr c d bs cl -> kp_secret (c_keypair c) = Some sk ->
    sumN (map len (bs ++ batch)) <= u64_max ->
    NODE_SIZE * (2 * N.of_nat (length (bs ++ batch))) <= u64_max ->
    core_append cr f batch c (mkWorld d j ev) = (c', w', r) ->
    r = Panic frame_msg \/
    (r = Ok (N.of_nat (length (bs ++ batch)), sumN (map len (bs ++ batch))) /\
     CInv cr c' (w_disk w') (bs ++ batch) (cl_mask cl (N.of_nat (length bs))) /\
     c_keypair c' = c_keypair c).
  Proof.
    intros W Hsk Hfit Hidx H.
    unfold core_append in H. rewrite mbind_get_core, Hsk in H.
    destruct batch as [|b0 rest].
    - rewrite mbind_ret, mbind_get_core in H. unfold ret in H. injection H as <- <- <-.
      right. rewrite app_nil_r. pose proof W as ((HL & HB & _) & _). rewrite HL, HB.
      split; [reflexivity|]. split; [|reflexivity]. cbn [w_disk].
      apply (CInv_cl_ext cr c d bs cl); [|exact W].
      intros i Hi. unfold cl_mask. assert (i <? N.of_nat (length bs) = true) as -> by lia. apply andb_true_r.
    - cbv iota in H. fold (append_body cr f (b0 :: rest) sk c) in H.
      mstep H.
      + apply (append_body_preserves_c f (b0 :: rest) c d j ev bs cl sk) in Hm; try assumption; [|discriminate].
        destruct Hm as [Hm|(_ & W1 & K1)]; [discriminate Hm|].
        rewrite mbind_get_core in H. unfold ret in H. injection H as <- <- <-.
        right. pose proof W1 as ((HL & HB & _) & _). rewrite HL, HB. auto.
      + apply (append_body_preserves_c f (b0 :: rest) c d j ev bs cl sk) in Hm; try assumption; [|discriminate].
        destruct Hm as [Hm|(Hm & _)]; discriminate Hm.
      + apply (append_body_preserves_c f (b0 :: rest) c d j ev bs cl sk) in Hm; try assumption; [|discriminate].
        destruct Hm as [Hm|(Hm & _)]; [|discriminate Hm]. left. injection Hm as ->. reflexivity.
      + apply (append_body_preserves_c f (b0 :: rest) c d j ev bs cl sk) in Hm; try assumption; [|discriminate].
        destruct Hm as [Hm|(Hm & _)]; discriminate Hm.
  Qed.
End AppendC.

(* ====================================================================================== *)
(* J. Histories of appends, clears, reads, has, info                                       *)
(* ====================================================================================== *)

Inductive cop :=
| CAppend (f : option bool) (batch : list bytes)   (* f: the forced flush decision *)
| CClear (f : option bool) (start end_ : N)
| CGet (i : N)
| CHas (i : N)
| CInfo.

Inductive cobs :=
| OCAppend (r : res (N * N))
| OCClear (r : res unit)
| OCGet (r : res (option bytes))
| OCHas (b : bool)
| OCInfo (i : info).

(* the model: list of blocks + characteristic function of the cleared indices *)
Fixpoint spec_obs_c (ops : list cop) (bs : list bytes) (cl : N -> bool) : list cobs :=
  let n := N.of_nat (length bs) in
  match ops with
  | [] => []
  | CAppend _ batch :: rest =>
      OCAppend (Ok (N.of_nat (length (bs ++ batch)), sumN (map len (bs ++ batch))))
        :: spec_obs_c rest (bs ++ batch) (cl_mask cl n)
  | CClear _ s e :: rest =>
      OCClear (Ok tt) :: spec_obs_c rest bs (if e <=? s then cl else cl_clear cl s e)
  | CGet i :: rest =>
      OCGet (Ok (if held n cl i then Some (nth (N.to_nat i) bs []) else None)) :: spec_obs_c rest bs cl
  | CHas i :: rest => OCHas (held n cl i) :: spec_obs_c rest bs cl
  | CInfo :: rest =>
      OCInfo (mkInfo n (sumN (map len bs)) (spec_contig bs cl) 0 true) :: spec_obs_c rest bs cl
  end.

Fixpoint appended_c (ops : list cop) : list bytes :=
  match ops with
  | [] => []
  | CAppend _ batch :: rest => batch ++ appended_c rest
  | _ :: rest => appended_c rest
  end.

(* every non-empty clear starts below the current length (n = current length) *)
Fixpoint wf_c (ops : list cop) (n : N) : Prop :=
  match ops with
  | [] => True
  | CAppend _ batch :: rest => wf_c rest (n + N.of_nat (length batch))
  | CClear _ s e :: rest => (e <= s \/ s < n) /\ wf_c rest n
  | _ :: rest => wf_c rest n
  end.

Section HistoryC.
  Variable cr : crypto.
  Hypothesis Hhash32 : forall x, length (cr_hash cr x) = 32%nat.
  Hypothesis Hnonblank : forall x, all_zero (cr_hash cr x) = false.

  (* the model; a history stops after an append or a clear that does not return a value *)
  Fixpoint run_obs_c (ops : list cop) (c : core) (w : world) : list cobs :=
    match ops with
    | [] => []
    | CAppend f batch :: rest =>
        let '(c', w', r) := core_append cr f batch c w in
        OCAppend r :: (match r with Ok _ => run_obs_c rest c' w' | _ => [] end)
    | CClear f s e :: rest =>
        let '(c', w', r) := core_clear cr f s e c w in
        OCClear r :: (match r with Ok _ => run_obs_c rest c' w' | _ => [] end)
    | CGet i :: rest =>
        let '(c', w', r) := core_get i c w in OCGet r :: run_obs_c rest c' w'
    | CHas i :: rest => OCHas (core_has c i) :: run_obs_c rest c w
    | CInfo :: rest => OCInfo (core_info c) :: run_obs_c rest c w
    end.

  (* the observations at which a history may stop early: the 30-bit frame guard of the oplog *)
  Definition stop_obs (o : cobs) : Prop :=
    o = OCAppend (Panic frame_msg) \/ o = OCClear (Panic frame_msg).

  Theorem history_correct_c (ops : list cop) : forall c d j ev bs cl sk,
    CInv cr c d bs cl -> kp_secret (c_keypair c) = Some sk ->
    wf_c ops (N.of_nat (length bs)) ->
    sumN (map len (bs ++ appended_c ops)) <= u64_max ->
    NODE_SIZE * (2 * N.of_nat (length (bs ++ appended_c ops))) <= u64_max ->
    run_obs_c ops c (mkWorld d j ev) = spec_obs_c ops bs cl \/
    exists k o, run_obs_c ops c (mkWorld d j ev) = firstn k (spec_obs_c ops bs cl) ++ [o] /\ stop_obs o.
  Proof.
    induction ops as [|op ops IH]; intros c d j ev bs cl sk W Hsk Hwf Hfit Hidx.
    - left. reflexivity.
    - destruct op as [f batch|f s e|i|i|]; cbn [run_obs_c spec_obs_c appended_c wf_c] in *.
      + destruct (core_append cr f batch c (mkWorld d j ev)) as [[c' w'] r] eqn:E.
        rewrite app_assoc in Hfit, Hidx.
        assert (Hfit1 : sumN (map len (bs ++ batch)) <= u64_max).
        { rewrite map_app, TreeRef.sumN_app in Hfit. lia. }
        assert (Hidx1 : NODE_SIZE * (2 * N.of_nat (length (bs ++ batch))) <= u64_max).
        { rewrite (app_length (bs ++ batch)) in Hidx. unfold NODE_SIZE in *. lia. }
        destruct (append_preserves_c cr Hhash32 Hnonblank f batch c d j ev bs cl sk c' w' r W Hsk Hfit1 Hidx1 E)
          as [->|(-> & W' & K')].
        * right. exists 0%nat, (OCAppend (Panic frame_msg)). split; [reflexivity|]. left. reflexivity.
        * destruct w' as [d' j' ev']. cbn [w_disk] in W'. rewrite <- K' in Hsk.
          assert (Hwf' : wf_c ops (N.of_nat (length (bs ++ batch)))).
          { rewrite app_length, Nat2N.inj_add. exact Hwf. }
          destruct (IH c' d' j' ev' (bs ++ batch) _ sk W' Hsk Hwf' Hfit Hidx) as [->|(k & o & -> & St)].
          -- left. reflexivity.
          -- right. exists (S k), o. split; [reflexivity|exact St].
      + destruct Hwf as [Hse Hwf].
        destruct (N.leb_spec e s) as [L|L].
        * rewrite (clear_noop cr f s e c _ L).
          destruct (IH c d j ev bs cl sk W Hsk Hwf Hfit Hidx) as [->|(k & o & -> & St)].
          -- left. reflexivity.
          -- right. exists (S k), o. split; [reflexivity|exact St].
        * destruct Hse as [Hse|Hse]; [lia|].
          destruct (core_clear cr f s e c (mkWorld d j ev)) as [[c' w'] r] eqn:E.
          destruct (clear_preserves cr Hhash32 Hnonblank f c d j ev bs cl s e c' w' r W Hse L E)
            as [(-> & W' & K')| -> ].
          -- destruct w' as [d' j' ev']. cbn [w_disk] in W'. rewrite <- K' in Hsk.
             destruct (IH c' d' j' ev' bs _ sk W' Hsk Hwf Hfit Hidx) as [->|(k & o & -> & St)].
             ++ left. reflexivity.
             ++ right. exists (S k), o. split; [reflexivity|exact St].
          -- right. exists 0%nat, (OCClear (Panic frame_msg)). split; [reflexivity|]. right. reflexivity.
      + rewrite (get_correct_c cr c d bs cl j ev i W).
        destruct (held (N.of_nat (length bs)) cl i).
        * destruct (IH c d j ev bs cl sk W Hsk Hwf Hfit Hidx) as [->|(k & o & -> & St)];
            [left; reflexivity|right; exists (S k), o; split; [reflexivity|exact St]].
        * destruct (IH c d j (EvGet i :: ev) bs cl sk W Hsk Hwf Hfit Hidx) as [->|(k & o & -> & St)];
            [left; reflexivity|right; exists (S k), o; split; [reflexivity|exact St]].
      + rewrite (has_correct_c cr c d bs cl i W).
        destruct (IH c d j ev bs cl sk W Hsk Hwf Hfit Hidx) as [->|(k & o & -> & St)];
          [left; reflexivity|right; exists (S k), o; split; [reflexivity|exact St]].
      + rewrite (proj1 (info_correct_c cr c d bs cl W)), Hsk.
        destruct (IH c d j ev bs cl sk W Hsk Hwf Hfit Hidx) as [->|(k & o & -> & St)];
          [left; reflexivity|right; exists (S k), o; split; [reflexivity|exact St]].
  Qed.

  (* when no operation hits the 30-bit frame guard, every observation is the specification's *)
  Corollary history_correct_c_no_frame_panic ops c d j ev bs cl sk :
    CInv cr c d bs cl -> kp_secret (c_keypair c) = Some sk ->
    wf_c ops (N.of_nat (length bs)) ->
    sumN (map len (bs ++ appended_c ops)) <= u64_max ->
    NODE_SIZE * (2 * N.of_nat (length (bs ++ appended_c ops))) <= u64_max ->
    (forall o, In o (run_obs_c ops c (mkWorld d j ev)) -> ~ stop_obs o) ->
    run_obs_c ops c (mkWorld d j ev) = spec_obs_c ops bs cl.
  Proof.
    intros W Hsk Hwf Hfit Hidx Hno.
    destruct (history_correct_c ops c d j ev bs cl sk W Hsk Hwf Hfit Hidx) as [E|(k & o & E & St)]; [exact E|].
    exfalso. apply (Hno o); [|exact St]. rewrite E. apply in_or_app. right. left. reflexivity.
  Qed.

  (* from creation *)
  Theorem fresh_history_correct_c kp sk ops :
    keypair_ok kp = true -> kp_secret kp = Some sk ->
    wf_c ops 0 ->
    sumN (map len (appended_c ops)) <= u64_max ->
    NODE_SIZE * (2 * N.of_nat (length (appended_c ops))) <= u64_max ->
    exists d0 ops0 c0,
      core_open cr (Some kp) false disk_empty = (d0, ops0, Ok c0) /\
      (run_obs_c ops c0 (mkWorld d0 [] []) = spec_obs_c ops [] (fun _ => false) \/
       exists k o, run_obs_c ops c0 (mkWorld d0 [] []) = firstn k (spec_obs_c ops [] (fun _ => false)) ++ [o] /\
                   stop_obs o).
  Proof.
    intros Hkp Hsk Hwf Hfit Hidx.
    destruct (WInv_init_keypair_ok cr kp Hkp) as (d0 & ops0 & c0 & Ho & W & K).
    exists d0, ops0, c0. split; [exact Ho|].
    apply (history_correct_c ops c0 d0 [] [] [] (fun _ => false) sk);
      [apply WInv_CInv, W|rewrite K; exact Hsk|exact Hwf|exact Hfit|exact Hidx].
  Qed.
End HistoryC.

(* ====================================================================================== *)
(* K. Non-vacuity and the counterexample                                                   *)
(* ====================================================================================== *)

Definition toy_blocks : list bytes := [[1; 2; 3]; []; [4]].

Definition toy_ops_c : list cop :=
  [CAppend (Some false) toy_blocks; CClear None 1 2; CGet 0; CGet 1; CGet 2; CGet 3; CHas 0; CHas 1; CHas 2;
   CInfo; CClear (Some true) 0 1; CInfo; CGet 0; CGet 2; CAppend None [[5; 6]]; CGet 3; CGet 1; CInfo;
   CClear (Some false) 2 9; CGet 2; CGet 3; CInfo; CClear None 5 5].

Example toy_history_c :
  keypair_ok toy_keypair = true /\ wf_c toy_ops_c 0 /\
  match core_open toy_cr (Some toy_keypair) false disk_empty with
  | (d0, _, Ok c0) => run_obs_c toy_cr toy_ops_c c0 (mkWorld d0 [] []) = spec_obs_c toy_ops_c [] (fun _ => false)
  | _ => False
  end.
Proof.
  split; [reflexivity|]. split; [cbn [wf_c toy_ops_c toy_blocks length]; lia|]. vm_compute. reflexivity.
Qed.

(* what the run of "append 3 blocks (one empty), clear the middle one, get all" returns *)
Example toy_clear_middle :
  match core_open toy_cr (Some toy_keypair) false disk_empty with
  | (d0, _, Ok c0) =>
      run_obs_c toy_cr [CAppend (Some false) toy_blocks; CClear None 1 2; CGet 0; CGet 1; CGet 2]
                c0 (mkWorld d0 [] []) =
      [OCAppend (Ok (3, 4)); OCClear (Ok tt); OCGet (Ok (Some [1; 2; 3])); OCGet (Ok None); OCGet (Ok (Some [4]))]
  | _ => False
  end.
Proof. vm_compute. reflexivity. Qed.

(* the hypotheses of clear_preserves hold for the state reached by the toy append, and its
   conclusion is the Ok alternative *)
Example toy_clear_hypotheses :
  exists d0 ops0 c0 c1 w1,
    core_open toy_cr (Some toy_keypair) false disk_empty = (d0, ops0, Ok c0) /\
    core_append toy_cr (Some false) toy_blocks c0 (mkWorld d0 [] []) = (c1, w1, Ok (3, 4)) /\
    let n := N.of_nat (length toy_blocks) in
    CInv toy_cr c1 (w_disk w1) toy_blocks (fun _ => false) /\ 1 < n /\ 1 < 2 /\
    exists c2 w2,
      core_clear toy_cr None 1 2 c1 w1 = (c2, w2, Ok tt) /\
      CInv toy_cr c2 (w_disk w2) toy_blocks (cl_clear (fun _ => false) 1 2).
Proof.
  destruct (WInv_init_keypair_ok toy_cr toy_keypair eq_refl) as (d0 & ops0 & c0 & Ho & W & K).
  destruct (core_append toy_cr (Some false) toy_blocks c0 (mkWorld d0 [] [])) as [[c1 w1] r1] eqn:E1.
  assert (Hr1 : r1 = Ok (3, 4)).
  { pose proof Ho as Ho'. vm_compute in Ho'. injection Ho' as <- <- <-. vm_compute in E1.
    injection E1 as _ _ <-. reflexivity. }
  subst r1.
  assert (Hsk : kp_secret (c_keypair c0) = Some (repeat 2 32%nat)) by (rewrite K; reflexivity).
  destruct (append_preserves toy_cr toy_hash32 toy_nonblank (Some false) toy_blocks c0 d0 [] [] [] _ c1 w1 _
              W Hsk ltac:(vm_compute; discriminate) ltac:(vm_compute; discriminate) E1)
    as [Hp|(_ & W1 & K1)]; [discriminate Hp|].
  cbn [app] in W1. apply WInv_CInv in W1.
  exists d0, ops0, c0, c1, w1. split; [exact Ho|]. split; [exact E1|]. cbv zeta.
  split; [exact W1|]. split; [cbn [toy_blocks length]; lia|]. split; [lia|].
  destruct w1 as [d1 j1 ev1]. cbn [w_disk] in *.
  destruct (core_clear toy_cr None 1 2 c1 (mkWorld d1 j1 ev1)) as [[c2 w2] r2] eqn:E2.
  assert (Hr2 : r2 = Ok tt).
  { pose proof Ho as Ho'. vm_compute in Ho'. injection Ho' as <- <- <-. vm_compute in E1.
    injection E1 as <- <- <- <-. vm_compute in E2. injection E2 as _ _ <-. reflexivity. }
  subst r2. exists c2, w2. split; [reflexivity|].
  destruct (clear_preserves toy_cr toy_hash32 toy_nonblank None c1 d1 j1 ev1 toy_blocks (fun _ => false) 1 2 c2 w2 _
              W1 ltac:(cbn [toy_blocks length]; lia) ltac:(lia) E2) as [(_ & W2 & _)|Hp]; [exact W2|discriminate Hp].
Qed.

(* REGRESSION: the former counterexample. Four blocks, the last two empty. Clearing block 1 deletes up to
   the end of the store, which truncates it to 3 bytes; the held empty block 2 now has offset 5 beyond
   the end. Before core_clear guarded its delete, clearing block 3 asked for a delete at offset 5 and the
   store answered out of bounds (Err InvalidOperation). Now the hole is empty and starts beyond the
   end, no storage operation is issued, and the run agrees with the specification. *)
Definition stranded_ops : list cop :=
  [CAppend (Some false) [[1; 2; 3]; [4; 5]; []; []]; CClear (Some false) 1 2; CClear (Some false) 3 4;
   CGet 2; CGet 3; CHas 2; CGet 1; CGet 0; CInfo].

Example stranded_empty_block_clear_ok :
  match core_open toy_cr (Some toy_keypair) false disk_empty with
  | (d0, _, Ok c0) =>
      run_obs_c toy_cr stranded_ops c0 (mkWorld d0 [] []) =
      [OCAppend (Ok (4, 5)); OCClear (Ok tt); OCClear (Ok tt); OCGet (Ok (Some [])); OCGet (Ok None); OCHas true;
       OCGet (Ok None); OCGet (Ok (Some [1; 2; 3])); OCInfo (mkInfo 4 5 1 0 true)] /\
      run_obs_c toy_cr stranded_ops c0 (mkWorld d0 [] []) = spec_obs_c stranded_ops [] (fun _ => false)
  | _ => False
  end.
Proof. vm_compute. split; reflexivity. Qed.

Print Assumptions WInv_CInv.
Print Assumptions CInv_cl_ext.
Print Assumptions byte_range_correct_c.
Print Assumptions get_correct_c.
Print Assumptions has_correct_c.
Print Assumptions info_correct_c.
Print Assumptions bf_last_index_of_true_some.
Print Assumptions bf_last_index_of_true_none.
Print Assumptions bf_index_of_true_some.
Print Assumptions bf_index_of_true_none.
Print Assumptions del_hole_preserves.
Print Assumptions hole_bounds.
Print Assumptions flush_all_preserves_c.
Print Assumptions maybe_flush_preserves_c.
Print Assumptions clear_preserves.
Print Assumptions clear_noop.
Print Assumptions clear_outside.
Print Assumptions append_preserves_c.
Print Assumptions history_correct_c.
Print Assumptions history_correct_c_no_frame_panic.
Print Assumptions fresh_history_correct_c.
Print Assumptions toy_history_c.
Print Assumptions toy_clear_middle.
Print Assumptions toy_clear_hypotheses.
Print Assumptions stranded_empty_block_clear_ok.

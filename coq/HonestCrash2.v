(* HonestCrash2.v -- crash cuts of HONEST proof applications of EVERY request class (C02), part 2: recovery.
     reopen_RCDisk               : core_open on a closed crash disk (HonestCrash1.RCDisk) succeeds and gives the full
                                   replica invariant RCInv (RDInv + closed stored nodes) with the observations of the
                                   held set and length the disk stands for;
     honest_apply_crash_recovers : every cut of an accepted application of an honest changeset reopens to the state
                                   before (cuts up to the commit point) or after (from the entry write on);
     honest_round_crash_recovers : the same for one replication round with the premises of honest_round;
     honest_crash_histories      : histories over {serve + apply, reopen, CRASH inside the application after k storage
                                   operations then reopen}, every request of ANY well-formed class: every step
                                   succeeds, RCInv holds at the end, the length is the signed length of the last
                                   COMMITTED upgrade, every committed block (in particular every block of an
                                   acknowledged application) is held and reads byte-identical to the writer's.
   No escape clause (collision / forged signature). *)
From HC Require Import Base NMap Codec CodecFacts Crypto FlatTree Storage Bitfield Oplog Merkle Core.
From HC Require Import FlatTreeFacts StorageFacts BitfieldFacts OplogFacts Sound NoPanic TreeRef OffsetFacts CoreFacts Crash Refine Replicate Replicate2 Replicate2Z Replicate2D Replicate2E.
From HC Require Import ClearRefine Reopen ContigBridge Unified1 Unified2 CrashCore1 CrashCore2 CrashCore3 CrashClear1.
From HC Require Import SoundCoreLib SoundCore SoundCoreUp SoundCoreBU ReplicaDisk1 ReplicaDisk2 ReplicaDisk3 ReplicaDisk4.
From HC Require Import AcceptAll1 AcceptAll2 AcceptAll3 AcceptAll AcceptAllCore1 AcceptAllClo AcceptAllClo2 AcceptAllFlush AcceptAllCore2 AcceptAllCore3 AcceptAllHist.
From HC Require Import HonestApply1 HonestApply2 HonestApply3 HonestApply HonestCrash1.
From Coq Require Import FMapPositive ZifyN ZifyNat ZifyBool.
Ltac Zify.zify_post_hook ::= Z.div_mod_to_equations.
Arguments N.add : simpl never.
Arguments N.sub : simpl never.
Arguments N.mul : simpl never.
Arguments N.div : simpl never.
Arguments N.modulo : simpl never.
Arguments N.pow : simpl never.
Arguments N.eqb : simpl never.
Arguments N.ltb : simpl never.
Arguments N.leb : simpl never.
Arguments N.max : simpl never.
Arguments N.min : simpl never.
Arguments N.of_nat : simpl never.
Arguments N.to_nat : simpl never.
Arguments N.log2 : simpl never.

(* ====================================================================================== *)
(* A. Opening a closed crash disk                                                          *)
(* ====================================================================================== *)

Section ReopenC.
  Variable cr : crypto.
  Hypothesis Hcrc : crc_ok cr.
  Hypothesis Hhash32 : forall x, length (cr_hash cr x) = 32%nat.
  Hypothesis Hnonblank : forall x, all_zero (cr_hash cr x) = false.
  Hypothesis Hhashbytes : forall x, bytes_ok (cr_hash cr x) = true.
  Variable bs : list bytes.
  Hypothesis Hw : writer_fits bs.

  (* ReplicaDisk2.reopen_RDisk with the closure of the stored nodes carried over *)
  Theorem reopen_RCDisk pk d H r :
    RCDisk cr bs pk d H r ->
    exists c' d' ops, core_open cr None true d = (d', ops, Ok c') /\
      RCInv cr bs c' d' H /\ obs_replica bs c' d' H r /\ t_length (c_tree c') = r /\
      c_keypair c' = mkKeypair pk None /\ c_skip c' = 0 /\
      d_tree d' = d_tree d /\ d_data d' = d_data d /\ d_bitfield d' = d_bitfield d /\
      (ops = [] /\ d' = d \/ ops = [ST Oplog ENTRIES_OFFSET]).
  Proof.
    intros (s0 & s1 & body & st0 & st1 & bits & hf & l & kf & Hcont & HO & Hhf & Hch & Hst & HT & Hbf & Hclo).
    destruct (OplX_open cr Hcrc Hhash32 Hnonblank Hhashbytes s0 s1 body st0 st1 bits hf l HO)
      as (ops & Hopen & [(-> & G)|(-> & L0 & L1 & G)]).
    - rewrite <- Hcont in Hopen.
      rewrite (core_open_eq cr d _ d Hopen eq_refl). cbn [oo_ops].
      destruct (open_tail_R cr Hnonblank bs Hw pk d H r s0 s1 body st0 st1 bits hf l kf [] Hcont G Hhf Hch Hst HT Hbf)
        as (c' & E & X & K & Sk & _ & _ & Et).
      assert (L : t_length (c_tree c') = r) by (rewrite Et; reflexivity).
      exists c', d, []. split; [rewrite E; reflexivity|].
      split. { split; [exact X|]. rewrite Et. apply (ClosedR_same (rtree cr bs r None (flat_map e_nodes l))); [reflexivity|reflexivity|exact Hclo]. }
      split; [rewrite <- L; apply (RD_observations cr bs Hw c' d H X)|].
      split; [exact L|]. split; [exact K|]. split; [exact Sk|].
      repeat (split; [reflexivity|]). left. split; reflexivity.
    - rewrite <- Hcont in Hopen.
      set (d' := d_set d Oplog (f_truncate (d_oplog d) ENTRIES_OFFSET)).
      assert (Ha : apply_sops d [ST Oplog ENTRIES_OFFSET] = Some d') by reflexivity.
      rewrite (core_open_eq cr d _ d' Hopen Ha). cbn [oo_ops].
      assert (Hcont' : f_content (d_oplog d') = s0 ++ s1 ++ []).
      { unfold d'. destruct d as [ft fd fb fo]. cbn [d_set d_oplog] in *.
        rewrite f_content_truncate, Hcont. apply c_truncate_all_entries; assumption. }
      assert (Et : d_tree d' = d_tree d) by (destruct d; reflexivity).
      assert (Ed : d_data d' = d_data d) by (destruct d; reflexivity).
      assert (Eb : d_bitfield d' = d_bitfield d) by (destruct d; reflexivity).
      destruct (open_tail_R cr Hnonblank bs Hw pk d' H r s0 s1 [] st0 st1 bits hf l kf [ST Oplog ENTRIES_OFFSET] Hcont' G Hhf)
        as (c' & E & X & K & Sk & _ & _ & Ett); try (rewrite ?Ed, ?Et, ?Eb; assumption).
      assert (L : t_length (c_tree c') = r) by (rewrite Ett; reflexivity).
      exists c', d', [ST Oplog ENTRIES_OFFSET]. split; [rewrite E; reflexivity|].
      split. { split; [exact X|]. rewrite Ett, Et. apply (ClosedR_same (rtree cr bs r None (flat_map e_nodes l))); [reflexivity|reflexivity|exact Hclo]. }
      split; [rewrite <- L; apply (RD_observations cr bs Hw c' d' H X)|].
      split; [exact L|]. split; [exact K|]. split; [exact Sk|].
      repeat (split; [assumption|]). right. reflexivity.
  Qed.

  (* ====================================================================================== *)
  (* B. Every cut of an honest application reopens to the state before or after              *)
  (* ====================================================================================== *)

  Theorem honest_apply_crash_recovers f pf c d j ev H cs c' w' :
    RCInv cr bs c d H ->
    verifier_says cr c (mkWorld d j ev) pf = Ok cs ->
    honest_changeset cr bs c pf cs ->
    core_apply_proof cr f pf c (mkWorld d j ev) = (c', w', Ok true) ->
    exists ops,
      w_journal w' = rev ops ++ j /\ apply_sops d ops = Some (w_disk w') /\
      forall k, exists dk,
        apply_sops d (firstn k ops) = Some dk /\
        exists c'' d'' rops, core_open cr None true dk = (d'', rops, Ok c'') /\
          c_keypair c'' = c_keypair c /\
          if (k <=? commit_point pf)%nat
          then RCInv cr bs c'' d'' H /\ obs_replica bs c'' d'' H (t_length (c_tree c)) /\
               t_length (c_tree c'') = t_length (c_tree c)
          else RCInv cr bs c'' d'' (hold H (p_block pf)) /\
               obs_replica bs c'' d'' (hold H (p_block pf)) (t_length (c_tree c')) /\
               t_length (c_tree c'') = t_length (c_tree c').
  Proof.
    intros RC V Hhon Happ. pose proof RC as [X _]. pose proof (RDInv_keypair cr bs c d H X) as Kc.
    destruct (honest_apply_crash_cuts cr Hcrc Hhash32 Hnonblank Hhashbytes bs Hw f pf c d j ev H cs c' w' RC V Hhon Happ)
      as (pre & off & fr & fl & Hj & _ & _ & Ha & _ & _ & _ & Hcuts).
    exists (pre ++ SW Oplog off fr :: fl). split; [exact Hj|]. split; [exact Ha|].
    intros k. destruct (Hcuts k) as (dk & Ak & Pk). exists dk. split; [exact Ak|].
    destruct (k <=? commit_point pf)%nat.
    - destruct (reopen_RCDisk _ dk _ _ Pk) as (c'' & d'' & rops & E & X'' & O & L & K & _).
      exists c'', d'', rops. split; [exact E|]. split; [rewrite K; symmetry; exact Kc|]. split; [exact X''|]. split; [exact O|exact L].
    - destruct (reopen_RCDisk _ dk _ _ Pk) as (c'' & d'' & rops & E & X'' & O & L & K & _).
      exists c'', d'', rops. split; [exact E|]. split; [rewrite K; symmetry; exact Kc|]. split; [exact X''|]. split; [exact O|exact L].
  Qed.

  (* GOAL 2a: one replication round of any request class (premises of HonestApply3.honest_round): a crash between
     any two storage operations of the accepted application recovers to the state before (cuts up to the commit
     point) or after (from the entry write on) *)
  Theorem honest_round_crash_recovers f cw dw bw sg jw evw c d j ev H rq :
    let w := N.of_nat (length bw) in
    let pk := kp_public (c_keypair c) in
    writer_at cr bs cw dw bw pk sg ->
    RCInv cr bs c d H ->
    t_length (c_tree c) <= w ->
    wf_request bs (c_tree c) (d_tree d) w rq ->
    (forall vp, create_valueless_proof (c_tree cw) (d_tree dw) (rq_block rq) (rq_hash rq) (rq_seek rq) (rq_upgrade rq) = Ok vp ->
                frame_guard cr c d (vp_to_proof vp (rq_value bs rq))) ->
    let H' := held_rq H rq in
    let r' := match rq_upgrade rq with Some _ => w | None => t_length (c_tree c) end in
    exists pf c' w' ops,
      core_create_proof (rq_block rq) (rq_hash rq) (rq_seek rq) (rq_upgrade rq) cw (mkWorld dw jw evw)
        = (cw, mkWorld dw jw evw, Ok (Some pf)) /\
      core_apply_proof cr f pf c (mkWorld d j ev) = (c', w', Ok true) /\
      w_journal w' = rev ops ++ j /\ apply_sops d ops = Some (w_disk w') /\
      RCInv cr bs c' (w_disk w') H' /\ t_length (c_tree c') = r' /\
      forall k, exists dk,
        apply_sops d (firstn k ops) = Some dk /\
        exists c'' d'' rops, core_open cr None true dk = (d'', rops, Ok c'') /\
          c_keypair c'' = c_keypair c /\
          if (k <=? rq_commit_point rq)%nat
          then RCInv cr bs c'' d'' H /\ obs_replica bs c'' d'' H (t_length (c_tree c)) /\
               t_length (c_tree c'') = t_length (c_tree c)
          else RCInv cr bs c'' d'' H' /\ obs_replica bs c'' d'' H' r' /\ t_length (c_tree c'') = r'.
  Proof.
    intros w pk Hwa RC Hrw Hwf Hfr H' r'. pose proof RC as [X _]. pose proof (RDInv_keypair cr bs c d H X) as Kc.
    destruct (honest_round_crash_cuts cr Hcrc Hhash32 Hnonblank Hhashbytes bs Hw f cw dw bw sg jw evw c d j ev H rq
                Hwa RC Hrw Hwf Hfr) as (pf & c' & w' & pre & off & fr & fl & Hcreate & Hrun & Hj & _ & _ & Ha & RC' & El & _ & Hcuts).
    exists pf, c', w', (pre ++ SW Oplog off fr :: fl).
    split; [exact Hcreate|]. split; [exact Hrun|]. split; [exact Hj|]. split; [exact Ha|].
    split; [exact RC'|]. split; [exact El|].
    intros k. destruct (Hcuts k) as (dk & Ak & Pk). exists dk. split; [exact Ak|].
    destruct (k <=? rq_commit_point rq)%nat.
    - destruct (reopen_RCDisk _ dk _ _ Pk) as (c'' & d'' & rops & E & X'' & O & L & K & _).
      exists c'', d'', rops. split; [exact E|]. split; [rewrite K; symmetry; exact Kc|]. split; [exact X''|]. split; [exact O|exact L].
    - destruct (reopen_RCDisk _ dk _ _ Pk) as (c'' & d'' & rops & E & X'' & O & L & K & _).
      exists c'', d'', rops. split; [exact E|]. split; [rewrite K; symmetry; exact Kc|]. split; [exact X''|]. split; [exact O|exact L].
  Qed.
End ReopenC.

(* ====================================================================================== *)
(* C. Histories with crashes inside applications                                           *)
(* ====================================================================================== *)

(* AcceptAllHist.revent extended with a crash: the writer serves rq, the replica starts applying the proof, the
   process dies after k storage operations of the application, the storage is opened again *)
Inductive cevent :=
| CServe (f : option bool) (rq : request) (cw : core) (dw : disk) (jw : list sop) (evw : list event)
         (bw : list bytes) (sg : bytes)
| CReopen
| CCrash (f : option bool) (rq : request) (cw : core) (dw : disk) (jw : list sop) (evw : list event)
         (bw : list bytes) (sg : bytes) (k : nat).

Section CrashHistories.
  Variable cr : crypto.
  Hypothesis Hcrc : crc_ok cr.
  Hypothesis Hhash32 : forall x, length (cr_hash cr x) = 32%nat.
  Hypothesis Hnonblank : forall x, all_zero (cr_hash cr x) = false.
  Hypothesis Hhashbytes : forall x, bytes_ok (cr_hash cr x) = true.
  Variable bs : list bytes.
  Hypothesis Hw : writer_fits bs.

  (* one event, executed: None = some call failed or refused *)
  Definition cexec (c : core) (w : world) (e : cevent) : option (core * world) :=
    match e with
    | CServe f rq cw dw jw evw bw sg => exec cr c w (EServe f rq cw dw jw evw bw sg)
    | CReopen => exec cr c w EReopen
    | CCrash f rq cw dw jw evw bw sg k =>
        match core_create_proof (rq_block rq) (rq_hash rq) (rq_seek rq) (rq_upgrade rq) cw (mkWorld dw jw evw) with
        | (_, _, Ok (Some pf)) =>
            match core_apply_proof cr f pf c w with
            | (_, w', Ok true) =>
                (* the storage operations of the call, oldest first, cut after k of them *)
                let cut := firstn k (journal_delta (w_journal w) (w_journal w')) in
                match apply_sops (w_disk w) cut with
                | Some dk =>
                    (* memory is lost; the storage is opened again *)
                    match core_open cr None true dk with
                    | (d'', rops, Ok c'') => Some (c'', mkWorld d'' (rev rops ++ rev cut ++ w_journal w) (w_events w))
                    | _ => None
                    end
                | None => None
                end
            | _ => None
            end
        | _ => None
        end
    end.

  Fixpoint crun (es : list cevent) (c : core) (w : world) : option (core * world) :=
    match es with
    | [] => Some (c, w)
    | e :: rest => match cexec c w e with Some (c', w') => crun rest c' w' | None => None end
    end.

  (* the request of an event is well formed for the replica state it is sent from: any of the 18 classes *)
  Definition cpre (c : core) (d : disk) (e : cevent) : Prop :=
    match e with
    | CServe f rq cw dw jw evw bw sg => pre_all cr bs c d (EServe f rq cw dw jw evw bw sg)
    | CReopen => True
    | CCrash f rq cw dw jw evw bw sg k => pre_all cr bs c d (EServe f rq cw dw jw evw bw sg)
    end.

  Fixpoint chist (es : list cevent) (c : core) (w : world) : Prop :=
    match es with
    | [] => True
    | e :: rest => cpre c (w_disk w) e /\ forall c' w', cexec c w e = Some (c', w') -> chist rest c' w'
    end.

  (* did the crash happen after the commit point (the entry write)? *)
  Definition committed (rq : request) (k : nat) : bool := negb (k <=? rq_commit_point rq)%nat.

  (* the held set after an event *)
  Definition cheld1 (H : N -> bool) (e : cevent) : N -> bool :=
    match e with
    | CServe _ rq _ _ _ _ _ _ => held_rq H rq
    | CReopen => H
    | CCrash _ rq _ _ _ _ _ _ k => if committed rq k then held_rq H rq else H
    end.
  Definition cheld_all (H : N -> bool) (es : list cevent) : N -> bool := fold_left cheld1 es H.

  (* the length after an event: the writer's signed length when a COMMITTED request carried an upgrade *)
  Definition clen1 (r : N) (e : cevent) : N :=
    match e with
    | CServe _ rq _ _ _ _ bw _ => match rq_upgrade rq with Some _ => N.of_nat (length bw) | None => r end
    | CReopen => r
    | CCrash _ rq _ _ _ _ bw _ k =>
        if committed rq k then match rq_upgrade rq with Some _ => N.of_nat (length bw) | None => r end else r
    end.
  Definition clen_all (r : N) (es : list cevent) : N := fold_left clen1 es r.

  (* the blocks of the applications that reached their commit point: the acknowledged ones (CServe), and the
     crashed ones cut after the entry write *)
  Fixpoint ccommitted (es : list cevent) (i : N) : Prop :=
    match es with
    | [] => False
    | CServe _ rq _ _ _ _ _ _ :: rest => (exists b, rq_block rq = Some b /\ rb_index b = i) \/ ccommitted rest i
    | CReopen :: rest => ccommitted rest i
    | CCrash _ rq _ _ _ _ _ _ k :: rest =>
        (committed rq k = true /\ exists b, rq_block rq = Some b /\ rb_index b = i) \/ ccommitted rest i
    end.

  Lemma held_rq_mono H rq i : H i = true -> held_rq H rq i = true.
  Proof. intros Hi. unfold held_rq. destruct (rq_block rq); [rewrite Hi; apply orb_true_r|exact Hi]. Qed.

  Lemma cheld1_mono H e i : H i = true -> cheld1 H e i = true.
  Proof.
    intros Hi. destruct e as [f rq cw dw jw evw bw sg| |f rq cw dw jw evw bw sg k]; cbn [cheld1].
    - apply held_rq_mono, Hi.
    - exact Hi.
    - destruct (committed rq k); [apply held_rq_mono, Hi|exact Hi].
  Qed.

  Lemma cheld_all_mono es : forall H i, H i = true -> cheld_all H es i = true.
  Proof.
    induction es as [|e es IH]; intros H i Hi; cbn [cheld_all fold_left]; [exact Hi|].
    apply IH, cheld1_mono, Hi.
  Qed.

  Lemma cheld_committed es : forall H i, ccommitted es i -> cheld_all H es i = true.
  Proof.
    induction es as [|e es IH]; intros H i Hr; cbn [ccommitted] in Hr; [destruct Hr|].
    cbn [cheld_all fold_left]. destruct e as [f rq cw dw jw evw bw sg| |f rq cw dw jw evw bw sg k].
    - destruct Hr as [(b & Eb & Ei)|Hr]; [|apply IH, Hr].
      apply cheld_all_mono. cbn [cheld1]. unfold held_rq. rewrite Eb, Ei, N.eqb_refl. reflexivity.
    - apply IH, Hr.
    - destruct Hr as [(Ck & b & Eb & Ei)|Hr]; [|apply IH, Hr].
      apply cheld_all_mono. cbn [cheld1]. rewrite Ck. unfold held_rq. rewrite Eb, Ei, N.eqb_refl. reflexivity.
  Qed.

  (* one event *)
  Lemma crash_event_step c d j ev H e :
    RCInv cr bs c d H -> cpre c d e ->
    exists c' w', cexec c (mkWorld d j ev) e = Some (c', w') /\ RCInv cr bs c' (w_disk w') (cheld1 H e) /\
                  c_keypair c' = c_keypair c /\ t_length (c_tree c') = clen1 (t_length (c_tree c)) e /\
                  t_length (c_tree c) <= t_length (c_tree c').
  Proof.
    intros RC Hpre. destruct e as [f rq cw dw jw evw bw sg| |f rq cw dw jw evw bw sg k]; cbn [cexec cpre cheld1 clen1] in *.
    - destruct (honest_event_step cr Hcrc Hhash32 Hnonblank Hhashbytes bs Hw c d j ev H _ RC Hpre)
        as (c' & w' & Hex & RC' & Hk & Hl & Hm).
      exists c', w'. split; [exact Hex|]. split; [exact RC'|]. split; [exact Hk|]. split; [exact Hl|exact Hm].
    - destruct (honest_event_step cr Hcrc Hhash32 Hnonblank Hhashbytes bs Hw c d j ev H EReopen RC I)
        as (c' & w' & Hex & RC' & Hk & Hl & Hm).
      exists c', w'. split; [exact Hex|]. split; [exact RC'|]. split; [exact Hk|]. split; [exact Hl|exact Hm].
    - destruct Hpre as (Hwa & Hrw & Hwf & Hfr). cbv zeta in *.
      destruct (honest_round_crash_recovers cr Hcrc Hhash32 Hnonblank Hhashbytes bs Hw f cw dw bw sg jw evw c d j ev H rq
                  Hwa RC Hrw Hwf Hfr) as (pf & c' & w' & ops & Hcreate & Happ & Hj & _ & _ & _ & Hcuts).
      rewrite Hcreate, Happ. cbn [w_journal w_disk w_events]. rewrite Hj, journal_delta_spec.
      destruct (Hcuts k) as (dk & Ak & c'' & d'' & rops & Eo & Kk & Hcase). rewrite Ak, Eo.
      exists c'', (mkWorld d'' (rev rops ++ rev (firstn k ops) ++ j) ev). split; [reflexivity|]. cbn [w_disk].
      unfold committed. destruct (k <=? rq_commit_point rq)%nat; cbn [negb].
      + destruct Hcase as (RC'' & _ & L''). split; [exact RC''|]. split; [exact Kk|]. split; [exact L''|lia].
      + destruct Hcase as (RC'' & _ & L''). split; [exact RC''|]. split; [exact Kk|]. split; [exact L''|].
        rewrite L''. destruct (rq_upgrade rq); lia.
  Qed.

  (* GOAL 2b *)
  Theorem honest_crash_histories es : forall c d j ev H,
    RCInv cr bs c d H -> chist es c (mkWorld d j ev) ->
    exists c' w',
      crun es c (mkWorld d j ev) = Some (c', w') /\
      RCInv cr bs c' (w_disk w') (cheld_all H es) /\
      c_keypair c' = c_keypair c /\
      (* the length: the writer's signed length of the last committed request with an upgrade *)
      t_length (c_tree c') = clen_all (t_length (c_tree c)) es /\
      t_byte_length (c_tree c') = prefix_size bs (t_length (c_tree c')) /\
      t_length (c_tree c) <= t_length (c_tree c') /\
      (* every committed block -- in particular every block of an acknowledged application -- stays held *)
      (forall i, ccommitted es i -> core_has c' i = true) /\
      (forall i, H i = true -> core_has c' i = true) /\
      (* exactly the blocks of the spec are held, and they read byte-identical to the writer's blocks *)
      (forall i, core_has c' i = cheld_all H es i) /\
      (forall i j2 ev2, core_has c' i = true ->
         core_get i c' (mkWorld (w_disk w') j2 ev2) = (c', mkWorld (w_disk w') j2 ev2, Ok (Some (blk bs i)))).
  Proof.
    induction es as [|e es IH]; intros c d j ev H RC Hh.
    - exists c, (mkWorld d j ev). cbn [crun cheld_all clen_all fold_left w_disk].
      split; [reflexivity|]. split; [exact RC|]. split; [reflexivity|]. split; [reflexivity|].
      destruct RC as [X _]. split; [apply (RDInv_RInv cr bs c d H X)|]. split; [lia|].
      split; [intros i []|]. split; [|split].
      + intros i Hi. rewrite (RD_has cr bs c d H i X). exact Hi.
      + intros i. apply (RD_has cr bs c d H i X).
      + intros i j2 ev2 Hi. rewrite (RD_has cr bs c d H i X) in Hi.
        rewrite (RD_get cr bs Hw c d H j2 ev2 i X), Hi. reflexivity.
    - cbn [chist] in Hh. destruct Hh as [Hpre Hrest]. cbn [w_disk] in Hpre.
      destruct (crash_event_step c d j ev H e RC Hpre) as (c1 & w1 & Hex & RC1 & Hk1 & Hl1 & Hm1).
      destruct w1 as [d1 j1 ev1]. cbn [w_disk] in RC1.
      destruct (IH c1 d1 j1 ev1 (cheld1 H e) RC1 (Hrest _ _ Hex))
        as (c' & w' & Hrun & RC' & Hk & Hl & Hb & Hm & Hreq & Hmono & Hexact & Hget).
      exists c', w'. cbn [crun]. rewrite Hex. split; [exact Hrun|]. cbn [cheld_all clen_all fold_left].
      split; [exact RC'|]. split; [congruence|]. split; [rewrite Hl, Hl1; reflexivity|]. split; [exact Hb|].
      split; [lia|]. split; [|split; [|split; [exact Hexact|exact Hget]]].
      + intros i Hr. destruct RC' as [X' _]. rewrite (RD_has cr bs c' (w_disk w') _ i X').
        apply (cheld_committed (e :: es) H i Hr).
      + intros i Hi. apply Hmono. apply cheld1_mono, Hi.
  Qed.

  (* a replica created from the public key alone, then any well-formed history with crashes *)
  Theorem honest_fresh_crash_histories kp es :
    keypair_ok kp = true -> kp_secret kp = None ->
    exists d0 ops0 c0,
      core_open cr (Some kp) false disk_empty = (d0, ops0, Ok c0) /\
      (chist es c0 (mkWorld d0 [] []) ->
       exists c' w',
         crun es c0 (mkWorld d0 [] []) = Some (c', w') /\
         RCInv cr bs c' (w_disk w') (cheld_all (fun _ => false) es) /\
         t_length (c_tree c') = clen_all 0 es /\
         (forall i, ccommitted es i -> core_has c' i = true) /\
         (forall i, core_has c' i = cheld_all (fun _ => false) es i) /\
         (forall i j2 ev2, core_has c' i = true ->
            core_get i c' (mkWorld (w_disk w') j2 ev2) = (c', mkWorld (w_disk w') j2 ev2, Ok (Some (blk bs i))))).
  Proof.
    intros Hk Hs.
    destruct (RDInv_fresh cr Hcrc Hhash32 Hnonblank bs kp Hk Hs) as (d0 & ops0 & c0 & Hopen & X & K & L0).
    exists d0, ops0, c0. split; [exact Hopen|]. intros Hh.
    destruct (honest_crash_histories es c0 d0 [] [] (fun _ => false)
                (RCInv_length0 cr bs c0 d0 _ X L0) Hh)
      as (c' & w' & Hrun & RC' & _ & Hl & _ & _ & Hreq & _ & Hexact & Hget).
    exists c', w'. rewrite L0 in Hl. auto 7.
  Qed.
End CrashHistories.

Print Assumptions reopen_RCDisk.
Print Assumptions honest_apply_crash_recovers.
Print Assumptions honest_round_crash_recovers.
Print Assumptions honest_crash_histories.
Print Assumptions honest_fresh_crash_histories.

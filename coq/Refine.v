(* Refine.v — C01, first half: the model refines the list-of-blocks specification.
   An invariant WInv (core, disk, list of all blocks appended so far) is preserved by core_append
   for every flush decision, and implies the results of core_get / core_has / core_info. *)
From HC Require Import Base NMap Codec CodecFacts Crypto FlatTree Storage Bitfield Oplog Merkle Core.
From HC Require Import FlatTreeFacts StorageFacts BitfieldFacts OplogFacts TreeRef OffsetFacts CoreFacts Crash.
From Coq Require Import FMapPositive ZifyN ZifyNat ZifyBool.
Ltac Zify.zify_post_hook ::= Z.div_mod_to_equations.
Arguments N.add : simpl never.
Arguments N.sub : simpl never.
Arguments N.mul : simpl never.
Arguments N.div : simpl never.
Arguments N.modulo : simpl never.
Arguments N.pow : simpl never.
Arguments N.eqb : simpl never.
Arguments N.ltb : simpl never.
Arguments N.leb : simpl never.
Arguments N.of_nat : simpl never.
Arguments N.to_nat : simpl never.

(* ====================================================================================== *)
(* A. The reference tree only depends on the blocks below a node                           *)
(* ====================================================================================== *)

Lemma p2_ge1 d : 1 <= p2 d.
Proof. pose proof (p2_pos d). lia. Qed.

Lemma p2_S_ge2 d : 2 <= p2 (S d).
Proof. rewrite p2_S. pose proof (p2_pos d). lia. Qed.

Lemma blk_app_l (bs batch : list bytes) (o : N) :
  o < N.of_nat (length bs) -> blk (bs ++ batch) o = blk bs o.
Proof. intros H. unfold blk. apply app_nth1. lia. Qed.

Lemma ref_node_ext (cr : crypto) (b1 b2 : list bytes) (d : nat) :
  forall o, (forall i, o * p2 d <= i -> i < (o + 1) * p2 d -> blk b1 i = blk b2 i) ->
            ref_node cr b1 d o = ref_node cr b2 d o.
Proof.
  induction d as [|d IH]; intros o H; cbn [ref_node].
  - rewrite (H o); [reflexivity| |]; rewrite p2_0; lia.
  - rewrite p2_S in H. set (P := p2 d) in *.
    rewrite (IH (2 * o)), (IH (2 * o + 1)); [reflexivity| |]; intros i H1 H2; apply H; fold P in H1, H2; lia.
Qed.

Lemma ref_node_app (cr : crypto) (bs batch : list bytes) (d : nat) (o : N) :
  (o + 1) * p2 d <= N.of_nat (length bs) ->
  ref_node cr (bs ++ batch) d o = ref_node cr bs d o.
Proof. intros H. apply ref_node_ext. intros i H1 H2. apply blk_app_l. lia. Qed.

Lemma ref_node_hash_length (cr : crypto) (bs : list bytes) :
  (forall x, length (cr_hash cr x) = 32%nat) ->
  forall d o, length (n_hash (ref_node cr bs d o)) = 32%nat.
Proof.
  intros H d o. destruct d; cbn [ref_node]; unfold block_node, parent_node, leaf_hash, parent_hash;
    cbn [n_hash]; apply H.
Qed.

Lemma ref_node_nonblank (cr : crypto) (bs : list bytes) :
  (forall x, all_zero (cr_hash cr x) = false) ->
  forall d o, node_blank (ref_node cr bs d o) = false.
Proof.
  intros H d o. unfold node_blank.
  destruct d; cbn [ref_node]; unfold block_node, parent_node, leaf_hash, parent_hash;
    cbn [n_hash]; apply H.
Qed.

(* ====================================================================================== *)
(* B. The roots tile [0, n)                                                                *)
(* ====================================================================================== *)

(* consecutive leaf ranges [o 2^d, (o+1) 2^d) from a to b *)
Fixpoint tiles (l : list (nat * N)) (a b : N) : Prop :=
  match l with
  | [] => a = b
  | x :: r => a = snd x * p2 (fst x) /\ tiles r ((snd x + 1) * p2 (fst x)) b
  end.

Lemma tiles_app l1 : forall l2 a b c, tiles l1 a b -> tiles l2 b c -> tiles (l1 ++ l2) a c.
Proof.
  induction l1 as [|x l1 IH]; intros l2 a b c H1 H2; cbn [tiles app] in *.
  - subst. exact H2.
  - destruct H1 as [E H1]. split; [exact E|]. eapply IH; eassumption.
Qed.

Lemma tiles_rrl (m : N) : forall d, tiles (rev (rrl d m)) 0 (m * p2 d).
Proof.
  induction m as [|n IH|n IH] using N_bin_ind; intros d.
  - cbn [rrl rev tiles]. lia.
  - rewrite rrl_even. specialize (IH (S d)). rewrite p2_S in IH.
    replace (2 * n * p2 d) with (n * (2 * p2 d)) by lia. exact IH.
  - rewrite rrl_odd. cbn [rev]. eapply tiles_app; [apply IH|].
    cbn [tiles fst snd]. rewrite p2_S. split; lia.
Qed.

Lemma tiles_le l : forall a b, tiles l a b -> a <= b.
Proof.
  induction l as [|x l IH]; intros a b H; cbn [tiles] in H.
  - lia.
  - destruct H as [E H]. apply IH in H. pose proof (p2_pos (fst x)). lia.
Qed.

Lemma tiles_in l : forall a b x, tiles l a b -> In x l ->
  a <= snd x * p2 (fst x) /\ (snd x + 1) * p2 (fst x) <= b.
Proof.
  induction l as [|y l IH]; intros a b x H Hin; [destruct Hin|].
  cbn [tiles] in H. destruct H as [E H]. pose proof (p2_pos (fst y)).
  destruct Hin as [<-|Hin].
  - apply tiles_le in H. lia.
  - destruct (IH _ _ _ H Hin). lia.
Qed.

Lemma tiles_split l : forall a b i, tiles l a b -> a <= i -> i < b ->
  exists pre x post, l = pre ++ x :: post /\ tiles pre a (snd x * p2 (fst x)) /\
                     snd x * p2 (fst x) <= i /\ i < (snd x + 1) * p2 (fst x) /\
                     (snd x + 1) * p2 (fst x) <= b.
Proof.
  induction l as [|y l IH]; intros a b i H Ha Hb; cbn [tiles] in H; [lia|].
  destruct H as [E H].
  destruct (N.lt_ge_cases i ((snd y + 1) * p2 (fst y))) as [L|L].
  - exists [], y, l. cbn [app tiles]. apply tiles_le in H. repeat split; try lia.
  - destruct (IH _ _ i H L Hb) as (pre & x & post & -> & T & H1 & H2 & H3).
    exists (y :: pre), x, post. cbn [app tiles]. repeat split; try assumption.
Qed.

Lemma ref_roots_app (cr : crypto) (bs batch : list bytes) (n : N) :
  n <= N.of_nat (length bs) -> ref_roots cr (bs ++ batch) n = ref_roots cr bs n.
Proof.
  intros H. rewrite !ref_roots_rrl. apply map_ext_in. intros x Hx. unfold rn.
  pose proof (tiles_rrl n 0) as T. rewrite p2_0, N.mul_1_r in T.
  destruct (tiles_in _ _ _ x T Hx) as [_ H2]. apply ref_node_app. lia.
Qed.

(* ====================================================================================== *)
(* C. The changeset of an append contains every new full node                              *)
(* ====================================================================================== *)

Section Complete.
  Variable cr : crypto.
  Variable blocks : list bytes.

  Lemma merge_complete (m : N) :
    forall (d fuel : nat) (nodes rr nr : list node) (it' : fiter),
      (length (rrl d m) < fuel)%nat ->
      merge_roots cr fuel (ref_node cr blocks d m :: map (rn cr blocks) (rrl d m)) nodes
                  (it_at (N.of_nat d) m) = Ok (rr, nr, it') ->
      incl nodes nr /\
      forall j q, (1 <= j)%nat -> (q + 1) * p2 j = m + 1 -> In (ref_node cr blocks (d + j) q) nr.
  Proof.
    induction m as [|n IH|n IH] using N_bin_ind; intros d fuel nodes rr nr it' Hfuel H.
    - destruct fuel as [|f]; [lia|]. cbn [rrl map] in H.
      rewrite merge_stop in H by exact I. injection H as <- <- <-.
      split; [apply incl_refl|]. intros j q Hj E. destruct j as [|j]; [lia|].
      pose proof (p2_S_ge2 j). nia.
    - destruct fuel as [|f]; [lia|].
      rewrite merge_stop in H.
      + injection H as <- <- <-. split; [apply incl_refl|]. intros j q Hj E.
        destruct j as [|j]; [lia|]. rewrite p2_S in E. lia.
      + destruct (rrl d (2 * n)) as [|b rest] eqn:Eb; [exact I|]. cbn [map].
        assert (Hb : (S d <= fst b)%nat).
        { apply (rrl_depth (S d) n). rewrite <- rrl_even, Eb. left. reflexivity. }
        rewrite it_sibling_at_even by (rewrite even_mod; lia).
        unfold rn. rewrite ref_node_index. cbn [it_at it_index].
        intros Heq. apply ft_index_inj in Heq. lia.
    - destruct fuel as [|f]; [lia|].
      rewrite rrl_odd in *. cbn [map length] in *. unfold rn at 1 in H. cbn [fst snd] in H.
      assert (Hsib : it_sibling (it_at (N.of_nat d) (2 * n + 1)) = it_at (N.of_nat d) (2 * n)).
      { rewrite it_sibling_at_odd by (rewrite odd_mod; lia). f_equal. lia. }
      assert (Hidx : it_index (it_sibling (it_at (N.of_nat d) (2 * n + 1))) =
                     n_index (ref_node cr blocks d (2 * n))).
      { rewrite Hsib, ref_node_index. reflexivity. }
      destruct (fits_u64 (n_length (ref_node cr blocks d (2 * n + 1)) +
                          n_length (ref_node cr blocks d (2 * n)))) eqn:F.
      + rewrite merge_step in H by assumption.
        rewrite Hsib, it_parent_at in H. replace (2 * n / 2) with n in H by lia.
        assert (Hnode : mkNode (it_index (it_at (N.of_nat d + 1) n))
                          (n_length (ref_node cr blocks d (2 * n + 1)) + n_length (ref_node cr blocks d (2 * n)))
                          (parent_hash cr (ref_node cr blocks d (2 * n + 1)) (ref_node cr blocks d (2 * n)))
                        = ref_node cr blocks (S d) n).
        { cbn [ref_node]. unfold parent_node. cbn [it_at it_index].
          rewrite Nat2N.inj_succ, <- N.add_1_r. f_equal; [lia|].
          apply parent_hash_comm. rewrite !ref_node_index.
          pose proof (ft_index_lt_offset (N.of_nat d) (2 * n) (2 * n + 1)). lia. }
        rewrite Hnode in H.
        replace (N.of_nat d + 1) with (N.of_nat (S d)) in H by (rewrite Nat2N.inj_succ; lia).
        destruct (IH (S d) f _ _ _ _ ltac:(lia) H) as [Hincl Hall].
        split.
        * intros x Hx. apply Hincl. right. exact Hx.
        * intros j q Hj E. destruct j as [|j]; [lia|]. rewrite p2_S in E.
          destruct j as [|j].
          -- rewrite p2_0 in E. assert (q = n) as -> by lia.
             replace (d + 1)%nat with (S d) by lia. apply Hincl. left. reflexivity.
          -- replace (d + S (S j))%nat with (S d + S j)%nat by lia. apply Hall; [lia|]. lia.
      + destruct (merge_panic cr f _ _ (map (rn cr blocks) (rrl (S d) n)) nodes _ Hidx F) as [s Hs].
        rewrite Hs in H. discriminate H.
  Qed.

  Lemma cs_append_complete (c c' : changeset) (k : N) :
    cs_roots c = ref_roots cr blocks (cs_length c) ->
    cs_length c = k ->
    cs_append cr c (blk blocks k) = Ok c' ->
    incl (cs_nodes c) (cs_nodes c') /\
    cs_orig_length c' = cs_orig_length c /\ cs_orig_fork c' = cs_orig_fork c /\
    forall j q, (q + 1) * p2 j = k + 1 -> In (ref_node cr blocks j q) (cs_nodes c').
  Proof.
    intros Hroots Hk H. unfold cs_append in H.
    apply bind_ok in H as ([c1 it1] & H1 & H). injection H as <-.
    unfold append_root in H1.
    apply bind_ok in H1 as (bl & Hbl & H1).
    apply bind_ok in H1 as ([[rr nr] it'] & Hm & H1). injection H1 as <- <-.
    cbn [cs_orig_length cs_orig_fork].
    rewrite Hroots, Hk in Hm.
    rewrite leaf_is_ref_node, it_new_leaf, rev_ref_roots, length_ref_roots in Hm.
    destruct (merge_complete k 0 _ _ _ _ _ (Nat.lt_succ_diag_r _) Hm) as [Hincl Hall].
    split.
    { intros x Hx. apply in_cs_nodes. cbn [cs_rnodes]. apply Hincl. right. apply in_cs_nodes, Hx. }
    split; [reflexivity|]. split; [reflexivity|].
    intros j q E. apply in_cs_nodes. cbn [cs_rnodes]. destruct j as [|j].
    - rewrite p2_0 in E. assert (q = k) as -> by lia. apply Hincl. left. reflexivity.
    - apply (Hall (S j) q); [lia|exact E].
  Qed.

  Lemma cs_append_all_complete (batch : list bytes) :
    forall (c c' : changeset) (k : N),
      cs_roots c = ref_roots cr blocks k ->
      cs_length c = k ->
      (forall j, (j < length batch)%nat -> nth j batch [] = blk blocks (k + N.of_nat j)) ->
      cs_append_all cr c batch = Ok c' ->
      incl (cs_nodes c) (cs_nodes c') /\
      cs_orig_length c' = cs_orig_length c /\ cs_orig_fork c' = cs_orig_fork c /\
      forall j q, k < (q + 1) * p2 j -> (q + 1) * p2 j <= k + N.of_nat (length batch) ->
                  In (ref_node cr blocks j q) (cs_nodes c').
  Proof.
    induction batch as [|d r IH]; intros c c' k Hroots Hk Hb H.
    - cbn [cs_append_all] in H. injection H as <-. cbn [length].
      split; [apply incl_refl|]. split; [reflexivity|]. split; [reflexivity|]. intros j q H1 H2. lia.
    - cbn [cs_append_all] in H. apply bind_ok in H as (c1 & H1 & H).
      assert (Hd : d = blk blocks k).
      { specialize (Hb 0%nat). cbn [nth length] in Hb. replace (k + N.of_nat 0) with k in Hb by lia.
        apply Hb. lia. }
      subst d. rewrite <- Hk in Hroots.
      destruct (cs_append_ref cr blocks c c1 k Hroots Hk H1) as (R1 & L1 & _).
      destruct (cs_append_complete c c1 k Hroots Hk H1) as (I1 & OL1 & OF1 & A1).
      assert (Hb' : forall j, (j < length r)%nat -> nth j r [] = blk blocks (k + 1 + N.of_nat j)).
      { intros j Hj. specialize (Hb (S j)). cbn [nth length] in Hb.
        replace (k + 1 + N.of_nat j) with (k + N.of_nat (S j)) by lia. apply Hb. lia. }
      destruct (IH c1 c' (k + 1) R1 L1 Hb' H) as (I2 & OL2 & OF2 & A2).
      split; [intros x Hx; apply I2, I1, Hx|]. split; [congruence|]. split; [congruence|].
      intros j q H2 H3. cbn [length] in H3.
      destruct (N.eq_dec ((q + 1) * p2 j) (k + 1)) as [E|E].
      + apply I2, A1, E.
      + apply A2; lia.
  Qed.
End Complete.

(* ====================================================================================== *)
(* D. Node lookups: unflushed nodes, commit, flush                                         *)
(* ====================================================================================== *)

(* every unflushed node is stored under its own index and can be written as a 40-byte record *)
Definition unflushed_ok (t : mtree) : Prop :=
  forall i n, nm_get i (t_unflushed t) = Some n ->
    n_index n = i /\ length (n_hash n) = 32%nat /\ n_length n <= u64_max.

Lemma add_nodes_get (l : list node) : forall m i,
  (exists n, In n l /\ n_index n = i /\ nm_get i (add_nodes m l) = Some n) \/
  ((forall x, In x l -> n_index x <> i) /\ nm_get i (add_nodes m l) = nm_get i m).
Proof.
  induction l as [|x l IH]; intros m i.
  - right. split; [intros x []|reflexivity].
  - unfold add_nodes. cbn [fold_left]. fold (add_nodes (nm_set (n_index x) x m) l).
    destruct (IH (nm_set (n_index x) x m) i) as [(n & Hin & Hi & Hg)|[Hno Hg]].
    + left. exists n. repeat split; [right; exact Hin|exact Hi|exact Hg].
    + rewrite nm_get_set in Hg. destruct (N.eqb_spec i (n_index x)) as [E|E].
      * left. exists x. repeat split; [left; reflexivity|symmetry; exact E|exact Hg].
      * right. split; [|exact Hg]. intros y [<-|Hy]; [congruence|apply Hno, Hy].
Qed.

Lemma node_get_unflushed_eq t t' tf i am :
  nm_get i (t_unflushed t') = nm_get i (t_unflushed t) -> node_get t' tf i am = node_get t tf i am.
Proof. intros H. unfold node_get. rewrite H. reflexivity. Qed.

Lemma required_node_unflushed t tf i n :
  nm_get i (t_unflushed t) = Some n -> node_blank n = false -> required_node t tf i = Ok n.
Proof. intros H Hb. unfold required_node, node_get. rewrite H, Hb. reflexivity. Qed.

Section TreeLookups.
  Variable cr : crypto.
  Hypothesis Hhash32 : forall x, length (cr_hash cr x) = 32%nat.
  Hypothesis Hnonblank : forall x, all_zero (cr_hash cr x) = false.

  Lemma ref_at_nonblank bs i : node_blank (ref_at cr bs i) = false.
  Proof. unfold ref_at. apply ref_node_nonblank, Hnonblank. Qed.

  Lemma ref_at_hash_length bs i : length (n_hash (ref_at cr bs i)) = 32%nat.
  Proof. unfold ref_at. apply ref_node_hash_length, Hhash32. Qed.

  (* lookups in a tree whose unflushed map received reference nodes *)
  Lemma required_node_add (B : list bytes) (t t' : mtree) (tf : file) (l : list node) (i : N) :
    (forall n, In n l -> n = ref_at cr B (n_index n)) ->
    t_unflushed t' = add_nodes (t_unflushed t) l ->
    ((exists x, In x l /\ n_index x = i) /\ required_node t' tf i = Ok (ref_at cr B i)) \/
    ((forall x, In x l -> n_index x <> i) /\ required_node t' tf i = required_node t tf i).
  Proof.
    intros Hl Hu. destruct (add_nodes_get l (t_unflushed t) i) as [(n & Hin & Hi & Hg)|[Hno Hg]].
    - left. split; [exists n; split; assumption|].
      rewrite <- Hu in Hg. pose proof (Hl n Hin) as E. rewrite Hi in E. subst n.
      apply required_node_unflushed; [exact Hg|apply ref_at_nonblank].
    - right. split; [exact Hno|]. unfold required_node. f_equal.
      apply node_get_unflushed_eq. rewrite Hu. exact Hg.
  Qed.

  (* the full nodes of the tree over the first n blocks of bs are found, with the reference value *)
  Definition lookups (t : mtree) (tf : file) (bs : list bytes) (n : N) : Prop :=
    forall d o, (o + 1) * p2 d <= n ->
      required_node t tf (ft_index (N.of_nat d) o) = Ok (ref_node cr bs d o).

  Lemma commit_lookups (bs batch : list bytes) (t t' : mtree) (tf : file) (l : list node) :
    let B := bs ++ batch in
    let n := N.of_nat (length bs) in
    let n' := N.of_nat (length B) in
    (forall x, In x l -> x = ref_at cr B (n_index x)) ->
    (forall j q, n < (q + 1) * p2 j -> (q + 1) * p2 j <= n' -> In (ref_node cr B j q) l) ->
    t_unflushed t' = add_nodes (t_unflushed t) l ->
    lookups t tf bs n -> lookups t' tf B n'.
  Proof.
    intros B n n' Hsound Hcomplete Hu Hold d o Hfull.
    destruct (required_node_add B t t' tf l (ft_index (N.of_nat d) o) Hsound Hu) as [[_ H]|[Hno H]].
    - rewrite H, ref_at_index. reflexivity.
    - destruct (N.le_gt_cases ((o + 1) * p2 d) n) as [Le|Gt].
      + rewrite H, (Hold d o Le). f_equal. symmetry. apply ref_node_app. exact Le.
      + exfalso. apply (Hno (ref_node cr B d o)); [apply Hcomplete; assumption|apply ref_node_index].
  Qed.

  Lemma commit_unflushed_ok (B : list bytes) (t t' : mtree) (l : list node) :
    sumN (map len B) <= u64_max ->
    (forall x, In x l -> x = ref_at cr B (n_index x)) ->
    t_unflushed t' = add_nodes (t_unflushed t) l ->
    unflushed_ok t -> unflushed_ok t'.
  Proof.
    intros Hfit Hsound Hu Hok i n Hg. rewrite Hu in Hg.
    destruct (add_nodes_get l (t_unflushed t) i) as [(x & Hin & Hi & Hg')|[_ Hg']]; rewrite Hg' in Hg.
    - injection Hg as <-. split; [exact Hi|]. rewrite (Hsound x Hin). split; [apply ref_at_hash_length|].
      unfold ref_at. pose proof (ref_node_fits cr B Hfit (N.to_nat (ft_depth (n_index x))) (ft_offset (n_index x))) as F.
      unfold fits_u64 in F. lia.
    - apply Hok, Hg.
  Qed.

  (* ---------- flush ---------- *)

  Lemma succ_pos_pred_N (p : positive) : N.succ_pos (Pos.pred_N p) = p.
  Proof. destruct p; cbn; try reflexivity. apply Pos.succ_pred_double. Qed.

  Lemma nm_elements_in {A} (m : nmap A) k v : In (k, v) (nm_elements m) <-> nm_get k m = Some v.
  Proof.
    unfold nm_elements, nm_get. split.
    - intros H. apply in_map_iff in H as ([p v'] & E & H). cbn [fst snd] in E. injection E as <- <-.
      apply PositiveMap.elements_complete in H. rewrite succ_pos_pred_N. exact H.
    - intros H. apply PositiveMap.elements_correct in H. apply in_map_iff.
      exists (N.succ_pos k, v). cbn [fst snd]. rewrite N.pos_pred_succ. split; [reflexivity|exact H].
  Qed.

  Definition node_write (v : node) : sop := SW Tree (NODE_SIZE * n_index v) (node_to_bytes v).
  Definition write_nodes (f : file) (ws : list node) : file :=
    fold_left (fun f v => f_write f (NODE_SIZE * n_index v) (node_to_bytes v)) ws f.

  Lemma apply_node_writes (ws : list node) : forall d,
    apply_sops d (map node_write ws) = Some (d_set d Tree (write_nodes (d_tree d) ws)).
  Proof.
    induction ws as [|v ws IH]; intros d.
    - destruct d; reflexivity.
    - cbn [map apply_sops]. unfold node_write at 1. cbn [apply_sop]. rewrite IH.
      destruct d; reflexivity.
  Qed.

  Lemma len_node_to_bytes v : length (n_hash v) = 32%nat -> len (node_to_bytes v) = NODE_SIZE.
  Proof.
    intros H. unfold len. rewrite node_to_bytes_length; [reflexivity|]. rewrite H. reflexivity.
  Qed.

  Lemma write_nodes_read (ws : list node) : forall f k,
    (forall v, In v ws -> length (n_hash v) = 32%nat) ->
    (exists v, In v ws /\ n_index v = k /\
               f_read (write_nodes f ws) (NODE_SIZE * k) NODE_SIZE = Some (node_to_bytes v)) \/
    ((forall v, In v ws -> n_index v <> k) /\
     (NODE_SIZE * k + NODE_SIZE <= f_len f ->
      f_read (write_nodes f ws) (NODE_SIZE * k) NODE_SIZE = f_read f (NODE_SIZE * k) NODE_SIZE)).
  Proof.
    induction ws as [|v0 ws IH]; intros f k H32.
    - right. split; [intros v []|reflexivity].
    - unfold write_nodes. cbn [fold_left].
      set (f1 := f_write f (NODE_SIZE * n_index v0) (node_to_bytes v0)).
      fold (write_nodes f1 ws).
      assert (L0 : len (node_to_bytes v0) = NODE_SIZE) by (apply len_node_to_bytes, H32; left; reflexivity).
      assert (Hlen : f_len f1 = N.max (f_len f) (NODE_SIZE * n_index v0 + NODE_SIZE)).
      { unfold f1. rewrite f_write_len, L0. reflexivity. }
      destruct (IH f1 k ltac:(intros v Hv; apply H32; right; exact Hv)) as [(v & Hin & Hk & Hr)|[Hno Hr]].
      + left. exists v. repeat split; [right; exact Hin|exact Hk|exact Hr].
      + destruct (N.eq_dec (n_index v0) k) as [E|E].
        * left. exists v0. split; [left; reflexivity|]. split; [exact E|].
          rewrite Hr by (rewrite Hlen, E; lia).
          unfold f1. rewrite <- E, <- L0. apply f_read_write_same.
        * right. split; [intros v [<-|Hv]; [exact E|apply Hno, Hv]|].
          intros Hb. rewrite Hr by (rewrite Hlen; lia).
          unfold f1. apply f_read_write_other; [exact Hb|]. rewrite L0. unfold NODE_SIZE. lia.
  Qed.

  Lemma tree_flush_ok (t : mtree) :
    unflushed_ok t ->
    tree_flush t = Ok (mkTree (t_roots t) (t_length t) (t_byte_length t) (t_fork t) (t_signature t) nm_empty,
                       map node_write (map snd (nm_elements (t_unflushed t)))).
  Proof.
    intros Hok. unfold tree_flush.
    assert (forallb (fun kv : N * node => Nat.eqb (length (n_hash (snd kv))) 32)
                    (nm_elements (t_unflushed t)) = true) as ->.
    { apply forallb_forall. intros [k v] Hin. apply nm_elements_in in Hin.
      destruct (Hok k v Hin) as (_ & H & _). cbn [snd]. rewrite H. reflexivity. }
    rewrite map_map. reflexivity.
  Qed.

  Theorem tree_flush_preserves_lookups (t t' : mtree) (ops : list sop) (d d' : disk) (i : N) (n : node) :
    tree_flush t = Ok (t', ops) -> apply_sops d ops = Some d' -> unflushed_ok t ->
    NODE_SIZE * i <= u64_max ->
    required_node t (d_tree d) i = Ok n -> required_node t' (d_tree d') i = Ok n.
  Proof.
    intros Hf Ha Hok Hfit Hreq. rewrite (tree_flush_ok t Hok) in Hf. injection Hf as <- <-.
    rewrite apply_node_writes in Ha. injection Ha as <-.
    set (ws := map snd (nm_elements (t_unflushed t))) in *.
    assert (Hws : forall v, In v ws -> nm_get (n_index v) (t_unflushed t) = Some v).
    { intros v Hv. apply in_map_iff in Hv as ([k v'] & E & Hv). cbn [snd] in E. subst v'.
      apply nm_elements_in in Hv. destruct (Hok k v Hv) as (-> & _). exact Hv. }
    assert (H32 : forall v, In v ws -> length (n_hash v) = 32%nat).
    { intros v Hv. apply Hws in Hv. apply Hok in Hv. tauto. }
    cbn [d_set d_tree].
    unfold required_node, node_get in *. cbn [t_unflushed]. rewrite nm_get_empty.
    unfold mul64. assert (fits_u64 (NODE_SIZE * i) = true) as -> by (unfold fits_u64; lia). cbn [bind].
    destruct (nm_get i (t_unflushed t)) as [n0|] eqn:G.
    - destruct (node_blank n0) eqn:Bl; [discriminate Hreq|]. cbn [bind] in Hreq. injection Hreq as <-.
      destruct (Hok i n0 G) as (Hi & Hh & Hl).
      destruct (write_nodes_read ws (d_tree d) i H32) as [(v & Hin & Hk & Hr)|[Hno _]].
      + apply Hws in Hin. rewrite Hk, G in Hin. injection Hin as <-. rewrite Hr.
        rewrite <- Hi. rewrite node_bytes_roundtrip; [|rewrite Hh; reflexivity|unfold u64_max in Hl; lia].
        rewrite Bl. reflexivity.
      + exfalso. apply (Hno n0); [|exact Hi].
        apply in_map_iff. exists (i, n0). split; [reflexivity|]. apply nm_elements_in, G.
    - unfold mul64 in Hreq. assert (fits_u64 (NODE_SIZE * i) = true) as E by (unfold fits_u64; lia).
      rewrite E in Hreq. cbn [bind] in Hreq.
      destruct (f_read (d_tree d) (NODE_SIZE * i) NODE_SIZE) as [data|] eqn:R; [|discriminate Hreq].
      destruct (write_nodes_read ws (d_tree d) i H32) as [(v & Hin & Hk & _)|[_ Hr]].
      + apply Hws in Hin. rewrite Hk, G in Hin. discriminate Hin.
      + rewrite Hr, R; [exact Hreq|].
        apply f_read_spec in R. tauto.
  Qed.

  Lemma tree_flush_other_stores (t t' : mtree) (ops : list sop) (d d' : disk) :
    tree_flush t = Ok (t', ops) -> apply_sops d ops = Some d' -> unflushed_ok t ->
    d_data d' = d_data d /\ d_bitfield d' = d_bitfield d /\ d_oplog d' = d_oplog d /\
    t_roots t' = t_roots t /\ t_length t' = t_length t /\ t_byte_length t' = t_byte_length t /\
    t_fork t' = t_fork t /\ unflushed_ok t'.
  Proof.
    intros Hf Ha Hok. rewrite (tree_flush_ok t Hok) in Hf. injection Hf as <- <-.
    rewrite apply_node_writes in Ha. injection Ha as <-.
    destruct d as [f1 f2 f3 f4]. cbn [d_set d_data d_bitfield d_oplog t_roots t_length t_byte_length t_fork].
    do 7 (split; [reflexivity|]).
    intros i n H. cbn [t_unflushed] in H. rewrite nm_get_empty in H. discriminate H.
  Qed.
End TreeLookups.

(* ====================================================================================== *)
(* E. The data store holds the concatenation of the blocks                                 *)
(* ====================================================================================== *)

Lemma len_app (a b : bytes) : len (a ++ b) = len a + len b.
Proof. unfold len. rewrite app_length. lia. Qed.

Lemma len_concat (l : list bytes) : len (concat l) = sumN (map len l).
Proof.
  induction l as [|x l IH]; [reflexivity|]. cbn [concat map sumN]. rewrite len_app, IH. reflexivity.
Qed.

Lemma f_len_content (f : file) : len (f_content f) = f_len f.
Proof. unfold f_content, len. rewrite map_length, nrange_length. lia. Qed.

Lemma f_read_content (f : file) (a b c : bytes) :
  f_content f = a ++ b ++ c -> f_read f (len a) (len b) = Some b.
Proof.
  intros H. pose proof (f_len_content f) as L. rewrite H, !len_app in L.
  apply f_read_spec. split; [lia|]. split; [unfold len; lia|].
  intros k Hk.
  assert (E : nth (N.to_nat (len a + k)) (f_content f) 0 = f_byte f (len a + k)).
  { unfold f_content. rewrite map_nrange_nth by lia. f_equal. lia. }
  rewrite <- E, H. unfold len in *.
  rewrite app_nth2 by lia. rewrite app_nth1 by lia. f_equal. lia.
Qed.

Lemma concat_split (bs : list bytes) : forall i, (i < length bs)%nat ->
  concat bs = concat (firstn i bs) ++ nth i bs [] ++ concat (skipn (S i) bs).
Proof.
  induction bs as [|x bs IH]; intros i Hi; cbn [length] in Hi; [lia|].
  destruct i as [|i].
  - reflexivity.
  - cbn [firstn nth skipn concat]. rewrite <- app_assoc. f_equal. apply IH. lia.
Qed.

Lemma prefix_size_concat (bs : list bytes) (i : nat) :
  prefix_size bs (N.of_nat i) = len (concat (firstn i bs)).
Proof. unfold prefix_size. rewrite Nat2N.id, len_concat. reflexivity. Qed.

Lemma prefix_size_all (bs : list bytes) : prefix_size bs (N.of_nat (length bs)) = sumN (map len bs).
Proof. unfold prefix_size. rewrite Nat2N.id, firstn_all. reflexivity. Qed.

Lemma prefix_size_0 (bs : list bytes) : prefix_size bs 0 = 0.
Proof. reflexivity. Qed.

Lemma data_read (f : file) (bs : list bytes) (i : nat) :
  f_content f = concat bs -> (i < length bs)%nat ->
  f_read f (prefix_size bs (N.of_nat i)) (len (nth i bs [])) = Some (nth i bs []).
Proof.
  intros H Hi. rewrite prefix_size_concat. apply (f_read_content f _ _ (concat (skipn (S i) bs))).
  rewrite H. apply concat_split, Hi.
Qed.

Lemma len_zero_nil (b : bytes) : len b = 0 -> b = [].
Proof. unfold len. intros H. apply length_zero_iff_nil. lia. Qed.

(* ====================================================================================== *)
(* F. Byte offsets in the reference tree                                                   *)
(* ====================================================================================== *)

Lemma p2_le_64 (d : nat) : p2 d <= 2 ^ 64 -> (d <= 64)%nat.
Proof.
  intros H. destruct (Nat.le_gt_cases d 64) as [L|L]; [exact L|exfalso].
  assert (2 ^ 65 <= p2 d).
  { unfold p2. apply N.pow_le_mono_r; [discriminate|lia]. }
  assert (2 ^ 64 < 2 ^ 65) by (apply N.pow_lt_mono_r; lia). lia.
Qed.

Section Offsets.
  Variable cr : crypto.
  Variable bs : list bytes.
  Variable t : mtree.
  Variable tf : file.
  Variable n : N.
  Hypothesis Hlook : lookups cr t tf bs n.

  Lemma skipped_tiles (pre : list (nat * N)) : forall a b index,
    tiles pre a b -> 2 * b <= index ->
    skipped (map (rn cr bs) pre) (2 * a) index /\ heads (map (rn cr bs) pre) (2 * a) = 2 * b.
  Proof.
    induction pre as [|x pre IH]; intros a b index T Hb; cbn [tiles map skipped heads] in *.
    - subst. split; [exact I|reflexivity].
    - destruct T as [E T]. destruct x as [d o]. cbn [fst snd] in *.
      assert (Hn : next_head (2 * a) (rn cr bs (d, o)) = 2 * ((o + 1) * p2 d)).
      { unfold next_head, rn. cbn [fst snd]. rewrite ref_node_index.
        pose proof (ft_index_succ (N.of_nat d) o) as S. fold (p2 d) in S. pose proof (p2_pos d). subst a. nia. }
      rewrite Hn. destruct (IH _ _ index T Hb) as [I1 I2].
      split; [|exact I2]. split.
      + unfold rn. cbn [fst snd]. rewrite ref_node_index.
        pose proof (ft_index_succ (N.of_nat d) o) as S. fold (p2 d) in S. pose proof (p2_pos d). subst a. nia.
      + split; [|exact I1]. apply tiles_le in T. lia.
  Qed.

  Lemma tiles_sizes (pre : list (nat * N)) : forall a b,
    tiles pre a b -> prefix_size bs a + sumN (map n_length (map (rn cr bs) pre)) = prefix_size bs b.
  Proof.
    induction pre as [|x pre IH]; intros a b T; cbn [tiles map sumN] in *.
    - subst. lia.
    - destruct T as [E T]. apply IH in T. unfold rn at 1. rewrite ref_node_length.
      pose proof (ref_size_prefix bs (fst x) (snd x)) as S. fold (p2 (fst x)) in S. subst a. lia.
  Qed.

  Lemma descend_ref (d : nat) : forall fuel o i off,
    (d < fuel)%nat -> o * p2 d <= i -> i < (o + 1) * p2 d -> (o + 1) * p2 d <= n ->
    exists r, offset_descend fuel t tf (it_at (N.of_nat d) o) (2 * i) off = Ok (off + r) /\
              prefix_size bs (o * p2 d) + r = prefix_size bs i.
  Proof.
    induction d as [|d IH]; intros fuel o i off Hfuel H1 H2 H3;
      (destruct fuel as [|fuel]; [lia|]); cbn [offset_descend].
    - rewrite p2_0 in *. assert (i = o) as -> by lia. exists 0.
      cbn [it_at it_index]. change (N.of_nat 0) with 0. rewrite ft_index_leaf, N.eqb_refl.
      split; [f_equal; lia|]. rewrite N.mul_1_r. lia.
    - rewrite p2_S in *. pose proof (p2_pos d) as Hp. set (P := p2 d) in *.
      replace (N.of_nat (S d)) with (N.of_nat d + 1) by lia.
      pose proof (ft_index_succ (N.of_nat d + 1) o) as S. rewrite pow2_succ in S. fold (p2 d) in S. fold P in S.
      cbn [it_at it_index]. fold (it_at (N.of_nat d + 1) o).
      destruct (N.eqb_spec (ft_index (N.of_nat d + 1) o) (2 * i)) as [E|E]; [nia|].
      rewrite it_left_child_at.
      destruct (N.ltb_spec (2 * i) (ft_index (N.of_nat d + 1) o)) as [L|L].
      + destruct (IH fuel (2 * o) i off) as (r & Hr & Hs); try lia; try nia.
        exists r. split; [exact Hr|]. replace (o * (2 * P)) with (2 * o * P) by lia. exact Hs.
      + change (it_index (it_at (N.of_nat d) (2 * o))) with (ft_index (N.of_nat d) (2 * o)).
        rewrite (Hlook d (2 * o)) by (fold P; nia). cbn [bind].
        rewrite it_sibling_at_even by (rewrite even_mod; lia).
        destruct (IH fuel (2 * o + 1) i (off + n_length (ref_node cr bs d (2 * o)))) as (r & Hr & Hs);
          try lia; try (fold P; nia).
        exists (n_length (ref_node cr bs d (2 * o)) + r). split; [rewrite Hr; f_equal; lia|].
        rewrite ref_node_length. pose proof (ref_size_prefix bs d (2 * o)) as Q. fold (p2 d) in Q. fold P in Q.
        fold P in Hs. replace (o * (2 * P)) with (2 * o * P) by lia. lia.
  Qed.

  Lemma byte_offset_ref (i : N) :
    t_roots t = ref_roots cr bs n -> n <= 2 ^ 63 -> i < n ->
    byte_offset_from_nodes t tf (2 * i) = Ok (prefix_size bs i).
  Proof.
    intros Hroots Hn Hi.
    rewrite byte_offset_from_nodes_even by (rewrite odd_mod; lia).
    rewrite Hroots, ref_roots_rrl.
    pose proof (tiles_rrl n 0) as T. rewrite p2_0, N.mul_1_r in T.
    destruct (tiles_split _ _ _ i T ltac:(lia) Hi) as (pre & [d o] & post & -> & Tp & H1 & H2 & H3).
    cbn [fst snd] in *. rewrite map_app. cbn [map].
    destruct (skipped_tiles pre 0 (o * p2 d) (2 * i) Tp ltac:(lia)) as [Sk Hd].
    replace (2 * 0) with 0 in Sk, Hd by lia.
    pose proof (ft_index_succ (N.of_nat d) o) as S. fold (p2 d) in S. pose proof (p2_pos d) as Hp.
    rewrite (offset_roots_skip t tf (fun _ => 0)); [|exact Sk| |].
    - unfold rn at 1. cbn [fst snd]. rewrite ref_node_index, it_new_index.
      assert (Hd64 : (d < CLIMB)%nat).
      { assert (p2 d <= 2 ^ 64) by (assert (2 ^ 63 < 2 ^ 64) by (apply N.pow_lt_mono_r; lia); nia).
        apply p2_le_64 in H. unfold CLIMB. lia. }
      destruct (descend_ref d CLIMB o i (0 + sumN (map n_length (map (rn cr bs) pre))) Hd64 H1 H2 H3)
        as (r & -> & Hs).
      f_equal. pose proof (tiles_sizes pre 0 _ Tp) as Q. rewrite prefix_size_0 in Q. lia.
    - rewrite Hd. unfold rn. cbn [fst snd]. rewrite ref_node_index. nia.
    - rewrite Hd. unfold next_head, rn. cbn [fst snd]. rewrite ref_node_index. nia.
  Qed.
End Offsets.

(* ====================================================================================== *)
(* G. The invariant, and the reads                                                         *)
(* ====================================================================================== *)

Section Invariant.
  Variable cr : crypto.
  Hypothesis Hhash32 : forall x, length (cr_hash cr x) = 32%nat.
  Hypothesis Hnonblank : forall x, all_zero (cr_hash cr x) = false.

  Definition WInv (c : core) (d : disk) (bs : list bytes) : Prop :=
    let t := c_tree c in
    let n := N.of_nat (length bs) in
    t_length t = n /\ t_byte_length t = sumN (map len bs) /\ t_fork t = 0 /\
    t_roots t = ref_roots cr bs n /\
    (* every full node of the tree over bs is found by lookup, with the reference value *)
    lookups cr t (d_tree d) bs n /\
    unflushed_ok t /\
    (* bitfield: exactly the blocks appended *)
    (forall i, bf_get (c_bitfield c) i = (i <? n)) /\
    hd_contig (c_header c) = n /\
    (* data store: the blocks one after the other *)
    f_content (d_data d) = concat bs /\
    (* no-overflow side conditions *)
    sumN (map len bs) <= u64_max /\ NODE_SIZE * (2 * n) <= u64_max.

  Lemma byte_range_correct c d bs i :
    WInv c d bs -> i < N.of_nat (length bs) ->
    byte_range (c_tree c) (d_tree d) i = Ok (prefix_size bs i, len (nth (N.to_nat i) bs [])).
  Proof.
    intros (HL & HB & HF & HR & Hlook & Hun & Hbf & Hc & Hd & Hs & Hn) Hi.
    unfold byte_range, validate_hypercore_index, mul64.
    unfold NODE_SIZE, u64_max in Hn.
    assert (fits_u64 (2 * i) = true) as -> by (unfold fits_u64, u64_max; lia). cbn [bind].
    rewrite HL. destruct (N.leb_spec (2 * N.of_nat (length bs)) (2 * i)) as [L|L]; [lia|]. cbn [bind].
    pose proof (Hlook 0%nat i) as Hq. rewrite p2_0 in Hq. change (N.of_nat 0) with 0 in Hq.
    rewrite ft_index_leaf in Hq. rewrite Hq by lia. cbn [bind].
    rewrite (byte_offset_ref cr bs (c_tree c) (d_tree d) (N.of_nat (length bs)) Hlook i HR); [|lia|exact Hi].
    cbn [bind ref_node]. unfold block_node, blk. cbn [n_length]. reflexivity.
  Qed.

  Theorem get_correct c d bs j ev i :
    WInv c d bs ->
    core_get i c (mkWorld d j ev) =
    if i <? N.of_nat (length bs)
    then (c, mkWorld d j ev, Ok (Some (nth (N.to_nat i) bs [])))
    else (c, mkWorld d j (EvGet i :: ev), Ok None).
  Proof.
    intros W. pose proof W as (HL & HB & HF & HR & Hlook & Hun & Hbf & Hc & Hd & Hs & Hn).
    unfold core_get. rewrite mbind_get_core, Hbf.
    destruct (N.ltb_spec i (N.of_nat (length bs))) as [L|L]; cbn [negb].
    - rewrite mbind_get_disk. cbn [w_disk]. rewrite mbind_lift, (byte_range_correct c d bs i W L).
      destruct (N.eqb_spec (len (nth (N.to_nat i) bs [])) 0) as [E|E].
      + apply len_zero_nil in E. rewrite E. reflexivity.
      + replace (prefix_size bs i) with (prefix_size bs (N.of_nat (N.to_nat i))) by (f_equal; lia).
        rewrite (data_read (d_data d) bs (N.to_nat i) Hd) by lia. reflexivity.
    - reflexivity.
  Qed.

  Theorem has_correct c d bs i :
    WInv c d bs -> core_has c i = (i <? N.of_nat (length bs)).
  Proof. intros W. unfold core_has. apply W. Qed.

  Theorem info_correct c d bs :
    WInv c d bs ->
    core_info c = mkInfo (N.of_nat (length bs)) (sumN (map len bs)) (N.of_nat (length bs)) 0
                         (match kp_secret (c_keypair c) with Some _ => true | None => false end).
  Proof.
    intros (HL & HB & HF & HR & Hlook & Hun & Hbf & Hc & Hd & Hs & Hn).
    unfold core_info. rewrite HL, HB, HF, Hc. reflexivity.
  Qed.

  (* the read form of the data-store invariant *)
  Corollary WInv_data_reads c d bs :
    WInv c d bs ->
    f_len (d_data d) = sumN (map len bs) /\
    forall i, (i < length bs)%nat ->
      f_read (d_data d) (prefix_size bs (N.of_nat i)) (len (nth i bs [])) = Some (nth i bs []).
  Proof.
    intros (HL & HB & HF & HR & Hlook & Hun & Hbf & Hc & Hd & Hs & Hn). split.
    - rewrite <- f_len_content, Hd. apply len_concat.
    - intros i Hi. apply data_read; assumption.
  Qed.
End Invariant.

(* ====================================================================================== *)
(* H. Stepping the state monad forwards                                                    *)
(* ====================================================================================== *)

Definition frame_msg : string := "Data length would overflow. It does not fit in 30 bits".

Lemma mbind_put_oplog {B} o (f : unit -> M B) c w :
  mbind (put_oplog o) f c w = f tt (mkCore (c_keypair c) o (c_tree c) (c_bitfield c) (c_header c) (c_skip c)) w.
Proof. reflexivity. Qed.
Lemma mbind_put_header {B} h (f : unit -> M B) c w :
  mbind (put_header h) f c w = f tt (mkCore (c_keypair c) (c_oplog c) (c_tree c) (c_bitfield c) h (c_skip c)) w.
Proof. reflexivity. Qed.
Lemma mbind_put_tree {B} t (f : unit -> M B) c w :
  mbind (put_tree t) f c w = f tt (mkCore (c_keypair c) (c_oplog c) t (c_bitfield c) (c_header c) (c_skip c)) w.
Proof. reflexivity. Qed.
Lemma mbind_put_bitfield {B} b (f : unit -> M B) c w :
  mbind (put_bitfield b) f c w = f tt (mkCore (c_keypair c) (c_oplog c) (c_tree c) b (c_header c) (c_skip c)) w.
Proof. reflexivity. Qed.
Lemma mbind_put_skip {B} s (f : unit -> M B) c w :
  mbind (put_skip s) f c w = f tt (mkCore (c_keypair c) (c_oplog c) (c_tree c) (c_bitfield c) (c_header c) s) w.
Proof. reflexivity. Qed.

Lemma mbind_eq {A B} (m : M A) (f : A -> M B) c w c1 w1 a :
  m c w = (c1, w1, Ok a) -> mbind m f c w = f a c1 w1.
Proof. intros H. unfold mbind. rewrite H. reflexivity. Qed.

Lemma mbind_panic {A B} (m : M A) (f : A -> M B) c w c1 w1 s :
  m c w = (c1, w1, Panic s) -> mbind m f c w = (c1, w1, Panic s).
Proof. intros H. unfold mbind. rewrite H. reflexivity. Qed.

(* writes and truncations never fail *)
Definition no_del (o : sop) : Prop := match o with SD _ _ _ => False | _ => True end.

Lemma emit_total ops : forall c w,
  Forall no_del ops ->
  exists d', apply_sops (w_disk w) ops = Some d' /\
             emit ops c w = (c, mkWorld d' (rev ops ++ w_journal w) (w_events w), Ok tt).
Proof.
  induction ops as [|o ops IH]; intros c w Hall.
  - exists (w_disk w). split; [reflexivity|]. destruct w; reflexivity.
  - inversion Hall as [|o' ops' Ho Hops]; subst. cbn [emit apply_sops].
    destruct (apply_sop (w_disk w) o) as [d1|] eqn:E.
    2:{ destruct o; cbn in E; try discriminate E. destruct Ho. }
    destruct (IH c (mkWorld d1 (o :: w_journal w) (w_events w)) Hops) as (d' & Ha & He).
    cbn [w_disk w_journal w_events] in *. exists d'. split; [exact Ha|].
    rewrite He. cbn [rev]. rewrite <- app_assoc. reflexivity.
Qed.

(* stores not named by any operation are untouched *)
Lemma apply_sops_other ops : forall d d' s,
  apply_sops d ops = Some d' -> (forall o, In o ops -> sop_store o <> s) -> d_get d' s = d_get d s.
Proof.
  induction ops as [|o ops IH]; intros d d' s H Hs; cbn [apply_sops] in H.
  - injection H as <-. reflexivity.
  - destruct (apply_sop d o) as [d1|] eqn:E; [|discriminate H].
    rewrite (IH d1 d' s H) by (intros o' Ho'; apply Hs; right; exact Ho').
    apply (apply_sop_other d o d1 s E). intros Heq. apply (Hs o); [left; reflexivity|symmetry; exact Heq].
Qed.

Section Steps.
  Variable cr : crypto.
  Hypothesis Hhash32 : forall x, length (cr_hash cr x) = 32%nat.
  Hypothesis Hnonblank : forall x, all_zero (cr_hash cr x) = false.

  Lemma enc_all_node_ok (l : list node) :
    (forall x, In x l -> length (n_hash x) = 32%nat) -> exists b, enc_all enc_node l = Ok b.
  Proof.
    induction l as [|x l IH]; intros H; cbn [enc_all]; [eexists; reflexivity|].
    assert (enc_node x = Ok (enc_uint (n_index x) ++ enc_uint (n_length x) ++ n_hash x)) as ->.
    { unfold enc_node. rewrite (H x) by (left; reflexivity). reflexivity. }
    cbn [bind].
    destruct IH as [b ->]; [intros y Hy; apply H; right; exact Hy|]. cbn [bind]. eexists. reflexivity.
  Qed.

  Lemma enc_entry_ok32 (e : entry) :
    (forall x, In x (e_nodes e) -> length (n_hash x) = 32%nat) -> exists b, enc_entry e = Ok b.
  Proof.
    intros H. unfold enc_entry. destruct (e_nodes e) as [|x l] eqn:E.
    - cbn [bind]. eexists. reflexivity.
    - unfold enc_nodes. destruct (enc_all_node_ok (x :: l) H) as [b ->]. cbn [bind]. eexists. reflexivity.
  Qed.

  Lemma oplog_append_cases (o : oplog) (e : entry) :
    (forall x, In x (e_nodes e) -> length (n_hash x) = 32%nat) ->
    oplog_append cr o e = Panic frame_msg \/
    exists o' fr, oplog_append cr o e = Ok (o', [SW Oplog (ENTRIES_OFFSET + ol_entries_bytes o) fr]).
  Proof.
    intros H. unfold oplog_append. destruct (enc_entry_ok32 e H) as [b ->]. cbn [lift_enc bind].
    unfold frame. destruct (1073741824 <=? len b).
    - left. reflexivity.
    - right. cbn [bind]. do 2 eexists. reflexivity.
  Qed.

  Lemma oplog_flush_cases (o : oplog) (h : header) :
    oplog_flush cr o h false = Panic frame_msg \/
    exists o' slot hb, oplog_flush cr o h false = Ok (o', [SW Oplog slot hb; ST Oplog ENTRIES_OFFSET]).
  Proof.
    unfold oplog_flush, insert_header. destruct (next_slot (ol_bits o)) as [[slot bit] bits'].
    destruct (frame cr bit false (enc_header h)) as [fr| | |] eqn:F.
    - right. cbn [bind]. pose proof (frame_length _ _ _ _ _ F) as L.
      destruct (N.ltb_spec (8 + 2 * len (enc_header h)) (len fr)) as [Lt|Ge]; [lia|].
      cbn [bind]. rewrite N.add_0_r. do 3 eexists. reflexivity.
    - unfold frame in F. destruct (1073741824 <=? len (enc_header h)); discriminate F.
    - left. unfold frame in F. destruct (1073741824 <=? len (enc_header h)); [|discriminate F].
      injection F as <-. reflexivity.
    - unfold frame in F. destruct (1073741824 <=? len (enc_header h)); discriminate F.
  Qed.

  (* ---------- log_and_commit ---------- *)

  Lemma log_and_commit_spec (cs : changeset) (u : bf_update) (c : core) (w : world) (hash sg : bytes) :
    cs_upgraded cs = true -> cs_hash cs = Some hash -> cs_signature cs = Some sg ->
    (forall x, In x (cs_nodes cs) -> length (n_hash x) = 32%nat) ->
    cs_orig_fork cs = t_fork (c_tree c) -> cs_orig_length cs = t_length (c_tree c) ->
    cs_ancestors cs = t_length (c_tree c) ->
    (exists c' w', log_and_commit cr cs (Some u) c w = (c', w', Panic frame_msg)) \/
    exists o' h' fr,
      hd_contig h' = update_contig (hd_contig (c_header c)) (bf_apply (c_bitfield c) u) u /\
      log_and_commit cr cs (Some u) c w =
      (mkCore (c_keypair c) o'
              (mkTree (cs_roots cs) (cs_length cs) (cs_byte_length cs) (cs_fork cs) (cs_signature cs)
                      (add_nodes (t_unflushed (c_tree c)) (cs_nodes cs)))
              (bf_apply (c_bitfield c) u) h' (c_skip c),
       mkWorld (d_set (w_disk w) Oplog (f_write (d_oplog (w_disk w)) (ENTRIES_OFFSET + ol_entries_bytes (c_oplog c)) fr))
               (SW Oplog (ENTRIES_OFFSET + ol_entries_bytes (c_oplog c)) fr :: w_journal w) (w_events w),
       Ok tt).
  Proof.
    intros Hup Hh Hs H32 Hof Hol Han.
    unfold log_and_commit. rewrite mbind_get_core, mbind_lift.
    unfold entry_of_changeset. rewrite Hup, Hh, Hs. rewrite mbind_lift.
    match goal with |- context [oplog_append cr ?o ?e] => destruct (oplog_append_cases o e H32) as [OA|(o' & fr & OA)] end;
      rewrite OA.
    - left. do 2 eexists. reflexivity.
    - right.
      assert (HT : tree_commit (c_tree c) cs =
                   Ok (mkTree (cs_roots cs) (cs_length cs) (cs_byte_length cs) (cs_fork cs) (cs_signature cs)
                         (add_nodes (t_unflushed (c_tree c)) (cs_nodes cs)))).
      { unfold tree_commit, commitable. rewrite Hup, Hof, Hol, Han, !N.eqb_refl. cbn [andb negb].
        rewrite N.ltb_irrefl. reflexivity. }
      rewrite Hs in HT.
      rewrite mbind_put_oplog. cbn [emit].
      unfold mbind at 1. cbn [emit apply_sop w_disk w_journal w_events d_get].
      unfold ret at 1. rewrite mbind_put_header.
      unfold mbind at 1. rewrite mbind_get_core. cbn [c_bitfield c_header].
      rewrite mbind_put_bitfield. cbn [c_keypair c_oplog c_tree c_header c_skip c_bitfield].
      unfold put_header at 1. cbn [c_keypair c_oplog c_tree c_header c_skip c_bitfield].
      rewrite mbind_get_core. cbn [c_tree]. rewrite mbind_lift, HT.
      unfold put_tree. cbn [c_keypair c_oplog c_tree c_header c_skip c_bitfield].
      do 3 eexists. split; [|reflexivity]. reflexivity.
  Qed.

  (* ---------- flush ---------- *)

  Lemma flush_all_spec (c : core) (w : world) :
    unflushed_ok (c_tree c) ->
    (exists c' w', flush_all cr false c w = (c', w', Panic frame_msg)) \/
    exists o' d' jn t' tops d1 d2,
      flush_all cr false c w =
        (mkCore (c_keypair c) o' t' (mkBf (bf_bits (c_bitfield c)) []) (c_header c) (c_skip c),
         mkWorld d' jn (w_events w), Ok tt) /\
      tree_flush (c_tree c) = Ok (t', tops) /\
      d_tree d1 = d_tree (w_disk w) /\ d_data d1 = d_data (w_disk w) /\
      apply_sops d1 tops = Some d2 /\
      d_tree d' = d_tree d2 /\ d_data d' = d_data d2.
  Proof.
    intros Hok. unfold flush_all. rewrite mbind_get_core. unfold bf_flush. cbv iota.
    rewrite mbind_put_bitfield.
    match goal with |- context [mbind (emit ?ops) ?f ?c1 ?w1] =>
      destruct (emit_total ops c1 w1) as (d1 & A1 & E1);
        [apply Forall_forall; intros o Ho; apply in_map_iff in Ho as (p & <- & _); exact I|];
        rewrite (mbind_eq _ f _ _ _ _ _ E1)
    end.
    rewrite mbind_lift, (tree_flush_ok (c_tree c) Hok). cbv iota.
    rewrite mbind_put_tree.
    match goal with |- context [mbind (emit ?ops) ?f ?c1 ?w1] =>
      destruct (emit_total ops c1 w1) as (d2 & A2 & E2);
        [apply Forall_forall; intros o Ho; apply in_map_iff in Ho as (p & <- & _); exact I|];
        rewrite (mbind_eq _ f _ _ _ _ _ E2)
    end.
    rewrite mbind_get_core, mbind_lift. cbn [c_oplog c_header].
    destruct (oplog_flush_cases (c_oplog c) (c_header c)) as [OF|(o' & slot & hb & OF)]; rewrite OF.
    - left. do 2 eexists. reflexivity.
    - right. cbv iota. rewrite mbind_put_oplog.
      match goal with |- context [emit ?ops ?c1 ?w1] =>
        destruct (emit_total ops c1 w1) as (d3 & A3 & E3);
          [repeat constructor|]; rewrite E3
      end.
      cbn [w_disk w_journal w_events c_keypair c_oplog c_tree c_bitfield c_header c_skip] in *.
      exists o', d3. eexists. eexists. eexists. exists d1, d2.
      split; [reflexivity|]. split; [reflexivity|].
      assert (S1 : forall s, s <> Bitfield -> d_get d1 s = d_get (w_disk w) s).
      { intros s Hs. apply (apply_sops_other _ _ _ _ A1). intros o Ho.
        apply in_map_iff in Ho as (p & <- & _). cbn [sop_store]. congruence. }
      assert (S3 : forall s, s <> Oplog -> d_get d3 s = d_get d2 s).
      { intros s Hs. apply (apply_sops_other _ _ _ _ A3). intros o [<-|[<-|[]]]; cbn [sop_store]; congruence. }
      split; [apply (S1 Tree); discriminate|]. split; [apply (S1 Data); discriminate|].
      split; [exact A2|]. split; [apply (S3 Tree); discriminate|apply (S3 Data); discriminate].
  Qed.

  Lemma WInv_ext c c' d d' bs :
    c_tree c' = c_tree c -> (forall i, bf_get (c_bitfield c') i = bf_get (c_bitfield c) i) ->
    hd_contig (c_header c') = hd_contig (c_header c) ->
    d_tree d' = d_tree d -> d_data d' = d_data d ->
    WInv cr c d bs -> WInv cr c' d' bs.
  Proof.
    intros Ht Hb Hc Hdt Hdd (HL & HB & HF & HR & Hlook & Hun & Hbf & Hcg & Hd & Hs & Hn).
    unfold WInv. rewrite Ht, Hc, Hdt, Hdd.
    split; [exact HL|]. split; [exact HB|]. split; [exact HF|]. split; [exact HR|]. split; [exact Hlook|].
    split; [exact Hun|]. split; [intros i; rewrite Hb; apply Hbf|]. tauto.
  Qed.

  Lemma flush_all_preserves c d j ev bs c' w' r :
    WInv cr c d bs ->
    flush_all cr false c (mkWorld d j ev) = (c', w', r) ->
    r = Panic frame_msg \/ (r = Ok tt /\ WInv cr c' (w_disk w') bs /\ c_keypair c' = c_keypair c).
  Proof.
    intros W H. pose proof W as (HL & HB & HF & HR & Hlook & Hun & Hbf & Hcg & Hd & Hs & Hn).
    destruct (flush_all_spec c (mkWorld d j ev) Hun)
      as [(c1 & w1 & E)|(o' & d' & jn & t' & tops & d1 & d2 & E & TF & T1 & D1 & A2 & T3 & D3)];
      rewrite E in H; injection H as <- <- <-.
    - left. reflexivity.
    - right. split; [reflexivity|]. split; [|reflexivity].
      cbn [w_disk] in *.
      destruct (tree_flush_other_stores (c_tree c) t' tops d1 d2 TF A2 Hun)
        as (Q1 & _ & _ & R1 & R2 & R3 & R4 & R5).
      unfold WInv. cbn [c_tree c_bitfield c_header].
      rewrite R1, R2, R3, R4, T3, D3, Q1, D1.
      split; [exact HL|]. split; [exact HB|]. split; [exact HF|]. split; [exact HR|].
      split; [|split; [exact R5|split; [exact Hbf|tauto]]].
      intros dd o Hfull.
      apply (tree_flush_preserves_lookups (c_tree c) t' tops d1 d2 _ _ TF A2 Hun).
      + pose proof (ft_index_succ (N.of_nat dd) o) as S. fold (p2 dd) in S. pose proof (p2_pos dd).
        unfold NODE_SIZE in *. nia.
      + rewrite T1. apply Hlook, Hfull.
  Qed.

  Lemma maybe_flush_preserves f c d j ev bs c' w' r :
    WInv cr c d bs ->
    maybe_flush cr f c (mkWorld d j ev) = (c', w', r) ->
    r = Panic frame_msg \/ (r = Ok tt /\ WInv cr c' (w_disk w') bs /\ c_keypair c' = c_keypair c).
  Proof.
    intros W. unfold maybe_flush. rewrite mbind_get_core.
    match goal with |- (if ?b then _ else _) _ _ = _ -> _ => destruct b end.
    - rewrite mbind_put_skip. intros H.
      apply (flush_all_preserves _ d j ev bs) in H; [exact H|].
      apply (WInv_ext c _ d d bs); try reflexivity. exact W.
    - intros H. unfold put_skip in H. injection H as <- <- <-. right.
      split; [reflexivity|]. split; [|reflexivity]. cbn [w_disk].
      apply (WInv_ext c _ d d bs); try reflexivity. exact W.
  Qed.
End Steps.

(* ====================================================================================== *)
(* I. core_append preserves the invariant                                                  *)
(* ====================================================================================== *)

Lemma mbind_emit_SW {B} s off data (f : unit -> M B) c w :
  mbind (emit [SW s off data]) f c w =
  f tt c (mkWorld (d_set (w_disk w) s (f_write (d_get (w_disk w) s) off data))
                  (SW s off data :: w_journal w) (w_events w)).
Proof. reflexivity. Qed.

Lemma batch_blk (bs batch : list bytes) (j : nat) :
  (j < length batch)%nat -> nth j batch [] = blk (bs ++ batch) (N.of_nat (length bs) + N.of_nat j).
Proof.
  intros _. unfold blk. replace (N.to_nat (N.of_nat (length bs) + N.of_nat j)) with (length bs + j)%nat by lia.
  rewrite app_nth2_plus. reflexivity.
Qed.

Lemma contig_after (b : bitfield) (n k : N) :
  (forall i, bf_get b i = (i <? n)) -> 0 < k ->
  let u := mkBfUpdate false n k in
  (forall i, bf_get (bf_apply b u) i = (i <? n + k)) /\ update_contig n (bf_apply b u) u = n + k.
Proof.
  intros Hb Hk u.
  assert (G : forall i, bf_get (bf_apply b u) i = (i <? n + k)).
  { intros i. rewrite bf_get_apply. cbn [bu_start bu_length bu_drop u negb]. rewrite Hb.
    destruct (N.leb_spec n i), (N.ltb_spec i (n + k)), (N.ltb_spec i n); cbn [andb]; try reflexivity; lia. }
  split; [exact G|].
  assert (E0 : exact_contig b n).
  { split; [intros i Hi; rewrite Hb; apply N.ltb_lt, Hi|rewrite Hb; apply N.ltb_irrefl]. }
  pose proof (update_contig_exact b u n E0 Hk) as E1.
  assert (E2 : exact_contig (bf_apply b u) (n + k)).
  { split; [intros i Hi; rewrite G; apply N.ltb_lt, Hi|rewrite G; apply N.ltb_irrefl]. }
  apply (exact_contig_unique _ _ _ E1 E2).
Qed.

Section Append.
  Variable cr : crypto.
  Hypothesis Hhash32 : forall x, length (cr_hash cr x) = 32%nat.
  Hypothesis Hnonblank : forall x, all_zero (cr_hash cr x) = false.

  (* the body of a non-empty append *)
  Definition append_body (f : option bool) (batch : list bytes) (sk : bytes) (c : core) : M unit :=
    cs <-- lift (cs_append_all cr (tree_changeset (c_tree c)) batch) ;;;
    let cs := cs_hash_and_sign cr cs sk in
    emit [SW Data (t_byte_length (c_tree c)) (concat batch)] ;;;
    let bu := mkBfUpdate false (cs_ancestors cs) (cs_batch_length cs) in
    log_and_commit cr cs (Some bu) ;;;
    maybe_flush cr f ;;;
    send EvUpgrade ;;; send (EvHave (bu_start bu) (bu_length bu) false).

  Lemma append_body_preserves f batch c d j ev bs sk c' w' r :
    WInv cr c d bs -> batch <> [] ->
    sumN (map len (bs ++ batch)) <= u64_max ->
    NODE_SIZE * (2 * N.of_nat (length (bs ++ batch))) <= u64_max ->
    append_body f batch sk c c (mkWorld d j ev) = (c', w', r) ->
    r = Panic frame_msg \/
    (r = Ok tt /\ WInv cr c' (w_disk w') (bs ++ batch) /\ c_keypair c' = c_keypair c).
  Proof.
    intros W Hne Hfit Hidx H.
    pose proof W as (HL & HB & HF & HR & Hlook & Hun & Hbf & Hcg & Hd & Hs & Hn).
    set (B := bs ++ batch) in *. set (n := N.of_nat (length bs)) in *.
    set (k := N.of_nat (length batch)).
    assert (Hk : 0 < k) by (destruct batch; [congruence|unfold k; cbn [length]; lia]).
    assert (HlenB : N.of_nat (length B) = n + k) by (unfold B, n, k; rewrite app_length; lia).
    assert (HsumB : sumN (map len B) = sumN (map len bs) + sumN (map len batch))
      by (unfold B; rewrite map_app; apply TreeRef.sumN_app).
    set (cs0 := tree_changeset (c_tree c)) in *.
    assert (R0 : cs_roots cs0 = ref_roots cr B n).
    { unfold cs0, B. cbn [tree_changeset cs_roots]. rewrite HR. symmetry. apply ref_roots_app. unfold n. lia. }
    assert (L0 : cs_length cs0 = n) by exact HL.
    assert (Hblk : forall i, (i < length batch)%nat -> nth i batch [] = blk B (n + N.of_nat i))
      by (intros i Hi; apply batch_blk, Hi).
    destruct (cs_append_all_no_panic cr B Hfit batch cs0 n R0 L0 Hblk) as [cs1 Hcs].
    { unfold cs0. cbn [tree_changeset cs_byte_length]. rewrite HB. lia. }
    destruct (cs_append_all_ref cr B batch cs0 cs1 n R0 L0 Hblk Hcs)
      as (R1 & L1 & B1 & BL1 & A1 & F1 & U1 & Sound1).
    destruct (cs_append_all_complete cr B batch cs0 cs1 n R0 L0 Hblk Hcs) as (_ & OL1 & OF1 & Compl1).
    unfold cs0 in B1, BL1, A1, F1, OL1, OF1, Sound1.
    cbn [tree_changeset cs_byte_length cs_batch_length cs_ancestors cs_fork cs_orig_length cs_orig_fork cs_nodes
         cs_rnodes rev_append] in B1, BL1, A1, F1, OL1, OF1, Sound1.
    assert (Sound : forall x, In x (cs_nodes cs1) -> x = ref_at cr B (n_index x)).
    { intros x Hx. destruct (Sound1 x Hx) as [[]|E]. exact E. }
    unfold append_body in H. rewrite mbind_lift in H. fold cs0 in H. rewrite Hcs in H. cbv zeta in H.
    rewrite mbind_emit_SW in H. cbn [w_disk w_journal w_events d_get] in H.
    set (cs := cs_hash_and_sign cr cs1 sk) in *.
    set (bu := mkBfUpdate false (cs_ancestors cs) (cs_batch_length cs)) in *.
    assert (Hbu : bu = mkBfUpdate false n k).
    { unfold bu, cs, cs_hash_and_sign, cs_set_hash_sig. cbn [cs_ancestors cs_batch_length].
      rewrite A1, BL1, HL. f_equal; lia. }
    assert (P1 : cs_upgraded cs = true).
    { unfold cs, cs_hash_and_sign, cs_set_hash_sig. cbn [cs_upgraded]. apply U1, Hne. }
    assert (P4 : forall x, In x (cs_nodes cs) -> length (n_hash x) = 32%nat).
    { intros x Hx. rewrite (Sound x Hx). apply ref_at_hash_length, Hhash32. }
    assert (P5 : cs_orig_fork cs = t_fork (c_tree c)).
    { unfold cs, cs_hash_and_sign, cs_set_hash_sig. cbn [cs_orig_fork]. exact OF1. }
    assert (P6 : cs_orig_length cs = t_length (c_tree c)).
    { unfold cs, cs_hash_and_sign, cs_set_hash_sig. cbn [cs_orig_length]. exact OL1. }
    assert (P7 : cs_ancestors cs = t_length (c_tree c)).
    { unfold cs, cs_hash_and_sign, cs_set_hash_sig. cbn [cs_ancestors]. exact A1. }
    match type of H with
    | mbind (log_and_commit _ _ _) _ ?c0 ?w0 = _ =>
        destruct (log_and_commit_spec cr cs bu c0 w0
                    (cs_tree_hash cr cs1) (cr_sign cr sk (cs_signable cs1 (cs_tree_hash cr cs1)))
                    P1 eq_refl eq_refl P4 P5 P6 P7)
          as [(c1 & w1 & E)|(o' & h' & fr & Hcontig & E)]
    end.
    { rewrite (mbind_panic _ _ _ _ _ _ _ E) in H. injection H as <- <- <-. left. reflexivity. }
    rewrite (mbind_eq _ _ _ _ _ _ _ E) in H. clear E.
    cbn [w_disk w_journal w_events] in H.
    (* the state after the commit satisfies the invariant for the longer list *)
    match type of H with
    | mbind (maybe_flush _ _) _ ?c2 (mkWorld ?d2 ?j2 ?ev2) = _ =>
        assert (W2 : WInv cr c2 d2 B); [|set (c2' := c2) in *; set (d2' := d2) in *]
    end.
    { unfold WInv. cbn [c_tree c_bitfield c_header t_length t_byte_length t_fork t_roots].
      unfold cs, cs_hash_and_sign, cs_set_hash_sig.
      cbn [cs_roots cs_length cs_byte_length cs_fork cs_signature cs_nodes cs_rnodes].
      fold (cs_nodes cs1).
      assert (Tsame : d_tree (d_set (d_set d Data (f_write (d_data d) (t_byte_length (c_tree c)) (concat batch)))
                               Oplog (f_write (d_oplog (d_set d Data (f_write (d_data d) (t_byte_length (c_tree c)) (concat batch))))
                                        (ENTRIES_OFFSET + ol_entries_bytes (c_oplog c)) fr)) = d_tree d)
        by (destruct d; reflexivity).
      assert (Dsame : d_data (d_set (d_set d Data (f_write (d_data d) (t_byte_length (c_tree c)) (concat batch)))
                               Oplog (f_write (d_oplog (d_set d Data (f_write (d_data d) (t_byte_length (c_tree c)) (concat batch))))
                                        (ENTRIES_OFFSET + ol_entries_bytes (c_oplog c)) fr))
                      = f_write (d_data d) (t_byte_length (c_tree c)) (concat batch))
        by (destruct d; reflexivity).
      rewrite Tsame, Dsame.
      split; [rewrite L1; symmetry; exact HlenB|].
      split; [rewrite B1, HB; symmetry; exact HsumB|].
      split; [rewrite F1; exact HF|].
      split; [rewrite R1, HlenB; reflexivity|].
      split.
      { apply (commit_lookups cr Hnonblank bs batch (c_tree c) _ (d_tree d) (cs_nodes cs1)).
        - exact Sound.
        - intros jj q Q1 Q2. apply Compl1; [exact Q1|]. fold B in Q2. rewrite HlenB in Q2. exact Q2.
        - reflexivity.
        - exact Hlook. }
      split.
      { apply (commit_unflushed_ok cr Hhash32 B (c_tree c) _ (cs_nodes cs1) Hfit Sound); [reflexivity|exact Hun]. }
      destruct (contig_after (c_bitfield c) n k Hbf Hk) as [G1 G2].
      split; [intros i; rewrite Hbu, HlenB; apply G1|].
      split; [rewrite Hcontig, Hcg, Hbu, HlenB; exact G2|].
      split.
      { assert (t_byte_length (c_tree c) = f_len (d_data d)) as ->.
        { rewrite HB, <- f_len_content, Hd. symmetry. apply len_concat. }
        rewrite f_content_write_append, Hd. unfold B. symmetry. apply concat_app. }
      split; [exact Hfit|exact Hidx]. }
    mstep H.
    - apply (maybe_flush_preserves cr Hhash32 Hnonblank f c2' d2' _ _ B) in Hm; [|exact W2].
      destruct Hm as [Hm|(_ & W3 & K3)]; [discriminate Hm|].
      rewrite mbind_send in H. unfold send in H. injection H as <- <- <-.
      right. split; [reflexivity|]. cbn [w_disk]. split; [exact W3|]. rewrite K3. reflexivity.
    - apply (maybe_flush_preserves cr Hhash32 Hnonblank f c2' d2' _ _ B) in Hm; [|exact W2].
      destruct Hm as [Hm|(Hm & _)]; discriminate Hm.
    - apply (maybe_flush_preserves cr Hhash32 Hnonblank f c2' d2' _ _ B) in Hm; [|exact W2].
      destruct Hm as [Hm|(Hm & _)]; [|discriminate Hm]. left. exact Hm.
    - apply (maybe_flush_preserves cr Hhash32 Hnonblank f c2' d2' _ _ B) in Hm; [|exact W2].
      destruct Hm as [Hm|(Hm & _)]; discriminate Hm.
  Qed.

  Theorem append_preserves f batch c d j ev bs sk c' w' r :
    WInv cr c d bs -> kp_secret (c_keypair c) = Some sk ->
    sumN (map len (bs ++ batch)) <= u64_max ->
    NODE_SIZE * (2 * N.of_nat (length (bs ++ batch))) <= u64_max ->
    core_append cr f batch c (mkWorld d j ev) = (c', w', r) ->
    r = Panic frame_msg \/
    (r = Ok (N.of_nat (length (bs ++ batch)), sumN (map len (bs ++ batch))) /\
     WInv cr c' (w_disk w') (bs ++ batch) /\ c_keypair c' = c_keypair c).
  Proof.
    intros W Hsk Hfit Hidx H.
    unfold core_append in H. rewrite mbind_get_core, Hsk in H.
    destruct batch as [|b0 rest].
    - rewrite mbind_ret, mbind_get_core in H. unfold ret in H. injection H as <- <- <-.
      right. rewrite app_nil_r. pose proof W as (HL & HB & _). rewrite HL, HB.
      split; [reflexivity|]. split; [|reflexivity]. cbn [w_disk]. exact W.
    - cbv iota in H. fold (append_body f (b0 :: rest) sk c) in H.
      mstep H.
      + apply (append_body_preserves f (b0 :: rest) c d j ev bs sk) in Hm; try assumption; [|discriminate].
        destruct Hm as [Hm|(_ & W1 & K1)]; [discriminate Hm|].
        rewrite mbind_get_core in H. unfold ret in H. injection H as <- <- <-.
        right. pose proof W1 as (HL & HB & _). rewrite HL, HB. auto.
      + apply (append_body_preserves f (b0 :: rest) c d j ev bs sk) in Hm; try assumption; [|discriminate].
        destruct Hm as [Hm|(Hm & _)]; discriminate Hm.
      + apply (append_body_preserves f (b0 :: rest) c d j ev bs sk) in Hm; try assumption; [|discriminate].
        destruct Hm as [Hm|(Hm & _)]; [|discriminate Hm]. left. injection Hm as ->. reflexivity.
      + apply (append_body_preserves f (b0 :: rest) c d j ev bs sk) in Hm; try assumption; [|discriminate].
        destruct Hm as [Hm|(Hm & _)]; discriminate Hm.
  Qed.

  (* the version that never flushes, as a corollary *)
  Corollary append_preserves_noflush batch c d j ev bs sk c' w' r :
    WInv cr c d bs -> kp_secret (c_keypair c) = Some sk ->
    sumN (map len (bs ++ batch)) <= u64_max ->
    NODE_SIZE * (2 * N.of_nat (length (bs ++ batch))) <= u64_max ->
    core_append cr (Some false) batch c (mkWorld d j ev) = (c', w', r) ->
    r = Panic frame_msg \/
    (r = Ok (N.of_nat (length (bs ++ batch)), sumN (map len (bs ++ batch))) /\
     WInv cr c' (w_disk w') (bs ++ batch) /\ c_keypair c' = c_keypair c).
  Proof. apply append_preserves. Qed.
End Append.

(* ====================================================================================== *)
(* J. Histories of appends, batch appends, reads, has, info                                *)
(* ====================================================================================== *)

Inductive wop :=
| WAppend (f : option bool) (batch : list bytes)   (* f: the forced flush decision *)
| WGet (i : N)
| WHas (i : N)
| WInfo.

Inductive wobs :=
| OAppend (r : res (N * N))
| OGet (r : res (option bytes))
| OHas (b : bool)
| OInfo (i : info).

(* the list model *)
Fixpoint spec_obs (ops : list wop) (bs : list bytes) : list wobs :=
  match ops with
  | [] => []
  | WAppend _ batch :: rest =>
      OAppend (Ok (N.of_nat (length (bs ++ batch)), sumN (map len (bs ++ batch)))) :: spec_obs rest (bs ++ batch)
  | WGet i :: rest =>
      OGet (Ok (if i <? N.of_nat (length bs) then Some (nth (N.to_nat i) bs []) else None)) :: spec_obs rest bs
  | WHas i :: rest => OHas (i <? N.of_nat (length bs)) :: spec_obs rest bs
  | WInfo :: rest =>
      OInfo (mkInfo (N.of_nat (length bs)) (sumN (map len bs)) (N.of_nat (length bs)) 0 true) :: spec_obs rest bs
  end.

(* all the blocks a history appends *)
Fixpoint appended (ops : list wop) : list bytes :=
  match ops with
  | [] => []
  | WAppend _ batch :: rest => batch ++ appended rest
  | _ :: rest => appended rest
  end.

Section History.
  Variable cr : crypto.
  Hypothesis Hhash32 : forall x, length (cr_hash cr x) = 32%nat.
  Hypothesis Hnonblank : forall x, all_zero (cr_hash cr x) = false.

  (* the model; a history stops after an append that does not return a value *)
  Fixpoint run_obs (ops : list wop) (c : core) (w : world) : list wobs :=
    match ops with
    | [] => []
    | WAppend f batch :: rest =>
        let '(c', w', r) := core_append cr f batch c w in
        OAppend r :: (match r with Ok _ => run_obs rest c' w' | _ => [] end)
    | WGet i :: rest =>
        let '(c', w', r) := core_get i c w in OGet r :: run_obs rest c' w'
    | WHas i :: rest => OHas (core_has c i) :: run_obs rest c w
    | WInfo :: rest => OInfo (core_info c) :: run_obs rest c w
    end.

  Theorem history_correct (ops : list wop) : forall c d j ev bs sk,
    WInv cr c d bs -> kp_secret (c_keypair c) = Some sk ->
    sumN (map len (bs ++ appended ops)) <= u64_max ->
    NODE_SIZE * (2 * N.of_nat (length (bs ++ appended ops))) <= u64_max ->
    run_obs ops c (mkWorld d j ev) = spec_obs ops bs \/
    exists k, run_obs ops c (mkWorld d j ev) = firstn k (spec_obs ops bs) ++ [OAppend (Panic frame_msg)].
  Proof.
    induction ops as [|op ops IH]; intros c d j ev bs sk W Hsk Hfit Hidx.
    - left. reflexivity.
    - destruct op as [f batch|i|i|]; cbn [run_obs spec_obs appended] in *.
      + destruct (core_append cr f batch c (mkWorld d j ev)) as [[c' w'] r] eqn:E.
        rewrite app_assoc in Hfit, Hidx.
        assert (Hfit1 : sumN (map len (bs ++ batch)) <= u64_max).
        { rewrite map_app, TreeRef.sumN_app in Hfit. lia. }
        assert (Hidx1 : NODE_SIZE * (2 * N.of_nat (length (bs ++ batch))) <= u64_max).
        { rewrite (app_length (bs ++ batch)) in Hidx. unfold NODE_SIZE in *. lia. }
        destruct (append_preserves cr Hhash32 Hnonblank f batch c d j ev bs sk c' w' r W Hsk Hfit1 Hidx1 E)
          as [->|(-> & W' & K')].
        * right. exists 0%nat. reflexivity.
        * destruct w' as [d' j' ev']. cbn [w_disk] in W'. rewrite <- K' in Hsk.
          destruct (IH c' d' j' ev' (bs ++ batch) sk W' Hsk Hfit Hidx) as [->|[k ->]].
          -- left. reflexivity.
          -- right. exists (S k). reflexivity.
      + rewrite (get_correct cr c d bs j ev i W).
        destruct (i <? N.of_nat (length bs)).
        * destruct (IH c d j ev bs sk W Hsk Hfit Hidx) as [->|[k ->]];
            [left; reflexivity|right; exists (S k); reflexivity].
        * destruct (IH c d j (EvGet i :: ev) bs sk W Hsk Hfit Hidx) as [->|[k ->]];
            [left; reflexivity|right; exists (S k); reflexivity].
      + rewrite (has_correct cr c d bs i W).
        destruct (IH c d j ev bs sk W Hsk Hfit Hidx) as [->|[k ->]];
          [left; reflexivity|right; exists (S k); reflexivity].
      + rewrite (info_correct cr c d bs W), Hsk.
        destruct (IH c d j ev bs sk W Hsk Hfit Hidx) as [->|[k ->]];
          [left; reflexivity|right; exists (S k); reflexivity].
  Qed.

  (* when no append hits the 30-bit frame guard, every observation is the list model's *)
  Corollary history_correct_no_frame_panic ops c d j ev bs sk :
    WInv cr c d bs -> kp_secret (c_keypair c) = Some sk ->
    sumN (map len (bs ++ appended ops)) <= u64_max ->
    NODE_SIZE * (2 * N.of_nat (length (bs ++ appended ops))) <= u64_max ->
    ~ In (OAppend (Panic frame_msg)) (run_obs ops c (mkWorld d j ev)) ->
    run_obs ops c (mkWorld d j ev) = spec_obs ops bs.
  Proof.
    intros W Hsk Hfit Hidx Hno.
    destruct (history_correct ops c d j ev bs sk W Hsk Hfit Hidx) as [E|[k E]]; [exact E|].
    exfalso. apply Hno. rewrite E. apply in_or_app. right. left. reflexivity.
  Qed.

End History.

(* ====================================================================================== *)
(* K. A freshly created writer satisfies the invariant                                     *)
(* ====================================================================================== *)

Section Init.
  Variable cr : crypto.

  Lemma oplog_fresh_ok kp :
    len (enc_header (header_new kp)) < 1073741824 ->
    exists buf, oplog_fresh cr kp =
      Ok (mkOplog (false, false) 0 0, header_new kp, [SW Oplog 0 buf; ST Oplog (ENTRIES_OFFSET + 0)]).
  Proof.
    intros Hsmall. unfold oplog_fresh, insert_header, INITIAL_HEADER_BITS, next_slot.
    cbn [fst snd xorb negb].
    destruct (frame cr false false (enc_header (header_new kp))) as [fr| | |] eqn:F;
      try (unfold frame in F;
           destruct (N.leb_spec 1073741824 (len (enc_header (header_new kp)))) as [A|A]; [lia|discriminate F]).
    cbn [bind]. pose proof (frame_length _ _ _ _ _ F) as L.
    destruct (N.ltb_spec (8 + 2 * len (enc_header (header_new kp))) (len fr)) as [A|A]; [lia|].
    cbn [bind]. eexists. reflexivity.
  Qed.

  Lemma oplog_open_empty kp o h ops :
    oplog_fresh cr kp = Ok (o, h, ops) ->
    oplog_open cr (Some kp) [] = Ok (mkOpenOutcome o h ops []).
  Proof.
    intros H. unfold oplog_open.
    change (slot_leader cr [] 0 HEADER_SIZE) with (@None leader).
    change (slot_leader cr [] HEADER_SIZE ENTRIES_OFFSET) with (@None leader).
    cbv iota zeta. rewrite H. cbn [bind].
    change (ENTRIES_OFFSET <? len []) with false. reflexivity.
  Qed.

  Theorem WInv_init kp :
    len (enc_header (header_new kp)) < 1073741824 ->
    exists d' ops c,
      core_open cr (Some kp) false disk_empty = (d', ops, Ok c) /\
      WInv cr c d' [] /\ c_keypair c = kp.
  Proof.
    intros Hsmall. destruct (oplog_fresh_ok kp Hsmall) as [buf Hf].
    unfold core_open. cbv iota.
    change (f_content (d_oplog disk_empty)) with (@nil N).
    rewrite (oplog_open_empty kp _ _ _ Hf). cbn [oo_ops oo_header oo_entries oo_oplog].
    cbn [apply_sops apply_sop]. cbn [d_set d_get d_tree d_data d_bitfield d_oplog disk_empty].
    cbn [header_new hd_tree].
    assert (T : tree_open (mkHeaderTree 0 0 [] []) file_empty = Ok (mkTree [] 0 0 0 None nm_empty))
      by reflexivity.
    rewrite T. cbn [bind].
    assert (Bo : bf_open file_empty = mkBf nm_empty []) by reflexivity.
    rewrite Bo. cbn [replay_entries bind hd_keypair].
    do 3 eexists. split; [reflexivity|]. split; [|reflexivity].
    unfold WInv. cbn [c_tree c_bitfield c_header t_length t_byte_length t_fork t_roots d_tree d_data
                      length map sumN concat hd_contig].
    split; [reflexivity|]. split; [reflexivity|]. split; [reflexivity|]. split; [reflexivity|].
    split. { intros dd o H. pose proof (p2_pos dd). change (N.of_nat 0) with 0 in H. nia. }
    split. { intros i n H. cbn [t_unflushed] in H. rewrite nm_get_empty in H. discriminate H. }
    split. { intros i. unfold bf_get. cbn [bf_bits]. rewrite nm_mem_empty.
             change (N.of_nat 0) with 0. destruct (N.ltb_spec i 0); [lia|reflexivity]. }
    split; [reflexivity|]. split; [reflexivity|].
    split; [unfold u64_max; lia|]. change (N.of_nat 0) with 0. unfold NODE_SIZE, u64_max. lia.
  Qed.

  (* a key pair of the right shape is enough *)
  Corollary WInv_init_keypair_ok kp :
    keypair_ok kp = true ->
    exists d' ops c,
      core_open cr (Some kp) false disk_empty = (d', ops, Ok c) /\
      WInv cr c d' [] /\ c_keypair c = kp.
  Proof.
    intros H. apply WInv_init. pose proof (header_new_len kp H). lia.
  Qed.
End Init.

(* ====================================================================================== *)
(* L. From creation: every history of a fresh writer                                       *)
(* ====================================================================================== *)

Section Fresh.
  Variable cr : crypto.
  Hypothesis Hhash32 : forall x, length (cr_hash cr x) = 32%nat.
  Hypothesis Hnonblank : forall x, all_zero (cr_hash cr x) = false.

  Theorem fresh_history_correct kp sk ops :
    keypair_ok kp = true -> kp_secret kp = Some sk ->
    sumN (map len (appended ops)) <= u64_max ->
    NODE_SIZE * (2 * N.of_nat (length (appended ops))) <= u64_max ->
    exists d0 ops0 c0,
      core_open cr (Some kp) false disk_empty = (d0, ops0, Ok c0) /\
      (run_obs cr ops c0 (mkWorld d0 [] []) = spec_obs ops [] \/
       exists k, run_obs cr ops c0 (mkWorld d0 [] []) =
                 firstn k (spec_obs ops []) ++ [OAppend (Panic frame_msg)]).
  Proof.
    intros Hkp Hsk Hfit Hidx.
    destruct (WInv_init_keypair_ok cr kp Hkp) as (d0 & ops0 & c0 & Ho & W & K).
    exists d0, ops0, c0. split; [exact Ho|].
    apply (history_correct cr Hhash32 Hnonblank ops c0 d0 [] [] [] sk W); [rewrite K; exact Hsk|exact Hfit|exact Hidx].
  Qed.
End Fresh.

(* ====================================================================================== *)
(* M. Non-vacuity: a toy crypto record satisfying the two hypotheses, and a concrete run   *)
(* ====================================================================================== *)

Definition toy_cr : crypto :=
  mkCrypto (fun _ => repeat 7 32%nat) (fun _ => 0) (fun _ _ => repeat 1 64%nat) (fun _ _ _ => true).

Lemma toy_hash32 : forall x, length (cr_hash toy_cr x) = 32%nat.
Proof. reflexivity. Qed.

Lemma toy_nonblank : forall x, all_zero (cr_hash toy_cr x) = false.
Proof. reflexivity. Qed.

Definition toy_keypair : keypair := mkKeypair (repeat 1 32%nat) (Some (repeat 2 32%nat)).

Definition toy_ops : list wop :=
  [WAppend (Some false) [[1; 2; 3]; []; [4]]; WGet 1; WGet 0; WInfo;
   WAppend (Some true) [[5; 6]]; WGet 3; WGet 2; WGet 9; WHas 3; WHas 4;
   WAppend None []; WAppend None [[]; [7]]; WInfo; WGet 5; WGet 4].

Example toy_history :
  keypair_ok toy_keypair = true /\
  match core_open toy_cr (Some toy_keypair) false disk_empty with
  | (d0, _, Ok c0) => run_obs toy_cr toy_ops c0 (mkWorld d0 [] []) = spec_obs toy_ops []
  | _ => False
  end.
Proof. split; vm_compute; reflexivity. Qed.

(* The hypothesis "no hash is all zeros" cannot be dropped: a node whose hash is 32 zero bytes is
   treated as blank (missing) by node_get, and the block just appended cannot be read back. *)
Definition zero_cr : crypto :=
  mkCrypto (fun _ => repeat 0 32%nat) (fun _ => 0) (fun _ _ => repeat 1 64%nat) (fun _ _ _ => true).

Example blank_hash_breaks_reads :
  match core_open zero_cr (Some toy_keypair) false disk_empty with
  | (d0, _, Ok c0) =>
      run_obs zero_cr [WAppend (Some false) [[1; 2; 3]]; WGet 0] c0 (mkWorld d0 [] []) =
      [OAppend (Ok (1, 3)); OGet (Err InvalidOperation)]
  | _ => False
  end.
Proof. vm_compute. reflexivity. Qed.

Print Assumptions ref_node_app.
Print Assumptions ref_roots_app.
Print Assumptions merge_complete.
Print Assumptions cs_append_all_complete.
Print Assumptions commit_lookups.
Print Assumptions tree_flush_preserves_lookups.
Print Assumptions byte_offset_ref.
Print Assumptions byte_range_correct.
Print Assumptions get_correct.
Print Assumptions has_correct.
Print Assumptions info_correct.
Print Assumptions WInv_data_reads.
Print Assumptions log_and_commit_spec.
Print Assumptions flush_all_preserves.
Print Assumptions maybe_flush_preserves.
Print Assumptions append_body_preserves.
Print Assumptions append_preserves.
Print Assumptions append_preserves_noflush.
Print Assumptions history_correct.
Print Assumptions history_correct_no_frame_panic.
Print Assumptions WInv_init.
Print Assumptions WInv_init_keypair_ok.
Print Assumptions fresh_history_correct.
Print Assumptions toy_history.
Print Assumptions blank_hash_breaks_reads.

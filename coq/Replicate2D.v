(* Replicate2D.v -- C03, class D (part): hash sections.
   A hash request names a tree node by its flat index; the proof carries the node and the siblings up
   to a node the replica stores. *)
From HC Require Import Base NMap Codec CodecFacts Crypto FlatTree Storage Oplog Merkle Core.
From HC Require Import FlatTreeFacts Sound NoPanic TreeRef OffsetFacts CoreFacts Refine Replicate Replicate2.
From Coq Require Import FMapPositive ZifyN ZifyNat ZifyBool.
Ltac Zify.zify_post_hook ::= Z.div_mod_to_equations.
Arguments N.add : simpl never.
Arguments N.sub : simpl never.
Arguments N.mul : simpl never.
Arguments N.div : simpl never.
Arguments N.modulo : simpl never.
Arguments N.pow : simpl never.
Arguments N.eqb : simpl never.
Arguments N.ltb : simpl never.
Arguments N.leb : simpl never.
Arguments N.of_nat : simpl never.
Arguments N.to_nat : simpl never.
Arguments N.log2 : simpl never.

(* ---------- missing_nodes and nodes_to_root in (depth, offset) coordinates ---------- *)

Lemma it_up_coord : forall n d a, it_up n (it_at (N.of_nat d) a) = it_at (N.of_nat (d + n)) (a / p2 n).
Proof. intros n d a. rewrite (it_up_up_n _ _ (wf_at _ _)). apply it_up_n_coord. Qed.

Lemma covers_head_false d o h : (o + 1) * p2 d <= h -> it_contains (it_at (N.of_nat d) o) (2 * h) = false.
Proof.
  intros H. rewrite it_contains_covers. unfold covers. cbn [fst snd]. apply andb_false_iff. right.
  destruct (N.ltb_spec h ((o + 1) * p2 d)); [lia|reflexivity].
Qed.

(* spans of the ancestors are nested: if the k-th ancestor ends below h, so do the earlier ones *)
Lemma anc_span_le a j k d : (j <= k)%nat ->
  (a / p2 j + 1) * p2 (d + j) <= (a / p2 k + 1) * p2 (d + k).
Proof.
  intros Hjk. replace k with (j + (k - j))%nat at 1 2 by lia.
  set (e := (k - j)%nat). rewrite Nat.add_assoc, (p2_add (d + j) e).
  assert (E : a / p2 (j + e) = a / p2 j / p2 e).
  { rewrite p2_add, N.div_div; [reflexivity| |]; pose proof (p2_pos j); pose proof (p2_pos e); lia. }
  rewrite E. set (b := a / p2 j). pose proof (p2_pos e) as He. pose proof (p2_pos (d + j)) as Hd.
  assert (b + 1 <= (b / p2 e + 1) * p2 e).
  { pose proof (N.div_mod' b (p2 e)). pose proof (N.mod_lt b (p2 e) ltac:(lia)). nia. }
  apply (N.mul_le_mono_r _ _ (p2 (d + j))) in H. lia.
Qed.

Lemma nodes_to_root_coord d a k h :
  (k < CLIMB)%nat -> (a / p2 k + 1) * p2 (d + k) <= h ->
  nodes_to_root (ft_index (N.of_nat d) a) (N.of_nat k) (2 * h) = Ok (ft_index (N.of_nat (d + k)) (a / p2 k)).
Proof.
  intros Hk Hh. unfold nodes_to_root. rewrite FlatTreeFacts.it_new_index.
  rewrite nodes_to_root_loop_ok.
  - rewrite Nat2N.id, it_up_coord. reflexivity.
  - rewrite Nat2N.id. exact Hk.
  - intros j Hj. rewrite Nat2N.id in Hj. rewrite it_up_coord. apply covers_head_false.
    pose proof (anc_span_le a j k d ltac:(lia)). lia.
Qed.

(* the replica's count for the node (d, a): the first k levels are absent, level k is stored or reaches
   the replica's head *)
Lemma missing_nodes_coord rt rtf d a k :
  missing_nodes rt rtf (ft_index (N.of_nat d) a) = Ok k -> (a + 1) * p2 d <= t_length rt ->
  let kk := N.to_nat k in
  (kk < CLIMB)%nat /\
  (it_contains (it_at (N.of_nat (d + kk)) (a / p2 kk)) (2 * t_length rt) = true \/
   exists n, optional_node rt rtf (ft_index (N.of_nat (d + kk)) (a / p2 kk)) = Ok (Some n)).
Proof.
  unfold missing_nodes. intros H Hin. rewrite FlatTreeFacts.it_new_index in H.
  assert (E : it_right_span_index (it_at (N.of_nat d) a) + 2 = 2 * ((a + 1) * p2 d)).
  { rewrite it_right_span_index_hi. apply hi_at. }
  destruct (N.leb_spec (2 * t_length rt) (it_right_span_index (it_at (N.of_nat d) a))) as [L|_]; [lia|].
  apply missing_loop_inv in H. destruct H as (m & -> & Hm & _ & Hend).
  cbv zeta. replace (N.to_nat (0 + N.of_nat m)) with m by lia.
  rewrite it_up_coord in Hend. split; [exact Hm|].
  destruct Hend as [Hc|[_ Hs]]; [left; exact Hc|right; exact Hs].
Qed.

Section HashSection.
  Variable cr : crypto.
  Variable bs : list bytes.
  Hypothesis total_fits : sumN (map len bs) <= u64_max.

  (* the nodes of the hash section for the node (d, a) with n levels of siblings *)
  Definition hash_nodes (n d : nat) (a : N) : list node :=
    ref_node cr bs d a :: map (rn cr bs) (path_idx n d a).

  (* ---------- the prover ---------- *)
  Lemma block_and_seek_hash t tf w (Hlook : lookups cr t tf bs w) d a nodes last sr n xo p :
    xo * p2 n <= a -> a < (xo + 1) * p2 n -> (xo + 1) * p2 (d + n) <= w -> (n < CLIMB)%nat ->
    block_and_seek_proof t tf (Some (mkIndexed false (ft_index (N.of_nat d) a) nodes last)) false sr
                         (ft_index (N.of_nat (d + n)) xo) p
    = Ok (mkLp (lp_seek p) (Some (hash_nodes n d a)) (lp_upgrade p) (lp_additional p)).
  Proof.
    intros H1 H2 Hw Hn. unfold block_and_seek_proof. cbn [ix_index ix_value].
    rewrite FlatTreeFacts.it_new_index.
    pose proof (p2_pos d) as Hpd. pose proof (p2_pos n) as Hpn.
    assert (Hsub : (a + 1) * p2 d <= (xo + 1) * p2 (d + n)).
    { rewrite p2_add. assert (a + 1 <= (xo + 1) * p2 n) by lia.
      apply (N.mul_le_mono_r _ _ (p2 d)) in H. lia. }
    assert (Hc : it_contains (it_at (N.of_nat (d + n)) xo) (ft_index (N.of_nat d) a) = true).
    { apply (it_contains_spec _ _ (wf_at _ _)).
      pose proof (lo_at (N.of_nat (d + n)) xo) as Hlo. pose proof (hi_at (N.of_nat (d + n)) xo) as Hhi.
      fold (p2 (d + n)) in Hlo, Hhi.
      pose proof (ft_index_succ (N.of_nat d) a) as Hix. fold (p2 d) in Hix.
      assert (xo * p2 (d + n) <= a * p2 d).
      { rewrite p2_add. apply (N.mul_le_mono_r _ _ (p2 d)) in H1. lia. }
      lia. }
    rewrite Hc. cbn [negb bind].
    rewrite (Hlook d a) by lia. cbn [bind]. rewrite FlatTreeFacts.it_new_index.
    rewrite (block_loop_spec cr bs total_fits t tf w Hlook sr p n d a CLIMB [ref_node cr bs d a] xo Hn H1 H2 Hw).
    cbn [bind rev app]. reflexivity.
  Qed.

  (* ---------- the verifier ---------- *)
  Lemma verify_tree_hash_ref d a n xo c :
    (n < CLIMB)%nat -> xo * p2 n <= a -> a < (xo + 1) * p2 n ->
    exists vis,
      verify_tree cr None (Some (mkDataHash (ft_index (N.of_nat d) a) (hash_nodes n d a))) None c
      = Ok (Some (ref_node cr bs (d + n) xo), cs_push_nodes c (ref_node cr bs d a :: vis)) /\
      Forall (is_ref cr bs) vis /\ (forall x, In x (path_idx n d a) -> In (rn cr bs x) vis).
  Proof.
    intros Hn H1 H2.
    destruct (climb_ref_spec cr bs total_fits n d a (S (S (length (hash_nodes n d a)))) [ref_node cr bs d a] xo)
      as (vis & Hc & Hv & Hin); [|exact H1|exact H2|].
    { unfold hash_nodes. cbn [length]. rewrite map_length.
      assert (L : forall m d a, length (path_idx m d a) = m) by (induction m; intros; cbn [path_idx length]; auto).
      rewrite L. lia. }
    exists vis. split; [|auto].
    unfold verify_tree. cbn [dh_index dh_nodes bind]. rewrite FlatTreeFacts.it_new_index.
    unfold hash_nodes at 1. unfold q_shift at 1. cbn [q_extra q_nodes it_at it_index].
    rewrite ref_node_index, N.eqb_refl. cbn [bind]. fold (it_at (N.of_nat d) a).
    rewrite Hc. cbn [bind app]. reflexivity.
  Qed.

  (* Class D, hash sections (no upgrade): the replica asks for the node (d, a) inside its tree with its own
     missing-node count k, which ended on a node it stores *)
  Theorem hash_request_served t tf rt rtf w d a k pk :
    lookups cr t tf bs w -> t_length t = w -> 0 < w -> t_length rt <= w -> 2 * w <= u64_max ->
    (forall j n, optional_node rt rtf j = Ok (Some n) -> n_hash n = n_hash (ref_at cr bs j)) ->
    (a + 1) * p2 d <= t_length rt ->
    missing_nodes rt rtf (ft_index (N.of_nat d) a) = Ok k ->
    let kk := N.to_nat k in
    (a / p2 kk + 1) * p2 (d + kk) <= t_length rt ->     (* not the head case *)
    let ns := hash_nodes kk d a in
    exists cs,
      create_valueless_proof t tf None (Some (mkReqBlock (ft_index (N.of_nat d) a) k)) None None
        = Ok (mkVproof (t_fork t) None (Some (mkDataHash (ft_index (N.of_nat d) a) ns)) None None) /\
      verify_proof cr rt rtf (mkProof (t_fork t) None (Some (mkDataHash (ft_index (N.of_nat d) a) ns)) None None) pk = Ok cs /\
      cs_upgraded cs = false /\ commitable rt cs = true /\ cs_roots cs = t_roots rt /\
      Forall (is_ref cr bs) (cs_nodes cs) /\ (forall n, In n ns -> In n (cs_nodes cs)).
  Proof.
    intros Hlook Hl Hw0 Hrw H64 Hrep Hin Hm kk Htop ns.
    destruct (missing_nodes_coord rt rtf d a k Hm Hin) as (Hfuel & Hend). fold kk in Hfuel, Hend.
    set (o := a / p2 kk) in *.
    destruct Hend as [Hc|(n0 & Hn0)].
    { rewrite covers_head_false in Hc by exact Htop. discriminate Hc. }
    pose proof (p2_pos kk) as Hpk.
    assert (Ho1 : o * p2 kk <= a) by (unfold o; nia).
    assert (Ho2 : a < (o + 1) * p2 kk).
    { unfold o. pose proof (N.mod_lt a (p2 kk) ltac:(lia)). pose proof (N.div_mod' a (p2 kk)). nia. }
    assert (Hcreate : create_valueless_proof t tf None (Some (mkReqBlock (ft_index (N.of_nat d) a) k)) None None
                      = Ok (mkVproof (t_fork t) None (Some (mkDataHash (ft_index (N.of_nat d) a) ns)) None None)).
    { unfold create_valueless_proof, normalize_indexed. cbn [rb_index rb_nodes bind]. rewrite Hl.
      destruct (N.leb_spec (2 * w) 0) as [L1|_]; [lia|].
      destruct (N.ltb_spec (2 * w) (2 * w)) as [L2|_]; [lia|]. cbn [orb negb andb bind ix_last ix_index ix_nodes].
      replace k with (N.of_nat kk) at 1 by (unfold kk; lia).
      rewrite (nodes_to_root_coord d a kk w Hfuel ltac:(fold o; lia)). cbn [bind]. fold o.
      rewrite (block_and_seek_hash t tf w Hlook d a k _ (2 * w) kk o lp_empty Ho1 Ho2 ltac:(lia) Hfuel).
      cbn [bind negb lp_seek lp_nodes lp_upgrade lp_additional lp_empty]. reflexivity. }
    destruct (verify_tree_hash_ref d a kk o (tree_changeset rt) Hfuel Ho1 Ho2) as (vis & Hvt & Hvis & Hvin).
    fold ns in Hvt.
    exists (cs_push_nodes (tree_changeset rt) (ref_node cr bs d a :: vis)).
    split; [exact Hcreate|]. split.
    { unfold verify_proof. cbn [p_block p_hash p_seek p_upgrade p_fork]. rewrite Hvt. cbn [bind].
      rewrite ref_node_index, (optional_required _ _ _ _ Hn0). cbn [bind].
      assert (B : bytes_eqb (n_hash n0) (n_hash (ref_node cr bs (d + kk) o)) = true).
      { apply bytes_eqb_eq. rewrite (Hrep _ _ Hn0), ref_at_index. reflexivity. }
      rewrite B. reflexivity. }
    split; [reflexivity|]. split.
    { unfold commitable. cbn [cs_push_nodes tree_changeset cs_orig_fork cs_orig_length cs_upgraded].
      rewrite N.eqb_refl. cbn [andb]. apply N.leb_le. lia. }
    split; [reflexivity|]. rewrite cs_nodes_push_fresh. split.
    { constructor; [apply ref_node_is_ref|exact Hvis]. }
    intros n [<-|Hn]; [left; reflexivity|]. right.
    apply in_map_iff in Hn. destruct Hn as (x & <- & Hx). apply Hvin, Hx.
  Qed.
End HashSection.

(* the toy instance: the replica of length 3 asks for the hash of leaf 1 (flat index 2) *)
Example ex_hash_request_applies :
  missing_nodes ex_r3 file_empty (ft_index (N.of_nat 0) 1) = Ok 1 /\
  map n_index (hash_nodes ex_cr ex_blocks 1 0 1) = [2; 0] /\
  exists cs,
    create_valueless_proof ex_wt file_empty None (Some (mkReqBlock 2 1)) None None
      = Ok (mkVproof (t_fork ex_wt) None (Some (mkDataHash 2 (hash_nodes ex_cr ex_blocks 1 0 1))) None None) /\
    verify_proof ex_cr ex_r3 file_empty
      (mkProof (t_fork ex_wt) None (Some (mkDataHash 2 (hash_nodes ex_cr ex_blocks 1 0 1))) None None) ex_key = Ok cs /\
    commitable ex_r3 cs = true /\ In (ref_node ex_cr ex_blocks 0 1) (cs_nodes cs).
Proof.
  split; [vm_compute; reflexivity|]. split; [vm_compute; reflexivity|].
  destruct (hash_request_served ex_cr ex_blocks ltac:(vm_compute; discriminate)
              ex_wt file_empty ex_r3 file_empty 5 0 1 1 ex_key)
    as (cs & Hc & Hv & _ & Hcm & _ & _ & Hin).
  - exact ex_lookups5.
  - vm_compute. reflexivity.
  - lia.
  - vm_compute. discriminate.
  - vm_compute. discriminate.
  - exact ex_r3_stored.
  - vm_compute. discriminate.
  - vm_compute. reflexivity.
  - vm_compute. discriminate.
  - exists cs. cbv zeta in Hc, Hv, Hin. change (N.to_nat 1) with 1%nat in Hc, Hv, Hin.
    change (ft_index (N.of_nat 0) 1) with 2 in Hc, Hv.
    split; [exact Hc|]. split; [exact Hv|]. split; [exact Hcm|]. apply Hin. left. reflexivity.
Qed.


(* ====================================================================================== *)
(* the upgrade loop with a sub-tree section, in general (block, hash or seek section)      *)
(* ====================================================================================== *)

Section GEmit.
  Variable cr : crypto.
  Variable bs : list bytes.
  Hypothesis total_fits : sumN (map len bs) <= u64_max.

  Section GEmitProver.
    Variable t : mtree.
    Variable tf : file.
    Variable w : N.
    Hypothesis Hlook : lookups cr t tf bs w.
    Variable ix : option indexed.
    Variable is_seek : bool.
    Variable sub : N.
    Variable inside : nat * N -> bool.
    Variable sec : nat * N -> list node.
    Variable put_sec : local_proof -> list node -> local_proof.
    Hypothesis Hinside : forall d o, it_contains (it_at (N.of_nat d) o) sub = inside (d, o).
    Hypothesis Hsec : forall d o p, inside (d, o) = true -> (o + 1) * p2 d <= w -> (d < CLIMB)%nat ->
      block_and_seek_proof t tf ix is_seek sub (ft_index (N.of_nat d) o) p = Ok (put_sec p (sec (d, o))).

    (* the node that contains the requested sub-tree is replaced by the section computed for it (once) *)
    Fixpoint gemit_all (l : list (nat * N)) (p : local_proof) (acc : list node) : local_proof * list node :=
      match l with
      | [] => (p, acc)
      | x :: l' =>
          if pempty p && inside x
          then gemit_all l' (put_sec p (sec x)) acc
          else gemit_all l' p (acc ++ [rn cr bs x])
      end.

    Lemma gemit_all_app l1 : forall l2 p acc,
      gemit_all (l1 ++ l2) p acc = gemit_all l2 (fst (gemit_all l1 p acc)) (snd (gemit_all l1 p acc)).
    Proof.
      induction l1 as [|x l1 IH]; intros l2 p acc; cbn [app gemit_all]; [reflexivity|].
      destruct (pempty p && inside x); apply IH.
    Qed.

    Lemma gemit_all_outside l : forall p acc,
      (forall x, In x l -> inside x = false) -> gemit_all l p acc = (p, acc ++ map (rn cr bs) l).
    Proof.
      induction l as [|x l IH]; intros p acc H; cbn [gemit_all map].
      - rewrite app_nil_r. reflexivity.
      - rewrite (H x) by (left; reflexivity). rewrite andb_false_r.
        rewrite IH by (intros y Hy; apply H; right; exact Hy). rewrite <- app_assoc. reflexivity.
    Qed.

    Lemma gemit_all_nonempty l : forall p acc,
      pempty p = false -> gemit_all l p acc = (p, acc ++ map (rn cr bs) l).
    Proof.
      induction l as [|x l IH]; intros p acc H; cbn [gemit_all map].
      - rewrite app_nil_r. reflexivity.
      - rewrite H. cbn [andb]. rewrite IH by exact H. rewrite <- app_assoc. reflexivity.
    Qed.

    Lemma gconnect_emit : forall n d a fuel p acc xo tl,
      (n < fuel)%nat -> (d + n < CLIMB)%nat -> xo * p2 n <= a -> a < (xo + 1) * p2 n ->
      (xo + 1) * p2 (d + n) <= w -> a * p2 d <= tl -> tl < (a + 1) * p2 d ->
      connect_loop fuel t tf (it_at (N.of_nat d) a) (ft_index (N.of_nat (d + n)) xo) (2 * tl)
                   ix is_seek sub true p acc
      = Ok (gemit_all (conn_idx n d a) p acc).
    Proof.
      induction n as [|n IH]; intros d a fuel p acc xo tl Hf Hc H1 H2 Hw T1 T2;
        (destruct fuel as [|f]; [lia|]); cbn [connect_loop conn_idx].
      - rewrite p2_0 in *. assert (a = xo) as -> by lia. rewrite Nat.add_0_r.
        unfold it_at at 1. cbn [it_index]. rewrite N.eqb_refl. reflexivity.
      - destruct (N.eqb_spec (it_index (it_at (N.of_nat d) a)) (ft_index (N.of_nat (d + S n)) xo)) as [Ei|Ei].
        { unfold it_at in Ei. cbn [it_index] in Ei. apply ft_index_inj in Ei. lia. }
        rewrite p2_S in H1, H2. pose proof (p2_pos d) as Hpd. pose proof (p2_pos n) as Hpn.
        assert (Ew : p2 (d + S n) = 2 * (p2 n * p2 d)) by (rewrite p2_add, p2_S; lia).
        replace (d + S n)%nat with (S d + n)%nat in * by lia.
        pose proof (ft_index_succ (N.of_nat d) (a + 1)) as Hi1. fold (p2 d) in Hi1.
        destruct (N.even a) eqn:Ea.
        + rewrite FlatTreeFacts.even_mod in Ea.
          rewrite it_sibling_at_even by (rewrite FlatTreeFacts.even_mod; lia).
          unfold it_at at 1. cbn [it_index].
          destruct (N.ltb_spec (2 * tl) (ft_index (N.of_nat d) (a + 1))) as [Lt|Lt]; [|lia].
          assert (Ha2 : a + 2 <= (xo + 1) * (2 * p2 n)) by lia.
          assert (Hsub : (a + 1 + 1) * p2 d <= (xo + 1) * p2 (S d + n)).
          { rewrite Ew. replace (a + 1 + 1) with (a + 2) by lia.
            apply (N.mul_le_mono_r _ _ (p2 d)) in Ha2. lia. }
          rewrite Hinside. cbn [andb app gemit_all]. fold (pempty p).
          destruct (pempty p && inside (d, a + 1)) eqn:Eb.
          * apply andb_true_iff in Eb. destruct Eb as [_ Eb].
            unfold it_at at 1. cbn [it_index].
            rewrite (Hsec d (a + 1) p Eb); try lia.
            cbn [bind]. rewrite it_parent_at. replace ((a + 1) / 2) with (a / 2) by lia. rewrite it_at_nat_S.
            apply IH; try lia.
            -- rewrite p2_S. replace a with (2 * (a / 2)) in T1 by lia. lia.
            -- rewrite p2_S. replace a with (2 * (a / 2)) in T2 by lia. lia.
          * unfold it_at at 1. cbn [it_index].
            rewrite (Hlook d (a + 1)) by lia. cbn [bind].
            rewrite it_parent_at. replace ((a + 1) / 2) with (a / 2) by lia. rewrite it_at_nat_S.
            apply IH; try lia.
            -- rewrite p2_S. replace a with (2 * (a / 2)) in T1 by lia. lia.
            -- rewrite p2_S. replace a with (2 * (a / 2)) in T2 by lia. lia.
        + assert (Eo : a mod 2 = 1) by (rewrite FlatTreeFacts.even_mod in Ea; lia).
          rewrite it_sibling_at_odd by (rewrite FlatTreeFacts.odd_mod; lia).
          pose proof (ft_index_succ (N.of_nat d) (a - 1)) as Hi2. fold (p2 d) in Hi2.
          unfold it_at at 1. cbn [it_index].
          destruct (N.ltb_spec (2 * tl) (ft_index (N.of_nat d) (a - 1))) as [Lt|Lt].
          { exfalso. replace (2 * (a - 1) + 1) with (2 * a - 1) in Hi2 by lia.
            assert (p2 d * (2 * a - 1) <= 2 * (a * p2 d)) by nia. lia. }
          cbn [bind app].
          rewrite it_parent_at. replace ((a - 1) / 2) with (a / 2) by lia. rewrite it_at_nat_S.
          apply IH; try lia.
          * rewrite p2_S. replace a with (2 * (a / 2) + 1) in T1 by lia. lia.
          * rewrite p2_S. replace a with (2 * (a / 2) + 1) in T2 by lia. lia.
    Qed.

    Lemma grest_emit r u :
      u <= w ->
      forall g fuel X p acc,
      (g < fuel)%nat -> (g < CLIMB)%nat -> pref X u -> u - X < p2 g -> r <= X ->
      upgrade_loop fuel t tf (mkIter (2 * X) X 2) (2 * r) (2 * u) ix is_seek sub true true p acc
      = Ok (fst (gemit_all (roots_from g X u) p acc), snd (gemit_all (roots_from g X u) p acc), true).
    Proof.
      intros Huw. induction g as [|g IH]; intros fuel X p acc Hf Hgc HP Hg HrX;
        (destruct fuel as [|f]; [lia|]); cbn [upgrade_loop roots_from].
      - rewrite p2_0 in Hg. pose proof HP as (_ & _ & _ & Hle & _). assert (X = u) as -> by lia.
        pose proof (full_root_none u u ltac:(lia)) as Hn.
        destruct (it_full_root (mkIter (2 * u) u 2) (2 * u)) as [found it1]. cbn [fst] in Hn. subst found.
        reflexivity.
      - destruct (N.leb_spec u X) as [L|L].
        + pose proof HP as (_ & _ & _ & Hle & _). assert (X = u) as -> by lia.
          pose proof (full_root_none u u ltac:(lia)) as Hn.
          destruct (it_full_root (mkIter (2 * u) u 2) (2 * u)) as [found it1]. cbn [fst] in Hn. subst found.
          reflexivity.
        + destruct (pref_step X u HP L) as (m & EX & H1 & H2 & HP' & Ed). cbv zeta in *.
          pose proof EX as EX2. pose proof H2 as H22. rewrite p2_S in EX2, H22.
          set (k := log2n (u - X)) in *. pose proof (p2_pos k) as Hpk.
          assert (Hkg : (k <= g)%nat).
          { assert (k < S g)%nat by (apply p2_lt_mono; lia). lia. }
          assert (Hk : p2 k <= p2 g) by (apply p2_le_mono; exact Hkg).
          rewrite (full_root_at u X k m EX H1 H2). cbn [negb].
          rewrite (it_at_right_end bs total_fits).
          destruct (N.ltb_spec (2 * ((2 * m + 1) * p2 k) - 1) (2 * r)) as [Lt|Lt]; [lia|].
          cbn [andb]. rewrite Hinside, Ed. cbn [gemit_all]. fold (pempty p).
          destruct (pempty p && inside (k, 2 * m)) eqn:Eb.
          * apply andb_true_iff in Eb. destruct Eb as [_ Eb].
            unfold it_at at 1. cbn [it_index].
            rewrite (Hsec k (2 * m) p Eb); try lia.
            cbn [bind]. rewrite next_tree_at. replace ((2 * m + 1) * p2 k) with (X + p2 k) by lia.
            apply IH; [lia|lia|exact HP'|lia|lia].
          * unfold it_at at 1. cbn [it_index].
            rewrite (Hlook k (2 * m)) by lia. cbn [bind]. rewrite next_tree_at.
            replace ((2 * m + 1) * p2 k) with (X + p2 k) by lia.
            apply IH; [lia|lia|exact HP'|lia|lia].
    Qed.

    Lemma gmain_emit r u :
      0 < r -> r < u -> u <= w ->
      forall g fuel X p acc,
      (g < fuel)%nat -> (g < CLIMB)%nat -> pref X u -> u - X < p2 g -> X <= r ->
      upgrade_loop fuel t tf (mkIter (2 * X) X 2) (2 * r) (2 * u) ix is_seek sub true false p acc
      = Ok (fst (gemit_all (upg_idx g X r u) p acc), snd (gemit_all (upg_idx g X r u) p acc), true).
    Proof.
      intros Hr Hru Huw. induction g as [|g IH]; intros fuel X p acc Hf Hgc HP Hg HXr.
      { rewrite p2_0 in Hg. lia. }
      destruct fuel as [|f]; [lia|].
      assert (L : X < u) by lia.
      destruct (pref_step X u HP L) as (m & EX & H1 & H2 & HP' & Ed). cbv zeta in *.
      pose proof EX as EX2. pose proof H2 as H22. rewrite p2_S in EX2, H22.
      cbn [upgrade_loop upg_idx]. destruct (N.leb_spec u X) as [L'|_]; [lia|]. cbv zeta.
      set (k := log2n (u - X)) in *. pose proof (p2_pos k) as Hpk.
      assert (Hkg : (k <= g)%nat).
      { assert (k < S g)%nat by (apply p2_lt_mono; lia). lia. }
      assert (Hk : p2 k <= p2 g) by (apply p2_le_mono; exact Hkg).
      rewrite (full_root_at u X k m EX H1 H2). cbn [negb].
      rewrite (it_at_right_end bs total_fits).
      destruct (N.leb_spec (X + p2 k) r) as [Lm|Lm].
      - destruct (N.ltb_spec (2 * ((2 * m + 1) * p2 k) - 1) (2 * r)) as [Lt|Lt]; [|lia].
        rewrite next_tree_at. replace ((2 * m + 1) * p2 k) with (X + p2 k) by lia.
        apply IH; [lia|lia|exact HP'|lia|exact Lm].
      - destruct (N.ltb_spec (2 * ((2 * m + 1) * p2 k) - 1) (2 * r)) as [Lt|Lt]; [lia|].
        cbn [negb andb].
        pose proof (it_contains_spec (it_at (N.of_nat k) (2 * m)) (2 * r - 2) (wf_at _ _)) as Hc.
        pose proof (lo_at (N.of_nat k) (2 * m)) as Hlo. pose proof (hi_at (N.of_nat k) (2 * m)) as Hhi.
        fold (p2 k) in Hlo, Hhi.
        destruct (N.ltb_spec X r) as [Lr|Lr].
        + destruct (it_contains (it_at (N.of_nat k) (2 * m)) (2 * r - 2)) eqn:Ec.
          2:{ exfalso. assert (Hft : false = true) by (apply Hc; lia). discriminate Hft. }
          replace (2 * r - 2) with (2 * (r - 1)) by lia. rewrite it_new_leaf2.
          change (it_at 0 (r - 1)) with (it_at (N.of_nat 0) (r - 1)).
          change (it_index (it_at (N.of_nat k) (2 * m))) with (ft_index (N.of_nat (0 + k)) (2 * m)).
          rewrite (gconnect_emit k 0 (r - 1) CLIMB p acc (2 * m) (r - 1));
            [|lia|cbn [Nat.add]; lia|lia|lia|cbn [Nat.add]; lia|rewrite p2_0; lia|rewrite p2_0; lia].
          rewrite gemit_all_app.
          destruct (gemit_all (conn_idx k 0 (r - 1)) p acc) as [p1 acc1]. cbn [bind fst snd].
          rewrite next_tree_at. replace ((2 * m + 1) * p2 k) with (X + p2 k) by lia.
          apply (grest_emit r u Huw g f (X + p2 k)); [lia|lia|exact HP'|lia|lia].
        + assert (EXr : X = r) by lia.
          destruct (it_contains (it_at (N.of_nat k) (2 * m)) (2 * r - 2)) eqn:Ec.
          { exfalso. destruct Hc as [Hc _]. specialize (Hc eq_refl). lia. }
          pose proof (grest_emit r u Huw (S g) (S f) X p acc ltac:(lia) Hgc HP Hg ltac:(lia)) as Hrest.
          cbn [upgrade_loop] in Hrest. rewrite (full_root_at u X k m EX H1 H2) in Hrest. cbn [negb] in Hrest.
          rewrite (it_at_right_end bs total_fits) in Hrest.
          destruct (N.ltb_spec (2 * ((2 * m + 1) * p2 k) - 1) (2 * r)) as [Lt'|_]; [lia|].
          cbn [negb andb] in Hrest. exact Hrest.
    Qed.
  End GEmitProver.
End GEmit.


(* ====================================================================================== *)
(* hash or seek section inside the upgraded range                                           *)
(* ====================================================================================== *)

(* a flat index inside the flat span of (d, o) belongs to a node below (d, o) *)
Lemma it_contains_node d o dS aS :
  it_contains (it_at (N.of_nat d) o) (ft_index (N.of_nat dS) aS) = true ->
  (dS <= d)%nat /\ o * p2 (d - dS) <= aS /\ aS < (o + 1) * p2 (d - dS).
Proof.
  intros H. apply (it_contains_spec _ _ (wf_at _ _)) in H.
  pose proof (lo_at (N.of_nat d) o) as Hlo. pose proof (hi_at (N.of_nat d) o) as Hhi. fold (p2 d) in Hlo, Hhi.
  pose proof (ft_index_succ (N.of_nat dS) aS) as Hix. fold (p2 dS) in Hix.
  pose proof (p2_pos d) as Hpd. pose proof (p2_pos dS) as HpS.
  assert (Hd : (dS <= d)%nat).
  { destruct (Nat.le_gt_cases dS d) as [L|L]; [exact L|]. exfalso.
    assert (E : p2 dS = p2 (dS - S d) * (2 * p2 d)) by (rewrite <- p2_S, <- p2_add; f_equal; lia).
    pose proof (p2_pos (dS - S d)) as Hq. set (q := p2 (dS - S d)) in *.
    (* q * (2 aS + 1) * 2 p2 d lies strictly between o * 2 p2 d and (o + 1) * 2 p2 d *)
    assert (A : o * (2 * p2 d) < q * (2 * aS + 1) * (2 * p2 d)) by nia.
    assert (B : q * (2 * aS + 1) * (2 * p2 d) < (o + 1) * (2 * p2 d)) by nia.
    apply N.mul_lt_mono_pos_r in A; [|lia]. apply N.mul_lt_mono_pos_r in B; [|lia]. lia. }
  split; [exact Hd|].
  assert (E : p2 d = p2 (d - dS) * p2 dS) by (rewrite <- p2_add; f_equal; lia).
  pose proof (p2_pos (d - dS)) as He. set (e := p2 (d - dS)) in *.
  assert (A : 2 * o * e * p2 dS < (2 * aS + 1) * p2 dS) by nia.
  assert (B : (2 * aS + 1) * p2 dS < 2 * (o + 1) * e * p2 dS) by nia.
  apply N.mul_lt_mono_pos_r in A; [|lia]. apply N.mul_lt_mono_pos_r in B; [|lia]. lia.
Qed.

Lemma first_inside {A} (f : A -> bool) (l : list A) :
  (forall x, In x l -> f x = false) \/
  exists l1 y l2, l = l1 ++ y :: l2 /\ f y = true /\ forall x, In x l1 -> f x = false.
Proof.
  induction l as [|x l IH].
  - left. intros x [].
  - destruct (f x) eqn:E.
    + right. exists [], x, l. split; [reflexivity|]. split; [exact E|]. intros y [].
    + destruct IH as [IH|(l1 & y & l2 & -> & Hy & Hl1)].
      * left. intros y [<-|Hy]; [exact E|apply IH, Hy].
      * right. exists (x :: l1), y, l2. split; [reflexivity|]. split; [exact Hy|].
        intros z [<-|Hz]; [exact E|apply Hl1, Hz].
Qed.

Lemma tiles_prefix l1 : forall x l2 a b, tiles (l1 ++ x :: l2) a b -> tiles l1 a (snd x * p2 (fst x)).
Proof.
  induction l1 as [|y l1 IH]; intros x l2 a b H; cbn [app tiles] in *.
  - tauto.
  - destruct H as [E H]. split; [exact E|]. eapply IH. exact H.
Qed.

Lemma tiles_idx_distinct l1 y l2 a b :
  tiles (l1 ++ y :: l2) a b -> forall x, In x l1 -> idx x <> idx y.
Proof.
  intros T x Hx. pose proof (tiles_prefix _ _ _ _ _ T) as T1.
  destruct (tiles_in _ _ _ x T1 Hx) as [_ Tx].
  pose proof (idx_lt x _ Tx). pose proof (idx_ge y). lia.
Qed.


Lemma required_optional t tf i n : required_node t tf i = Ok n -> optional_node t tf i = Ok (Some n).
Proof.
  unfold optional_node, required_node, node_get.
  destruct (nm_get i (t_unflushed t)) as [m|].
  - destruct (node_blank m); [discriminate|]. cbn [bind]. intros [= <-]. reflexivity.
  - destruct (mul64 "40 * index" NODE_SIZE i) as [off| | |]; cbn [bind]; try discriminate.
    destruct (f_read tf off NODE_SIZE) as [data|]; [|discriminate].
    destruct (node_blank (node_from_bytes i data)); [discriminate|]. cbn [bind]. intros [= <-]. reflexivity.
Qed.

Section SeekSection.
  Variable cr : crypto.
  Variable bs : list bytes.
  Hypothesis total_fits : sumN (map len bs) <= u64_max.
  Variable t : mtree.
  Variable tf : file.
  Variable w : N.
  Hypothesis Hlook : lookups cr t tf bs w.

  (* ---------- the seek computations return ---------- *)

  Lemma ft_index_parity d o : N.even (ft_index (N.of_nat d) o) = match d with O => true | S _ => false end.
  Proof.
    pose proof (ft_index_succ (N.of_nat d) o) as Hix. fold (p2 d) in Hix. rewrite FlatTreeFacts.even_mod.
    destruct d as [|d].
    - rewrite p2_0 in Hix. destruct (N.eqb_spec (ft_index (N.of_nat 0) o mod 2) 0); [reflexivity|lia].
    - rewrite p2_S in Hix. destruct (N.eqb_spec (ft_index (N.of_nat (S d)) o mod 2) 0); [lia|reflexivity].
  Qed.

  Lemma seek_trusted_ok : forall d fuel o bytes,
    (d < fuel)%nat -> (o + 1) * p2 d <= w ->
    exists S, seek_trusted_loop fuel t tf (it_at (N.of_nat d) o) bytes = Ok S.
  Proof.
    induction d as [|d IH]; intros fuel o bytes Hf Hw; (destruct fuel as [|f]; [lia|]); cbn [seek_trusted_loop].
    - change (it_index (it_at (N.of_nat 0) o)) with (ft_index (N.of_nat 0) o). rewrite ft_index_parity. eauto.
    - change (it_index (it_at (N.of_nat (S d)) o)) with (ft_index (N.of_nat (S d)) o). rewrite ft_index_parity.
      rewrite <- it_at_nat_S, it_left_child_at.
      change (it_index (it_at (N.of_nat d) (2 * o))) with (ft_index (N.of_nat d) (2 * o)).
      rewrite p2_S in Hw. pose proof (p2_pos d) as Hp.
      rewrite (required_optional _ _ _ _ (Hlook d (2 * o) ltac:(lia))). cbn [bind].
      destruct (n_length (ref_node cr bs d (2 * o)) =? bytes); [eauto|].
      destruct (bytes <? n_length (ref_node cr bs d (2 * o))).
      + apply IH; lia.
      + rewrite it_sibling_at_even by (rewrite FlatTreeFacts.even_mod; lia). apply IH; lia.
  Qed.

  Lemma seek_from_head_ok u bytes :
    u <= w -> 2 * u <= u64_max -> exists S, seek_from_head t tf (2 * u) bytes = Ok S.
  Proof.
    intros Huw H64. unfold seek_from_head. rewrite ft_full_roots_rrl.
    assert (Hall : forall x, In x (rev (rrl 0 u)) -> (snd x + 1) * p2 (fst x) <= u).
    { intros x Hx. apply in_rev in Hx. apply rrl_bound in Hx. rewrite p2_0 in Hx. lia. }
    revert bytes. induction (rev (rrl 0 u)) as [|x l IH]; intros bytes; cbn [map seek_from_head_loop]; [eauto|].
    pose proof (Hall x (or_introl eq_refl)) as Hx. destruct x as [d o]. cbn [fst snd] in Hx.
    unfold idx. cbn [fst snd]. rewrite (Hlook d o) by lia. cbn [bind].
    destruct (bytes =? n_length (ref_node cr bs d o)); [eauto|].
    destruct (n_length (ref_node cr bs d o) <? bytes).
    - apply IH. intros y Hy. apply Hall. right. exact Hy.
    - unfold seek_trusted_tree. destruct (bytes =? 0); [eauto|].
      rewrite FlatTreeFacts.it_new_index. apply seek_trusted_ok; [|lia].
      assert (p2 d < p2 64).
      { change (p2 64) with 18446744073709551616. unfold u64_max in H64. pose proof (p2_pos d). nia. }
      apply p2_lt_mono in H. unfold CLIMB. lia.
  Qed.

  (* ---------- the seek section: the node S and its siblings up to the covering node ---------- *)

  Lemma seek_loop_spec : forall n d a fuel acc xo,
    (n < fuel)%nat -> xo * p2 n <= a -> a < (xo + 1) * p2 n -> (xo + 1) * p2 (d + n) <= w ->
    seek_proof_loop fuel t tf (it_at (N.of_nat d) a) (ft_index (N.of_nat (d + n)) xo) acc
    = Ok (rev acc ++ map (rn cr bs) (path_idx n d a)).
  Proof.
    induction n as [|n IH]; intros d a fuel acc xo Hf H1 H2 Hw;
      (destruct fuel as [|f]; [lia|]); cbn [seek_proof_loop path_idx].
    - rewrite p2_0 in *. assert (a = xo) as -> by lia. rewrite Nat.add_0_r.
      unfold it_at at 1. cbn [it_index]. rewrite N.eqb_refl. cbn [map]. rewrite app_nil_r. reflexivity.
    - destruct (N.eqb_spec (it_index (it_at (N.of_nat d) a)) (ft_index (N.of_nat (d + S n)) xo)) as [Ei|Ei].
      { unfold it_at in Ei. cbn [it_index] in Ei. apply ft_index_inj in Ei. lia. }
      rewrite p2_S in H1, H2. pose proof (p2_pos d) as Hpd.
      assert (Ew : p2 (d + S n) = 2 * p2 n * p2 d) by (rewrite p2_add, p2_S; lia).
      replace (d + S n)%nat with (S d + n)%nat in * by lia.
      rewrite it_sibling_sibo. unfold it_at at 1. cbn [it_index].
      pose proof (sibo_bound bs total_fits a xo (p2 n) H1 H2) as Hsb.
      assert (Hsub : (sibo a + 1) * p2 d <= (xo + 1) * p2 (S d + n)).
      { rewrite Ew. apply (N.mul_le_mono_r _ _ (p2 d)) in Hsb. lia. }
      rewrite (Hlook d (sibo a)) by lia. cbn [bind].
      rewrite it_parent_at, sibo_half, it_at_nat_S.
      rewrite (IH (S d) (a / 2) f (ref_node cr bs d (sibo a) :: acc) xo); try lia.
      cbn [rev map]. rewrite <- app_assoc. reflexivity.
  Qed.

  Lemma seek_proof_spec dS aS d o p :
    (dS <= d)%nat -> o * p2 (d - dS) <= aS -> aS < (o + 1) * p2 (d - dS) -> (o + 1) * p2 d <= w -> (d < CLIMB)%nat ->
    seek_proof t tf (ft_index (N.of_nat dS) aS) (ft_index (N.of_nat d) o) p
    = Ok (mkLp (Some (hash_nodes cr bs (d - dS) dS aS)) (lp_nodes p) (lp_upgrade p) (lp_additional p)).
  Proof.
    intros Hd H1 H2 Hw Hc. unfold seek_proof.
    pose proof (p2_pos dS) as HpS. pose proof (p2_pos (d - dS)) as Hpe.
    assert (E : p2 d = p2 (d - dS) * p2 dS) by (rewrite <- p2_add; f_equal; lia).
    assert (Hin : (aS + 1) * p2 dS <= w).
    { assert (aS + 1 <= (o + 1) * p2 (d - dS)) by lia.
      apply (N.mul_le_mono_r _ _ (p2 dS)) in H. rewrite E in Hw. lia. }
    rewrite (Hlook dS aS Hin). cbn [bind]. rewrite FlatTreeFacts.it_new_index.
    replace d with (dS + (d - dS))%nat at 1 by lia.
    rewrite (seek_loop_spec (d - dS) dS aS CLIMB [ref_node cr bs dS aS] o); try lia.
    - cbn [bind rev app]. reflexivity.
    - replace (dS + (d - dS))%nat with d by lia. exact Hw.
  Qed.
End SeekSection.

Section SectionVerifier.
  Variable cr : crypto.
  Variable bs : list bytes.
  Hypothesis total_fits : sumN (map len bs) <= u64_max.

  Lemma verify_tree_seek_ref bytes d a n xo c :
    (n < CLIMB)%nat -> xo * p2 n <= a -> a < (xo + 1) * p2 n ->
    exists vis,
      verify_tree cr None None (Some (mkDataSeek bytes (hash_nodes cr bs n d a))) c
      = Ok (Some (ref_node cr bs (d + n) xo), cs_push_nodes c (ref_node cr bs d a :: vis)) /\
      Forall (is_ref cr bs) vis.
  Proof.
    intros Hn H1 H2.
    destruct (climb_ref_spec cr bs total_fits n d a (S (length (hash_nodes cr bs n d a))) [ref_node cr bs d a] xo)
      as (vis & Hc & Hv & _); [|exact H1|exact H2|].
    { unfold hash_nodes. cbn [length]. rewrite map_length.
      assert (L : forall m d a, length (path_idx m d a) = m) by (induction m; intros; cbn [path_idx length]; auto).
      rewrite L. lia. }
    exists vis. split; [|exact Hv].
    unfold verify_tree. cbn [ds_nodes bind]. unfold hash_nodes at 1 2 3. cbn [n_index].
    rewrite ref_node_index, FlatTreeFacts.it_new_index.
    unfold q_shift at 1. cbn [q_extra q_nodes it_at it_index].
    rewrite ref_node_index, N.eqb_refl. cbn [bind]. fold (it_at (N.of_nat d) a).
    fold (hash_nodes cr bs n d a). rewrite Hc. cbn [bind app]. reflexivity.
  Qed.
End SectionVerifier.


Section SectionUpgrade.
  Variable cr : crypto.
  Variable bs : list bytes.
  Hypothesis total_fits : sumN (map len bs) <= u64_max.

  (* the verifier: a tree section whose root is the upgrade node y, and the upgrade without y *)
  Lemma verify_section_upgrade rt rtf r u w fork sg pk l1 y l2 block hash seek visited :
    t_roots rt = ref_roots cr bs r -> t_length rt = r -> t_byte_length rt = prefix_size bs r ->
    0 < r -> r < u -> u <= w -> 2 * w <= u64_max ->
    upg_idx g64 0 r u = l1 ++ y :: l2 ->
    verify_tree cr block hash seek (tree_changeset rt)
      = Ok (Some (rn cr bs y), cs_push_nodes (tree_changeset rt) visited) ->
    Forall (is_ref cr bs) visited ->
    length sg = 64%nat ->
    cr_verify cr pk (signable (tree_hash cr (ref_roots cr bs w)) w fork) sg = true ->
    exists cs,
      verify_proof cr rt rtf
        (mkProof fork block hash seek
           (Some (mkDataUpgrade r (u - r) (map (rn cr bs) (l1 ++ l2)) (addl_nodes cr bs u w) sg))) pk = Ok cs /\
      cs_roots cs = ref_roots cr bs w /\ cs_length cs = w /\ cs_byte_length cs = prefix_size bs w /\
      cs_fork cs = fork /\ cs_upgraded cs = true /\ cs_signature cs = Some sg /\
      cs_ancestors cs = r /\ Forall (is_ref cr bs) (cs_nodes cs) /\
      (forall n, In n visited -> In n (cs_nodes cs)) /\ commitable rt cs = true.
  Proof.
    intros Hroots Hrl Hrb Hr Hru Huw H64 El Hvt Hvis Hs64 Hver.
    pose proof (upg_idx_tiles bs total_fits r u Hr Hru ltac:(lia)) as T. rewrite El in T.
    set (c1 := cs_push_nodes (tree_changeset rt) visited) in *.
    assert (V : vinv cr bs c1 r).
    { pose proof (vinv_tree_changeset cr bs rt r Hroots Hrl Hrb) as V. exact V. }
    destruct (verify_upgrade_ok2 cr bs total_fits c1 r u w fork (map (rn cr bs) (l1 ++ l2)) sg pk
                (Some (rn cr bs y)) (mkQ [] None) Hr Hru Huw H64 V)
      as (c2 & Hvu & V2 & G2 & U2); [|exact Hs64|exact Hver|].
    { rewrite El, !map_app. cbn [map]. apply serves_extra. apply Forall_forall. intros n Hn.
      apply in_map_iff in Hn. destruct Hn as (x & <- & Hx). unfold rn. rewrite !ref_node_index.
      apply (tiles_idx_distinct _ _ _ _ _ T x Hx). }
    cbn [q_extra] in Hvu.
    exists (cs_set_hash_sig (cs_set_fork c2 fork) (tree_hash cr (ref_roots cr bs w)) sg).
    split.
    { unfold verify_proof. cbn [p_block p_hash p_seek p_upgrade p_fork]. rewrite Hvt. cbn [bind].
      rewrite Hvu. cbn [bind]. reflexivity. }
    pose proof (vinv_roots cr bs c2 w V2) as R2. destruct V2 as (L2 & _ & B2).
    pose proof G2 as (A2 & _ & _ & _ & _ & O1 & O2 & _).
    cbn [c1 cs_push_nodes tree_changeset cs_ancestors cs_orig_length cs_orig_fork] in A2, O1, O2.
    assert (Hn1 : Forall (is_ref cr bs) (cs_nodes c1)).
    { unfold c1. rewrite cs_nodes_push_fresh. exact Hvis. }
    pose proof (cs_nodes_grown cr bs c1 c2 G2 Hn1) as Hn2.
    assert (Hsub : forall n, In n (cs_nodes c1) -> In n (cs_nodes c2)).
    { destruct G2 as (_ & _ & _ & _ & _ & _ & _ & new & E & _). intros n. unfold cs_nodes.
      rewrite !rev_append_rev, !app_nil_r, E, rev_app_distr. intros Hin. apply in_or_app. left. exact Hin. }
    cbn [cs_set_hash_sig cs_set_fork cs_roots cs_length cs_byte_length cs_fork cs_upgraded cs_signature
         cs_hash cs_ancestors].
    split; [exact R2|]. split; [exact L2|]. split; [exact B2|]. split; [reflexivity|]. split; [exact U2|].
    split; [reflexivity|]. split; [congruence|]. split; [exact Hn2|]. split.
    { intros n Hn. apply Hsub. unfold c1. rewrite cs_nodes_push_fresh. exact Hn. }
    unfold commitable. cbn [cs_set_hash_sig cs_set_fork cs_orig_fork cs_orig_length cs_upgraded].
    rewrite O1, O2, U2, !N.eqb_refl. reflexivity.
  Qed.

  Lemma seek_upgrade_created t tf w r u bytes sg S p' nodes :
    lookups cr t tf bs w -> t_length t = w -> t_signature t = Some sg ->
    0 < r -> r < u -> u <= w -> 2 * w <= u64_max ->
    seek_from_head t tf (2 * u) bytes = Ok S ->
    upgrade_loop CLIMB t tf (mkIter (2 * 0) 0 2) (2 * r) (2 * u) None true S true false lp_empty []
      = Ok (p', nodes, true) ->
    lp_additional p' = None ->
    create_valueless_proof t tf None None (Some (mkReqSeek bytes)) (Some (mkReqUpgrade r (u - r)))
    = Ok (mkVproof (t_fork t) None None
            (match lp_seek p' with Some ns => Some (mkDataSeek bytes ns) | None => None end)
            (Some (mkDataUpgrade r (u - r) nodes (addl_nodes cr bs u w) sg))).
  Proof.
    intros Hlook Hl Hsg Hr Hru Huw H64 HS Hloop Hpa.
    unfold create_valueless_proof, normalize_indexed. cbn [ru_start ru_length rs_bytes bind].
    unfold u64_max in H64.
    rewrite !NoPanic.mul64_ok by (unfold u64_max; lia). cbn [bind].
    rewrite NoPanic.add64_ok by (unfold u64_max; lia). cbn [bind].
    replace (r * 2 + (u - r) * 2) with (2 * u) by lia. rewrite (N.mul_comm r 2), Hl.
    destruct (N.leb_spec (2 * u) (2 * r)) as [L1|_]; [lia|].
    destruct (N.ltb_spec (2 * w) (2 * u)) as [L2|_]; [lia|]. cbn [orb negb andb bind].
    rewrite HS. cbn [bind].
    unfold upgrade_proof. destruct (N.eqb_spec (2 * r) 0) as [E|_]; [lia|].
    change (it_new 0) with (mkIter (2 * 0) 0 2). rewrite Hloop. cbn [bind].
    destruct (N.ltb_spec u w) as [Lw|Lw].
    - destruct (N.ltb_spec (2 * u) (2 * w)) as [_|L3]; [|lia].
      rewrite (additional_created cr bs total_fits t tf w Hlook u _ ltac:(lia) Lw H64).
      cbn [bind lp_seek lp_nodes lp_upgrade lp_additional]. rewrite Hsg. cbn [bind].
      destruct (lp_seek p'); reflexivity.
    - destruct (N.ltb_spec (2 * u) (2 * w)) as [L3|_]; [lia|].
      cbn [bind lp_seek lp_nodes lp_upgrade lp_additional]. rewrite Hpa, Hsg. cbn [bind].
      destruct (lp_seek p'); reflexivity.
  Qed.

  Lemma seek_shape_plain t tf rt rtf w r u bytes sg pk S :
    lookups cr t tf bs w -> t_length t = w -> t_signature t = Some sg ->
    t_roots rt = ref_roots cr bs r -> t_length rt = r -> t_byte_length rt = prefix_size bs r ->
    0 < r -> r < u -> u <= w -> 2 * w <= u64_max ->
    length sg = 64%nat ->
    cr_verify cr pk (signable (tree_hash cr (ref_roots cr bs w)) w (t_fork t)) sg = true ->
    seek_from_head t tf (2 * u) bytes = Ok S ->
    upgrade_loop CLIMB t tf (mkIter (2 * 0) 0 2) (2 * r) (2 * u) None true S true false lp_empty []
      = Ok (lp_empty, upg_nodes cr bs r u, true) ->
    exists vp cs,
      create_valueless_proof t tf None None (Some (mkReqSeek bytes)) (Some (mkReqUpgrade r (u - r))) = Ok vp /\
      vp_block vp = None /\ vp_hash vp = None /\ vp_fork vp = t_fork t /\
      verify_proof cr rt rtf (vp_to_proof vp None) pk = Ok cs /\
      cs_roots cs = ref_roots cr bs w /\ cs_length cs = w /\ cs_byte_length cs = prefix_size bs w /\
      cs_fork cs = t_fork t /\ cs_upgraded cs = true /\ cs_signature cs = Some sg /\
      cs_ancestors cs = r /\ Forall (is_ref cr bs) (cs_nodes cs) /\ commitable rt cs = true.
  Proof.
    intros Hlook Hl Hsg Hroots Hrl Hrb Hr Hru Huw H64 Hs64 Hver HS Hloop.
    destruct (partial_upgrade_accepted cr bs total_fits t tf rt rtf w r u sg pk Hlook Hl Hsg Hroots Hrl Hrb
                Hr Hru Huw H64 Hs64 Hver) as (cs & _ & Hv & R & L & B & F & U & Sg & _ & A & Hn & Hcm & _).
    exists (mkVproof (t_fork t) None None None (Some (mkDataUpgrade r (u - r) (upg_nodes cr bs r u) (addl_nodes cr bs u w) sg))), cs.
    split.
    { rewrite (seek_upgrade_created t tf w r u bytes sg S _ _ Hlook Hl Hsg Hr Hru Huw H64 HS Hloop eq_refl). reflexivity. }
    cbn [vp_block vp_hash vp_fork]. split; [reflexivity|]. split; [reflexivity|]. split; [reflexivity|].
    unfold vp_to_proof. cbn [vp_block vp_hash vp_seek vp_upgrade vp_fork].
    split; [exact Hv|]. repeat (split; [assumption|]). assumption.
  Qed.

  Lemma seek_shape_section t tf rt rtf w r u bytes sg pk S l1 d o l2 dS aS :
    lookups cr t tf bs w -> t_length t = w -> t_signature t = Some sg ->
    t_roots rt = ref_roots cr bs r -> t_length rt = r -> t_byte_length rt = prefix_size bs r ->
    0 < r -> r < u -> u <= w -> 2 * w <= u64_max ->
    length sg = 64%nat ->
    cr_verify cr pk (signable (tree_hash cr (ref_roots cr bs w)) w (t_fork t)) sg = true ->
    seek_from_head t tf (2 * u) bytes = Ok S ->
    upg_idx g64 0 r u = l1 ++ (d, o) :: l2 ->
    (dS <= d)%nat -> o * p2 (d - dS) <= aS -> aS < (o + 1) * p2 (d - dS) ->
    upgrade_loop CLIMB t tf (mkIter (2 * 0) 0 2) (2 * r) (2 * u) None true S true false lp_empty []
      = Ok (mkLp (Some (hash_nodes cr bs (d - dS) dS aS)) None None None, map (rn cr bs) (l1 ++ l2), true) ->
    exists vp cs,
      create_valueless_proof t tf None None (Some (mkReqSeek bytes)) (Some (mkReqUpgrade r (u - r))) = Ok vp /\
      vp_block vp = None /\ vp_hash vp = None /\ vp_fork vp = t_fork t /\
      verify_proof cr rt rtf (vp_to_proof vp None) pk = Ok cs /\
      cs_roots cs = ref_roots cr bs w /\ cs_length cs = w /\ cs_byte_length cs = prefix_size bs w /\
      cs_fork cs = t_fork t /\ cs_upgraded cs = true /\ cs_signature cs = Some sg /\
      cs_ancestors cs = r /\ Forall (is_ref cr bs) (cs_nodes cs) /\ commitable rt cs = true.
  Proof.
    intros Hlook Hl Hsg Hroots Hrl Hrb Hr Hru Huw H64 Hs64 Hver HS El Hdd I1 I2 Hloop.
    pose proof (upg_idx_tiles bs total_fits r u Hr Hru ltac:(lia)) as T.
    assert (Hyw : (o + 1) * p2 d <= u).
    { rewrite El in T. apply (tiles_in _ _ _ (d, o) T). apply in_or_app. right. left. reflexivity. }
    assert (Hd : (d < CLIMB)%nat).
    { assert (p2 d < p2 g64).
      { rewrite p2_64. unfold u64_max in H64. pose proof (p2_pos d). nia. }
      apply p2_lt_mono in H. pose proof climb_64. lia. }
    destruct (verify_tree_seek_ref cr bs total_fits bytes dS aS (d - dS) o (tree_changeset rt) ltac:(lia) I1 I2)
      as (vis & Hvt & Hvis).
    replace (dS + (d - dS))%nat with d in Hvt by lia.
    destruct (verify_section_upgrade rt rtf r u w (t_fork t) sg pk l1 (d, o) l2 None None
                (Some (mkDataSeek bytes (hash_nodes cr bs (d - dS) dS aS))) (ref_node cr bs dS aS :: vis)
                Hroots Hrl Hrb Hr Hru Huw H64 El Hvt ltac:(constructor; [apply ref_node_is_ref|exact Hvis]) Hs64 Hver)
      as (cs & Hv & R & L & B & F & U & Sg & A & Hn & _ & Hcm).
    exists (mkVproof (t_fork t) None None (Some (mkDataSeek bytes (hash_nodes cr bs (d - dS) dS aS)))
              (Some (mkDataUpgrade r (u - r) (map (rn cr bs) (l1 ++ l2)) (addl_nodes cr bs u w) sg))), cs.
    split.
    { rewrite (seek_upgrade_created t tf w r u bytes sg S _ _ Hlook Hl Hsg Hr Hru Huw H64 HS Hloop eq_refl). reflexivity. }
    cbn [vp_block vp_hash vp_fork]. split; [reflexivity|]. split; [reflexivity|]. split; [reflexivity|].
    unfold vp_to_proof. cbn [vp_block vp_hash vp_seek vp_upgrade vp_fork].
    split; [exact Hv|]. repeat (split; [assumption|]). assumption.
  Qed.

  Definition inside_S (S : N) (x : nat * N) : bool := it_contains (it_at (N.of_nat (fst x)) (snd x)) S.

  Lemma seek_case_plain t tf rt rtf w r u bytes sg pk S :
    lookups cr t tf bs w -> t_length t = w -> t_signature t = Some sg ->
    t_roots rt = ref_roots cr bs r -> t_length rt = r -> t_byte_length rt = prefix_size bs r ->
    0 < r -> r < u -> u <= w -> 2 * w <= u64_max ->
    length sg = 64%nat ->
    cr_verify cr pk (signable (tree_hash cr (ref_roots cr bs w)) w (t_fork t)) sg = true ->
    seek_from_head t tf (2 * u) bytes = Ok S ->
    (forall x, In x (upg_idx g64 0 r u) -> inside_S S x = false) ->
    exists vp cs,
      create_valueless_proof t tf None None (Some (mkReqSeek bytes)) (Some (mkReqUpgrade r (u - r))) = Ok vp /\
      vp_block vp = None /\ vp_hash vp = None /\ vp_fork vp = t_fork t /\
      verify_proof cr rt rtf (vp_to_proof vp None) pk = Ok cs /\
      cs_roots cs = ref_roots cr bs w /\ cs_length cs = w /\ cs_byte_length cs = prefix_size bs w /\
      cs_fork cs = t_fork t /\ cs_upgraded cs = true /\ cs_signature cs = Some sg /\
      cs_ancestors cs = r /\ Forall (is_ref cr bs) (cs_nodes cs) /\ commitable rt cs = true.
  Proof.
    intros Hlook Hl Hsg Hroots Hrl Hrb Hr Hru Huw H64 Hs64 Hver HS Hnone.
    set (dS := N.to_nat (ft_depth S)). set (aS := ft_offset S).
    assert (ES : S = ft_index (N.of_nat dS) aS).
    { unfold dS, aS. rewrite N2Nat.id. symmetry. apply ft_index_depth_offset. }
    set (sec := fun x : nat * N => hash_nodes cr bs (fst x - dS) dS aS).
    set (put_sec := fun (p : local_proof) (l : list node) => mkLp (Some l) (lp_nodes p) (lp_upgrade p) (lp_additional p)).
    assert (Hinside : forall d o, it_contains (it_at (N.of_nat d) o) S = inside_S S (d, o)) by reflexivity.
    assert (Hsec : forall d o p, inside_S S (d, o) = true -> (o + 1) * p2 d <= w -> (d < CLIMB)%nat ->
               block_and_seek_proof t tf None true S (ft_index (N.of_nat d) o) p = Ok (put_sec p (sec (d, o)))).
    { intros d o p Hi Hw Hd. unfold inside_S in Hi. cbn [fst snd] in Hi. rewrite ES in Hi.
      apply it_contains_node in Hi. destruct Hi as (Hdd & I1 & I2).
      cbn [block_and_seek_proof]. rewrite ES at 1.
      rewrite (seek_proof_spec cr bs total_fits t tf w Hlook dS aS d o p Hdd I1 I2 Hw Hd). reflexivity. }
    pose proof (gmain_emit cr bs total_fits t tf w Hlook None true S (inside_S S) sec put_sec Hinside Hsec r u Hr Hru Huw
                  g64 CLIMB 0 lp_empty [] climb_64 climb_64 (pref_0 u)
                  ltac:(rewrite p2_64; unfold u64_max in H64; lia) ltac:(lia)) as Hloop.
    assert (Hloop1 : upgrade_loop CLIMB t tf (mkIter (2 * 0) 0 2) (2 * r) (2 * u) None true S true false lp_empty []
                     = Ok (lp_empty, upg_nodes cr bs r u, true)).
    { rewrite Hloop. rewrite (gemit_all_outside cr bs (inside_S S) sec put_sec _ lp_empty [] Hnone).
      cbn [fst snd app]. reflexivity. }
    clear Hloop.
    apply (seek_shape_plain t tf rt rtf w r u bytes sg pk S Hlook Hl Hsg Hroots Hrl Hrb Hr Hru Huw H64 Hs64 Hver HS Hloop1).
  Qed.

  Lemma seek_case_section t tf rt rtf w r u bytes sg pk S l1 y l2 :
    lookups cr t tf bs w -> t_length t = w -> t_signature t = Some sg ->
    t_roots rt = ref_roots cr bs r -> t_length rt = r -> t_byte_length rt = prefix_size bs r ->
    0 < r -> r < u -> u <= w -> 2 * w <= u64_max ->
    length sg = 64%nat ->
    cr_verify cr pk (signable (tree_hash cr (ref_roots cr bs w)) w (t_fork t)) sg = true ->
    seek_from_head t tf (2 * u) bytes = Ok S ->
    upg_idx g64 0 r u = l1 ++ y :: l2 -> inside_S S y = true -> (forall x, In x l1 -> inside_S S x = false) ->
    exists vp cs,
      create_valueless_proof t tf None None (Some (mkReqSeek bytes)) (Some (mkReqUpgrade r (u - r))) = Ok vp /\
      vp_block vp = None /\ vp_hash vp = None /\ vp_fork vp = t_fork t /\
      verify_proof cr rt rtf (vp_to_proof vp None) pk = Ok cs /\
      cs_roots cs = ref_roots cr bs w /\ cs_length cs = w /\ cs_byte_length cs = prefix_size bs w /\
      cs_fork cs = t_fork t /\ cs_upgraded cs = true /\ cs_signature cs = Some sg /\
      cs_ancestors cs = r /\ Forall (is_ref cr bs) (cs_nodes cs) /\ commitable rt cs = true.
  Proof.
    intros Hlook Hl Hsg Hroots Hrl Hrb Hr Hru Huw H64 Hs64 Hver HS El Hy Hl1.
    set (dS := N.to_nat (ft_depth S)). set (aS := ft_offset S).
    assert (ES : S = ft_index (N.of_nat dS) aS).
    { unfold dS, aS. rewrite N2Nat.id. symmetry. apply ft_index_depth_offset. }
    set (sec := fun x : nat * N => hash_nodes cr bs (fst x - dS) dS aS).
    set (put_sec := fun (p : local_proof) (l : list node) => mkLp (Some l) (lp_nodes p) (lp_upgrade p) (lp_additional p)).
    assert (Hinside : forall d o, it_contains (it_at (N.of_nat d) o) S = inside_S S (d, o)) by reflexivity.
    assert (Hsec : forall d o p, inside_S S (d, o) = true -> (o + 1) * p2 d <= w -> (d < CLIMB)%nat ->
               block_and_seek_proof t tf None true S (ft_index (N.of_nat d) o) p = Ok (put_sec p (sec (d, o)))).
    { intros d o p Hi Hw Hd. unfold inside_S in Hi. cbn [fst snd] in Hi. rewrite ES in Hi.
      apply it_contains_node in Hi. destruct Hi as (Hdd & I1 & I2).
      cbn [block_and_seek_proof]. rewrite ES at 1.
      rewrite (seek_proof_spec cr bs total_fits t tf w Hlook dS aS d o p Hdd I1 I2 Hw Hd). reflexivity. }
    pose proof (gmain_emit cr bs total_fits t tf w Hlook None true S (inside_S S) sec put_sec Hinside Hsec r u Hr Hru Huw
                  g64 CLIMB 0 lp_empty [] climb_64 climb_64 (pref_0 u)
                  ltac:(rewrite p2_64; unfold u64_max in H64; lia) ltac:(lia)) as Hloop.
    destruct y as [d o].
    pose proof Hy as Hy'. unfold inside_S in Hy'. cbn [fst snd] in Hy'. rewrite ES in Hy'.
    apply it_contains_node in Hy'. destruct Hy' as (Hdd & I1 & I2).
    assert (Hemit : gemit_all cr bs (inside_S S) sec put_sec (upg_idx g64 0 r u) lp_empty []
                    = (mkLp (Some (hash_nodes cr bs (d - dS) dS aS)) None None None, map (rn cr bs) (l1 ++ l2))).
    { rewrite El, gemit_all_app.
      rewrite (gemit_all_outside cr bs (inside_S S) sec put_sec l1 lp_empty [] Hl1).
      cbn [fst snd gemit_all app]. rewrite Hy. cbn [andb pempty lp_empty lp_nodes lp_seek].
      rewrite gemit_all_nonempty by reflexivity. rewrite map_app. reflexivity. }
    assert (Hloop1 : upgrade_loop CLIMB t tf (mkIter (2 * 0) 0 2) (2 * r) (2 * u) None true S true false lp_empty []
                     = Ok (mkLp (Some (hash_nodes cr bs (d - dS) dS aS)) None None None, map (rn cr bs) (l1 ++ l2), true)).
    { rewrite Hloop, Hemit. cbn [fst snd]. reflexivity. }
    clear Hloop.
    apply (seek_shape_section t tf rt rtf w r u bytes sg pk S l1 d o l2 dS aS Hlook Hl Hsg Hroots Hrl Hrb Hr Hru Huw H64
             Hs64 Hver HS El Hdd I1 I2 Hloop1).
  Qed.

  (* Class D, seek with upgrade (no block, no hash): any byte offset.  The seek target found by the
     writer is a tree node S; if an upgrade node covers S it is replaced by the seek section, otherwise
     the proof has no seek section (the target lies in the part the replica already has). *)
  Theorem seek_upgrade_accepted t tf rt rtf w r u bytes sg pk :
    lookups cr t tf bs w -> t_length t = w -> t_signature t = Some sg ->
    t_roots rt = ref_roots cr bs r -> t_length rt = r -> t_byte_length rt = prefix_size bs r ->
    0 < r -> r < u -> u <= w -> 2 * w <= u64_max ->
    length sg = 64%nat ->
    cr_verify cr pk (signable (tree_hash cr (ref_roots cr bs w)) w (t_fork t)) sg = true ->
    exists vp cs,
      create_valueless_proof t tf None None (Some (mkReqSeek bytes)) (Some (mkReqUpgrade r (u - r))) = Ok vp /\
      vp_block vp = None /\ vp_hash vp = None /\ vp_fork vp = t_fork t /\
      verify_proof cr rt rtf (vp_to_proof vp None) pk = Ok cs /\
      cs_roots cs = ref_roots cr bs w /\ cs_length cs = w /\ cs_byte_length cs = prefix_size bs w /\
      cs_fork cs = t_fork t /\ cs_upgraded cs = true /\ cs_signature cs = Some sg /\
      cs_ancestors cs = r /\ Forall (is_ref cr bs) (cs_nodes cs) /\ commitable rt cs = true.
  Proof.
    intros Hlook Hl Hsg Hroots Hrl Hrb Hr Hru Huw H64 Hs64 Hver.
    destruct (seek_from_head_ok cr bs total_fits t tf w Hlook u bytes Huw ltac:(lia)) as (S & HS).
    destruct (first_inside (inside_S S) (upg_idx g64 0 r u)) as [Hnone|(l1 & y & l2 & El & Hy & Hl1)].
    - apply (seek_case_plain t tf rt rtf w r u bytes sg pk S); assumption.
    - apply (seek_case_section t tf rt rtf w r u bytes sg pk S l1 y l2); assumption.
  Qed.
End SectionUpgrade.



Lemma ft_right_span_index d a : ft_right_span (ft_index (N.of_nat d) a) / 2 = (a + 1) * p2 d - 1.
Proof.
  unfold ft_right_span. rewrite ft_depth_index, ft_offset_index.
  pose proof (p2_pos d) as Hp. destruct d as [|d].
  - change (N.of_nat 0) with 0. rewrite ft_index_leaf, p2_0. cbn [N.eqb]. change (0 =? 0) with true. cbv iota. lia.
  - destruct (N.eqb_spec (N.of_nat (S d)) 0) as [E|_]; [lia|].
    rewrite pow2_succ. fold (p2 (S d)). lia.
Qed.

Section HashUpgrade.
  Variable cr : crypto.
  Variable bs : list bytes.
  Hypothesis total_fits : sumN (map len bs) <= u64_max.

  (* Class D, hash section with upgrade: the node (d0, a0) lies inside the upgrade node y of the
     upgrade r -> u; the hash section ends at y, which is then not sent *)
  Theorem hash_upgrade_inside_accepted t tf rt rtf w r u d0 a0 k sg pk l1 d o l2 :
    lookups cr t tf bs w -> t_length t = w -> t_signature t = Some sg ->
    t_roots rt = ref_roots cr bs r -> t_length rt = r -> t_byte_length rt = prefix_size bs r ->
    0 < r -> r < u -> u <= w -> 2 * w <= u64_max ->
    upg_idx g64 0 r u = l1 ++ (d, o) :: l2 ->
    (d0 <= d)%nat -> o * p2 (d - d0) <= a0 -> a0 < (o + 1) * p2 (d - d0) ->
    length sg = 64%nat ->
    cr_verify cr pk (signable (tree_hash cr (ref_roots cr bs w)) w (t_fork t)) sg = true ->
    let idx := ft_index (N.of_nat d0) a0 in
    let ns := hash_nodes cr bs (d - d0) d0 a0 in
    let up := mkDataUpgrade r (u - r) (map (rn cr bs) (l1 ++ l2)) (addl_nodes cr bs u w) sg in
    exists cs,
      create_valueless_proof t tf None (Some (mkReqBlock idx k)) None (Some (mkReqUpgrade r (u - r)))
        = Ok (mkVproof (t_fork t) None (Some (mkDataHash idx ns)) None (Some up)) /\
      verify_proof cr rt rtf (mkProof (t_fork t) None (Some (mkDataHash idx ns)) None (Some up)) pk = Ok cs /\
      cs_roots cs = ref_roots cr bs w /\ cs_length cs = w /\ cs_byte_length cs = prefix_size bs w /\
      cs_fork cs = t_fork t /\ cs_upgraded cs = true /\ cs_signature cs = Some sg /\
      cs_ancestors cs = r /\ Forall (is_ref cr bs) (cs_nodes cs) /\
      In (ref_node cr bs d0 a0) (cs_nodes cs) /\ commitable rt cs = true.
  Proof.
    intros Hlook Hl Hsg Hroots Hrl Hrb Hr Hru Huw H64 El Hdd I1 I2 Hs64 Hver idx ns up.
    pose proof (upg_idx_tiles bs total_fits r u Hr Hru ltac:(lia)) as T.
    assert (Hy : r <= o * p2 d /\ (o + 1) * p2 d <= u).
    { rewrite El in T. apply (tiles_in _ _ _ (d, o) T). apply in_or_app. right. left. reflexivity. }
    assert (Hd : (d < CLIMB)%nat).
    { assert (p2 d < p2 g64).
      { rewrite p2_64. unfold u64_max in H64. pose proof (p2_pos d). nia. }
      apply p2_lt_mono in H. pose proof climb_64. lia. }
    pose proof (p2_pos d0) as Hp0. pose proof (p2_pos (d - d0)) as Hpe.
    assert (Ed : p2 d = p2 (d - d0) * p2 d0) by (rewrite <- p2_add; f_equal; lia).
    assert (Hlo : r <= a0 * p2 d0).
    { apply (N.mul_le_mono_r _ _ (p2 d0)) in I1. rewrite Ed in Hy. lia. }
    (* the writer *)
    set (inside := fun x : nat * N => it_contains (it_at (N.of_nat (fst x)) (snd x)) idx).
    set (sec := fun x : nat * N => hash_nodes cr bs (fst x - d0) d0 a0).
    set (put_sec := fun (p : local_proof) (l : list node) => mkLp (lp_seek p) (Some l) (lp_upgrade p) (lp_additional p)).
    set (ixx := mkIndexed false idx k (ft_right_span idx / 2)).
    assert (Hinside : forall dd oo, it_contains (it_at (N.of_nat dd) oo) idx = inside (dd, oo)) by reflexivity.
    assert (Hsec : forall dd oo p, inside (dd, oo) = true -> (oo + 1) * p2 dd <= w -> (dd < CLIMB)%nat ->
               block_and_seek_proof t tf (Some ixx) false idx (ft_index (N.of_nat dd) oo) p = Ok (put_sec p (sec (dd, oo)))).
    { intros dd oo p Hi Hw Hc. unfold inside, idx in Hi. cbn [fst snd] in Hi.
      apply it_contains_node in Hi. destruct Hi as (Hd1 & J1 & J2).
      unfold ixx, idx. replace dd with (d0 + (dd - d0))%nat at 1 by lia.
      rewrite (block_and_seek_hash cr bs total_fits t tf w Hlook d0 a0 k _ _ (dd - d0) oo p J1 J2); try lia.
      - reflexivity.
      - replace (d0 + (dd - d0))%nat with dd by lia. exact Hw. }
    pose proof (gmain_emit cr bs total_fits t tf w Hlook (Some ixx) false idx inside sec put_sec Hinside Hsec r u Hr Hru Huw
                  g64 CLIMB 0 lp_empty [] climb_64 climb_64 (pref_0 u)
                  ltac:(rewrite p2_64; unfold u64_max in H64; lia) ltac:(lia)) as Hloop.
    assert (Hiy : inside (d, o) = true).
    { unfold inside, idx. cbn [fst snd]. apply (it_contains_spec _ _ (wf_at _ _)).
      pose proof (lo_at (N.of_nat d) o) as Hlo'. pose proof (hi_at (N.of_nat d) o) as Hhi'. fold (p2 d) in Hlo', Hhi'.
      pose proof (ft_index_succ (N.of_nat d0) a0) as Hix. fold (p2 d0) in Hix.
      assert (o * p2 d <= a0 * p2 d0) by (rewrite Ed; apply (N.mul_le_mono_r _ _ (p2 d0)) in I1; lia).
      assert ((a0 + 1) * p2 d0 <= (o + 1) * p2 d).
      { rewrite Ed. assert (a0 + 1 <= (o + 1) * p2 (d - d0)) by lia.
        apply (N.mul_le_mono_r _ _ (p2 d0)) in H0. lia. }
      lia. }
    assert (Hl1 : forall x, In x l1 -> inside x = false).
    { intros [dx ox] Hx. unfold inside. cbn [fst snd].
      destruct (it_contains (it_at (N.of_nat dx) ox) idx) eqn:E; [|reflexivity]. exfalso.
      unfold idx in E. apply it_contains_node in E. destruct E as (Hd1 & J1 & J2).
      rewrite El in T. pose proof (tiles_prefix _ _ _ _ _ T) as T1.
      destruct (tiles_in _ _ _ (dx, ox) T1 Hx) as [_ Tx]. cbn [fst snd] in Tx.
      assert (Edx : p2 dx = p2 (dx - d0) * p2 d0) by (rewrite <- p2_add; f_equal; lia).
      assert ((a0 + 1) * p2 d0 <= (ox + 1) * p2 dx).
      { rewrite Edx. assert (a0 + 1 <= (ox + 1) * p2 (dx - d0)) by lia.
        apply (N.mul_le_mono_r _ _ (p2 d0)) in H. lia. }
      assert (o * p2 d <= a0 * p2 d0) by (rewrite Ed; apply (N.mul_le_mono_r _ _ (p2 d0)) in I1; lia).
      lia. }
    assert (Hloop1 : upgrade_loop CLIMB t tf (mkIter (2 * 0) 0 2) (2 * r) (2 * u) (Some ixx) false idx true false lp_empty []
                     = Ok (mkLp None (Some ns) None None, map (rn cr bs) (l1 ++ l2), true)).
    { rewrite Hloop, El, gemit_all_app.
      rewrite (gemit_all_outside cr bs inside sec put_sec l1 lp_empty [] Hl1).
      cbn [fst snd gemit_all app]. rewrite Hiy. cbn [andb pempty lp_empty lp_nodes lp_seek].
      rewrite gemit_all_nonempty by reflexivity. cbn [fst snd]. rewrite map_app. reflexivity. }
    clear Hloop.
    assert (Hcreate : create_valueless_proof t tf None (Some (mkReqBlock idx k)) None (Some (mkReqUpgrade r (u - r)))
                      = Ok (mkVproof (t_fork t) None (Some (mkDataHash idx ns)) None (Some up))).
    { unfold create_valueless_proof, normalize_indexed. cbn [ru_start ru_length rb_index rb_nodes bind].
      unfold u64_max in H64.
      rewrite !NoPanic.mul64_ok by (unfold u64_max; lia). cbn [bind].
      rewrite NoPanic.add64_ok by (unfold u64_max; lia). cbn [bind].
      replace (r * 2 + (u - r) * 2) with (2 * u) by lia. rewrite (N.mul_comm r 2), Hl.
      destruct (N.leb_spec (2 * u) (2 * r)) as [L1|_]; [lia|].
      destruct (N.ltb_spec (2 * w) (2 * u)) as [L2|_]; [lia|]. cbn [orb negb andb bind ix_last ix_index ix_nodes].
      change (ft_right_span idx / 2) with (ft_right_span (ft_index (N.of_nat d0) a0) / 2).
      rewrite (ft_right_span_index d0 a0).
      destruct (N.ltb_spec ((a0 + 1) * p2 d0 - 1) r) as [L3|_]; [lia|]. cbn [bind negb].
      unfold upgrade_proof. destruct (N.eqb_spec (2 * r) 0) as [E|_]; [lia|].
      change (it_new 0) with (mkIter (2 * 0) 0 2).
      replace (mkIndexed false idx k ((a0 + 1) * p2 d0 - 1)) with ixx
        by (unfold ixx, idx; rewrite (ft_right_span_index d0 a0); reflexivity).
      rewrite Hloop1. cbn [bind lp_seek lp_nodes lp_upgrade lp_additional].
      destruct (N.ltb_spec u w) as [Lw|Lw].
      - destruct (N.ltb_spec (2 * u) (2 * w)) as [_|L3]; [|lia].
        rewrite (additional_created cr bs total_fits t tf w Hlook u _ ltac:(lia) Lw H64).
        cbn [bind lp_seek lp_nodes lp_upgrade lp_additional]. rewrite Hsg. reflexivity.
      - destruct (N.ltb_spec (2 * u) (2 * w)) as [L3|_]; [lia|].
        cbn [bind lp_seek lp_nodes lp_upgrade lp_additional]. rewrite Hsg. reflexivity. }
    (* the replica *)
    destruct (verify_tree_hash_ref cr bs total_fits d0 a0 (d - d0) o (tree_changeset rt) ltac:(lia) I1 I2)
      as (vis & Hvt & Hvis & _).
    replace (d0 + (d - d0))%nat with d in Hvt by lia. fold idx in Hvt. fold ns in Hvt.
    destruct (verify_section_upgrade cr bs total_fits rt rtf r u w (t_fork t) sg pk l1 (d, o) l2 None
                (Some (mkDataHash idx ns)) None (ref_node cr bs d0 a0 :: vis)
                Hroots Hrl Hrb Hr Hru Huw H64 El Hvt ltac:(constructor; [apply ref_node_is_ref|exact Hvis]) Hs64 Hver)
      as (cs & Hv & R & L & B & F & U & Sg & A & Hn & Hin & Hcm).
    exists cs. split; [exact Hcreate|]. split; [exact Hv|].
    repeat (split; [assumption|]). split; [|exact Hcm]. apply Hin. left. reflexivity.
  Qed.

  (* hash section for a node below the replica's length, with the replica's own count, and an upgrade *)
  Theorem hash_upgrade_below_accepted t tf rt rtf w r u d0 a0 k sg pk :
    lookups cr t tf bs w -> t_length t = w -> t_signature t = Some sg ->
    t_roots rt = ref_roots cr bs r -> t_length rt = r -> t_byte_length rt = prefix_size bs r ->
    (forall j n, optional_node rt rtf j = Ok (Some n) -> n_hash n = n_hash (ref_at cr bs j)) ->
    0 < r -> r < u -> u <= w -> 2 * w <= u64_max ->
    (a0 + 1) * p2 d0 <= r ->
    missing_nodes rt rtf (ft_index (N.of_nat d0) a0) = Ok k ->
    let kk := N.to_nat k in
    (a0 / p2 kk + 1) * p2 (d0 + kk) <= r ->     (* not the head case *)
    length sg = 64%nat ->
    cr_verify cr pk (signable (tree_hash cr (ref_roots cr bs w)) w (t_fork t)) sg = true ->
    let idx := ft_index (N.of_nat d0) a0 in
    let ns := hash_nodes cr bs kk d0 a0 in
    let up := mkDataUpgrade r (u - r) (upg_nodes cr bs r u) (addl_nodes cr bs u w) sg in
    exists cs,
      create_valueless_proof t tf None (Some (mkReqBlock idx k)) None (Some (mkReqUpgrade r (u - r)))
        = Ok (mkVproof (t_fork t) None (Some (mkDataHash idx ns)) None (Some up)) /\
      verify_proof cr rt rtf (mkProof (t_fork t) None (Some (mkDataHash idx ns)) None (Some up)) pk = Ok cs /\
      cs_roots cs = ref_roots cr bs w /\ cs_length cs = w /\ cs_byte_length cs = prefix_size bs w /\
      cs_fork cs = t_fork t /\ cs_upgraded cs = true /\ cs_signature cs = Some sg /\
      cs_ancestors cs = r /\ Forall (is_ref cr bs) (cs_nodes cs) /\
      In (ref_node cr bs d0 a0) (cs_nodes cs) /\ commitable rt cs = true.
  Proof.
    intros Hlook Hl Hsg Hroots Hrl Hrb Hrep Hr Hru Huw H64 Hin Hm kk Htop Hs64 Hver idx ns up.
    destruct (missing_nodes_coord rt rtf d0 a0 k Hm ltac:(lia)) as (Hfuel & Hend). fold kk in Hfuel, Hend.
    set (o := a0 / p2 kk) in *.
    destruct Hend as [Hc|(n0 & Hn0)].
    { rewrite Hrl, covers_head_false in Hc by exact Htop. discriminate Hc. }
    pose proof (p2_pos kk) as Hpk. pose proof (p2_pos d0) as Hp0.
    assert (Ho1 : o * p2 kk <= a0) by (unfold o; nia).
    assert (Ho2 : a0 < (o + 1) * p2 kk).
    { unfold o. pose proof (N.mod_lt a0 (p2 kk) ltac:(lia)). pose proof (N.div_mod' a0 (p2 kk)). nia. }
    assert (Hcreate : create_valueless_proof t tf None (Some (mkReqBlock idx k)) None (Some (mkReqUpgrade r (u - r)))
                      = Ok (mkVproof (t_fork t) None (Some (mkDataHash idx ns)) None (Some up))).
    { unfold create_valueless_proof, normalize_indexed. cbn [ru_start ru_length rb_index rb_nodes bind].
      unfold u64_max in H64.
      rewrite !NoPanic.mul64_ok by (unfold u64_max; lia). cbn [bind].
      rewrite NoPanic.add64_ok by (unfold u64_max; lia). cbn [bind].
      replace (r * 2 + (u - r) * 2) with (2 * u) by lia. rewrite (N.mul_comm r 2), Hl.
      destruct (N.leb_spec (2 * u) (2 * r)) as [L1|_]; [lia|].
      destruct (N.ltb_spec (2 * w) (2 * u)) as [L2|_]; [lia|]. cbn [orb negb andb bind ix_last ix_index ix_nodes].
      change (ft_right_span idx / 2) with (ft_right_span (ft_index (N.of_nat d0) a0) / 2).
      rewrite (ft_right_span_index d0 a0).
      destruct (N.ltb_spec ((a0 + 1) * p2 d0 - 1) r) as [_|L3]; [|lia].
      replace k with (N.of_nat kk) at 1 by (unfold kk; lia). unfold idx.
      rewrite (nodes_to_root_coord d0 a0 kk u Hfuel ltac:(fold o; lia)). cbn [bind]. fold o.
      rewrite (block_and_seek_hash cr bs total_fits t tf w Hlook d0 a0 k _ (2 * w) kk o lp_empty Ho1 Ho2 ltac:(lia) Hfuel).
      cbn [bind negb lp_seek lp_nodes lp_upgrade lp_additional lp_empty]. fold ns.
      unfold upgrade_proof. destruct (N.eqb_spec (2 * r) 0) as [E|_]; [lia|].
      change (it_new 0) with (mkIter (2 * 0) 0 2).
      assert (Hns : nosub true (mkLp None (Some ns) None None) (ft_index (N.of_nat (d0 + kk)) o) (2 * u))
        by (right; left; discriminate).
      rewrite (upgrade_loop_spec cr bs total_fits t tf w Hlook _ false _ true r u _ Hr Hru Huw Hns g64 CLIMB 0 []);
        [|apply climb_64|apply climb_64|apply pref_0|rewrite p2_64; lia|lia].
      cbn [bind app lp_seek lp_nodes lp_upgrade lp_additional].
      destruct (N.ltb_spec u w) as [Lw|Lw].
      - destruct (N.ltb_spec (2 * u) (2 * w)) as [_|L3]; [|lia].
        rewrite (additional_created cr bs total_fits t tf w Hlook u _ ltac:(lia) Lw H64).
        cbn [bind lp_seek lp_nodes lp_upgrade lp_additional]. rewrite Hsg. reflexivity.
      - destruct (N.ltb_spec (2 * u) (2 * w)) as [L3|_]; [lia|].
        cbn [bind lp_seek lp_nodes lp_upgrade lp_additional]. rewrite Hsg. reflexivity. }
    destruct (verify_tree_hash_ref cr bs total_fits d0 a0 kk o (tree_changeset rt) Hfuel Ho1 Ho2) as (vis & Hvt & Hvis & _).
    fold idx in Hvt. fold ns in Hvt.
    set (c1 := cs_push_nodes (tree_changeset rt) (ref_node cr bs d0 a0 :: vis)) in *.
    assert (V : vinv cr bs c1 r).
    { pose proof (vinv_tree_changeset cr bs rt r Hroots Hrl Hrb) as V. exact V. }
    pose proof (upg_idx_tiles bs total_fits r u Hr Hru ltac:(lia)) as T.
    destruct (verify_upgrade_ok2 cr bs total_fits c1 r u w (t_fork t) (upg_nodes cr bs r u) sg pk
                (Some (ref_node cr bs (d0 + kk) o)) (mkQ [] (Some (ref_node cr bs (d0 + kk) o))) Hr Hru Huw H64 V)
      as (c2 & Hvu & V2 & G2 & U2); [|exact Hs64|exact Hver|].
    { apply serves_plain. intros x [= <-]. apply Forall_forall. intros n Hn.
      apply in_map_iff in Hn. destruct Hn as (y & <- & Hy). unfold rn. rewrite !ref_node_index.
      destruct (tiles_in _ _ _ y T Hy) as [Ty _].
      pose proof (idx_ge y) as G. pose proof (idx_lt (d0 + kk, o)%nat r Htop) as Lt. unfold TreeRef.idx in *.
      cbn [fst snd] in *. lia. }
    cbn [q_extra] in Hvu.
    exists (cs_set_hash_sig (cs_set_fork c2 (t_fork t)) (tree_hash cr (ref_roots cr bs w)) sg).
    split; [exact Hcreate|]. split.
    { unfold verify_proof. cbn [p_block p_hash p_seek p_upgrade p_fork]. rewrite Hvt. cbn [bind].
      unfold up. rewrite Hvu. cbn [bind]. rewrite ref_node_index.
      rewrite (optional_required _ _ _ _ Hn0). cbn [bind].
      assert (B : bytes_eqb (n_hash n0) (n_hash (ref_node cr bs (d0 + kk) o)) = true).
      { apply bytes_eqb_eq. rewrite (Hrep _ _ Hn0), ref_at_index. reflexivity. }
      rewrite B. reflexivity. }
    pose proof (vinv_roots cr bs c2 w V2) as R2. destruct V2 as (L2 & _ & B2).
    pose proof G2 as (A2 & _ & _ & _ & _ & O1 & O2 & _).
    cbn [c1 cs_push_nodes tree_changeset cs_ancestors cs_orig_length cs_orig_fork] in A2, O1, O2.
    assert (Hn1 : Forall (is_ref cr bs) (cs_nodes c1)).
    { unfold c1. rewrite cs_nodes_push_fresh. constructor; [apply ref_node_is_ref|exact Hvis]. }
    pose proof (cs_nodes_grown cr bs c1 c2 G2 Hn1) as Hn2.
    assert (Hsub : forall n, In n (cs_nodes c1) -> In n (cs_nodes c2)).
    { destruct G2 as (_ & _ & _ & _ & _ & _ & _ & new & E & _). intros n. unfold cs_nodes.
      rewrite !rev_append_rev, !app_nil_r, E, rev_app_distr. intros Hi. apply in_or_app. left. exact Hi. }
    cbn [cs_set_hash_sig cs_set_fork cs_roots cs_length cs_byte_length cs_fork cs_upgraded cs_signature
         cs_hash cs_ancestors].
    split; [exact R2|]. split; [exact L2|]. split; [exact B2|]. split; [reflexivity|]. split; [exact U2|].
    split; [reflexivity|]. split; [congruence|]. split; [exact Hn2|]. split.
    { apply Hsub. unfold c1. rewrite cs_nodes_push_fresh. left. reflexivity. }
    unfold commitable. cbn [cs_set_hash_sig cs_set_fork cs_orig_fork cs_orig_length cs_upgraded].
    rewrite O1, O2, U2, !N.eqb_refl. reflexivity.
  Qed.

  (* a seek request alone yields a proof without any section, which the replica accepts unchanged *)
  Lemma seek_only_trivial t tf rt rtf bytes pk S :
    0 < t_length t -> seek_from_head t tf (2 * t_length t) bytes = Ok S ->
    create_valueless_proof t tf None None (Some (mkReqSeek bytes)) None = Ok (mkVproof (t_fork t) None None None None) /\
    verify_proof cr rt rtf (mkProof (t_fork t) None None None None) pk = Ok (tree_changeset rt).
  Proof.
    intros Hw HS. split.
    - unfold create_valueless_proof, normalize_indexed. cbn [bind].
      destruct (N.leb_spec (2 * t_length t) 0) as [L1|_]; [lia|].
      destruct (N.ltb_spec (2 * t_length t) (2 * t_length t)) as [L2|_]; [lia|]. cbn [orb negb andb bind rs_bytes].
      rewrite HS. cbn [bind lp_seek lp_nodes lp_empty]. reflexivity.
    - unfold verify_proof. cbn [p_block p_hash p_seek p_upgrade verify_tree bind]. reflexivity.
  Qed.
End HashUpgrade.

(* seek with upgrade on the toy instance: byte 5 lies in block 3, which the upgrade 3 -> 5 brings;
   byte 1 lies in block 0, which the replica's part already covers *)
Example ex_seek_upgrade_applies :
  (forall bytes, exists vp cs,
     create_valueless_proof ex_wt file_empty None None (Some (mkReqSeek bytes)) (Some (mkReqUpgrade 3 (5 - 3))) = Ok vp /\
     verify_proof ex_cr ex_r3 file_empty (vp_to_proof vp None) ex_key = Ok cs /\
     cs_roots cs = ref_roots ex_cr ex_blocks 5 /\ cs_length cs = 5 /\ commitable ex_r3 cs = true) /\
  match create_valueless_proof ex_wt file_empty None None (Some (mkReqSeek 5)) (Some (mkReqUpgrade 3 (5 - 3))) with
  | Ok vp => option_map (fun s => map n_index (ds_nodes s)) (vp_seek vp) = Some [6] /\
             option_map (fun u => map n_index (du_nodes u)) (vp_upgrade vp) = Some [8]
  | _ => False
  end /\
  match create_valueless_proof ex_wt file_empty None None (Some (mkReqSeek 1)) (Some (mkReqUpgrade 3 (5 - 3))) with
  | Ok vp => vp_seek vp = None /\ option_map (fun u => map n_index (du_nodes u)) (vp_upgrade vp) = Some [6; 8]
  | _ => False
  end.
Proof.
  split; [|split; vm_compute; repeat split].
  intros bytes.
  destruct (seek_upgrade_accepted ex_cr ex_blocks ltac:(vm_compute; discriminate)
              ex_wt file_empty ex_r3 file_empty 5 3 5 bytes ex_sg ex_key)
    as (vp & cs & Hc & _ & _ & _ & Hv & R & L & _ & _ & _ & _ & _ & _ & Hcm).
  - exact ex_lookups5.
  - vm_compute. reflexivity.
  - vm_compute. reflexivity.
  - vm_compute. reflexivity.
  - vm_compute. reflexivity.
  - vm_compute. reflexivity.
  - lia.
  - lia.
  - lia.
  - vm_compute. discriminate.
  - vm_compute. reflexivity.
  - vm_compute. reflexivity.
  - exists vp, cs. auto.
Qed.

Print Assumptions nodes_to_root_coord.
Print Assumptions missing_nodes_coord.
Print Assumptions hash_request_served.
Print Assumptions ex_hash_request_applies.
Print Assumptions gmain_emit.
Print Assumptions it_contains_node.
Print Assumptions seek_from_head_ok.
Print Assumptions verify_section_upgrade.
Print Assumptions seek_upgrade_accepted.
Print Assumptions ex_seek_upgrade_applies.
Print Assumptions hash_upgrade_inside_accepted.
Print Assumptions hash_upgrade_below_accepted.
Print Assumptions seek_only_trivial.

(* FixedWordsDyn2.v — refinement of the word-level DynamicBitfield model, part c2:
   flush issues exactly the writes of Bitfield.bf_flush; open of a file content refines Bitfield.bf_open.
   Mirrors src/bitfield/dynamic.rs flush / open. *)
From HC Require Import Base NMap Storage Bitfield BitfieldFacts FixedWords FixedWordsFacts FixedWordsBytes FixedWordsDyn.
From Coq Require Import FMapPositive.
From Coq Require Import List NArith ZArith Lia Bool PeanoNat.
From Coq Require Import ZifyN ZifyNat ZifyBool.
Ltac Zify.zify_post_hook ::= Z.div_mod_to_equations.
#[local] Arguments N.add : simpl never.
#[local] Arguments N.sub : simpl never.
#[local] Arguments N.mul : simpl never.
#[local] Arguments N.div : simpl never.
#[local] Arguments N.modulo : simpl never.
#[local] Arguments N.pow : simpl never.
#[local] Arguments N.eqb : simpl never.
#[local] Arguments N.ltb : simpl never.
#[local] Arguments N.leb : simpl never.
#[local] Arguments N.min : simpl never.
#[local] Arguments N.max : simpl never.
#[local] Arguments N.land : simpl never.
#[local] Arguments N.testbit : simpl never.
#[local] Arguments N.to_nat : simpl never.
#[local] Arguments N.of_nat : simpl never.

(* ------------------------------------------------------------------ *)
(** * 1. flush *)

Definition words_at (pages : nmap page) (k : N) : option (list N) := option_map pg_words (nm_get k pages).

Definition flush_write (pages : nmap page) (id : N) : N * bytes :=
  (id * 4096, match nm_get id pages with Some p => fw_to_bytes p | None => [] end).

Lemma flush_write_ext pages pages' id :
  words_at pages' id = words_at pages id -> flush_write pages' id = flush_write pages id.
Proof.
  unfold words_at, flush_write. intros H. f_equal.
  destruct (nm_get id pages') as [q'|], (nm_get id pages) as [q|]; cbn [option_map] in H; try discriminate; [|reflexivity].
  injection H as H. unfold fw_to_bytes. rewrite H. reflexivity.
Qed.

Lemma dw_flush_loop_spec ids : forall pages,
  (forall id, In id ids -> exists p, nm_get id pages = Some p /\ page_wf p) ->
  (forall id, In id ids -> id * 4096 <= u64_max) ->
  exists pages',
    dw_flush_loop ids pages = Ok (pages', map (flush_write pages) ids) /\
    (forall k, words_at pages' k = words_at pages k) /\
    (forall k q', nm_get k pages' = Some q' ->
                  exists q, nm_get k pages = Some q /\
                            pg_dirty q' = if mem_N k ids then false else pg_dirty q).
Proof.
  induction ids as [|id ids IH]; intros pages Hex Hov.
  - exists pages. split; [reflexivity|]. split; [reflexivity|].
    intros k q' H. exists q'. split; [exact H | reflexivity].
  - cbn [dw_flush_loop map]. destruct (Hex id (or_introl eq_refl)) as (p & Eg & Hwf). rewrite Eg.
    unfold mul64, fits_u64. unfold len. rewrite fw_to_bytes_length by exact Hwf.
    replace (N.of_nat (N.to_nat 4096)) with 4096 by lia.
    pose proof (Hov id (or_introl eq_refl)) as Ho. assert (id * 4096 <=? u64_max = true) as -> by lia.
    cbn [bind].
    set (pages1 := nm_set id (mkPage false (pg_words p)) pages).
    assert (Hw1 : forall k, words_at pages1 k = words_at pages k).
    { intros k. unfold words_at, pages1. rewrite nm_get_set. destruct (N.eqb_spec k id) as [->|_]; [|reflexivity].
      rewrite Eg. reflexivity. }
    destruct (IH pages1) as (pages' & R0 & R1 & R2).
    { intros id' Hin. destruct (Hex id' (or_intror Hin)) as (q & Hq & Hqwf).
      unfold pages1. rewrite nm_get_set. destruct (N.eqb_spec id' id) as [->|_].
      - eexists. split; [reflexivity|]. unfold page_wf in *. cbn [pg_words]. rewrite Eg in Hq. injection Hq as <-. exact Hqwf.
      - exists q. split; assumption. }
    { intros id' Hin. apply Hov. right. exact Hin. }
    rewrite R0. cbn [bind]. exists pages'. split.
    + f_equal. f_equal. f_equal.
      * unfold flush_write. rewrite Eg. reflexivity.
      * apply map_ext. intros a. apply flush_write_ext. apply Hw1.
    + split.
      * intros k. rewrite R1. apply Hw1.
      * intros k q' Hq'. destruct (R2 k q' Hq') as (q1 & Hq1 & Hd).
        unfold pages1 in Hq1. rewrite nm_get_set in Hq1. unfold mem_N. cbn [existsb]. fold (mem_N k ids).
        destruct (N.eqb_spec k id) as [->|Hne].
        -- injection Hq1 as <-. exists p. split; [exact Eg|]. cbn [orb]. rewrite Hd. cbn [pg_dirty].
           destruct (mem_N id ids); reflexivity.
        -- exists q1. split; [exact Hq1|]. cbn [orb]. exact Hd.
Qed.

Lemma dw_bits_words_ext d d' :
  (forall k p, nm_get k (dw_pages d) = Some p -> page_wf p) ->
  (forall k, words_at (dw_pages d') k = words_at (dw_pages d) k) ->
  forall i, nm_mem i (dw_bits d') = nm_mem i (dw_bits d).
Proof.
  intros Hwf Hw i.
  assert (Hwf' : forall k p, nm_get k (dw_pages d') = Some p -> page_wf p).
  { intros k p Hg. specialize (Hw k). unfold words_at in Hw. rewrite Hg in Hw.
    destruct (nm_get k (dw_pages d)) as [q|] eqn:Eq; cbn [option_map] in Hw; [|discriminate].
    injection Hw as Hw. unfold page_wf. rewrite Hw. eapply Hwf. exact Eq. }
  rewrite !dw_bits_spec by assumption.
  specialize (Hw (i / 32768)). unfold words_at in Hw.
  destruct (nm_get (i / 32768) (dw_pages d')) as [q'|], (nm_get (i / 32768) (dw_pages d)) as [q|];
    cbn [option_map] in Hw; try discriminate; [|reflexivity].
  injection Hw as Hw. unfold fw_bits. rewrite Hw. reflexivity.
Qed.

(** flush: never panics on a state satisfying the invariant (page offsets in u64), issues exactly
    the writes of the abstract bf_flush, in the same order, and leaves the same bits, nothing dirty *)
Theorem dw_flush_refines d :
  dyn_inv d -> (forall id, In id (dw_unflushed d) -> id * 4096 <= u64_max) ->
  exists d' ws,
    dw_flush d = Ok (d', ws) /\
    map (fun w => SW Bitfield (fst w) (snd w)) ws = snd (bf_flush (dw_abs d)) /\
    dyn_inv d' /\ dw_unflushed d' = [] /\ dw_biggest d' = dw_biggest d /\
    (forall k, bf_get (dw_abs d') k = bf_get (fst (bf_flush (dw_abs d))) k) /\
    bf_dirty (dw_abs d') = bf_dirty (fst (bf_flush (dw_abs d))).
Proof.
  intros Hinv Hov. unfold dw_flush.
  destruct (dw_flush_loop_spec (dw_unflushed d) (dw_pages d)) as (pages' & R0 & R1 & R2).
  { intros id Hin. apply (di_dirty _ Hinv) in Hin. destruct Hin as (p & Hp & _).
    exists p. split; [exact Hp | eapply (di_wf _ Hinv); exact Hp]. }
  { exact Hov. }
  rewrite R0. cbn [bind]. eexists. eexists. split; [reflexivity|].
  set (d' := mkDyn pages' (dw_biggest d) []).
  assert (Hwf' : forall k p, nm_get k pages' = Some p -> page_wf p).
  { intros k p Hg. destruct (R2 k p Hg) as (q & Hq & _). specialize (R1 k). unfold words_at in R1.
    rewrite Hg, Hq in R1. cbn [option_map] in R1. injection R1 as R1. unfold page_wf. rewrite R1.
    eapply (di_wf _ Hinv). exact Hq. }
  split; [|split; [|split; [|split; [|split]]]].
  - unfold bf_flush. cbn [snd]. unfold dw_abs at 2. cbn [bf_dirty]. rewrite map_map.
    apply map_ext_in. intros id Hin. unfold flush_write. cbn [fst snd]. f_equal.
    apply (di_dirty _ Hinv) in Hin. destruct Hin as (p & Hp & _). rewrite Hp.
    unfold dw_abs. cbn [bf_bits]. apply fw_to_bytes_page_bytes; [eapply (di_wf _ Hinv); exact Hp|].
    intros k Hk. rewrite dw_bits_spec by apply (di_wf _ Hinv).
    replace ((id * 32768 + k) / 32768) with id by lia. rewrite Hp. f_equal. lia.
  - split; cbn [dw_pages dw_unflushed dw_biggest].
    + exact Hwf'.
    + intros i. split; [intros []|]. intros (p & Hp & Hd). destruct (R2 i p Hp) as (q & Hq & Hdq).
      rewrite Hd in Hdq. destruct (mem_N i (dw_unflushed d)) eqn:Em; [discriminate|].
      apply mem_N_false in Em. apply Em. apply (di_dirty _ Hinv). exists q. split; [exact Hq | congruence].
    + intros i p Hp. destruct (R2 i p Hp) as (q & Hq & _). eapply (di_big _ Hinv). exact Hq.
  - reflexivity.
  - reflexivity.
  - intros k. unfold bf_flush. cbn [fst]. unfold bf_get, dw_abs. cbn [bf_bits].
    apply (dw_bits_words_ext d d'); [apply (di_wf _ Hinv) | exact R1].
  - reflexivity.
Qed.

(* ------------------------------------------------------------------ *)
(** * 2. open *)

Lemma dw_open_loop_spec data dlen n : forall k0 pages big,
  dlen <= (k0 + N.of_nat n) * 4096 ->
  let r := dw_open_loop n data dlen (k0 * 4096) pages big in
  (forall k, nm_get k (fst r) =
             if (k0 <=? k) && (k * 4096 <? dlen) then Some (fw_from_data (k * 4096) data)
             else nm_get k pages) /\
  big <= snd r /\ (forall k, k0 <= k -> k * 4096 < dlen -> k <= snd r).
Proof.
  induction n as [|n IH]; intros k0 pages big Hn; cbv zeta.
  - cbn [dw_open_loop fst snd]. split; [|split; [lia|]].
    + intros k. assert ((k0 <=? k) && (k * 4096 <? dlen) = false) as -> by lia. reflexivity.
    + intros k H1 H2. lia.
  - cbn [dw_open_loop]. destruct (N.ltb_spec (k0 * 4096) dlen) as [Hc|Hc].
    + unfold FW_BYTES. replace (k0 * 4096 / 4096) with k0 by lia.
      replace (k0 * 4096 + 4096) with ((k0 + 1) * 4096) by lia.
      match goal with |- context[dw_open_loop n data dlen _ ?pg ?bg] =>
        destruct (IH (k0 + 1) pg bg) as (R1 & R2 & R3); [lia|] end.
      split; [|split].
      * intros k. rewrite R1, nm_get_set.
        destruct (N.eqb_spec k k0) as [->|Hne].
        -- assert ((k0 + 1 <=? k0) && (k0 * 4096 <? dlen) = false) as -> by lia.
           assert ((k0 <=? k0) && (k0 * 4096 <? dlen) = true) as -> by lia. reflexivity.
        -- assert ((k0 + 1 <=? k) && (k * 4096 <? dlen) = (k0 <=? k) && (k * 4096 <? dlen)) as -> by lia.
           reflexivity.
      * destruct (N.ltb_spec big k0); lia.
      * intros k H1 H2. destruct (N.eq_dec k k0) as [->|Hne].
        -- destruct (N.ltb_spec big k0); lia.
        -- apply R3; lia.
    + cbn [fst snd]. split; [|split; [lia|]].
      * intros k. assert ((k0 <=? k) && (k * 4096 <? dlen) = false) as -> by lia. reflexivity.
      * intros k H1 H2. lia.
Qed.

Lemma bytes_ok_firstn n (l : bytes) : bytes_ok l = true -> bytes_ok (firstn n l) = true.
Proof.
  intros H. rewrite <- (firstn_skipn n l) in H. unfold bytes_ok in *. rewrite forallb_app in H.
  apply andb_true_iff in H. apply H.
Qed.

(** open (second call, content received): the state satisfies the invariant, nothing is dirty, and the
    held indices are exactly those of the abstract loader on the requested prefix of the content *)
Theorem dw_open_bits slen content :
  bytes_ok content = true ->
  let data := firstn (N.to_nat (dw_open_request slen)) content in
  len data mod 4 = 0 ->
  dyn_inv (dw_open slen content) /\ dw_unflushed (dw_open slen content) = [] /\ forall i, bf_get (dw_abs (dw_open slen content)) i = nm_mem i (load_bits nm_empty 0 data).
Proof.
  intros Hok data Hmod. unfold dw_open. fold data.
  assert (Hokd : bytes_ok data = true) by (apply bytes_ok_firstn; exact Hok).
  set (dlen := len data) in *.
  destruct (N.leb_spec 4 dlen) as [Hc|Hc].
  - set (n := N.to_nat ((dlen + 4095) / 4096)).
    pose proof (dw_open_loop_spec data dlen n 0 nm_empty 0) as H. cbv zeta in H.
    replace (0 * 4096) with 0 in H by lia.
    destruct H as (R1 & R2 & R3); [unfold n; lia|].
    set (r := dw_open_loop n data dlen 0 nm_empty 0) in *.
    assert (Hget : forall k, nm_get k (fst r) =
                     if k * 4096 <? dlen then Some (fw_from_data (k * 4096) data) else None).
    { intros k. rewrite R1, nm_get_empty. assert (0 <=? k = true) as -> by lia. reflexivity. }
    assert (Hinv : dyn_inv (mkDyn (fst r) (snd r) [])).
    { split; cbn [dw_pages dw_unflushed dw_biggest].
      - intros i p Hg. rewrite Hget in Hg. destruct (i * 4096 <? dlen); [|discriminate].
        injection Hg as <-. apply fw_from_data_wf.
      - intros i. split; [intros []|]. intros (p & Hg & Hd). rewrite Hget in Hg.
        destruct (i * 4096 <? dlen); [|discriminate]. injection Hg as <-.
        destruct (fw_from_data_wf (i * 4096) data) as [_ Hf]. congruence.
      - intros i p Hg. rewrite Hget in Hg. destruct (N.ltb_spec (i * 4096) dlen); [|discriminate].
        apply R3; lia. }
    split; [exact Hinv|]. split; [reflexivity|].
    intros i. unfold bf_get, dw_abs. cbn [bf_bits]. rewrite dw_bits_spec by apply (di_wf _ Hinv).
    cbn [dw_pages]. rewrite Hget, load_bits_spec_gen, nm_mem_empty. cbn [orb]. fold dlen.
    destruct (N.ltb_spec (i / 32768 * 4096) dlen) as [Hp|Hp].
    + rewrite fw_from_data_bits by exact Hokd. fold dlen. unfold byte_at.
      assert (i mod 32768 <? 32768 = true) as -> by lia.
      assert (8 * 0 <=? i = true) as -> by lia. cbn [andb].
      replace (i / 32768 * 4096 + i mod 32768 / 8) with (i / 8) by lia.
      replace (i / 8 - 0) with (i / 8) by lia.
      replace (i mod 32768 mod 8) with (i mod 8) by lia.
      f_equal. lia.
    + assert (i <? 8 * (0 + dlen) = false) as -> by lia. rewrite andb_false_r. reflexivity.
  - assert (Hd0 : dlen = 0) by lia.
    change (mkDyn nm_empty 0 []) with dw_empty.
    split; [apply dyn_inv_empty|]. split; [reflexivity|].
    intros i. unfold bf_get, dw_abs. cbn [bf_bits].
    rewrite dw_bits_spec by apply (di_wf _ dyn_inv_empty).
    cbn [dw_empty dw_pages]. rewrite nm_get_empty.
    rewrite load_bits_spec_gen, nm_mem_empty. fold dlen. rewrite Hd0.
    assert (i <? 8 * (0 + 0) = false) as -> by lia. rewrite andb_false_r. reflexivity.
Qed.

Lemma firstn_nrange a : forall off b, firstn a (nrange off (a + b)) = nrange off a.
Proof.
  induction a as [|a IH]; intros off b; [reflexivity|].
  cbn [plus nrange firstn]. now rewrite IH.
Qed.

(** open of a file refines the abstract bf_open *)
Theorem dw_open_refines (f : file) :
  bytes_ok (f_content f) = true ->
  let d := dw_open (f_len f) (f_content f) in
  dyn_inv d /\ (forall i, bf_get (dw_abs d) i = bf_get (bf_open f) i) /\ bf_dirty (dw_abs d) = bf_dirty (bf_open f).
Proof.
  intros Hok d.
  assert (Hreq : dw_open_request (f_len f) = f_len f - f_len f mod 4).
  { unfold dw_open_request. rewrite land3. reflexivity. }
  set (l := f_len f - f_len f mod 4) in *.
  assert (Hdata : firstn (N.to_nat (dw_open_request (f_len f))) (f_content f) =
                  map (f_byte f) (nrange 0 (N.to_nat l))).
  { rewrite Hreq. unfold f_content. rewrite firstn_map. f_equal.
    replace (N.to_nat (f_len f)) with (N.to_nat l + N.to_nat (f_len f - l))%nat by (unfold l; lia).
    apply firstn_nrange. }
  destruct (dw_open_bits (f_len f) (f_content f) Hok) as (H1 & H2 & H3).
  { rewrite Hdata. unfold len. rewrite map_length, length_nrange. unfold l. lia. }
  fold d in H1, H2, H3.
  assert (Hopen : bf_open f = mkBf (load_bits nm_empty 0 (map (f_byte f) (nrange 0 (N.to_nat l)))) []).
  { unfold bf_open. fold l. unfold f_read. assert (0 + l <=? f_len f = true) as -> by (unfold l; lia). reflexivity. }
  split; [exact H1|]. split.
  - intros i. rewrite H3, Hdata, Hopen. reflexivity.
  - rewrite Hopen. unfold dw_abs. cbn [bf_dirty]. exact H2.
Qed.

Print Assumptions dw_flush_refines.
Print Assumptions dw_open_bits.
Print Assumptions dw_open_refines.

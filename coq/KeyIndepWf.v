(* KeyIndepWf.v -- C12: the hypothesis [reopen_ok] of KeyIndepHist.other_files_independent_of_secret DERIVED for
   well-formed writer histories (appends, clears, get / has / info, make_read_only, reopen), under the hypotheses of
   Unified3.history_unified (CRC below 2^32, 32-byte non-blank hashes, 64-byte signatures, sizes below 2^64).

   FInvG = Unified1.FInv with its existential witnesses "header written by the last flush" hf and "entries logged
   since" l made explicit.  The proofs of Unified2 (flush_all_FInv, log_entry_FInv, append_body_FInv, clear_FInv)
   and Unified1.reopen_FInv are replayed with the witnesses exposed:
     append : l grows by app_entry cs1 sk, or a flush makes (hf, l) = (header in memory, []);
     clear  : l grows by clear_entry start end_, or a flush;  reopen: (hf, l) unchanged;
     make_read_only: (hf, l) = (ReadOnly.ro_header c, []) -- from ReadOnlyClear.read_only_oplog_file_Y.
   Two runs with sim-related cores then have hd_sim headers and e_sim entry lists, and Crash.good_open turns that
   into related outcomes of oplog_open: wf_reopen_ok, other_files_independent_of_secret_wf. *)
From HC Require Import Base NMap Codec CodecFacts Crypto FlatTree Storage Bitfield Oplog Merkle Core.
From HC Require Import FlatTreeFacts StorageFacts BitfieldFacts OplogFacts TreeRef OffsetFacts CoreFacts Crash Refine.
From HC Require Import ClearRefine Reopen ContigBridge Unified1 Unified2 CrashClear1 ReadOnly ReadOnlyClear.
From HC Require Import KeyIndep KeyIndepHist.
From Coq Require Import FMapPositive ZifyN ZifyNat ZifyBool.
Ltac Zify.zify_post_hook ::= Z.div_mod_to_equations.
#[local] Arguments N.add : simpl never.
#[local] Arguments N.sub : simpl never.
#[local] Arguments N.mul : simpl never.
#[local] Arguments N.div : simpl never.
#[local] Arguments N.modulo : simpl never.
#[local] Arguments N.pow : simpl never.
#[local] Arguments N.eqb : simpl never.
#[local] Arguments N.ltb : simpl never.
#[local] Arguments N.leb : simpl never.
#[local] Arguments N.max : simpl never.
#[local] Arguments N.min : simpl never.
#[local] Arguments N.of_nat : simpl never.
#[local] Arguments N.to_nat : simpl never.

Definition clear_entry (start end_ : N) : entry := mkEntry [] None (Some (mkBfUpdate true start (end_ - start))).

Section G.
  Variable cr : crypto.
  Hypothesis Hcrc : crc_ok cr.
  Hypothesis Hhash32 : forall x, length (cr_hash cr x) = 32%nat.
  Hypothesis Hnonblank : forall x, all_zero (cr_hash cr x) = false.
  Hypothesis Hhashbytes : forall x, bytes_ok (cr_hash cr x) = true.
  Hypothesis Hsig64 : forall sk m, length (cr_sign cr sk m) = 64%nat.
  Hypothesis Hsigbytes : forall sk m, bytes_ok (cr_sign cr sk m) = true.

  (* the entry logged by an append whose changeset (before hashing and signing) is cs1 *)
  Definition app_entry (cs1 : changeset) (sk : bytes) : entry :=
    let cs := cs_hash_and_sign cr cs1 sk in
    mkEntry (cs_nodes cs)
      (Some (mkTreeUpgrade (cs_fork cs) (cs_ancestors cs) (cs_length cs)
               (cr_sign cr sk (cs_signable cs1 (cs_tree_hash cr cs1)))))
      (Some (mkBfUpdate false (cs_ancestors cs) (cs_batch_length cs))).

  Definition FInvG (c : core) (d : disk) (bs : list bytes) (cl : N -> bool) (hf : header) (l : list entry) : Prop :=
    let n := N.of_nat (length bs) in
    CInv cr c d bs cl /\
    exists s0 s1 body st0 st1 kf,
      f_content (d_oplog d) = s0 ++ s1 ++ body /\
      good cr s0 s1 body st0 st1 (ol_bits (c_oplog c)) hf l /\
      ol_entries_len (c_oplog c) = N.of_nat (length l) /\
      ol_entries_bytes (c_oplog c) = entries_size l /\
      hdr_desc' (c_keypair c) hf kf /\
      hdr_desc' (c_keypair c) (c_header c) n /\
      gchain cr bs kf l n /\
      lookups cr tE (d_tree d) bs kf /\
      f_len (d_bitfield d) mod PAGE_BYTES = 0 /\
      (forall i, fbit (d_bitfield d) i = true -> i < kf) /\
      fexact (fbit (d_bitfield d)) (hd_contig hf) /\
      (forall i, upds_fun (fbit (d_bitfield d)) (updates_of l) i = held n cl i) /\
      (forall i, held n cl i <> fbit (d_bitfield d) i -> In (i / PAGE_BITS) (bf_dirty (c_bitfield c))).

  Lemma FInvG_FInv c d bs cl hf l : FInvG c d bs cl hf l -> FInv cr c d bs cl.
  Proof.
    intros (W & s0 & s1 & body & st0 & st1 & kf & R). split; [exact W|].
    exists s0, s1, body, st0, st1, hf, l, kf. exact R.
  Qed.

  Lemma FInv_FInvG c d bs cl : FInv cr c d bs cl -> exists hf l, FInvG c d bs cl hf l.
  Proof.
    intros (W & s0 & s1 & body & st0 & st1 & hf & l & kf & R). exists hf, l. split; [exact W|].
    exists s0, s1, body, st0, st1, kf. exact R.
  Qed.

  (* what oplog_open answers on the oplog file of an FInvG state *)
  Lemma FInvG_open c d bs cl hf l :
    FInvG c d bs cl hf l ->
    oplog_open cr None (f_content (d_oplog d)) = Ok (stable_result (ol_bits (c_oplog c)) hf l).
  Proof.
    intros (_ & s0 & s1 & body & st0 & st1 & kf & Hcont & G & _). rewrite Hcont.
    apply (good_open cr Hcrc _ _ _ _ _ _ _ _ G).
  Qed.

  Lemma FInvG_len c d bs cl hf l : FInvG c d bs cl hf l -> ol_entries_len (c_oplog c) = N.of_nat (length l).
  Proof. intros (_ & s0 & s1 & body & st0 & st1 & kf & _ & _ & H & _). exact H. Qed.

  Lemma FInvG_cl_ext c d bs cl cl' hf l :
    (forall i, i < N.of_nat (length bs) -> cl' i = cl i) -> FInvG c d bs cl hf l -> FInvG c d bs cl' hf l.
  Proof.
    intros E (W & s0 & s1 & body & st0 & st1 & kf & H1 & H2 & H3 & H4 & H5 & H6 & H7 & H8 & H9 & H10 &
              H11 & H12 & H13).
    pose proof (held_ext _ cl cl' E) as HE.
    split; [apply (CInv_cl_ext cr c d bs cl cl' E W)|].
    exists s0, s1, body, st0, st1, kf. repeat (split; [assumption|]).
    split; [intros i; rewrite HE; apply H12|]. intros i. rewrite HE. apply H13.
  Qed.

  Lemma FInvG_skip c d bs cl hf l s :
    FInvG c d bs cl hf l ->
    FInvG (mkCore (c_keypair c) (c_oplog c) (c_tree c) (c_bitfield c) (c_header c) s) d bs cl hf l.
  Proof.
    intros (W & D). split; [|exact D].
    apply (CInv_ext cr c _ d d bs cl); try reflexivity. exact W.
  Qed.

  Lemma FInvG_data c d d' bs cl hf l :
    FInvG c d bs cl hf l -> CInv cr c d' bs cl ->
    d_tree d' = d_tree d -> d_oplog d' = d_oplog d -> d_bitfield d' = d_bitfield d ->
    FInvG c d' bs cl hf l.
  Proof.
    intros (_ & D) W' Et Eo Eb. split; [exact W'|]. rewrite Et, Eo, Eb. exact D.
  Qed.

  Lemma flush_all_FInvG c d j ev bs cl hf l c' w' r :
    FInvG c d bs cl hf l ->
    flush_all cr false c (mkWorld d j ev) = (c', w', r) ->
    r = Ok tt /\ FInvG c' (w_disk w') bs cl (c_header c') [] /\ c_keypair c' = c_keypair c.
  Proof.
    intros (W & s0 & s1 & body & st0 & st1 & kf & Hcont & G & Hlen & Hbytes & Hhf & Hhc & Hch &
            Hstore & Hbm & Hbnd & Hbex & Hrep & Hdirty) H.
    pose proof W as ((HL & HB & HF & HR & Hlook & Hun & Hs & Hn) & Hbf & Hcg & Hd & Hdl).
    set (n := N.of_nat (length bs)) in *.
    pose proof Hhc as (Hok & Hkp & Hfk & Hln & Hrh & Hsg).
    assert (Hfits : hdr_fits false (c_header c)).
    { apply hdr_fits_real; [exact Hok|exact Hrh|]. destruct Hsg as [->|Hsg']; unfold len; [cbn; lia|rewrite Hsg'; lia]. }
    pose proof (flush_all_ok cr Hhash32 Hnonblank Hhashbytes c (mkWorld d j ev) c' w' r Hun Hfits H) as ->.
    destruct (flush_all_preserves_c cr Hhash32 Hnonblank c d j ev bs cl c' w' _ W H) as [Hp|(_ & W' & K')];
      [discriminate Hp|]. split; [reflexivity|]. split; [|exact K'].
    destruct (flush_all_detail cr Hhash32 Hnonblank c (mkWorld d j ev) Hun)
      as [(c1 & w1 & E)|(o' & ops & t' & tops & d2 & d3 & jn & OF & Hops & TF & A2 & A3 & E)];
      rewrite E in H; [discriminate H|]. injection H as <- <-.
    cbn [w_disk] in *.
    split; [exact W'|].
    cbn [c_oplog c_keypair c_header c_bitfield c_tree] in *.
    destruct (flush_crash cr Hcrc s0 s1 body st0 st1 _ hf l (c_header c) (c_oplog c) o' ops G Hok Hfits eq_refl OF)
      as (wr & s0' & s1' & st0' & st1' & Eops & _ & C1 & _ & C2 & G' & _ & Eo').
    set (d1 := d_set d Bitfield (write_pages (d_bitfield d) (bf_bits (c_bitfield c)) (bf_dirty (c_bitfield c)))) in *.
    destruct (tree_flush_other_stores (c_tree c) t' tops d1 d2 TF A2 Hun) as (_ & B2 & O2 & _).
    assert (O1 : d_oplog d1 = d_oplog d) by (destruct d; reflexivity).
    assert (B1 : d_bitfield d1 = write_pages (d_bitfield d) (bf_bits (c_bitfield c)) (bf_dirty (c_bitfield c)))
      by (destruct d; reflexivity).
    assert (S3 : forall s, s <> Oplog -> d_get d3 s = d_get d2 s).
    { intros s Hs'. apply (apply_sops_other _ _ _ _ A3). intros o Ho Heq.
      rewrite Forall_forall in Hops. rewrite (Hops o Ho) in Heq. apply Hs'. symmetry. exact Heq. }
    assert (Hcont' : f_content (d_oplog d3) = s0' ++ s1' ++ []).
    { apply (c_apply_all_sound ops d2 d3 _ Hops A3). rewrite O2, O1, Hcont, Eops.
      cbn [c_apply_all]. rewrite C1, C2. reflexivity. }
    rewrite (tree_flush_ok (c_tree c) Hun) in TF. injection TF as <- <-.
    assert (Bf3 : d_bitfield d3 = write_pages (d_bitfield d) (bf_bits (c_bitfield c)) (bf_dirty (c_bitfield c))).
    { change (d_bitfield d3) with (d_get d3 Bitfield). rewrite (S3 Bitfield) by discriminate.
      change (d_get d2 Bitfield) with (d_bitfield d2). rewrite B2, B1. reflexivity. }
    assert (Hfb : forall i, fbit (d_bitfield d3) i = held n cl i).
    { intros i. rewrite Bf3.
      destruct (fbit_write_pages (bf_bits (c_bitfield c)) (bf_dirty (c_bitfield c)) (d_bitfield d) i) as [I1 I2].
      destruct (in_dec N.eq_dec (i / PAGE_BITS) (bf_dirty (c_bitfield c))) as [Hin|Hnin].
      - rewrite (I1 Hin). apply Hbf.
      - rewrite (I2 Hnin). destruct (bool_dec (held n cl i) (fbit (d_bitfield d) i)) as [Eq|Ne]; [symmetry; exact Eq|].
        exfalso. apply Hnin, Hdirty, Ne. }
    exists s0', s1', [], st0', st1', n.
    split; [exact Hcont'|]. split; [exact G'|].
    split; [rewrite Eo'; reflexivity|]. split; [rewrite Eo'; reflexivity|].
    split; [exact Hhc|]. split; [exact Hhc|].
    split; [reflexivity|].
    split.
    { pose proof W' as ((_ & _ & _ & _ & Hlook' & _) & _). cbn [c_tree] in Hlook'.
      intros dd o Hfull. rewrite <- (Hlook' dd o Hfull). apply required_node_same_unflushed. reflexivity. }
    split; [rewrite Bf3; apply len_write_pages, Hbm|].
    split; [intros i Hi; rewrite Hfb in Hi; apply (held_lt n cl i Hi)|].
    split.
    { apply (fexact_ext (bf_get (c_bitfield c))); [intros i; rewrite Hfb; apply Hbf|].
      apply exact_contig_fexact, Hcg. }
    split; [intros i; apply Hfb|].
    intros i Hi. exfalso. apply Hi. symmetry. apply Hfb.
  Qed.

  Lemma maybe_flush_FInvG f c d j ev bs cl hf l c' w' r :
    FInvG c d bs cl hf l ->
    maybe_flush cr f c (mkWorld d j ev) = (c', w', r) ->
    r = Ok tt /\ (FInvG c' (w_disk w') bs cl hf l \/ FInvG c' (w_disk w') bs cl (c_header c') []) /\
    c_keypair c' = c_keypair c.
  Proof.
    intros D. unfold maybe_flush. rewrite mbind_get_core.
    match goal with |- (if ?b then _ else _) _ _ = _ -> _ => destruct b end.
    - rewrite mbind_put_skip. intros H.
      apply (flush_all_FInvG _ d j ev bs cl hf l) in H; [|apply FInvG_skip, D].
      destruct H as (R & F & K). split; [exact R|]. split; [right; exact F|exact K].
    - intros H. unfold put_skip in H. injection H as <- <- <-.
      split; [reflexivity|]. split; [|reflexivity]. cbn [w_disk]. left. apply FInvG_skip, D.
  Qed.

  Lemma log_entry_FInvG c d bs cl batch e u o' fr c2 d2 cl' hf l :
    FInvG c d bs cl hf l ->
    e_bitfield e = Some u -> entry_ok e = true ->
    oplog_append cr (c_oplog c) e = Ok (o', [SW Oplog (ENTRIES_OFFSET + ol_entries_bytes (c_oplog c)) fr]) ->
    c_oplog c2 = o' -> c_keypair c2 = c_keypair c -> c_bitfield c2 = bf_apply (c_bitfield c) u ->
    d_oplog d2 = f_write (d_oplog d) (ENTRIES_OFFSET + ol_entries_bytes (c_oplog c)) fr ->
    d_tree d2 = d_tree d -> d_bitfield d2 = d_bitfield d ->
    CInv cr c2 d2 (bs ++ batch) cl' ->
    (forall kf l, gchain cr bs kf l (N.of_nat (length bs)) ->
                  gchain cr (bs ++ batch) kf (l ++ [e]) (N.of_nat (length (bs ++ batch)))) ->
    hdr_desc' (c_keypair c) (c_header c2) (N.of_nat (length (bs ++ batch))) ->
    FInvG c2 d2 (bs ++ batch) cl' hf (l ++ [e]).
  Proof.
    intros (W & s0 & s1 & body & st0 & st1 & kf & Hcont & G & Hlen & Hbytes & Hhf & Hhc & Hch &
            Hstore & Hbm & Hbnd & Hbex & Hrep & Hdirty) He Hok OA Eo Ek Eb Edo Edt Edb W2 Hchain Hh2.
    pose proof W as ((HL & HB & HF & HR & Hlook & Hun & Hs & Hn) & Hbf & Hcg & Hd & Hdl).
    pose proof W2 as (_ & Hbf2 & _).
    set (n := N.of_nat (length bs)) in *. set (n' := N.of_nat (length (bs ++ batch))) in *.
    set (off := ENTRIES_OFFSET + ol_entries_bytes (c_oplog c)) in *.
    assert (Eol : c_oplog c = oo_oplog (stable_result (ol_bits (c_oplog c)) hf l)).
    { cbn [stable_result oo_oplog]. destruct (c_oplog c) as [bits el eb]. cbn [ol_bits ol_entries_len ol_entries_bytes] in *.
      rewrite Hlen, Hbytes. reflexivity. }
    assert (OA' : oplog_append cr (oo_oplog (stable_result (ol_bits (c_oplog c)) hf l)) e = Ok (o', [SW Oplog off fr]))
      by (rewrite <- Eol; exact OA).
    destruct (append_crash cr Hcrc s0 s1 body st0 st1 _ hf l e o' _ G Hok OA')
      as (fr' & Eops & _ & Cw & G' & _ & Eo' & _).
    injection Eops as Eoff <-.
    (* the update seen as a function *)
    assert (Hupd : forall i, held n' cl' i = upd_fun (held n cl) u i).
    { intros i. rewrite <- Hbf2, Eb, bf_get_apply_fun. apply upd_fun_ext, Hbf. }
    split; [exact W2|].
    rewrite Eo, Ek, Eb, Edo, Edt, Edb. fold n'.
    exists s0, s1, (body ++ fr), st0, st1, kf.
    split; [rewrite f_content_write, Hcont, Eoff; exact Cw|].
    split; [rewrite Eo'; exact G'|].
    split; [rewrite Eo'; reflexivity|]. split; [rewrite Eo'; reflexivity|].
    split; [exact Hhf|]. split; [exact Hh2|].
    split; [apply Hchain, Hch|].
    split.
    { intros dd0 o Hfull. rewrite (Hstore dd0 o Hfull). f_equal. symmetry. apply ref_node_app.
      pose proof (gchain_le cr bs l kf n Hch). fold n. lia. }
    split; [exact Hbm|]. split; [exact Hbnd|]. split; [exact Hbex|].
    split.
    { intros i. rewrite updates_of_app, upds_fun_app, (updates_of_single e u He).
      unfold upds_fun at 1. cbn [fold_left]. rewrite Hupd. apply upd_fun_ext, Hrep. }
    destruct (dirty_apply (c_bitfield c) u (held n cl) (fbit (d_bitfield d)) Hbf Hdirty) as [_ D2].
    intros i Hi. apply D2. rewrite <- Hupd. exact Hi.
  Qed.

  Lemma append_body_FInvG f batch c d j ev bs cl hf l sk c' w' r :
    FInvG c d bs cl hf l -> batch <> [] ->
    sumN (map len (bs ++ batch)) <= u64_max ->
    NODE_SIZE * (2 * N.of_nat (length (bs ++ batch))) <= u64_max ->
    append_body cr f batch sk c c (mkWorld d j ev) = (c', w', r) ->
    r = Panic frame_msg \/
    (r = Ok tt /\
     (exists cs1, cs_append_all cr (tree_changeset (c_tree c)) batch = Ok cs1 /\
        (FInvG c' (w_disk w') (bs ++ batch) (cl_mask cl (N.of_nat (length bs))) hf (l ++ [app_entry cs1 sk]) \/
         FInvG c' (w_disk w') (bs ++ batch) (cl_mask cl (N.of_nat (length bs))) (c_header c') [])) /\
     c_keypair c' = c_keypair c).
  Proof.
    intros D Hne Hfit Hidx H.
    pose proof D as (W & s0 & s1 & body & st0 & st1 & kf & Hcont & G & Hlen & Hbytes & Hhf & Hhc & Hch &
                     Hstore & Hbm & Hbnd & Hbex & Hrep & Hdirty).
    pose proof W as ((HL & HB & HF & HR & Hlook & Hun & Hs & Hn) & Hbf & Hcg & Hd & Hdl).
    set (B := bs ++ batch) in *. set (n := N.of_nat (length bs)) in *.
    set (k := N.of_nat (length batch)).
    assert (Hk : 0 < k) by (destruct batch; [congruence|unfold k; cbn [length]; lia]).
    assert (HlenB : N.of_nat (length B) = n + k) by (unfold B, n, k; rewrite app_length; lia).
    assert (HsumB : sumN (map len B) = sumN (map len bs) + sumN (map len batch))
      by (unfold B; rewrite map_app; apply TreeRef.sumN_app).
    set (cs0 := tree_changeset (c_tree c)) in *.
    assert (R0 : cs_roots cs0 = ref_roots cr B n).
    { unfold cs0, B. cbn [tree_changeset cs_roots]. rewrite HR. symmetry. apply ref_roots_app. unfold n. lia. }
    assert (L0 : cs_length cs0 = n) by exact HL.
    assert (Hblk : forall i, (i < length batch)%nat -> nth i batch [] = blk B (n + N.of_nat i))
      by (intros i Hi; apply batch_blk, Hi).
    destruct (cs_append_all_no_panic cr B Hfit batch cs0 n R0 L0 Hblk) as [cs1 Hcs].
    { unfold cs0. cbn [tree_changeset cs_byte_length]. rewrite HB. lia. }
    destruct (cs_append_all_ref cr B batch cs0 cs1 n R0 L0 Hblk Hcs)
      as (R1 & L1 & B1 & BL1 & A1 & F1 & U1 & Sound1).
    destruct (cs_append_all_complete cr B batch cs0 cs1 n R0 L0 Hblk Hcs) as (_ & OL1 & OF1 & Compl1).
    assert (Hn64 : n + k <= 2 ^ 64).
    { rewrite HlenB in Hidx. unfold NODE_SIZE, u64_max in Hidx. change (2 ^ 64) with 18446744073709551616. lia. }
    destruct (cs_append_all_shape cr B batch cs0 cs1 n R0 L0 Hblk Hn64 Hcs) as (new & Enew & Lnew & Shape1).
    unfold cs0 in B1, BL1, A1, F1, OL1, OF1, Sound1, Enew.
    cbn [tree_changeset cs_byte_length cs_batch_length cs_ancestors cs_fork cs_orig_length cs_orig_fork cs_nodes
         cs_rnodes rev_append] in B1, BL1, A1, F1, OL1, OF1, Sound1, Enew.
    rewrite app_nil_r in Enew.
    assert (Sound : forall x, In x (cs_nodes cs1) -> x = ref_at cr B (n_index x)).
    { intros x Hx. destruct (Sound1 x Hx) as [[]|E]. exact E. }
    assert (Shape : forall x, In x (cs_nodes cs1) -> exists jj q, x = ref_node cr B jj q /\ (q + 1) * p2 jj <= n + k).
    { intros x Hx. apply in_cs_nodes in Hx. rewrite Enew in Hx.
      destruct (Shape1 x Hx) as (jj & q & -> & _ & Q2). exists jj, q. split; [reflexivity|exact Q2]. }
    unfold append_body in H. rewrite mbind_lift in H. fold cs0 in H. rewrite Hcs in H. cbv zeta in H.
    rewrite mbind_emit_SW in H. cbn [w_disk w_journal w_events d_get] in H.
    set (cs := cs_hash_and_sign cr cs1 sk) in *.
    set (bu := mkBfUpdate false (cs_ancestors cs) (cs_batch_length cs)) in *.
    assert (Hbu : bu = mkBfUpdate false n k).
    { unfold bu, cs, cs_hash_and_sign, cs_set_hash_sig. cbn [cs_ancestors cs_batch_length].
      rewrite A1, BL1, HL. f_equal; lia. }
    assert (P1 : cs_upgraded cs = true).
    { unfold cs, cs_hash_and_sign, cs_set_hash_sig. cbn [cs_upgraded]. apply U1, Hne. }
    assert (P5 : cs_orig_fork cs = t_fork (c_tree c)).
    { unfold cs, cs_hash_and_sign, cs_set_hash_sig. cbn [cs_orig_fork]. exact OF1. }
    assert (P6 : cs_orig_length cs = t_length (c_tree c)).
    { unfold cs, cs_hash_and_sign, cs_set_hash_sig. cbn [cs_orig_length]. exact OL1. }
    assert (P7 : cs_ancestors cs = t_length (c_tree c)).
    { unfold cs, cs_hash_and_sign, cs_set_hash_sig. cbn [cs_ancestors]. exact A1. }
    set (hash := cs_tree_hash cr cs1) in *.
    set (sg := cr_sign cr sk (cs_signable cs1 hash)) in *.
    assert (Ecs : cs_nodes cs = cs_nodes cs1 /\ cs_fork cs = 0 /\ cs_length cs = n + k /\
                  cs_roots cs = ref_roots cr B (n + k) /\ cs_byte_length cs = sumN (map len B) /\
                  cs_hash cs = Some hash /\ cs_signature cs = Some sg).
    { unfold cs, cs_hash_and_sign, cs_set_hash_sig.
      cbn [cs_nodes cs_rnodes cs_fork cs_length cs_roots cs_byte_length cs_hash cs_signature].
      fold (cs_nodes cs1). rewrite F1, HF, L1, R1, B1, HB, HsumB. repeat split; reflexivity. }
    destruct Ecs as (EN & EF & EL & ER & EB & EH & ES).
    set (e := mkEntry (cs_nodes cs) (Some (mkTreeUpgrade (cs_fork cs) (cs_ancestors cs) (cs_length cs) sg)) (Some bu)).
    assert (Ee : e = mkEntry (cs_nodes cs1) (Some (mkTreeUpgrade 0 n (n + k) sg)) (Some (mkBfUpdate false n (n + k - n)))).
    { unfold e. rewrite EN, EF, EL, P7, HL, Hbu. replace (n + k - n) with k by lia. reflexivity. }
    assert (Heok : entry_ok e = true).
    { rewrite Ee. apply (append_entry_ok cr Hhash32 Hhashbytes B); try assumption.
      - rewrite <- HlenB. exact Hidx.
      - lia.
      - rewrite length_cs_nodes, Enew. replace (n + k - n) with k by lia. unfold k. lia.
      - apply Hsig64.
      - apply Hsigbytes. }
    assert (P4 : forall x, In x (e_nodes e) -> length (n_hash x) = 32%nat).
    { intros x Hx. unfold e in Hx. cbn [e_nodes] in Hx. rewrite EN in Hx. rewrite (Sound x Hx).
      apply ref_at_hash_length, Hhash32. }
    destruct (oplog_append_cases cr (c_oplog c) e P4) as [OA|(o' & fr & OA)].
    { match type of H with
      | mbind (log_and_commit _ _ _) _ ?c0 ?w0 = _ =>
          pose proof (log_and_commit_panic cr cs bu c0 w0 hash sg frame_msg P1 EH ES OA) as E
      end.
      rewrite (mbind_panic _ _ _ _ _ _ _ E) in H. injection H as <- <- <-. left. reflexivity. }
    match type of H with
    | mbind (log_and_commit _ _ _) _ ?c0 ?w0 = _ =>
        pose proof (log_and_commit_detail cr cs bu c0 w0 hash sg o' _ fr P1 EH ES P5 P6 P7 OA) as E
    end.
    rewrite (mbind_eq _ _ _ _ _ _ _ E) in H. clear E.
    cbn [w_disk w_journal w_events] in H.
    rewrite EN, EF, EL, ER, EB in H.
    (* the state after the commit satisfies the invariant for the longer list *)
    match type of H with
    | mbind (maybe_flush _ _) _ ?c2 (mkWorld ?d2 ?j2 ?ev2) = _ =>
        assert (D2 : FInvG c2 d2 B (cl_mask cl n) hf (l ++ [e])); [|set (c2' := c2) in *; set (d2' := d2) in *]
    end.
    { set (dd := d_set d Data (f_write (d_data d) (t_byte_length (c_tree c)) (concat batch))).
      set (off := ENTRIES_OFFSET + ol_entries_bytes (c_oplog c)) in *.
      assert (Tsame : d_tree (d_set dd Oplog (f_write (d_oplog dd) off fr)) = d_tree d) by (destruct d; reflexivity).
      assert (Dsame : d_data (d_set dd Oplog (f_write (d_oplog dd) off fr))
                      = f_write (d_data d) (t_byte_length (c_tree c)) (concat batch)) by (destruct d; reflexivity).
      assert (Bsame : d_bitfield (d_set dd Oplog (f_write (d_oplog dd) off fr)) = d_bitfield d) by (destruct d; reflexivity).
      assert (Osame : d_oplog (d_set dd Oplog (f_write (d_oplog dd) off fr)) = f_write (d_oplog d) off fr)
        by (destruct d; reflexivity).
      assert (GG : forall i, bf_get (bf_apply (c_bitfield c) bu) i = held (N.of_nat (length B)) (cl_mask cl n) i).
      { intros i. rewrite bf_get_apply, Hbu, HlenB. cbn [bu_start bu_length bu_drop negb]. rewrite Hbf.
        unfold held, cl_mask. fold n.
        destruct (N.leb_spec n i), (N.ltb_spec i (n + k)), (N.ltb_spec i n); cbn [andb];
          rewrite ?andb_false_r, ?andb_true_r; cbn [negb]; try reflexivity; lia. }
      assert (Hex2 : exact_contig (bf_apply (c_bitfield c) bu)
                                  (update_contig (hd_contig (c_header c)) (bf_apply (c_bitfield c) bu) bu)).
      { apply update_contig_exact; [exact Hcg|]. rewrite Hbu. cbn [bu_length]. exact Hk. }
      match goal with |- FInvG ?c2 ?d2 B _ _ _ => assert (W2 : CInv cr c2 d2 B (cl_mask cl n)) end.
      { unfold CInv, TInv. cbv zeta. cbn [c_tree c_bitfield c_header t_length t_byte_length t_fork t_roots].
        rewrite Tsame, Dsame. rewrite HB.
        split.
        { split; [symmetry; exact HlenB|].
          split; [reflexivity|].
          split; [reflexivity|].
          split; [rewrite HlenB; reflexivity|].
          split.
          { apply (commit_lookups cr Hnonblank bs batch (c_tree c) _ (d_tree d) (cs_nodes cs1)).
            - exact Sound.
            - intros jj q Q1 Q2. apply Compl1; [exact Q1|]. fold B in Q2. rewrite HlenB in Q2. exact Q2.
            - reflexivity.
            - exact Hlook. }
          split.
          { apply (commit_unflushed_ok cr Hhash32 B (c_tree c) _ (cs_nodes cs1) Hfit Sound); [reflexivity|exact Hun]. }
          split; [exact Hfit|exact Hidx]. }
        split; [exact GG|].
        split; [cbn [set_contig hd_contig]; exact Hex2|].
        split.
        { intros i Hi Hpos. rewrite <- GG in Hi. rewrite bf_get_apply, Hbu in Hi.
          cbn [bu_start bu_length bu_drop negb] in Hi.
          destruct (N.lt_ge_cases i n) as [A|A].
          - assert ((n <=? i) && (i <? n + k) = false) as E by lia. rewrite E in Hi. rewrite Hbf in Hi.
            assert (Hnth : nth (N.to_nat i) B [] = nth (N.to_nat i) bs []) by (unfold B; apply app_nth1; lia).
            rewrite Hnth in *. unfold B. rewrite prefix_size_app_l by (fold n; lia).
            pose proof (Hd i Hi Hpos) as R. pose proof R as R'. apply f_read_spec in R' as (R1' & _).
            rewrite f_read_write_other; [exact R|exact R1'|left; lia].
          - destruct (N.lt_ge_cases i (n + k)) as [A2|A2].
            2:{ assert ((n <=? i) && (i <? n + k) = false) as E by lia. rewrite E in Hi. rewrite Hbf in Hi.
                unfold held in Hi. fold n in Hi. lia. }
            set (jn := (N.to_nat i - length bs)%nat).
            assert (Hjn : (jn < length batch)%nat) by (unfold jn, n, k in *; lia).
            assert (Hi' : i = n + N.of_nat jn) by (unfold jn, n in *; lia).
            assert (Hnth : nth (N.to_nat i) B [] = nth jn batch []).
            { unfold B. rewrite app_nth2 by (unfold n in A; lia). reflexivity. }
            rewrite Hnth in *. rewrite Hi'. unfold B, n. rewrite prefix_size_app_r.
            rewrite (concat_split batch jn Hjn) at 1. apply f_read_write_part. }
        rewrite f_write_len, len_concat. lia. }
      apply (log_entry_FInvG c d bs cl batch e bu o' fr _ _ (cl_mask cl n) hf l D);
        try reflexivity; try assumption.
      - intros kf0 l0 Hch0. apply (gchain_snoc_append cr B l0 kf0 n e).
        + apply gchain_app; [apply N.le_refl|exact Hch0].
        + fold B. rewrite HlenB. rewrite Ee. split; [lia|]. split.
          { exists sg. split; [reflexivity|]. split; [apply Hsig64|apply Hsigbytes]. }
          split; [reflexivity|]. cbn [e_nodes]. split; [exact Shape|].
          intros jj q Q1 Q2. apply Compl1; assumption.
      - cbn [c_header]. fold B. rewrite HlenB.
        destruct Hhc as (Hok & Hkp & Hfk & Hln & Hrh & Hsgc).
        apply (hdr_desc'_upd (c_keypair c) (c_header c) n _ (n + k) hash sg); try reflexivity.
        + repeat split; assumption.
        + cbn [set_contig set_tree hd_tree]. rewrite Hfk. reflexivity.
        + cbn [set_contig hd_contig].
          assert (update_contig (hd_contig (c_header c)) (bf_apply (c_bitfield c) bu) bu <= n + k); [|unfold NODE_SIZE in Hidx; lia].
          apply (fexact_le (bf_get (bf_apply (c_bitfield c) bu))); [|apply exact_contig_fexact, Hex2].
          intros i Hi. rewrite GG, HlenB in Hi. apply (held_lt _ _ _ Hi).
        + rewrite <- HlenB. unfold NODE_SIZE in Hidx. lia.
        + apply Hhash32.
        + apply Hhashbytes.
        + apply Hsig64.
        + apply Hsigbytes. }
    mstep H.
    - apply (maybe_flush_FInvG f c2' d2' _ _ B (cl_mask cl n) hf (l ++ [e])) in Hm; [|exact D2].
      destruct Hm as (_ & D3 & K3).
      rewrite mbind_send in H. unfold send in H. injection H as <- <- <-.
      right. split; [reflexivity|]. cbn [w_disk]. split; [exists cs1; split; [exact Hcs|exact D3]|]. rewrite K3. reflexivity.
    - apply (maybe_flush_FInvG f c2' d2' _ _ B (cl_mask cl n) hf (l ++ [e])) in Hm; [|exact D2].
      destruct Hm as (Hm & _). discriminate Hm.
    - apply (maybe_flush_FInvG f c2' d2' _ _ B (cl_mask cl n) hf (l ++ [e])) in Hm; [|exact D2].
      destruct Hm as (Hm & _). discriminate Hm.
    - apply (maybe_flush_FInvG f c2' d2' _ _ B (cl_mask cl n) hf (l ++ [e])) in Hm; [|exact D2].
      destruct Hm as (Hm & _). discriminate Hm.
  Qed.

  Theorem append_FInvG f batch c d j ev bs cl hf l sk c' w' r :
    FInvG c d bs cl hf l -> kp_secret (c_keypair c) = Some sk ->
    sumN (map len (bs ++ batch)) <= u64_max ->
    NODE_SIZE * (2 * N.of_nat (length (bs ++ batch))) <= u64_max ->
    core_append cr f batch c (mkWorld d j ev) = (c', w', r) ->
    r = Panic frame_msg \/
    (r = Ok (N.of_nat (length (bs ++ batch)), sumN (map len (bs ++ batch))) /\
     ((batch = [] /\ FInvG c' (w_disk w') (bs ++ batch) (cl_mask cl (N.of_nat (length bs))) hf l) \/
      (batch <> [] /\
       ((exists cs1, cs_append_all cr (tree_changeset (c_tree c)) batch = Ok cs1 /\
          FInvG c' (w_disk w') (bs ++ batch) (cl_mask cl (N.of_nat (length bs))) hf (l ++ [app_entry cs1 sk])) \/
        FInvG c' (w_disk w') (bs ++ batch) (cl_mask cl (N.of_nat (length bs))) (c_header c') []))) /\
     c_keypair c' = c_keypair c).
  Proof.
    intros D Hsk Hfit Hidx H.
    unfold core_append in H. rewrite mbind_get_core, Hsk in H.
    destruct batch as [|b0 rest].
    - rewrite mbind_ret, mbind_get_core in H. unfold ret in H. injection H as <- <- <-.
      right. rewrite app_nil_r.
      pose proof (FInv_CInv cr c d bs cl (FInvG_FInv _ _ _ _ _ _ D)) as ((HL & HB & _) & _). rewrite HL, HB.
      split; [reflexivity|]. split; [|reflexivity]. cbn [w_disk]. left. split; [reflexivity|].
      apply (FInvG_cl_ext c d bs cl); [|exact D].
      intros i Hi. unfold cl_mask. assert (i <? N.of_nat (length bs) = true) as -> by lia. apply andb_true_r.
    - cbv iota in H. fold (append_body cr f (b0 :: rest) sk c) in H.
      mstep H.
      + apply (append_body_FInvG f (b0 :: rest) c d j ev bs cl hf l sk) in Hm; try assumption; [|discriminate].
        destruct Hm as [Hm|(_ & (cs1 & Hcs & D1) & K1)]; [discriminate Hm|].
        rewrite mbind_get_core in H. unfold ret in H. injection H as <- <- <-.
        right.
        match type of K1 with c_keypair ?c0 = _ =>
          match type of D1 with FInvG _ ?d0 _ _ _ _ \/ _ =>
            assert (D1' : FInv cr c0 d0 (bs ++ b0 :: rest) (cl_mask cl (N.of_nat (length bs))))
              by (destruct D1 as [D1|D1]; apply (FInvG_FInv _ _ _ _ _ _ D1))
          end
        end.
        pose proof (FInv_CInv cr _ _ _ _ D1') as ((HL & HB & _) & _). rewrite HL, HB.
        split; [reflexivity|]. split; [|exact K1].
        right. split; [discriminate|].
        destruct D1 as [D1|D1]; [left; exists cs1; split; [exact Hcs|exact D1]|right; exact D1].
      + apply (append_body_FInvG f (b0 :: rest) c d j ev bs cl hf l sk) in Hm; try assumption; [|discriminate].
        destruct Hm as [Hm|(Hm & _)]; discriminate Hm.
      + apply (append_body_FInvG f (b0 :: rest) c d j ev bs cl hf l sk) in Hm; try assumption; [|discriminate].
        destruct Hm as [Hm|(Hm & _)]; [|discriminate Hm]. left. injection Hm as ->. reflexivity.
      + apply (append_body_FInvG f (b0 :: rest) c d j ev bs cl hf l sk) in Hm; try assumption; [|discriminate].
        destruct Hm as [Hm|(Hm & _)]; discriminate Hm.
  Qed.

  Theorem clear_FInvG f c d j ev bs cl hf l start end_ c' w' r :
    let n := N.of_nat (length bs) in
    FInvG c d bs cl hf l -> start < n -> start < end_ -> end_ <= u64_max ->
    core_clear cr f start end_ c (mkWorld d j ev) = (c', w', r) ->
    r = Ok tt /\
    (FInvG c' (w_disk w') bs (cl_clear cl start end_) hf (l ++ [clear_entry start end_]) \/
     FInvG c' (w_disk w') bs (cl_clear cl start end_) (c_header c') []) /\ c_keypair c' = c_keypair c.
  Proof.
    intros n D Hsn Hse Hend H.
    pose proof (FInv_CInv cr c d bs cl (FInvG_FInv _ _ _ _ _ _ D)) as W.
    assert (Hhc : hdr_desc' (c_keypair c) (c_header c) n).
    { destruct D as (_ & s0 & s1 & body & st0 & st1 & kf & _ & _ & _ & _ & _ & Hhc & _). exact Hhc. }
    pose proof W as (T & Hbf & Hcg & Hd & Hl).
    pose proof T as (HL & HB & HF & HR & Hlook & Hun & Hs & Hn).
    unfold core_clear in H.
    destruct (N.leb_spec end_ start) as [L|_]; [lia|].
    rewrite mbind_get_core in H. cbv zeta in H. rewrite mbind_lift in H.
    destruct (clear_entry_logged cr (c_oplog c) start (end_ - start)) as (o' & fr & OA). rewrite OA in H.
    cbv iota in H.
    rewrite mbind_put_oplog, mbind_emit_SW, mbind_put_bitfield, mbind_cond_header in H.
    cbn [c_keypair c_oplog c_tree c_bitfield c_header c_skip w_disk w_journal w_events d_get] in H.
    rewrite mbind_get_disk in H. cbn [w_disk] in H.
    set (cl' := cl_clear cl start end_).
    set (u := mkBfUpdate true start (end_ - start)) in *.
    set (e := mkEntry [] None (Some u)) in *.
    set (b' := bf_set_range (c_bitfield c) start (end_ - start) false) in *.
    set (d1 := d_set d Oplog (f_write (d_oplog d) (ENTRIES_OFFSET + ol_entries_bytes (c_oplog c)) fr)) in *.
    assert (Dt : d_tree d1 = d_tree d) by (destruct d; reflexivity).
    assert (Dd : d_data d1 = d_data d) by (destruct d; reflexivity).
    assert (Db : d_bitfield d1 = d_bitfield d) by (destruct d; reflexivity).
    assert (Do : d_oplog d1 = f_write (d_oplog d) (ENTRIES_OFFSET + ol_entries_bytes (c_oplog c)) fr)
      by (destruct d; reflexivity).
    assert (Hb' : forall i, bf_get b' i = held n cl' i).
    { intros i. unfold b'. rewrite bf_get_set_range, Hbf. unfold held, cl', cl_clear.
      replace (start + (end_ - start)) with end_ by lia.
      destruct ((start <=? i) && (i <? end_)); [rewrite orb_true_r; cbn [negb]; rewrite andb_false_r; reflexivity|].
      rewrite orb_false_r. reflexivity. }
    assert (Hcl' : forall i, start <= i -> i < end_ -> cl' i = true).
    { intros i A B. unfold cl', cl_clear. assert ((start <=? i) && (i <? end_) = true) as -> by lia.
      apply orb_true_r. }
    assert (Hsub : forall i, held n cl' i = true -> held n cl i = true).
    { intros i. unfold held, cl', cl_clear. destruct (i <? n); [|intros E; exact E]. cbn [andb].
      destruct (cl i); [intros E; exact E|reflexivity]. }
    pose proof (hole_bounds b' n start end_ cl' Hb' Hsn Hse Hcl') as HB'. cbv zeta in HB'. fold n in HL.
    rewrite HL in H.
    set (s' := match bf_last_index_of_true b' start with Some i => i + 1 | None => 0 end) in *.
    set (e' := match bf_index_of_true b' end_ with Some i => i | None => n end) in *.
    destruct HB' as (B1 & B2 & B3 & B4 & B5).
    rewrite Dt in H.
    rewrite mbind_lift, (byte_offset_tinv cr (c_tree c) (d_tree d) bs s' T) in H by (fold n; lia).
    rewrite mbind_lift in H. unfold sub64 at 1 in H.
    destruct (N.leb_spec 1 e') as [_|L]; [|lia].
    rewrite mbind_lift, (byte_range_tinv cr (c_tree c) (d_tree d) bs (e' - 1) T) in H by (fold n; lia).
    cbv iota in H.
    assert (Pe : prefix_size bs (e' - 1) + len (nth (N.to_nat (e' - 1)) bs []) = prefix_size bs e').
    { change (nth (N.to_nat (e' - 1)) bs []) with (blk bs (e' - 1)). rewrite <- prefix_size_succ. f_equal. lia. }
    rewrite Pe in H. rewrite mbind_lift in H. unfold sub64 in H.
    pose proof (prefix_size_mono bs s' e' ltac:(lia)) as Pm.
    destruct (N.leb_spec (prefix_size bs s') (prefix_size bs e')) as [_|L]; [|lia].
    (* the state before the delete satisfies the invariant for the larger cleared set *)
    match type of H with
    | mbind _ _ ?c2 _ = _ => assert (W2 : CInv cr c2 d1 bs cl'); [|set (c2' := c2) in *]
    end.
    { unfold CInv. cbv zeta. cbn [c_tree c_bitfield c_header]. rewrite Dt, Dd. fold n.
      split; [exact T|]. split; [exact Hb'|]. split.
      - destruct Hcg as [G1 G2]. destruct (N.ltb_spec start (hd_contig (c_header c))) as [A|A].
        + cbn [set_contig hd_contig]. split.
          * intros i Hi. unfold b'. rewrite bf_get_set_range.
            assert ((start <=? i) && (i <? start + (end_ - start)) = false) as -> by lia. apply G1. lia.
          * unfold b'. rewrite bf_get_set_range.
            assert ((start <=? start) && (start <? start + (end_ - start)) = true) as -> by lia. reflexivity.
        + split.
          * intros i Hi. unfold b'. rewrite bf_get_set_range.
            assert ((start <=? i) && (i <? start + (end_ - start)) = false) as -> by lia. apply G1. lia.
          * unfold b'. rewrite bf_get_set_range.
            destruct ((start <=? hd_contig (c_header c)) && (hd_contig (c_header c) <? start + (end_ - start)));
              [reflexivity|exact G2].
      - split; [|exact Hl]. intros i Hi. apply Hd, Hsub, Hi. }
    assert (Hn64 : n <= u64_max) by (unfold NODE_SIZE in Hn; fold n in Hn; lia).
    assert (Hcd : cdesc e).
    { exists start, (end_ - start). split; [reflexivity|]. split; [lia|]. split; lia. }
    assert (F2 : FInvG c2' d1 (bs ++ []) cl' hf (l ++ [e])).
    { apply (log_entry_FInvG c d bs cl [] e u o' fr c2' d1 cl' hf l D);
        try reflexivity; try assumption.
      - apply cdesc_entry_ok, Hcd.
      - rewrite app_nil_r. exact W2.
      - intros kf0 l0 Hch0. rewrite app_nil_r. apply gchain_snoc_clear; assumption.
      - rewrite app_nil_r. fold n. unfold c2'. cbn [c_header].
        destruct (start <? hd_contig (c_header c)); [|exact Hhc]. apply hdr_desc'_contig; [exact Hhc|lia]. }
    rewrite app_nil_r in F2.
    rewrite Dd in H.
    destruct ((0 <? prefix_size bs e' - prefix_size bs s') && (prefix_size bs s' <? f_len (d_data d))) eqn:G.
    - (* a delete is issued; it starts inside the store *)
      destruct (f_del_some (d_data d) (prefix_size bs s') (prefix_size bs e' - prefix_size bs s') ltac:(lia))
        as [f' Edel].
      rewrite (mbind_emit_SD_some Data _ _ f') in H by (cbn [w_disk d_get]; rewrite Dd; exact Edel).
      cbn [w_disk w_journal w_events] in H.
      destruct W2 as (T2 & Hbf2 & Hcg2 & Hd2 & Hl2). rewrite Dd in Hd2.
      destruct (del_hole_preserves bs cl' s' e' (d_data d) f' ltac:(lia) B4 Hd2 Hl Edel) as [Hd3 Hl3].
      assert (W3 : CInv cr c2' (d_set d1 Data f') bs cl').
      { unfold CInv. cbv zeta.
        assert (d_tree (d_set d1 Data f') = d_tree d1) as -> by (destruct d1; reflexivity).
        assert (d_data (d_set d1 Data f') = f') as -> by (destruct d1; reflexivity).
        split; [exact T2|]. split; [exact Hbf2|]. split; [exact Hcg2|]. split; [exact Hd3|exact Hl3]. }
      assert (F3 : FInvG c2' (d_set d1 Data f') bs cl' hf (l ++ [e])).
      { apply (FInvG_data c2' d1 _ bs cl' _ _ F2 W3); destruct d1; reflexivity. }
      apply (maybe_flush_FInvG f c2' _ _ _ bs cl' hf (l ++ [e])) in H; [|exact F3].
      destruct H as (-> & F4 & K4).
      split; [reflexivity|]. split; [exact F4|]. rewrite K4. reflexivity.
    - (* no delete is issued: the data store is unchanged *)
      rewrite mbind_ret in H.
      apply (maybe_flush_FInvG f c2' _ _ _ bs cl' hf (l ++ [e])) in H; [|exact F2].
      destruct H as (-> & F4 & K4).
      split; [reflexivity|]. split; [exact F4|]. rewrite K4. reflexivity.
  Qed.

  Theorem reopen_FInvG c d bs cl hf l :
    FInvG c d bs cl hf l ->
    exists c', core_open cr None true d = (d, [], Ok c') /\
               FInvG c' d bs cl hf l /\ c_keypair c' = c_keypair c.
  Proof.
    intros (W & s0 & s1 & body & st0 & st1 & kf & Hcont & G & Hlen & Hbytes & Hhf & Hhc & Hch &
            Hstore & Hbm & Hbnd & Hbex & Hrep & Hdirty).
    pose proof W as ((HL & HB & HF & HR & Hlook & Hun & Hs & Hn) & Hbf & Hcg & Hd & Hdl).
    set (n := N.of_nat (length bs)) in *.
    unfold core_open. cbv iota. rewrite Hcont.
    rewrite (good_open cr Hcrc _ _ _ _ _ _ _ _ G).
    cbn [stable_result oo_ops oo_header oo_entries oo_oplog apply_sops].
    pose proof Hhf as (Hok & Hkp & Hfk & Hln & Hrh & Hsg).
    destruct (tree_open_ref cr Hnonblank bs (d_tree d) (hd_tree hf) kf Hstore Hln Hsg) as [sg0 Hto].
    rewrite Hto. cbn [bind]. rewrite Hfk.
    set (t0 := mkTree (ref_roots cr bs kf) kf (prefix_size bs kf) 0 sg0 nm_empty).
    set (b0 := fbit (d_bitfield d)) in *.
    assert (R0 : RInvU cr bs (d_tree d) (c_keypair c) b0 (t0, bf_open (d_bitfield d), hf) kf b0).
    { unfold RInvU, t0. cbn [t_length t_byte_length t_fork t_roots].
      split; [reflexivity|]. split; [reflexivity|]. split; [reflexivity|]. split; [reflexivity|].
      split. { intros dd o Hfull. rewrite <- (Hstore dd o Hfull). apply required_node_same_unflushed. reflexivity. }
      split. { intros i x H. cbn [t_unflushed] in H. rewrite nm_get_empty in H. discriminate H. }
      split. { intros i. apply bf_open_get, Hbm. }
      split; [exact Hbnd|].
      split. { intros i H. exfalso. apply H. reflexivity. }
      split; [exact Hhf|exact Hbex]. }
    assert (Hn64 : n <= u64_max) by (unfold NODE_SIZE in Hn; lia).
    destruct (replay_entries_okU cr Hhash32 Hnonblank Hhashbytes bs (d_tree d) (c_keypair c) b0 l
                t0 (bf_open (d_bitfield d)) hf kf n b0 Hs Hn64 R0 Hch) as (t' & b' & h' & Hrepl & R').
    rewrite Hrepl. cbn [bind].
    destruct R' as (HL' & HB' & HF' & HR' & Hlook' & Hun' & Hbf' & Hbnd' & Hdirty' & Hh' & Hex').
    pose proof Hh' as (Hok' & Hkp' & _).
    eexists. split; [reflexivity|].
    assert (Hg : forall i, bf_get b' i = held n cl i) by (intros i; rewrite Hbf'; apply Hrep).
    split; [|cbn [c_keypair]; exact Hkp'].
    split.
    { unfold CInv, TInv. cbv zeta. cbn [c_tree c_bitfield c_header]. fold n.
      split.
      { split; [exact HL'|]. split; [rewrite HB'; unfold n; apply prefix_size_all|].
        split; [exact HF'|]. split; [exact HR'|]. split; [exact Hlook'|]. split; [exact Hun'|].
        split; [exact Hs|exact Hn]. }
      split; [exact Hg|].
      split. { apply exact_contig_fexact. apply (fexact_ext (upds_fun b0 (updates_of l))); [|exact Hex'].
               intros i. symmetry. apply Hbf'. }
      split; [exact Hd|exact Hdl]. }
    cbn [c_oplog c_keypair c_header c_bitfield ol_bits ol_entries_len ol_entries_bytes].
    fold n. rewrite Hkp'.
    exists s0, s1, body, st0, st1, kf.
    split; [exact Hcont|]. split; [exact G|]. split; [reflexivity|]. split; [reflexivity|].
    split; [exact Hhf|]. split; [exact Hh'|]. split; [exact Hch|].
    split; [exact Hstore|]. split; [exact Hbm|]. split; [exact Hbnd|]. split; [exact Hbex|].
    split; [exact Hrep|].
    intros i Hi. apply Hdirty'. fold b0 in Hi. rewrite Hrep. exact Hi.
  Qed.

End G.

(* ====================================================================================== *)
(* Pairing two runs                                                                        *)
(* ====================================================================================== *)

(* every non-empty clear starts below the current length and ends at a u64 *)
Fixpoint wf_h (ops : list hop) (n : N) : Prop :=
  match ops with
  | [] => True
  | HAppend _ batch :: rest => wf_h rest (n + N.of_nat (length batch))
  | HClear _ s e :: rest => (e <= s \/ (s < n /\ e <= u64_max)) /\ wf_h rest n
  | _ :: rest => wf_h rest n
  end.

Fixpoint happended (ops : list hop) : list bytes :=
  match ops with
  | [] => []
  | HAppend _ batch :: rest => batch ++ happended rest
  | _ :: rest => happended rest
  end.

Section W.
  Variable cr : crypto.
  Hypothesis Hcrc : crc_ok cr.
  Hypothesis Hhash32 : forall x, length (cr_hash cr x) = 32%nat.
  Hypothesis Hnonblank : forall x, all_zero (cr_hash cr x) = false.
  Hypothesis Hhashbytes : forall x, bytes_ok (cr_hash cr x) = true.
  Hypothesis Hsig64 : forall sk m, length (cr_sign cr sk m) = 64%nat.
  Hypothesis Hsigbytes : forall sk m, bytes_ok (cr_sign cr sk m) = true.

  Lemma Hsig : forall sk sk' m, length (cr_sign cr sk m) = length (cr_sign cr sk' m).
  Proof. intros. rewrite !Hsig64. reflexivity. Qed.

  (* both runs satisfy the invariant for the same blocks and cleared set; flushed headers and pending entries
     are related *)
  Definition PInv (c1 : core) (d1 : disk) (c2 : core) (d2 : disk) (bs : list bytes) (cl : N -> bool) : Prop :=
    exists hf1 l1 hf2 l2,
      FInvG cr c1 d1 bs cl hf1 l1 /\ FInvG cr c2 d2 bs cl hf2 l2 /\ hd_sim hf1 hf2 /\ Forall2 e_sim l1 l2.

  Lemma oplog_eta o : mkOplog (ol_bits o) (ol_entries_len o) (ol_entries_bytes o) = o.
  Proof. destruct o. reflexivity. Qed.

  Lemma PInv_reopen_point c1 d1 j1 ev1 c2 d2 j2 ev2 bs cl :
    sim c1 c2 -> PInv c1 d1 c2 d2 bs cl -> reopen_point cr (mkWorld d1 j1 ev1) (mkWorld d2 j2 ev2).
  Proof.
    intros S (hf1 & l1 & hf2 & l2 & F1 & F2 & Hh & Hl). unfold reopen_point. cbn [w_disk].
    rewrite (FInvG_open cr Hcrc _ _ _ _ _ _ F1), (FInvG_open cr Hcrc _ _ _ _ _ _ F2). cbn [res_rel].
    unfold oo_sim, stable_result. cbn [oo_oplog oo_header oo_ops oo_entries].
    pose proof F1 as (_ & a0 & a1 & ab & x0 & x1 & kf1 & _ & _ & L1 & B1 & _).
    pose proof F2 as (_ & b0 & b1 & bb & y0 & y1 & kf2 & _ & _ & L2 & B2 & _).
    rewrite <- L1, <- B1, <- L2, <- B2, !oplog_eta.
    destruct S as (_ & O & _). split; [exact O|]. split; [exact Hh|]. split; [constructor|exact Hl].
  Qed.

  Lemma app_entry_sim cs s1 s2 : e_sim (app_entry cr cs s1) (app_entry cr cs s2).
  Proof.
    unfold e_sim, app_entry, tu_sim, cs_hash_and_sign, cs_set_hash_sig, cs_nodes.
    cbn [e_nodes e_bitfield e_upgrade tu_fork tu_ancestors tu_length tu_signature cs_rnodes cs_fork cs_ancestors
         cs_length cs_batch_length].
    repeat split; auto. rewrite !Hsig64. reflexivity.
  Qed.

  Lemma Forall2_snoc {A B} (R : A -> B -> Prop) l1 l2 a b :
    Forall2 R l1 l2 -> R a b -> Forall2 R (l1 ++ [a]) (l2 ++ [b]).
  Proof. intros H K. apply Forall2_app; [exact H|constructor; [exact K|constructor]]. Qed.

  Lemma len_snoc_ne {A} (l : list A) a : N.of_nat (length (l ++ [a])) <> 0.
  Proof. rewrite app_length. cbn [length]. lia. Qed.


  (* make_read_only: both slots hold the header without the secret, no pending entries *)
  Lemma make_read_only_FInvG c d j ev bs cl hf l :
    FInvG cr c d bs cl hf l ->
    exists c' w',
      core_make_read_only cr c (mkWorld d j ev) = (c', w', Ok (i_writeable (core_info c))) /\
      FInvG cr c' (w_disk w') bs cl (ro_header c) [].
  Proof.
    intros G. pose proof (FInvG_FInv cr _ _ _ _ _ _ G) as D. pose proof (FInv_YInv cr _ _ _ _ D) as Y.
    pose proof (FInv_CInv cr _ _ _ _ D) as (_ & _ & _ & _ & Hdl).
    destruct (make_read_only_FInv cr Hhash32 Hnonblank Hhashbytes c d j ev bs cl Y Hdl) as (c' & w' & E & D' & _).
    destruct (read_only_oplog_file_Y cr Hhash32 Hnonblank Hhashbytes c d j ev bs cl Y)
      as (c'' & w'' & E' & _ & Hc & _).
    rewrite E in E'. injection E' as <- <-.
    exists c', w'. split; [exact E|].
    destruct (FInv_FInvG cr _ _ _ _ D') as (hf' & l' & G').
    pose proof (FInvG_open cr Hcrc _ _ _ _ _ _ G') as O1.
    pose proof G as (_ & s0 & s1 & body & st0 & st1 & kf & _ & _ & _ & _ & _ & Hhc & _).
    pose proof (hdr_desc'_erase _ _ _ Hhc) as Hhn. fold (ro_header c) in Hhn.
    pose proof (hdr_desc'_fits _ _ _ Hhn) as Hfit. destruct Hhn as (Hokn & _).
    pose proof (good_open cr Hcrc _ _ _ _ _ _ _ _
                  (ro_file_good cr (negb (fst (ol_bits (c_oplog c)))) (negb (snd (ol_bits (c_oplog c))))
                     (ro_header c) Hokn Hfit)) as O2.
    unfold ro_oplog_file in Hc. rewrite app_nil_r, <- Hc, O1 in O2.
    pose proof (f_equal (fun r => match r with Ok o => (oo_header o, oo_entries o) | _ => (hf', l') end) O2) as Z.
    cbn [stable_result oo_header oo_entries] in Z. injection Z as -> ->. exact G'.
  Qed.

  Theorem wf_reopen_ok ops : forall c1 d1 j1 ev1 c2 d2 j2 ev2 bs cl,
    sim c1 c2 -> w_sim (mkWorld d1 j1 ev1) (mkWorld d2 j2 ev2) -> PInv c1 d1 c2 d2 bs cl ->
    wf_h ops (N.of_nat (length bs)) ->
    sumN (map len (bs ++ happended ops)) <= u64_max ->
    NODE_SIZE * (2 * N.of_nat (length (bs ++ happended ops))) <= u64_max ->
    reopen_ok cr ops c1 (mkWorld d1 j1 ev1) c2 (mkWorld d2 j2 ev2).
  Proof.
    induction ops as [|op ops IH]; intros c1 d1 j1 ev1 c2 d2 j2 ev2 bs cl S W P Hwf Hfit Hidx;
      cbn [reopen_ok]; [exact I|].
    assert (Hrp : op = HReopen -> reopen_point cr (mkWorld d1 j1 ev1) (mkWorld d2 j2 ev2))
      by (intros _; eapply PInv_reopen_point; eauto).
    split; [exact Hrp|].
    pose proof (hstep_sim cr Hsig op c1 _ c2 _ S W Hrp) as (_ & _ & S' & W').
    destruct P as (hf1 & l1 & hf2 & l2 & F1 & F2 & Hh & Hl).
    pose proof (FInv_CInv cr _ _ _ _ (FInvG_FInv cr _ _ _ _ _ _ F1)) as C1.
    pose proof (FInv_CInv cr _ _ _ _ (FInvG_FInv cr _ _ _ _ _ _ F2)) as C2.
    destruct op as [f batch|f s e|i|i| | |]; cbn [hstep wf_h happended] in *.
    - (* append *)
      unfold mstep, so_go, so_core, so_world in *. cbn [fst snd] in *.
      destruct (core_append cr f batch c1 (mkWorld d1 j1 ev1)) as [[c1' w1'] r1] eqn:E1.
      destruct (core_append cr f batch c2 (mkWorld d2 j2 ev2)) as [[c2' w2'] r2] eqn:E2.
      cbn [fst snd orb] in *. intros Hgo.
      pose proof S as ((_ & Ks) & _).
      destruct (kp_secret (c_keypair c1)) as [sk1|] eqn:K1;
        [|rewrite (append_not_writable cr f batch c1 _ K1) in E1; injection E1 as <- <- <-; discriminate Hgo].
      destruct (kp_secret (c_keypair c2)) as [sk2|] eqn:K2; [|cbn [olen] in Ks; contradiction].
      rewrite app_assoc in Hfit, Hidx.
      assert (Hfit1 : sumN (map len (bs ++ batch)) <= u64_max).
      { rewrite map_app, TreeRef.sumN_app in Hfit. lia. }
      assert (Hidx1 : NODE_SIZE * (2 * N.of_nat (length (bs ++ batch))) <= u64_max).
      { rewrite (app_length (bs ++ batch)) in Hidx. unfold NODE_SIZE in *. lia. }
      destruct (append_FInvG cr Hcrc Hhash32 Hnonblank Hhashbytes Hsig64 Hsigbytes f batch c1 d1 j1 ev1 bs cl hf1 l1
                  sk1 c1' w1' r1 F1 K1 Hfit1 Hidx1 E1) as [->|(-> & T1 & Kp1)]; [discriminate Hgo|].
      pose proof (hstep_sim cr Hsig (HAppend f batch) c1 _ c2 _ S W ltac:(discriminate)) as (_ & G & _).
      unfold hstep, mstep, so_go in G. cbn [fst snd] in G. rewrite E1, E2 in G. cbn [fst snd orb is_ok] in G.
      destruct (append_FInvG cr Hcrc Hhash32 Hnonblank Hhashbytes Hsig64 Hsigbytes f batch c2 d2 j2 ev2 bs cl hf2 l2
                  sk2 c2' w2' r2 F2 K2 Hfit1 Hidx1 E2) as [->|(-> & T2 & Kp2)]; [discriminate G|].
      destruct w1' as [d1' j1' ev1'], w2' as [d2' j2' ev2']. cbn [w_disk] in T1, T2.
      assert (Hwf' : wf_h ops (N.of_nat (length (bs ++ batch)))).
      { rewrite app_length, Nat2N.inj_add. exact Hwf. }
      pose proof S' as (_ & O' & _).
      assert (P' : PInv c1' d1' c2' d2' (bs ++ batch) (cl_mask cl (N.of_nat (length bs)))).
      { destruct T1 as [(Eb & A1)|(Nb & [(cs1 & Hcs1 & B1)|X1])], T2 as [(Eb' & A2)|(Nb' & [(cs2 & Hcs2 & B2)|X2])];
          try congruence.
        - exists hf1, l1, hf2, l2. auto.
        - rewrite (tree_changeset_sim _ _ (proj1 (proj2 (proj2 S)))) in Hcs1. rewrite Hcs1 in Hcs2.
          injection Hcs2 as <-.
          exists hf1, (l1 ++ [app_entry cr cs1 sk1]), hf2, (l2 ++ [app_entry cr cs1 sk2]).
          split; [exact B1|]. split; [exact B2|]. split; [exact Hh|].
          apply Forall2_snoc; [exact Hl|apply app_entry_sim].
        - exfalso. pose proof (FInvG_len cr _ _ _ _ _ _ B1) as Q1. pose proof (FInvG_len cr _ _ _ _ _ _ X2) as Q2.
          rewrite O' in Q1. rewrite Q2 in Q1. cbn [length] in Q1. symmetry in Q1. exact (len_snoc_ne _ _ Q1).
        - exfalso. pose proof (FInvG_len cr _ _ _ _ _ _ X1) as Q1. pose proof (FInvG_len cr _ _ _ _ _ _ B2) as Q2.
          rewrite O' in Q1. rewrite Q2 in Q1. cbn [length] in Q1. exact (len_snoc_ne _ _ Q1).
        - exists (c_header c1'), [], (c_header c2'), []. split; [exact X1|]. split; [exact X2|].
          split; [apply S'|constructor]. }
      apply (IH c1' d1' j1' ev1' c2' d2' j2' ev2' (bs ++ batch) (cl_mask cl (N.of_nat (length bs)))); assumption.
    - (* clear *)
      destruct Hwf as [Hse Hwf].
      unfold mstep, so_go, so_core, so_world in *. cbn [fst snd] in *.
      destruct (N.leb_spec e s) as [L|L].
      + rewrite !(clear_noop cr f s e _ _ L) in *. cbn [fst snd] in *. intros _.
        apply (IH c1 d1 j1 ev1 c2 d2 j2 ev2 bs cl); try assumption.
        exists hf1, l1, hf2, l2. auto.
      + destruct Hse as [Hse|[Hse He]]; [lia|].
        destruct (core_clear cr f s e c1 (mkWorld d1 j1 ev1)) as [[c1' w1'] r1] eqn:E1.
        destruct (core_clear cr f s e c2 (mkWorld d2 j2 ev2)) as [[c2' w2'] r2] eqn:E2.
        cbn [fst snd orb] in *. intros _.
        destruct (clear_FInvG cr Hcrc Hhash32 Hnonblank Hhashbytes Hsig64 Hsigbytes f c1 d1 j1 ev1 bs cl hf1 l1 s e c1' w1' r1
                    F1 Hse L He E1) as (-> & T1 & Kp1).
        destruct (clear_FInvG cr Hcrc Hhash32 Hnonblank Hhashbytes Hsig64 Hsigbytes f c2 d2 j2 ev2 bs cl hf2 l2 s e c2' w2' r2
                    F2 Hse L He E2) as (-> & T2 & Kp2).
        destruct w1' as [d1' j1' ev1'], w2' as [d2' j2' ev2']. cbn [w_disk] in T1, T2.
        pose proof S' as (_ & O' & _).
        assert (P' : PInv c1' d1' c2' d2' bs (cl_clear cl s e)).
        { destruct T1 as [B1|X1], T2 as [B2|X2].
          - exists hf1, (l1 ++ [clear_entry s e]), hf2, (l2 ++ [clear_entry s e]).
            split; [exact B1|]. split; [exact B2|]. split; [exact Hh|].
            apply Forall2_snoc; [exact Hl|apply e_sim_refl].
          - exfalso. pose proof (FInvG_len cr _ _ _ _ _ _ B1) as Q1. pose proof (FInvG_len cr _ _ _ _ _ _ X2) as Q2.
            rewrite O' in Q1. rewrite Q2 in Q1. cbn [length] in Q1. symmetry in Q1. exact (len_snoc_ne _ _ Q1).
          - exfalso. pose proof (FInvG_len cr _ _ _ _ _ _ X1) as Q1. pose proof (FInvG_len cr _ _ _ _ _ _ B2) as Q2.
            rewrite O' in Q1. rewrite Q2 in Q1. cbn [length] in Q1. exact (len_snoc_ne _ _ Q1).
          - exists (c_header c1'), [], (c_header c2'), []. split; [exact X1|]. split; [exact X2|].
            split; [apply S'|constructor]. }
        apply (IH c1' d1' j1' ev1' c2' d2' j2' ev2' bs (cl_clear cl s e)); assumption.
    - (* get *)
      unfold mstep, so_go, so_core, so_world in *. cbn [fst snd] in *.
      rewrite (get_correct_c cr c1 d1 bs cl j1 ev1 i C1), (get_correct_c cr c2 d2 bs cl j2 ev2 i C2) in *.
      intros _.
      destruct (held (N.of_nat (length bs)) cl i); cbn [fst snd] in *;
        (apply (IH c1 d1 j1 _ c2 d2 j2 _ bs cl); try assumption; exists hf1, l1, hf2, l2; auto).
    - (* has *)
      unfold so_go, so_core, so_world in *. cbn [fst snd] in *. intros _.
      apply (IH c1 d1 j1 ev1 c2 d2 j2 ev2 bs cl); try assumption. exists hf1, l1, hf2, l2; auto.
    - (* info *)
      unfold so_go, so_core, so_world in *. cbn [fst snd] in *. intros _.
      apply (IH c1 d1 j1 ev1 c2 d2 j2 ev2 bs cl); try assumption. exists hf1, l1, hf2, l2; auto.
    - (* make_read_only *)
      unfold mstep, so_go, so_core, so_world in *. cbn [fst snd] in *.
      destruct (make_read_only_FInvG c1 d1 j1 ev1 bs cl hf1 l1 F1) as (c1' & w1' & E1 & G1).
      destruct (make_read_only_FInvG c2 d2 j2 ev2 bs cl hf2 l2 F2) as (c2' & w2' & E2 & G2).
      rewrite E1, E2 in *. cbn [fst snd] in *. intros _.
      destruct w1' as [d1' j1' ev1'], w2' as [d2' j2' ev2']. cbn [w_disk] in *.
      apply (IH c1' d1' j1' ev1' c2' d2' j2' ev2' bs cl); try assumption.
      exists (ro_header c1), [], (ro_header c2), []. split; [exact G1|]. split; [exact G2|]. split; [|constructor].
      pose proof S as (_ & _ & _ & _ & HS & _). pose proof HS as (_ & _ & _ & (HKp & _) & _).
      unfold ro_header. apply set_keypair_sim; [exact HS|]. split; [exact HKp|exact I].
    - (* reopen *)
      destruct (reopen_FInvG cr Hcrc Hhash32 Hnonblank Hhashbytes Hsig64 Hsigbytes c1 d1 bs cl hf1 l1 F1) as (c1' & E1 & F1' & Kp1).
      destruct (reopen_FInvG cr Hcrc Hhash32 Hnonblank Hhashbytes Hsig64 Hsigbytes c2 d2 bs cl hf2 l2 F2) as (c2' & E2 & F2' & Kp2).
      unfold so_go, so_core, so_world in *. cbn [w_disk w_journal w_events] in *.
      rewrite E1, E2 in *. cbn [fst snd rev app is_ok] in *. intros _.
      apply (IH c1' d1 j1 ev1 c2' d2 j2 ev2 bs cl); try assumption.
      exists hf1, l1, hf2, l2. auto.
  Qed.

  (* ---------- creation ---------- *)

  Lemma FInvG_init kp :
    keypair_ok kp = true ->
    exists d' ops c,
      core_open cr (Some kp) false disk_empty = (d', ops, Ok c) /\
      FInvG cr c d' [] (fun _ => false) (header_new kp) [] /\ c_keypair c = kp.
  Proof.
    intros Hkp. destruct (FInv_init cr Hcrc Hhash32 Hnonblank Hhashbytes kp Hkp) as (d' & ops & c & E & D & K).
    exists d', ops, c. split; [exact E|]. split; [|exact K].
    destruct (FInv_FInvG cr _ _ _ _ D) as (hf & l & G).
    pose proof (FInvG_open cr Hcrc _ _ _ _ _ _ G) as O1.
    assert (O2 : oplog_open cr None (f_content (d_oplog d')) = Ok (stable_result (false, false) (header_new kp) [])).
    { destruct (oplog_fresh_then_open cr Hcrc kp Hkp) as (buf & s0 & Hf & _ & _ & Hca & _ & _ & Hopen).
      unfold core_open in E. cbv iota in E.
      change (f_content (d_oplog disk_empty)) with (@nil N) in E.
      rewrite (oplog_open_empty cr kp _ _ _ Hf) in E. cbn [oo_ops oo_header oo_entries oo_oplog] in E.
      destruct (apply_sops disk_empty [SW Oplog 0 buf; ST Oplog (ENTRIES_OFFSET + 0)]) as [d1|] eqn:Ea;
        [|cbn in Ea; discriminate Ea].
      injection E as Ed Eo Ec. subst d'.
      assert (Hcontent : f_content (d_oplog d1) = s0 ++ zeros (N.to_nat HEADER_SIZE) ++ []).
      { apply (c_apply_all_sound [SW Oplog 0 buf; ST Oplog (ENTRIES_OFFSET + 0)] disk_empty d1);
          [repeat constructor|exact Ea|exact Hca]. }
      rewrite Hcontent. exact Hopen. }
    rewrite O1 in O2.
    pose proof (f_equal (fun r => match r with Ok o => (oo_header o, oo_entries o) | _ => (hf, l) end) O2) as Y.
    cbn [stable_result oo_header oo_entries] in Y. injection Y as -> ->. exact G.
  Qed.

  Lemma keypair_ok_sim k1 k2 s1 s2 :
    keypair_ok k1 = true -> keypair_ok k2 = true -> kp_secret k1 = Some s1 -> kp_secret k2 = Some s2 ->
    kp_sim k1 k2.
  Proof.
    unfold keypair_ok, kp_sim. intros H1 H2 E1 E2. rewrite E1 in H1. rewrite E2 in H2. rewrite E1, E2.
    apply andb_prop in H1 as [H1 A1]. apply andb_prop in H1 as [H1 _]. apply andb_prop in A1 as [A1 _].
    apply andb_prop in H2 as [H2 A2]. apply andb_prop in H2 as [H2 _]. apply andb_prop in A2 as [A2 _].
    apply Nat.eqb_eq in H1, H2, A1, A2. cbn [olen]. split; congruence.
  Qed.

  (* MAIN THEOREM, well-formed histories with reopen and make_read_only: nothing is assumed about the reopen
     points *)
  Theorem other_files_independent_of_secret_wf ops k1 k2 sk1 sk2 :
    keypair_ok k1 = true -> keypair_ok k2 = true -> kp_secret k1 = Some sk1 -> kp_secret k2 = Some sk2 ->
    wf_h ops 0 ->
    sumN (map len (happended ops)) <= u64_max ->
    NODE_SIZE * (2 * N.of_nat (length (happended ops))) <= u64_max ->
    exists c1 w1 c2 w2,
      start cr k1 = Some (c1, w1) /\ start cr k2 = Some (c2, w2) /\
      let r1 := hrun cr ops c1 w1 in
      let r2 := hrun cr ops c2 w2 in
      d_tree (w_disk (snd r1)) = d_tree (w_disk (snd r2)) /\
      d_bitfield (w_disk (snd r1)) = d_bitfield (w_disk (snd r2)) /\
      d_data (w_disk (snd r1)) = d_data (w_disk (snd r2)) /\
      f_len (d_oplog (w_disk (snd r1))) = f_len (d_oplog (w_disk (snd r2))) /\
      fst (fst r1) = fst (fst r2) /\
      w_events (snd r1) = w_events (snd r2) /\
      Forall2 sop_sim (w_journal (snd r1)) (w_journal (snd r2)) /\
      filter not_oplog (w_journal (snd r1)) = filter not_oplog (w_journal (snd r2)).
  Proof.
    intros Hk1 Hk2 Hs1 Hs2 Hwf Hfit Hidx.
    pose proof (keypair_ok_sim k1 k2 sk1 sk2 Hk1 Hk2 Hs1 Hs2) as K.
    destruct (FInvG_init k1 Hk1) as (d1 & o1 & c1 & E1 & G1 & Kc1).
    destruct (FInvG_init k2 Hk2) as (d2 & o2 & c2 & E2 & G2 & Kc2).
    assert (St1 : start cr k1 = Some (c1, mkWorld d1 (rev o1) [])) by (unfold start; rewrite E1; reflexivity).
    assert (St2 : start cr k2 = Some (c2, mkWorld d2 (rev o2) [])) by (unfold start; rewrite E2; reflexivity).
    exists c1, (mkWorld d1 (rev o1) []), c2, (mkWorld d2 (rev o2) []).
    split; [exact St1|]. split; [exact St2|].
    pose proof (start_sim cr k1 k2 K) as SS. rewrite St1, St2 in SS. destruct SS as [S W].
    pose proof (other_files_independent_of_secret cr Hsig ops k1 k2 K) as H. rewrite St1, St2 in H.
    apply H.
    apply (wf_reopen_ok ops c1 d1 (rev o1) [] c2 d2 (rev o2) [] [] (fun _ => false)); try assumption.
    - exists (header_new k1), [], (header_new k2), []. split; [exact G1|]. split; [exact G2|].
      split; [apply header_new_sim, K|constructor].
  Qed.
End W.

Print Assumptions wf_reopen_ok.
Print Assumptions other_files_independent_of_secret_wf.

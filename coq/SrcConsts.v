(* generated on every run by tools/srcconsts.py from /repo/src: the crate's named constants as the source
   states them now (None = no constant of that name in that file any more). ConstTie.v ties them to the model. *)
From Coq Require Import List NArith Bool.
Import ListNotations.
Local Open Scope N_scope.

Definition src_NODE_SIZE : option N := Some 40.   (* tree/merkle_tree.rs *)
Definition src_MAX_OPLOG_ENTRIES_BYTE_SIZE : option N := Some 65536.   (* oplog/mod.rs *)
Definition src_HEADER_SIZE : option N := Some 4096.   (* oplog/mod.rs *)
Definition src_CRC_SIZE : option N := Some 4.   (* oplog/mod.rs *)
Definition src_LEADER_SIZE : option N := Some 8.   (* oplog/mod.rs *)
Definition src_INITIAL_HEADER_BITS : option (list bool) := Some [true; false].   (* oplog/mod.rs *)
Definition src_DYNAMIC_BITFIELD_PAGE_SIZE : option N := Some 32768.   (* bitfield/dynamic.rs *)
Definition src_FIXED_BITFIELD_LENGTH : option N := Some 1024.   (* bitfield/fixed.rs *)
Definition src_FIXED_BITFIELD_BYTES_LENGTH : option N := Some 4096.   (* bitfield/fixed.rs *)
Definition src_FIXED_BITFIELD_BITS_LENGTH : option N := Some 32768.   (* bitfield/fixed.rs *)
Definition src_LEAF_TYPE : option (list N) := Some [0].   (* crypto/hash.rs *)
Definition src_PARENT_TYPE : option (list N) := Some [1].   (* crypto/hash.rs *)
Definition src_ROOT_TYPE : option (list N) := Some [2].   (* crypto/hash.rs *)
Definition src_TREE : option (list N) := Some [159; 172; 112; 181; 12; 161; 78; 252; 78; 145; 200; 51; 178; 4; 231; 91; 139; 90; 173; 139; 88; 129; 191; 192; 173; 181; 239; 56; 163; 39; 91; 156].   (* crypto/hash.rs *)
Definition src_DEFAULT_NAMESPACE : option (list N) := Some [65; 68; 238; 165; 49; 228; 131; 213; 78; 12; 20; 244; 202; 104; 224; 100; 79; 53; 83; 67; 255; 111; 203; 15; 0; 82; 0; 225; 44; 215; 71; 203].   (* crypto/manifest.rs *)

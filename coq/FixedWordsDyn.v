(* FixedWordsDyn.v — refinement of the word-level DynamicBitfield model (FixedWords.v) to the
   abstract HC.Bitfield, part c1: abstraction dw_abs, get, set_range (same bits, same dirty list;
   page allocation for `false` ranges is unobservable). Mirrors src/bitfield/dynamic.rs. *)
From HC Require Import Base NMap Storage Bitfield BitfieldFacts FixedWords FixedWordsFacts FixedWordsBytes.
From Coq Require Import FMapPositive.
From Coq Require Import List NArith ZArith Lia Bool PeanoNat.
From Coq Require Import ZifyN ZifyNat ZifyBool.
Ltac Zify.zify_post_hook ::= Z.div_mod_to_equations.
#[local] Arguments N.add : simpl never.
#[local] Arguments N.sub : simpl never.
#[local] Arguments N.mul : simpl never.
#[local] Arguments N.div : simpl never.
#[local] Arguments N.modulo : simpl never.
#[local] Arguments N.pow : simpl never.
#[local] Arguments N.eqb : simpl never.
#[local] Arguments N.ltb : simpl never.
#[local] Arguments N.leb : simpl never.
#[local] Arguments N.min : simpl never.
#[local] Arguments N.shiftl : simpl never.
#[local] Arguments N.land : simpl never.
#[local] Arguments N.lor : simpl never.
#[local] Arguments N.testbit : simpl never.
#[local] Arguments N.to_nat : simpl never.
#[local] Arguments N.of_nat : simpl never.

(* ------------------------------------------------------------------ *)
(** * 1. the abstraction *)

Lemma succ_pos_pred_N' (p : positive) : N.succ_pos (Pos.pred_N p) = p.
Proof. destruct p; cbn; try reflexivity. apply Pos.succ_pred_double. Qed.

Lemma nm_elements_in' {A} (m : nmap A) k v : In (k, v) (nm_elements m) <-> nm_get k m = Some v.
Proof.
  unfold nm_elements, nm_get. split.
  - intros H. apply in_map_iff in H as ([p v'] & E & H). cbn [fst snd] in E. injection E as <- <-.
    apply PositiveMap.elements_complete in H. rewrite succ_pos_pred_N'. exact H.
  - intros H. apply PositiveMap.elements_correct in H. apply in_map_iff.
    exists (N.succ_pos k, v). cbn [fst snd]. rewrite N.pos_pred_succ. split; [reflexivity|exact H].
Qed.

(* the set of held indices: every page's image loaded at its place *)
Definition dw_load (kv : N * page) (m : nmap unit) : nmap unit :=
  load_bits m (fst kv * 4096) (fw_to_bytes (snd kv)).

Definition dw_bits (d : dyn) : nmap unit := fold_right dw_load nm_empty (nm_elements (dw_pages d)).

Definition dw_abs (d : dyn) : bitfield := mkBf (dw_bits d) (dw_unflushed d).

(* invariant of DynamicBitfield: pages are well-formed; a page is dirty iff it is listed in
   `unflushed`; no page lies beyond biggest_page_index *)
Record dyn_inv (d : dyn) : Prop := mkDynInv {
  di_wf : forall i p, nm_get i (dw_pages d) = Some p -> page_wf p;
  di_dirty : forall i, In i (dw_unflushed d) <->
                       exists p, nm_get i (dw_pages d) = Some p /\ pg_dirty p = true;
  di_big : forall i p, nm_get i (dw_pages d) = Some p -> i <= dw_biggest d
}.

Lemma dyn_inv_empty : dyn_inv dw_empty.
Proof.
  split; cbn [dw_empty dw_pages dw_unflushed dw_biggest].
  - intros i p H. rewrite nm_get_empty in H. discriminate.
  - intros i. split; [intros [] | intros (p & H & _); rewrite nm_get_empty in H; discriminate].
  - intros i p H. rewrite nm_get_empty in H. discriminate.
Qed.

Definition page_hit (i : N) (kv : N * page) : bool :=
  (fst kv * 32768 <=? i) && (i <? fst kv * 32768 + 8 * len (fw_to_bytes (snd kv))) &&
  N.testbit (nth (N.to_nat (i / 8 - fst kv * 4096)) (fw_to_bytes (snd kv)) 0) (i mod 8).

Lemma fold_load_mem l i :
  nm_mem i (fold_right dw_load nm_empty l) = existsb (page_hit i) l.
Proof.
  induction l as [|kv l IH]; cbn [fold_right existsb]; [apply nm_mem_empty|].
  unfold dw_load at 1. rewrite load_bits_spec_gen, IH, orb_comm. f_equal.
  unfold page_hit. f_equal. f_equal; lia.
Qed.

Theorem dw_bits_spec d i :
  (forall k p, nm_get k (dw_pages d) = Some p -> page_wf p) ->
  nm_mem i (dw_bits d) =
  match nm_get (i / 32768) (dw_pages d) with
  | Some p => fw_bits p (i mod 32768)
  | None => false
  end.
Proof.
  intros Hwf. unfold dw_bits. rewrite fold_load_mem.
  assert (Hhit : forall k p, page_wf p ->
            page_hit i (k, p) = (i / 32768 =? k) && fw_bits p (i mod 32768)).
  { intros k p Hp. unfold page_hit. cbn [fst snd]. rewrite fw_to_bytes_bit.
    unfold len. rewrite fw_to_bytes_length by exact Hp.
    destruct (N.eqb_spec (i / 32768) k) as [E|E].
    - assert ((k * 32768 <=? i) && (i <? k * 32768 + 8 * N.of_nat (N.to_nat 4096)) = true) as -> by lia.
      assert (i mod 8 <? 8 = true) as -> by lia. cbn [andb]. f_equal. lia.
    - assert ((k * 32768 <=? i) && (i <? k * 32768 + 8 * N.of_nat (N.to_nat 4096)) = false) as -> by lia.
      reflexivity. }
  apply eq_true_iff_eq. rewrite existsb_exists. split.
  - intros ([k p] & Hin & Hh). apply nm_elements_in' in Hin.
    rewrite Hhit in Hh by (eapply Hwf; exact Hin).
    apply andb_true_iff in Hh. destruct Hh as [E Hb]. apply N.eqb_eq in E. subst k.
    rewrite Hin. exact Hb.
  - destruct (nm_get (i / 32768) (dw_pages d)) as [p|] eqn:Eg; [|discriminate].
    intros Hb. exists (i / 32768, p). split; [apply nm_elements_in'; exact Eg|].
    rewrite Hhit by (eapply Hwf; exact Eg). rewrite N.eqb_refl. exact Hb.
Qed.

(** get *)
Theorem dw_get_abs d i : dyn_inv d -> dw_get d i = Ok (bf_get (dw_abs d) i).
Proof.
  intros Hinv. unfold dw_get, FW_BITS. rewrite land32767, page_idx.
  unfold bf_get, dw_abs. cbn [bf_bits]. rewrite dw_bits_spec by apply (di_wf _ Hinv).
  destruct (nm_get (i / 32768) (dw_pages d)) as [p|]; [|reflexivity].
  apply fw_get_bits. lia.
Qed.

(* ------------------------------------------------------------------ *)
(** * 2. set_range *)

Lemma bf_set_pages_len0 f b s v : bf_set_pages f b s 0 v = b.
Proof. destruct f; reflexivity. Qed.

Lemma mem_N_false x l : mem_N x l = false <-> ~ In x l.
Proof.
  split.
  - intros H Hin. apply mem_N_In in Hin. congruence.
  - intros H. destruct (mem_N x l) eqn:E; [|reflexivity]. apply mem_N_In in E. contradiction.
Qed.

Lemma dw_range_loop_refines fuel : forall d b i j length v,
  dyn_inv d ->
  (forall k, bf_get b k = bf_get (dw_abs d) k) -> bf_dirty b = dw_unflushed d ->
  j < 32768 -> j + length <= u64_max ->
  length <= N.of_nat fuel * 32768 - j ->
  exists d',
    dw_range_loop (S fuel) d i j length v = Ok d' /\ dyn_inv d' /\
    (forall k, bf_get (bf_set_pages fuel b (i * 32768 + j) length v) k = bf_get (dw_abs d') k) /\
    bf_dirty (bf_set_pages fuel b (i * 32768 + j) length v) = dw_unflushed d' /\
    dw_biggest d <= dw_biggest d'.
Proof.
  induction fuel as [|f IH]; intros d b i j length v Hinv Hbits Hdirty Hj Hov Hfuel.
  - assert (length = 0) as -> by lia. cbn [dw_range_loop bf_set_pages]. rewrite N.eqb_refl.
    exists d. repeat split; auto; try apply Hinv. lia.
  - remember (S f) as f1 eqn:Ef1. cbn [dw_range_loop]. subst f1. cbn [bf_set_pages].
    destruct (N.eqb_spec length 0) as [->|Hl0].
    { exists d. repeat split; auto; try apply Hinv. lia. }
    cbv zeta. unfold add64, fits_u64. assert (j + length <=? u64_max = true) as -> by lia. cbn [bind].
    unfold FW_BITS, PAGE_BITS.
    set (start := i * 32768 + j).
    replace (start / 32768) with i by (unfold start; lia).
    replace (start mod 32768) with j by (unfold start; lia).
    replace (N.min (j + length) 32768 - j) with (N.min length (32768 - j)) by lia.
    set (n := N.min length (32768 - j)).
    set (p := match nm_get i (dw_pages d) with Some p => p | None => fw_new end).
    set (big := match nm_get i (dw_pages d) with
                | Some _ => dw_biggest d
                | None => if dw_biggest d <? i then i else dw_biggest d end).
    assert (Hpwf : page_wf p).
    { unfold p. destruct (nm_get i (dw_pages d)) as [p0|] eqn:Eg; [eapply (di_wf _ Hinv); exact Eg | apply page_wf_new]. }
    assert (Hpm : forall k, k < 32768 -> nm_mem (i * 32768 + k) (bf_bits b) = fw_bits p k).
    { intros k Hk. fold (bf_get b (i * 32768 + k)). rewrite Hbits. unfold bf_get, dw_abs. cbn [bf_bits].
      rewrite dw_bits_spec by apply (di_wf _ Hinv).
      replace ((i * 32768 + k) / 32768) with i by lia. replace ((i * 32768 + k) mod 32768) with k by lia.
      unfold p. destruct (nm_get i (dw_pages d)); [reflexivity | symmetry; apply fw_bits_new]. }
    assert (Hpd : pg_dirty p = mem_N i (dw_unflushed d)).
    { destruct (mem_N i (dw_unflushed d)) eqn:Em.
      - apply mem_N_In in Em. apply (di_dirty _ Hinv) in Em. destruct Em as (p0 & Eg & Ed).
        unfold p. rewrite Eg. exact Ed.
      - apply mem_N_false in Em. unfold p. destruct (nm_get i (dw_pages d)) as [p0|] eqn:Eg; [|reflexivity].
        destruct (pg_dirty p0) eqn:Ed; [|reflexivity]. exfalso. apply Em. apply (di_dirty _ Hinv).
        exists p0. split; assumption. }
    destruct (fw_set_range_bits_differ p j n v (bf_bits b) (i * 32768) Hpwf) as (p' & Hsr & Hwf' & Hd' & _ & Hb');
      [unfold n; lia | exact Hpm |].
    fold start in Hsr. rewrite Hsr. cbn [bind].
    set (changed := bits_differ (bf_bits b) start (N.to_nat n) v) in *.
    rewrite Hd', Hpd, Hdirty.
    set (cond := changed && negb (mem_N i (dw_unflushed d))).
    set (d1 := if cond
               then mkDyn (nm_set i (mkPage true (pg_words p')) (dw_pages d)) big (dw_unflushed d ++ [i])
               else mkDyn (nm_set i p' (dw_pages d)) big (dw_unflushed d)).
    set (b1 := mkBf (bits_set (bf_bits b) start (N.to_nat n) v)
                    (if cond then dw_unflushed d ++ [i] else dw_unflushed d)).
    set (p'' := if cond then mkPage true (pg_words p') else p').
    assert (Hd1 : d1 = mkDyn (nm_set i p'' (dw_pages d)) big (if cond then dw_unflushed d ++ [i] else dw_unflushed d)).
    { unfold d1, p''. destruct cond; reflexivity. }
    assert (Hbig : dw_biggest d <= big /\ i <= big).
    { unfold big. destruct (nm_get i (dw_pages d)) as [p0|] eqn:Eg.
      - split; [lia|]. eapply (di_big _ Hinv). exact Eg.
      - destruct (N.ltb_spec (dw_biggest d) i); lia. }
    assert (Hp''wf : page_wf p'') by (unfold p''; destruct cond; [exact Hwf' | exact Hwf']).
    assert (Hp''b : forall k, fw_bits p'' k = fw_bits p' k) by (intros k; unfold p''; destruct cond; reflexivity).
    assert (Hp''d : pg_dirty p'' = cond || mem_N i (dw_unflushed d)).
    { unfold p''. destruct cond eqn:Ec; cbn [pg_dirty orb]; [reflexivity|]. rewrite Hd'. exact Hpd. }
    assert (Hinv1 : dyn_inv d1).
    { rewrite Hd1. split; cbn [dw_pages dw_unflushed dw_biggest].
      - intros k q Hg. rewrite nm_get_set in Hg. destruct (N.eqb_spec k i) as [->|Hne].
        + injection Hg as <-. exact Hp''wf.
        + eapply (di_wf _ Hinv). exact Hg.
      - intros k. rewrite nm_get_set. destruct (N.eqb_spec k i) as [->|Hne].
        + split.
          * intros Hin. exists p''. split; [reflexivity|]. rewrite Hp''d.
            destruct cond; [reflexivity|]. cbn [orb]. apply mem_N_In. exact Hin.
          * intros (q & Hq & Hqd). injection Hq as <-. rewrite Hp''d in Hqd.
            destruct cond; [apply in_or_app; right; left; reflexivity|]. cbn [orb] in Hqd.
            apply mem_N_In. exact Hqd.
        + rewrite <- (di_dirty _ Hinv k). destruct cond; [|reflexivity].
          rewrite in_app_iff. cbn [In]. split; [intros [H|[H|[]]]; [exact H | congruence] | auto].
      - intros k q Hg. rewrite nm_get_set in Hg. destruct (N.eqb_spec k i) as [->|Hne]; [lia|].
        pose proof (di_big _ Hinv k q Hg). lia. }
    assert (Hbits1 : forall k, bf_get b1 k = bf_get (dw_abs d1) k).
    { intros k. unfold bf_get at 1. unfold b1. cbn [bf_bits]. rewrite nm_mem_bits_set, N2Nat.id.
      unfold bf_get, dw_abs. cbn [bf_bits]. rewrite dw_bits_spec by apply (di_wf _ Hinv1).
      rewrite Hd1. cbn [dw_pages]. rewrite nm_get_set.
      destruct (N.eqb_spec (k / 32768) i) as [E|E].
      - rewrite Hp''b, Hb'. unfold in_range.
        assert ((start <=? k) && (k <? start + n) = (j <=? k mod 32768) && (k mod 32768 <? j + n)) as ->
          by (unfold start; lia).
        destruct ((j <=? k mod 32768) && (k mod 32768 <? j + n)); [reflexivity|].
        rewrite <- Hpm by lia. f_equal. lia.
      - assert ((start <=? k) && (k <? start + n) = false) as -> by (unfold start, n; lia).
        fold (bf_get b k). rewrite Hbits. unfold bf_get, dw_abs. cbn [bf_bits].
        rewrite dw_bits_spec by apply (di_wf _ Hinv). reflexivity. }
    assert (Hdirty1 : bf_dirty b1 = dw_unflushed d1) by (rewrite Hd1; reflexivity).
    destruct (N.le_gt_cases length (32768 - j)) as [Hc|Hc].
    + replace (length - n) with 0 by (unfold n; lia).
      rewrite bf_set_pages_len0.
      exists d1. split.
      { destruct f; cbn [dw_range_loop]; rewrite N.eqb_refl; reflexivity. }
      split; [exact Hinv1|]. split; [exact Hbits1|]. split; [exact Hdirty1|].
      rewrite Hd1. cbn [dw_biggest]. lia.
    + assert (Hn : n = 32768 - j) by (unfold n; lia).
      destruct (IH d1 b1 (i + 1) 0 (length - n) v Hinv1 Hbits1 Hdirty1) as (d' & R0 & R1 & R2 & R3 & R4);
        [lia | lia | lia |].
      replace ((i + 1) * 32768 + 0) with (start + n) in * by (unfold start; lia).
      exists d'. split; [exact R0|]. split; [exact R1|]. split; [exact R2|]. split; [exact R3|].
      rewrite Hd1 in R4. cbn [dw_biggest] in R4. lia.
Qed.

(** set_range refines the abstract model: it returns (no panic, enough fuel) whenever `j + length`
    does not overflow u64; the abstract state afterwards has exactly the bits and exactly the
    dirty list of Bitfield.bf_set_range. Pages allocated for value = false do not show. *)
Theorem dw_set_range_refines d start length v :
  dyn_inv d -> start mod 32768 + length <= u64_max ->
  exists d',
    dw_set_range d start length v = Ok d' /\ dyn_inv d' /\
    (forall k, bf_get (dw_abs d') k = bf_get (bf_set_range (dw_abs d) start length v) k) /\
    bf_dirty (dw_abs d') = bf_dirty (bf_set_range (dw_abs d) start length v).
Proof.
  intros Hinv Hov. unfold dw_set_range, bf_set_range, FW_BITS, PAGE_BITS. rewrite land32767, page_idx.
  destruct (dw_range_loop_refines (S (S (N.to_nat (length / 32768)))) d (dw_abs d)
              (start / 32768) (start mod 32768) length v Hinv) as (d' & R0 & R1 & R2 & R3 & _);
    [reflexivity | reflexivity | lia | exact Hov | lia |].
  replace (start / 32768 * 32768 + start mod 32768) with start in * by lia.
  exists d'. split; [exact R0|]. split; [exact R1|]. split.
  - intros k. symmetry. apply R2.
  - symmetry. exact R3.
Qed.

(** the only panic of set_range: `j + length` overflowing u64 on a non-empty range *)
Theorem dw_set_range_panics d start length v :
  0 < length -> u64_max < start mod 32768 + length ->
  exists s, dw_set_range d start length v = Panic s.
Proof.
  intros Hl Hov. unfold dw_set_range. cbn [dw_range_loop].
  assert (length =? 0 = false) as -> by lia. rewrite land32767.
  unfold add64, fits_u64. assert (start mod 32768 + length <=? u64_max = false) as -> by lia.
  cbn [bind]. eexists. reflexivity.
Qed.

Print Assumptions dw_bits_spec.
Print Assumptions dw_get_abs.
Print Assumptions dw_set_range_refines.
Print Assumptions dw_set_range_panics.

(* HashTie.v — tie between the HASH LAYOUTS of /repo/src/crypto/hash.rs as the source states them (SrcHash.v, regenerated from the
   source on every run by tools/srchash.py over the vocabulary of HashDesc.v) and the preimages of Crypto.v (property C05).

   A description is given a meaning by an interpreter ([hinterp]: the concatenation, in order, of the byte strings the items denote
   in an environment built from the arguments); each theorem says that, if the crate still has the function in the recognisable
   form, the model's preimage IS the interpretation of the source's description, for all arguments:
   - Hash::data     : [leaf_preimage data]        (type byte, 8-byte little-endian length, the WHOLE data)
   - Hash::parent   : [parent_preimage a b]       (the source's ordering of the two nodes, type byte, LE sum of the sizes, hashes)
   - Hash::tree     : [tree_preimage roots]       (type byte, then per root — the source's loop body — hash, LE index, LE size)
   - signable_tree  : [signable hash length fork] (TREE namespace, 32-byte hash, LE length, LE fork)
   [None] (function renamed, hasher handed to a helper, no `to_encoded_bytes!` ...) makes a clause trivially true; a recognisable
   but different sequence (updates swapped, big-endian size, size of one node only, index and size swapped, fork before length, an
   argument that is not the whole data: [HOther]) breaks the proof. The type bytes and the namespace inside the descriptions are the
   values the SOURCE gives its constants (HConst carries them). *)
From HC Require Import Base Codec Crypto HashDesc SrcHash.
#[local] Arguments N.add : simpl never.
#[local] Arguments N.mul : simpl never.
#[local] Arguments N.div : simpl never.
#[local] Arguments N.modulo : simpl never.
#[local] Arguments N.leb : simpl never.
#[local] Arguments N.eqb : simpl never.
#[local] Arguments le_bytes : simpl never.
Local Open Scope string_scope.
Local Open Scope list_scope.
Local Open Scope N_scope.

(* ---------- the interpreter ---------- *)

(* [nenv]: the value of the numeric variables of the expressions; [benv]: the bytes denoted by a name — a `&[u8]` parameter, or
   for a node its hash *)
Definition hitem_bytes (nenv : string -> N) (benv : string -> bytes) (it : hitem) : option bytes :=
  match it with
  | HConst _ v => Some v
  | HLe64 e => Some (le_bytes 8 (reval nenv e))
  | HBe64 e => Some (rev (le_bytes 8 (reval nenv e)))
  | HRaw x => Some (benv x)
  | HHash x => Some (benv x)
  | HHash32 x => Some (benv x)
  | HOther _ => None
  end.

Fixpoint hinterp (nenv : string -> N) (benv : string -> bytes) (items : list hitem) : option bytes :=
  match items with
  | [] => Some []
  | it :: r =>
      match hitem_bytes nenv benv it, hinterp nenv benv r with
      | Some a, Some b => Some (a ++ b)
      | _, _ => None
      end
  end.

Fixpoint benv_of (l : list (string * bytes)) (x : string) : bytes :=
  match l with
  | [] => []
  | (y, v) :: r => if String.eqb y x then v else benv_of r x
  end.

(* the variables a node named s gives a value to: its fields, its getters, its hash *)
Definition node_nvars (s : string) (n : node) : list (string * N) :=
  [(String.append s ".index", n_index n); (String.append s ".length", n_length n); (String.append s ".index()", n_index n); (String.append s ".len()", n_length n)].

(* Hash::parent(left, right) *)
Definition parent_interp (d : parent_desc) (a b : node) : option bytes :=
  let node_of (s : string) := if String.eqb s "left" then Some a else if String.eqb s "right" then Some b else None in
  let cond := truthy (reval (env_of (node_nvars "left" a ++ node_nvars "right" b)) (pd_cond d)) in
  let '(s1, s2) := if cond then pd_then d else pd_else d in
  match node_of s1, node_of s2 with
  | Some n1, Some n2 =>
      let '(x1, x2) := pd_names d in
      hinterp (env_of (node_nvars x1 n1 ++ node_nvars x2 n2)) (benv_of [(x1, n_hash n1); (x2, n_hash n2)]) (pd_items d)
  | _, _ => None
  end.

Fixpoint opt_concat (l : list (option bytes)) : option bytes :=
  match l with
  | [] => Some []
  | x :: r => match x, opt_concat r with Some a, Some b => Some (a ++ b) | _, _ => None end
  end.

(* Hash::tree(roots) *)
Definition tree_interp (d : tree_desc) (roots : list node) : option bytes :=
  let one (n : node) := hinterp (env_of (node_nvars (td_var d) n)) (benv_of [(td_var d, n_hash n)]) (td_body d) in
  match hinterp (env_of []) (benv_of []) (td_before d), opt_concat (map one roots), hinterp (env_of []) (benv_of []) (td_after d) with
  | Some x, Some y, Some z => Some (x ++ y ++ z)
  | _, _, _ => None
  end.

(* ---------- the four obligations ---------- *)

Definition hash_data_tie (items : list hitem) : Prop :=
  forall data, hinterp (env_of [("data.len()", len data)]) (benv_of [("data", data)]) items = Some (leaf_preimage data).

(* the sum of the two sizes is computed in u64 by the source *)
Definition hash_parent_tie (d : parent_desc) : Prop :=
  forall a b, n_length a + n_length b < 18446744073709551616 -> parent_interp d a b = Some (parent_preimage a b).

Definition hash_tree_tie (d : tree_desc) : Prop :=
  forall roots, tree_interp d roots = Some (tree_preimage roots).

(* `as_array::<32>(hash)?` accepts exactly 32 bytes *)
Definition signable_tree_tie (items : list hitem) : Prop :=
  forall hash length fork, List.length hash = 32%nat ->
    hinterp (env_of [("length", length); ("fork", fork)]) (benv_of [("hash", hash)]) items = Some (signable hash length fork).

(* ---------- proofs ---------- *)

Ltac hev := cbn [hinterp hitem_bytes reval rbin env_of benv_of node_nvars app String.eqb Ascii.eqb Bool.eqb String.append
                 fst snd pd_cond pd_names pd_then pd_else pd_items td_before td_var td_body td_after map].

(* closes `Some x = Some y` when the two sides are the same after evaluation, with the byte-level functions opaque: fails at once otherwise (a conversion
   attempt on two different symbolic byte strings would unfold le_bytes for minutes before failing) *)
Ltac same := rewrite ?app_nil_r;
  first [ with_strategy opaque [le_bytes rev N.add N.mul len app] reflexivity | fail 1 "the source's layout is not the model's" ].

Ltac open_htie := unfold tied_fn; cbv delta [src_hash_data src_hash_parent src_hash_tree src_signable_tree]; cbv beta iota.

Lemma tie_hash_data : tied_fn src_hash_data hash_data_tie.
Proof.
  open_htie. first [exact I | intros data; unfold leaf_preimage; hev; same].
Qed.

Lemma truthy_b2n' b : truthy (N.b2n b) = b.
Proof. now destruct b. Qed.

Lemma tie_hash_parent : tied_fn src_hash_parent hash_parent_tie.
Proof.
  open_htie. first [exact I | intros a b _; unfold parent_interp, parent_preimage; hev; rewrite ?truthy_b2n'].
  all: destruct (n_index a <=? n_index b); hev; same.
Qed.

Lemma opt_concat_map (f : node -> option bytes) (g : node -> bytes) (l : list node) :
  (forall n, f n = Some (g n)) -> opt_concat (map f l) = Some (concat (map g l)).
Proof.
  intros H. induction l as [|n l IH]; [reflexivity|]. cbn [map opt_concat concat]. now rewrite H, IH.
Qed.

Lemma tie_hash_tree : tied_fn src_hash_tree hash_tree_tie.
Proof.
  open_htie. first [exact I | intros roots; unfold tree_interp, tree_preimage; hev].
  all: rewrite (opt_concat_map _ root_item) by (intros n; unfold root_item; hev; same).
  all: hev; same.
Qed.

Lemma tie_signable_tree : tied_fn src_signable_tree signable_tree_tie.
Proof.
  open_htie. first [exact I | intros hash length fork _; unfold signable, TREE_NS; hev; same].
Qed.

(* ---------- Examples: the descriptions of today's source (written out, independent of SrcHash.v) meet the obligations and compute
   the reference layouts on concrete arguments; wrong layouts are REFUTED ---------- *)

Definition ex_data := [HConst "LEAF_TYPE" [0]; HLe64 (RVar "data.len()"); HRaw "data"].
Definition ex_parent := {| pd_cond := RBin OLe (RVar "left.index") (RVar "right.index"); pd_names := ("node1", "node2");
  pd_then := ("left", "right"); pd_else := ("right", "left");
  pd_items := [HConst "PARENT_TYPE" [1]; HLe64 (RBin OAdd (RVar "node1.length") (RVar "node2.length")); HHash "node1"; HHash "node2"] |}.
Definition ex_tree := {| td_before := [HConst "ROOT_TYPE" [2]]; td_var := "node";
  td_body := [HHash "node"; HLe64 (RVar "node.index()"); HLe64 (RVar "node.len()")]; td_after := [] |}.
Definition ex_n0 := mkNode 0 3 [170; 171].
Definition ex_n2 := mkNode 2 258 [187].

(* 0x00, le64 3, the three bytes *)
Example hash_data_example :
  hash_data_tie ex_data /\ hinterp (env_of [("data.len()", 3)]) (benv_of [("data", [7; 8; 9])]) ex_data = Some [0; 3;0;0;0;0;0;0;0; 7; 8; 9].
Proof. split; [intros data; unfold leaf_preimage, ex_data; hev; rewrite ?app_nil_r; reflexivity | vm_compute; reflexivity]. Qed.

(* both argument orders give 0x01, le64 261, hash of the node with the smaller index first *)
Example hash_parent_example :
  parent_interp ex_parent ex_n2 ex_n0 = Some [1; 5;1;0;0;0;0;0;0; 170; 171; 187] /\
  parent_interp ex_parent ex_n0 ex_n2 = Some [1; 5;1;0;0;0;0;0;0; 170; 171; 187] /\
  parent_preimage ex_n2 ex_n0 = [1; 5;1;0;0;0;0;0;0; 170; 171; 187].
Proof. repeat split; vm_compute; reflexivity. Qed.

Example hash_tree_example :
  tree_interp ex_tree [ex_n0; ex_n2] = Some ([2] ++ [170; 171] ++ [0;0;0;0;0;0;0;0] ++ [3;0;0;0;0;0;0;0]
                                                 ++ [187] ++ [2;0;0;0;0;0;0;0] ++ [2;1;0;0;0;0;0;0]) /\
  tree_preimage [ex_n0; ex_n2] = [2] ++ [170; 171] ++ [0;0;0;0;0;0;0;0] ++ [3;0;0;0;0;0;0;0]
                                     ++ [187] ++ [2;0;0;0;0;0;0;0] ++ [2;1;0;0;0;0;0;0].
Proof. split; vm_compute; reflexivity. Qed.

(* a seeded defect: only the first 4096 bytes of the data are hashed — the argument is not the whole `data`, the translator emits
   HOther, and no description with an HOther item can be tied *)
Example hash_data_prefix_only_refuted :
  ~ hash_data_tie [HConst "LEAF_TYPE" [0]; HLe64 (RVar "data.len()"); HOther "data [ .. data . len ( ) . min ( 4096 ) ]"].
Proof. intros H. specialize (H []). vm_compute in H. discriminate. Qed.

(* the legacy big-endian size *)
Example hash_data_big_endian_refuted : ~ hash_data_tie [HConst "LEAF_TYPE" [0]; HBe64 (RVar "data.len()"); HRaw "data"].
Proof. intros H. specialize (H [5]). vm_compute in H. discriminate. Qed.

(* the updates of the two hashes swapped *)
Example hash_parent_swapped_refuted :
  ~ hash_parent_tie {| pd_cond := pd_cond ex_parent; pd_names := pd_names ex_parent; pd_then := pd_then ex_parent; pd_else := pd_else ex_parent;
      pd_items := [HConst "PARENT_TYPE" [1]; HLe64 (RBin OAdd (RVar "node1.length") (RVar "node2.length")); HHash "node2"; HHash "node1"] |}.
Proof. intros H. specialize (H ex_n0 ex_n2 eq_refl). vm_compute in H. discriminate. Qed.

(* the size of the first node only *)
Example hash_parent_one_size_refuted :
  ~ hash_parent_tie {| pd_cond := pd_cond ex_parent; pd_names := pd_names ex_parent; pd_then := pd_then ex_parent; pd_else := pd_else ex_parent;
      pd_items := [HConst "PARENT_TYPE" [1]; HLe64 (RVar "node1.length"); HHash "node1"; HHash "node2"] |}.
Proof. intros H. specialize (H ex_n0 ex_n2 eq_refl). vm_compute in H. discriminate. Qed.

(* no ordering by index (the condition always true) *)
Example hash_parent_unordered_refuted :
  ~ hash_parent_tie {| pd_cond := RLit 1; pd_names := pd_names ex_parent; pd_then := pd_then ex_parent; pd_else := pd_else ex_parent;
      pd_items := pd_items ex_parent |}.
Proof. intros H. specialize (H ex_n2 ex_n0 eq_refl). vm_compute in H. discriminate. Qed.

(* index and size swapped in the root item *)
Example hash_tree_swapped_refuted :
  ~ hash_tree_tie {| td_before := [HConst "ROOT_TYPE" [2]]; td_var := "node";
                     td_body := [HHash "node"; HLe64 (RVar "node.len()"); HLe64 (RVar "node.index()")]; td_after := [] |}.
Proof. intros H. specialize (H [ex_n0]). vm_compute in H. discriminate. Qed.

(* fork before length in the signed bytes *)
Example signable_fork_first_refuted :
  ~ signable_tree_tie [HConst "TREE" TREE_NS; HHash32 "hash"; HLe64 (RVar "fork"); HLe64 (RVar "length")].
Proof. intros H. specialize (H (repeat 9 32) 1 0 eq_refl). vm_compute in H. discriminate. Qed.

Example signable_example :
  signable_tree_tie [HConst "TREE" TREE_NS; HHash32 "hash"; HLe64 (RVar "length"); HLe64 (RVar "fork")] /\
  signable (repeat 9 32) 258 1 = TREE_NS ++ repeat 9 32 ++ [2;1;0;0;0;0;0;0] ++ [1;0;0;0;0;0;0;0].
Proof.
  split; [intros hash length fork _; unfold signable, TREE_NS; hev; rewrite ?app_nil_r; reflexivity | vm_compute; reflexivity].
Qed.

(* ---------- all of them ---------- *)

(* what the vocabulary of HashDesc.v means, spelled out (pinned in props/C05.v) *)
Theorem hash_desc_meaning :
  (forall ne be, hinterp ne be [] = Some []) /\
  (forall ne be it r, hinterp ne be (it :: r) =
     match hitem_bytes ne be it, hinterp ne be r with Some a, Some b => Some (a ++ b) | _, _ => None end) /\
  (forall ne be nm v, hitem_bytes ne be (HConst nm v) = Some v) /\
  (forall ne be e, hitem_bytes ne be (HLe64 e) = Some (le_bytes 8 (reval ne e))) /\
  (forall ne be e, hitem_bytes ne be (HBe64 e) = Some (rev (le_bytes 8 (reval ne e)))) /\
  (forall ne be x, hitem_bytes ne be (HRaw x) = Some (be x)) /\
  (forall ne be x, hitem_bytes ne be (HHash x) = Some (be x)) /\
  (forall ne be x, hitem_bytes ne be (HHash32 x) = Some (be x)) /\
  (forall ne be s, hitem_bytes ne be (HOther s) = None) /\
  (forall x, benv_of [] x = []) /\
  (forall y v r x, benv_of ((y, v) :: r) x = if String.eqb y x then v else benv_of r x) /\
  (opt_concat [] = Some []) /\
  (forall x r, opt_concat (x :: r) = match x, opt_concat r with Some a, Some b => Some (a ++ b) | _, _ => None end).
Proof. repeat split. Qed.

Theorem source_hash_layouts_are_the_models :
  tied_fn src_hash_data hash_data_tie /\ tied_fn src_hash_parent hash_parent_tie /\
  tied_fn src_hash_tree hash_tree_tie /\ tied_fn src_signable_tree signable_tree_tie.
Proof.
  split; [exact tie_hash_data|]. split; [exact tie_hash_parent|]. split; [exact tie_hash_tree | exact tie_signable_tree].
Qed.
Print Assumptions hash_desc_meaning.
Print Assumptions source_hash_layouts_are_the_models.

(* TornClear.v — C07 over all four stores for writers WITH clears: every write of the journal of a clear (the
   oplog entry write and the writes of its optional flush group) and of an append, torn at every byte, from
   states with a cleared set, recovers to the state before or after the call (header slot write: or a CRC
   collision, with TornCoreB's side condition tear_safe).

   ZDisk / ZInv merge the tolerance of TornCoreA (a partial last bitfield page: bf_open reads whole 4-byte
   words only, [rbit]; TreeOk) with that of CrashClear1 (cleared set, the bitfield store is any bit-wise
   mixture of the fields between the last header and now).  Both CrashClear1.YInv (with TreeOk) and
   TornCoreA.YInv are instances.

   What is new compared with both: with clears a bit of the store that bf_open does not read (it lies in the
   1..3 bytes after the last whole word, left by a torn page write) can be set while memory has it unset; it
   becomes readable when a later page write extends the file.  BfZ records where such a bit comes from (a
   memory image: replaying the pending updates from "unset" passes through "set"), which makes its page dirty
   after every reopen (BfSyncZ), so the next flush rewrites the page in full before the file can grow. *)
From HC Require Import Base NMap Codec CodecFacts Crypto FlatTree Storage Bitfield Oplog Merkle Core.
From HC Require Import FlatTreeFacts StorageFacts BitfieldFacts OplogFacts TreeRef OffsetFacts CoreFacts Crash Refine.
From HC Require Import ClearRefine Reopen ContigBridge Unified1 Unified2 CrashCore1 CrashCore2.
From HC Require Import TornCoreA TornCoreB.
From HC Require TornCore.
From HC Require Import CrashClear1 CrashClear2.
(* NOTE: YInv, YDisk, BfY, reopen_Y, ... exist in TornCoreA/B and in CrashClear1/2: every use below is qualified *)
From Coq Require Import FMapPositive ZifyN ZifyNat ZifyBool.
Ltac Zify.zify_post_hook ::= Z.div_mod_to_equations.
Arguments N.add : simpl never.
Arguments N.sub : simpl never.
Arguments N.mul : simpl never.
Arguments N.div : simpl never.
Arguments N.modulo : simpl never.
Arguments N.pow : simpl never.
Arguments N.eqb : simpl never.
Arguments N.ltb : simpl never.
Arguments N.leb : simpl never.
Arguments N.max : simpl never.
Arguments N.min : simpl never.
Arguments N.of_nat : simpl never.
Arguments N.to_nat : simpl never.
Arguments N.testbit : simpl never.

(* ====================================================================================== *)
(* A. Replaying the pending updates on one bit                                             *)
(* ====================================================================================== *)

(* the value of bit i after replaying us over the value x *)
Definition rep (us : list bf_update) (i : N) (x : bool) : bool := fold_left (fun x u => ubit u i x) us x.

Lemma upds_fun_rep us g i : upds_fun g us i = rep us i (g i).
Proof. apply upds_fun_bit. Qed.

Lemma rep_app us vs i x : rep (us ++ vs) i x = rep vs i (rep us i x).
Proof. unfold rep. apply fold_left_app. Qed.

Lemma rep_nil i x : rep [] i x = x.
Proof. reflexivity. Qed.

(* a bit that already has its final value replays to the final value *)
Lemma rep_idem us i x : rep us i (rep us i x) = rep us i x.
Proof.
  unfold rep. destruct (fold_ubit_shape us i) as [Hid|(k & Hk)]; [rewrite !Hid|rewrite !Hk]; reflexivity.
Qed.

Lemma ubit_upd_fun u i g : ubit u i (g i) = upd_fun g u i.
Proof. reflexivity. Qed.

Lemma bf_get_fold_rep us b i : bf_get (fold_left bf_apply us b) i = rep us i (bf_get b i).
Proof. rewrite bf_get_fold_fun. apply upds_fun_rep. Qed.

(* ====================================================================================== *)
(* B. The bitfield store: cleared set and partial last page                                *)
(* ====================================================================================== *)

(* f: the store; us: the pending updates; c0: the hint of the header on disk.
   (1) every bit of the file replays to the held field; (2) so does every bit as bf_open reads it (a bit that
   is not read counts as unset); (3) a set bit that is not read stems from a memory image: replaying from
   "unset" passes through "set"; (4) the hint is exact for a field that replays to the held field. *)
Definition BfZ (f : file) (us : list bf_update) (c0 : N) (n : N) (cl : N -> bool) : Prop :=
  (forall i, rep us i (fbit f i) = held n cl i) /\
  (forall i, rep us i (rbit f i) = held n cl i) /\
  (forall i, fbit f i = true -> rbit f i = false -> exists us1 us2, us = us1 ++ us2 /\ rep us1 i false = true) /\
  exists B0 : N -> bool, fexact B0 c0 /\ forall i, rep us i (B0 i) = held n cl i.

(* every bit on which memory differs from the store — as bf_open reads it, or as it is — lies in a dirty page *)
Definition BfSyncZ (f : file) (b : bitfield) : Prop :=
  forall i, bf_get b i <> rbit f i \/ bf_get b i <> fbit f i -> In (i / PAGE_BITS) (bf_dirty b).

Lemma rbit_cases f i : rbit f i = fbit f i \/ rbit f i = false.
Proof. unfold rbit. destruct (i / 8 <? rlen f); [left|right]; reflexivity. Qed.

Lemma rbit_unread_mono f g i : rlen f <= rlen g -> rbit g i = false -> fbit g i = true -> rbit f i = false.
Proof.
  unfold rbit. intros Hl Hr Hf. rewrite Hf, andb_true_r in Hr.
  destruct (N.ltb_spec (i / 8) (rlen f)) as [L|L]; [|reflexivity].
  destruct (N.ltb_spec (i / 8) (rlen g)); [discriminate Hr|lia].
Qed.

Lemma BfZ_cl_ext f us c0 n cl cl' : (forall i, i < n -> cl' i = cl i) -> BfZ f us c0 n cl -> BfZ f us c0 n cl'.
Proof.
  intros E (H1 & H2 & H3 & B0 & H4 & H5). pose proof (held_ext n cl cl' E) as HE.
  split; [intros i; rewrite HE; apply H1|]. split; [intros i; rewrite HE; apply H2|]. split; [exact H3|].
  exists B0. split; [exact H4|]. intros i. rewrite HE. apply H5.
Qed.

(* a write whose bytes are the byte image of the memory bits (a whole page or any prefix of one), memory being
   the held field *)
Lemma BfZ_write_image f off data (b : bitfield) us c0 n cl :
  BfZ f us c0 n cl -> (forall i, bf_get b i = held n cl i) -> mem_image (bf_bits b) off data ->
  BfZ (f_write f off data) us c0 n cl.
Proof.
  intros (H1 & H2 & H3 & HB) Hb Him.
  set (f' := f_write f off data).
  assert (Hl : rlen f <= rlen f') by (apply rlen_mono; unfold f'; rewrite f_write_len; lia).
  assert (Hf : forall i, fbit f' i = if (off <=? i / 8) && (i / 8 <? off + len data) then held n cl i else fbit f i).
  { intros i. unfold f'. rewrite (fbit_write_image _ _ _ _ _ Him). fold (bf_get b i). rewrite Hb. reflexivity. }
  assert (G1 : forall i, rep us i (fbit f' i) = held n cl i).
  { intros i. rewrite Hf. destruct ((off <=? i / 8) && (i / 8 <? off + len data)); [|apply H1].
    rewrite <- (H1 i). apply rep_idem. }
  split; [exact G1|]. split; [|split; [|exact HB]].
  - intros i. destruct (rbit_cases f' i) as [E|E]; rewrite E; [apply G1|].
    destruct (fbit f' i) eqn:Ef.
    + rewrite <- (rbit_unread_mono f f' i Hl E Ef). apply H2.
    + rewrite <- Ef. apply G1.
  - intros i Ef Er. pose proof (rbit_unread_mono f f' i Hl Er Ef) as Er0.
    rewrite Hf in Ef. destruct ((off <=? i / 8) && (i / 8 <? off + len data)).
    + exists us, []. split; [symmetry; apply app_nil_r|]. rewrite <- Er0, H2. exact Ef.
    + apply H3; assumption.
Qed.

Lemma BfZ_write_pages f (b : bitfield) ps us c0 n cl :
  BfZ f us c0 n cl -> (forall i, bf_get b i = held n cl i) -> BfZ (write_pages f (bf_bits b) ps) us c0 n cl.
Proof.
  intros H Hb. revert f H. induction ps as [|p ps IH]; intros f H; [exact H|].
  unfold write_pages. cbn [fold_left]. fold (write_pages (page_write (bf_bits b) f p) (bf_bits b) ps).
  apply IH. unfold page_write. apply (BfZ_write_image f _ _ b); [exact H|exact Hb|apply mem_image_page].
Qed.

(* one more pending update *)
Lemma BfZ_snoc f us u c0 n cl n' cl' :
  BfZ f us c0 n cl -> (forall i, held n' cl' i = upd_fun (held n cl) u i) -> BfZ f (us ++ [u]) c0 n' cl'.
Proof.
  intros (H1 & H2 & H3 & B0 & Hex & HB) Hu.
  assert (S : forall i x, rep us i x = held n cl i -> rep (us ++ [u]) i x = held n' cl' i).
  { intros i x E. rewrite rep_app. unfold rep at 1. cbn [fold_left]. rewrite E, Hu. reflexivity. }
  split; [intros i; apply S, H1|]. split; [intros i; apply S, H2|]. split.
  - intros i Ef Er. destruct (H3 i Ef Er) as (us1 & us2 & -> & Hp). exists us1, (us2 ++ [u]).
    split; [symmetry; apply app_assoc|exact Hp].
  - exists B0. split; [exact Hex|]. intros i. apply S, HB.
Qed.

(* a store that holds exactly the current field, all of it readable: right after a flush *)
Lemma BfZ_exact f n cl c0 :
  (forall i, fbit f i = held n cl i) -> (forall i, rbit f i = held n cl i) -> fexact (held n cl) c0 ->
  BfZ f [] c0 n cl.
Proof.
  intros Hf Hr Hex. split; [exact Hf|]. split; [exact Hr|]. split.
  - intros i Ef Er. rewrite Hf in Ef. rewrite Hr in Er. congruence.
  - exists (held n cl). split; [exact Hex|reflexivity].
Qed.

(* the store of CrashClear1 (whole pages) is an instance *)
Lemma BfY_BfZ f us c0 n cl : CrashClear1.BfY f us c0 n cl -> BfZ f us c0 n cl.
Proof.
  intros (Hm & Hrep & B0 & Hex & HB).
  assert (R : forall i, rbit f i = fbit f i) by (intros i; apply rbit_whole_pages, Hm).
  assert (H1 : forall i, rep us i (fbit f i) = held n cl i) by (intros i; rewrite <- upds_fun_rep; apply Hrep).
  split; [exact H1|]. split; [intros i; rewrite R; apply H1|]. split.
  - intros i Ef Er. rewrite R in Er. congruence.
  - exists B0. split; [exact Hex|]. intros i. rewrite <- upds_fun_rep. apply HB.
Qed.

(* the store of TornCoreA (append-only, partial last page) is an instance *)
Lemma TornBfY_BfZ cr f bs l kf n :
  TornCoreA.BfY f kf n -> echain cr bs kf l n -> BfZ f (updates_of l) kf n (fun _ => false).
Proof.
  intros (Hlo & Hhi) Hch. pose proof (echain_le cr bs l kf n Hch) as Hle.
  assert (Hfin : forall i, rep (updates_of l) i (i <? kf) = held n (fun _ => false) i).
  { intros i. rewrite held_nothing, <- (Unified1.echain_updates cr bs l kf n i Hch). symmetry.
    apply (upds_fun_rep (updates_of l) (fun j => j <? kf) i). }
  (* any value of a bit that agrees with the store below kf and at or above n replays to the held field *)
  assert (Any : forall i x, (i < kf -> x = true) -> (n <= i -> x = false) -> rep (updates_of l) i x = held n (fun _ => false) i).
  { intros i x A B. rewrite <- Hfin.
    destruct (N.lt_ge_cases i kf) as [L|L]; [rewrite (A L); f_equal; lia|].
    destruct (N.lt_ge_cases i n) as [L2|L2]; [|rewrite (B L2); f_equal; lia].
    destruct x; [|f_equal; lia].
    assert (E : rep (updates_of l) i false = true).
    { replace false with (i <? kf) by lia. rewrite Hfin, held_nothing. lia. }
    replace (i <? kf) with false by lia.
    transitivity (rep (updates_of l) i (rep (updates_of l) i false)); [rewrite E; reflexivity|apply rep_idem]. }
  split.
  { intros i. apply Any; [intros L; apply rbit_fbit, Hlo, L|intros L; apply Hhi, L]. }
  split.
  { intros i. apply Any; [intros L; apply Hlo, L|intros L; apply fbit_false_rbit, Hhi, L]. }
  split.
  - intros i Ef Er. exists (updates_of l), []. split; [symmetry; apply app_nil_r|].
    assert (Hi : kf <= i /\ i < n).
    { split.
      - destruct (N.lt_ge_cases i kf) as [L|L]; [rewrite (Hlo i L) in Er; discriminate Er|exact L].
      - destruct (N.lt_ge_cases i n) as [L|L]; [exact L|rewrite (Hhi i L) in Ef; discriminate Ef]. }
    replace false with (i <? kf) by lia. rewrite Hfin, held_nothing. lia.
  - exists (fun j => j <? kf). split; [split; [intros i Hi; lia|lia]|exact Hfin].
Qed.

(* memory differs from a fixed field g only in dirty pages: kept by every update *)
Definition SyncG (g : N -> bool) (b : bitfield) : Prop :=
  forall i, bf_get b i <> g i -> In (i / PAGE_BITS) (bf_dirty b).

Lemma SyncG_apply g b u : SyncG g b -> SyncG g (bf_apply b u).
Proof.
  intros H i Hne. unfold bf_apply in *.
  destruct (Bool.bool_dec (bf_get (bf_set_range b (bu_start u) (bu_length u) (negb (bu_drop u))) i) (bf_get b i)) as [E|E].
  - apply bf_dirty_set_range_mono. apply H. rewrite <- E. exact Hne.
  - apply bf_dirty_set_range_sound. exact E.
Qed.

Lemma SyncG_fold g us : forall b, SyncG g b -> SyncG g (fold_left bf_apply us b).
Proof. induction us as [|u us IH]; intros b H; [exact H|]. cbn [fold_left]. apply IH, SyncG_apply, H. Qed.

Lemma dirty_fold_mono us : forall b p, In p (bf_dirty b) -> In p (bf_dirty (fold_left bf_apply us b)).
Proof.
  induction us as [|u us IH]; intros b p H; [exact H|]. cbn [fold_left]. apply IH.
  unfold bf_apply. apply bf_dirty_set_range_mono, H.
Qed.

Lemma BfSyncZ_apply f b u : BfSyncZ f b -> BfSyncZ f (bf_apply b u).
Proof.
  intros H i Hne. unfold bf_apply in *.
  destruct (Bool.bool_dec (bf_get (bf_set_range b (bu_start u) (bu_length u) (negb (bu_drop u))) i) (bf_get b i)) as [E|E].
  - apply bf_dirty_set_range_mono. apply H. rewrite <- E. exact Hne.
  - apply bf_dirty_set_range_sound. exact E.
Qed.

(* the field replayed by open over the store it loaded *)
Lemma BfSyncZ_open f us c0 n cl :
  BfZ f us c0 n cl -> BfSyncZ f (fold_left bf_apply us (bf_open f)).
Proof.
  intros (_ & H2 & H3 & _) i Hne.
  assert (S0 : SyncG (rbit f) (bf_open f)) by (intros k Hk; exfalso; apply Hk, bf_open_rbit).
  destruct (Bool.bool_dec (bf_get (fold_left bf_apply us (bf_open f)) i) (rbit f i)) as [E|E].
  - destruct Hne as [Hne|Hne]; [contradiction|]. rewrite E in Hne.
    assert (Ef : fbit f i = true /\ rbit f i = false).
    { destruct (rbit_cases f i) as [R|R]; [congruence|]. split; [|exact R]. rewrite R in Hne. destruct (fbit f i); congruence. }
    destruct Ef as [Ef Er]. destruct (H3 i Ef Er) as (us1 & us2 & -> & Hp).
    rewrite fold_left_app. apply dirty_fold_mono.
    apply (SyncG_fold (rbit f) us1 (bf_open f) S0). rewrite bf_get_fold_rep, bf_open_rbit, Er, Hp. discriminate.
  - apply (SyncG_fold (rbit f) us (bf_open f) S0), E.
Qed.

(* flushing the dirty pages: the store is exactly memory, all of it readable *)
Lemma BfSyncZ_flush f b :
  BfSyncZ f b ->
  let fb := write_pages f (bf_bits b) (bf_dirty b) in
  (forall i, fbit fb i = bf_get b i) /\ (forall i, rbit fb i = bf_get b i).
Proof.
  intros Hsync fb.
  assert (A : forall i, fbit fb i = bf_get b i /\ (fbit fb i = true -> i / 8 < rlen fb)).
  { intros i. destruct (fbit_write_pages (bf_bits b) (bf_dirty b) f i) as [I1 I2].
    destruct (in_dec N.eq_dec (i / PAGE_BITS) (bf_dirty b)) as [Hin|Hnin].
    - split; [apply I1, Hin|]. intros _.
      pose proof (write_pages_len_ge (bf_bits b) (bf_dirty b) f _ Hin) as G. fold fb in G.
      unfold rlen. unfold PAGE_BITS, PAGE_BYTES in *. lia.
    - fold fb in I2. rewrite (I2 Hnin).
      assert (E1 : bf_get b i = rbit f i).
      { destruct (Bool.bool_dec (bf_get b i) (rbit f i)) as [E|E]; [exact E|]. exfalso. apply Hnin, Hsync. left. exact E. }
      assert (E2 : bf_get b i = fbit f i).
      { destruct (Bool.bool_dec (bf_get b i) (fbit f i)) as [E|E]; [exact E|]. exfalso. apply Hnin, Hsync. right. exact E. }
      split; [symmetry; exact E2|]. intros Ef. rewrite <- E2, E1 in Ef. unfold rbit in Ef. apply andb_prop in Ef as [R _].
      pose proof (rlen_mono f fb (write_pages_len_mono _ _ f)). lia. }
  split; [intros i; apply A|].
  intros i. destruct (A i) as [E R]. unfold rbit. destruct (fbit fb i) eqn:Ef.
  - rewrite <- E. assert (i / 8 <? rlen fb = true) as -> by (specialize (R eq_refl); lia). reflexivity.
  - rewrite <- E. apply andb_false_r.
Qed.

(* ====================================================================================== *)
(* C. ZDisk, ZInv                                                                          *)
(* ====================================================================================== *)

Section Z.
  Variable cr : crypto.

  (* a disk as a crash — also one with a torn last write — may leave it, for a writer with clears *)
  Definition ZDisk (kp : keypair) (d : disk) (bs : list bytes) (cl : N -> bool) : Prop :=
    let n := N.of_nat (length bs) in
    sumN (map len bs) <= u64_max /\ NODE_SIZE * (2 * n) <= u64_max /\
    DataY (d_data d) bs cl /\ TreeOk (d_tree d) /\
    exists s0 s1 body st0 st1 bits hf l kf,
      f_content (d_oplog d) = s0 ++ s1 ++ body /\
      OplX cr s0 s1 body st0 st1 bits hf l /\
      hdr_desc' kp hf kf /\
      gchain cr bs kf l n /\
      lookups cr tE (d_tree d) bs kf /\
      BfZ (d_bitfield d) (updates_of l) (hd_contig hf) n cl.

  (* memory c and disk d between two calls *)
  Definition ZInv (c : core) (d : disk) (bs : list bytes) (cl : N -> bool) : Prop :=
    let n := N.of_nat (length bs) in
    YW cr c d bs cl /\ TreeOk (d_tree d) /\
    exists s0 s1 body st0 st1 hf l kf,
      f_content (d_oplog d) = s0 ++ s1 ++ body /\
      good cr s0 s1 body st0 st1 (ol_bits (c_oplog c)) hf l /\
      ol_entries_len (c_oplog c) = N.of_nat (length l) /\
      ol_entries_bytes (c_oplog c) = entries_size l /\
      hdr_desc' (c_keypair c) hf kf /\
      hdr_desc' (c_keypair c) (c_header c) n /\
      gchain cr bs kf l n /\
      lookups cr tE (d_tree d) bs kf /\
      BfZ (d_bitfield d) (updates_of l) (hd_contig hf) n cl /\
      BfSyncZ (d_bitfield d) (c_bitfield c).

  Lemma ZInv_YW c d bs cl : ZInv c d bs cl -> YW cr c d bs cl.
  Proof. intros [W _]. exact W. Qed.

  (* the observations are those of the list-with-cleared-set model *)
  Theorem ZInv_observations c d bs cl : ZInv c d bs cl -> obs_cleared c d bs cl.
  Proof.
    intros [W _]. split; [apply (Y_info cr c d bs cl W)|]. split.
    - intros i. apply (Y_has cr c d bs cl i W).
    - intros i j ev. apply (Y_get cr c d bs cl j ev i W).
  Qed.

  (* ---------- both invariants are instances ---------- *)

  Lemma BfSync_BfSyncZ f b : f_len f mod PAGE_BYTES = 0 -> BfSync f b -> BfSyncZ f b.
  Proof.
    intros Hm H i Hne. apply H. rewrite (rbit_whole_pages f i Hm) in Hne. destruct Hne as [E|E]; exact E.
  Qed.

  Theorem YInv_ZInv c d bs cl : CrashClear1.YInv cr c d bs cl -> TreeOk (d_tree d) -> ZInv c d bs cl.
  Proof.
    intros (W & s0 & s1 & body & st0 & st1 & hf & l & kf & Hcont & G & Hlen & Hbytes & Hhf & Hhc & Hch &
            Hstore & Hby & Hsync) Hok.
    split; [exact W|]. split; [exact Hok|].
    exists s0, s1, body, st0, st1, hf, l, kf. repeat (split; [assumption|]).
    split; [apply BfY_BfZ, Hby|]. apply BfSync_BfSyncZ; [apply Hby|exact Hsync].
  Qed.

  Theorem YDisk_ZDisk kp d bs cl : CrashClear1.YDisk cr kp d bs cl -> TreeOk (d_tree d) -> ZDisk kp d bs cl.
  Proof.
    intros (Hs & Hn & Hd & s0 & s1 & body & st0 & st1 & bits & hf & l & kf & Hcont & HO & Hhf & Hch & Hstore & Hby) Hok.
    unfold ZDisk. repeat (split; [assumption|]).
    exists s0, s1, body, st0, st1, bits, hf, l, kf. repeat (split; [assumption|]). apply BfY_BfZ, Hby.
  Qed.

  Theorem TornYDisk_ZDisk kp d bs : TornCoreA.YDisk cr kp d bs -> ZDisk kp d bs (fun _ => false).
  Proof.
    intros (Hs & Hn & (junk & Hd) & Hok & s0 & s1 & body & st0 & st1 & bits & hf & l & kf & Hcont & HO & Hhf & Hch &
            Hstore & Hbx).
    split; [exact Hs|]. split; [exact Hn|]. split; [apply (DataY_of_prefix _ _ junk Hd)|]. split; [exact Hok|].
    exists s0, s1, body, st0, st1, bits, hf, l, kf.
    split; [exact Hcont|]. split; [exact HO|]. split; [apply hdr_desc_desc', Hhf|].
    split; [apply echain_gchain, Hch|]. split; [exact Hstore|].
    destruct Hhf as (_ & _ & _ & _ & -> & _). apply (TornBfY_BfZ cr _ bs); assumption.
  Qed.

  Theorem TornYInv_ZInv c d bs : TornCoreA.YInv cr c d bs -> ZInv c d bs (fun _ => false).
  Proof.
    intros ((HL & HB & HF & HR & Hlook & Hun & Hbf & Hcg & (junk & Hd) & Hs & Hn) & Hok &
            s0 & s1 & body & st0 & st1 & hf & l & kf & Hcont & G & Hlen & Hbytes & Hhf & Hhc & Hch &
            Hstore & Hbx & Hsync).
    split.
    - split.
      { split; [exact HL|]. split; [exact HB|]. split; [exact HF|]. split; [exact HR|]. split; [exact Hlook|].
        split; [exact Hun|]. split; [exact Hs|exact Hn]. }
      split; [intros i; rewrite held_nothing; apply Hbf|].
      split; [rewrite Hcg; split; [intros i Hi; rewrite Hbf; lia|rewrite Hbf; lia]|].
      apply (DataY_of_prefix _ _ junk Hd).
    - split; [exact Hok|].
      exists s0, s1, body, st0, st1, hf, l, kf.
      split; [exact Hcont|]. split; [exact G|]. split; [exact Hlen|]. split; [exact Hbytes|].
      split; [apply hdr_desc_desc', Hhf|]. split; [apply hdr_desc_desc', Hhc|].
      split; [apply echain_gchain, Hch|]. split; [exact Hstore|].
      split.
      + destruct Hhf as (_ & _ & _ & _ & -> & _). apply (TornBfY_BfZ cr _ bs); assumption.
      + intros i [Hne|Hne]; [apply Hsync, Hne|].
        apply Hsync. rewrite Hbf in Hne |- *. destruct Hbx as [_ Hhi].
        destruct (N.ltb_spec i (N.of_nat (length bs))) as [L|L].
        * destruct (rbit_cases (d_bitfield d) i) as [R|R]; rewrite R; [exact Hne|discriminate].
        * exfalso. apply Hne. symmetry. apply Hhi, L.
  Qed.

  (* the disk part alone *)
  Theorem ZInv_ZDisk c d bs cl : ZInv c d bs cl -> ZDisk (c_keypair c) d bs cl.
  Proof.
    intros (((HL & HB & HF & HR & Hlook & Hun & Hs & Hn) & Hbf & Hcg & Hd) & Hok &
            s0 & s1 & body & st0 & st1 & hf & l & kf & Hcont & G & Hlen & Hbytes & Hhf & Hhc & Hch &
            Hstore & Hby & Hsync).
    unfold ZDisk. split; [exact Hs|]. split; [exact Hn|]. split; [exact Hd|]. split; [exact Hok|].
    exists s0, s1, body, st0, st1, (ol_bits (c_oplog c)), hf, l, kf.
    split; [exact Hcont|]. split; [left; exact G|]. repeat (split; [assumption|]). exact Hby.
  Qed.

  Lemma ZInv_cl_ext c d bs cl cl' :
    (forall i, i < N.of_nat (length bs) -> cl' i = cl i) -> ZInv c d bs cl -> ZInv c d bs cl'.
  Proof.
    intros E (W & Hok & s0 & s1 & body & st0 & st1 & hf & l & kf & H1 & H2 & H3 & H4 & H5 & H6 & H7 & H8 & H9 & H10).
    split; [apply (YW_cl_ext cr c d bs cl cl' E W)|]. split; [exact Hok|].
    exists s0, s1, body, st0, st1, hf, l, kf. repeat (split; [assumption|]).
    split; [apply (BfZ_cl_ext _ _ _ _ cl); assumption|exact H10].
  Qed.

  Lemma ZDisk_cl_ext kp d bs cl cl' :
    (forall i, i < N.of_nat (length bs) -> cl' i = cl i) -> ZDisk kp d bs cl -> ZDisk kp d bs cl'.
  Proof.
    intros E (Hs & Hn & Hd & Hok & s0 & s1 & body & st0 & st1 & bits & hf & l & kf & H1 & H2 & H3 & H4 & H5 & H6).
    split; [exact Hs|]. split; [exact Hn|]. split; [apply (DataY_cl_ext _ _ cl); assumption|]. split; [exact Hok|].
    exists s0, s1, body, st0, st1, bits, hf, l, kf. repeat (split; [assumption|]).
    apply (BfZ_cl_ext _ _ _ _ cl); assumption.
  Qed.

  Lemma ZInv_skip c d bs cl s :
    ZInv c d bs cl -> ZInv (mkCore (c_keypair c) (c_oplog c) (c_tree c) (c_bitfield c) (c_header c) s) d bs cl.
  Proof. intros X. exact X. Qed.

  (* only the data store differs *)
  Lemma ZInv_data c d d' bs cl :
    ZInv c d bs cl -> d_tree d' = d_tree d -> d_oplog d' = d_oplog d -> d_bitfield d' = d_bitfield d ->
    DataY (d_data d') bs cl -> ZInv c d' bs cl.
  Proof.
    intros ((T & Hbf & Hcg & _) & D) Et Eo Eb Hd. unfold ZInv, YW. rewrite Et, Eo, Eb.
    split; [|exact D]. split; [exact T|]. split; [exact Hbf|]. split; [exact Hcg|exact Hd].
  Qed.

  Lemma ZDisk_data kp d d' bs cl :
    ZDisk kp d bs cl -> d_tree d' = d_tree d -> d_oplog d' = d_oplog d -> d_bitfield d' = d_bitfield d ->
    DataY (d_data d') bs cl -> ZDisk kp d' bs cl.
  Proof.
    intros (Hs & Hn & _ & R) Et Eo Eb Hd. unfold ZDisk. rewrite Et, Eo, Eb.
    split; [exact Hs|]. split; [exact Hn|]. split; [exact Hd|exact R].
  Qed.
End Z.

(* ====================================================================================== *)
(* D. core_open from a crash disk                                                          *)
(* ====================================================================================== *)

Section ReopenZ.
  Variable cr : crypto.
  Hypothesis Hcrc : crc_ok cr.
  Hypothesis Hhash32 : forall x, length (cr_hash cr x) = 32%nat.
  Hypothesis Hnonblank : forall x, all_zero (cr_hash cr x) = false.
  Hypothesis Hhashbytes : forall x, bytes_ok (cr_hash cr x) = true.

  (* the bitfield part of the replay over a store with a partial last page *)
  Lemma replay_bitfield_Z tf l t (f : file) h t' b' h' n cl :
    replay_entries cr tf (t, bf_open f, h) l = Ok (t', b', h') ->
    drops_nonempty (updates_of l) ->
    BfZ f (updates_of l) (hd_contig h) n cl ->
    (forall i, bf_get b' i = held n cl i) /\ exact_contig b' (hd_contig h') /\
    b' = fold_left bf_apply (updates_of l) (bf_open f).
  Proof.
    intros Hr Hne (_ & Hrep & _ & B0 & Hex & HB).
    apply replay_entries_bf in Hr.
    assert (Eb : b' = fold_left bf_apply (updates_of l) (bf_open f)).
    { rewrite <- (fst_replay_bf (updates_of l) (bf_open f) (hd_contig h)), <- Hr. reflexivity. }
    assert (G : forall i, bf_get b' i = held n cl i).
    { intros i. rewrite Eb, bf_get_fold_rep, bf_open_rbit. apply Hrep. }
    split; [exact G|]. split; [|exact Eb].
    pose proof (replay_bf_pres_fun (updates_of l) (bf_open f) B0 (hd_contig h) Hne
                  (fexact_InvAB _ _ _ Hex)) as HI.
    rewrite <- Hr in HI. cbn [fst snd] in HI.
    apply exact_contig_fexact. apply (fexact_ext (upds_fun B0 (updates_of l))).
    - intros i. rewrite G, upds_fun_rep. apply HB.
    - apply (CR.InvAB_same_exact (bf_get b')); [|exact HI]. intros i. rewrite G, upds_fun_rep. symmetry. apply HB.
  Qed.

  Lemma open_tail_Z kp d bs cl s0 s1 body st0 st1 bits hf l kf ops :
    let n := N.of_nat (length bs) in
    sumN (map len bs) <= u64_max -> NODE_SIZE * (2 * n) <= u64_max ->
    DataY (d_data d) bs cl -> TreeOk (d_tree d) ->
    f_content (d_oplog d) = s0 ++ s1 ++ body ->
    good cr s0 s1 body st0 st1 bits hf l ->
    hdr_desc' kp hf kf -> gchain cr bs kf l n ->
    lookups cr tE (d_tree d) bs kf -> BfZ (d_bitfield d) (updates_of l) (hd_contig hf) n cl ->
    exists c', open_tail cr d (mkOpenOutcome (mkOplog bits (N.of_nat (length l)) (entries_size l)) hf ops l) = Ok c' /\
               ZInv cr c' d bs cl /\ c_keypair c' = kp /\ c_skip c' = 0.
  Proof.
    intros n Hs Hn Hd Htok Hcont G Hhf Hch Hstore Hby.
    unfold open_tail. cbn [oo_header oo_entries oo_oplog].
    pose proof Hhf as (Hok & Hkp & Hfk & Hln & Hrh & Hsg).
    pose proof (gchain_le cr bs l kf n Hch) as Hle.
    assert (Hn64 : n <= u64_max) by (unfold NODE_SIZE in Hn; lia).
    destruct (tree_open_ref cr Hnonblank bs (d_tree d) (hd_tree hf) kf Hstore Hln Hsg) as [sg0 Hto].
    rewrite Hto. cbn [bind]. rewrite Hfk.
    set (t0 := mkTree (ref_roots cr bs kf) kf (prefix_size bs kf) 0 sg0 nm_empty).
    assert (R0 : RInvT cr bs (d_tree d) kp (t0, bf_open (d_bitfield d), hf) kf).
    { unfold RInvT, t0. cbn [t_length t_byte_length t_fork t_roots].
      split; [reflexivity|]. split; [reflexivity|]. split; [reflexivity|]. split; [reflexivity|].
      split. { intros dd o Hfull. rewrite <- (Hstore dd o Hfull). apply required_node_same_unflushed. reflexivity. }
      split. { intros i x H. cbn [t_unflushed] in H. rewrite nm_get_empty in H. discriminate H. }
      unfold hdr_desc. split; [apply header_ok_set_contig; [exact Hok|lia]|].
      cbn [set_contig hd_keypair hd_tree hd_contig]. repeat split; assumption. }
    destruct (replay_entries_okY cr Hhash32 Hnonblank Hhashbytes bs (d_tree d) kp l
                t0 (bf_open (d_bitfield d)) hf kf n Hs Hn64 R0 Hch) as (t' & b' & h' & Hrepl & R').
    rewrite Hrepl. cbn [bind].
    destruct R' as (HL' & HB' & HF' & HR' & Hlook' & Hun' & Hh').
    destruct (replay_bitfield_Z (d_tree d) l t0 (d_bitfield d) hf t' b' h' n cl Hrepl
                (gchain_drops cr bs l kf n Hch) Hby) as (Hbf' & Hex' & Eb').
    assert (Hcg' : hd_contig h' <= n).
    { apply (fexact_le (bf_get b')); [|apply exact_contig_fexact, Hex'].
      intros i Hi. rewrite Hbf' in Hi. apply (held_lt _ _ _ Hi). }
    assert (Hd' : hdr_desc' kp h' n).
    { destruct Hh' as (Hok' & Hkp' & Hfk' & Hln' & _ & Hrh' & Hsg').
      cbn [set_contig hd_keypair hd_tree] in Hkp', Hfk', Hln', Hrh', Hsg'.
      split; [|repeat split; assumption].
      rewrite <- (set_contig_back h' n). apply header_ok_set_contig; [exact Hok'|lia]. }
    pose proof Hd' as (_ & Hkp'' & _).
    eexists. split; [reflexivity|].
    split; [|split; [exact Hkp''|reflexivity]].
    split.
    { unfold YW, TInv. cbv zeta. cbn [c_tree c_bitfield c_header]. fold n.
      split.
      { split; [exact HL'|]. split; [rewrite HB'; unfold n; apply prefix_size_all|].
        split; [exact HF'|]. split; [exact HR'|]. split; [exact Hlook'|]. split; [exact Hun'|].
        split; [exact Hs|exact Hn]. }
      split; [exact Hbf'|]. split; [exact Hex'|exact Hd]. }
    split; [exact Htok|].
    cbn [c_oplog c_keypair c_header c_bitfield ol_bits ol_entries_len ol_entries_bytes].
    fold n. rewrite Hkp''.
    exists s0, s1, body, st0, st1, hf, l, kf.
    split; [exact Hcont|]. split; [exact G|]. split; [reflexivity|]. split; [reflexivity|].
    split; [exact Hhf|]. split; [exact Hd'|]. split; [exact Hch|].
    split; [exact Hstore|]. split; [exact Hby|].
    rewrite Eb'. apply (BfSyncZ_open _ _ _ _ _ Hby).
  Qed.

  (* the disk reopens to the invariant for (bs, cl), with key pair kp; only the oplog store may change, and its
     header slots stay hygienic if they were *)
  Definition recoversZ (kp : keypair) (d : disk) (bs : list bytes) (cl : N -> bool) : Prop :=
    exists c' d' ops, core_open cr None true d = (d', ops, Ok c') /\
      ZInv cr c' d' bs cl /\ c_keypair c' = kp /\ c_skip c' = 0 /\
      d_tree d' = d_tree d /\ d_data d' = d_data d /\ d_bitfield d' = d_bitfield d /\
      (hyg cr (f_content (d_oplog d)) -> hyg cr (f_content (d_oplog d'))).

  Theorem reopen_Z kp d bs cl :
    ZDisk cr kp d bs cl ->
    exists c' d' ops, core_open cr None true d = (d', ops, Ok c') /\
      ZInv cr c' d' bs cl /\ c_keypair c' = kp /\ c_skip c' = 0 /\
      d_tree d' = d_tree d /\ d_data d' = d_data d /\ d_bitfield d' = d_bitfield d /\
      (ops = [] /\ d' = d \/ ops = [ST Oplog ENTRIES_OFFSET]) /\
      (hyg cr (f_content (d_oplog d)) -> hyg cr (f_content (d_oplog d'))).
  Proof.
    intros (Hs & Hn & Hd & Htok & s0 & s1 & body & st0 & st1 & bits & hf & l & kf & Hcont & HO & Hhf & Hch & Hstore & Hby).
    destruct (OplX_open cr Hcrc Hhash32 Hnonblank Hhashbytes s0 s1 body st0 st1 bits hf l HO)
      as (ops & Hopen & [(-> & G)|(-> & L0 & L1 & G)]).
    - rewrite <- Hcont in Hopen.
      rewrite (core_open_eq cr d _ d Hopen eq_refl). cbn [oo_ops].
      destruct (open_tail_Z kp d bs cl s0 s1 body st0 st1 bits hf l kf [] Hs Hn Hd Htok Hcont G Hhf Hch Hstore Hby)
        as (c' & E & X & K & Sk).
      exists c', d, []. split; [rewrite E; reflexivity|].
      repeat (split; [assumption || reflexivity|]). split; [left; split; reflexivity|]. intros Hh; exact Hh.
    - rewrite <- Hcont in Hopen.
      set (d' := d_set d Oplog (f_truncate (d_oplog d) ENTRIES_OFFSET)).
      assert (Ha : apply_sops d [ST Oplog ENTRIES_OFFSET] = Some d') by reflexivity.
      rewrite (core_open_eq cr d _ d' Hopen Ha). cbn [oo_ops].
      assert (Hcont' : f_content (d_oplog d') = s0 ++ s1 ++ []).
      { unfold d'. destruct d as [ft fd fb fo]. cbn [d_set d_oplog] in *.
        rewrite f_content_truncate, Hcont. apply c_truncate_all_entries; assumption. }
      assert (Et : d_tree d' = d_tree d) by (destruct d; reflexivity).
      assert (Ed : d_data d' = d_data d) by (destruct d; reflexivity).
      assert (Eb : d_bitfield d' = d_bitfield d) by (destruct d; reflexivity).
      destruct (open_tail_Z kp d' bs cl s0 s1 [] st0 st1 bits hf l kf [ST Oplog ENTRIES_OFFSET] Hs Hn)
        as (c' & E & X & K & Sk); try (rewrite ?Et, ?Ed, ?Eb; assumption).
      exists c', d', [ST Oplog ENTRIES_OFFSET]. split; [rewrite E; reflexivity|].
      repeat (split; [assumption|]). split; [right; reflexivity|].
      rewrite Hcont, Hcont'. apply (hyg_body cr s0 s1 body [] L0 L1).
  Qed.

  Corollary ZDisk_recovers kp d bs cl : ZDisk cr kp d bs cl -> recoversZ kp d bs cl.
  Proof.
    intros H. destruct (reopen_Z kp d bs cl H) as (c' & d' & ops & E & X & K & S & T & D & B & _ & Hh).
    exists c', d', ops. repeat (split; [assumption|]). exact Hh.
  Qed.

  (* reopening a running state: nothing to repair *)
  Corollary reopen_ZInv c d bs cl :
    ZInv cr c d bs cl ->
    exists c', core_open cr None true d = (d, [], Ok c') /\
      ZInv cr c' d bs cl /\ c_keypair c' = c_keypair c /\ c_skip c' = 0.
  Proof.
    intros X.
    pose proof X as (_ & _ & s0 & s1 & body & st0 & st1 & hf & l & kf & Hcont & G & _).
    destruct (reopen_Z (c_keypair c) d bs cl (ZInv_ZDisk cr c d bs cl X))
      as (c' & d' & ops & E & X' & K & Sk & _ & _ & _ & [(-> & ->) | -> ] & _).
    - exists c'. split; [exact E|]. split; [exact X'|]. split; [exact K|exact Sk].
    - exfalso. unfold core_open in E. cbv iota in E. rewrite Hcont in E.
      rewrite (good_open cr Hcrc _ _ _ _ _ _ _ _ G) in E. cbn [stable_result oo_ops apply_sops] in E.
      injection E as _ E _. discriminate E.
  Qed.

  (* open repairs the oplog store (ops), after which the disk is a stable crash disk *)
  Lemma reopen_after_repair_Z kp d d' bs cl s0 s1 body st0 st1 bits hf l kf ops :
    let n := N.of_nat (length bs) in
    sumN (map len bs) <= u64_max -> NODE_SIZE * (2 * n) <= u64_max ->
    oplog_open cr None (f_content (d_oplog d)) =
      Ok (mkOpenOutcome (mkOplog bits (N.of_nat (length l)) (entries_size l)) hf ops l) ->
    apply_sops d ops = Some d' ->
    d_tree d' = d_tree d -> d_data d' = d_data d -> d_bitfield d' = d_bitfield d ->
    DataY (d_data d) bs cl -> TreeOk (d_tree d) ->
    f_content (d_oplog d') = s0 ++ s1 ++ body ->
    good cr s0 s1 body st0 st1 bits hf l ->
    hdr_desc' kp hf kf -> gchain cr bs kf l n ->
    lookups cr tE (d_tree d) bs kf -> BfZ (d_bitfield d) (updates_of l) (hd_contig hf) n cl ->
    (hyg cr (f_content (d_oplog d)) -> hyg cr (f_content (d_oplog d'))) ->
    recoversZ kp d bs cl.
  Proof.
    intros n Hs Hn Hopen Ha Et Ed Eb Hd Htok Hcont G Hhf Hch Hstore Hbx Hhyg.
    pose proof (core_open_eq cr d _ d' Hopen Ha) as E. cbn [oo_ops] in E.
    destruct (open_tail_Z kp d' bs cl s0 s1 body st0 st1 bits hf l kf ops Hs Hn)
      as (c' & Et' & X & K & Sk); try (rewrite ?Et, ?Ed, ?Eb; assumption).
    exists c', d', ops. split; [rewrite E, Et'; reflexivity|].
    repeat (split; [assumption|]). exact Hhyg.
  Qed.
End ReopenZ.

(* ====================================================================================== *)
(* E. A flush from a ZInv state: result, clean cuts, torn cuts                             *)
(* ====================================================================================== *)

Section FlushZ.
  Variable cr : crypto.
  Hypothesis Hcrc : crc_ok cr.
  Hypothesis Hhash32 : forall x, length (cr_hash cr x) = 32%nat.
  Hypothesis Hnonblank : forall x, all_zero (cr_hash cr x) = false.

  (* what a torn cut of the flush group leaves: a crash disk of the same (bs, cl) — or, for the header slot
     write only, a CRC collision; the slot write needs the side condition tear_safe *)
  Definition QFZ (kp : keypair) (bs : list bytes) (cl : N -> bool) (dk : disk) (o : sop) (t : nat) (dkt : disk) : Prop :=
    tear_safe cr dk o t -> ZDisk cr kp dkt bs cl \/ (is_slot_write o = true /\ collision cr t).

  Lemma flush_all_Z c d j ev bs cl :
    ZInv cr c d bs cl ->
    exists c' d' fl,
      flush_all cr false c (mkWorld d j ev) = (c', mkWorld d' (rev fl ++ j) ev, Ok tt) /\
      apply_sops d fl = Some d' /\ ZInv cr c' d' bs cl /\ c_keypair c' = c_keypair c /\
      hyg cr (f_content (d_oplog d')) /\
      cuts_ok d fl (fun dk => ZDisk cr (c_keypair c) dk bs cl /\
                              (hyg cr (f_content (d_oplog d)) -> hyg cr (f_content (d_oplog dk)))) /\
      tcuts d fl (QFZ (c_keypair c) bs cl).
  Proof.
    intros X.
    pose proof X as (((HL & HB & HF & HR & Hlook & Hun & Hs & Hn) & Hbf & Hcg & Hd) & Htok &
                     s0 & s1 & body & st0 & st1 & hf & l & kf & Hcont & G & Hlen & Hbytes & Hhf & Hhc & Hch &
                     Hstore & Hby & Hsync).
    set (n := N.of_nat (length bs)) in *.
    pose proof (gchain_le cr bs l kf n Hch) as Hle.
    pose proof Hhc as (Hok & Hkp & Hfk & Hln & Hrh & Hsg).
    assert (Hfits : hdr_fits false (c_header c)).
    { apply hdr_fits_real; [exact Hok|exact Hrh|]. destruct Hsg as [->|Hsg]; unfold len; [cbn; lia|rewrite Hsg; lia]. }
    destruct (flush_all_run cr Hhash32 Hnonblank c (mkWorld d j ev) Hun Hfits) as (o' & oops & d3 & OF & A & E).
    cbn [w_disk w_journal w_events] in *. cbv zeta in A, E.
    set (b := c_bitfield c) in *. set (t := c_tree c) in *. set (ws := unflushed_nodes t) in *.
    (* the oplog step *)
    pose proof G as (H0 & H1 & Hchs & Hf & Hoks).
    unfold oplog_flush in OF. apply bind_ok in OF as ([bits1 ops1] & Hins & OF). injection OF as <- <-.
    destruct (header_write_step cr s0 s1 st0 st1 _ hf (c_header c) 0 false bits1 ops1 H0 H1 Hchs Hok Hfits Hins)
      as (fr & pad & Hfr & Hl & _ & -> & -> & Hw & st0' & st1' & S0 & S1 & Hch' & Hcb).
    set (bits := ol_bits (c_oplog c)) in *.
    set (s0' := put0 (w_slot bits) (fr ++ pad) s0) in *. set (s1' := put1 (w_slot bits) (fr ++ pad) s1) in *.
    assert (L0 : length s0 = SLOT) by (destruct st0; apply H0).
    assert (L1 : length s1 = SLOT) by (destruct st1; apply H1).
    assert (L0' : length s0' = SLOT) by (destruct st0'; apply S0).
    assert (L1' : length s1' = SLOT) by (destruct st1'; apply S1).
    (* the disks *)
    set (fb := write_pages (d_bitfield d) (bf_bits b) (bf_dirty b)).
    set (ft := write_nodes (d_tree d) ws).
    set (fo1 := f_write (d_oplog d) (w_slot bits) (fr ++ pad)).
    set (fo2 := f_truncate fo1 (ENTRIES_OFFSET + 0)).
    assert (Ed3 : d3 = mkDisk ft (d_data d) fb fo2).
    { unfold page_ops in A. rewrite CoreFacts.apply_sops_app, apply_page_writes, CoreFacts.apply_sops_app, apply_node_writes in A.
      cbn [apply_sops apply_sop d_get d_set d_tree d_oplog] in A. injection A as <-. reflexivity. }
    (* the stores during and after the flush *)
    assert (Hws : forall v, In v ws -> nm_get (n_index v) (t_unflushed t) = Some v)
      by (intros v Hv; apply unflushed_nodes_get; assumption).
    assert (H32 : forall v, In v ws -> length (n_hash v) = 32%nat).
    { intros v Hv. apply Hws in Hv. apply Hun in Hv. tauto. }
    assert (Tw : forall ws', (forall v, In v ws' -> In v ws) -> forall m, m <= n ->
                 lookups cr tE (d_tree d) bs m -> lookups cr tE (write_nodes (d_tree d) ws') bs m).
    { intros ws' Hsub m Hm Hl0. apply (lookups_write_nodes cr bs t (d_tree d) ws' n m Hlook Hun Hm); [|exact Hl0].
      intros v Hv. apply Hws, Hsub, Hv. }
    assert (Tok : forall ws', (forall v, In v ws' -> In v ws) -> TreeOk (write_nodes (d_tree d) ws')).
    { intros ws' Hsub. apply TreeOk_write_nodes; [exact Htok|]. intros v Hv. apply H32, Hsub, Hv. }
    assert (Bw : forall ps, BfZ (write_pages (d_bitfield d) (bf_bits b) ps) (updates_of l) (hd_contig hf) n cl)
      by (intros ps; apply BfZ_write_pages; assumption).
    assert (Hidx : forall dd o, (o + 1) * p2 dd <= n -> NODE_SIZE * ft_index (N.of_nat dd) o <= u64_max).
    { intros dd o Hfull. pose proof (ft_index_succ (N.of_nat dd) o) as S. fold (p2 dd) in S. pose proof (p2_pos dd).
      unfold NODE_SIZE in *. nia. }
    set (t' := mkTree (t_roots t) (t_length t) (t_byte_length t) (t_fork t) (t_signature t) nm_empty) in *.
    assert (LT' : lookups cr t' ft bs n).
    { intros dd o Hfull.
      apply (tree_flush_preserves_lookups t t' (map node_write ws) d (d_set d Tree ft) _ _
               (tree_flush_ok t Hun) (apply_node_writes ws d) Hun (Hidx dd o Hfull)).
      apply Hlook, Hfull. }
    assert (LT : lookups cr tE ft bs n).
    { intros dd o Hfull. rewrite <- (LT' dd o Hfull). apply required_node_same_unflushed. reflexivity. }
    assert (LTkf : lookups cr tE ft bs kf) by (apply Tw; [intros v Hv; exact Hv|exact Hle|exact Hstore]).
    assert (Tokft : TreeOk ft) by (apply Tok; intros v Hv; exact Hv).
    destruct (BfSyncZ_flush (d_bitfield d) b Hsync) as [Ffb Rfb]. fold fb in Ffb, Rfb.
    assert (BX : BfZ fb [] (hd_contig (c_header c)) n cl).
    { apply BfZ_exact; [intros i; rewrite Ffb; apply Hbf|intros i; rewrite Rfb; apply Hbf|].
      apply (fexact_ext (bf_get b)); [exact Hbf|apply exact_contig_fexact, Hcg]. }
    (* a disk whose oplog and data stores are those of d *)
    assert (Old : forall dk, d_data dk = d_data d -> d_oplog dk = d_oplog d ->
                  BfZ (d_bitfield dk) (updates_of l) (hd_contig hf) n cl -> lookups cr tE (d_tree dk) bs kf ->
                  TreeOk (d_tree dk) -> ZDisk cr (c_keypair c) dk bs cl).
    { intros dk Ed Eo Hb' Ht' Hk'. unfold ZDisk. fold n. rewrite Ed, Eo.
      split; [exact Hs|]. split; [exact Hn|]. split; [exact Hd|]. split; [exact Hk'|].
      exists s0, s1, body, st0, st1, bits, hf, l, kf.
      split; [exact Hcont|]. split; [left; exact G|]. repeat (split; [assumption|]). exact Hb'. }
    (* the disk after the slot write *)
    assert (Mid : ZDisk cr (c_keypair c) (mkDisk ft (d_data d) fb fo1) bs cl).
    { unfold ZDisk. fold n. cbn [d_data d_oplog d_tree d_bitfield].
      split; [exact Hs|]. split; [exact Hn|]. split; [exact Hd|]. split; [exact Tokft|].
      exists s0', s1', body, st0', st1', (w_bits bits), (c_header c), [], n.
      split; [unfold fo1; rewrite f_content_write, Hcont; apply Hw|].
      split. { right. split; [reflexivity|]. split; [exact S0|]. split; [exact S1|]. split; [exact Hch'|].
               exists (current_bit bits), l. split; [exact Hcb|exact Hf]. }
      split; [exact Hhc|]. split; [reflexivity|]. split; [exact LT|exact BX]. }
    (* the final state *)
    assert (Hcont3 : f_content fo2 = s0' ++ s1' ++ []).
    { unfold fo2, fo1. rewrite f_content_truncate, f_content_write, Hcont, Hw, N.add_0_r.
      apply c_truncate_all_entries; assumption. }
    assert (X3 : ZInv cr (mkCore (c_keypair c) (mkOplog (w_bits bits) 0 0) t' (mkBf (bf_bits b) []) (c_header c) (c_skip c))
                      (mkDisk ft (d_data d) fb fo2) bs cl).
    { split.
      - unfold YW, TInv. cbv zeta. cbn [c_tree c_bitfield c_header d_tree d_data t' t_length t_byte_length t_fork t_roots].
        fold n.
        split.
        { split; [exact HL|]. split; [exact HB|]. split; [exact HF|]. split; [exact HR|]. split; [exact LT'|].
          split. { intros i x H. unfold t' in H. cbn [t_unflushed] in H. rewrite nm_get_empty in H. discriminate H. }
          split; [exact Hs|exact Hn]. }
        split; [exact Hbf|]. split; [exact Hcg|exact Hd].
      - split; [exact Tokft|].
        cbn [c_oplog c_keypair c_header c_bitfield ol_bits ol_entries_len ol_entries_bytes d_oplog d_tree d_bitfield].
        fold n. exists s0', s1', [], st0', st1', (c_header c), [], n.
        split; [exact Hcont3|].
        split. { split; [exact S0|]. split; [exact S1|]. split; [exact Hch'|]. split; reflexivity. }
        split; [reflexivity|]. split; [reflexivity|]. split; [exact Hhc|]. split; [exact Hhc|].
        split; [reflexivity|]. split; [exact LT|]. split; [exact BX|].
        intros i Hne. exfalso. change (bf_get b i <> rbit fb i \/ bf_get b i <> fbit fb i) in Hne.
        rewrite Rfb, Ffb in Hne. destruct Hne as [Hne|Hne]; apply Hne; reflexivity. }
    eexists. exists d3. eexists. split; [exact E|]. split; [exact A|].
    rewrite Ed3. split; [exact X3|]. split; [reflexivity|].
    split.
    { change (hyg cr (f_content fo2)). rewrite Hcont3.
      apply (hyg_full_write cr Hcrc s0 s1 st0 st1 bits hf [] (c_header c) fr pad H0 H1 Hchs Hfr Hl). }
    split.
    { (* the clean cuts *)
      apply (cuts_app d _ _ _ (d_set d Bitfield fb)).
      { intros k. unfold page_ops. rewrite firstn_map, apply_page_writes. eexists. split; [reflexivity|].
        split; [|intros Hh; exact Hh].
        apply Old; try reflexivity; [apply Bw|exact Hstore|exact Htok]. }
      { unfold page_ops. apply apply_page_writes. }
      apply (cuts_app _ _ _ _ (d_set (d_set d Bitfield fb) Tree ft)).
      { intros k. rewrite firstn_map, apply_node_writes. eexists. split; [reflexivity|].
        split; [|intros Hh; exact Hh].
        apply Old; try reflexivity; [apply Bw| |].
        - cbn [d_set d_tree]. apply Tw; [intros v Hv; eapply in_firstn; exact Hv|exact Hle|exact Hstore].
        - cbn [d_set d_tree]. apply Tok. intros v Hv. eapply in_firstn; exact Hv. }
      { apply apply_node_writes. }
      intros k. destruct k as [|[|k]].
      - eexists. split; [reflexivity|]. split; [|intros Hh; exact Hh].
        apply Old; try reflexivity; [apply Bw|exact LTkf|exact Tokft].
      - eexists. split; [reflexivity|]. split; [exact Mid|].
        change (hyg cr (f_content (d_oplog d)) -> hyg cr (f_content fo1)).
        unfold fo1. rewrite f_content_write, Hcont, Hw. intros Hh.
        apply (hyg_header_write cr Hcrc s0 s1 body body bits (c_header c) fr pad L0 L1 Hfr Hl Hh).
      - cbn [firstn]. rewrite firstn_nil. eexists. split; [reflexivity|].
        split; [apply (ZInv_ZDisk cr _ _ _ _ X3)|].
        change (hyg cr (f_content (d_oplog d)) -> hyg cr (f_content fo2)).
        rewrite Hcont3, Hcont. intros Hh.
        apply (hyg_header_write cr Hcrc s0 s1 body [] bits (c_header c) fr pad L0 L1 Hfr Hl Hh). }
    (* the torn cuts *)
    apply (tcuts_app d _ _ _ (d_set d Bitfield fb)).
    { (* a torn page write *)
      intros k o tt Hk Htt. unfold page_ops in Hk. rewrite nth_error_map in Hk.
      destruct (nth_error (bf_dirty b) k) as [p|] eqn:Ep; [|discriminate Hk]. cbn [option_map] in Hk. injection Hk as <-.
      unfold page_ops. rewrite firstn_map, apply_page_writes.
      eexists. eexists. split; [reflexivity|]. split; [reflexivity|]. intros _. left.
      apply Old; try (destruct d as [xt xd xb xo]; reflexivity).
      - destruct d as [xt xd xb xo]. cbn [d_set d_get d_bitfield].
        apply (BfZ_write_image _ _ _ b); [apply Bw|exact Hbf|].
        apply mem_image_firstn, mem_image_page.
      - destruct d as [xt xd xb xo]. exact Hstore.
      - destruct d as [xt xd xb xo]. exact Htok. }
    { unfold page_ops. apply apply_page_writes. }
    apply (tcuts_app _ _ _ _ (d_set (d_set d Bitfield fb) Tree ft)).
    { (* a torn node write *)
      intros k o tt Hk Htt. rewrite nth_error_map in Hk.
      destruct (nth_error ws k) as [v|] eqn:Ev; [|discriminate Hk]. cbn [option_map] in Hk. injection Hk as <-.
      rewrite firstn_map, apply_node_writes.
      eexists. eexists. split; [reflexivity|]. split; [reflexivity|]. intros _. left.
      assert (Hv : In v ws) by (eapply nth_error_In; exact Ev).
      destruct (lookups_torn_after_nodes cr bs t (d_tree d) (firstn k ws) v tt n kf Hlook Hun Hle) as [T1 T2];
        [intros x Hx; apply Hws; eapply in_firstn; exact Hx|apply Hws, Hv|exact Htok|exact Hstore|].
      apply Old; try (destruct d as [xt xd xb xo]; reflexivity).
      - destruct d as [xt xd xb xo]. cbn [d_set d_bitfield]. apply Bw.
      - destruct d as [xt xd xb xo]. exact T1.
      - destruct d as [xt xd xb xo]. exact T2. }
    { apply apply_node_writes. }
    set (d2 := d_set (d_set d Bitfield fb) Tree ft).
    assert (Ed2 : d2 = mkDisk ft (d_data d) fb (d_oplog d)) by (destruct d as [xt xd xb xo]; reflexivity).
    apply (tcuts_cons d2 _ _ _ (mkDisk ft (d_data d) fb fo1)).
    { (* the torn slot write *)
      intros tt Htt. cbn [wlen] in Htt. eexists. split; [reflexivity|]. intros Hsafe.
      rewrite Ed2 in Hsafe |- *. cbn [tear_safe d_oplog f_content] in Hsafe.
      cbn [tear apply_sop d_get d_set d_tree d_data d_bitfield d_oplog].
      assert (Hdead : (tt <= 4)%nat -> (if w_slot bits =? 0 then st0 else st1) = SInvalid ->
                      slot_dead cr (if w_slot bits =? 0 then s0 else s1)).
      { intros H4 Hinv. rewrite Hcont, (slot_at_w s0 s1 body bits L0 L1) in Hsafe. apply Hsafe; [|exact H4|].
        - apply w_slot_cases.
        - destruct (w_slot bits =? 0); [rewrite Hinv in H0; apply H0|rewrite Hinv in H1; apply H1]. }
      destruct (torn_slot_outcomes cr Hcrc s0 s1 body st0 st1 bits hf l (c_header c) fr pad tt G Hok Hfr Hl Htt Hdead)
        as [Hcw [(x0 & x1 & Gt)|[(x0 & x1 & T0 & T1 & Tch)|C]]].
      - (* before *)
        left. unfold ZDisk. fold n. cbn [d_data d_oplog d_tree d_bitfield].
        split; [exact Hs|]. split; [exact Hn|]. split; [exact Hd|]. split; [exact Tokft|].
        do 2 eexists. exists body, x0, x1, bits, hf, l, kf.
        split; [rewrite f_content_write, Hcont; exact Hcw|].
        split; [left; exact Gt|]. split; [exact Hhf|]. split; [exact Hch|]. split; [exact LTkf|apply Bw].
      - (* after *)
        left. unfold ZDisk. fold n. cbn [d_data d_oplog d_tree d_bitfield].
        split; [exact Hs|]. split; [exact Hn|]. split; [exact Hd|]. split; [exact Tokft|].
        do 2 eexists. exists body, x0, x1, (w_bits bits), (c_header c), [], n.
        split; [rewrite f_content_write, Hcont; exact Hcw|].
        split. { right. split; [reflexivity|]. split; [exact T0|]. split; [exact T1|]. split; [exact Tch|].
                 exists (current_bit bits), l. split; [apply w_bits_current|exact Hf]. }
        split; [exact Hhc|]. split; [reflexivity|]. split; [exact LT|exact BX].
      - right. split; [|exact C]. cbn [is_slot_write]. destruct (w_slot_cases bits) as [-> | ->]; reflexivity. }
    { rewrite Ed2. reflexivity. }
    apply (tcuts_cons _ _ _ _ (mkDisk ft (d_data d) fb fo2)); [|reflexivity|apply tcuts_nil].
    intros tt _. eexists. split; [reflexivity|]. intros _. left. apply (ZInv_ZDisk cr _ _ _ _ X3).
  Qed.

  Lemma maybe_flush_Z f c d j ev bs cl :
    ZInv cr c d bs cl ->
    exists c' d' fl,
      maybe_flush cr f c (mkWorld d j ev) = (c', mkWorld d' (rev fl ++ j) ev, Ok tt) /\
      apply_sops d fl = Some d' /\ ZInv cr c' d' bs cl /\ c_keypair c' = c_keypair c /\
      (f = Some true -> hyg cr (f_content (d_oplog d'))) /\
      cuts_ok d fl (fun dk => ZDisk cr (c_keypair c) dk bs cl /\
                              (hyg cr (f_content (d_oplog d)) -> hyg cr (f_content (d_oplog dk)))) /\
      tcuts d fl (QFZ (c_keypair c) bs cl).
  Proof.
    intros X. unfold maybe_flush. rewrite mbind_get_core.
    match goal with |- context [if ?b then _ else _] => destruct b eqn:Edec end.
    - rewrite mbind_put_skip.
      destruct (flush_all_Z _ d j ev bs cl (ZInv_skip cr c d bs cl 3 X))
        as (c' & d' & fl & E & A & X' & K & Hh' & C & T).
      exists c', d', fl. split; [exact E|]. split; [exact A|]. split; [exact X'|]. split; [exact K|].
      split; [intros _; exact Hh'|]. split; [exact C|exact T].
    - exists (mkCore (c_keypair c) (c_oplog c) (c_tree c) (c_bitfield c) (c_header c) (c_skip c - 1)), d, [].
      split; [reflexivity|]. split; [reflexivity|]. split; [apply ZInv_skip, X|]. split; [reflexivity|].
      split; [intros ->; discriminate Edec|].
      split; [|apply tcuts_nil].
      apply cuts_nil. split; [apply (ZInv_ZDisk cr c d bs cl X)|intros Hh; exact Hh].
  Qed.
End FlushZ.

(* ====================================================================================== *)
(* F. Logging one entry that carries a bitfield update; the torn entry write               *)
(* ====================================================================================== *)

Section LogZ.
  Variable cr : crypto.
  Hypothesis Hcrc : crc_ok cr.
  Hypothesis Hhash32 : forall x, length (cr_hash cr x) = 32%nat.
  Hypothesis Hnonblank : forall x, all_zero (cr_hash cr x) = false.
  Hypothesis Hhashbytes : forall x, bytes_ok (cr_hash cr x) = true.

  (* what a torn cut (k, t) of an append or a clear leaves: a disk that reopens to the state before or after
     the call — or, for the header slot write only, a CRC collision; the slot write needs tear_safe *)
  Definition QAZ (kp : keypair) (bs : list bytes) (cl : N -> bool) (dk : disk) (o : sop) (t : nat) (dkt : disk) : Prop :=
    tear_safe cr dk o t -> recoversZ cr kp dkt bs cl \/ (is_slot_write o = true /\ collision cr t).

  (* c2/d2: the state after the entry e has been written to the oplog and its update u applied to the
     bitfield in memory (header, tree and data store may have changed too, as described by YW for c2/d2) *)
  Lemma log_entry_ZInv c d bs cl batch e u o' fr c2 d2 cl' :
    ZInv cr c d bs cl ->
    e_bitfield e = Some u -> entry_ok e = true ->
    oplog_append cr (c_oplog c) e = Ok (o', [SW Oplog (ENTRIES_OFFSET + ol_entries_bytes (c_oplog c)) fr]) ->
    c_oplog c2 = o' -> c_keypair c2 = c_keypair c -> c_bitfield c2 = bf_apply (c_bitfield c) u ->
    d_oplog d2 = f_write (d_oplog d) (ENTRIES_OFFSET + ol_entries_bytes (c_oplog c)) fr ->
    d_tree d2 = d_tree d -> d_bitfield d2 = d_bitfield d ->
    YW cr c2 d2 (bs ++ batch) cl' ->
    (forall kf l, gchain cr bs kf l (N.of_nat (length bs)) ->
                  gchain cr (bs ++ batch) kf (l ++ [e]) (N.of_nat (length (bs ++ batch)))) ->
    hdr_desc' (c_keypair c) (c_header c2) (N.of_nat (length (bs ++ batch))) ->
    ZInv cr c2 d2 (bs ++ batch) cl' /\
    (hyg cr (f_content (d_oplog d)) -> hyg cr (f_content (d_oplog d2))).
  Proof.
    intros (W & Htok & s0 & s1 & body & st0 & st1 & hf & l & kf & Hcont & G & Hlen & Hbytes & Hhf & Hhc & Hch &
            Hstore & Hby & Hsync) He Hok OA Eo Ek Eb Edo Edt Edb W2 Hchain Hh2.
    pose proof W as (_ & Hbf & _).
    pose proof W2 as (_ & Hbf2 & _).
    set (n := N.of_nat (length bs)) in *. set (n' := N.of_nat (length (bs ++ batch))) in *.
    set (off := ENTRIES_OFFSET + ol_entries_bytes (c_oplog c)) in *.
    assert (Eol : c_oplog c = oo_oplog (stable_result (ol_bits (c_oplog c)) hf l)).
    { cbn [stable_result oo_oplog]. destruct (c_oplog c) as [bits el eb]. cbn [ol_bits ol_entries_len ol_entries_bytes] in *.
      rewrite Hlen, Hbytes. reflexivity. }
    assert (OA' : oplog_append cr (oo_oplog (stable_result (ol_bits (c_oplog c)) hf l)) e = Ok (o', [SW Oplog off fr]))
      by (rewrite <- Eol; exact OA).
    destruct (append_crash cr Hcrc s0 s1 body st0 st1 _ hf l e o' _ G Hok OA')
      as (fr' & Eops & _ & Cw & G' & _ & Eo' & _).
    injection Eops as Eoff <-.
    assert (Hupd : forall i, held n' cl' i = upd_fun (held n cl) u i).
    { intros i. rewrite <- Hbf2, Eb, bf_get_apply_fun. apply upd_fun_ext, Hbf. }
    destruct (good_slot_lengths cr _ _ _ _ _ _ _ _ G) as [L0s L1s].
    split.
    - split; [exact W2|]. split; [rewrite Edt; exact Htok|].
      rewrite Eo, Ek, Eb, Edo, Edt, Edb. fold n'.
      exists s0, s1, (body ++ fr), st0, st1, hf, (l ++ [e]), kf.
      split; [rewrite f_content_write, Hcont, Eoff; exact Cw|].
      split; [rewrite Eo'; exact G'|].
      split; [rewrite Eo'; reflexivity|]. split; [rewrite Eo'; reflexivity|].
      split; [exact Hhf|]. split; [exact Hh2|].
      split; [apply Hchain, Hch|].
      split.
      { intros dd0 o Hfull. rewrite (Hstore dd0 o Hfull). f_equal. symmetry. apply ref_node_app.
        pose proof (gchain_le cr bs l kf n Hch). fold n. lia. }
      split.
      { rewrite updates_of_app, (updates_of_single e u He). apply (BfZ_snoc _ _ _ _ n cl); assumption. }
      apply BfSyncZ_apply, Hsync.
    - rewrite Edo, f_content_write, Hcont, Eoff, Cw. intros Hh. apply (hyg_body cr s0 s1 body (body ++ fr) L0s L1s Hh).
  Qed.

  (* the entry write torn after t bytes: open ignores the partial frame and cuts it off; the state before *)
  Lemma torn_entry_recovers c d d1 bs cl e o' fr t :
    ZInv cr c d bs cl -> entry_ok e = true ->
    oplog_append cr (c_oplog c) e = Ok (o', [SW Oplog (ENTRIES_OFFSET + ol_entries_bytes (c_oplog c)) fr]) ->
    (t < length fr)%nat ->
    d_tree d1 = d_tree d -> d_bitfield d1 = d_bitfield d -> d_oplog d1 = d_oplog d ->
    DataY (d_data d1) bs cl ->
    recoversZ cr (c_keypair c)
      (d_set d1 Oplog (f_write (d_oplog d1) (ENTRIES_OFFSET + ol_entries_bytes (c_oplog c)) (firstn t fr))) bs cl.
  Proof.
    intros (W & Htok & s0 & s1 & body & st0 & st1 & hf & l & kf & Hcont & G & Hlen & Hbytes & Hhf & Hhc & Hch &
            Hstore & Hby & Hsync) Hok OA Ht Et Eb Eo Hd1.
    pose proof W as ((_ & _ & _ & _ & _ & _ & Hs & Hn) & _).
    set (off := ENTRIES_OFFSET + ol_entries_bytes (c_oplog c)) in *.
    assert (Eol : c_oplog c = oo_oplog (stable_result (ol_bits (c_oplog c)) hf l)).
    { cbn [stable_result oo_oplog]. destruct (c_oplog c) as [bits el eb]. cbn [ol_bits ol_entries_len ol_entries_bytes] in *.
      rewrite Hlen, Hbytes. reflexivity. }
    assert (OA' : oplog_append cr (oo_oplog (stable_result (ol_bits (c_oplog c)) hf l)) e = Ok (o', [SW Oplog off fr]))
      by (rewrite <- Eol; exact OA).
    destruct (append_crash cr Hcrc s0 s1 body st0 st1 _ hf l e o' _ G Hok OA')
      as (fr' & Eops & _ & _ & _ & _ & _ & Torn).
    injection Eops as Eoff <-.
    destruct (Torn t Ht) as [To Tc].
    destruct (good_slot_lengths cr _ _ _ _ _ _ _ _ G) as [L0s L1s].
    set (d1t := d_set d1 Oplog (f_write (d_oplog d1) off (firstn t fr))).
    assert (Dt : d_tree d1t = d_tree d) by (rewrite <- Et; destruct d1; reflexivity).
    assert (Dd : d_data d1t = d_data d1) by (destruct d1; reflexivity).
    assert (Db : d_bitfield d1t = d_bitfield d) by (rewrite <- Eb; destruct d1; reflexivity).
    assert (Do : d_oplog d1t = f_write (d_oplog d) off (firstn t fr)) by (rewrite <- Eo; destruct d1; reflexivity).
    assert (Ec : f_content (d_oplog d1t) = c_write (s0 ++ s1 ++ body) (len (s0 ++ s1 ++ body)) (firstn t fr)).
    { rewrite Do, f_content_write, Hcont, Eoff. reflexivity. }
    rewrite <- Ec in To. cbn [stable_result oo_oplog] in To.
    destruct (N.ltb_spec 0 (N.of_nat t)) as [Lt|Lt].
    - set (d1r := d_set d1t Oplog (f_truncate (d_oplog d1t) (len (s0 ++ s1 ++ body)))).
      apply (reopen_after_repair_Z cr Hhash32 Hnonblank Hhashbytes (c_keypair c) d1t d1r bs cl s0 s1 body st0 st1 _ hf l kf _ Hs Hn To);
        try (destruct d1t; reflexivity); try (rewrite ?Dt, ?Dd, ?Db; assumption).
      + replace (d_oplog d1r) with (f_truncate (d_oplog d1t) (len (s0 ++ s1 ++ body))) by (destruct d1t; reflexivity).
        rewrite f_content_truncate, Ec. exact Tc.
      + replace (d_oplog d1r) with (f_truncate (d_oplog d1t) (len (s0 ++ s1 ++ body))) by (destruct d1t; reflexivity).
        rewrite f_content_truncate, Ec, Tc, c_write_end, <- !app_assoc.
        apply (hyg_body cr s0 s1 (body ++ firstn t fr) body L0s L1s).
    - assert (t = 0%nat) as -> by lia.
      apply (reopen_after_repair_Z cr Hhash32 Hnonblank Hhashbytes (c_keypair c) d1t d1t bs cl s0 s1 body st0 st1 _ hf l kf _ Hs Hn To);
        try reflexivity; try (rewrite ?Dt, ?Dd, ?Db; assumption); [|intros Hh; exact Hh].
      rewrite Ec. cbn [firstn]. rewrite c_write_end, app_nil_r. reflexivity.
  Qed.
End LogZ.

(* ====================================================================================== *)
(* G. core_clear from a ZInv state: result, clean cuts, torn cuts                          *)
(* ====================================================================================== *)

Section ClearZ.
  Variable cr : crypto.
  Hypothesis Hcrc : crc_ok cr.
  Hypothesis Hhash32 : forall x, length (cr_hash cr x) = 32%nat.
  Hypothesis Hnonblank : forall x, all_zero (cr_hash cr x) = false.
  Hypothesis Hhashbytes : forall x, bytes_ok (cr_hash cr x) = true.

  (* clear(start, end_) with start < end_ (end_ possibly beyond the length, a u64), start < length, for every
     flush decision, from a ZInv state.  The journal: the oplog entry write (the commit point), the delete of the
     hole in the data store (when there is one), the flush group (bitfield pages, tree nodes, header slot write,
     truncate).  Every clean cut is a crash disk of the state before (k = 0) or after (k >= 1) the clear; every
     write torn at every byte leaves a disk that reopens to the state before (the entry write) or after it. *)
  Theorem clear_Z f c d j ev bs cl start end_ :
    let n := N.of_nat (length bs) in
    ZInv cr c d bs cl -> start < n -> start < end_ -> end_ <= u64_max ->
    exists c' d' delta,
      core_clear cr f start end_ c (mkWorld d j ev) = (c', mkWorld d' (rev delta ++ j) ev, Ok tt) /\
      apply_sops d delta = Some d' /\
      ZInv cr c' d' bs (cl_clear cl start end_) /\ c_keypair c' = c_keypair c /\
      (f = Some true -> hyg cr (f_content (d_oplog d'))) /\
      (exists fr rest, delta = SW Oplog (ENTRIES_OFFSET + ol_entries_bytes (c_oplog c)) fr :: rest) /\
      (forall k, exists dk, apply_sops d (firstn k delta) = Some dk /\
         ZDisk cr (c_keypair c) dk bs (if (k <? 1)%nat then cl else cl_clear cl start end_) /\
         (hyg cr (f_content (d_oplog d)) -> hyg cr (f_content (d_oplog dk)))) /\
      (forall k o t, nth_error delta k = Some o -> (t < wlen o)%nat ->
         exists dk dkt, apply_sops d (firstn k delta) = Some dk /\ apply_sop dk (tear o t) = Some dkt /\
                        QAZ cr (c_keypair c) bs (if (k <? 1)%nat then cl else cl_clear cl start end_) dk o t dkt).
  Proof.
    intros n X Hsn Hse Hend.
    destruct (core_clear cr f start end_ c (mkWorld d j ev)) as [[c' w'] r] eqn:H.
    pose proof (ZInv_YW cr c d bs cl X) as W.
    assert (Hhc : hdr_desc' (c_keypair c) (c_header c) n).
    { destruct X as (_ & _ & s0 & s1 & body & st0 & st1 & hf & l & kf & _ & _ & _ & _ & _ & Hhc & _). exact Hhc. }
    pose proof W as (T & Hbf & Hcg & Hd).
    pose proof T as (HL & HB & HF & HR & Hlook & Hun & Hs & Hn).
    unfold core_clear in H.
    destruct (N.leb_spec end_ start) as [L|_]; [lia|].
    rewrite mbind_get_core in H. cbv zeta in H. rewrite mbind_lift in H.
    destruct (clear_entry_logged cr (c_oplog c) start (end_ - start)) as (o' & fr & OA). rewrite OA in H.
    cbv iota in H.
    rewrite mbind_put_oplog, mbind_emit_SW, mbind_put_bitfield, mbind_cond_header in H.
    cbn [c_keypair c_oplog c_tree c_bitfield c_header c_skip w_disk w_journal w_events d_get] in H.
    rewrite mbind_get_disk in H. cbn [w_disk] in H.
    set (cl' := cl_clear cl start end_).
    set (u := mkBfUpdate true start (end_ - start)) in *.
    set (e := mkEntry [] None (Some u)) in *.
    set (b' := bf_set_range (c_bitfield c) start (end_ - start) false) in *.
    set (off := ENTRIES_OFFSET + ol_entries_bytes (c_oplog c)) in *.
    set (d1 := d_set d Oplog (f_write (d_oplog d) off fr)) in *.
    assert (Dt : d_tree d1 = d_tree d) by (destruct d; reflexivity).
    assert (Dd : d_data d1 = d_data d) by (destruct d; reflexivity).
    assert (Db : d_bitfield d1 = d_bitfield d) by (destruct d; reflexivity).
    assert (Do : d_oplog d1 = f_write (d_oplog d) off fr) by (destruct d; reflexivity).
    assert (Hb' : forall i, bf_get b' i = held n cl' i).
    { intros i. unfold b'. rewrite bf_get_set_range, Hbf. unfold held, cl', cl_clear.
      replace (start + (end_ - start)) with end_ by lia.
      destruct ((start <=? i) && (i <? end_)); [rewrite orb_true_r; cbn [negb]; rewrite andb_false_r; reflexivity|].
      rewrite orb_false_r. reflexivity. }
    assert (Hcl' : forall i, start <= i -> i < end_ -> cl' i = true).
    { intros i A B. unfold cl', cl_clear. assert ((start <=? i) && (i <? end_) = true) as -> by lia.
      apply orb_true_r. }
    assert (Hsub : forall i, held n cl' i = true -> held n cl i = true).
    { intros i. unfold held, cl', cl_clear. destruct (i <? n); [|intros E; exact E]. cbn [andb].
      destruct (cl i); [intros E; exact E|reflexivity]. }
    pose proof (hole_bounds b' n start end_ cl' Hb' Hsn Hse Hcl') as HB'. cbv zeta in HB'. fold n in HL.
    rewrite HL in H.
    set (s' := match bf_last_index_of_true b' start with Some i => i + 1 | None => 0 end) in *.
    set (e' := match bf_index_of_true b' end_ with Some i => i | None => n end) in *.
    destruct HB' as (B1 & B2 & B3 & B4 & B5).
    rewrite Dt in H.
    rewrite mbind_lift, (byte_offset_tinv cr (c_tree c) (d_tree d) bs s' T) in H by (fold n; lia).
    rewrite mbind_lift in H. unfold sub64 at 1 in H.
    destruct (N.leb_spec 1 e') as [_|L]; [|lia].
    rewrite mbind_lift, (byte_range_tinv cr (c_tree c) (d_tree d) bs (e' - 1) T) in H by (fold n; lia).
    cbv iota in H.
    assert (Pe : prefix_size bs (e' - 1) + len (nth (N.to_nat (e' - 1)) bs []) = prefix_size bs e').
    { change (nth (N.to_nat (e' - 1)) bs []) with (blk bs (e' - 1)). rewrite <- prefix_size_succ. f_equal. lia. }
    rewrite Pe in H. rewrite mbind_lift in H. unfold sub64 in H.
    pose proof (prefix_size_mono bs s' e' ltac:(lia)) as Pm.
    destruct (N.leb_spec (prefix_size bs s') (prefix_size bs e')) as [_|L]; [|lia].
    (* the state after the entry write satisfies the invariant for the larger cleared set *)
    match type of H with
    | mbind _ _ ?c2 _ = _ => assert (W2 : YW cr c2 d1 bs cl'); [|set (c2' := c2) in *]
    end.
    { unfold YW. cbv zeta. cbn [c_tree c_bitfield c_header]. rewrite Dt, Dd. fold n.
      split; [exact T|]. split; [exact Hb'|]. split.
      - destruct Hcg as [G1 G2]. destruct (N.ltb_spec start (hd_contig (c_header c))) as [A|A].
        + cbn [set_contig hd_contig]. split.
          * intros i Hi. unfold b'. rewrite bf_get_set_range.
            assert ((start <=? i) && (i <? start + (end_ - start)) = false) as -> by lia. apply G1. lia.
          * unfold b'. rewrite bf_get_set_range.
            assert ((start <=? start) && (start <? start + (end_ - start)) = true) as -> by lia. reflexivity.
        + split.
          * intros i Hi. unfold b'. rewrite bf_get_set_range.
            assert ((start <=? i) && (i <? start + (end_ - start)) = false) as -> by lia. apply G1. lia.
          * unfold b'. rewrite bf_get_set_range.
            destruct ((start <=? hd_contig (c_header c)) && (hd_contig (c_header c) <? start + (end_ - start)));
              [reflexivity|exact G2].
      - apply (DataY_sub _ _ cl); [exact Hsub|exact Hd]. }
    assert (Hn64 : n <= u64_max) by (unfold NODE_SIZE in Hn; fold n in Hn; lia).
    assert (Hcd : cdesc e).
    { exists start, (end_ - start). split; [reflexivity|]. split; [lia|]. split; lia. }
    assert (Heok : entry_ok e = true) by (apply cdesc_entry_ok, Hcd).
    assert (F2h : ZInv cr c2' d1 (bs ++ []) cl' /\ (hyg cr (f_content (d_oplog d)) -> hyg cr (f_content (d_oplog d1)))).
    { apply (log_entry_ZInv cr Hcrc Hhash32 Hnonblank Hhashbytes c d bs cl [] e u o' fr c2' d1 cl' X);
        try reflexivity; try assumption.
      - rewrite app_nil_r. exact W2.
      - intros kf0 l0 Hch0. rewrite app_nil_r. apply gchain_snoc_clear; assumption.
      - rewrite app_nil_r. fold n. unfold c2'. cbn [c_header].
        destruct (start <? hd_contig (c_header c)); [|exact Hhc]. apply hdr_desc'_contig; [exact Hhc|lia]. }
    destruct F2h as [F2 Hh1]. rewrite app_nil_r in F2.
    assert (K2 : c_keypair c2' = c_keypair c) by reflexivity.
    assert (XD0 : ZDisk cr (c_keypair c) d bs cl) by (apply (ZInv_ZDisk cr c d bs cl X)).
    assert (XD1 : ZDisk cr (c_keypair c) d1 bs cl') by (rewrite <- K2; apply (ZInv_ZDisk cr c2' d1 bs cl' F2)).
    (* the torn entry write *)
    assert (TornE : forall t, (t < length fr)%nat ->
              recoversZ cr (c_keypair c) (d_set d Oplog (f_write (d_oplog d) off (firstn t fr))) bs cl).
    { intros t Ht. apply (torn_entry_recovers cr Hcrc Hhash32 Hnonblank Hhashbytes c d d bs cl e o' fr t X Heok OA Ht);
        try reflexivity. exact Hd. }
    rewrite Dd in H.
    destruct ((0 <? prefix_size bs e' - prefix_size bs s') && (prefix_size bs s' <? f_len (d_data d))) eqn:Gd.
    - (* a delete is issued; it starts inside the store *)
      destruct (f_del_some (d_data d) (prefix_size bs s') (prefix_size bs e' - prefix_size bs s') ltac:(lia))
        as [f' Edel].
      rewrite (mbind_emit_SD_some Data _ _ f') in H by (cbn [w_disk d_get]; rewrite Dd; exact Edel).
      cbn [w_disk w_journal w_events] in H.
      destruct W2 as (T2 & Hbf2 & Hcg2 & Hd2). rewrite Dd in Hd2.
      pose proof (del_hole_preserves_Y bs cl' s' e' (d_data d) f' ltac:(lia) B4 Hd2 Edel) as Hd3.
      set (d2 := d_set d1 Data f') in *.
      assert (F3 : ZInv cr c2' d2 bs cl').
      { apply (ZInv_data cr c2' d1 d2 bs cl' F2); try (destruct d1; reflexivity).
        assert (d_data d2 = f') as -> by (destruct d1; reflexivity). exact Hd3. }
      assert (O2 : d_oplog d2 = d_oplog d1) by (destruct d1; reflexivity).
      assert (XD2 : ZDisk cr (c_keypair c) d2 bs cl') by (rewrite <- K2; apply (ZInv_ZDisk cr c2' d2 bs cl' F3)).
      match type of H with maybe_flush _ _ _ (mkWorld _ ?j2 _) = _ =>
        destruct (maybe_flush_Z cr Hcrc Hhash32 Hnonblank f c2' d2 j2 ev bs cl' F3)
          as (c3 & d3 & fl & E & A3 & X3 & K3 & Hh3 & C3 & T3)
      end.
      rewrite E in H. injection H as <- <- <-.
      set (sd := SD Data (prefix_size bs s') (prefix_size bs e' - prefix_size bs s')) in *.
      exists c3, d3, (SW Oplog off fr :: sd :: fl).
      split. { cbn [rev]. rewrite <- !app_assoc. reflexivity. }
      assert (Asd : apply_sop d1 sd = Some d2).
      { unfold sd. cbn [apply_sop d_get]. rewrite Dd, Edel. reflexivity. }
      split. { cbn [apply_sops apply_sop d_get]. fold d1. rewrite Asd. exact A3. }
      split; [exact X3|]. split; [rewrite K3; exact K2|]. split; [exact Hh3|].
      split; [exists fr; eexists; reflexivity|].
      split.
      + intros k0. destruct k0 as [|[|k0]].
        * exists d. split; [reflexivity|]. split; [exact XD0|intros Hh; exact Hh].
        * exists d1. split; [reflexivity|]. split; [exact XD1|exact Hh1].
        * destruct (C3 k0) as (dk & Ak & Xk & Hk3). exists dk. split.
          -- cbn [firstn apply_sops apply_sop d_get]. fold d1. rewrite Asd. exact Ak.
          -- split; [change (ZDisk cr (c_keypair c) dk bs cl'); rewrite <- K2; exact Xk|].
             intros Hh. apply Hk3. rewrite O2. apply Hh1, Hh.
      + intros k0 o t Hk0 Ht. destruct k0 as [|[|k0]].
        * cbn [nth_error] in Hk0. injection Hk0 as <-. cbn [wlen] in Ht.
          exists d. eexists. split; [reflexivity|]. split; [reflexivity|]. intros _. left.
          cbn [d_get]. apply TornE, Ht.
        * cbn [nth_error] in Hk0. injection Hk0 as <-. cbn [wlen sd] in Ht. lia.
        * cbn [nth_error] in Hk0.
          destruct (T3 k0 o t Hk0 ltac:(lia)) as (dk & dkt & Ak & At & Q).
          exists dk, dkt. split; [cbn [firstn apply_sops apply_sop d_get]; fold d1; rewrite Asd; exact Ak|]. split; [exact At|].
          intros Hsafe. change ((S (S k0) <? 1)%nat) with false. cbv iota.
          destruct (Q Hsafe) as [Yd|Cl]; [left|right; exact Cl].
          apply (ZDisk_recovers cr Hcrc Hhash32 Hnonblank Hhashbytes). rewrite <- K2. exact Yd.
    - (* no delete is issued: the data store is unchanged *)
      rewrite mbind_ret in H.
      match type of H with maybe_flush _ _ _ (mkWorld _ ?j2 _) = _ =>
        destruct (maybe_flush_Z cr Hcrc Hhash32 Hnonblank f c2' d1 j2 ev bs cl' F2)
          as (c3 & d3 & fl & E & A3 & X3 & K3 & Hh3 & C3 & T3)
      end.
      rewrite E in H. injection H as <- <- <-.
      exists c3, d3, (SW Oplog off fr :: fl).
      split. { cbn [rev]. rewrite <- !app_assoc. reflexivity. }
      split. { cbn [apply_sops apply_sop d_get]. exact A3. }
      split; [exact X3|]. split; [rewrite K3; exact K2|]. split; [exact Hh3|].
      split; [exists fr; eexists; reflexivity|].
      split.
      + intros k0. destruct k0 as [|k0].
        * exists d. split; [reflexivity|]. split; [exact XD0|intros Hh; exact Hh].
        * destruct (C3 k0) as (dk & Ak & Xk & Hk3). exists dk. split.
          -- cbn [firstn apply_sops apply_sop d_get]. exact Ak.
          -- split; [change (ZDisk cr (c_keypair c) dk bs cl'); rewrite <- K2; exact Xk|].
             intros Hh. apply Hk3, Hh1, Hh.
      + intros k0 o t Hk0 Ht. destruct k0 as [|k0].
        * cbn [nth_error] in Hk0. injection Hk0 as <-. cbn [wlen] in Ht.
          exists d. eexists. split; [reflexivity|]. split; [reflexivity|]. intros _. left.
          cbn [d_get]. apply TornE, Ht.
        * cbn [nth_error] in Hk0.
          destruct (T3 k0 o t Hk0 ltac:(lia)) as (dk & dkt & Ak & At & Q).
          exists dk, dkt. split; [cbn [firstn apply_sops apply_sop d_get]; exact Ak|]. split; [exact At|].
          intros Hsafe. change ((S k0 <? 1)%nat) with false. cbv iota.
          destruct (Q Hsafe) as [Yd|Cl]; [left|right; exact Cl].
          apply (ZDisk_recovers cr Hcrc Hhash32 Hnonblank Hhashbytes). rewrite <- K2. exact Yd.
  Qed.

  (* core_clear preserves ZInv, for every flush decision *)
  Theorem clear_ZInv f c d j ev bs cl start end_ c' w' r :
    let n := N.of_nat (length bs) in
    ZInv cr c d bs cl -> start < n -> start < end_ -> end_ <= u64_max ->
    core_clear cr f start end_ c (mkWorld d j ev) = (c', w', r) ->
    r = Ok tt /\ ZInv cr c' (w_disk w') bs (cl_clear cl start end_) /\ c_keypair c' = c_keypair c.
  Proof.
    intros n X Hsn Hse Hend H.
    destruct (clear_Z f c d j ev bs cl start end_ X Hsn Hse Hend) as (c1 & d1 & delta & E & _ & X1 & K1 & _).
    rewrite E in H. injection H as <- <- <-. split; [reflexivity|]. split; [exact X1|exact K1].
  Qed.
End ClearZ.

(* ====================================================================================== *)
(* H. core_append from a ZInv state (with clears): result, clean cuts, torn cuts           *)
(* ====================================================================================== *)

Section AppendZ.
  Variable cr : crypto.
  Hypothesis Hcrc : crc_ok cr.
  Hypothesis Hhash32 : forall x, length (cr_hash cr x) = 32%nat.
  Hypothesis Hnonblank : forall x, all_zero (cr_hash cr x) = false.
  Hypothesis Hhashbytes : forall x, bytes_ok (cr_hash cr x) = true.
  Hypothesis Hsig64 : forall sk m, length (cr_sign cr sk m) = 64%nat.
  Hypothesis Hsigbytes : forall sk m, bytes_ok (cr_sign cr sk m) = true.

  Lemma append_body_Z f batch c d j ev bs cl sk :
    ZInv cr c d bs cl -> batch <> [] ->
    sumN (map len (bs ++ batch)) <= u64_max ->
    NODE_SIZE * (2 * N.of_nat (length (bs ++ batch))) <= u64_max ->
    (* the entry does not fit a 30-bit frame: the call panics after the data write; memory is untouched
       and the disk is still a disk of the old state; so is the disk after any prefix of the data write *)
    (exists d1,
       append_body cr f batch sk c c (mkWorld d j ev) =
         (c, mkWorld d1 (SW Data (t_byte_length (c_tree c)) (concat batch) :: j) ev, Panic frame_msg) /\
       apply_sops d [SW Data (t_byte_length (c_tree c)) (concat batch)] = Some d1 /\
       ZDisk cr (c_keypair c) d1 bs cl /\
       forall t, exists d1t, apply_sop d (tear (SW Data (t_byte_length (c_tree c)) (concat batch)) t) = Some d1t /\
                             ZDisk cr (c_keypair c) d1t bs cl) \/
    exists c' d' delta ev',
      append_body cr f batch sk c c (mkWorld d j ev) = (c', mkWorld d' (rev delta ++ j) ev', Ok tt) /\
      apply_sops d delta = Some d' /\
      ZInv cr c' d' (bs ++ batch) (cl_mask cl (N.of_nat (length bs))) /\ c_keypair c' = c_keypair c /\
      (f = Some true -> hyg cr (f_content (d_oplog d'))) /\
      (* the clean cuts: before the entry write (k = 0, 1) the old state, from it on (k >= 2) the new one *)
      (forall k, exists dk, apply_sops d (firstn k delta) = Some dk /\
                            (if (k <? 2)%nat then ZDisk cr (c_keypair c) dk bs cl
                             else ZDisk cr (c_keypair c) dk (bs ++ batch) (cl_mask cl (N.of_nat (length bs)))) /\
                            (hyg cr (f_content (d_oplog d)) -> hyg cr (f_content (d_oplog dk)))) /\
      (* the torn cuts *)
      (forall k o t, nth_error delta k = Some o -> (t < wlen o)%nat ->
         exists dk dkt, apply_sops d (firstn k delta) = Some dk /\ apply_sop dk (tear o t) = Some dkt /\
                        if (k <? 2)%nat then QAZ cr (c_keypair c) bs cl dk o t dkt
                        else QAZ cr (c_keypair c) (bs ++ batch) (cl_mask cl (N.of_nat (length bs))) dk o t dkt).
  Proof.
    intros X Hne Hfit Hidx.
    destruct (append_body cr f batch sk c c (mkWorld d j ev)) as [[c' w'] r] eqn:H.
    pose proof X as (W & Htok & s0 & s1 & body & st0 & st1 & hf & l & kf & Hcont & G & Hlen & Hbytes & Hhf & Hhc & Hch &
                     Hstore & Hby & Hsync).
    pose proof W as ((HL & HB & HF & HR & Hlook & Hun & Hs & Hn) & Hbf & Hcg & Hd).
    set (B := bs ++ batch) in *. set (n := N.of_nat (length bs)) in *.
    set (k := N.of_nat (length batch)).
    assert (Hk : 0 < k) by (destruct batch; [congruence|unfold k; cbn [length]; lia]).
    assert (HlenB : N.of_nat (length B) = n + k) by (unfold B, n, k; rewrite app_length; lia).
    assert (HsumB : sumN (map len B) = sumN (map len bs) + sumN (map len batch))
      by (unfold B; rewrite map_app; apply TreeRef.sumN_app).
    set (cs0 := tree_changeset (c_tree c)) in *.
    assert (R0 : cs_roots cs0 = ref_roots cr B n).
    { unfold cs0, B. cbn [tree_changeset cs_roots]. rewrite HR. symmetry. apply ref_roots_app. unfold n. lia. }
    assert (L0 : cs_length cs0 = n) by exact HL.
    assert (Hblk : forall i, (i < length batch)%nat -> nth i batch [] = blk B (n + N.of_nat i))
      by (intros i Hi; apply batch_blk, Hi).
    destruct (cs_append_all_no_panic cr B Hfit batch cs0 n R0 L0 Hblk) as [cs1 Hcs].
    { unfold cs0. cbn [tree_changeset cs_byte_length]. rewrite HB. lia. }
    destruct (cs_append_all_ref cr B batch cs0 cs1 n R0 L0 Hblk Hcs)
      as (R1 & L1 & B1 & BL1 & A1 & F1 & U1 & Sound1).
    destruct (cs_append_all_complete cr B batch cs0 cs1 n R0 L0 Hblk Hcs) as (_ & OL1 & OF1 & Compl1).
    assert (Hn64 : n + k <= 2 ^ 64).
    { rewrite HlenB in Hidx. unfold NODE_SIZE, u64_max in Hidx. change (2 ^ 64) with 18446744073709551616. lia. }
    destruct (cs_append_all_shape cr B batch cs0 cs1 n R0 L0 Hblk Hn64 Hcs) as (new & Enew & Lnew & Shape1).
    unfold cs0 in B1, BL1, A1, F1, OL1, OF1, Sound1, Enew.
    cbn [tree_changeset cs_byte_length cs_batch_length cs_ancestors cs_fork cs_orig_length cs_orig_fork cs_nodes
         cs_rnodes rev_append] in B1, BL1, A1, F1, OL1, OF1, Sound1, Enew.
    rewrite app_nil_r in Enew.
    assert (Sound : forall x, In x (cs_nodes cs1) -> x = ref_at cr B (n_index x)).
    { intros x Hx. destruct (Sound1 x Hx) as [[]|E]. exact E. }
    assert (Shape : forall x, In x (cs_nodes cs1) -> exists jj q, x = ref_node cr B jj q /\ (q + 1) * p2 jj <= n + k).
    { intros x Hx. apply in_cs_nodes in Hx. rewrite Enew in Hx.
      destruct (Shape1 x Hx) as (jj & q & -> & _ & Q2). exists jj, q. split; [reflexivity|exact Q2]. }
    unfold append_body in H. rewrite mbind_lift in H. fold cs0 in H. rewrite Hcs in H. cbv zeta in H.
    rewrite mbind_emit_SW in H. cbn [w_disk w_journal w_events d_get] in H.
    set (cs := cs_hash_and_sign cr cs1 sk) in *.
    set (bu := mkBfUpdate false (cs_ancestors cs) (cs_batch_length cs)) in *.
    assert (Hbu : bu = mkBfUpdate false n k).
    { unfold bu, cs, cs_hash_and_sign, cs_set_hash_sig. cbn [cs_ancestors cs_batch_length].
      rewrite A1, BL1, HL. f_equal; lia. }
    assert (P1 : cs_upgraded cs = true).
    { unfold cs, cs_hash_and_sign, cs_set_hash_sig. cbn [cs_upgraded]. apply U1, Hne. }
    assert (P5 : cs_orig_fork cs = t_fork (c_tree c)).
    { unfold cs, cs_hash_and_sign, cs_set_hash_sig. cbn [cs_orig_fork]. exact OF1. }
    assert (P6 : cs_orig_length cs = t_length (c_tree c)).
    { unfold cs, cs_hash_and_sign, cs_set_hash_sig. cbn [cs_orig_length]. exact OL1. }
    assert (P7 : cs_ancestors cs = t_length (c_tree c)).
    { unfold cs, cs_hash_and_sign, cs_set_hash_sig. cbn [cs_ancestors]. exact A1. }
    set (hash := cs_tree_hash cr cs1) in *.
    set (sg := cr_sign cr sk (cs_signable cs1 hash)) in *.
    assert (Ecs : cs_nodes cs = cs_nodes cs1 /\ cs_fork cs = 0 /\ cs_length cs = n + k /\
                  cs_roots cs = ref_roots cr B (n + k) /\ cs_byte_length cs = sumN (map len B) /\
                  cs_hash cs = Some hash /\ cs_signature cs = Some sg).
    { unfold cs, cs_hash_and_sign, cs_set_hash_sig.
      cbn [cs_nodes cs_rnodes cs_fork cs_length cs_roots cs_byte_length cs_hash cs_signature].
      fold (cs_nodes cs1). rewrite F1, HF, L1, R1, B1, HB, HsumB. repeat split; reflexivity. }
    destruct Ecs as (EN & EF & EL & ER & EB & EH & ES).
    set (e := mkEntry (cs_nodes cs) (Some (mkTreeUpgrade (cs_fork cs) (cs_ancestors cs) (cs_length cs) sg)) (Some bu)).
    assert (Ee : e = mkEntry (cs_nodes cs1) (Some (mkTreeUpgrade 0 n (n + k) sg)) (Some (mkBfUpdate false n (n + k - n)))).
    { unfold e. rewrite EN, EF, EL, P7, HL, Hbu. replace (n + k - n) with k by lia. reflexivity. }
    assert (Heok : entry_ok e = true).
    { rewrite Ee. apply (append_entry_ok cr Hhash32 Hhashbytes B); try assumption.
      - rewrite <- HlenB. exact Hidx.
      - lia.
      - rewrite length_cs_nodes, Enew. replace (n + k - n) with k by lia. unfold k. lia.
      - apply Hsig64.
      - apply Hsigbytes. }
    assert (P4 : forall x, In x (e_nodes e) -> length (n_hash x) = 32%nat).
    { intros x Hx. unfold e in Hx. cbn [e_nodes] in Hx. rewrite EN in Hx. rewrite (Sound x Hx).
      apply ref_at_hash_length, Hhash32. }
    (* the data store after the write, whole or torn *)
    assert (XD0 : ZDisk cr (c_keypair c) d bs cl) by (apply (ZInv_ZDisk cr c d bs cl X)).
    set (offd := t_byte_length (c_tree c)) in *.
    assert (TornData : forall t, ZDisk cr (c_keypair c) (d_set d Data (f_write (d_data d) offd (firstn t (concat batch)))) bs cl).
    { intros t. apply (ZDisk_data cr (c_keypair c) d _ bs cl XD0); try (destruct d as [xt xd xb xo]; reflexivity).
      replace (d_data (d_set d Data (f_write (d_data d) offd (firstn t (concat batch)))))
        with (f_write (d_data d) offd (firstn t (concat batch))) by (destruct d as [xt xd xb xo]; reflexivity).
      rewrite HB. apply DataY_write_after, Hd. }
    set (fd := f_write (d_data d) offd (concat batch)) in *.
    set (d1 := d_set d Data fd) in *.
    (* the cut after the data write only: still the old state, with junk in the data store *)
    assert (XD1 : ZDisk cr (c_keypair c) d1 bs cl).
    { pose proof (TornData (length (concat batch))) as T. rewrite firstn_all in T. exact T. }
    destruct (oplog_append_cases cr (c_oplog c) e P4) as [OA|(o' & fr & OA)].
    { match type of H with
      | mbind (log_and_commit _ _ _) _ ?c0 ?w0 = _ =>
          pose proof (log_and_commit_panic cr cs bu c0 w0 hash sg frame_msg P1 EH ES OA) as E
      end.
      rewrite (mbind_panic _ _ _ _ _ _ _ E) in H. injection H as <- <- <-. left.
      exists d1. split; [reflexivity|]. split; [reflexivity|]. split; [exact XD1|].
      intros t. eexists. split; [reflexivity|]. apply TornData. }
    match type of H with
    | mbind (log_and_commit _ _ _) _ ?c0 ?w0 = _ =>
        pose proof (log_and_commit_detail cr cs bu c0 w0 hash sg o' _ fr P1 EH ES P5 P6 P7 OA) as E
    end.
    rewrite (mbind_eq _ _ _ _ _ _ _ E) in H. clear E.
    cbn [w_disk w_journal w_events] in H.
    rewrite EN, EF, EL, ER, EB in H.
    set (off := ENTRIES_OFFSET + ol_entries_bytes (c_oplog c)) in *.
    set (d2 := d_set d1 Oplog (f_write (d_oplog d1) off fr)) in *.
    (* the state after the commit satisfies the invariant for the longer list *)
    match type of H with
    | mbind (maybe_flush _ _) _ ?c2 (mkWorld _ ?j2 ?ev2) = _ =>
        assert (X2h : ZInv cr c2 d2 B (cl_mask cl n) /\ (hyg cr (f_content (d_oplog d)) -> hyg cr (f_content (d_oplog d2))));
          [|set (c2' := c2) in *]
    end.
    { assert (Tsame : d_tree d2 = d_tree d) by reflexivity.
      assert (Dsame : d_data d2 = fd) by reflexivity.
      assert (Bsame : d_bitfield d2 = d_bitfield d) by reflexivity.
      assert (Osame : d_oplog d2 = f_write (d_oplog d) off fr) by reflexivity.
      assert (GG : forall i, bf_get (bf_apply (c_bitfield c) bu) i = held (N.of_nat (length B)) (cl_mask cl n) i).
      { intros i. rewrite bf_get_apply, Hbu, HlenB. cbn [bu_start bu_length bu_drop negb]. rewrite Hbf.
        unfold held, cl_mask. fold n.
        destruct (N.leb_spec n i), (N.ltb_spec i (n + k)), (N.ltb_spec i n); cbn [andb];
          rewrite ?andb_false_r, ?andb_true_r; cbn [negb]; try reflexivity; lia. }
      assert (Hex2 : exact_contig (bf_apply (c_bitfield c) bu)
                                  (update_contig (hd_contig (c_header c)) (bf_apply (c_bitfield c) bu) bu)).
      { apply update_contig_exact; [exact Hcg|]. rewrite Hbu. cbn [bu_length]. exact Hk. }
      match goal with |- ZInv cr ?c2 ?d2 B _ /\ _ => assert (W2 : YW cr c2 d2 B (cl_mask cl n)) end.
      { unfold YW, TInv. cbv zeta. cbn [c_tree c_bitfield c_header t_length t_byte_length t_fork t_roots].
        rewrite Tsame, Dsame.
        split.
        { split; [symmetry; exact HlenB|].
          split; [reflexivity|].
          split; [reflexivity|].
          split; [rewrite HlenB; reflexivity|].
          split.
          { apply (commit_lookups cr Hnonblank bs batch (c_tree c) _ (d_tree d) (cs_nodes cs1)).
            - exact Sound.
            - intros jj q Q1 Q2. apply Compl1; [exact Q1|]. fold B in Q2. rewrite HlenB in Q2. exact Q2.
            - reflexivity.
            - exact Hlook. }
          split.
          { apply (commit_unflushed_ok cr Hhash32 B (c_tree c) _ (cs_nodes cs1) Hfit Sound); [reflexivity|exact Hun]. }
          split; [exact Hfit|exact Hidx]. }
        split; [exact GG|].
        split; [cbn [set_contig hd_contig]; exact Hex2|].
        unfold fd. rewrite HB. apply DataY_append, Hd. }
      apply (log_entry_ZInv cr Hcrc Hhash32 Hnonblank Hhashbytes c d bs cl batch e bu o' fr _ _ (cl_mask cl n) X);
        try reflexivity; try assumption.
      - intros kf0 l0 Hch0. apply (gchain_snoc_append cr B l0 kf0 n e).
        + apply gchain_app; [apply N.le_refl|exact Hch0].
        + fold B. rewrite HlenB. rewrite Ee. split; [lia|]. split.
          { exists sg. split; [reflexivity|]. split; [apply Hsig64|apply Hsigbytes]. }
          split; [reflexivity|]. cbn [e_nodes]. split; [exact Shape|].
          intros jj q Q1 Q2. apply Compl1; assumption.
      - cbn [c_header]. fold B. rewrite HlenB.
        destruct Hhc as (Hok & Hkp & Hfk & Hln & Hrh & Hsgc).
        apply (hdr_desc'_upd (c_keypair c) (c_header c) n _ (n + k) hash sg); try reflexivity.
        + repeat split; assumption.
        + cbn [set_contig set_tree hd_tree]. rewrite Hfk. reflexivity.
        + cbn [set_contig hd_contig].
          assert (update_contig (hd_contig (c_header c)) (bf_apply (c_bitfield c) bu) bu <= n + k); [|unfold NODE_SIZE in Hidx; lia].
          apply (fexact_le (bf_get (bf_apply (c_bitfield c) bu))); [|apply exact_contig_fexact, Hex2].
          intros i Hi. rewrite GG, HlenB in Hi. apply (held_lt _ _ _ Hi).
        + rewrite <- HlenB. unfold NODE_SIZE in Hidx. lia.
        + apply Hhash32.
        + apply Hhashbytes.
        + apply Hsig64.
        + apply Hsigbytes. }
    destruct X2h as [X2 Hh2].
    assert (K2 : c_keypair c2' = c_keypair c) by reflexivity.
    destruct (maybe_flush_Z cr Hcrc Hhash32 Hnonblank f c2' d2 (SW Oplog off fr :: SW Data offd (concat batch) :: j) ev B _ X2)
      as (c3 & d3 & fl & E & A3 & X3 & K3 & Hh3 & C3 & T3).
    rewrite (mbind_eq _ _ _ _ _ _ _ E) in H.
    rewrite !mbind_send in H. unfold send in H. cbn [w_disk w_journal w_events] in H.
    injection H as <- <- <-. right.
    exists c3, d3, (SW Data offd (concat batch) :: SW Oplog off fr :: fl). eexists.
    split.
    { cbn [rev]. rewrite <- !app_assoc. reflexivity. }
    split.
    { cbn [apply_sops apply_sop d_get]. exact A3. }
    split; [exact X3|]. split; [rewrite K3; exact K2|]. split; [exact Hh3|].
    split.
    { intros k0. destruct k0 as [|[|k0]].
      - exists d. split; [reflexivity|]. split; [exact XD0|intros Hh; exact Hh].
      - exists d1. split; [reflexivity|]. split; [exact XD1|intros Hh; exact Hh].
      - destruct (C3 k0) as (dk & Ak & Xk & Hk3). exists dk. split.
        + cbn [firstn apply_sops apply_sop d_get]. exact Ak.
        + split; [change (ZDisk cr (c_keypair c) dk B (cl_mask cl n)); rewrite <- K2; exact Xk|].
          intros Hh. apply Hk3, Hh2, Hh. }
    intros k0 o t Hk0 Ht. destruct k0 as [|[|k0]].
    - (* the torn data write: junk after the blocks *)
      cbn [nth_error] in Hk0. injection Hk0 as <-.
      exists d. eexists. split; [reflexivity|]. split; [reflexivity|]. intros _. left.
      apply (ZDisk_recovers cr Hcrc Hhash32 Hnonblank Hhashbytes). apply TornData.
    - (* the torn entry write: open ignores it and cuts it off *)
      cbn [nth_error] in Hk0. injection Hk0 as <-. cbn [wlen] in Ht.
      exists d1. eexists. split; [reflexivity|]. split; [reflexivity|]. intros _. left.
      cbn [tear apply_sop d_get].
      apply (torn_entry_recovers cr Hcrc Hhash32 Hnonblank Hhashbytes c d d1 bs cl e o' fr t X Heok OA Ht);
        try (destruct d as [xt xd xb xo]; reflexivity).
      destruct XD1 as (_ & _ & Hd1 & _). exact Hd1.
    - (* a torn write of the flush group *)
      cbn [nth_error] in Hk0.
      destruct (T3 k0 o t Hk0 ltac:(lia)) as (dk & dkt & Ak & At & Q).
      exists dk, dkt. split; [cbn [firstn apply_sops apply_sop d_get]; exact Ak|]. split; [exact At|].
      change ((S (S k0) <? 2)%nat) with false. cbv iota.
      intros Hsafe. destruct (Q Hsafe) as [Yd|Cl]; [left|right; exact Cl].
      apply (ZDisk_recovers cr Hcrc Hhash32 Hnonblank Hhashbytes). rewrite <- K2. exact Yd.
  Qed.

  (* the run of an append from a ZInv state: result, journal, final state, every clean cut, every torn cut *)
  Theorem append_Z f batch c d j ev bs cl sk :
    ZInv cr c d bs cl -> kp_secret (c_keypair c) = Some sk ->
    sumN (map len (bs ++ batch)) <= u64_max ->
    NODE_SIZE * (2 * N.of_nat (length (bs ++ batch))) <= u64_max ->
    (exists d1,
       core_append cr f batch c (mkWorld d j ev) =
         (c, mkWorld d1 (SW Data (t_byte_length (c_tree c)) (concat batch) :: j) ev, Panic frame_msg) /\
       apply_sops d [SW Data (t_byte_length (c_tree c)) (concat batch)] = Some d1 /\
       ZDisk cr (c_keypair c) d1 bs cl /\
       forall t, exists d1t, apply_sop d (tear (SW Data (t_byte_length (c_tree c)) (concat batch)) t) = Some d1t /\
                             ZDisk cr (c_keypair c) d1t bs cl) \/
    exists c' d' delta ev',
      core_append cr f batch c (mkWorld d j ev) =
        (c', mkWorld d' (rev delta ++ j) ev',
         Ok (N.of_nat (length (bs ++ batch)), sumN (map len (bs ++ batch)))) /\
      apply_sops d delta = Some d' /\
      ZInv cr c' d' (bs ++ batch) (cl_mask cl (N.of_nat (length bs))) /\ c_keypair c' = c_keypair c /\
      (f = Some true -> batch <> [] -> hyg cr (f_content (d_oplog d'))) /\
      (forall k, exists dk, apply_sops d (firstn k delta) = Some dk /\
                            (if (k <? 2)%nat then ZDisk cr (c_keypair c) dk bs cl
                             else ZDisk cr (c_keypair c) dk (bs ++ batch) (cl_mask cl (N.of_nat (length bs)))) /\
                            (hyg cr (f_content (d_oplog d)) -> hyg cr (f_content (d_oplog dk)))) /\
      (forall k o t, nth_error delta k = Some o -> (t < wlen o)%nat ->
         exists dk dkt, apply_sops d (firstn k delta) = Some dk /\ apply_sop dk (tear o t) = Some dkt /\
                        if (k <? 2)%nat then QAZ cr (c_keypair c) bs cl dk o t dkt
                        else QAZ cr (c_keypair c) (bs ++ batch) (cl_mask cl (N.of_nat (length bs))) dk o t dkt).
  Proof.
    intros X Hsk Hfit Hidx.
    unfold core_append. rewrite mbind_get_core, Hsk.
    destruct batch as [|b0 rest].
    - right. rewrite mbind_ret, mbind_get_core. unfold ret.
      exists c, d, [], ev. rewrite app_nil_r.
      pose proof (ZInv_YW cr c d bs cl X) as ((HL & HB & _) & _). rewrite HL, HB.
      assert (E : forall i, i < N.of_nat (length bs) -> cl_mask cl (N.of_nat (length bs)) i = cl i)
        by (intros i Hi; apply cl_mask_below, Hi).
      split; [reflexivity|]. split; [reflexivity|].
      split; [apply (ZInv_cl_ext cr c d bs cl _ E X)|]. split; [reflexivity|].
      split; [intros _ Hne; congruence|].
      split.
      + intros k. exists d. rewrite firstn_nil. split; [reflexivity|]. split; [|intros Hh; exact Hh].
        pose proof (ZInv_ZDisk cr c d bs cl X) as XD.
        destruct (k <? 2)%nat; [exact XD|apply (ZDisk_cl_ext cr _ d bs cl _ E XD)].
      + intros k o t Hk. destruct k; discriminate Hk.
    - cbv iota. fold (append_body cr f (b0 :: rest) sk c).
      destruct (append_body_Z f (b0 :: rest) c d j ev bs cl sk X ltac:(discriminate) Hfit Hidx)
        as [(d1 & E & A & XD & TD)|(c1 & d1 & delta & ev1 & E & A & X1 & K1 & Hh1 & C1 & T1)].
      + left. rewrite (mbind_panic _ _ _ _ _ _ _ E). exists d1. split; [reflexivity|]. split; [exact A|]. split; [exact XD|exact TD].
      + right. rewrite (mbind_eq _ _ _ _ _ _ _ E), mbind_get_core. unfold ret.
        pose proof (ZInv_YW cr _ _ _ _ X1) as ((HL & HB & _) & _). rewrite HL, HB.
        exists c1, d1, delta, ev1.
        split; [reflexivity|]. split; [exact A|]. split; [exact X1|]. split; [exact K1|].
        split; [intros Hf _; exact (Hh1 Hf)|]. split; [exact C1|exact T1].
  Qed.

  (* core_append preserves ZInv, for every flush decision *)
  Theorem append_ZInv f batch c d j ev bs cl sk c' w' r :
    ZInv cr c d bs cl -> kp_secret (c_keypair c) = Some sk ->
    sumN (map len (bs ++ batch)) <= u64_max ->
    NODE_SIZE * (2 * N.of_nat (length (bs ++ batch))) <= u64_max ->
    core_append cr f batch c (mkWorld d j ev) = (c', w', r) ->
    r = Panic frame_msg \/
    (r = Ok (N.of_nat (length (bs ++ batch)), sumN (map len (bs ++ batch))) /\
     ZInv cr c' (w_disk w') (bs ++ batch) (cl_mask cl (N.of_nat (length bs))) /\ c_keypair c' = c_keypair c).
  Proof.
    intros X Hsk Hfit Hidx H.
    destruct (append_Z f batch c d j ev bs cl sk X Hsk Hfit Hidx)
      as [(d1 & E & _)|(c1 & d1 & delta & ev1 & E & A & X1 & K1 & C1)]; rewrite E in H; injection H as <- <- <-.
    - left. reflexivity.
    - right. split; [reflexivity|]. split; [exact X1|exact K1].
  Qed.
End AppendZ.

(* ====================================================================================== *)
(* I. The cut theorems: die inside a clear or an append — between two operations or in the  *)
(*    middle of a write — and reopen                                                        *)
(* ====================================================================================== *)

Section TornZ.
  Variable cr : crypto.
  Hypothesis Hcrc : crc_ok cr.
  Hypothesis Hhash32 : forall x, length (cr_hash cr x) = 32%nat.
  Hypothesis Hnonblank : forall x, all_zero (cr_hash cr x) = false.
  Hypothesis Hhashbytes : forall x, bytes_ok (cr_hash cr x) = true.
  Hypothesis Hsig64 : forall sk m, length (cr_sign cr sk m) = 64%nat.
  Hypothesis Hsigbytes : forall sk m, bytes_ok (cr_sign cr sk m) = true.

  (* the clean cuts of a clear (C02 for ZInv states) *)
  Theorem clear_cut_recovers_Z f c d j ev bs cl start end_ c' w' r delta :
    let n := N.of_nat (length bs) in
    ZInv cr c d bs cl -> start < n -> start < end_ -> end_ <= u64_max ->
    core_clear cr f start end_ c (mkWorld d j ev) = (c', w', r) ->
    w_journal w' = rev delta ++ j ->
    r = Ok tt /\
    forall k, exists dk,
      apply_sops d (firstn k delta) = Some dk /\
      recoversZ cr (c_keypair c) dk bs (if (k <? 1)%nat then cl else cl_clear cl start end_).
  Proof.
    intros n X Hsn Hse Hend H Hj.
    destruct (clear_Z cr Hcrc Hhash32 Hnonblank Hhashbytes f c d j ev bs cl start end_ X Hsn Hse Hend)
      as (c1 & d1 & delta0 & E & A & X1 & K1 & _ & _ & C1 & _).
    rewrite E in H. injection H as <- <- <-. split; [reflexivity|]. intros k.
    cbn [w_journal] in Hj. apply journal_unique in Hj. subst delta0.
    destruct (C1 k) as (dk & Ak & XD & _). exists dk. split; [exact Ak|].
    apply (ZDisk_recovers cr Hcrc Hhash32 Hnonblank Hhashbytes), XD.
  Qed.

  (* C07 for a CLEAR.  The process dies during the k-th operation of the journal of a clear, a write of [data]
     to store [s] at [off], after only the first t < length data bytes reached the store (the delete of the hole
     and the truncate are not writes).  The disk reached reopens, to the invariant for the state before the call
     (k = 0: the oplog entry write) or for the state after it (k >= 1: a bitfield page, a tree node, the header
     slot of the flush group) — except that a torn HEADER SLOT write may instead exhibit two byte strings with the
     same CRC-32, and needs the side condition tear_safe of TornCoreB (a tear within the CRC field of a slot that
     was already invalid needs that slot to be dead; trivially true for every other write). *)
  Theorem clear_torn_recovers f c d j ev bs cl start end_ c' w' r delta :
    let n := N.of_nat (length bs) in
    ZInv cr c d bs cl -> start < n -> start < end_ -> end_ <= u64_max ->
    core_clear cr f start end_ c (mkWorld d j ev) = (c', w', r) ->
    w_journal w' = rev delta ++ j ->
    r = Ok tt /\
    forall k s off data t, nth_error delta k = Some (SW s off data) -> (t < length data)%nat ->
      exists dk dkt,
        apply_sops d (firstn k delta) = Some dk /\
        apply_sop dk (tear (SW s off data) t) = Some dkt /\
        (tear_safe cr dk (SW s off data) t ->
         recoversZ cr (c_keypair c) dkt bs (if (k <? 1)%nat then cl else cl_clear cl start end_) \/
         (s = Oplog /\ off < ENTRIES_OFFSET /\ collision cr t)).
  Proof.
    intros n X Hsn Hse Hend H Hj.
    destruct (clear_Z cr Hcrc Hhash32 Hnonblank Hhashbytes f c d j ev bs cl start end_ X Hsn Hse Hend)
      as (c1 & d1 & delta0 & E & A & X1 & K1 & _ & _ & _ & T1).
    rewrite E in H. injection H as <- <- <-. split; [reflexivity|].
    cbn [w_journal] in Hj. apply journal_unique in Hj. subst delta0.
    intros k s off data t Hk Ht.
    destruct (T1 k _ t Hk Ht) as (dk & dkt & Ak & At & Q).
    exists dk, dkt. split; [exact Ak|]. split; [exact At|].
    intros Hsafe. destruct (Q Hsafe) as [R|[Sl C]]; [left; exact R|right].
    cbn [is_slot_write] in Sl. destruct s; try discriminate Sl.
    split; [reflexivity|]. split; [apply N.ltb_lt, Sl|exact C].
  Qed.

  (* for every write that is not a header slot write: no side condition, no escape clause *)
  Corollary clear_torn_recovers_plain f c d j ev bs cl start end_ c' w' r delta :
    let n := N.of_nat (length bs) in
    ZInv cr c d bs cl -> start < n -> start < end_ -> end_ <= u64_max ->
    core_clear cr f start end_ c (mkWorld d j ev) = (c', w', r) ->
    w_journal w' = rev delta ++ j ->
    forall k s off data t, nth_error delta k = Some (SW s off data) -> (t < length data)%nat ->
      is_slot_write (SW s off data) = false ->
      exists dk dkt,
        apply_sops d (firstn k delta) = Some dk /\
        apply_sop dk (tear (SW s off data) t) = Some dkt /\
        recoversZ cr (c_keypair c) dkt bs (if (k <? 1)%nat then cl else cl_clear cl start end_).
  Proof.
    intros n X Hsn Hse Hend H Hj k s off data t Hk Ht Hns.
    destruct (clear_torn_recovers f c d j ev bs cl start end_ c' w' r delta X Hsn Hse Hend H Hj) as [_ T].
    destruct (T k s off data t Hk Ht) as (dk & dkt & Ak & At & Q).
    exists dk, dkt. split; [exact Ak|]. split; [exact At|].
    destruct Q as [R|(-> & Lt & _)]; [|exact R|].
    - cbn [tear_safe]. destruct s; try exact I. intros Lt. cbn [is_slot_write] in Hns.
      apply N.ltb_ge in Hns. unfold HEADER_SIZE, ENTRIES_OFFSET in *. lia.
    - cbn [is_slot_write] in Hns. apply N.ltb_ge in Hns. lia.
  Qed.

  (* with the observations spelled out: before or after, nothing in between *)
  Corollary clear_torn_observations f c d j ev bs cl start end_ c' w' r delta :
    let n := N.of_nat (length bs) in
    ZInv cr c d bs cl -> start < n -> start < end_ -> end_ <= u64_max ->
    core_clear cr f start end_ c (mkWorld d j ev) = (c', w', r) ->
    w_journal w' = rev delta ++ j ->
    forall k s off data t, nth_error delta k = Some (SW s off data) -> (t < length data)%nat ->
      exists dk dkt,
        apply_sops d (firstn k delta) = Some dk /\
        apply_sop dk (tear (SW s off data) t) = Some dkt /\
        (tear_safe cr dk (SW s off data) t ->
         (exists ck dk' ops, core_open cr None true dkt = (dk', ops, Ok ck) /\ c_keypair ck = c_keypair c /\
                             (obs_cleared ck dk' bs cl \/ obs_cleared ck dk' bs (cl_clear cl start end_))) \/
         (s = Oplog /\ off < ENTRIES_OFFSET /\ collision cr t)).
  Proof.
    intros n X Hsn Hse Hend H Hj k s off data t Hk Ht.
    destruct (clear_torn_recovers f c d j ev bs cl start end_ c' w' r delta X Hsn Hse Hend H Hj) as [_ T].
    destruct (T k s off data t Hk Ht) as (dk & dkt & Ak & At & Q).
    exists dk, dkt. split; [exact Ak|]. split; [exact At|]. intros Hsafe.
    destruct (Q Hsafe) as [(ck & dk' & ops & E & Xk & Kk & _)|C]; [left|right; exact C].
    exists ck, dk', ops. split; [exact E|]. split; [exact Kk|].
    pose proof (ZInv_observations cr ck dk' _ _ Xk) as O.
    destruct (k <? 1)%nat; [left|right]; exact O.
  Qed.

  (* the clean cuts of an append from a state with clears *)
  Theorem append_cut_recovers_Z f batch c d j ev bs cl sk c' w' x delta :
    ZInv cr c d bs cl -> kp_secret (c_keypair c) = Some sk ->
    sumN (map len (bs ++ batch)) <= u64_max ->
    NODE_SIZE * (2 * N.of_nat (length (bs ++ batch))) <= u64_max ->
    core_append cr f batch c (mkWorld d j ev) = (c', w', Ok x) ->
    w_journal w' = rev delta ++ j ->
    forall k, exists dk,
      apply_sops d (firstn k delta) = Some dk /\
      if (k <? 2)%nat then recoversZ cr (c_keypair c) dk bs cl
      else recoversZ cr (c_keypair c) dk (bs ++ batch) (cl_mask cl (N.of_nat (length bs))).
  Proof.
    intros X Hsk Hfit Hidx H Hj k.
    destruct (append_Z cr Hcrc Hhash32 Hnonblank Hhashbytes Hsig64 Hsigbytes f batch c d j ev bs cl sk X Hsk Hfit Hidx)
      as [(d1 & E & _)|(c1 & d1 & delta0 & ev1 & E & A & X1 & K1 & _ & C1 & _)]; rewrite E in H; [discriminate H|].
    injection H as <- <- <-. cbn [w_journal] in Hj. apply journal_unique in Hj. subst delta0.
    destruct (C1 k) as (dk & Ak & XD & _). exists dk. split; [exact Ak|].
    destruct (k <? 2)%nat; apply (ZDisk_recovers cr Hcrc Hhash32 Hnonblank Hhashbytes), XD.
  Qed.

  (* C07 for an APPEND from a state with clears.  The process dies during the k-th operation of the journal of a
     successful append after the first t bytes of its data.  The disk reached reopens, to the state before the call
     (k = 0: the data write; k = 1: the oplog entry write) or after it (k >= 2: the flush group); a torn header slot
     write may instead exhibit a CRC-32 collision and needs tear_safe *)
  Theorem append_torn_recovers_Z f batch c d j ev bs cl sk c' w' x delta :
    ZInv cr c d bs cl -> kp_secret (c_keypair c) = Some sk ->
    sumN (map len (bs ++ batch)) <= u64_max ->
    NODE_SIZE * (2 * N.of_nat (length (bs ++ batch))) <= u64_max ->
    core_append cr f batch c (mkWorld d j ev) = (c', w', Ok x) ->
    w_journal w' = rev delta ++ j ->
    forall k s off data t, nth_error delta k = Some (SW s off data) -> (t < length data)%nat ->
      exists dk dkt,
        apply_sops d (firstn k delta) = Some dk /\
        apply_sop dk (tear (SW s off data) t) = Some dkt /\
        (tear_safe cr dk (SW s off data) t ->
         (if (k <? 2)%nat then recoversZ cr (c_keypair c) dkt bs cl
          else recoversZ cr (c_keypair c) dkt (bs ++ batch) (cl_mask cl (N.of_nat (length bs)))) \/
         (s = Oplog /\ off < ENTRIES_OFFSET /\ collision cr t)).
  Proof.
    intros X Hsk Hfit Hidx H Hj k s off data t Hk Ht.
    destruct (append_Z cr Hcrc Hhash32 Hnonblank Hhashbytes Hsig64 Hsigbytes f batch c d j ev bs cl sk X Hsk Hfit Hidx)
      as [(d1 & E & _)|(c1 & d1 & delta0 & ev1 & E & A & X1 & K1 & _ & _ & T1)]; rewrite E in H; [discriminate H|].
    injection H as <- <- <-. cbn [w_journal] in Hj. apply journal_unique in Hj. subst delta0.
    destruct (T1 k _ t Hk Ht) as (dk & dkt & Ak & At & Q).
    exists dk, dkt. split; [exact Ak|]. split; [exact At|].
    intros Hsafe.
    assert (Esc : is_slot_write (SW s off data) = true /\ collision cr t -> s = Oplog /\ off < ENTRIES_OFFSET /\ collision cr t).
    { intros [Sl C]. cbn [is_slot_write] in Sl. destruct s; try discriminate Sl.
      split; [reflexivity|]. split; [apply N.ltb_lt, Sl|exact C]. }
    destruct (k <? 2)%nat; destruct (Q Hsafe) as [R|C]; [left; exact R|right; apply Esc, C|left; exact R|right; apply Esc, C].
  Qed.

  Corollary append_torn_recovers_plain_Z f batch c d j ev bs cl sk c' w' x delta :
    ZInv cr c d bs cl -> kp_secret (c_keypair c) = Some sk ->
    sumN (map len (bs ++ batch)) <= u64_max ->
    NODE_SIZE * (2 * N.of_nat (length (bs ++ batch))) <= u64_max ->
    core_append cr f batch c (mkWorld d j ev) = (c', w', Ok x) ->
    w_journal w' = rev delta ++ j ->
    forall k s off data t, nth_error delta k = Some (SW s off data) -> (t < length data)%nat ->
      is_slot_write (SW s off data) = false ->
      exists dk dkt,
        apply_sops d (firstn k delta) = Some dk /\
        apply_sop dk (tear (SW s off data) t) = Some dkt /\
        if (k <? 2)%nat then recoversZ cr (c_keypair c) dkt bs cl
        else recoversZ cr (c_keypair c) dkt (bs ++ batch) (cl_mask cl (N.of_nat (length bs))).
  Proof.
    intros X Hsk Hfit Hidx H Hj k s off data t Hk Ht Hns.
    destruct (append_torn_recovers_Z f batch c d j ev bs cl sk c' w' x delta X Hsk Hfit Hidx H Hj k s off data t Hk Ht)
      as (dk & dkt & Ak & At & Q).
    exists dk, dkt. split; [exact Ak|]. split; [exact At|].
    destruct Q as [R|(-> & Lt & _)]; [|exact R|].
    - cbn [tear_safe]. destruct s; try exact I. intros Lt. cbn [is_slot_write] in Hns.
      apply N.ltb_ge in Hns. unfold HEADER_SIZE, ENTRIES_OFFSET in *. lia.
    - cbn [is_slot_write] in Hns. apply N.ltb_ge in Hns. lia.
  Qed.

  Corollary append_torn_observations_Z f batch c d j ev bs cl sk c' w' x delta :
    ZInv cr c d bs cl -> kp_secret (c_keypair c) = Some sk ->
    sumN (map len (bs ++ batch)) <= u64_max ->
    NODE_SIZE * (2 * N.of_nat (length (bs ++ batch))) <= u64_max ->
    core_append cr f batch c (mkWorld d j ev) = (c', w', Ok x) ->
    w_journal w' = rev delta ++ j ->
    forall k s off data t, nth_error delta k = Some (SW s off data) -> (t < length data)%nat ->
      exists dk dkt,
        apply_sops d (firstn k delta) = Some dk /\
        apply_sop dk (tear (SW s off data) t) = Some dkt /\
        (tear_safe cr dk (SW s off data) t ->
         (exists ck dk' ops, core_open cr None true dkt = (dk', ops, Ok ck) /\ c_keypair ck = c_keypair c /\
                             (obs_cleared ck dk' bs cl \/
                              obs_cleared ck dk' (bs ++ batch) (cl_mask cl (N.of_nat (length bs))))) \/
         (s = Oplog /\ off < ENTRIES_OFFSET /\ collision cr t)).
  Proof.
    intros X Hsk Hfit Hidx H Hj k s off data t Hk Ht.
    destruct (append_torn_recovers_Z f batch c d j ev bs cl sk c' w' x delta X Hsk Hfit Hidx H Hj k s off data t Hk Ht)
      as (dk & dkt & Ak & At & Q).
    exists dk, dkt. split; [exact Ak|]. split; [exact At|]. intros Hsafe.
    destruct (Q Hsafe) as [R|C]; [left|right; exact C].
    destruct (k <? 2)%nat; destruct R as (ck & dk' & ops & E & Xk & Kk & _);
      exists ck, dk', ops; (split; [exact E|]); (split; [exact Kk|]);
      [left|right]; apply (ZInv_observations cr ck dk' _ _ Xk).
  Qed.

  (* an append that panics (30-bit frame guard) has a journal of one data write; after that write, whole or torn
     at any byte, reopening gives the state before the call *)
  Theorem append_panic_torn_recovers_Z f batch c d j ev bs cl sk c' w' s :
    ZInv cr c d bs cl -> kp_secret (c_keypair c) = Some sk ->
    sumN (map len (bs ++ batch)) <= u64_max ->
    NODE_SIZE * (2 * N.of_nat (length (bs ++ batch))) <= u64_max ->
    core_append cr f batch c (mkWorld d j ev) = (c', w', Panic s) ->
    s = frame_msg /\ c' = c /\ w_events w' = ev /\
    exists o, w_journal w' = o :: j /\ apply_sop d o = Some (w_disk w') /\
    recoversZ cr (c_keypair c) (w_disk w') bs cl /\
    forall t, exists dt, apply_sop d (tear o t) = Some dt /\ recoversZ cr (c_keypair c) dt bs cl.
  Proof.
    intros X Hsk Hfit Hidx H.
    destruct (append_Z cr Hcrc Hhash32 Hnonblank Hhashbytes Hsig64 Hsigbytes f batch c d j ev bs cl sk X Hsk Hfit Hidx)
      as [(d1 & E & A & XD & TD)|(c1 & d1 & delta0 & ev1 & E & _)]; rewrite E in H; [|discriminate H].
    injection H as <- <- <-. split; [reflexivity|]. split; [reflexivity|]. split; [reflexivity|].
    eexists. split; [reflexivity|]. cbn [w_disk].
    split. { cbn [apply_sops] in A. destruct (apply_sop d _) as [dx|]; [exact A|discriminate A]. }
    split; [apply (ZDisk_recovers cr Hcrc Hhash32 Hnonblank Hhashbytes), XD|].
    intros t. destruct (TD t) as (dt & At & Yt). exists dt. split; [exact At|].
    apply (ZDisk_recovers cr Hcrc Hhash32 Hnonblank Hhashbytes), Yt.
  Qed.

  (* when both header slots of the oplog store are hygienic (true after creation and after every completed
     forced flush, kept by every whole write: TornCoreA.hyg) every tear is safe: no side condition *)
  Corollary clear_torn_recovers_hyg f c d j ev bs cl start end_ c' w' r delta :
    let n := N.of_nat (length bs) in
    ZInv cr c d bs cl -> hyg cr (f_content (d_oplog d)) -> start < n -> start < end_ -> end_ <= u64_max ->
    core_clear cr f start end_ c (mkWorld d j ev) = (c', w', r) ->
    w_journal w' = rev delta ++ j ->
    forall k s off data t, nth_error delta k = Some (SW s off data) -> (t < length data)%nat ->
      exists dk dkt,
        apply_sops d (firstn k delta) = Some dk /\
        apply_sop dk (tear (SW s off data) t) = Some dkt /\
        (recoversZ cr (c_keypair c) dkt bs (if (k <? 1)%nat then cl else cl_clear cl start end_) \/
         (s = Oplog /\ off < ENTRIES_OFFSET /\ collision cr t)).
  Proof.
    intros n X Hh Hsn Hse Hend H Hj k s off data t Hk Ht.
    destruct (clear_torn_recovers f c d j ev bs cl start end_ c' w' r delta X Hsn Hse Hend H Hj) as [_ T].
    destruct (T k s off data t Hk Ht) as (dk & dkt & Ak & At & Q).
    exists dk, dkt. split; [exact Ak|]. split; [exact At|]. apply Q.
    destruct (clear_Z cr Hcrc Hhash32 Hnonblank Hhashbytes f c d j ev bs cl start end_ X Hsn Hse Hend)
      as (c1 & d1 & delta0 & E & _ & _ & _ & _ & _ & C1 & _).
    rewrite E in H. injection H as <- <- <-. cbn [w_journal] in Hj. apply journal_unique in Hj. subst delta0.
    destruct (C1 k) as (dk0 & Ak0 & _ & Hk0). rewrite Ak in Ak0. injection Ak0 as <-.
    apply hyg_tear_safe, Hk0, Hh.
  Qed.

  Corollary append_torn_recovers_hyg_Z f batch c d j ev bs cl sk c' w' x delta :
    ZInv cr c d bs cl -> hyg cr (f_content (d_oplog d)) -> kp_secret (c_keypair c) = Some sk ->
    sumN (map len (bs ++ batch)) <= u64_max ->
    NODE_SIZE * (2 * N.of_nat (length (bs ++ batch))) <= u64_max ->
    core_append cr f batch c (mkWorld d j ev) = (c', w', Ok x) ->
    w_journal w' = rev delta ++ j ->
    forall k s off data t, nth_error delta k = Some (SW s off data) -> (t < length data)%nat ->
      exists dk dkt,
        apply_sops d (firstn k delta) = Some dk /\
        apply_sop dk (tear (SW s off data) t) = Some dkt /\
        ((if (k <? 2)%nat then recoversZ cr (c_keypair c) dkt bs cl
          else recoversZ cr (c_keypair c) dkt (bs ++ batch) (cl_mask cl (N.of_nat (length bs)))) \/
         (s = Oplog /\ off < ENTRIES_OFFSET /\ collision cr t)).
  Proof.
    intros X Hh Hsk Hfit Hidx H Hj k s off data t Hk Ht.
    destruct (append_torn_recovers_Z f batch c d j ev bs cl sk c' w' x delta X Hsk Hfit Hidx H Hj k s off data t Hk Ht)
      as (dk & dkt & Ak & At & Q).
    exists dk, dkt. split; [exact Ak|]. split; [exact At|]. apply Q.
    destruct (append_Z cr Hcrc Hhash32 Hnonblank Hhashbytes Hsig64 Hsigbytes f batch c d j ev bs cl sk X Hsk Hfit Hidx)
      as [(d1 & E & _)|(c1 & d1 & delta0 & ev1 & E & _ & _ & _ & _ & C1 & _)]; rewrite E in H; [discriminate H|].
    injection H as <- <- <-. cbn [w_journal] in Hj. apply journal_unique in Hj. subst delta0.
    destruct (C1 k) as (dk0 & Ak0 & _ & Hk0). rewrite Ak in Ak0. injection Ak0 as <-.
    apply hyg_tear_safe, Hk0, Hh.
  Qed.

  (* the same from the states of CrashClear1.YInv (whole bitfield pages) whose tree store has byte-valued length
     fields; note that the result is ZInv, not CrashClear1.YInv: a torn page write leaves a partial last page *)
  Corollary clear_torn_recovers_from_YInv f c d j ev bs cl start end_ c' w' r delta :
    let n := N.of_nat (length bs) in
    CrashClear1.YInv cr c d bs cl -> TreeOk (d_tree d) -> start < n -> start < end_ -> end_ <= u64_max ->
    core_clear cr f start end_ c (mkWorld d j ev) = (c', w', r) ->
    w_journal w' = rev delta ++ j ->
    r = Ok tt /\
    forall k s off data t, nth_error delta k = Some (SW s off data) -> (t < length data)%nat ->
      exists dk dkt,
        apply_sops d (firstn k delta) = Some dk /\
        apply_sop dk (tear (SW s off data) t) = Some dkt /\
        (tear_safe cr dk (SW s off data) t ->
         recoversZ cr (c_keypair c) dkt bs (if (k <? 1)%nat then cl else cl_clear cl start end_) \/
         (s = Oplog /\ off < ENTRIES_OFFSET /\ collision cr t)).
  Proof.
    intros n X Hok. apply (clear_torn_recovers f c d j ev bs cl start end_ c' w' r delta), YInv_ZInv; assumption.
  Qed.

  Corollary append_torn_recovers_from_YInv f batch c d j ev bs cl sk c' w' x delta :
    CrashClear1.YInv cr c d bs cl -> TreeOk (d_tree d) -> kp_secret (c_keypair c) = Some sk ->
    sumN (map len (bs ++ batch)) <= u64_max ->
    NODE_SIZE * (2 * N.of_nat (length (bs ++ batch))) <= u64_max ->
    core_append cr f batch c (mkWorld d j ev) = (c', w', Ok x) ->
    w_journal w' = rev delta ++ j ->
    forall k s off data t, nth_error delta k = Some (SW s off data) -> (t < length data)%nat ->
      exists dk dkt,
        apply_sops d (firstn k delta) = Some dk /\
        apply_sop dk (tear (SW s off data) t) = Some dkt /\
        (tear_safe cr dk (SW s off data) t ->
         (if (k <? 2)%nat then recoversZ cr (c_keypair c) dkt bs cl
          else recoversZ cr (c_keypair c) dkt (bs ++ batch) (cl_mask cl (N.of_nat (length bs)))) \/
         (s = Oplog /\ off < ENTRIES_OFFSET /\ collision cr t)).
  Proof.
    intros X Hok. apply (append_torn_recovers_Z f batch c d j ev bs cl sk c' w' x delta), YInv_ZInv; assumption.
  Qed.

  (* a clear from an (append-only) state of TornCoreA.YInv *)
  Corollary clear_torn_recovers_from_TornYInv f c d j ev bs start end_ c' w' r delta :
    let n := N.of_nat (length bs) in
    TornCoreA.YInv cr c d bs -> start < n -> start < end_ -> end_ <= u64_max ->
    core_clear cr f start end_ c (mkWorld d j ev) = (c', w', r) ->
    w_journal w' = rev delta ++ j ->
    r = Ok tt /\
    forall k s off data t, nth_error delta k = Some (SW s off data) -> (t < length data)%nat ->
      exists dk dkt,
        apply_sops d (firstn k delta) = Some dk /\
        apply_sop dk (tear (SW s off data) t) = Some dkt /\
        (tear_safe cr dk (SW s off data) t ->
         recoversZ cr (c_keypair c) dkt bs (if (k <? 1)%nat then (fun _ => false) else cl_clear (fun _ => false) start end_) \/
         (s = Oplog /\ off < ENTRIES_OFFSET /\ collision cr t)).
  Proof.
    intros n X. apply (clear_torn_recovers f c d j ev bs _ start end_ c' w' r delta), TornYInv_ZInv, X.
  Qed.
End TornZ.

(* ====================================================================================== *)
(* J. Non-vacuity, on the crypto instance with a real CRC-32 (TornCore.crc_cr)             *)
(* ====================================================================================== *)

Definition zcr : crypto := TornCore.crc_cr.

Definition eqb_bytes (a b : bytes) : bool :=
  Nat.eqb (length a) (length b) && forallb (fun p => fst p =? snd p) (combine a b).

(* get i returns block i for every held index and None (with the event) elsewhere; has, info *)
Definition zreads (c : core) (d : disk) (bs : list bytes) (cl : N -> bool) : bool :=
  let n := N.of_nat (length bs) in
  forallb (fun k => let i := N.of_nat k in
             Bool.eqb (core_has c i) (held n cl i) &&
             match core_get i c (mkWorld d [] []) with
             | (_, w, Ok (Some v)) =>
                 held n cl i && eqb_bytes v (nth k bs []) && match w_events w with [] => true | _ => false end
             | (_, w, Ok None) =>
                 negb (held n cl i) && match w_events w with [EvGet i'] => i' =? i | _ => false end
             | _ => false
             end) (seq 0 (S (S (length bs)))) &&
  (i_length (core_info c) =? n) && (i_contiguous (core_info c) =? spec_contig bs cl) &&
  (i_byte_length (core_info c) =? sumN (map len bs)).

Definition z5 : list bytes := [[1; 2; 3]; []; [4]; [5; 6]; [7]].
Definition zcl1 : N -> bool := cl_clear (fun _ => false) 1 3.
Definition zcl2 : N -> bool := cl_clear zcl1 3 9.
Definition z_page_tears : list nat := seq 0 70 ++ [100; 1000; 2047; 2048; 4095]%nat.

(* One flushing clear looked at tear by tear.  State: 5 blocks appended without a flush, clear [1, 3) without a
   flush (two pending entries, unflushed nodes, a dirty page).  Then clear [3, 9) with a flush: 13 operations:
   oplog entry write (12 bytes), delete of the hole in the data store (it reaches the end of the store), one
   bitfield page, eight tree nodes, header slot write (614 bytes), truncate.  After EVERY torn cut (k, t) —
   every t below the length of the write, for the 4096-byte page the tears of z_page_tears — the storage reopens;
   the observations are those of (z5, zcl1) for k = 0 and those of (z5, zcl2) for k >= 1, also for all 614 tears
   of the header slot write (no collision occurs). *)
Definition z_torn_ok (d : disk) (delta : list sop) (k t : nat) : bool :=
  match nth_error delta k with
  | Some o =>
      match apply_sops d (firstn k delta) with
      | Some dk =>
          match apply_sop dk (tear o t) with
          | Some dkt =>
              match core_open zcr None true dkt with
              | (dk', _, Ok ck) => zreads ck dk' z5 (if (k <? 1)%nat then zcl1 else zcl2)
              | _ => false
              end
          | None => false
          end
      | None => false
      end
  | None => false
  end.

Example crc_every_tear_of_a_flushing_clear :
  match core_open zcr (Some toy_keypair) false disk_empty with
  | (d0, _, Ok c0) =>
      match core_append zcr (Some false) z5 c0 (mkWorld d0 [] []) with
      | (c1, w1, Ok _) =>
          match core_clear zcr (Some false) 1 3 c1 w1 with
          | (c2, w2, Ok _) =>
              match core_clear zcr (Some true) 3 9 c2 (mkWorld (w_disk w2) [] []) with
              | (c3, w3, Ok _) =>
                  let delta := rev (w_journal w3) in
                  map (fun o => (sop_store o, wlen o)) delta =
                    [(Oplog, 12); (Data, 0); (Bitfield, 4096); (Tree, 40); (Tree, 40); (Tree, 40); (Tree, 40);
                     (Tree, 40); (Tree, 40); (Tree, 40); (Tree, 40); (Oplog, 614); (Oplog, 0)]%nat /\
                  zreads c2 (w_disk w2) z5 zcl1 = true /\ zreads c3 (w_disk w3) z5 zcl2 = true /\
                  f_len (d_data (w_disk w2)) = 7 /\ f_len (d_data (w_disk w3)) = 3 /\
                  forallb (fun k => let w := wlen (nth k delta (ST Data 0)) in
                                    forallb (z_torn_ok (w_disk w2) delta k)
                                            (if (w =? 4096)%nat then z_page_tears else seq 0 w))
                          (seq 0 (length delta)) = true
              | _ => False
              end
          | _ => False
          end
      | _ => False
      end
  | _ => False
  end.
Proof. vm_compute. repeat split; reflexivity. Qed.

(* The hypotheses of clear_Z / clear_torn_recovers(_hyg) are met by that state: ZInv with a non-empty cleared set,
   pending entries, hygienic header slots; and the clear of [3, 9) with a flush has the 13-operation journal *)
Example crc_ZInv_state_met :
  exists c d cl sk c' w' delta,
    ZInv zcr c d z5 cl /\ (forall i, cl i = zcl1 i) /\ kp_secret (c_keypair c) = Some sk /\
    hyg zcr (f_content (d_oplog d)) /\
    3 < N.of_nat (length z5) /\ 3 < 9 /\ 9 <= u64_max /\
    core_clear zcr (Some true) 3 9 c (mkWorld d [] []) = (c', w', Ok tt) /\
    w_journal w' = rev delta ++ [] /\
    map (fun o => (sop_store o, wlen o)) delta =
      [(Oplog, 12); (Data, 0); (Bitfield, 4096); (Tree, 40); (Tree, 40); (Tree, 40); (Tree, 40);
       (Tree, 40); (Tree, 40); (Tree, 40); (Tree, 40); (Oplog, 614); (Oplog, 0)]%nat.
Proof.
  destruct (TornCore.YInv_init zcr TornCore.crc_cr_crc_ok TornCore.crc_cr_hash32 TornCore.crc_cr_nonblank
              TornCore.crc_cr_hashbytes toy_keypair eq_refl) as (d0 & ops0 & c0 & Ho & Y & K & Hh).
  assert (Hcomp : match core_open zcr (Some toy_keypair) false disk_empty with
     | (d0, _, Ok c0) =>
         match core_append zcr (Some false) z5 c0 (mkWorld d0 [] []) with
         | (c1, w1, Ok _) =>
             match core_clear zcr (Some false) 1 3 c1 (mkWorld (w_disk w1) [] []) with
             | (c2, w2, _) =>
                 match core_clear zcr (Some true) 3 9 c2 (mkWorld (w_disk w2) [] []) with
                 | (c3, w3, Ok tt) =>
                     map (fun o => (sop_store o, wlen o)) (rev (w_journal w3)) =
                       [(Oplog, 12); (Data, 0); (Bitfield, 4096); (Tree, 40); (Tree, 40); (Tree, 40); (Tree, 40);
                        (Tree, 40); (Tree, 40); (Tree, 40); (Tree, 40); (Oplog, 614); (Oplog, 0)]%nat
                 | _ => False
                 end
             end
         | _ => False
         end
     | _ => False
     end) by (vm_compute; reflexivity).
  rewrite Ho in Hcomp.
  pose proof (TornYInv_ZInv zcr c0 d0 [] Y) as Z0.
  assert (Hsk0 : kp_secret (c_keypair c0) = Some (repeat 2 32%nat)) by (rewrite K; reflexivity).
  destruct (append_Z zcr TornCore.crc_cr_crc_ok TornCore.crc_cr_hash32 TornCore.crc_cr_nonblank TornCore.crc_cr_hashbytes
              TornCore.crc_cr_sig64 TornCore.crc_cr_sigbytes (Some false) z5 c0 d0 [] [] [] _ (repeat 2 32%nat) Z0 Hsk0)
    as [(dp & E1 & _)|(c1 & d1 & delta1 & ev1 & E1 & A1 & Z1 & K1 & _ & C1 & _)];
    [vm_compute; discriminate|vm_compute; discriminate|rewrite E1 in Hcomp; contradiction|].
  rewrite E1 in Hcomp. cbn [w_disk] in Hcomp. cbn [app length] in Z1. change (N.of_nat 0) with 0 in Z1.
  assert (Hh1 : hyg zcr (f_content (d_oplog d1))).
  { destruct (C1 (length delta1)) as (dk & Ak & _ & Hk). rewrite firstn_all, A1 in Ak. injection Ak as <-. apply Hk, Hh. }
  assert (L1 : 1 < N.of_nat (length z5)) by (cbn [z5 length]; lia).
  destruct (clear_Z zcr TornCore.crc_cr_crc_ok TornCore.crc_cr_hash32 TornCore.crc_cr_nonblank TornCore.crc_cr_hashbytes
              (Some false) c1 d1 [] [] z5 _ 1 3 Z1 L1 ltac:(lia) ltac:(unfold u64_max; lia))
    as (c2 & d2 & delta2 & E2 & A2 & Z2 & K2 & _ & _ & C2 & _).
  rewrite E2 in Hcomp. cbn [w_disk] in Hcomp.
  assert (Hh2 : hyg zcr (f_content (d_oplog d2))).
  { destruct (C2 (length delta2)) as (dk & Ak & _ & Hk). rewrite firstn_all, A2 in Ak. injection Ak as <-. apply Hk, Hh1. }
  destruct (core_clear zcr (Some true) 3 9 c2 (mkWorld d2 [] [])) as [[c3 w3] r3] eqn:E3.
  destruct r3 as [[]| | |]; try contradiction.
  exists c2, d2, (cl_clear (cl_mask (fun _ => false) 0) 1 3), (repeat 2 32%nat), c3, w3, (rev (w_journal w3)).
  split; [exact Z2|]. split; [intros i; unfold zcl1, cl_clear, cl_mask; reflexivity|].
  split; [rewrite K2, K1; exact Hsk0|]. split; [exact Hh2|].
  split; [cbn [z5 length]; lia|]. split; [lia|]. split; [unfold u64_max; lia|].
  split; [exact E3|]. split; [rewrite rev_involutive, app_nil_r; reflexivity|exact Hcomp].
Qed.

(* A state that neither CrashClear1.YInv nor TornCoreA.YInv describes, and the reason for clause (3) of BfZ:
   48 one-byte blocks are appended with a flush whose bitfield page write is torn after 6 bytes (the store holds
   the bits 0..47, bf_open reads only the first 4 bytes: bits 0..31); reopen; clear [32, 48) without a flush.
   Now bit 40 is SET in the store, NOT READ by bf_open and NOT HELD in memory; were its page clean, a later page
   write extending the file would make the stale bit readable.  ZInv holds, so the page is dirty; the next flush
   rewrites it in full (the store is 4096 bytes, bit 40 unset). *)
Definition z48 : list bytes := map (fun i => [N.of_nat i]) (seq 0 48).

Example crc_stale_unread_bit_state :
  exists c d cl sk,
    ZInv zcr c d z48 cl /\ kp_secret (c_keypair c) = Some sk /\
    f_len (d_bitfield d) = 6 /\ fbit (d_bitfield d) 40 = true /\ rbit (d_bitfield d) 40 = false /\
    held (N.of_nat (length z48)) cl 40 = false /\ core_has c 40 = false /\ core_has c 20 = true /\
    In (40 / PAGE_BITS) (bf_dirty (c_bitfield c)) /\
    exists c' w', core_clear zcr (Some true) 0 1 c (mkWorld d [] []) = (c', w', Ok tt) /\
                  ZInv zcr c' (w_disk w') z48 (cl_clear cl 0 1) /\
                  f_len (d_bitfield (w_disk w')) = 4096 /\ fbit (d_bitfield (w_disk w')) 40 = false.
Proof.
  destruct (TornCore.YInv_init zcr TornCore.crc_cr_crc_ok TornCore.crc_cr_hash32 TornCore.crc_cr_nonblank
              TornCore.crc_cr_hashbytes toy_keypair eq_refl) as (d0 & ops0 & c0 & Ho & Y & K & Hh).
  assert (Hcomp : match core_open zcr (Some toy_keypair) false disk_empty with
     | (d0, _, Ok c0) =>
         match core_append zcr (Some true) z48 c0 (mkWorld d0 [] []) with
         | (c1, w1, Ok _) =>
             match nth_error (rev (w_journal w1)) 2 with
             | Some (SW s off data) =>
                 (6 <? length data)%nat = true /\ is_slot_write (SW s off data) = false /\
                 match apply_sops d0 (firstn 2 (rev (w_journal w1))) with
                 | Some dk =>
                     match apply_sop dk (tear (SW s off data) 6) with
                     | Some dkt =>
                         match core_open zcr None true dkt with
                         | (dk', _, Ok ck) =>
                             match core_clear zcr (Some false) 32 48 ck (mkWorld dk' [] []) with
                             | (c3, w3, _) =>
                                 f_len (d_bitfield (w_disk w3)) = 6 /\ fbit (d_bitfield (w_disk w3)) 40 = true /\
                                 rbit (d_bitfield (w_disk w3)) 40 = false /\
                                 core_has c3 40 = false /\ core_has c3 20 = true /\
                                 existsb (N.eqb (40 / PAGE_BITS)) (bf_dirty (c_bitfield c3)) = true /\
                                 match core_clear zcr (Some true) 0 1 c3 (mkWorld (w_disk w3) [] []) with
                                 | (_, w4, _) =>
                                     f_len (d_bitfield (w_disk w4)) = 4096 /\ fbit (d_bitfield (w_disk w4)) 40 = false
                                 end
                             end
                         | _ => False
                         end
                     | None => False
                     end
                 | None => False
                 end
             | _ => False
             end
         | _ => False
         end
     | _ => False
     end) by (vm_compute; repeat split; reflexivity).
  rewrite Ho in Hcomp.
  pose proof (TornYInv_ZInv zcr c0 d0 [] Y) as Z0.
  assert (Hsk0 : kp_secret (c_keypair c0) = Some (repeat 2 32%nat)) by (rewrite K; reflexivity).
  destruct (core_append zcr (Some true) z48 c0 (mkWorld d0 [] [])) as [[c1 w1] r1] eqn:E1.
  destruct r1 as [x1| | |]; try contradiction.
  destruct (nth_error (rev (w_journal w1)) 2) as [[s off data| |]|] eqn:En; try contradiction.
  destruct Hcomp as (Hlt & Hns & Hcomp). apply Nat.ltb_lt in Hlt.
  destruct (append_torn_recovers_plain_Z zcr TornCore.crc_cr_crc_ok TornCore.crc_cr_hash32 TornCore.crc_cr_nonblank
              TornCore.crc_cr_hashbytes TornCore.crc_cr_sig64 TornCore.crc_cr_sigbytes
              (Some true) z48 c0 d0 [] [] [] _ (repeat 2 32%nat) c1 w1 x1 (rev (w_journal w1)) Z0 Hsk0)
    with (k := 2%nat) (s := s) (off := off) (data := data) (t := 6%nat) as (dk & dkt & Ak & At & R);
    [vm_compute; discriminate|vm_compute; discriminate|exact E1|rewrite rev_involutive, app_nil_r; reflexivity|
     exact En|exact Hlt|exact Hns|].
  rewrite Ak, At in Hcomp. change ((2 <? 2)%nat) with false in R. cbv iota in R.
  destruct R as (ck & dk' & opsk & Eo & Zk & Kk & _). rewrite Eo in Hcomp. cbn [app] in Zk.
  destruct (core_clear zcr (Some false) 32 48 ck (mkWorld dk' [] [])) as [[c3 w3] r3] eqn:E3.
  assert (L32 : 32 < N.of_nat (length z48)) by (vm_compute; reflexivity).
  destruct (clear_ZInv zcr TornCore.crc_cr_crc_ok TornCore.crc_cr_hash32 TornCore.crc_cr_nonblank TornCore.crc_cr_hashbytes
              (Some false) ck dk' [] [] z48 _ 32 48 c3 w3 r3 Zk L32 ltac:(lia) ltac:(unfold u64_max; lia) E3) as (_ & Z3 & K3).
  destruct Hcomp as (F1 & F2 & F3 & F4 & F5 & F6 & Hcomp).
  destruct (core_clear zcr (Some true) 0 1 c3 (mkWorld (w_disk w3) [] [])) as [[c4 w4] r4] eqn:E4.
  assert (L0 : 0 < N.of_nat (length z48)) by (vm_compute; reflexivity).
  destruct (clear_ZInv zcr TornCore.crc_cr_crc_ok TornCore.crc_cr_hash32 TornCore.crc_cr_nonblank TornCore.crc_cr_hashbytes
              (Some true) c3 (w_disk w3) [] [] z48 _ 0 1 c4 w4 r4 Z3 L0 ltac:(lia) ltac:(unfold u64_max; lia) E4) as (-> & Z4 & K4).
  destruct Hcomp as (F7 & F8).
  eexists c3, (w_disk w3), _, (repeat 2 32%nat).
  split; [exact Z3|]. split; [rewrite K3, Kk; exact Hsk0|].
  split; [exact F1|]. split; [exact F2|]. split; [exact F3|].
  split; [rewrite <- (Y_has zcr c3 (w_disk w3) z48 _ 40 (ZInv_YW zcr _ _ _ _ Z3)); exact F4|].
  split; [exact F4|]. split; [exact F5|].
  split.
  { apply existsb_exists in F6 as (p & Hin & Ep). apply N.eqb_eq in Ep. rewrite Ep. exact Hin. }
  exists c4, w4. split; [exact E4|]. split; [exact Z4|]. split; [exact F7|exact F8].
Qed.

(* ====================================================================================== *)
(* K. make_read_only from a ZInv state (so also after a torn crash): result, clean cuts,    *)
(*    torn cuts, and the second call (finding D25) after a clean or torn cut               *)
(* ====================================================================================== *)

From HC Require Import ReadOnly ReadOnlyClear.
(* NOTE: ReadOnly.page_ops / ReadOnly.unflushed_nodes shadow those of CrashCore2 from here on *)

Section ReadOnlyZ.
  Variable cr : crypto.
  Hypothesis Hcrc : crc_ok cr.
  Hypothesis Hhash32 : forall x, length (cr_hash cr x) = 32%nat.
  Hypothesis Hnonblank : forall x, all_zero (cr_hash cr x) = false.
  Hypothesis Hhashbytes : forall x, bytes_ok (cr_hash cr x) = true.

  Theorem make_read_only_Z c d j ev bs cl :
    ZInv cr c d bs cl ->
    let n := N.of_nat (length bs) in
    exists d',
      core_make_read_only cr c (mkWorld d j ev) =
        (ro_core c, mkWorld d' (rev (ro_ops cr c) ++ j) ev, Ok (i_writeable (core_info c))) /\
      apply_sops d (ro_ops cr c) = Some d' /\
      ZInv cr (ro_core c) d' bs cl /\
      d_data d' = d_data d /\
      f_content (d_oplog d') = ro_oplog_file cr c /\ f_len (d_oplog d') = ENTRIES_OFFSET /\
      hyg cr (f_content (d_oplog d')) /\
      (* every clean cut: a crash disk of the same (bs, cl), with the old key pair up to the last tree node
         write, with the secret-free one from the first header slot write on *)
      (forall k, exists dk, apply_sops d (firstn k (ro_ops cr c)) = Some dk /\
         ZDisk cr (if (k <=? ro_np c)%nat then c_keypair c else ro_keypair c) dk bs cl) /\
      (* every torn cut: a page or a node write torn: the old key pair; the first header slot write torn: the old
         or the secret-free key pair; the second one: the secret-free key pair; a torn slot write may instead
         exhibit a CRC collision and needs tear_safe *)
      (forall k o t, nth_error (ro_ops cr c) k = Some o -> (t < wlen o)%nat ->
         exists dk dkt, apply_sops d (firstn k (ro_ops cr c)) = Some dk /\ apply_sop dk (tear o t) = Some dkt /\
           (tear_safe cr dk o t ->
            ((k <= ro_np c)%nat /\ ZDisk cr (c_keypair c) dkt bs cl) \/
            ((ro_np c <= k)%nat /\ ZDisk cr (ro_keypair c) dkt bs cl) \/
            (is_slot_write o = true /\ collision cr t))).
  Proof.
    intros X n.
    pose proof X as (((HL & HB & HF & HR & Hlook & Hun & Hs & Hn) & Hbf & Hcg & Hd) & Htok &
                     s0 & s1 & body & st0 & st1 & hf & l & kf & Hcont & G & Hlen & Hbytes & Hhf & Hhc & Hch &
                     Hstore & Hby & Hsync).
    fold n in HL, HR, Hlook, Hn, Hbf, Hhc, Hch, Hby.
    pose proof (gchain_le cr bs l kf n Hch) as Hle.
    pose proof (hdr_desc'_erase _ _ _ Hhc) as Hhn. fold (ro_header c) (ro_keypair c) in Hhn.
    pose proof (hdr_desc'_fits _ _ _ Hhn) as Hfit.
    destruct (make_read_only_run cr c d j ev Hun Hfit) as (d3 & A3 & Aall & E).
    set (hn := ro_header c) in *. set (bits := ol_bits (c_oplog c)) in *.
    set (b := c_bitfield c) in *. set (t := c_tree c) in *.
    set (ws := ReadOnly.unflushed_nodes t) in *.
    pose proof Hhn as (Hokn & Hkpn & _).
    pose proof G as (H0 & H1 & Hchs & Hf & Hoks).
    destruct (good_slot_lengths cr _ _ _ _ _ _ _ _ G) as [L0 L1].
    (* the two header writes *)
    destruct (header_write_step cr s0 s1 st0 st1 bits hf hn 0 true _ _ H0 H1 Hchs Hokn (or_introl eq_refl)
                (insert_header_true cr hn 0 bits Hfit))
      as (fr1 & pad1 & Hfr1 & Hl1 & _ & _ & Eo1 & Hw1 & sa0 & sa1 & A0 & A1 & HchA & HcbA).
    injection Eo1 as Eo1.
    set (sl1 := slot_bytes cr (w_bit bits) hn) in *.
    set (a0 := put0 (w_slot bits) sl1 s0) in *. set (a1 := put1 (w_slot bits) sl1 s1) in *.
    rewrite <- Eo1 in Hw1, A0, A1. fold a0 a1 in Hw1, A0, A1.
    assert (LA0 : length a0 = SLOT) by (destruct sa0; apply A0).
    assert (LA1 : length a1 = SLOT) by (destruct sa1; apply A1).
    destruct (header_write_step cr a0 a1 sa0 sa1 (w_bits bits) hn hn 0 true _ _ A0 A1 HchA Hokn (or_introl eq_refl)
                (insert_header_true cr hn 0 (w_bits bits) Hfit))
      as (fr2 & pad2 & Hfr2 & Hl2 & _ & _ & Eo2 & Hw2 & sb0 & sb1 & B0 & B1 & HchB & HcbB).
    injection Eo2 as Eo2.
    set (sl2 := slot_bytes cr (w_bit (w_bits bits)) hn) in *.
    set (b0 := put0 (w_slot (w_bits bits)) sl2 a0) in *. set (b1 := put1 (w_slot (w_bits bits)) sl2 a1) in *.
    rewrite <- Eo2 in Hw2, B0, B1. fold b0 b1 in Hw2, B0, B1.
    assert (LB0 : length b0 = SLOT) by (destruct sb0; apply B0).
    assert (LB1 : length b1 = SLOT) by (destruct sb1; apply B1).
    (* the stores during and after the flush of pages and nodes *)
    set (fb := write_pages (d_bitfield d) (bf_bits b) (bf_dirty b)).
    set (ft := write_nodes (d_tree d) ws).
    set (dN := disk_nodes c d) in *.
    assert (EdN : dN = mkDisk ft (d_data d) fb (d_oplog d)) by (destruct d; reflexivity).
    assert (Hws : forall v, In v ws -> nm_get (n_index v) (t_unflushed t) = Some v)
      by (intros v Hv; apply unflushed_nodes_get; assumption).
    assert (H32 : forall v, In v ws -> length (n_hash v) = 32%nat).
    { intros v Hv. apply Hws in Hv. apply Hun in Hv. tauto. }
    assert (Tw : forall ws', (forall v, In v ws' -> In v ws) -> forall m, m <= n ->
                 lookups cr tE (d_tree d) bs m -> lookups cr tE (write_nodes (d_tree d) ws') bs m).
    { intros ws' Hsub m Hm Hl0. apply (lookups_write_nodes cr bs t (d_tree d) ws' n m Hlook Hun Hm); [|exact Hl0].
      intros v Hv. apply Hws, Hsub, Hv. }
    assert (Tok : forall ws', (forall v, In v ws' -> In v ws) -> TreeOk (write_nodes (d_tree d) ws')).
    { intros ws' Hsub. apply TreeOk_write_nodes; [exact Htok|]. intros v Hv. apply H32, Hsub, Hv. }
    assert (Bw : forall ps, BfZ (write_pages (d_bitfield d) (bf_bits b) ps) (updates_of l) (hd_contig hf) n cl)
      by (intros ps; apply BfZ_write_pages; assumption).
    assert (Hidx : forall dd o, (o + 1) * p2 dd <= n -> NODE_SIZE * ft_index (N.of_nat dd) o <= u64_max).
    { intros dd o Hfull. pose proof (ft_index_succ (N.of_nat dd) o) as S. fold (p2 dd) in S. pose proof (p2_pos dd).
      unfold NODE_SIZE in *. nia. }
    assert (LT' : lookups cr (flushed_tree t) ft bs n).
    { intros dd o Hfull.
      apply (tree_flush_preserves_lookups t (flushed_tree t) (map node_write ws) d (d_set d Tree ft) _ _
               (tree_flush_ok t Hun) (apply_node_writes ws d) Hun (Hidx dd o Hfull)).
      apply Hlook, Hfull. }
    assert (LT : lookups cr tE ft bs n).
    { intros dd o Hfull. rewrite <- (LT' dd o Hfull). apply required_node_same_unflushed. reflexivity. }
    assert (LTkf : lookups cr tE ft bs kf) by (apply Tw; [intros v Hv; exact Hv|exact Hle|exact Hstore]).
    assert (Tokft : TreeOk ft) by (apply Tok; intros v Hv; exact Hv).
    destruct (BfSyncZ_flush (d_bitfield d) b Hsync) as [Ffb Rfb]. fold fb in Ffb, Rfb.
    assert (BX : BfZ fb [] (hd_contig hn) n cl).
    { apply BfZ_exact; [intros i; rewrite Ffb; apply Hbf|intros i; rewrite Rfb; apply Hbf|].
      apply (fexact_ext (bf_get b)); [exact Hbf|apply exact_contig_fexact, Hcg]. }
    (* a disk whose oplog file selects the old header: still a disk of the old key pair *)
    assert (Old : forall dk x0 x1 sx0 sx1, d_data dk = d_data d ->
                  f_content (d_oplog dk) = x0 ++ x1 ++ body -> good cr x0 x1 body sx0 sx1 bits hf l ->
                  BfZ (d_bitfield dk) (updates_of l) (hd_contig hf) n cl -> lookups cr tE (d_tree dk) bs kf ->
                  TreeOk (d_tree dk) -> ZDisk cr (c_keypair c) dk bs cl).
    { intros dk x0 x1 sx0 sx1 Ed Ec Gx Hb' Ht' Hk'. unfold ZDisk. fold n. rewrite Ed.
      split; [exact Hs|]. split; [exact Hn|]. split; [exact Hd|]. split; [exact Hk'|].
      exists x0, x1, body, sx0, sx1, bits, hf, l, kf.
      split; [exact Ec|]. split; [left; exact Gx|]. repeat (split; [assumption|]). exact Hb'. }
    (* a disk with the flushed stores whose oplog file opens with the new header and no entries *)
    assert (New : forall fo x0 x1 xb sx0 sx1 xbits,
                  f_content fo = x0 ++ x1 ++ xb -> OplX cr x0 x1 xb sx0 sx1 xbits hn [] ->
                  ZDisk cr (ro_keypair c) (mkDisk ft (d_data d) fb fo) bs cl).
    { intros fo x0 x1 xb sx0 sx1 xbits Ec HO. unfold ZDisk. fold n. cbn [d_tree d_data d_bitfield d_oplog].
      split; [exact Hs|]. split; [exact Hn|]. split; [exact Hd|]. split; [exact Tokft|].
      exists x0, x1, xb, sx0, sx1, xbits, hn, [], n.
      split; [exact Ec|]. split; [exact HO|]. split; [exact Hhn|]. split; [reflexivity|].
      split; [exact LT|exact BX]. }
    (* the oplog file after each of the four operations *)
    set (fo1 := f_write (d_oplog d) (w_slot bits) sl1).
    set (fo2 := f_truncate fo1 (ENTRIES_OFFSET + 0)).
    set (fo3 := f_write fo2 (w_slot (w_bits bits)) sl2).
    set (fo4 := f_truncate fo3 (ENTRIES_OFFSET + 0)).
    assert (C1 : f_content fo1 = a0 ++ a1 ++ body).
    { unfold fo1. rewrite f_content_write, Hcont. apply Hw1. }
    assert (C2 : f_content fo2 = a0 ++ a1 ++ []).
    { unfold fo2. rewrite f_content_truncate, C1, N.add_0_r. apply c_truncate_all_entries; assumption. }
    assert (C3 : f_content fo3 = b0 ++ b1 ++ []).
    { unfold fo3. rewrite f_content_write, C2. apply Hw2. }
    assert (C4 : f_content fo4 = b0 ++ b1 ++ []).
    { unfold fo4. rewrite f_content_truncate, C3, N.add_0_r. apply c_truncate_all_entries; assumption. }
    set (T := ST Oplog (ENTRIES_OFFSET + 0)).
    set (W1 := SW Oplog (w_slot bits) sl1). set (W2 := SW Oplog (w_slot (w_bits bits)) sl2).
    assert (Eops : ro_oplog_ops cr bits hn = [W1; T; W2; T]) by reflexivity.
    assert (OA1 : OplX cr a0 a1 body sa0 sa1 (w_bits bits) hn []).
    { right. split; [reflexivity|]. split; [exact A0|]. split; [exact A1|]. split; [exact HchA|].
      exists (current_bit bits), l. split; [exact HcbA|exact Hf]. }
    assert (GA : good cr a0 a1 [] sa0 sa1 (w_bits bits) hn []).
    { split; [exact A0|]. split; [exact A1|]. split; [exact HchA|]. split; reflexivity. }
    assert (GB : good cr b0 b1 [] sb0 sb1 (w_bits (w_bits bits)) hn []).
    { split; [exact B0|]. split; [exact B1|]. split; [exact HchB|]. split; reflexivity. }
    assert (N1 : ZDisk cr (ro_keypair c) (mkDisk ft (d_data d) fb fo1) bs cl) by (apply (New fo1 a0 a1 body sa0 sa1 (w_bits bits) C1 OA1)).
    assert (N2 : ZDisk cr (ro_keypair c) (mkDisk ft (d_data d) fb fo2) bs cl)
      by (apply (New fo2 a0 a1 [] sa0 sa1 (w_bits bits) C2); left; exact GA).
    assert (N3 : ZDisk cr (ro_keypair c) (mkDisk ft (d_data d) fb fo3) bs cl)
      by (apply (New fo3 b0 b1 [] sb0 sb1 (w_bits (w_bits bits)) C3); left; exact GB).
    assert (N4 : ZDisk cr (ro_keypair c) (mkDisk ft (d_data d) fb fo4) bs cl)
      by (apply (New fo4 b0 b1 [] sb0 sb1 (w_bits (w_bits bits)) C4); left; exact GB).
    (* the final disk *)
    assert (Ed3 : d3 = mkDisk ft (d_data d) fb fo4).
    { rewrite Eops, EdN in A3. cbn [apply_sops apply_sop d_get d_set d_oplog W1 W2 T] in A3. injection A3 as <-. reflexivity. }
    assert (Hfile : f_content fo4 = ro_oplog_file cr c).
    { replace fo4 with (d_oplog d3) by (rewrite Ed3; reflexivity).
      apply (c_apply_all_sound _ dN d3 _ (ro_oplog_ops_store cr bits hn) A3).
      rewrite EdN. cbn [d_oplog]. apply ro_oplog_content_any; [|exact Hfit].
      rewrite Hcont, !len_app. unfold len. rewrite L0, L1. unfold ENTRIES_OFFSET, HEADER_SIZE. lia. }
    assert (X3 : ZInv cr (ro_core c) (mkDisk ft (d_data d) fb fo4) bs cl).
    { split.
      - unfold YW, TInv. cbv zeta.
        cbn [ro_core c_tree c_bitfield c_header flushed_tree t_length t_byte_length t_fork t_roots d_tree d_data].
        fold n t b.
        split.
        { split; [exact HL|]. split; [exact HB|]. split; [exact HF|]. split; [exact HR|]. split; [exact LT'|].
          split. { intros i x H. cbn [t_unflushed flushed_tree] in H. rewrite nm_get_empty in H. discriminate H. }
          split; [exact Hs|exact Hn]. }
        split; [exact Hbf|]. split; [exact Hcg|exact Hd].
      - split; [exact Tokft|].
        cbn [ro_core c_oplog c_keypair c_header c_bitfield ol_bits ol_entries_len ol_entries_bytes d_oplog d_tree d_bitfield].
        fold n bits hn.
        exists b0, b1, [], sb0, sb1, hn, [], n.
        split; [exact C4|].
        split; [rewrite <- w_bits_twice; exact GB|].
        split; [reflexivity|]. split; [reflexivity|]. split; [exact Hhn|]. split; [exact Hhn|].
        split; [reflexivity|]. split; [exact LT|]. split; [exact BX|].
        intros i Hne. exfalso. change (bf_get b i <> rbit fb i \/ bf_get b i <> fbit fb i) in Hne.
        rewrite Rfb, Ffb in Hne. destruct Hne as [Hne|Hne]; apply Hne; reflexivity. }
    exists d3. split; [exact E|]. split; [exact Aall|]. rewrite Ed3. split; [exact X3|].
    split; [reflexivity|]. cbn [d_oplog]. split; [exact Hfile|].
    split.
    { rewrite <- f_len_content, Hfile. unfold ro_oplog_file. rewrite len_app. unfold len.
      rewrite !length_slot_bytes by assumption. reflexivity. }
    split.
    { rewrite C4. unfold b0, b1. rewrite Eo2.
      apply (hyg_full_write cr Hcrc a0 a1 sa0 sa1 (w_bits bits) hn [] hn fr2 pad2 A0 A1 HchA Hfr2 Hl2). }
    set (P := ReadOnly.page_ops b) in *. set (Q := node_ops t) in *.
    assert (EP : P = ReadOnly.page_ops (c_bitfield c)) by reflexivity.
    assert (EQ : Q = node_ops (c_tree c)) by reflexivity.
    assert (Enp : ro_np c = (length P + length Q)%nat) by reflexivity.
    assert (Ero : ro_ops cr c = P ++ Q ++ [W1; T; W2; T]) by reflexivity.
    assert (APQ : apply_sops d (P ++ Q) = Some (mkDisk ft (d_data d) fb (d_oplog d))).
    { rewrite CoreFacts.apply_sops_app, EP, apply_page_ops, EQ, apply_node_ops. fold dN. rewrite EdN. reflexivity. }
    (* the disk after the pages, the nodes and the first q oplog operations *)
    assert (Atail : forall q dq, apply_sops (mkDisk ft (d_data d) fb (d_oplog d)) (firstn q [W1; T; W2; T]) = Some dq ->
               forall k, (k = length P + length Q + q)%nat -> apply_sops d (firstn k (ro_ops cr c)) = Some dq).
    { intros q dq Aq k ->. rewrite Ero, app_assoc, firstn_app, firstn_all2 by (rewrite app_length; lia).
      rewrite CoreFacts.apply_sops_app, APQ. rewrite app_length.
      replace (length P + length Q + q - (length P + length Q))%nat with q by lia. exact Aq. }
    split.
    { (* the clean cuts *)
      intros k. rewrite Enp.
      destruct (le_lt_dec k (length P)) as [K1|K1].
      - assert ((k <=? length P + length Q)%nat = true) as -> by (apply Nat.leb_le; lia).
        rewrite Ero, firstn_app3. replace (k - length P)%nat with 0%nat by lia. cbn [firstn app]. rewrite app_nil_r.
        unfold P, ReadOnly.page_ops. rewrite firstn_map, apply_page_writes. eexists. split; [reflexivity|].
        apply (Old _ s0 s1 st0 st1);
          [destruct d as [xt xd xb xo]; reflexivity
          |destruct d as [xt xd xb xo]; exact Hcont
          |exact G
          |destruct d as [xt xd xb xo]; cbn [d_set d_get d_bitfield]; apply Bw
          |destruct d as [xt xd xb xo]; exact Hstore
          |destruct d as [xt xd xb xo]; exact Htok].
      - destruct (le_lt_dec k (length P + length Q)) as [K2|K2].
        + assert ((k <=? length P + length Q)%nat = true) as -> by (apply Nat.leb_le; lia).
          rewrite Ero, firstn_app3, (firstn_all2 P) by lia.
          replace (k - length P - length Q)%nat with 0%nat by lia. cbn [firstn]. rewrite app_nil_r.
          rewrite CoreFacts.apply_sops_app, EP, apply_page_ops.
          unfold Q, node_ops. rewrite firstn_map, apply_node_writes. eexists. split; [reflexivity|].
          apply (Old _ s0 s1 st0 st1);
            [destruct d as [xt xd xb xo]; reflexivity
            |destruct d as [xt xd xb xo]; exact Hcont
            |exact G
            |destruct d as [xt xd xb xo]; cbn [disk_pages d_set d_get d_bitfield]; apply Bw
            |destruct d as [xt xd xb xo]; cbn [disk_pages d_set d_get d_tree];
             apply Tw; [intros v Hv; eapply in_firstn; exact Hv|exact Hle|exact Hstore]
            |destruct d as [xt xd xb xo]; cbn [disk_pages d_set d_get d_tree];
             apply Tok; intros v Hv; eapply in_firstn; exact Hv].
        + assert ((k <=? length P + length Q)%nat = false) as -> by (apply Nat.leb_gt; lia).
          remember (k - (length P + length Q))%nat as q eqn:Eq.
          destruct q as [|[|[|[|q']]]]; [lia| | | |].
          * eexists. split; [apply (Atail 1%nat); [reflexivity|lia]|]. exact N1.
          * eexists. split; [apply (Atail 2%nat); [reflexivity|lia]|]. exact N2.
          * eexists. split; [apply (Atail 3%nat); [reflexivity|lia]|]. exact N3.
          * eexists. split; [apply (Atail (4 + q')%nat); [destruct q'; reflexivity|lia]|]. exact N4. }
    (* the torn cuts *)
    intros k o tt Hk Htt. rewrite Enp. rewrite Ero in Hk.
    destruct (Nat.lt_ge_cases k (length P)) as [K1|K1].
    - (* a torn page write *)
      rewrite nth_error_app1 in Hk by exact K1. unfold P, ReadOnly.page_ops in Hk. rewrite nth_error_map in Hk.
      destruct (nth_error (bf_dirty b) k) as [p|] eqn:Ep; [|discriminate Hk]. cbn [option_map] in Hk. injection Hk as <-.
      assert (Kle : (k <= length P + length Q)%nat) by lia.
      rewrite Ero, firstn_app3. replace (k - length P)%nat with 0%nat by lia. cbn [firstn app]. rewrite app_nil_r.
      unfold P, ReadOnly.page_ops. rewrite firstn_map, apply_page_writes.
      eexists. eexists. split; [reflexivity|]. split; [reflexivity|]. intros _. left. split; [exact Kle|].
      apply (Old _ s0 s1 st0 st1);
        [destruct d as [xt xd xb xo]; reflexivity
        |destruct d as [xt xd xb xo]; exact Hcont
        |exact G
        |destruct d as [xt xd xb xo]; cbn [d_set d_get d_bitfield];
         apply (BfZ_write_image _ _ _ b); [apply Bw|exact Hbf|apply mem_image_firstn, mem_image_page]
        |destruct d as [xt xd xb xo]; exact Hstore
        |destruct d as [xt xd xb xo]; exact Htok].
    - rewrite nth_error_app2 in Hk by exact K1.
      destruct (Nat.lt_ge_cases (k - length P) (length Q)) as [K2|K2].
      + (* a torn node write *)
        rewrite nth_error_app1 in Hk by exact K2. unfold Q, node_ops in Hk. rewrite nth_error_map in Hk. fold ws in Hk.
        destruct (nth_error ws (k - length P)) as [v|] eqn:Ev; [|discriminate Hk]. cbn [option_map] in Hk. injection Hk as <-.
        assert (Kle : (k <= length P + length Q)%nat) by lia.
        rewrite Ero, firstn_app3, (firstn_all2 P) by lia.
        replace (k - length P - length Q)%nat with 0%nat by lia. cbn [firstn]. rewrite app_nil_r.
        rewrite CoreFacts.apply_sops_app, EP, apply_page_ops.
        unfold Q, node_ops. rewrite firstn_map, apply_node_writes. fold ws.
        eexists. eexists. split; [reflexivity|]. split; [reflexivity|]. intros _. left. split; [exact Kle|].
        assert (Hv : In v ws) by (eapply nth_error_In; exact Ev).
        destruct (lookups_torn_after_nodes cr bs t (d_tree d) (firstn (k - length (ReadOnly.page_ops (c_bitfield c))) ws) v tt n kf Hlook Hun Hle) as [T1 T2];
          [intros x Hx; apply Hws; eapply in_firstn; exact Hx|apply Hws, Hv|exact Htok|exact Hstore|].
        apply (Old _ s0 s1 st0 st1);
          [destruct d as [xt xd xb xo]; reflexivity
          |destruct d as [xt xd xb xo]; exact Hcont
          |exact G
          |destruct d as [xt xd xb xo]; cbn [disk_pages d_set d_get d_bitfield]; apply Bw
          |destruct d as [xt xd xb xo]; exact T1
          |destruct d as [xt xd xb xo]; exact T2].
      + (* a torn header slot write *)
        rewrite nth_error_app2 in Hk by exact K2.
        remember (k - length P - length Q)%nat as q eqn:Eq.
        destruct q as [|[|[|[|q']]]]; cbn [nth_error] in Hk; try (destruct q'; discriminate Hk); injection Hk as <-;
          cbn [wlen T] in Htt; try lia.
        * (* the first slot write *)
          exists (mkDisk ft (d_data d) fb (d_oplog d)). eexists.
          split; [apply (Atail 0%nat); [reflexivity|lia]|]. split; [reflexivity|]. intros Hsafe.
          cbn [tear_safe d_oplog W1] in Hsafe. cbn [tear apply_sop d_get d_set d_tree d_data d_bitfield d_oplog W1].
          assert (Hdead : (tt <= 4)%nat -> (if w_slot bits =? 0 then st0 else st1) = SInvalid ->
                          slot_dead cr (if w_slot bits =? 0 then s0 else s1)).
          { intros H4 Hinv. rewrite Hcont, (slot_at_w s0 s1 body bits L0 L1) in Hsafe. apply Hsafe; [|exact H4|].
            - apply w_slot_cases.
            - destruct (w_slot bits =? 0); [rewrite Hinv in H0; apply H0|rewrite Hinv in H1; apply H1]. }
          cbn [wlen W1] in Htt. rewrite Eo1 in Htt |- *.
          destruct (torn_slot_outcomes cr Hcrc s0 s1 body st0 st1 bits hf l hn fr1 pad1 tt G Hokn Hfr1 Hl1 ltac:(lia) Hdead)
            as [Hcw [(x0 & x1 & Gt)|[(x0 & x1 & T0 & T1 & Tch)|C]]].
          -- left. split; [lia|].
             eapply (Old _ _ _ x0 x1);
               [reflexivity|cbn [d_oplog]; rewrite f_content_write, Hcont; exact Hcw|exact Gt|apply Bw|exact LTkf|exact Tokft].
          -- right; left. split; [lia|].
             eapply (New _ _ _ body x0 x1 (w_bits bits)); [rewrite f_content_write, Hcont; exact Hcw|].
             right. split; [reflexivity|]. split; [exact T0|]. split; [exact T1|]. split; [exact Tch|].
             exists (current_bit bits), l. split; [apply w_bits_current|exact Hf].
          -- right; right. split; [|exact C]. unfold W1. cbn [is_slot_write]. destruct (w_slot_cases bits) as [-> | ->]; reflexivity.
        * (* the second slot write *)
          exists (mkDisk ft (d_data d) fb fo2). eexists.
          split; [apply (Atail 2%nat); [reflexivity|lia]|]. split; [reflexivity|]. intros Hsafe.
          cbn [tear_safe d_oplog W2] in Hsafe. cbn [tear apply_sop d_get d_set d_tree d_data d_bitfield d_oplog W2].
          assert (Hdead : (tt <= 4)%nat -> (if w_slot (w_bits bits) =? 0 then sa0 else sa1) = SInvalid ->
                          slot_dead cr (if w_slot (w_bits bits) =? 0 then a0 else a1)).
          { intros H4 Hinv. rewrite C2, (slot_at_w a0 a1 [] (w_bits bits) LA0 LA1) in Hsafe. apply Hsafe; [|exact H4|].
            - apply w_slot_cases.
            - destruct (w_slot (w_bits bits) =? 0); [rewrite Hinv in A0; apply A0|rewrite Hinv in A1; apply A1]. }
          cbn [wlen W2] in Htt. rewrite Eo2 in Htt |- *.
          destruct (torn_slot_outcomes cr Hcrc a0 a1 [] sa0 sa1 (w_bits bits) hn [] hn fr2 pad2 tt GA Hokn Hfr2 Hl2 ltac:(lia) Hdead)
            as [Hcw [(x0 & x1 & Gt)|[(x0 & x1 & T0 & T1 & Tch)|C]]].
          -- right; left. split; [lia|].
             eapply (New _ _ _ [] x0 x1 (w_bits bits)); [rewrite f_content_write, C2; exact Hcw|left; exact Gt].
          -- right; left. split; [lia|].
             eapply (New _ _ _ [] x0 x1 (w_bits (w_bits bits))); [rewrite f_content_write, C2; exact Hcw|].
             left. split; [exact T0|]. split; [exact T1|]. split; [exact Tch|]. split; reflexivity.
          -- right; right. split; [|exact C]. unfold W2. cbn [is_slot_write]. destruct (w_slot_cases (w_bits bits)) as [-> | ->]; reflexivity.
  Qed.
End ReadOnlyZ.

Section SecondCallZ.
  Variable cr : crypto.
  Hypothesis Hcrc : crc_ok cr.
  Hypothesis Hhash32 : forall x, length (cr_hash cr x) = 32%nat.
  Hypothesis Hnonblank : forall x, all_zero (cr_hash cr x) = false.
  Hypothesis Hhashbytes : forall x, bytes_ok (cr_hash cr x) = true.

  (* the disk reopens with the observations of (bs, cl) and the public key pub; make_read_only on the reopened
     core completes, reports the recovered writability, and afterwards the oplog file is exactly two slot images
     of a header without secret key — whatever the secret was — with every observation intact *)
  Definition second_call_ok (pub : bytes) (bs : list bytes) (cl : N -> bool) (dk : disk) : Prop :=
    exists dk' ops ck,
      core_open cr None true dk = (dk', ops, Ok ck) /\ kp_public (c_keypair ck) = pub /\
      obs_cleared ck dk' bs cl /\
      forall j ev, exists c2 d2,
        core_make_read_only cr ck (mkWorld dk' j ev) =
          (c2, mkWorld d2 (rev (ro_ops cr ck) ++ j) ev, Ok (i_writeable (core_info ck))) /\
        f_len (d_oplog d2) = 8192 /\ f_content (d_oplog d2) = ro_oplog_file cr ck /\
        (forall s, ro_oplog_file cr ck = ro_oplog_file cr (with_secret ck s)) /\
        (exists x0 x1 h v0 v1,
           f_content (d_oplog d2) = x0 ++ x1 /\ slot_is cr x0 (SValid h v0) /\ slot_is cr x1 (SValid h v1) /\
           kp_secret (hd_keypair h) = None) /\
        ZInv cr c2 d2 bs cl /\ obs_cleared c2 d2 bs cl /\
        i_writeable (core_info c2) = false /\ kp_secret (c_keypair c2) = None /\
        kp_secret (hd_keypair (c_header c2)) = None /\ kp_public (c_keypair c2) = pub.

  Lemma ZDisk_second_call_ok kp dk bs cl : ZDisk cr kp dk bs cl -> second_call_ok (kp_public kp) bs cl dk.
  Proof.
    intros XD.
    destruct (reopen_Z cr Hcrc Hhash32 Hnonblank Hhashbytes kp dk bs cl XD) as (ck & dk' & ops & Eo & Zk & Kk & _).
    exists dk', ops, ck. split; [exact Eo|]. split; [rewrite Kk; reflexivity|].
    split; [apply (ZInv_observations cr ck dk' bs cl Zk)|].
    intros j ev.
    destruct (make_read_only_Z cr Hcrc Hhash32 Hnonblank Hhashbytes ck dk' j ev bs cl Zk)
      as (d2 & E & _ & Z2 & _ & Hc2 & Hl2 & _).
    exists (ro_core ck), d2. split; [exact E|]. split; [exact Hl2|]. split; [exact Hc2|].
    split; [intros s; reflexivity|].
    split.
    { pose proof Zk as (_ & _ & s0 & s1 & body & st0 & st1 & hf & l & kf & _ & _ & _ & _ & _ & Hhc & _).
      pose proof (hdr_desc'_erase _ _ _ Hhc) as Hhn. fold (ro_header ck) in Hhn.
      pose proof (hdr_desc'_fits _ _ _ Hhn) as Hfit. destruct Hhn as (Hokn & _).
      destruct (ro_oplog_file_slots cr ck Hokn Hfit) as (Ef & S0 & S1 & Hns).
      do 5 eexists. split; [rewrite Hc2; exact Ef|]. split; [exact S0|]. split; [exact S1|exact Hns]. }
    split; [exact Z2|]. split; [apply (ZInv_observations cr _ d2 bs cl Z2)|].
    split; [reflexivity|]. split; [reflexivity|]. split; [reflexivity|].
    cbn [ro_core c_keypair ro_keypair kp_public]. rewrite Kk. reflexivity.
  Qed.

  (* C12 / C07 for make_read_only on a writer with clears, from ANY ZInv state (so also one recovered after a torn
     write).  The process dies inside the call between two operations of its journal or in the middle of a write:
     the disk reopens with the observations of (bs, cl), writable (as before) up to the tree node writes, read-only
     after the first header slot write, one or the other when that write is torn; a second call then completes
     and leaves no secret in either header slot (finding D25).  A torn header slot write may instead exhibit a
     CRC-32 collision, and needs tear_safe. *)
  Theorem make_read_only_torn_Z c d bs cl :
    ZInv cr c d bs cl ->
    let pub := kp_public (c_keypair c) in
    (forall k, exists dk, apply_sops d (firstn k (ro_ops cr c)) = Some dk /\
       recoversZ cr (if (k <=? ro_np c)%nat then c_keypair c else ro_keypair c) dk bs cl /\
       second_call_ok pub bs cl dk) /\
    (forall k s off data t, nth_error (ro_ops cr c) k = Some (SW s off data) -> (t < length data)%nat ->
       exists dk dkt, apply_sops d (firstn k (ro_ops cr c)) = Some dk /\
         apply_sop dk (tear (SW s off data) t) = Some dkt /\
         (tear_safe cr dk (SW s off data) t ->
          (((k <= ro_np c)%nat /\ recoversZ cr (c_keypair c) dkt bs cl \/
            (ro_np c <= k)%nat /\ recoversZ cr (ro_keypair c) dkt bs cl) /\
           second_call_ok pub bs cl dkt) \/
          (s = Oplog /\ off < ENTRIES_OFFSET /\ collision cr t))).
  Proof.
    intros X pub.
    destruct (make_read_only_Z cr Hcrc Hhash32 Hnonblank Hhashbytes c d [] [] bs cl X)
      as (_ & _ & _ & _ & _ & _ & _ & _ & C & T).
    split.
    - intros k. destruct (C k) as (dk & Ak & XD). exists dk. split; [exact Ak|].
      split; [apply (ZDisk_recovers cr Hcrc Hhash32 Hnonblank Hhashbytes), XD|].
      pose proof (ZDisk_second_call_ok _ dk bs cl XD) as S. destruct (k <=? ro_np c)%nat; exact S.
    - intros k s off data t Hk Ht.
      destruct (T k _ t Hk Ht) as (dk & dkt & Ak & At & Q). exists dk, dkt. split; [exact Ak|]. split; [exact At|].
      intros Hsafe. destruct (Q Hsafe) as [[Kl XD]|[[Kl XD]|[Sl Cl]]].
      + left. split; [left; split; [exact Kl|apply (ZDisk_recovers cr Hcrc Hhash32 Hnonblank Hhashbytes), XD]|].
        apply (ZDisk_second_call_ok _ dkt bs cl XD).
      + left. split; [right; split; [exact Kl|apply (ZDisk_recovers cr Hcrc Hhash32 Hnonblank Hhashbytes), XD]|].
        apply (ZDisk_second_call_ok _ dkt bs cl XD).
      + right. cbn [is_slot_write] in Sl. destruct s; try discriminate Sl.
        split; [reflexivity|]. split; [apply N.ltb_lt, Sl|exact Cl].
  Qed.
End SecondCallZ.

(* make_read_only tear by tear on the state of crc_ZInv_state_met (5 blocks, clear [1, 3) pending, nothing flushed):
   13 operations: one bitfield page, eight tree nodes, slot write, truncate, slot write, truncate.  After EVERY torn
   cut the storage reopens with the observations of (z5, zcl1), writable for k < 9 (for the first slot write
   torn: writable iff the old header is still selected), read-only afterwards; a second call completes and no file
   holds the secret; for the 4096-byte page and slot writes the tears of z_page_tears, for the 40-byte node
   writes a sample (no collision occurs). *)
Definition z_ro_torn_ok (c : core) (d : disk) (k t : nat) : bool :=
  match nth_error (ro_ops zcr c) k with
  | Some o =>
      match apply_sops d (firstn k (ro_ops zcr c)) with
      | Some dk =>
          match apply_sop dk (tear o t) with
          | Some dkt =>
              match core_open zcr None true dkt with
              | (dk', _, Ok ck) =>
                  zreads ck dk' z5 zcl1 &&
                  (if (k <? ro_np c)%nat then i_writeable (core_info ck)
                   else if (ro_np c <? k)%nat then negb (i_writeable (core_info ck)) else true) &&
                  match core_make_read_only zcr ck (mkWorld dk' [] []) with
                  | (c2, w2, Ok b) =>
                      Bool.eqb b (i_writeable (core_info ck)) && negb (disk_has toy_secret (w_disk w2)) &&
                      (f_len (d_oplog (w_disk w2)) =? 8192) && zreads c2 (w_disk w2) z5 zcl1
                  | _ => false
                  end
              | _ => false
              end
          | None => false
          end
      | None => false
      end
  | None => false
  end.

Example crc_every_tear_of_make_read_only :
  match core_open zcr (Some toy_keypair) false disk_empty with
  | (d0, _, Ok c0) =>
      match core_append zcr (Some false) z5 c0 (mkWorld d0 [] []) with
      | (c1, w1, Ok _) =>
          match core_clear zcr (Some false) 1 3 c1 w1 with
          | (c2, w2, Ok _) =>
              let ops := ro_ops zcr c2 in
              map (fun o => (sop_store o, wlen o)) ops =
                [(Bitfield, 4096); (Tree, 40); (Tree, 40); (Tree, 40); (Tree, 40); (Tree, 40); (Tree, 40); (Tree, 40);
                 (Tree, 40); (Oplog, 4096); (Oplog, 0); (Oplog, 4096); (Oplog, 0)]%nat /\
              ro_np c2 = 9%nat /\ disk_has toy_secret (w_disk w2) = true /\
              forallb (fun k => let w := wlen (nth k ops (ST Data 0)) in
                                forallb (z_ro_torn_ok c2 (w_disk w2) k)
                                        (if (w =? 4096)%nat then z_page_tears
                                         else if (w =? 40)%nat then [0; 1; 7; 8; 9; 20; 32; 39]%nat else seq 0 w))
                      (seq 0 (length ops)) = true
          | _ => False
          end
      | _ => False
      end
  | _ => False
  end.
Proof. vm_compute. repeat split; reflexivity. Qed.

Print Assumptions BfZ_write_image.
Print Assumptions BfSyncZ_open.
Print Assumptions BfSyncZ_flush.
Print Assumptions YInv_ZInv.
Print Assumptions YDisk_ZDisk.
Print Assumptions TornYDisk_ZDisk.
Print Assumptions TornYInv_ZInv.
Print Assumptions ZInv_observations.
Print Assumptions reopen_Z.
Print Assumptions reopen_ZInv.
Print Assumptions flush_all_Z.
Print Assumptions maybe_flush_Z.
Print Assumptions log_entry_ZInv.
Print Assumptions torn_entry_recovers.
Print Assumptions clear_Z.
Print Assumptions clear_ZInv.
Print Assumptions append_body_Z.
Print Assumptions append_Z.
Print Assumptions append_ZInv.
Print Assumptions clear_cut_recovers_Z.
Print Assumptions clear_torn_recovers.
Print Assumptions clear_torn_recovers_plain.
Print Assumptions clear_torn_observations.
Print Assumptions append_cut_recovers_Z.
Print Assumptions append_torn_recovers_Z.
Print Assumptions append_torn_recovers_plain_Z.
Print Assumptions append_torn_observations_Z.
Print Assumptions append_panic_torn_recovers_Z.
Print Assumptions clear_torn_recovers_from_YInv.
Print Assumptions append_torn_recovers_from_YInv.
Print Assumptions clear_torn_recovers_from_TornYInv.
Print Assumptions clear_torn_recovers_hyg.
Print Assumptions append_torn_recovers_hyg_Z.
Print Assumptions crc_every_tear_of_a_flushing_clear.
Print Assumptions crc_ZInv_state_met.
Print Assumptions crc_stale_unread_bit_state.
Print Assumptions make_read_only_Z.
Print Assumptions ZDisk_second_call_ok.
Print Assumptions make_read_only_torn_Z.
Print Assumptions crc_every_tear_of_make_read_only.

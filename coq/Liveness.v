(* Liveness.v -- C04, last clause: "after any accepted proof ... honest replication can still complete".

   What the two halves need.
   * The convergence theorems of C03 (HonestApply.honest_replicas_converge, FrameGuard.honest_replicas_converge_no_guard)
     start from AcceptAllCore3.RCInv = ReplicaDisk1.RDInv (memory + the four stores on disk, which contains
     SoundCore.RInv) /\ AcceptAllClo.ClosedR (every stored node is a root or has sibling and parent stored: what the
     byte-offset walk of a later block needs).
   * C04_accepted_proof_keeps_replica_consistent (SoundCoreBU) keeps SoundCore.RInv only: not enough for C03.
     ReplicaDisk3.apply_keeps_RDInv keeps RDInv for ANY accepted proof of the shape rd_proof_ok (= block_upgrade_ok
     + the upgrade signature consists of bytes), modulo collision / foreign signature: not for honest proofs only.
     AcceptAllClo.verify_commit_closed_gen keeps ClosedR over tree_commit for any accepted proof, but its
     composition through core_apply_proof (AcceptAllCore3.apply_tail_total) had been done for honest changesets only.
   Here: [apply_keeps_RCInv] (any accepted proof of that shape keeps RCInv), [adv_step] (any answered outcome),
   [C04_then_complete] (afterwards every honest history converges), [C04_history_then_complete] (any interleaving of
   arbitrary proofs of that shape and honest rounds / reopens), [lrun_progress] (only a panic of an adversarial
   application can stop such a history).  The size carve-out (hash / seek sections): LivenessEx.v,
   liveness_fails_after_size_carveout. *)
From HC Require Import Base NMap Codec CodecFacts Crypto FlatTree Storage Bitfield Oplog Merkle Core.
From HC Require Import FlatTreeFacts StorageFacts BitfieldFacts OplogFacts Sound NoPanic NoPanic2 TreeRef OffsetFacts CoreFacts Refine.
From HC Require Import Replicate Reopen ClearRefine EventsAvail Unified1 Unified2 SoundCoreLib SoundCore SoundCoreUp SoundCoreBU ReplicaCorA ReplicaDisk1 ReplicaDisk2 ReplicaDisk3 ReplicaDisk4.
From HC Require Import AnyProof AnyProofCor AcceptAll AcceptAllClo AcceptAllClo2 AcceptAllFlush AcceptAllCore2 AcceptAllCore3 AcceptAllHist HonestApply3 HonestApply.
From HC Require Import FrameGuardLib FrameGuard.
From Coq Require Import ZifyN ZifyNat ZifyBool Lia.
Ltac Zify.zify_post_hook ::= Z.div_mod_to_equations.
#[local] Arguments N.add : simpl never.
#[local] Arguments N.sub : simpl never.
#[local] Arguments N.mul : simpl never.
#[local] Arguments N.div : simpl never.
#[local] Arguments N.modulo : simpl never.
#[local] Arguments N.pow : simpl never.
#[local] Arguments N.eqb : simpl never.
#[local] Arguments N.ltb : simpl never.
#[local] Arguments N.leb : simpl never.
#[local] Arguments N.of_nat : simpl never.
#[local] Arguments N.to_nat : simpl never.

(* an outcome that is an answer to the caller (Ok / Err); Panic / OutOfFuel = the replica process died *)
Definition answered (r : res bool) : Prop :=
  match r with Ok _ => True | Err _ => True | _ => False end.

(* the held set after an application of pf with outcome r *)
Definition adv_held (H : N -> bool) (pf : proof) (r : res bool) : N -> bool :=
  match r with Ok true => hold H (p_block pf) | _ => H end.

(* one step of an interleaved history: an arbitrary proof handed to the replica, or an honest round / a reopen *)
Inductive lev :=
| LAdv (f : option bool) (pf : proof)
| LHon (e : revent).

Section Liveness.
  Variable cr : crypto.
  Hypothesis Hcrc : OplogFacts.crc_ok cr.
  Hypothesis Hhash32 : forall x, length (cr_hash cr x) = 32%nat.
  Hypothesis Hnonblank : forall x, all_zero (cr_hash cr x) = false.
  Hypothesis Hhashbytes : forall x, bytes_ok (cr_hash cr x) = true.
  Variable bs : list bytes.
  Hypothesis Hw : writer_fits bs.

  Lemma d_tree_set_oplog d x : d_tree (d_set d Oplog x) = d_tree d.
  Proof. destruct d; reflexivity. Qed.

  (* ---------- 1. any ACCEPTED proof of the block/upgrade shape keeps the invariant the C03 theorems start from ---------- *)

  Theorem apply_keeps_RCInv f pf c d j ev H c' w' :
    RCInv cr bs c d H -> rd_proof_ok pf ->
    core_apply_proof cr f pf c (mkWorld d j ev) = (c', w', Ok true) ->
    (RCInv cr bs c' (w_disk w') (hold H (p_block pf)) /\
     c_keypair c' = c_keypair c /\
     t_length (c_tree c) <= t_length (c_tree c')) \/
    some_collision cr \/ forged_signature cr bs (kp_public (c_keypair c)).
  Proof.
    intros [X Hclo] Hrd Happ.
    destruct (apply_keeps_RDInv cr Hcrc Hhash32 Hnonblank Hhashbytes bs Hw f pf c d j ev H c' w' X Hrd Happ)
      as [(X' & Hk & Hl & _)|Esc]; [|right; exact Esc].
    pose proof Hrd as [Hok Hsb].
    pose proof (RDInv_RInv cr bs c d H X) as W.
    pose proof W as (Wr & Wf & Wroots & Wbl & Wu & Wfs & Wrl & Wheld).
    destruct (accepted_gates cr _ _ _ _ _ _ Happ) as (cs & Ef & V & Cm & Ht).
    apply apply_tail_inv in Ht. destruct Ht as (_ & bu & c1 & w1 & c2 & w2 & w3 & Hbu & Hlc & Hmf & Hd3).
    fold (block_part pf c (w_disk (mkWorld d j ev)) cs) in Hbu.
    pose proof V as V0. unfold verifier_says in V0. cbn [w_disk] in V0.
    destruct (accepted_changeset_nodes cr Hhash32 Hnonblank bs Hw c d pf cs W Hok V0)
      as [(Hrm & Hmn & Hauth & Hanc)|[C|F]]; [|right; left; exact C|right; right; exact F].
    destruct (apply_without_flush cr pf c _ cs bu c1 w1 c2 w2 Ef V Cm Hbu Hlc) as (w2' & Hrun & Ed2).
    destruct (apply_keeps_replica_consistent_block_upgrade cr Hhash32 Hnonblank bs Hw (Some false) pf c d j ev _ w2'
                W Hok Hrun) as [W2|[C|F]]; [|right; left; exact C|right; right; exact F].
    rewrite Ed2 in W2.
    assert (W2' : SoundCore.RInv cr bs c2 (w_disk w2))
      by (apply (RInv_ext cr bs _ c2 _ (w_disk w2)) in W2; try reflexivity; exact W2).
    destruct (block_part_inv pf c _ cs c _ c1 w1 bu Hbu) as (-> & Et1 & _ & _ & _ & _).
    cbn [w_disk] in Et1.
    destruct (log_and_commit_full cr cs bu c w1 c2 w2 tt Hlc) as (e & h1 & o' & fr & t' & _ & _ & TC & Ec2 & Ew2).
    assert (Et2 : d_tree (w_disk w2) = d_tree d).
    { rewrite Ew2. cbn [w_disk]. rewrite d_tree_set_oplog. exact Et1. }
    assert (Et' : c_tree c2 = t') by (rewrite Ec2; reflexivity).
    assert (Hnb : forall x, In x (cs_nodes cs) -> node_blank x = false).
    { intros x Hx. rewrite Forall_forall in Hauth. destruct (Hauth x Hx) as [E _]. rewrite E.
      apply (T_nonblank cr Hnonblank bs). }
    destruct (verify_commit_closed_gen cr (c_tree c) (d_tree d) pf _ cs t' Hclo
                ltac:(intros x Hx; exists x; apply Wrl, Hx) V0 Hnb TC) as (Hclo2 & _ & _).
    rewrite <- Et', <- Et2 in Hclo2.
    destruct w2 as [d2 j2 ev2]. cbn [w_disk] in *.
    pose proof (maybe_flush_navail cr Hhash32 Hnonblank bs Hw f c2 d2 j2 ev2 c' w3 tt W2' Hmf) as Hnav.
    destruct W2' as (_ & _ & _ & _ & Hu2 & Hf2 & _).
    destruct (SoundCore.maybe_flush_inv cr Hhash32 Hnonblank bs Hw f c2 _ c' _ tt _ Hmf Hu2 Hf2) as (_ & _ & Hr3 & _).
    left. split; [|split; [exact Hk|exact Hl]]. split; [exact X'|].
    rewrite Hd3.
    apply (ClosedR_ext (c_tree c2) (d_tree d2) (c_tree c') (d_tree (w_disk w3)) Hr3 Hnav Hclo2).
  Qed.

  (* ---------- 2. any answered outcome ---------- *)

  Theorem adv_step f pf c d j ev H c' w' r :
    RCInv cr bs c d H -> rd_proof_ok pf ->
    core_apply_proof cr f pf c (mkWorld d j ev) = (c', w', r) -> answered r ->
    (RCInv cr bs c' (w_disk w') (adv_held H pf r) /\
     c_keypair c' = c_keypair c /\
     t_length (c_tree c) <= t_length (c_tree c') /\
     (r <> Ok true -> c' = c /\ w' = mkWorld d j ev)) \/
    some_collision cr \/ forged_signature cr bs (kp_public (c_keypair c)).
  Proof.
    intros RC Hrd Happ Ha.
    assert (Hun : r <> Ok true ->
              (c' = c /\ w' = mkWorld d j ev) \/ some_collision cr \/ forged_signature cr bs (kp_public (c_keypair c))).
    { intros Hne. pose proof RC as [X _]. pose proof (RDInv_RInv cr bs c d H X) as W. destruct Hrd as [Hok _].
      destruct (apply_replica_outcome cr Hhash32 Hnonblank bs Hw f pf c (mkWorld d j ev) c' w' r W Hok Happ)
        as [[E _]|[(E1 & E2 & _)|[E|Esc]]].
      - destruct (Hne E).
      - left. split; assumption.
      - rewrite E in Ha. destruct Ha.
      - right. exact Esc. }
    destruct r as [[|]|e|s|]; try destruct Ha.
    - destruct (apply_keeps_RCInv f pf c d j ev H c' w' RC Hrd Happ) as [(RC' & Hk & Hl)|Esc]; [|right; exact Esc].
      left. split; [exact RC'|]. split; [exact Hk|]. split; [exact Hl|]. intros Hne. destruct (Hne eq_refl).
    - destruct (Hun ltac:(discriminate)) as [[-> ->]|Esc]; [|right; exact Esc].
      left. cbn [adv_held w_disk]. split; [exact RC|]. split; [reflexivity|]. split; [lia|]. intros _. split; reflexivity.
    - destruct (Hun ltac:(discriminate)) as [[-> ->]|Esc]; [|right; exact Esc].
      left. cbn [adv_held w_disk]. split; [exact RC|]. split; [reflexivity|]. split; [lia|]. intros _. split; reflexivity.
  Qed.

  Lemma adv_held_mono H pf r i : H i = true -> adv_held H pf r i = true.
  Proof.
    intros Hi. unfold adv_held, hold. destruct r as [[|]| | |]; try exact Hi.
    destruct (p_block pf); [rewrite Hi; apply orb_true_r|exact Hi].
  Qed.

  (* ---------- 3. the clause of C04: after any proof of that shape, honest replication still completes ---------- *)

  (* what "complete" means: the statement of FrameGuard.honest_replicas_converge_no_guard, from the state (c, w) *)
  Definition completes (c : core) (w : world) (H : N -> bool) : Prop :=
    forall es, hist_all_ng cr bs es c w ->
    exists c2 w2,
      run cr es c w = Some (c2, w2) /\
      RCInv cr bs c2 (w_disk w2) (held_all H es) /\
      c_keypair c2 = c_keypair c /\
      t_length (c_tree c2) = len_all (t_length (c_tree c)) es /\
      t_byte_length (c_tree c2) = prefix_size bs (t_length (c_tree c2)) /\
      (forall i, requested es i -> core_has c2 i = true) /\
      (forall i, H i = true -> core_has c2 i = true) /\
      (forall i j2 ev2, core_has c2 i = true ->
         core_get i c2 (mkWorld (w_disk w2) j2 ev2) = (c2, mkWorld (w_disk w2) j2 ev2, Ok (Some (blk bs i)))).

  Lemma RCInv_completes c w H : RCInv cr bs c (w_disk w) H -> completes c w H.
  Proof.
    intros RC es Hh. destruct w as [d j ev]. cbn [w_disk] in RC.
    destruct (honest_replicas_converge_no_guard cr Hcrc Hhash32 Hnonblank Hhashbytes bs Hw es c d j ev H RC Hh)
      as (c2 & w2 & Hrun & RC2 & Hk & Hl & Hb & _ & Hreq & Hmono & Hget).
    exists c2, w2. repeat (split; [assumption|]). exact Hget.
  Qed.

  Theorem C04_then_complete f pf c d j ev H c' w' r :
    RCInv cr bs c d H -> rd_proof_ok pf ->
    core_apply_proof cr f pf c (mkWorld d j ev) = (c', w', r) -> answered r ->
    ((r <> Ok true -> c' = c /\ w' = mkWorld d j ev) /\
     (forall i, H i = true -> core_has c' i = true) /\
     (forall i j2 ev2, core_has c' i = true ->
        core_get i c' (mkWorld (w_disk w') j2 ev2) = (c', mkWorld (w_disk w') j2 ev2, Ok (Some (blk bs i)))) /\
     completes c' w' (adv_held H pf r)) \/
    some_collision cr \/ forged_signature cr bs (kp_public (c_keypair c)).
  Proof.
    intros RC Hrd Happ Ha.
    destruct (adv_step f pf c d j ev H c' w' r RC Hrd Happ Ha) as [(RC' & Hk & Hl & Hun)|Esc]; [|right; exact Esc].
    left. split; [exact Hun|]. pose proof RC' as [X' _]. split; [|split].
    - intros i Hi. rewrite (RD_has cr bs c' (w_disk w') _ i X'). apply adv_held_mono, Hi.
    - intros i j2 ev2 Hi. rewrite (RD_get cr bs Hw c' (w_disk w') _ j2 ev2 i X').
      rewrite <- (RD_has cr bs c' (w_disk w') _ i X'), Hi. reflexivity.
    - apply RCInv_completes, RC'.
  Qed.

  (* ---------- 4. interleaved histories ---------- *)

  Definition lexec (c : core) (w : world) (s : lev) : option (core * world) :=
    match s with
    | LAdv f pf =>
        match core_apply_proof cr f pf c w with
        | (c', w', Ok _) => Some (c', w')
        | (c', w', Err _) => Some (c', w')
        | _ => None                            (* the process died *)
        end
    | LHon e => exec cr c w e
    end.

  Fixpoint lrun (ss : list lev) (c : core) (w : world) : option (core * world) :=
    match ss with
    | [] => Some (c, w)
    | s :: rest => match lexec c w s with Some (c', w') => lrun rest c' w' | None => None end
    end.

  (* the adversary's proofs have the block/upgrade shape (nothing else is asked of them); the honest requests are
     well formed for the replica state they are sent from *)
  Definition lpre (c : core) (d : disk) (s : lev) : Prop :=
    match s with
    | LAdv _ pf => rd_proof_ok pf
    | LHon e => pre_all_ng cr bs c d e
    end.

  Fixpoint lhist (ss : list lev) (c : core) (w : world) : Prop :=
    match ss with
    | [] => True
    | s :: rest => lpre c (w_disk w) s /\ forall c' w', lexec c w s = Some (c', w') -> lhist rest c' w'
    end.

  (* the blocks the honest rounds asked for *)
  Fixpoint lrequested (ss : list lev) (i : N) : Prop :=
    match ss with
    | [] => False
    | LHon e :: rest => requested [e] i \/ lrequested rest i
    | LAdv _ _ :: rest => lrequested rest i
    end.

  Lemma lstep c d j ev H s c' w' :
    RCInv cr bs c d H -> lpre c d s -> lexec c (mkWorld d j ev) s = Some (c', w') ->
    (exists H', RCInv cr bs c' (w_disk w') H' /\
                (forall i, H i = true -> H' i = true) /\
                (forall i, match s with LHon e => requested [e] i | LAdv _ _ => False end -> H' i = true) /\
                c_keypair c' = c_keypair c /\ t_length (c_tree c) <= t_length (c_tree c')) \/
    some_collision cr \/ forged_signature cr bs (kp_public (c_keypair c)).
  Proof.
    intros RC Hpre Hex. destruct s as [f pf|e]; cbn [lexec lpre] in *.
    - destruct (core_apply_proof cr f pf c (mkWorld d j ev)) as [[c1 w1] r] eqn:Happ.
      assert (Ha : answered r /\ c1 = c' /\ w1 = w').
      { destruct r as [b|er|s|]; try discriminate Hex; injection Hex as <- <-; repeat split. }
      destruct Ha as (Ha & -> & ->).
      destruct (adv_step f pf c d j ev H c' w' r RC Hpre Happ Ha) as [(RC' & Hk & Hl & _)|Esc]; [|right; exact Esc].
      left. exists (adv_held H pf r). split; [exact RC'|]. split; [intros i; apply adv_held_mono|].
      split; [intros i []|]. split; assumption.
    - pose proof (pre_all_of_ng cr Hhash32 bs Hw c d H e RC Hpre) as Hpre'.
      destruct (honest_event_step cr Hcrc Hhash32 Hnonblank Hhashbytes bs Hw c d j ev H e RC Hpre')
        as (c1 & w1 & Hex1 & RC1 & Hk1 & _ & Hm1).
      rewrite Hex1 in Hex. injection Hex as <- <-.
      left. exists (held1 H e). split; [exact RC1|]. split; [intros i; apply held1_mono|].
      split; [|split; assumption].
      intros i Hr. apply (held_requested [e] H i Hr).
  Qed.

  Theorem lrun_inv ss : forall c d j ev H c' w',
    RCInv cr bs c d H -> lhist ss c (mkWorld d j ev) -> lrun ss c (mkWorld d j ev) = Some (c', w') ->
    (exists H', RCInv cr bs c' (w_disk w') H' /\
                (forall i, H i = true -> H' i = true) /\
                (forall i, lrequested ss i -> H' i = true) /\
                c_keypair c' = c_keypair c /\ t_length (c_tree c) <= t_length (c_tree c')) \/
    some_collision cr \/ forged_signature cr bs (kp_public (c_keypair c)).
  Proof.
    induction ss as [|s ss IH]; intros c d j ev H c' w' RC Hh Hrun.
    - cbn [lrun] in Hrun. injection Hrun as <- <-. left. exists H. cbn [w_disk].
      split; [exact RC|]. split; [auto|]. split; [intros i []|]. split; [reflexivity|lia].
    - cbn [lrun] in Hrun. cbn [lhist] in Hh. destruct Hh as [Hpre Hrest]. cbn [w_disk] in Hpre.
      destruct (lexec c (mkWorld d j ev) s) as [[c1 w1]|] eqn:Hex; [|discriminate Hrun].
      destruct (lstep c d j ev H s c1 w1 RC Hpre Hex) as [(H1 & RC1 & Hm1 & Hq1 & Hk1 & Hl1)|Esc]; [|right; exact Esc].
      destruct w1 as [d1 j1 ev1]. cbn [w_disk] in RC1.
      destruct (IH c1 d1 j1 ev1 H1 c' w' RC1 (Hrest _ _ eq_refl) Hrun) as [(H' & RC' & Hm & Hq & Hk & Hl)|Esc].
      + left. exists H'. split; [exact RC'|]. split; [intros i Hi; apply Hm, Hm1, Hi|]. split.
        * intros i Hr. destruct s as [f pf|e]; cbn [lrequested] in Hr.
          -- apply Hq, Hr.
          -- destruct Hr as [Hr|Hr]; [apply Hm, Hq1, Hr|apply Hq, Hr].
        * split; [congruence|lia].
      + right. rewrite <- Hk1. exact Esc.
  Qed.

  (* after any history of arbitrary proofs of the block/upgrade shape (accepted or refused) interleaved with honest
     rounds and reopens: everything held or honestly requested so far is held and byte-identical to the writer's,
     and every further honest history converges *)
  Theorem C04_history_then_complete ss c d j ev H c' w' :
    RCInv cr bs c d H -> lhist ss c (mkWorld d j ev) -> lrun ss c (mkWorld d j ev) = Some (c', w') ->
    (exists H',
       (forall i, H i = true -> core_has c' i = true) /\
       (forall i, lrequested ss i -> core_has c' i = true) /\
       (forall i, core_has c' i = H' i) /\
       (forall i j2 ev2, core_has c' i = true ->
          core_get i c' (mkWorld (w_disk w') j2 ev2) = (c', mkWorld (w_disk w') j2 ev2, Ok (Some (blk bs i)))) /\
       c_keypair c' = c_keypair c /\ t_length (c_tree c) <= t_length (c_tree c') /\
       t_byte_length (c_tree c') = prefix_size bs (t_length (c_tree c')) /\
       completes c' w' H') \/
    some_collision cr \/ forged_signature cr bs (kp_public (c_keypair c)).
  Proof.
    intros RC Hh Hrun.
    destruct (lrun_inv ss c d j ev H c' w' RC Hh Hrun) as [(H' & RC' & Hm & Hq & Hk & Hl)|Esc]; [|right; exact Esc].
    left. exists H'. pose proof RC' as [X' _].
    assert (Hhas : forall i, core_has c' i = H' i) by (intros i; apply (RD_has cr bs c' (w_disk w') _ i X')).
    split; [intros i Hi; rewrite Hhas; apply Hm, Hi|]. split; [intros i Hr; rewrite Hhas; apply Hq, Hr|].
    split; [exact Hhas|]. split.
    { intros i j2 ev2 Hi. rewrite (RD_get cr bs Hw c' (w_disk w') _ j2 ev2 i X'). rewrite <- Hhas, Hi. reflexivity. }
    split; [exact Hk|]. split; [exact Hl|]. split.
    { pose proof (RDInv_RInv cr bs c' (w_disk w') H' X') as (_ & _ & _ & Wbl & _). exact Wbl. }
    apply RCInv_completes, RC'.
  Qed.

  (* the same from a replica created from the public key alone *)
  Theorem C04_fresh_history_then_complete kp ss :
    OplogFacts.keypair_ok kp = true -> kp_secret kp = None ->
    exists d0 ops0 c0,
      core_open cr (Some kp) false disk_empty = (d0, ops0, Ok c0) /\
      (lhist ss c0 (mkWorld d0 [] []) ->
       forall c' w', lrun ss c0 (mkWorld d0 [] []) = Some (c', w') ->
       (exists H',
          (forall i, lrequested ss i -> core_has c' i = true) /\
          (forall i, core_has c' i = H' i) /\
          (forall i j2 ev2, core_has c' i = true ->
             core_get i c' (mkWorld (w_disk w') j2 ev2) = (c', mkWorld (w_disk w') j2 ev2, Ok (Some (blk bs i)))) /\
          t_byte_length (c_tree c') = prefix_size bs (t_length (c_tree c')) /\
          completes c' w' H') \/
       some_collision cr \/ forged_signature cr bs (kp_public kp)).
  Proof.
    intros Hk Hs.
    destruct (RDInv_fresh cr Hcrc Hhash32 Hnonblank bs kp Hk Hs) as (d0 & ops0 & c0 & Hopen & X & K & L0).
    exists d0, ops0, c0. split; [exact Hopen|]. intros Hh c' w' Hrun.
    destruct (C04_history_then_complete ss c0 d0 [] [] (fun _ => false) c' w'
                (RCInv_length0 cr bs c0 d0 _ X L0) Hh Hrun)
      as [(H' & _ & Hq & Hhas & Hget & _ & _ & Hb & Hc)|Esc].
    - left. exists H'. repeat (split; [assumption|]). exact Hc.
    - right. rewrite <- K. exact Esc.
  Qed.

  (* ---------- 5. progress: only the death of the process in an adversarial application stops such a history ---------- *)

  Definition died (r : res bool) : Prop := match r with Panic _ => True | OutOfFuel => True | _ => False end.

  Theorem lrun_progress ss : forall c d j ev H,
    RCInv cr bs c d H -> lhist ss c (mkWorld d j ev) -> lrun ss c (mkWorld d j ev) = None ->
    (exists pre f pf post c1 w1,
       ss = pre ++ LAdv f pf :: post /\ lrun pre c (mkWorld d j ev) = Some (c1, w1) /\
       died (snd (core_apply_proof cr f pf c1 w1))) \/
    some_collision cr \/ forged_signature cr bs (kp_public (c_keypair c)).
  Proof.
    induction ss as [|s ss IH]; intros c d j ev H RC Hh Hrun; [discriminate Hrun|].
    cbn [lrun] in Hrun. cbn [lhist] in Hh. destruct Hh as [Hpre Hrest]. cbn [w_disk] in Hpre.
    destruct (lexec c (mkWorld d j ev) s) as [[c1 w1]|] eqn:Hex.
    - destruct (lstep c d j ev H s c1 w1 RC Hpre Hex) as [(H1 & RC1 & _ & _ & Hk1 & _)|Esc]; [|right; exact Esc].
      destruct w1 as [d1 j1 ev1]. cbn [w_disk] in RC1.
      destruct (IH c1 d1 j1 ev1 H1 RC1 (Hrest _ _ eq_refl) Hrun)
        as [(pre & f & pf & post & c2 & w2 & E & Hr & Hd)|Esc].
      + left. exists (s :: pre), f, pf, post, c2, w2. split; [rewrite E; reflexivity|].
        split; [cbn [lrun]; rewrite Hex; exact Hr|exact Hd].
      + right. rewrite <- Hk1. exact Esc.
    - destruct s as [f pf|e]; cbn [lexec lpre] in *.
      + left. exists [], f, pf, ss, c, (mkWorld d j ev). split; [reflexivity|]. split; [reflexivity|].
        destruct (core_apply_proof cr f pf c (mkWorld d j ev)) as [[c1 w1] r]. cbn [snd].
        destruct r; try discriminate Hex; exact I.
      + pose proof (pre_all_of_ng cr Hhash32 bs Hw c d H e RC Hpre) as Hpre'.
        destruct (honest_event_step cr Hcrc Hhash32 Hnonblank Hhashbytes bs Hw c d j ev H e RC Hpre')
          as (c1 & w1 & Hex1 & _).
        rewrite Hex1 in Hex. discriminate Hex.
  Qed.
End Liveness.

Print Assumptions apply_keeps_RCInv.
Print Assumptions adv_step.
Print Assumptions C04_then_complete.
Print Assumptions lrun_inv.
Print Assumptions C04_history_then_complete.
Print Assumptions C04_fresh_history_then_complete.
Print Assumptions lrun_progress.

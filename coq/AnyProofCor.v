(* AnyProofCor.v -- C09 / C13 on replicas reached by proofs of ANY shape.  Library: AnyProofCorLib.v;
   examples on the toy instance sc_cr: AnyProofCorEx.v.

   AnyProof.v keeps, through every outcome of core_apply_proof on a proof of any shape, the hash-level
   invariant HInv (roots, length, byte length in memory are the writer's; every visible node has the
   writer's hash; sizes of stored nodes unconstrained).  Here its consequences:

   1. (C09, creation side) HInv_tree_wf: the tree of an HInv replica over a writer of fewer than 2^40
      blocks is NoPanic2.tree_wf; hence after ANY history of calls on a replica -- apply of proofs of
      any shape with any outcome (accepted, refused, failed half-way), reads, proof requests,
      missing_nodes, make_read_only, append attempts -- core_create_proof returns a value or an error and
      leaves core, disk and journal unchanged (any_history_create_proof_returns,
      fresh_any_history_create_proof_returns).
   2. (C09, verification side) apply_any_outcome: every outcome of core_apply_proof on an HInv replica;
      apply_any_returns: a value or an error for every proof with fields below 2^40 whose announced sizes
      fit, the only panic left being the 2^30 frame guard.  The new point compared with
      ReplicaCorA.apply_replica_returns is byte_offset_in_changeset: its checked subtraction
      "node.length - parent.length" meets sizes the peer chose freely -- but never on the path above the
      carried block (hinv_block_offset_returns, from AnyProofCorLib.accepted_path_sizes).
   3. (C13) HBInv := HInv /\ bounded is kept by every outcome of core_apply_proof of any shape
      (apply_any_keeps_HBInv); any_history_avail: nothing is lost, everything announced is available and
      lies below the final length, and availability at the end = initial + announced when every apply
      returned Ok.
   tree_root_fits, a hypothesis of AnyProof.v, follows from proof_wire (AnyProofCorLib.proof_wire_root_fits). *)
From HC Require Import Base NMap Codec CodecFacts Crypto FlatTree Storage Bitfield Oplog Merkle Core.
From HC Require Import FlatTreeFacts StorageFacts BitfieldFacts OplogFacts TreeRef OffsetFacts CoreFacts
                       Sound NoPanic Refine Replicate SoundCoreLib SoundCore SoundCoreUp SoundCoreBU
                       NoPanic2 EventsAvail CacheModel CacheOps ReplicaCor ReplicaCorA
                       AnyProofLib AnyProofUp AnyProof AnyProofCorLib.
From Coq Require Import FMapPositive ZifyN ZifyNat ZifyBool.
Ltac Zify.zify_post_hook ::= Z.div_mod_to_equations.
Arguments N.add : simpl never.
Arguments N.sub : simpl never.
Arguments N.mul : simpl never.
Arguments N.div : simpl never.
Arguments N.modulo : simpl never.
Arguments N.pow : simpl never.
Arguments N.eqb : simpl never.
Arguments N.ltb : simpl never.
Arguments N.leb : simpl never.
Arguments N.of_nat : simpl never.
Arguments N.to_nat : simpl never.

(* ====================================================================================== *)
(* 0. Calls of a replica history, proofs of any shape                                      *)
(* ====================================================================================== *)

(* AnyProof.v states its theorems under tree_root_fits ("the node the block / hash / seek sections climb to
   has a u64 flat index").  It is a consequence of proof_wire (AnyProofCorLib.proof_wire_root_fits: a computed
   parent has an index below the larger index of its children, and supplied nodes have u64 indices), so
   it does not appear below. *)

(* which calls of EventsAvail.op make up a replica history: proofs of ANY shape that the wire decoder can
   produce (AnyProof.proof_wire), reads, proof creation, missing_nodes, append attempts (refused: the
   replica has no secret key) and make_read_only (left out of ReplicaCor.replica_op; its flush keeps the
   hash-level invariant whatever its outcome) *)
Definition any_op (cr : crypto) (o : op) : Prop :=
  match o with
  | OApply _ pf => proof_wire pf
  | _ => True
  end.

(* ====================================================================================== *)
(* 1. C09, creation side                                                                   *)
(* ====================================================================================== *)

Section AnyA.
  Variable cr : crypto.
  Hypothesis Hhash32 : forall x, length (cr_hash cr x) = 32%nat.
  Hypothesis Hnonblank : forall x, all_zero (cr_hash cr x) = false.
  Variable bs : list bytes.
  Hypothesis Hw : writer_fits bs.

  Lemma HInv_tree_shape c d :
    HInv cr bs c d -> N.of_nat (length bs) < LIM -> t_length (c_tree c) < LIM /\ roots_ok (c_tree c).
  Proof.
    intros (H1 & _ & H3 & _) Hn. split; [lia|].
    unfold roots_ok. rewrite H3. apply ref_roots_indices.
  Qed.

  Theorem HInv_tree_wf c d :
    HInv cr bs c d -> N.of_nat (length bs) < LIM -> sig_ok (c_tree c) -> tree_wf (c_tree c).
  Proof.
    intros W Hn Hs. destruct (HInv_tree_shape c d W Hn) as [HL HR]. split; [exact HL|]. split; assumption.
  Qed.

  (* create_proof on an HInv replica: a value or an error for every request with fields below 2^40;
     core, disk and journal are left as they were *)
  Theorem hinv_create_proof_returns c w block hash seek upgrade c' w' r :
    HInv cr bs c (w_disk w) -> N.of_nat (length bs) < LIM -> sig_ok (c_tree c) ->
    rblock_lim block = true -> rblock_lim hash = true -> rupgrade_lim upgrade = true ->
    core_create_proof block hash seek upgrade c w = (c', w', r) ->
    returns r = true /\ c' = c /\ w_disk w' = w_disk w /\ w_journal w' = w_journal w.
  Proof.
    intros W Hn Hs Hb Hh Hu H.
    exact (core_create_proof_returns block hash seek upgrade c w c' w' r (HInv_tree_wf c _ W Hn Hs) Hb Hh Hu H).
  Qed.

  (* a tree flush, complete or not, keeps the hash-level invariant *)
  Lemma flush_rel_hinv c d c' d' :
    HInv cr bs c d -> flush_rel (c_tree c) (d_tree d) (c_tree c') (d_tree d') -> HInv cr bs c' d'.
  Proof.
    intros (H1 & H2 & H3 & H4 & H5 & H6) [[Et Ed]|(tops & d1 & d2 & Hfl & Ed1 & Ha & Ed2)].
    - unfold HInv. cbv zeta. rewrite Et, Ed. exact (conj H1 (conj H2 (conj H3 (conj H4 (conj H5 H6))))).
    - pose proof (hunfl_sound_ok cr Hhash32 bs _ _ H5) as Hok.
      destruct (tree_flush_other_stores (c_tree c) (c_tree c') tops d1 d2 Hfl Ha Hok) as (_ & _ & _ & R1 & R2 & R3 & R4 & _).
      rewrite <- Ed1 in H6.
      destruct (tree_flush_hsound cr Hhash32 bs (c_tree c) (c_tree c') tops d1 d2 _ Hfl Ha H5 H6) as [S2 S3].
      unfold HInv. cbv zeta. rewrite Ed2, R1, R2, R3, R4.
      exact (conj H1 (conj H2 (conj H3 (conj H4 (conj S2 S3))))).
  Qed.

  (* make_read_only, whatever its outcome, keeps the hash-level invariant; the secret key is dropped *)
  Lemma make_read_only_hinv c w c' w' r :
    HInv cr bs c (w_disk w) -> core_make_read_only cr c w = (c', w', r) ->
    HInv cr bs c' (w_disk w') /\ c_keypair c' = mkKeypair (kp_public (c_keypair c)) None.
  Proof.
    intros W H. unfold core_make_read_only in H. rewrite mbind_get_core in H. cbv zeta in H.
    rewrite mbind_put_keypair, mbind_put_header in H.
    apply mbind_inv in H. destruct H as (c1 & w1 & r1 & Hfl & H).
    pose proof (flush_all_tree_any cr true _ _ _ _ _ Hfl) as R. cbn [c_tree] in R.
    pose proof (flush_all_keeps_keypair cr true _ _ _ _ _ Hfl) as K. cbn [c_keypair] in K.
    assert (E : c' = c1 /\ w' = w1).
    { destruct r1 as [u|e|s|]; [unfold ret in H; injection H as <- <- _; split; reflexivity| | |];
        destruct H as (-> & -> & _); split; reflexivity. }
    destruct E as [-> ->]. split; [|exact K].
    apply (flush_rel_hinv (mkCore (c_keypair c) (c_oplog c) (c_tree c) (c_bitfield c) (c_header c) (c_skip c)) (w_disk w));
      [exact W|exact R].
  Qed.

  Lemma keypair_public_only (k : keypair) : kp_secret k = None -> mkKeypair (kp_public k) None = k.
  Proof. destruct k as [pk sk]. cbn [kp_secret kp_public]. intros ->. reflexivity. Qed.

  (* one call of a history, whatever its outcome *)
  Lemma any_step o c w c' w' ok :
    HInv cr bs c (w_disk w) -> kp_secret (c_keypair c) = None -> any_op cr o ->
    run_op cr o c w = (c', w', ok) ->
    (HInv cr bs c' (w_disk w') /\ c_keypair c' = c_keypair c) \/
    some_collision cr \/ forged_signature cr bs (kp_public (c_keypair c)).
  Proof.
    intros W Hsec Hop H.
    destruct o as [f batch|f pf|i|b h s u|i|]; cbn [any_op] in Hop; cbn [run_op] in H;
      apply forget_inv in H; destruct H as (r & H & _).
    - left. unfold core_append in H. rewrite mbind_get_core, Hsec in H. unfold lift in H.
      injection H as <- <- _. split; [exact W|reflexivity].
    - pose proof Hop as Hwire. destruct w as [d j ev]. cbn [w_disk] in W.
      destruct (apply_any_proof_any_outcome cr Hhash32 bs Hw f pf c d j ev c' w' r W Hwire
                  (proof_wire_root_fits cr Hhash32 pf _ Hwire) H) as [W'|[C|F]]; [left|right; left; exact C|right; right; exact F].
      split; [exact W'|exact (apply_keeps_keypair cr f pf _ _ _ _ _ H)].
    - left. destruct (core_get_quiet i _ _ _ _ _ H) as (-> & -> & _). split; [exact W|reflexivity].
    - left. destruct (core_create_proof_quiet b h s u _ _ _ _ _ H) as (-> & -> & _). split; [exact W|reflexivity].
    - left. destruct (proj1 (core_missing_nodes_quiet i) _ _ _ _ _ H) as (-> & -> & _). split; [exact W|reflexivity].
    - left. destruct (make_read_only_hinv c w c' w' r W H) as [W' K]. split; [exact W'|].
      rewrite K. apply keypair_public_only, Hsec.
  Qed.

  (* HInv along histories of calls with ANY outcomes *)
  Theorem any_history_HInv ops : forall c w c' w' oks,
    HInv cr bs c (w_disk w) -> kp_secret (c_keypair c) = None -> Forall (any_op cr) ops ->
    run_ops cr ops c w = (c', w', oks) ->
    (HInv cr bs c' (w_disk w') /\ c_keypair c' = c_keypair c) \/
    some_collision cr \/ forged_signature cr bs (kp_public (c_keypair c)).
  Proof.
    induction ops as [|o rest IH]; intros c w c' w' oks W Hsec Hops H.
    - cbn [run_ops] in H. injection H as <- <- _. left. split; [exact W|reflexivity].
    - cbn [run_ops] in H.
      destruct (run_op cr o c w) as [[c1 w1] ok] eqn:S1.
      destruct (run_ops cr rest c1 w1) as [[c2 w2] oks2] eqn:S2.
      injection H as <- <- _. inversion Hops as [|o' rest' Ho Hrest]; subst.
      destruct (any_step o c w c1 w1 ok W Hsec Ho S1) as [(W1 & K1)|[C|F]];
        [|right; left; exact C|right; right; exact F].
      assert (Hsec1 : kp_secret (c_keypair c1) = None) by (rewrite K1; exact Hsec).
      destruct (IH c1 w1 c2 w2 oks2 W1 Hsec1 Hrest S2) as [(W2 & K2)|[C|F]];
        [left|right; left; exact C|right; right; rewrite <- K1; exact F].
      split; [exact W2|congruence].
  Qed.

  (* C09 (creation side) for every state a replica reaches by calls with ANY outcomes, proofs of ANY shape *)
  Theorem any_history_tree_wf ops c w c' w' oks :
    HInv cr bs c (w_disk w) -> sig_ok (c_tree c) -> kp_secret (c_keypair c) = None ->
    N.of_nat (length bs) < LIM -> Forall (any_op cr) ops ->
    run_ops cr ops c w = (c', w', oks) ->
    (HInv cr bs c' (w_disk w') /\ tree_wf (c_tree c')) \/
    some_collision cr \/ forged_signature cr bs (kp_public (c_keypair c)).
  Proof.
    intros W Hs Hsec Hn Hops H.
    destruct (any_history_HInv ops c w c' w' oks W Hsec Hops H) as [(W' & _)|[C|F]];
      [left|right; left; exact C|right; right; exact F].
    split; [exact W'|]. apply (HInv_tree_wf c' _ W' Hn).
    exact (run_ops_sig cr ops _ _ _ _ _ H Hs).
  Qed.

  Corollary any_history_create_proof_returns ops c w c' w' oks block hash seek upgrade c2 w2 r :
    HInv cr bs c (w_disk w) -> sig_ok (c_tree c) -> kp_secret (c_keypair c) = None ->
    N.of_nat (length bs) < LIM -> Forall (any_op cr) ops ->
    run_ops cr ops c w = (c', w', oks) ->
    rblock_lim block = true -> rblock_lim hash = true -> rupgrade_lim upgrade = true ->
    core_create_proof block hash seek upgrade c' w' = (c2, w2, r) ->
    (returns r = true /\ c2 = c' /\ w_disk w2 = w_disk w' /\ w_journal w2 = w_journal w') \/
    some_collision cr \/ forged_signature cr bs (kp_public (c_keypair c)).
  Proof.
    intros W Hs Hsec Hn Hops H Hb Hh Hu Hc.
    destruct (any_history_tree_wf ops c w c' w' oks W Hs Hsec Hn Hops H) as [(_ & Hwf)|[C|F]];
      [left|right; left; exact C|right; right; exact F].
    exact (core_create_proof_returns block hash seek upgrade c' w' c2 w2 r Hwf Hb Hh Hu Hc).
  Qed.

  (* ... in particular from a FRESH replica (core_open on an empty disk with a public key only) *)
  Corollary fresh_any_history_create_proof_returns kp ops block hash seek upgrade :
    len (enc_header (header_new kp)) < 1073741824 -> kp_secret kp = None ->
    N.of_nat (length bs) < LIM -> Forall (any_op cr) ops ->
    rblock_lim block = true -> rblock_lim hash = true -> rupgrade_lim upgrade = true ->
    exists d0 ops0 c0,
      core_open cr (Some kp) false disk_empty = (d0, ops0, Ok c0) /\
      forall j ev c' w' oks c2 w2 r,
        run_ops cr ops c0 (mkWorld d0 j ev) = (c', w', oks) ->
        core_create_proof block hash seek upgrade c' w' = (c2, w2, r) ->
        (returns r = true /\ c2 = c' /\ w_disk w2 = w_disk w' /\ w_journal w2 = w_journal w') \/
        some_collision cr \/ forged_signature cr bs (kp_public kp).
  Proof.
    intros Hsmall Hsec Hn Hops Hb Hh Hu.
    destruct (fresh_replica cr Hhash32 Hnonblank bs kp Hsmall) as (d0 & ops0 & c0 & Ho & W & K & Hs).
    exists d0, ops0, c0. split; [exact Ho|].
    intros j ev c' w' oks c2 w2 r Hrun Hc. rewrite <- K.
    apply (any_history_create_proof_returns ops c0 (mkWorld d0 j ev) c' w' oks block hash seek upgrade c2 w2 r);
      try assumption.
    - cbn [w_disk]. apply (RInv_HInv cr bs Hw c0 d0 W).
    - rewrite K. exact Hsec.
  Qed.
End AnyA.


(* ====================================================================================== *)
(* 3. C13: no bit at or above the length, availability = initial + announced               *)
(* ====================================================================================== *)

Section AnyB.
  Variable cr : crypto.
  Hypothesis Hhash32 : forall x, length (cr_hash cr x) = 32%nat.
  Hypothesis Hnonblank : forall x, all_zero (cr_hash cr x) = false.
  Variable bs : list bytes.
  Hypothesis Hw : writer_fits bs.

  (* the hash-level invariant together with "no bitfield bit at or above the length" *)
  Definition HBInv (c : core) (d : disk) : Prop := HInv cr bs c d /\ bounded c.

  Lemma RInv_HBInv c d : RInv cr bs c d -> HBInv c d.
  Proof. intros W. split; [apply (RInv_HInv cr bs Hw c d W)|apply (RInv_bounded cr bs c d W)]. Qed.

  (* the length after the commit of a verified proof is one below which the carried block lies *)
  Lemma newlen_above_block pf c w c' :
    HInv cr bs c (w_disk w) -> proof_wire pf ->
    apply_newlen cr pf c w c' ->
    (t_length (c_tree c) <= t_length (c_tree c') /\
     forall b, p_block pf = Some b -> db_value b = blk bs (db_index b) /\ db_index b < t_length (c_tree c'))
    \/ some_collision cr \/ forged_signature cr bs (kp_public (c_keypair c)).
  Proof.
    intros (H1 & H2 & H3 & H4 & H5 & H6) Hwire (cs & V & TL & Mono).
    pose proof (proof_wire_root_fits cr Hhash32 pf (c_tree c) Hwire) as Hfits.
    destruct (verify_proof_accepted cr Hhash32 bs Hw _ _ _ _ _ H1 H3 H4 H5 H6 Hwire Hfits V)
      as [(m & Acc)|[C|F]]; [left|right; left; exact C|right; right; exact F].
    split; [exact Mono|]. intros b Eb.
    destruct (ac_block _ _ _ _ _ _ _ _ Acc b Eb) as (B1 & B2 & _). split; [exact B1|].
    assert (Em : t_length (c_tree c') = m).
    { rewrite TL. destruct (cs_upgraded cs) eqn:Up.
      - apply (ac_len _ _ _ _ _ _ _ _ Acc).
      - symmetry. apply (ac_same _ _ _ _ _ _ _ _ Acc Up). }
    rewrite Em. exact B2.
  Qed.

  (* EVERY outcome of core_apply_proof on a proof of any shape keeps "bounded"; nothing is lost and the
     length does not decrease *)
  Theorem apply_any_keeps_bounded f pf c w c' w' r :
    HInv cr bs c (w_disk w) -> proof_wire pf -> bounded c ->
    core_apply_proof cr f pf c w = (c', w', r) ->
    (bounded c' /\ t_length (c_tree c) <= t_length (c_tree c'))
    \/ some_collision cr \/ forged_signature cr bs (kp_public (c_keypair c)).
  Proof.
    intros W Hwire B H. apply apply_outcome in H.
    assert (Late : (forall i, core_has c' i = core_has c i || carried pf i) ->
                   apply_newlen cr pf c w c' ->
                   (bounded c' /\ t_length (c_tree c) <= t_length (c_tree c'))
                   \/ some_collision cr \/ forged_signature cr bs (kp_public (c_keypair c))).
    { intros Has NL.
      destruct (newlen_above_block pf c w c' W Hwire NL) as [(Mono & Hblk)|[C|F]];
        [left|right; left; exact C|right; right; exact F].
      split; [|exact Mono]. intros i Hi.
      rewrite Has, B by lia. unfold carried.
      destruct (p_block pf) as [b|]; [|reflexivity].
      destruct (Hblk b eq_refl) as [_ Hlt]. cbn [orb]. lia. }
    assert (Early : (forall i, core_has c' i = core_has c i) -> c_tree c' = c_tree c ->
                    (bounded c' /\ t_length (c_tree c) <= t_length (c_tree c'))
                    \/ some_collision cr \/ forged_signature cr bs (kp_public (c_keypair c))).
    { intros Has TL. left. rewrite TL. split; [|lia]. intros i Hi. rewrite Has. apply B. rewrite <- TL. exact Hi. }
    destruct r as [[|]|e|s|].
    - destruct H as (Has & NL). exact (Late Has NL).
    - destruct H as (-> & _). left. split; [exact B|lia].
    - destruct H as [(Has & TL & _)|(Has & NL & _)]; [exact (Early Has TL)|exact (Late Has NL)].
    - destruct H as [(Has & TL & _)|(Has & NL & _)]; [exact (Early Has TL)|exact (Late Has NL)].
    - destruct H as [(Has & TL & _)|(Has & NL & _)]; [exact (Early Has TL)|exact (Late Has NL)].
  Qed.

  (* HBInv is preserved by EVERY outcome of core_apply_proof, whatever the shape of the proof *)
  Theorem apply_any_keeps_HBInv f pf c w c' w' r :
    HBInv c (w_disk w) -> proof_wire pf ->
    core_apply_proof cr f pf c w = (c', w', r) ->
    (HBInv c' (w_disk w') /\ t_length (c_tree c) <= t_length (c_tree c'))
    \/ some_collision cr \/ forged_signature cr bs (kp_public (c_keypair c)).
  Proof.
    intros [W B] Hwire H.
    pose proof (proof_wire_root_fits cr Hhash32 pf (c_tree c) Hwire) as Hfits.
    destruct (apply_any_keeps_bounded f pf c w c' w' r W Hwire B H) as [(B' & Mono)|[C|F]];
      [|right; left; exact C|right; right; exact F].
    destruct w as [d j ev]. cbn [w_disk] in W.
    destruct (apply_any_proof_any_outcome cr Hhash32 bs Hw f pf c d j ev c' w' r W Hwire Hfits H)
      as [W'|[C|F]]; [left|right; left; exact C|right; right; exact F].
    split; [split; assumption|exact Mono].
  Qed.

  (* an ACCEPTED proof of any shape: HBInv, the accepted block is the writer's and lies below the new
     length, exactly the carried block became available *)
  Corollary apply_any_accepted_HBInv f pf c w c' w' :
    HBInv c (w_disk w) -> proof_wire pf ->
    core_apply_proof cr f pf c w = (c', w', Ok true) ->
    (HBInv c' (w_disk w') /\ t_length (c_tree c) <= t_length (c_tree c') /\
     (forall b, p_block pf = Some b -> db_value b = blk bs (db_index b) /\ db_index b < t_length (c_tree c')) /\
     (forall i, core_has c' i = core_has c i || carried pf i))
    \/ some_collision cr \/ forged_signature cr bs (kp_public (c_keypair c)).
  Proof.
    intros WB Hwire H.
    destruct (apply_any_keeps_HBInv f pf c w c' w' _ WB Hwire H) as [(WB' & Mono)|[C|F]];
      [|right; left; exact C|right; right; exact F].
    pose proof (apply_outcome cr _ _ _ _ _ _ _ H) as (Has & NL).
    destruct (newlen_above_block pf c w c' (proj1 WB) Hwire NL) as [(_ & Hblk)|[C|F]];
      [left|right; left; exact C|right; right; exact F].
    split; [exact WB'|]. split; [exact Mono|]. split; [exact Hblk|exact Has].
  Qed.

  (* one call of a replica history, ANY outcome *)
  Lemma any_step_avail o c w c' w' ok :
    HBInv c (w_disk w) -> kp_secret (c_keypair c) = None -> any_op cr o ->
    run_op cr o c w = (c', w', ok) ->
    (HBInv c' (w_disk w') /\ c_keypair c' = c_keypair c /\
     t_length (c_tree c) <= t_length (c_tree c') /\
     exists evs, w_events w' = evs ++ w_events w /\
       (forall i, core_has c i || announced evs i = true -> core_has c' i = true) /\
       ((is_apply o = true -> ok = true) -> forall i, core_has c' i = core_has c i || announced evs i)) \/
    some_collision cr \/ forged_signature cr bs (kp_public (c_keypair c)).
  Proof.
    intros WB Hsec Hop H.
    destruct (step_avail cr o c w c' w' ok H) as (evs & Ev & Hfail & Mono & Eq).
    assert (Sound1 : forall i, core_has c i || announced evs i = true -> core_has c' i = true).
    { intros i Hi. destruct ok.
      - rewrite (Eq eq_refl). exact Hi.
      - rewrite (Hfail eq_refl) in Hi. cbn [announced existsb] in Hi. rewrite orb_false_r in Hi.
        apply Mono, Hi. }
    (* the calls that leave the core as it was *)
    assert (RO : c' = c -> w_disk w' = w_disk w -> is_apply o = false ->
                 HBInv c' (w_disk w') /\ c_keypair c' = c_keypair c /\
                 t_length (c_tree c) <= t_length (c_tree c') /\
                 exists evs, w_events w' = evs ++ w_events w /\
                   (forall i, core_has c i || announced evs i = true -> core_has c' i = true) /\
                   ((is_apply o = true -> ok = true) -> forall i, core_has c' i = core_has c i || announced evs i)).
    { intros E Hd Hna. subst c'. rewrite Hd. split; [exact WB|]. split; [reflexivity|]. split; [lia|].
      exists evs. split; [exact Ev|]. split; [exact Sound1|]. intros _. destruct ok.
      - apply Eq. reflexivity.
      - rewrite (Hfail eq_refl). intros i. cbn [announced existsb]. now rewrite orb_false_r. }
    destruct o as [f batch|f pf|i|b h s u|i|]; cbn [any_op] in Hop; cbn [run_op] in H;
      apply forget_inv in H; destruct H as (r & H & Hr).
    - left. unfold core_append in H. rewrite mbind_get_core, Hsec in H. unfold lift in H.
      injection H as <- <- _. apply RO; reflexivity.
    - pose proof Hop as Hwire.
      destruct (apply_any_keeps_HBInv f pf c w c' w' r WB Hwire H) as [(WB' & Mono')|[C|F]];
        [left|right; left; exact C|right; right; exact F].
      split; [exact WB'|]. split; [exact (apply_keeps_keypair cr f pf _ _ _ _ _ H)|]. split; [exact Mono'|].
      exists evs. split; [exact Ev|]. split; [exact Sound1|].
      intros Hok. apply Eq. apply Hok. reflexivity.
    - left. destruct (core_get_quiet i _ _ _ _ _ H) as (E1 & E2 & _). apply RO; [assumption|assumption|reflexivity].
    - left. destruct (core_create_proof_quiet b h s u _ _ _ _ _ H) as (E1 & E2 & _).
      apply RO; [assumption|assumption|reflexivity].
    - left. destruct (proj1 (core_missing_nodes_quiet i) _ _ _ _ _ H) as (E1 & E2 & _).
      apply RO; [assumption|assumption|reflexivity].
    - left. destruct WB as [W B].
      destruct (make_read_only_hinv cr Hhash32 bs c w c' w' r W H) as [W' K].
      destruct (make_read_only_keeps_bounded cr c w c' w' r B H) as [B' TL].
      destruct (read_only_calls_keep_availability cr) as (_ & _ & _ & _ & RO5).
      destruct (RO5 c w c' w' r H) as [Has _].
      split; [split; assumption|]. split; [rewrite K; apply keypair_public_only, Hsec|]. split; [lia|].
      exists evs. split; [exact Ev|]. split; [exact Sound1|]. intros _. destruct ok.
      + apply Eq. reflexivity.
      + rewrite (Hfail eq_refl). intros i. cbn [announced existsb]. rewrite orb_false_r. apply Has.
  Qed.

  (* C13 for replica histories of calls with ANY outcomes and proofs of ANY shape.  [evs] are the events
     sent during the run.  The replica keeps HBInv; nothing is lost and everything announced is available
     at the end; every announced index lies below the final length; and when every apply returned Ok
     (ReplicaCor.applies_ok: accepted or refused; the other calls may fail) the availability at the end is
     EXACTLY the initial one plus what the Have events announced -- or a collision / a forged signature *)
  Theorem any_history_avail ops : forall c w c' w' oks,
    HBInv c (w_disk w) -> kp_secret (c_keypair c) = None -> Forall (any_op cr) ops ->
    run_ops cr ops c w = (c', w', oks) ->
    (HBInv c' (w_disk w') /\ c_keypair c' = c_keypair c /\
     t_length (c_tree c) <= t_length (c_tree c') /\
     exists evs, w_events w' = evs ++ w_events w /\
       (forall i, core_has c i || announced evs i = true -> core_has c' i = true) /\
       (applies_ok ops oks -> forall i, core_has c' i = core_has c i || announced evs i) /\
       (forall i, announced evs i = true -> i < t_length (c_tree c'))) \/
    some_collision cr \/ forged_signature cr bs (kp_public (c_keypair c)).
  Proof.
    induction ops as [|o rest IH]; intros c w c' w' oks WB Hsec Hops H.
    - cbn [run_ops] in H. injection H as <- <- _. left.
      split; [exact WB|]. split; [reflexivity|]. split; [lia|].
      exists []. split; [reflexivity|]. split; [|split].
      + intros i. cbn [announced existsb]. now rewrite orb_false_r.
      + intros _ i. cbn [announced existsb]. now rewrite orb_false_r.
      + intros i Hi. discriminate Hi.
    - cbn [run_ops] in H.
      destruct (run_op cr o c w) as [[c1 w1] ok] eqn:S1.
      destruct (run_ops cr rest c1 w1) as [[c2 w2] oks2] eqn:S2.
      injection H as <- <- <-. inversion Hops as [|o' rest' Ho Hrest]; subst.
      destruct (any_step_avail o c w c1 w1 ok WB Hsec Ho S1) as [(WB1 & K1 & M1 & e1 & Ev1 & Snd1 & Eq1)|[C|F]];
        [|right; left; exact C|right; right; exact F].
      assert (Hsec1 : kp_secret (c_keypair c1) = None) by (rewrite K1; exact Hsec).
      destruct (IH c1 w1 c2 w2 oks2 WB1 Hsec1 Hrest S2)
        as [(WB2 & K2 & M2 & e2 & Ev2 & Snd2 & Eq2 & _)|[C|F]];
        [left|right; left; exact C|right; right; rewrite <- K1; exact F].
      split; [exact WB2|]. split; [congruence|]. split; [lia|].
      exists (e2 ++ e1). split; [rewrite Ev2, Ev1, app_assoc; reflexivity|].
      assert (Snd : forall i, core_has c i || announced (e2 ++ e1) i = true -> core_has c2 i = true).
      { intros i Hi. rewrite announced_app in Hi. apply Snd2.
        destruct (announced e2 i); [now rewrite orb_true_r|]. rewrite orb_false_r.
        cbn [orb] in Hi. rewrite (Snd1 i Hi). reflexivity. }
      split; [exact Snd|]. split.
      + cbn [applies_ok]. intros [Hok1 Hoks] i.
        rewrite (Eq2 Hoks), (Eq1 Hok1), announced_app.
        destruct (core_has c i), (announced e1 i), (announced e2 i); reflexivity.
      + intros i Hi. destruct WB2 as [_ B2].
        destruct (N.lt_ge_cases i (t_length (c_tree c2))) as [L|L]; [exact L|].
        pose proof (B2 i L) as Hno. rewrite (Snd i) in Hno; [discriminate Hno|].
        rewrite Hi. apply orb_true_r.
  Qed.
End AnyB.


(* ====================================================================================== *)
(* 2. C09, verification side: every outcome of apply on an HInv replica                    *)
(* ====================================================================================== *)

Section AnyC.
  Variable cr : crypto.
  Hypothesis Hhash32 : forall x, length (cr_hash cr x) = 32%nat.
  Hypothesis Hnonblank : forall x, all_zero (cr_hash cr x) = false.
  Variable bs : list bytes.
  Hypothesis Hw : writer_fits bs.

  (* EVERY outcome of core_apply_proof on an HInv replica, proof of ANY shape: accepted with the
     invariant kept; or the state is unchanged (refusal at a gate, failure of the verifier, or failure of
     byte_offset_in_changeset for the carried block); or the result is the panic of the 2^30 frame guard
     (entry frame: nothing written; header frame of the flush: the invariant is kept) -- modulo an
     explicit hash collision / forged signature.  Generalises ReplicaCorA.apply_replica_outcome. *)
  Theorem apply_any_outcome f pf c w c' w' r :
    HInv cr bs c (w_disk w) -> proof_wire pf ->
    core_apply_proof cr f pf c w = (c', w', r) ->
    (r = Ok true /\ HInv cr bs c' (w_disk w')) \/
    (c' = c /\ w' = w /\ unchanged_outcome cr pf c w r) \/
    (r = Panic frame_msg /\ HInv cr bs c' (w_disk w')) \/
    some_collision cr \/ forged_signature cr bs (kp_public (c_keypair c)).
  Proof.
    intros W Hwire H. pose proof H as H0. pose proof W as (H1 & H2 & H3 & H4 & H5 & H6).
    pose proof (proof_wire_root_fits cr Hhash32 pf (c_tree c) Hwire) as Hfits.
    destruct (N.eq_dec (p_fork pf) (t_fork (c_tree c))) as [Ef|Ef].
    2:{ rewrite (apply_fork_mismatch cr f pf c w Ef) in H. injection H as <- <- <-.
        right. left. split; [reflexivity|]. split; [reflexivity|]. left. reflexivity. }
    destruct (verifier_says cr c w pf) as [cs|e|s|] eqn:V.
    2:{ rewrite (apply_verify_error cr f pf c w e Ef V) in H. injection H as <- <- <-.
        right. left. split; [reflexivity|]. split; [reflexivity|]. right. left. rewrite V. reflexivity. }
    2:{ rewrite (apply_verify_panic cr f pf c w s Ef V) in H. injection H as <- <- <-.
        right. left. split; [reflexivity|]. split; [reflexivity|]. right. left. rewrite V. reflexivity. }
    2:{ rewrite (apply_verify_out_of_fuel cr f pf c w Ef V) in H. injection H as <- <- <-.
        right. left. split; [reflexivity|]. split; [reflexivity|]. right. left. rewrite V. exact I. }
    destruct (commitable (c_tree c) cs) eqn:Cm.
    2:{ rewrite (apply_not_commitable cr f pf c w cs V Cm) in H. injection H as <- <- <-.
        right. left. split; [reflexivity|]. split; [reflexivity|]. left. reflexivity. }
    rewrite (apply_gates_pass cr f pf c w cs Ef V Cm) in H.
    unfold verifier_says in V.
    destruct (verify_proof_accepted cr Hhash32 bs Hw _ _ _ _ _ H1 H3 H4 H5 H6 Hwire Hfits V)
      as [(m & Acc)|[C|F]]; [|right; right; right; left; exact C|right; right; right; right; exact F].
    assert (H32 : forall x, In x (cs_nodes cs) -> length (n_hash x) = 32%nat).
    { intros x Hx. pose proof (ac_nodes _ _ _ _ _ _ _ _ Acc) as A. rewrite Forall_forall in A.
      destruct (A x Hx) as [_ [B _]]. exact B. }
    (* the part behind the block write *)
    assert (Cont : forall bu w1,
               (log_and_commit cr cs bu ;;; maybe_flush cr f ;;;
                (match p_upgrade pf with Some _ => send EvUpgrade | None => ret tt end) ;;;
                (match bu with Some u => send (EvHave (bu_start u) (bu_length u) false) | None => ret tt end) ;;;
                ret true) c w1 = (c', w', r) ->
               r = Ok true \/ r = Panic frame_msg).
    { intros bu w1 HC.
      destruct (apply_commit cr _ _ _ _ _ V Cm) as (t' & Htc & _).
      destruct (log_and_commit_cases cr cs bu c w1 (verify_proof_hashed cr _ _ _ _ _ V)
                  H32 (ex_intro _ t' Htc)) as [E|(c2 & w2 & E)].
      { rewrite (mbind_panic _ _ _ _ _ _ _ E) in HC. injection HC as _ _ <-. right. reflexivity. }
      rewrite (mbind_eq _ _ _ _ _ _ _ E) in HC.
      destruct (log_and_commit_inv cr cs bu c w1 c2 w2 tt E) as (t2 & Htc2 & Et2 & _).
      assert (Hok2 : unflushed_ok (c_tree c2)).
      { rewrite Et2.
        destruct (tree_commit_hinv cr bs _ _ _ _ _ _ _ Acc (eq_trans Ef H2) H2 H3 H4 H5 Htc2) as (_ & _ & _ & _ & T5).
        apply (hunfl_sound_ok cr Hhash32 bs t2 m T5). }
      destruct (maybe_flush_cases cr Hhash32 Hnonblank f c2 w2 Hok2) as [(c3 & w3 & E3)|(c3 & w3 & E3)].
      { rewrite (mbind_panic _ _ _ _ _ _ _ E3) in HC. injection HC as _ _ <-. right. reflexivity. }
      rewrite (mbind_eq _ _ _ _ _ _ _ E3) in HC.
      left. destruct (p_upgrade pf), bu; cbn in HC; injection HC as _ _ <-; reflexivity. }
    assert (Done : r = Ok true \/ r = Panic frame_msg ->
                   (r = Ok true /\ HInv cr bs c' (w_disk w')) \/
                   (c' = c /\ w' = w /\ unchanged_outcome cr pf c w r) \/
                   (r = Panic frame_msg /\ HInv cr bs c' (w_disk w')) \/
                   some_collision cr \/ forged_signature cr bs (kp_public (c_keypair c))).
    { intros Hr. destruct w as [d j ev]. cbn [w_disk] in *.
      destruct (apply_any_proof_any_outcome cr Hhash32 bs Hw f pf c d j ev c' w' r W Hwire Hfits H0)
        as [W'|[C|F]]; [|right; right; right; left; exact C|right; right; right; right; exact F].
      destruct Hr as [-> | ->]; [left|right; right; left]; (split; [reflexivity|exact W']). }
    unfold apply_tail in H.
    apply mbind_inv in H. destruct H as (c1 & w1 & r1 & Hbu & H).
    destruct (p_block pf) as [b|] eqn:Eb.
    - rewrite mbind_lift in Hbu.
      destruct (byte_offset_in_changeset (c_tree c) (d_tree (w_disk w)) (db_index b) cs) as [off|e|s|] eqn:Hoff.
      + rewrite mbind_emit_SW in Hbu. unfold ret in Hbu. injection Hbu as <- <- <-.
        apply Done. exact (Cont _ _ H).
      + injection Hbu as <- <- <-. destruct H as (-> & -> & ->).
        right. left. split; [reflexivity|]. split; [reflexivity|]. right. right.
        exists b, cs. split; [exact Eb|]. split; [exact V|]. rewrite Hoff. reflexivity.
      + injection Hbu as <- <- <-. destruct H as (-> & -> & ->).
        right. left. split; [reflexivity|]. split; [reflexivity|]. right. right.
        exists b, cs. split; [exact Eb|]. split; [exact V|]. rewrite Hoff. reflexivity.
      + injection Hbu as <- <- <-. destruct H as (-> & -> & ->).
        right. left. split; [reflexivity|]. split; [reflexivity|]. right. right.
        exists b, cs. split; [exact Eb|]. split; [exact V|]. rewrite Hoff. exact I.
    - unfold ret in Hbu. injection Hbu as <- <- <-. apply Done. exact (Cont _ _ H).
  Qed.

  (* the verifier returns a value or an error on an HInv replica, for every proof (sections in any
     combination, node lists of any length) with fields below 2^40 whose announced sizes fit *)
  Lemma hinv_verifier_returns pf c w :
    HInv cr bs c (w_disk w) -> N.of_nat (length bs) < LIM ->
    block_lim (p_block pf) = true -> hash_lim (p_hash pf) = true -> seek_lim (p_seek pf) = true ->
    upgrade_nodes_lim pf -> announced_sizes_fit_any c pf ->
    returns (verifier_says cr c w pf) = true.
  Proof.
    intros W Hn Hb Hh Hs Hlim Hsum.
    destruct (HInv_tree_shape cr bs c _ W Hn) as [HL HR].
    unfold verifier_says. apply verify_proof_returns_any_length; try assumption.
    - unfold proof_upgrade_ok. destruct (p_upgrade pf) as [u|] eqn:Eu; [|exact I].
      destruct (Hlim u Eu) as (L1 & _ & _). split; [exact L1|]. split.
      + destruct W as (_ & _ & H3 & H4 & _). unfold lens. rewrite H3, ref_roots_size, H4. lia.
      + exact (Hsum u Eu).
    - apply own_roots_lim_of_shape; assumption.
  Qed.

  (* byte_offset_in_changeset, called for the block a proof carries on the changeset the verifier produced,
     returns a value or an error: no node a peer supplied lies on the path above the block, so the checked
     subtraction "node.length - parent.length" only meets sizes the hash chain determines
     (AnyProofCorLib.accepted_path_sizes) *)
  Theorem hinv_block_offset_returns pf c w b cs :
    HInv cr bs c (w_disk w) -> N.of_nat (length bs) < LIM -> proof_wire pf ->
    p_block pf = Some b -> verifier_says cr c w pf = Ok cs ->
    returns (byte_offset_in_changeset (c_tree c) (d_tree (w_disk w)) (db_index b) cs) = true \/
    some_collision cr \/ forged_signature cr bs (kp_public (c_keypair c)).
  Proof.
    intros W Hn Hwire Eb V. pose proof W as (H1 & H2 & H3 & H4 & H5 & H6).
    pose proof (proof_wire_root_fits cr Hhash32 pf (c_tree c) Hwire) as Hfits.
    destruct (HInv_tree_shape cr bs c _ W Hn) as [HL HR].
    unfold verifier_says in V.
    destruct (verify_proof_accepted cr Hhash32 bs Hw _ _ _ _ _ H1 H3 H4 H5 H6 Hwire Hfits V)
      as [(m & Acc)|[C|F]]; [|right; left; exact C|right; right; exact F].
    destruct (accepted_path_sizes cr Hhash32 bs Hw _ _ _ _ _ m b H1 H3 H5 H6 Hwire Hfits V Acc Eb)
      as [[HP Hfit]|C]; [left|right; left; exact C].
    apply (byte_offset_in_changeset_returns cr bs); try assumption.
    unfold B57, LIM in *. lia.
  Qed.

  (* apply on an HInv replica returns a value or an error -- never a panic other than the 2^30 frame guard
     of the oplog (entry or header frame), never out of fuel -- as soon as the verifier returns; proof of
     ANY shape; modulo a hash collision / forged signature *)
  Theorem apply_any_returns_if_verifier_returns f pf c w c' w' r :
    HInv cr bs c (w_disk w) -> N.of_nat (length bs) < LIM -> proof_wire pf ->
    returns (verifier_says cr c w pf) = true ->
    core_apply_proof cr f pf c w = (c', w', r) ->
    returns r = true \/ r = Panic frame_msg \/
    some_collision cr \/ forged_signature cr bs (kp_public (c_keypair c)).
  Proof.
    intros W Hn Hwire Vret H.
    destruct (apply_any_outcome f pf c w c' w' r W Hwire H)
      as [[-> _]|[(_ & _ & [->|[Hf|(b & cs & Eb & V & Hf)]])|[[-> _]|[C|F]]]];
      [left; reflexivity|left; reflexivity|left; exact (fails_as_returns _ _ Hf Vret)| |
       right; left; reflexivity|right; right; left; exact C|right; right; right; exact F].
    destruct (hinv_block_offset_returns pf c w b cs W Hn Hwire Eb V) as [Hoff|[C|F]];
      [left|right; right; left; exact C|right; right; right; exact F].
    apply (fails_as_returns _ _ Hf Hoff).
  Qed.

  (* ... hence for every proof (block, hash, seek, upgrade sections in any combination, node lists of any
     length, additional nodes) with fields below 2^40 whose announced sizes fit.  Side conditions left:
       proof_wire                  what the wire decoder guarantees (32-byte hashes, u64 fields);
       block_lim/hash_lim/seek_lim indices, node sizes, value length below 2^40;
       upgrade_nodes_lim           the same for the upgrade section (start, length, nodes, additional nodes);
       announced_sizes_fit_any     byte length + announced sizes + 87 * 2^40 <= u64_max ("byte_length +=
                                   node.length" is a checked addition, run once per announced node);
       N.of_nat (length bs) < LIM  the writer has fewer than 2^40 blocks.
     The frame guard is NOT excluded (it needs a bound on the encoded size of the logged entry and header). *)
  Theorem apply_any_returns f pf c w c' w' r :
    HInv cr bs c (w_disk w) -> N.of_nat (length bs) < LIM -> proof_wire pf ->
    block_lim (p_block pf) = true -> hash_lim (p_hash pf) = true -> seek_lim (p_seek pf) = true ->
    upgrade_nodes_lim pf -> announced_sizes_fit_any c pf ->
    core_apply_proof cr f pf c w = (c', w', r) ->
    returns r = true \/ r = Panic frame_msg \/
    some_collision cr \/ forged_signature cr bs (kp_public (c_keypair c)).
  Proof.
    intros W Hn Hwire Hb Hh Hs Hlim Hsum H.
    apply (apply_any_returns_if_verifier_returns f pf c w c' w' r W Hn Hwire); [|exact H].
    apply hinv_verifier_returns; assumption.
  Qed.

  (* C09 (verification side) for every state a replica reaches: after ANY history of calls with any
     outcomes, apply returns a value or an error or the frame panic *)
  Corollary any_history_apply_returns ops c w c1 w1 oks f pf c' w' r :
    HInv cr bs c (w_disk w) -> kp_secret (c_keypair c) = None -> N.of_nat (length bs) < LIM ->
    Forall (any_op cr) ops -> run_ops cr ops c w = (c1, w1, oks) ->
    proof_wire pf ->
    block_lim (p_block pf) = true -> hash_lim (p_hash pf) = true -> seek_lim (p_seek pf) = true ->
    upgrade_nodes_lim pf -> announced_sizes_fit_any c1 pf ->
    core_apply_proof cr f pf c1 w1 = (c', w', r) ->
    returns r = true \/ r = Panic frame_msg \/
    some_collision cr \/ forged_signature cr bs (kp_public (c_keypair c)).
  Proof.
    intros W Hsec Hn Hops Hrun Hwire Hb Hh Hs Hlim Hsum H.
    destruct (any_history_HInv cr Hhash32 bs Hw ops c w c1 w1 oks W Hsec Hops Hrun) as [(W1 & K1)|[C|F]];
      [|right; right; left; exact C|right; right; right; exact F].
    rewrite <- K1. exact (apply_any_returns f pf c1 w1 c' w' r W1 Hn Hwire Hb Hh Hs Hlim Hsum H).
  Qed.
End AnyC.

Print Assumptions HInv_tree_wf.
Print Assumptions any_history_create_proof_returns.
Print Assumptions fresh_any_history_create_proof_returns.
Print Assumptions apply_any_keeps_bounded.
Print Assumptions apply_any_keeps_HBInv.
Print Assumptions apply_any_accepted_HBInv.
Print Assumptions any_history_avail.
Print Assumptions apply_any_outcome.
Print Assumptions hinv_block_offset_returns.
Print Assumptions apply_any_returns_if_verifier_returns.
Print Assumptions apply_any_returns.
Print Assumptions any_history_apply_returns.

(* AcceptAllCore1.v -- C03 at the core level, part 1: the writer's proofs for requests with a block and / or a full
   upgrade satisfy the shape conditions of ReplicaDisk3.apply_keeps_RDInv (rd_proof_ok): no additional nodes,
   well-formed upgrade nodes, no two upgrade nodes are siblings, no upgrade node lies above the block. *)
From HC Require Import Base NMap Codec CodecFacts Crypto FlatTree Storage Bitfield Oplog Merkle Core.
From HC Require Import FlatTreeFacts Sound NoPanic TreeRef OffsetFacts CoreFacts Refine Replicate Replicate2 Replicate2Z Replicate2D Replicate2E.
From HC Require Import Unified1 SoundCoreLib SoundCore SoundCoreUp SoundCoreBU ReplicaDisk1 ReplicaDisk2 ReplicaDisk3.
From HC Require Import AcceptAll1 AcceptAll2 AcceptAll3 AcceptAll.
From Coq Require Import FMapPositive ZifyN ZifyNat ZifyBool.
Ltac Zify.zify_post_hook ::= Z.div_mod_to_equations.
Arguments N.add : simpl never.
Arguments N.sub : simpl never.
Arguments N.mul : simpl never.
Arguments N.div : simpl never.
Arguments N.modulo : simpl never.
Arguments N.pow : simpl never.
Arguments N.eqb : simpl never.
Arguments N.ltb : simpl never.
Arguments N.leb : simpl never.
Arguments N.of_nat : simpl never.
Arguments N.to_nat : simpl never.
Arguments N.log2 : simpl never.

Lemma tiles_length l : forall a b, tiles l a b -> N.of_nat (length l) <= b - a.
Proof.
  induction l as [|x l IH]; intros a b T; cbn [tiles length] in *.
  - lia.
  - destruct T as [E T]. pose proof (IH _ _ T) as L. apply tiles_le in T. pose proof (p2_pos (fst x)). nia.
Qed.

Lemma tiles_suffix l1 : forall x l2 a b, tiles (l1 ++ x :: l2) a b -> tiles l2 ((snd x + 1) * p2 (fst x)) b.
Proof.
  induction l1 as [|y l1 IH]; intros x l2 a b H; cbn [app tiles] in *.
  - tauto.
  - destruct H as [_ H]. eapply IH. exact H.
Qed.

Lemma sib_sibo a : sib a = sibo a.
Proof. reflexivity. Qed.

Section Shapes.
  Variable cr : crypto.
  Hypothesis Hhash32 : forall x, length (cr_hash cr x) = 32%nat.
  Hypothesis Hhashbytes : forall x, bytes_ok (cr_hash cr x) = true.
  Variable bs : list bytes.
  Hypothesis Hw : writer_fits bs.

  Lemma rn_authentic w x : (snd x + 1) * p2 (fst x) <= w -> authentic cr bs w (rn cr bs x).
  Proof.
    intros H. unfold authentic, rn. rewrite ref_node_index. split.
    - symmetry. apply ref_at_index.
    - apply in_len_index. exact H.
  Qed.

  (* a sublist of a tiling inside [0, w) is a well-formed node list *)
  Lemma tile_nodes_ok l l' a b w :
    tiles l a b -> b <= w -> w <= N.of_nat (length bs) ->
    (forall x, In x l' -> In x l) -> (length l' <= length l)%nat ->
    nodes_ok (map (rn cr bs) l') = true.
  Proof.
    intros T Hb Hwl Hsub Hlen. unfold nodes_ok. apply andb_true_intro. split.
    - apply fits_u64_intro. rewrite map_length. pose proof (tiles_length l a b T).
      destruct Hw as [_ Hw2]. unfold NODE_SIZE in Hw2. lia.
    - apply forallb_forall. intros n Hn. apply in_map_iff in Hn. destruct Hn as (x & <- & Hx).
      apply (node_ok_authentic cr bs w _ Hhash32 Hhashbytes Hw Hwl).
      apply rn_authentic. destruct (tiles_in _ _ _ x T (Hsub x Hx)). lia.
  Qed.

  (* no two nodes of a tiling by maximal blocks are siblings *)
  Lemma tile_no_sibling_pair l l' r u :
    tiles l r u -> (forall x, In x l -> maximal r u x) -> (forall x, In x l' -> In x l) ->
    no_sibling_pair (map (rn cr bs) l').
  Proof.
    intros T Hmax Hsub n1 n2 H1 H2 E.
    apply in_map_iff in H1. destruct H1 as ([d a] & <- & Hx).
    apply in_map_iff in H2. destruct H2 as ([d' a'] & <- & Hy).
    unfold rn in E. cbn [fst snd] in E. rewrite !ref_node_index, ft_sibling_index in E.
    apply ft_index_inj in E. destruct E as [Ed Ea]. assert (d' = d) by lia. subst d'. clear Ed.
    rewrite sib_sibo in Ea. subst a'.
    apply Hsub in Hx. apply Hsub in Hy.
    destruct (tiles_in _ _ _ _ T Hx) as [X1 X2]. destruct (tiles_in _ _ _ _ T Hy) as [Y1 Y2]. cbn [fst snd] in *.
    apply (Hmax _ Hx). cbn [fst snd]. rewrite p2_S. pose proof (p2_pos d) as Hp.
    set (q := a / 2). set (P := p2 d) in *.
    unfold sibo in *. destruct (N.even a) eqn:Ev; rewrite FlatTreeFacts.even_mod in Ev.
    - assert (Ea : a = 2 * q) by (unfold q; lia). rewrite Ea in *. split; nia.
    - assert (Ea : a = 2 * q + 1) by (unfold q; lia). rewrite Ea in *.
      replace (2 * q + 1 - 1) with (2 * q) in * by lia. split; nia.
  Qed.

  (* an ancestor (or self) of leaf i covers i *)
  Lemma anc_covers (i : N) (j : nat) : (i / p2 j) * p2 j <= i /\ i < (i / p2 j + 1) * p2 j.
  Proof.
    pose proof (p2_pos j) as Hp. pose proof (N.div_mod' i (p2 j)). pose proof (N.mod_lt i (p2 j) ltac:(lia)). nia.
  Qed.

  (* the block lies under the tile y: no other tile is above the block *)
  Lemma tile_block_not_under l1 y l2 a b i ns v s ln add sg :
    tiles (l1 ++ y :: l2) a b -> covers y i = true ->
    block_not_under (mkDataBlock i v ns) (mkDataUpgrade s ln (map (rn cr bs) (l1 ++ l2)) add sg).
  Proof.
    intros T Hc x j Hx E. cbn [db_index] in E. cbn [du_nodes] in Hx.
    apply in_map_iff in Hx. destruct Hx as ([d o] & <- & Hx).
    unfold rn in E. cbn [fst snd] in E. rewrite ref_node_index in E.
    apply ft_index_inj in E. destruct E as [Ed Eo]. assert (d = j) by lia. subst d o.
    destruct (anc_covers i j) as [A1 A2].
    unfold covers in Hc. apply andb_true_iff in Hc. destruct Hc as [C1 C2].
    apply in_app_or in Hx. destruct Hx as [Hx|Hx].
    - pose proof (tiles_prefix _ _ _ _ _ T) as T1.
      destruct (tiles_in _ _ _ _ T1 Hx) as [_ Tx]. cbn [fst snd] in Tx. lia.
    - pose proof (tiles_suffix _ _ _ _ _ T) as T2.
      destruct (tiles_in _ _ _ _ T2 Hx) as [Tx _]. cbn [fst snd] in Tx. lia.
  Qed.

  (* the block lies below every tile *)
  Lemma tile_block_below l a b i ns v s ln add sg :
    tiles l a b -> i < a ->
    block_not_under (mkDataBlock i v ns) (mkDataUpgrade s ln (map (rn cr bs) l) add sg).
  Proof.
    intros T Hi x j Hx E. cbn [db_index] in E. cbn [du_nodes] in Hx.
    apply in_map_iff in Hx. destruct Hx as ([d o] & <- & Hx).
    unfold rn in E. cbn [fst snd] in E. rewrite ref_node_index in E.
    apply ft_index_inj in E. destruct E as [Ed Eo]. assert (d = j) by lia. subst d o.
    destruct (anc_covers i j) as [A1 A2].
    destruct (tiles_in _ _ _ _ T Hx) as [Tx _]. cbn [fst snd] in Tx. lia.
  Qed.

  Lemma path_root_fits i n o w v :
    o * p2 n <= i -> i < (o + 1) * p2 n -> (o + 1) * p2 n <= w -> 2 * w <= u64_max ->
    block_root_fits (mkDataBlock i v (path_nodes cr bs n i)).
  Proof.
    intros H1 H2 H3 H64. unfold block_root_fits. cbn [db_nodes db_index].
    unfold path_nodes. rewrite map_length, path_idx_len.
    assert (E : i / p2 n = o).
    { pose proof (p2_pos n). symmetry. apply (N.div_unique i (p2 n) o (i - o * p2 n)); lia. }
    rewrite E. pose proof (idx_lt (n, o) w H3) as L. unfold TreeRef.idx in L. cbn [fst snd] in L. lia.
  Qed.
End Shapes.


(* ---------- requests with a block and / or a FULL upgrade, no hash, no seek ---------- *)

Definition core_scope (w : N) (rq : request) : Prop :=
  rq_hash rq = None /\ rq_seek rq = None /\
  match rq_upgrade rq with Some u => ru_start u + ru_length u = w | None => rq_block rq <> None end.

Section ScopeShape.
  Variable cr : crypto.
  Hypothesis Hhash32 : forall x, length (cr_hash cr x) = 32%nat.
  Hypothesis Hhashbytes : forall x, bytes_ok (cr_hash cr x) = true.
  Variable bs : list bytes.
  Hypothesis Hw : writer_fits bs.
  (* the writer *)
  Variable t : mtree.
  Variable tf : file.
  Variable w : N.
  Variable sg : bytes.
  Hypothesis Hlook : lookups cr t tf bs w.
  Hypothesis Hl : t_length t = w.
  Hypothesis Hroots : t_roots t = ref_roots cr bs w.
  Hypothesis Hsg : t_signature t = Some sg.
  Hypothesis Hwl : w <= N.of_nat (length bs).
  Hypothesis Hsgb : bytes_ok sg = true.
  (* the replica *)
  Variable rt : mtree.
  Variable rtf : file.
  Variable r : N.
  Hypothesis Hrroots : t_roots rt = ref_roots cr bs r.
  Hypothesis Hrl : t_length rt = r.
  Hypothesis Hrb : t_byte_length rt = prefix_size bs r.
  Hypothesis Hrw : r <= w.
  Hypothesis Hrep : forall j n, optional_node rt rtf j = Ok (Some n) -> n_hash n = n_hash (ref_at cr bs j).
  Variable pk : bytes.
  Hypothesis Hs64 : length sg = 64%nat.
  Hypothesis Hver : cr_verify cr pk (signable (tree_hash cr (ref_roots cr bs w)) w (t_fork t)) sg = true.

  Let total_fits : sumN (map len bs) <= u64_max := proj1 Hw.

  Lemma H64 : 2 * w <= u64_max.
  Proof. pose proof Hw as [_ H2]. unfold NODE_SIZE in H2. lia. Qed.

  Lemma w64 : w < p2 g64.
  Proof. rewrite p2_64. pose proof H64 as H. unfold u64_max in H. lia. Qed.

  (* the shape conditions for an upgrade whose nodes are a sublist L' of a tiling L of [a, w) by maximal blocks *)
  Lemma rd_ok_upgrade (L L' : list (nat * N)) a ob f s ln :
    tiles L a w -> (forall x, In x L -> maximal a w x) ->
    (forall x, In x L' -> In x L) -> (length L' <= length L)%nat ->
    match ob with
    | None => True
    | Some b => block_not_under b (mkDataUpgrade s ln (map (rn cr bs) L') [] sg) /\ block_root_fits b
    end ->
    rd_proof_ok (mkProof f ob None None (Some (mkDataUpgrade s ln (map (rn cr bs) L') [] sg))).
  Proof.
    intros T M Hsub Hlen Hb. unfold rd_proof_ok, block_upgrade_ok.
    cbn [p_hash p_seek p_upgrade p_block du_additional du_nodes du_signature].
    split; [|exact Hsgb]. split; [reflexivity|]. split; [reflexivity|]. split; [reflexivity|].
    split; [apply (tile_nodes_ok cr Hhash32 Hhashbytes bs Hw L L' a w w T (N.le_refl w) Hwl Hsub Hlen)|].
    split; [apply (tile_no_sibling_pair cr bs L L' a w T M Hsub)|].
    destruct ob as [b|]; [exact Hb|exact I].
  Qed.

  Lemma sub_mid {A} (l1 : list A) y l2 :
    (forall x, In x (l1 ++ l2) -> In x (l1 ++ y :: l2)) /\ (length (l1 ++ l2) <= length (l1 ++ y :: l2))%nat.
  Proof.
    split.
    - intros x Hx. apply in_app_or in Hx. apply in_or_app. destruct Hx; [left|right; right]; assumption.
    - rewrite !app_length. cbn [length]. lia.
  Qed.

  Lemma upg_facts r' : 0 < r' -> r' < w ->
    tiles (upg_idx g64 0 r' w) r' w /\ (forall x, In x (upg_idx g64 0 r' w) -> maximal r' w x).
  Proof.
    intros Hr Hrw'. split; [apply (upg_idx_tiles bs total_fits r' w Hr Hrw' H64)|].
    apply (maximal_upg r' w Hr Hrw' g64 0 (pref_0 w)); pose proof w64; lia.
  Qed.

  Lemma roots_facts : tiles (roots_from g64 0 w) 0 w /\ (forall x, In x (roots_from g64 0 w) -> maximal 0 w x).
  Proof.
    split; [apply (roots_tiles w w64)|]. apply (maximal_roots_from 0 w g64 0 (pref_0 w)). pose proof w64. lia.
  Qed.

  Theorem scope_proof_ok rq vp :
    wf_request bs rt rtf w rq -> core_scope w rq ->
    create_valueless_proof t tf (rq_block rq) (rq_hash rq) (rq_seek rq) (rq_upgrade rq) = Ok vp ->
    rd_proof_ok (vp_to_proof vp (rq_value bs rq)).
  Proof.
    destruct rq as [ob oh os ou]. unfold wf_request, core_scope. cbn [rq_block rq_hash rq_seek rq_upgrade].
    intros [Hup Hnode] (-> & -> & Hfull) Hc. pose proof H64 as H64'.
    assert (Hu : (ou = None /\ ob <> None) \/ (r < w /\ ou = Some (mkReqUpgrade r (w - r)))).
    { destruct ou as [[s l]|]; [right|left; auto]. cbn [wf_upgrade ru_start ru_length] in Hup, Hfull.
      destruct Hup as (E1 & E2 & E3). rewrite Hrl in E1, E3. subst s. split; [lia|]. do 2 f_equal. lia. }
    destruct ob as [[i k]|].
    - (* block *)
      cbn [rb_index rb_nodes] in Hnode. unfold wf_node in Hnode. cbv zeta in Hnode. rewrite p2_0, Hrl in Hnode.
      destruct Hnode as (Hhi & [(Hin & Hm & Htop & _)|(Hlo & _)]).
      + change (N.of_nat 0) with 0 in Hm. rewrite ft_index_leaf in Hm. cbn [Nat.add] in Htop.
        destruct Hu as [[-> _]|(Hrw' & ->)].
        * destruct (block_request_served_ref cr bs total_fits t tf rt rtf w i k pk Hlook Hl ltac:(lia) H64' Hrep ltac:(lia) Hm
                      ltac:(rewrite Hrl; exact Htop)) as (cs & Hc' & _).
          rewrite Hc' in Hc. injection Hc as <-.
          unfold rd_proof_ok, block_upgrade_ok, vp_to_proof, rq_value.
          cbn [rq_block vp_block vp_hash vp_seek vp_upgrade vp_fork p_hash p_seek p_upgrade p_block]. auto.
        * destruct (block_upgrade_below_accepted cr bs total_fits t tf rt rtf w r i k sg pk Hlook Hl Hsg Hrroots Hrl Hrb
                      Hrep ltac:(lia) Hrw' H64' ltac:(lia) Hm ltac:(apply head_form; rewrite Hrl; exact Htop) Hs64 Hver)
            as (cs & Hc' & _).
          destruct (node_count_coord bs total_fits rt rtf 0 i k w
                      ltac:(change (N.of_nat 0) with 0; rewrite ft_index_leaf; exact Hm) ltac:(rewrite p2_0; lia)
                      ltac:(rewrite Hrl; exact Htop) ltac:(lia)) as (_ & Ho1 & Ho2 & _).
          destruct (upg_facts r ltac:(lia) Hrw') as [T M].
          cbv zeta in Hc'. remember (upg_idx g64 0 r w) as L eqn:EL. clear EL.
          rewrite Hc' in Hc. injection Hc as <-.
          apply (rd_ok_upgrade L L r _ _ _ _ T M ltac:(auto) (Nat.le_refl _)). split.
          -- apply (tile_block_below cr Hhash32 Hhashbytes bs L r w i _ _ _ _ _ _ T ltac:(lia)).
          -- apply (path_root_fits cr Hhash32 Hhashbytes bs i (N.to_nat k) (i / p2 (N.to_nat k)) w _ Ho1 Ho2 ltac:(lia) H64').
      + destruct Hu as [[-> _]|(Hrw' & ->)]; [cbn [rq_target] in Hhi; lia|].
        cbn [rq_target ru_start ru_length] in Hhi.
        destruct (N.eq_dec r 0) as [E0|Ne].
        * assert (R0 : t_roots rt = [] /\ t_length rt = 0 /\ t_byte_length rt = 0).
          { rewrite Hrroots, Hrl, Hrb, E0, prefix_size_0. auto. }
          destruct R0 as (R0 & L0 & B0). rewrite E0 in Hc. replace (w - 0) with w in Hc by lia.
          destruct (block_upgrade_empty_accepted cr bs total_fits t tf rt rtf w w i k sg pk Hlook Hl Hsg R0 L0 B0
                      ltac:(lia) (N.le_refl w) H64' ltac:(lia) Hs64 Hver)
            as (l1 & y & l2 & cs & El & Hcov & Hc' & _).
          destruct roots_facts as [T M]. rewrite El in T, M. clear El.
          cbv zeta in Hc'. rewrite N.ltb_irrefl in Hc'. rewrite Hc' in Hc. injection Hc as <-.
          destruct (sub_mid l1 y l2) as [S1 S2].
          apply (rd_ok_upgrade _ (l1 ++ l2) 0 _ _ _ _ T M S1 S2). split.
          -- apply (tile_block_not_under cr Hhash32 Hhashbytes bs l1 y l2 0 w i _ _ _ _ _ _ T Hcov).
          -- unfold covers in Hcov. apply andb_true_iff in Hcov.
             assert (Hyw : (snd y + 1) * p2 (fst y) <= w).
             { apply (tiles_in _ _ _ y T). apply in_or_app. right. left. reflexivity. }
             apply (path_root_fits cr Hhash32 Hhashbytes bs i (fst y) (snd y) w _ ltac:(lia) ltac:(lia) Hyw H64').
        * destruct (block_upgrade_inside_accepted cr bs total_fits t tf rt rtf w r i k sg pk Hlook Hl Hsg Hrroots Hrl Hrb
                      ltac:(lia) Hrw' H64' ltac:(lia) ltac:(lia) Hs64 Hver)
            as (l1 & y & l2 & cs & El & Hcov & Hc' & _).
          destruct (upg_facts r ltac:(lia) Hrw') as [T M]. rewrite El in T, M. clear El.
          cbv zeta in Hc'. rewrite Hc' in Hc. injection Hc as <-.
          destruct (sub_mid l1 y l2) as [S1 S2].
          apply (rd_ok_upgrade _ (l1 ++ l2) r _ _ _ _ T M S1 S2). split.
          -- apply (tile_block_not_under cr Hhash32 Hhashbytes bs l1 y l2 r w i _ _ _ _ _ _ T Hcov).
          -- unfold covers in Hcov. apply andb_true_iff in Hcov.
             assert (Hyw : (snd y + 1) * p2 (fst y) <= w).
             { apply (tiles_in _ _ _ y T). apply in_or_app. right. left. reflexivity. }
             apply (path_root_fits cr Hhash32 Hhashbytes bs i (fst y) (snd y) w _ ltac:(lia) ltac:(lia) Hyw H64').
    - (* upgrade only *)
      destruct Hu as [[_ Hb]|(Hrw' & ->)]; [contradiction Hb; reflexivity|].
      destruct (N.eq_dec r 0) as [E0|Ne].
      + assert (R0 : t_roots rt = [] /\ t_length rt = 0 /\ t_byte_length rt = 0).
        { rewrite Hrroots, Hrl, Hrb, E0, prefix_size_0. auto. }
        destruct R0 as (R0 & L0 & B0). rewrite E0 in Hc. replace (w - 0) with w in Hc by lia.
        destruct (empty_upgrade_accepted cr bs total_fits t tf rt rtf w w sg pk Hlook Hl Hsg R0 L0 B0
                    ltac:(lia) (N.le_refl w) H64' Hs64 Hver) as (cs & Hc' & _).
        destruct roots_facts as [T M].
        cbv zeta in Hc'. rewrite N.ltb_irrefl in Hc'. remember (roots_from g64 0 w) as L eqn:EL. clear EL.
        rewrite Hc' in Hc. injection Hc as <-.
        apply (rd_ok_upgrade L L 0 None _ _ _ T M ltac:(auto) (Nat.le_refl _) I).
      + destruct (upgrade_nonempty_accepted cr bs total_fits t tf rt rtf w r sg pk Hlook Hl Hsg Hrroots Hrl Hrb
                    ltac:(lia) Hrw' H64' Hs64 Hver) as (cs & Hc' & _).
        destruct (upg_facts r ltac:(lia) Hrw') as [T M].
        remember (upg_idx g64 0 r w) as L eqn:EL. clear EL.
        rewrite Hc' in Hc. injection Hc as <-.
        apply (rd_ok_upgrade L L r None _ _ _ T M ltac:(auto) (Nat.le_refl _) I).
  Qed.
End ScopeShape.

Print Assumptions tile_nodes_ok.
Print Assumptions tile_no_sibling_pair.
Print Assumptions tile_block_not_under.
Print Assumptions scope_proof_ok.

(* CrashClear4.v — C02/C10 for writers with clears, part 4:
   A. a storage operation that FAILS during an append or a clear (C10): the call returns the I/O error, the disk
      is exactly the cut of the fault-free journal at the failing operation, and reopening recovers the state
      before or after the call (by the cut theorems of CrashClear2.v);
   B. creation at the Core level: every cut of the journal of the creating open is a disk that opens as
      "empty storage" (the state before creation) or as the empty core, and on which creation can be repeated. *)
From HC Require Import Base NMap Codec CodecFacts Crypto FlatTree Storage Bitfield Oplog Merkle Core.
From HC Require Import FlatTreeFacts StorageFacts BitfieldFacts OplogFacts TreeRef OffsetFacts CoreFacts Crash Refine.
From HC Require Import ClearRefine Reopen ContigBridge Unified1 Unified2 CrashCore1 CrashCore2 CrashCore3 Fault.
From HC Require Import CrashClear1 CrashClear2.
From Coq Require Import FMapPositive ZifyN ZifyNat ZifyBool.
Ltac Zify.zify_post_hook ::= Z.div_mod_to_equations.
Arguments N.add : simpl never.
Arguments N.sub : simpl never.
Arguments N.mul : simpl never.
Arguments N.div : simpl never.
Arguments N.modulo : simpl never.
Arguments N.pow : simpl never.
Arguments N.eqb : simpl never.
Arguments N.ltb : simpl never.
Arguments N.leb : simpl never.
Arguments N.max : simpl never.
Arguments N.min : simpl never.
Arguments N.of_nat : simpl never.
Arguments N.to_nat : simpl never.

(* ====================================================================================== *)
(* A1. The operations with the storage emitter as an argument                                *)
(* ====================================================================================== *)

(* Core.flush_all / maybe_flush / log_and_commit / core_append / core_clear with [emit] replaced by an
   argument E;  with E := emit they are the definitions of Core.v (lemmas *_E_emit, by reflexivity) *)
Section WithEmitter.
  Variable cr : crypto.
  Variable E : list sop -> M unit.

  Definition flush_all_E (clear_traces : bool) : M unit :=
    c <-- get_core ;;;
    let '(b', pops) := bf_flush (c_bitfield c) in
    put_bitfield b' ;;; E pops ;;;
    '(t', tops) <-- lift (tree_flush (c_tree c)) ;;;
    put_tree t' ;;; E tops ;;;
    c <-- get_core ;;;
    '(o', oops) <-- lift (oplog_flush cr (c_oplog c) (c_header c) clear_traces) ;;;
    put_oplog o' ;;; E oops.

  Definition maybe_flush_E (forced : option bool) : M unit :=
    c <-- get_core ;;;
    let native := (c_skip c =? 0) || (MAX_OPLOG_ENTRIES_BYTE_SIZE <=? ol_entries_bytes (c_oplog c)) in
    let decision := match forced with Some b => b | None => native end in
    if decision then put_skip 3 ;;; flush_all_E false
    else put_skip (c_skip c - 1).

  Definition log_and_commit_E (cs : changeset) (bu : option bf_update) : M unit :=
    c <-- get_core ;;;
    '(e, h') <-- lift (entry_of_changeset cs bu (c_header c)) ;;;
    '(o', ops) <-- lift (oplog_append cr (c_oplog c) e) ;;;
    put_oplog o' ;;; E ops ;;; put_header h' ;;;
    (match bu with
     | Some u =>
         c <-- get_core ;;;
         let b' := bf_apply (c_bitfield c) u in
         put_bitfield b' ;;;
         put_header (set_contig (c_header c) (update_contig (hd_contig (c_header c)) b' u))
     | None => ret tt
     end) ;;;
    c <-- get_core ;;;
    t' <-- lift (tree_commit (c_tree c) cs) ;;;
    put_tree t'.

  Definition core_append_E (forced : option bool) (batch : list bytes) : M (N * N) :=
    c <-- get_core ;;;
    match kp_secret (c_keypair c) with
    | None => lift (Err NotWritable)
    | Some sk =>
        (match batch with
         | [] => ret tt
         | _ =>
             cs <-- lift (cs_append_all cr (tree_changeset (c_tree c)) batch) ;;;
             let cs := cs_hash_and_sign cr cs sk in
             E [SW Data (t_byte_length (c_tree c)) (concat batch)] ;;;
             let bu := mkBfUpdate false (cs_ancestors cs) (cs_batch_length cs) in
             log_and_commit_E cs (Some bu) ;;;
             maybe_flush_E forced ;;;
             send EvUpgrade ;;; send (EvHave (bu_start bu) (bu_length bu) false)
         end) ;;;
        c <-- get_core ;;;
        ret (t_length (c_tree c), t_byte_length (c_tree c))
    end.

  Definition core_clear_E (forced : option bool) (start end_ : N) : M unit :=
    if end_ <=? start then ret tt
    else
      c <-- get_core ;;;
      let u := mkBfUpdate true start (end_ - start) in
      '(o', ops) <-- lift (oplog_append cr (c_oplog c) (mkEntry [] None (Some u))) ;;;
      put_oplog o' ;;; E ops ;;;
      let b' := bf_set_range (c_bitfield c) start (end_ - start) false in
      put_bitfield b' ;;;
      (if start <? hd_contig (c_header c) then put_header (set_contig (c_header c) start) else ret tt) ;;;
      let s' := match bf_last_index_of_true b' start with Some i => i + 1 | None => 0 end in
      let e' := match bf_index_of_true b' end_ with Some i => i | None => t_length (c_tree c) end in
      d <-- get_disk ;;;
      clear_offset <-- lift (byte_offset (c_tree c) (d_tree d) s') ;;;
      e1 <-- lift (sub64 "end - 1" e' 1) ;;;
      '(lo, ll) <-- lift (byte_range (c_tree c) (d_tree d) e1) ;;;
      clear_length <-- lift (sub64 "clear length" (lo + ll) clear_offset) ;;;
      (if (0 <? clear_length) && (clear_offset <? f_len (d_data d))
       then E [SD Data clear_offset clear_length] else ret tt) ;;;
      maybe_flush_E forced.
End WithEmitter.

Lemma flush_all_E_emit cr ct : flush_all_E cr emit ct = flush_all cr ct.
Proof. reflexivity. Qed.
Lemma maybe_flush_E_emit cr f : maybe_flush_E cr emit f = maybe_flush cr f.
Proof. reflexivity. Qed.
Lemma log_and_commit_E_emit cr cs bu : log_and_commit_E cr emit cs bu = log_and_commit cr cs bu.
Proof. reflexivity. Qed.
Lemma core_append_E_emit cr f batch : core_append_E cr emit f batch = core_append cr f batch.
Proof. reflexivity. Qed.
Lemma core_clear_E_emit cr f s e : core_clear_E cr emit f s e = core_clear cr f s e.
Proof. reflexivity. Qed.

(* ====================================================================================== *)
(* A2. The failing emitter                                                                 *)
(* ====================================================================================== *)

(* Storage::flush_infos with an I/O error at one storage operation of the call: the operation that would be
   journal entry number [limit] (counting from the oldest, 0-based) fails; nothing of it and nothing after
   it reaches the disk.  This is Fault.emit_fail with the position counted over the whole call instead of
   over one flush group (lemma emit_lim_emit_fail). *)
Fixpoint emit_lim (limit : nat) (ops : list sop) : M unit :=
  match ops with
  | [] => ret tt
  | o :: r =>
      fun c w =>
        if (length (w_journal w) =? limit)%nat then (c, w, Err IOErr)
        else match apply_sop (w_disk w) o with
             | Some d' => emit_lim limit r c (mkWorld d' (o :: w_journal w) (w_events w))
             | None => (c, w, Err InvalidOperation)
             end
  end.

Lemma emit_lim_emit_fail ops : forall k c w,
  emit_lim (length (w_journal w) + k) ops c w = emit_fail k ops c w.
Proof.
  induction ops as [|o ops IH]; intros k c w; [destruct k; reflexivity|].
  destruct k as [|k]; cbn [emit_lim emit_fail].
  - rewrite Nat.add_0_r, Nat.eqb_refl. reflexivity.
  - assert ((length (w_journal w) =? length (w_journal w) + S k)%nat = false) as -> by (apply Nat.eqb_neq; lia).
    destruct (apply_sop (w_disk w) o) as [d'|]; [|reflexivity].
    rewrite <- IH. cbn [w_journal length]. f_equal. lia.
Qed.

(* wk lies on the path of the fault-free run from w to w1, at journal length [limit] *)
Definition on_path (limit : nat) (w w1 wk : world) : Prop :=
  length (w_journal wk) = limit /\
  exists opsk rest,
    w_journal wk = rev opsk ++ w_journal w /\ apply_sops (w_disk w) opsk = Some (w_disk wk) /\
    w_journal w1 = rev rest ++ w_journal wk /\ apply_sops (w_disk wk) rest = Some (w_disk w1).

(* m = the fault-free computation, mf = the same with the failing emitter.  For every successful run of m
   from a journal not longer than the limit: either the run ends before the failing position and mf runs
   identically, or mf stops with the I/O error in a world on the path of m *)
Definition fsim {A} (limit : nat) (m mf : M A) : Prop :=
  journaled m /\
  forall c w c1 w1 a, (length (w_journal w) <= limit)%nat -> m c w = (c1, w1, Ok a) ->
    ((length (w_journal w1) <= limit)%nat /\ mf c w = (c1, w1, Ok a)) \/
    ((limit < length (w_journal w1))%nat /\
     exists ck wk, mf c w = (ck, wk, Err IOErr) /\ on_path limit w w1 wk).

Lemma fsim_same {A} limit (m : M A) :
  (forall c w c' w' r, m c w = (c', w', r) -> w_disk w' = w_disk w /\ w_journal w' = w_journal w) ->
  fsim limit m m.
Proof.
  intros Hq. split; [apply journaled_same, Hq|].
  intros c w c1 w1 a Hle H. left. split; [|exact H]. apply Hq in H as [_ ->]. exact Hle.
Qed.

Lemma fsim_ret {A} limit (a : A) : fsim limit (ret a) (ret a).
Proof. apply fsim_same. intros c w c' w' r H. now prim_inv H. Qed.
Lemma fsim_lift {A} limit (x : res A) : fsim limit (lift x) (lift x).
Proof. apply fsim_same. intros c w c' w' r H. now prim_inv H. Qed.
Lemma fsim_get_core limit : fsim limit get_core get_core.
Proof. apply fsim_same. intros c w c' w' r H. now prim_inv H. Qed.
Lemma fsim_get_disk limit : fsim limit get_disk get_disk.
Proof. apply fsim_same. intros c w c' w' r H. now prim_inv H. Qed.
Lemma fsim_send limit e : fsim limit (send e) (send e).
Proof. apply fsim_same. intros c w c' w' r H. now prim_inv H. Qed.
Lemma fsim_put_header limit h : fsim limit (put_header h) (put_header h).
Proof. apply fsim_same. intros c w c' w' r H. now prim_inv H. Qed.
Lemma fsim_put_oplog limit o : fsim limit (put_oplog o) (put_oplog o).
Proof. apply fsim_same. intros c w c' w' r H. now prim_inv H. Qed.
Lemma fsim_put_tree limit t : fsim limit (put_tree t) (put_tree t).
Proof. apply fsim_same. intros c w c' w' r H. now prim_inv H. Qed.
Lemma fsim_put_bitfield limit b : fsim limit (put_bitfield b) (put_bitfield b).
Proof. apply fsim_same. intros c w c' w' r H. now prim_inv H. Qed.
Lemma fsim_put_skip limit s : fsim limit (put_skip s) (put_skip s).
Proof. apply fsim_same. intros c w c' w' r H. now prim_inv H. Qed.

Lemma fsim_emit limit ops : fsim limit (emit ops) (emit_lim limit ops).
Proof.
  split; [apply journaled_emit|].
  induction ops as [|o ops IH]; intros c w c1 w1 a Hle H.
  - left. cbn [emit emit_lim] in *. unfold ret in H. injection H as <- <- <-. split; [exact Hle|reflexivity].
  - pose proof (emit_ok _ _ _ _ _ _ H) as (_ & _ & Hj & Hd).
    cbn [emit] in H. cbn [emit_lim].
    destruct (Nat.eqb_spec (length (w_journal w)) limit) as [Eq|Ne].
    + right. split; [rewrite Hj, app_length, rev_length; cbn [length]; lia|].
      exists c, w. split; [reflexivity|]. split; [exact Eq|].
      exists [], (o :: ops). split; [reflexivity|]. split; [reflexivity|]. split; [exact Hj|exact Hd].
    + destruct (apply_sop (w_disk w) o) as [d'|] eqn:Ea; [|discriminate H].
      destruct (IH c (mkWorld d' (o :: w_journal w) (w_events w)) c1 w1 a) as [[L E]|[L (ck & wk & E & P)]];
        [cbn [w_journal length]; lia|exact H| |].
      * left. split; [exact L|exact E].
      * right. split; [exact L|]. exists ck, wk. split; [exact E|].
        destruct P as (Len & opsk & rest & J1 & D1 & J2 & D2). cbn [w_journal w_disk] in J1, D1.
        split; [exact Len|]. exists (o :: opsk), rest.
        split; [rewrite J1; cbn [rev]; rewrite <- app_assoc; reflexivity|].
        split; [cbn [apply_sops]; rewrite Ea; exact D1|]. split; [exact J2|exact D2].
Qed.

Lemma fsim_bind {A B} limit (m mf : M A) (f ff : A -> M B) :
  fsim limit m mf -> (forall a, fsim limit (f a) (ff a)) -> fsim limit (mbind m f) (mbind mf ff).
Proof.
  intros [Jm Hm] Hf. split; [apply journaled_bind; [exact Jm|intros a; apply Hf]|].
  intros c w c2 w2 b Hle H.
  apply mbind_inv in H as (c1 & w1 & r1 & Hm0 & H).
  destruct r1 as [a|e|s|]; try (destruct H as (_ & _ & H); discriminate H).
  destruct (Jm _ _ _ _ _ Hm0) as (o1 & Jo1 & Do1).
  destruct (Hf a) as [Jf Hfa]. destruct (Jf _ _ _ _ _ H) as (o2 & Jo2 & Do2).
  destruct (Hm c w c1 w1 a Hle Hm0) as [[L1 E1]|[L1 (ck & wk & E1 & P)]].
  - destruct (Hfa c1 w1 c2 w2 b L1 H) as [[L2 E2]|[L2 (ck & wk & E2 & P)]].
    + left. split; [exact L2|]. unfold mbind. rewrite E1. exact E2.
    + right. split; [exact L2|]. exists ck, wk. split; [unfold mbind; rewrite E1; exact E2|].
      destruct P as (Len & opsk & rest & J1 & D1 & J2 & D2).
      split; [exact Len|]. exists (rev o1 ++ opsk), rest.
      split; [rewrite J1, Jo1, rev_app_distr, rev_involutive, <- app_assoc; reflexivity|].
      split; [rewrite CoreFacts.apply_sops_app, Do1; exact D1|]. split; [exact J2|exact D2].
  - right. split; [rewrite Jo2, app_length; lia|].
    exists ck, wk. split; [unfold mbind; rewrite E1; reflexivity|].
    destruct P as (Len & opsk & rest & J1 & D1 & J2 & D2).
    split; [exact Len|]. exists opsk, (rest ++ rev o2).
    split; [exact J1|]. split; [exact D1|].
    split; [rewrite Jo2, J2, rev_app_distr, rev_involutive, <- app_assoc; reflexivity|].
    rewrite CoreFacts.apply_sops_app, D2. exact Do2.
Qed.

Ltac fsim_prim :=
  first [ apply fsim_ret | apply fsim_lift | apply fsim_get_core | apply fsim_get_disk | apply fsim_send
        | apply fsim_put_header | apply fsim_put_oplog | apply fsim_put_tree | apply fsim_put_bitfield
        | apply fsim_put_skip | apply fsim_emit ].
Ltac fsim_case :=
  match goal with
  | |- fsim _ (match ?x with _ => _ end) _ => destruct x
  end.
Ltac fsim_tac :=
  repeat first [ fsim_prim | hyp | apply fsim_bind; [|intros ?] | fsim_case ].

Section FaultyOps.
  Variable cr : crypto.
  Variable limit : nat.

  Lemma flush_all_fsim ct : fsim limit (flush_all cr ct) (flush_all_E cr (emit_lim limit) ct).
  Proof. unfold flush_all, flush_all_E. fsim_tac. Qed.

  Lemma maybe_flush_fsim f : fsim limit (maybe_flush cr f) (maybe_flush_E cr (emit_lim limit) f).
  Proof. pose proof flush_all_fsim. unfold maybe_flush, maybe_flush_E. fsim_tac. Qed.

  Lemma log_and_commit_fsim cs bu :
    fsim limit (log_and_commit cr cs bu) (log_and_commit_E cr (emit_lim limit) cs bu).
  Proof. unfold log_and_commit, log_and_commit_E. fsim_tac. Qed.

  Lemma core_append_fsim f batch :
    fsim limit (core_append cr f batch) (core_append_E cr (emit_lim limit) f batch).
  Proof.
    pose proof maybe_flush_fsim. pose proof log_and_commit_fsim.
    unfold core_append, core_append_E. fsim_tac.
  Qed.

  Lemma core_clear_fsim f s e :
    fsim limit (core_clear cr f s e) (core_clear_E cr (emit_lim limit) f s e).
  Proof. pose proof maybe_flush_fsim. unfold core_clear, core_clear_E. fsim_tac. Qed.
End FaultyOps.

(* the general statement: a call whose fault-free run succeeds with journal delta; its storage operation
   number k (0-based) fails: the call returns the I/O error, and disk and journal are the cut at k *)
Theorem fault_is_cut {A} (m mf : M A) k c d j ev c' w' x delta :
  fsim (length j + k) m mf ->
  m c (mkWorld d j ev) = (c', w', Ok x) -> w_journal w' = rev delta ++ j -> (k < length delta)%nat ->
  exists ck wk, mf c (mkWorld d j ev) = (ck, wk, Err IOErr) /\
                w_journal wk = rev (firstn k delta) ++ j /\
                apply_sops d (firstn k delta) = Some (w_disk wk).
Proof.
  intros [_ Hs] H Hj Hk.
  destruct (Hs c (mkWorld d j ev) c' w' x ltac:(cbn [w_journal]; lia) H) as [[L _]|[_ (ck & wk & E & P)]].
  - rewrite Hj, app_length, rev_length in L. lia.
  - exists ck, wk. split; [exact E|].
    destruct P as (Len & opsk & rest & J1 & D1 & J2 & D2). cbn [w_journal w_disk] in *.
    assert (Lk : length opsk = k) by (rewrite J1, app_length, rev_length in Len; lia).
    assert (Ed : delta = opsk ++ rest).
    { rewrite J2, J1, app_assoc, <- rev_app_distr in Hj. symmetry. apply (journal_unique _ _ j Hj). }
    assert (Ef : firstn k delta = opsk) by (rewrite Ed, <- Lk, firstn_app, firstn_all, Nat.sub_diag; cbn [firstn]; apply app_nil_r).
    rewrite Ef. split; [exact J1|exact D1].
Qed.

(* a fault position beyond the end of the journal: no operation fails, the call runs as without faults *)
Theorem fault_beyond_end {A} (m mf : M A) k c d j ev c' w' x delta :
  fsim (length j + k) m mf ->
  m c (mkWorld d j ev) = (c', w', Ok x) -> w_journal w' = rev delta ++ j -> (length delta <= k)%nat ->
  mf c (mkWorld d j ev) = (c', w', Ok x).
Proof.
  intros [_ Hs] H Hj Hk.
  destruct (Hs c (mkWorld d j ev) c' w' x ltac:(cbn [w_journal]; lia) H) as [[_ E]|[L _]]; [exact E|].
  rewrite Hj, app_length, rev_length in L. lia.
Qed.

(* ====================================================================================== *)
(* A3. C10 for append and clear: a failing storage operation is a crash cut               *)
(* ====================================================================================== *)

Section C10.
  Variable cr : crypto.
  Hypothesis Hcrc : crc_ok cr.
  Hypothesis Hhash32 : forall x, length (cr_hash cr x) = 32%nat.
  Hypothesis Hnonblank : forall x, all_zero (cr_hash cr x) = false.
  Hypothesis Hhashbytes : forall x, bytes_ok (cr_hash cr x) = true.
  Hypothesis Hsig64 : forall sk m, length (cr_sign cr sk m) = 64%nat.
  Hypothesis Hsigbytes : forall sk m, bytes_ok (cr_sign cr sk m) = true.

  (* storage operation number k of an append fails: the append returns the I/O error; the disk is the cut of
     the fault-free journal at k; dropping the core and reopening gives the state before the append (k < 2)
     or the state after it (k >= 2: the oplog entry had been written) *)
  Theorem append_fault_recovers f batch c d j ev bs cl sk c' w' x delta k :
    YInv cr c d bs cl -> kp_secret (c_keypair c) = Some sk ->
    sumN (map len (bs ++ batch)) <= u64_max ->
    NODE_SIZE * (2 * N.of_nat (length (bs ++ batch))) <= u64_max ->
    core_append cr f batch c (mkWorld d j ev) = (c', w', Ok x) ->
    w_journal w' = rev delta ++ j -> (k < length delta)%nat ->
    exists ck wk,
      core_append_E cr (emit_lim (length j + k)) f batch c (mkWorld d j ev) = (ck, wk, Err IOErr) /\
      w_journal wk = rev (firstn k delta) ++ j /\ apply_sops d (firstn k delta) = Some (w_disk wk) /\
      exists c2 d2 ops2,
        core_open cr None true (w_disk wk) = (d2, ops2, Ok c2) /\
        (if (k <? 2)%nat then YInv cr c2 d2 bs cl
         else YInv cr c2 d2 (bs ++ batch) (cl_mask cl (N.of_nat (length bs)))) /\
        c_keypair c2 = c_keypair c.
  Proof.
    intros X Hsk Hfit Hidx H Hj Hk.
    destruct (fault_is_cut _ _ k c d j ev c' w' x delta (core_append_fsim cr _ f batch) H Hj Hk)
      as (ck & wk & E & Jk & Dk).
    exists ck, wk. split; [exact E|]. split; [exact Jk|]. split; [exact Dk|].
    destruct (append_cut_recovers_Y cr Hcrc Hhash32 Hnonblank Hhashbytes Hsig64 Hsigbytes
                f batch c d j ev bs cl sk c' w' x delta X Hsk Hfit Hidx H Hj k)
      as (dk & A & c2 & d2 & ops2 & Eo & Xk & Kk & _).
    rewrite Dk in A. injection A as <-.
    exists c2, d2, ops2. split; [exact Eo|]. split; [exact Xk|exact Kk].
  Qed.

  (* the same for a clear: before (k = 0) or after (k >= 1) *)
  Theorem clear_fault_recovers f c d j ev bs cl start end_ c' w' r delta k :
    let n := N.of_nat (length bs) in
    YInv cr c d bs cl -> start < n -> start < end_ -> end_ <= u64_max ->
    core_clear cr f start end_ c (mkWorld d j ev) = (c', w', r) ->
    w_journal w' = rev delta ++ j -> (k < length delta)%nat ->
    exists ck wk,
      core_clear_E cr (emit_lim (length j + k)) f start end_ c (mkWorld d j ev) = (ck, wk, Err IOErr) /\
      w_journal wk = rev (firstn k delta) ++ j /\ apply_sops d (firstn k delta) = Some (w_disk wk) /\
      exists c2 d2 ops2,
        core_open cr None true (w_disk wk) = (d2, ops2, Ok c2) /\
        YInv cr c2 d2 bs (if (k <? 1)%nat then cl else cl_clear cl start end_) /\
        c_keypair c2 = c_keypair c.
  Proof.
    intros n X Hsn Hse Hend H Hj Hk.
    destruct (clear_cut_recovers_Y cr Hcrc Hhash32 Hnonblank Hhashbytes f c d j ev bs cl start end_ c' w' r delta
                X Hsn Hse Hend H Hj) as [-> C].
    destruct (fault_is_cut _ _ k c d j ev c' w' tt delta (core_clear_fsim cr _ f start end_) H Hj Hk)
      as (ck & wk & E & Jk & Dk).
    exists ck, wk. split; [exact E|]. split; [exact Jk|]. split; [exact Dk|].
    destruct (C k) as (dk & A & c2 & d2 & ops2 & Eo & Xk & Kk & _).
    rewrite Dk in A. injection A as <-.
    exists c2, d2, ops2. split; [exact Eo|]. split; [exact Xk|exact Kk].
  Qed.
End C10.

(* on the toy instance: the flushing clear of CrashClear3.toy_every_cut_of_a_flushing_clear (13 storage
   operations) with a fault at each of them: Err IOErr, and the disk left reopens as the state before (k = 0)
   or after (k >= 1) *)
Definition fault_probe (c : core) (w : world) (k : nat) : option (res unit * list bool) :=
  let '(ck, wk, r) := core_clear_E toy_cr (emit_lim (length (w_journal w) + k)) (Some true) 1 3 c w in
  match core_open toy_cr None true (w_disk wk) with
  | (_, _, Ok c2) => Some (r, map (core_has c2) [0; 1; 2; 3; 4; 5])
  | _ => None
  end.

Example toy_fault_in_clear :
  match core_open toy_cr (Some toy_keypair) false disk_empty with
  | (d0, _, Ok c0) =>
      match core_append toy_cr (Some false) [[1; 2; 3]; []; [4]; [5; 6]; [7]] c0 (mkWorld d0 [] []) with
      | (c1, w1, Ok _) =>
          map (fault_probe c1 w1) (seq 0 13) =
          map (fun k => Some (Err IOErr, if (k <? 1)%nat then [true; true; true; true; true; false]
                                         else [true; false; false; true; true; false])) (seq 0 13) /\
          core_clear_E toy_cr (emit_lim (length (w_journal w1) + 13)) (Some true) 1 3 c1 w1 =
          core_clear toy_cr (Some true) 1 3 c1 w1
      | _ => False
      end
  | _ => False
  end.
Proof. vm_compute. split; reflexivity. Qed.

(* OBSERVATION beyond C10.  C10 (and the theorems above) drop the instance after the error and reopen.  An
   instance that is KEPT after a failed storage write is not usable: log_and_commit (Core.v, mirroring
   Oplog::append_entries called from Hypercore::append_batch / clear before `flush_infos(..).await?`) advances
   the in-memory oplog length before the entry is written.  When that write fails, the next entry is written
   behind a gap that was never written; every later append is acknowledged with Ok but is not found by the
   next open (whose repair truncate then destroys it).  Toy run: append [1]; append [2;2] with an I/O error at
   its oplog entry write -> Err; on the same instance append [3;3;3] -> Ok (2, 4), append [4] -> Ok (3, 5),
   info says 3 blocks; drop and reopen: 1 block. *)
Example fault_then_continue_loses_acknowledged_appends :
  match core_open toy_cr (Some toy_keypair) false disk_empty with
  | (d0, _, Ok c0) =>
      match core_append toy_cr (Some false) [[1]] c0 (mkWorld d0 [] []) with
      | (c1, w1, Ok _) =>
          let '(c2, w2, r2) :=
            core_append_E toy_cr (emit_lim (length (w_journal w1) + 1)) (Some false) [[2; 2]] c1 w1 in
          let '(c3, w3, r3) := core_append toy_cr (Some false) [[3; 3; 3]] c2 w2 in
          let '(c4, w4, r4) := core_append toy_cr (Some false) [[4]] c3 w3 in
          r2 = Err IOErr /\ r3 = Ok (2, 4) /\ r4 = Ok (3, 5) /\ core_info c4 = mkInfo 3 5 3 0 true /\
          match core_open toy_cr None true (w_disk w4) with
          | (_, ops5, Ok c5) => core_info c5 = mkInfo 1 1 1 0 true /\ ops5 = [ST Oplog 8307]
          | _ => False
          end
      | _ => False
      end
  | _ => False
  end.
Proof. vm_compute. repeat split; reflexivity. Qed.

(* ====================================================================================== *)
(* B. Creation at the Core level                                                           *)
(* ====================================================================================== *)

(* a disk on which at most a (complete or torn) first header-slot write of a creation has happened: tree, data
   and bitfield stores empty, the oplog store shorter than one header slot *)
Definition blank_disk (d : disk) : Prop :=
  d_tree d = file_empty /\ d_data d = file_empty /\ d_bitfield d = file_empty /\ f_len (d_oplog d) < HEADER_SIZE.

Lemma blank_disk_empty : blank_disk disk_empty.
Proof. repeat split. Qed.

(* writing a buffer of at most one slot over a content of at most one slot, then extending to two slots *)
Lemma create_content (c buf : bytes) :
  (length c <= SLOT)%nat -> (length buf <= SLOT)%nat ->
  exists tl, c_truncate (c_write c 0 buf) (ENTRIES_OFFSET + 0) = (buf ++ tl) ++ zeros SLOT ++ [] /\
             length (buf ++ tl) = SLOT.
Proof.
  intros Hc Hb. unfold c_write. change (N.to_nat 0) with 0%nat. cbn [firstn app Nat.add].
  set (c' := c_grow c (0 + len buf)).
  assert (Lc' : length c' = Nat.max (length c) (length buf)).
  { unfold c'. rewrite length_c_grow. unfold len. lia. }
  set (tl0 := skipn (length buf) c').
  assert (Ltl : length tl0 = (length c' - length buf)%nat) by (unfold tl0; apply skipn_length).
  pose proof EO_nat as EO.
  rewrite c_truncate_grow by (rewrite app_length, Ltl, Lc', N.add_0_r, EO; lia).
  exists (tl0 ++ zeros (SLOT - (length buf + length tl0))).
  split.
  - rewrite app_nil_r, <- !app_assoc. f_equal. f_equal. rewrite <- zeros_app. f_equal.
    rewrite app_length, N.add_0_r, EO. lia.
  - rewrite !app_length, zeros_length. lia.
Qed.

Section Creation.
  Variable cr : crypto.
  Hypothesis Hcrc : crc_ok cr.
  Hypothesis Hhash32 : forall x, length (cr_hash cr x) = 32%nat.
  Hypothesis Hnonblank : forall x, all_zero (cr_hash cr x) = false.
  Hypothesis Hhashbytes : forall x, bytes_ok (cr_hash cr x) = true.

  (* the journal of a creation: the header-slot write, then the truncate that extends the oplog store to two
     slots; the buffer begins with the frame of the new header and is at most one slot long *)
  Lemma fresh_buf kp :
    keypair_ok kp = true ->
    exists fr pad,
      frame cr false false (enc_header (header_new kp)) = Ok fr /\ (length (fr ++ pad) < SLOT)%nat /\
      oplog_fresh cr kp =
        Ok (mkOplog (false, false) 0 0, header_new kp, [SW Oplog 0 (fr ++ pad); ST Oplog (ENTRIES_OFFSET + 0)]).
  Proof.
    intros Hkp. pose proof (header_new_len kp Hkp) as Hlen.
    destruct (oplog_fresh_then_open cr Hcrc kp Hkp) as (buf & s0 & Hf & _).
    pose proof Hf as Hf'. unfold oplog_fresh in Hf'.
    apply bind_ok in Hf' as ([bits ops] & Hins & Hf'). injection Hf' as -> Eops.
    pose proof Hins as Hins0.
    apply (insert_header_inv cr) in Hins as (fr & pad & Hfr & _ & -> & _ & _).
    change (w_slot INITIAL_HEADER_BITS) with 0 in *. change (w_bit INITIAL_HEADER_BITS) with false in *.
    injection Eops as <-.
    assert (Lbuf : (length (fr ++ pad) < SLOT)%nat).
    { revert Hins0. unfold insert_header, INITIAL_HEADER_BITS, next_slot. cbn [fst snd xorb negb].
      rewrite Hfr. cbn [bind].
      destruct (8 + 2 * len (enc_header (header_new kp)) <? len fr); [discriminate|].
      intros E. injection E as E. apply (f_equal (@length N)) in E. unfold pad_to in E.
      rewrite (app_length fr), zeros_length in E.
      pose proof (frame_length _ _ _ _ _ Hfr) as Lfr. unfold len, HEADER_SIZE in *. lia. }
    exists fr, pad. split; [exact Hfr|]. split; [exact Lbuf|exact Hf].
  Qed.

  (* opening a blank disk without a key pair: "empty storage", nothing is touched — the state before creation *)
  Theorem open_blank d : blank_disk d -> core_open cr None true d = (d, [], Err EmptyStorage).
  Proof.
    intros (_ & _ & _ & Hl). unfold core_open. cbv iota.
    rewrite (open_short cr (f_content (d_oplog d))) by (rewrite f_len_content; exact Hl). reflexivity.
  Qed.

  (* creating on a blank disk (in particular on what a crashed creation left, also with another key pair)
     succeeds with the empty core *)
  Theorem create_on_blank kp d :
    keypair_ok kp = true -> blank_disk d ->
    exists d' buf c,
      core_open cr (Some kp) false d = (d', [SW Oplog 0 buf; ST Oplog (ENTRIES_OFFSET + 0)], Ok c) /\
      FInv cr c d' [] (fun _ => false) /\ c_keypair c = kp /\
      d_tree d' = file_empty /\ d_data d' = file_empty /\ d_bitfield d' = file_empty.
  Proof.
    intros Hkp (Ht & Hd & Hb & Hl).
    destruct (fresh_buf kp Hkp) as (fr & pad & Hfr & Lbuf & Hf).
    set (buf := fr ++ pad) in *.
    set (cont := f_content (d_oplog d)).
    assert (Lc : len cont < HEADER_SIZE) by (unfold cont; rewrite f_len_content; exact Hl).
    unfold core_open. cbv iota. fold cont.
    assert (Hopen : oplog_open cr (Some kp) cont =
                    Ok (mkOpenOutcome (mkOplog (false, false) 0 0) (header_new kp)
                          [SW Oplog 0 buf; ST Oplog (ENTRIES_OFFSET + 0)] [])).
    { unfold oplog_open, slot_leader.
      rewrite !slice_short by (unfold HEADER_SIZE, ENTRIES_OFFSET in *; lia).
      cbv iota zeta. rewrite Hf. cbn [bind].
      destruct (N.ltb_spec ENTRIES_OFFSET (len cont)) as [A|A]; [unfold HEADER_SIZE, ENTRIES_OFFSET in *; lia|].
      reflexivity. }
    rewrite Hopen. cbn [oo_ops oo_header oo_entries oo_oplog].
    destruct (apply_sops d [SW Oplog 0 buf; ST Oplog (ENTRIES_OFFSET + 0)]) as [d1|] eqn:Ea;
      [|cbn in Ea; discriminate Ea].
    destruct (create_content cont buf) as (tl & Hcc & Ls0);
      [unfold len, HEADER_SIZE in *; lia|lia|].
    set (s0 := buf ++ tl) in *.
    assert (Hcontent : f_content (d_oplog d1) = s0 ++ zeros SLOT ++ []).
    { apply (c_apply_all_sound [SW Oplog 0 buf; ST Oplog (ENTRIES_OFFSET + 0)] d d1);
        [repeat constructor|exact Ea|]. cbn [c_apply_all c_apply]. fold cont. rewrite Hcc. reflexivity. }
    assert (Htree : d_tree d1 = file_empty /\ d_bitfield d1 = file_empty /\ d_data d1 = file_empty).
    { cbn in Ea. injection Ea as <-. cbn [d_set d_tree d_bitfield d_data]. repeat split; assumption. }
    destruct Htree as (Ht1 & Hb1 & Hd1). rewrite Ht1, Hb1.
    pose proof (header_new_ok kp Hkp) as Hok.
    assert (G : good cr s0 (zeros SLOT) [] (SValid (header_new kp) false) SInvalid (false, false) (header_new kp) []).
    { split.
      { split; [exact Hok|]. split; [exact Ls0|]. exists fr, (pad ++ tl). split; [exact Hfr|].
        unfold s0, buf. rewrite <- app_assoc. reflexivity. }
      split; [apply slot_dead_invalid, zeros_dead|]. repeat split; reflexivity. }
    cbn [header_new hd_tree].
    assert (T : tree_open (mkHeaderTree 0 0 [] []) file_empty = Ok (mkTree [] 0 0 0 None nm_empty))
      by reflexivity.
    rewrite T. cbn [bind].
    assert (Bo : bf_open file_empty = mkBf nm_empty []) by reflexivity.
    rewrite Bo. cbn [replay_entries bind hd_keypair].
    exists d1, buf. eexists. split; [reflexivity|].
    split; [|split; [reflexivity|repeat split; assumption]].
    apply (DInv_FInv cr Hhash32 Hnonblank Hhashbytes).
    assert (L0 : lookups cr tE file_empty [] 0).
    { intros dd o H. pose proof (p2_pos dd). nia. }
    split.
    { unfold WInv. cbn [c_tree c_bitfield c_header t_length t_byte_length t_fork t_roots
                        length map sumN concat hd_contig].
      rewrite Ht1, Hd1.
      split; [reflexivity|]. split; [reflexivity|]. split; [reflexivity|]. split; [reflexivity|].
      split. { exact L0. }
      split. { intros i n H. cbn [t_unflushed] in H. rewrite nm_get_empty in H. discriminate H. }
      split. { intros i. unfold bf_get. cbn [bf_bits]. rewrite nm_mem_empty.
               change (N.of_nat 0) with 0. destruct (N.ltb_spec i 0); [lia|reflexivity]. }
      split; [reflexivity|]. split; [reflexivity|].
      split; [unfold u64_max; lia|]. change (N.of_nat 0) with 0. unfold NODE_SIZE, u64_max. lia. }
    cbn [c_oplog c_keypair c_header c_bitfield ol_bits ol_entries_len ol_entries_bytes length].
    change (N.of_nat 0) with 0.
    assert (HD : hdr_desc kp (header_new kp) 0).
    { split; [exact Hok|]. cbn [header_new hd_keypair hd_tree hd_contig ht_fork ht_length
                                 ht_root_hash ht_signature].
      repeat split; try reflexivity. unfold len. cbn [length]. lia. left. reflexivity. }
    exists s0, (zeros SLOT), [], (SValid (header_new kp) false), SInvalid, (header_new kp), [], 0.
    split; [exact Hcontent|]. split; [exact G|]. split; [reflexivity|]. split; [reflexivity|].
    split; [exact HD|]. split; [exact HD|]. split; [reflexivity|].
    split; [rewrite Ht1; exact L0|]. split; [rewrite Hb1; apply BfDisk_empty|].
    intros i H1 H2. lia.
  Qed.

  (* (5) every cut of the journal of a creation, torn slot writes included: before the extending truncate the
     disk is blank — opening it reports empty storage (the state before creation) and creating on it again
     succeeds; after it the disk is the created one, which opens as the empty core *)
  Theorem creation_cuts kp :
    keypair_ok kp = true ->
    exists d' buf c,
      core_open cr (Some kp) false disk_empty = (d', [SW Oplog 0 buf; ST Oplog (ENTRIES_OFFSET + 0)], Ok c) /\
      FInv cr c d' [] (fun _ => false) /\ YInv cr c d' [] (fun _ => false) /\ c_keypair c = kp /\
      (* k = 0, and k = 1 with the slot write torn after t bytes (t >= length buf: complete) *)
      blank_disk disk_empty /\
      (forall t, exists d1, apply_sops disk_empty [SW Oplog 0 (firstn t buf)] = Some d1 /\ blank_disk d1) /\
      (* k = 2 *)
      apply_sops disk_empty [SW Oplog 0 buf; ST Oplog (ENTRIES_OFFSET + 0)] = Some d' /\
      exists c'', core_open cr None true d' = (d', [], Ok c'') /\ FInv cr c'' d' [] (fun _ => false) /\
                  c_keypair c'' = kp.
  Proof.
    intros Hkp.
    destruct (create_on_blank kp disk_empty Hkp blank_disk_empty) as (d' & buf & c & E & D & K & _).
    exists d', buf, c. split; [exact E|]. split; [exact D|]. split; [apply FInv_YInv, D|]. split; [exact K|].
    split; [exact blank_disk_empty|].
    destruct (fresh_buf kp Hkp) as (fr & pad & _ & Lbuf & Hf).
    assert (Ebuf : buf = fr ++ pad).
    { unfold core_open in E. cbv iota in E. change (f_content (d_oplog disk_empty)) with (@nil N) in E.
      rewrite (oplog_open_empty cr kp _ _ _ Hf) in E. cbn [oo_ops] in E.
      destruct (apply_sops disk_empty _); [|discriminate E]. injection E as _ E _. symmetry. exact E. }
    split.
    { intros t. exists (d_set disk_empty Oplog (f_write file_empty 0 (firstn t buf))). split; [reflexivity|].
      split; [reflexivity|]. split; [reflexivity|]. split; [reflexivity|].
      cbn [d_set d_oplog]. rewrite f_write_len. change (f_len file_empty) with 0.
      assert (len (firstn t buf) <= len buf) by (unfold len; rewrite firstn_length; lia).
      rewrite Ebuf in *. unfold len, HEADER_SIZE in *. lia. }
    assert (A : apply_sops disk_empty [SW Oplog 0 buf; ST Oplog (ENTRIES_OFFSET + 0)] = Some d').
    { unfold core_open in E. cbv iota in E. change (f_content (d_oplog disk_empty)) with (@nil N) in E.
      rewrite Ebuf, (oplog_open_empty cr kp _ _ _ Hf) in *. cbn [oo_ops] in E.
      destruct (apply_sops disk_empty _) as [dx|]; [|discriminate E]. injection E as ->. reflexivity. }
    split; [exact A|].
    destruct (reopen_FInv cr Hcrc Hhash32 Hnonblank Hhashbytes c d' [] _ D) as (c'' & Eo & D'' & K'').
    exists c''. split; [exact Eo|]. split; [exact D''|]. rewrite K''. exact K.
  Qed.

  (* in the words of C02 for creation: after any cut, opening answers "empty storage" with the disk untouched
     (and a new creation then succeeds with the empty core), or succeeds with the empty core *)
  Corollary creation_cut_recovers kp kp' :
    keypair_ok kp = true -> keypair_ok kp' = true ->
    exists d' J c,
      core_open cr (Some kp) false disk_empty = (d', J, Ok c) /\
      forall k, exists dk, apply_sops disk_empty (firstn k J) = Some dk /\
        ((core_open cr None true dk = (dk, [], Err EmptyStorage) /\
          exists d2 J2 c2, core_open cr (Some kp') false dk = (d2, J2, Ok c2) /\
                           FInv cr c2 d2 [] (fun _ => false) /\ c_keypair c2 = kp') \/
         (exists c2, core_open cr None true dk = (dk, [], Ok c2) /\
                     FInv cr c2 dk [] (fun _ => false) /\ c_keypair c2 = kp)).
  Proof.
    intros Hkp Hkp'.
    destruct (creation_cuts kp Hkp) as (d' & buf & c & E & D & _ & K & B0 & B1 & A & c'' & Eo & D'' & K'').
    exists d', [SW Oplog 0 buf; ST Oplog (ENTRIES_OFFSET + 0)], c. split; [exact E|].
    assert (Blank : forall dk, blank_disk dk ->
              core_open cr None true dk = (dk, [], Err EmptyStorage) /\
              exists d2 J2 c2, core_open cr (Some kp') false dk = (d2, J2, Ok c2) /\
                               FInv cr c2 d2 [] (fun _ => false) /\ c_keypair c2 = kp').
    { intros dk Bk. split; [apply open_blank, Bk|].
      destruct (create_on_blank kp' dk Hkp' Bk) as (d2 & buf2 & c2 & E2 & D2 & K2 & _).
      exists d2. eexists. exists c2. split; [exact E2|]. split; [exact D2|exact K2]. }
    intros k. destruct k as [|[|k]].
    - exists disk_empty. split; [reflexivity|]. left. apply Blank, B0.
    - destruct (B1 (length buf)) as (d1 & A1 & Bk). rewrite firstn_all in A1.
      exists d1. split; [exact A1|]. left. apply Blank, Bk.
    - exists d'. split; [cbn [firstn]; rewrite firstn_nil; exact A|]. right.
      exists c''. split; [exact Eo|]. split; [exact D''|exact K''].
  Qed.
End Creation.

(* on the toy instance: the creation journal has two operations; cuts 0 and 1 (also torn) open as empty
   storage, cut 2 opens as the empty core *)
Example toy_creation_cuts :
  match core_open toy_cr (Some toy_keypair) false disk_empty with
  | (d', [SW Oplog 0 buf; ST Oplog n], Ok c) =>
      n = ENTRIES_OFFSET /\ (length buf < 700)%nat /\
      map (fun t => match apply_sops disk_empty [SW Oplog 0 (firstn t buf)] with
                    | Some d1 => snd (core_open toy_cr None true d1)
                    | None => Err BadArgument
                    end) [0; 1; 7; 8; 9; 100; 1000]%nat = repeat (Err EmptyStorage) 7 /\
      match core_open toy_cr None true d' with
      | (_, [], Ok c2) => core_info c2 = mkInfo 0 0 0 0 true
      | _ => False
      end
  | _ => False
  end.
Proof. vm_compute. repeat split; try reflexivity. repeat constructor. Qed.

Print Assumptions emit_lim_emit_fail.
Print Assumptions fsim_emit.
Print Assumptions fsim_bind.
Print Assumptions core_append_fsim.
Print Assumptions core_clear_fsim.
Print Assumptions fault_is_cut.
Print Assumptions fault_beyond_end.
Print Assumptions append_fault_recovers.
Print Assumptions clear_fault_recovers.
Print Assumptions toy_fault_in_clear.
Print Assumptions fault_then_continue_loses_acknowledged_appends.
Print Assumptions open_blank.
Print Assumptions create_on_blank.
Print Assumptions creation_cuts.
Print Assumptions creation_cut_recovers.
Print Assumptions toy_creation_cuts.
